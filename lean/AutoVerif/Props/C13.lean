import AutoVerif.Spec.C13
import AutoVerif.Gen.Consts
import Batteries.Data.List.Perm
/-
C13 — Runner returns one result per checked payload, never a stale cached one.

Property theorems only (helpers are `private`).  Everything is proved for every
cache state, payload list (any length, any repetition of work ids on any blocks /
hashes), every answer of the wrapped pipeline per batch, every clock reading and
every delivery order of the batches — no bounds.
-/
open List
namespace AutoVerif.C13

/-! ### batching (`util.Unflatten`) -/

/-- the batch limit the model uses is the one in `runner.go` now -/
theorem workerBatchLimit_eq : workerBatchLimit = Gen.workerBatchLimit := by decide

private theorem unflattenAux_fuel {α} (size : Nat) (hs : 1 ≤ size) :
    ∀ (f₁ f₂ : Nat) (l : List α), l.length ≤ f₁ → l.length ≤ f₂ → unflattenAux size f₁ l = unflattenAux size f₂ l := by
  intro f₁
  induction f₁ with
  | zero => intro f₂ l h _; have : l = [] := by cases l <;> simp_all
            subst this; cases f₂ <;> rfl
  | succ f ih =>
    intro f₂ l h h₂
    cases l with
    | nil => cases f₂ <;> rfl
    | cons a t =>
      simp only [List.length_cons] at h h₂
      cases f₂ with
      | zero => omega
      | succ g =>
        simp only [unflattenAux]
        congr 1
        exact ih g _ (by simp only [List.length_drop, List.length_cons]; omega)
          (by simp only [List.length_drop, List.length_cons]; omega)

/-- `Unflatten` is the Go loop: first `size` elements, then the same on the rest -/
theorem unflatten_cons {α} (size : Nat) (hs : 1 ≤ size) (l : List α) (hl : l ≠ []) :
    unflatten size l = l.take size :: unflatten size (l.drop size) := by
  cases l with
  | nil => exact absurd rfl hl
  | cons a t =>
    simp only [unflatten, List.length_cons, unflattenAux]
    congr 1
    exact unflattenAux_fuel size hs _ _ _ (by simp only [List.length_drop, List.length_cons]; omega) (Nat.le_refl _)

theorem unflatten_nil {α} (size : Nat) : unflatten size ([] : List α) = [] := rfl

private theorem unflattenAux_flatten {α} (size : Nat) :
    ∀ (fuel : Nat) (l : List α), l.length ≤ fuel → 1 ≤ size → (unflattenAux size fuel l).flatten = l := by
  intro fuel
  induction fuel with
  | zero => intro l h _; have : l = [] := by cases l <;> simp_all
            subst this; rfl
  | succ f ih =>
    intro l h hs
    cases l with
    | nil => rfl
    | cons a t =>
      simp only [List.length_cons] at h
      simp only [unflattenAux, List.flatten_cons]
      rw [ih _ (by simp only [List.length_drop, List.length_cons]; omega) hs]
      exact List.take_append_drop _ _

/-- batches cover `toRun` exactly, in payload order: nothing lost, duplicated or reordered -/
theorem unflatten_flatten {α} (size : Nat) (hs : 1 ≤ size) (l : List α) : (unflatten size l).flatten = l :=
  unflattenAux_flatten size _ l (Nat.le_refl _) hs

private theorem unflattenAux_bounds {α} (size : Nat) (hs : 1 ≤ size) :
    ∀ (fuel : Nat) (l : List α), ∀ b ∈ unflattenAux size fuel l, b ≠ [] ∧ b.length ≤ size := by
  intro fuel
  induction fuel with
  | zero => intro l b hb; simp [unflattenAux] at hb
  | succ f ih =>
    intro l b hb
    cases l with
    | nil => simp [unflattenAux] at hb
    | cons a t =>
      simp only [unflattenAux, List.mem_cons] at hb
      rcases hb with hb | hb
      · subst hb
        refine ⟨?_, by simp only [List.length_take]; omega⟩
        intro h
        have := congrArg List.length h
        simp only [List.length_take, List.length_cons, List.length_nil] at this
        omega
      · exact ih _ b hb

/-- every batch is non-empty and has at most `size` payloads -/
theorem unflatten_bounds {α} (size : Nat) (hs : 1 ≤ size) (l : List α) :
    ∀ b ∈ unflatten size l, b ≠ [] ∧ b.length ≤ size :=
  unflattenAux_bounds size hs _ l

/-! ### the cache and the hit condition -/

private theorem find_some {c : Cache} {k : String} {e : Entry} (h : find c k = some e) : e ∈ c ∧ e.key = k := by
  unfold find at h
  exact ⟨List.mem_of_find?_eq_some h, by simpa using List.find?_some h⟩

/-- `Cache.Get` answers with the stored item of exactly that key, and only while it has not expired -/
theorem get_some_iff (c : Cache) (now : Nat) (k : String) (r : CheckResult) :
    get c now k = some r ↔ ∃ e, find c k = some e ∧ expired e now = false ∧ e.item = r := by
  unfold get
  cases hf : find c k with
  | none => simp
  | some e =>
    by_cases hx : expired e now = true
    · simp [hx]
    · have hx' : expired e now = false := by simpa using hx
      simp [hx']

/-- **cache_hit_exact**: a payload is answered from the cache iff the live entry stored under its
work id carries the same check block number and the same check block hash -/
theorem cache_hit_exact (c : Cache) (now : Nat) (p : Payload) (r : CheckResult) :
    hit c now p = some r ↔
      ∃ e, find c p.workID = some e ∧ expired e now = false ∧ e.item = r ∧
        r.trigger.blockNumber = p.trigger.blockNumber ∧ r.trigger.blockHash = p.trigger.blockHash := by
  unfold hit
  cases hg : get c now p.workID with
  | none =>
    simp only [false_iff, reduceCtorEq]
    rintro ⟨e, h1, h2, h3, -⟩
    have := (get_some_iff c now p.workID r).mpr ⟨e, h1, h2, h3⟩
    rw [hg] at this; cases this
  | some r' =>
    obtain ⟨e, h1, h2, h3⟩ := (get_some_iff c now p.workID r').mp hg
    by_cases hc : (r'.trigger.blockNumber == p.trigger.blockNumber && r'.trigger.blockHash == p.trigger.blockHash) = true
    · show (if _ then some r' else none) = some r ↔ _
      rw [if_pos hc]
      simp only [Bool.and_eq_true, beq_iff_eq] at hc
      constructor
      · intro h; cases h; exact ⟨e, h1, h2, h3, hc.1, hc.2⟩
      · rintro ⟨e', h1', _, h3', -⟩
        rw [h1] at h1'; cases h1'
        rw [h3] at h3'; rw [h3']
    · show (if _ then some r' else none) = some r ↔ _
      rw [if_neg hc]
      simp only [false_iff, reduceCtorEq]
      rintro ⟨e', h1', _, h3', hb, hh⟩
      rw [h1] at h1'; cases h1'
      rw [h3] at h3'; subst h3'
      exact hc (by simp [hb, hh])

/-- a served result is for the identical unit of work: same work id, block number and block hash -/
theorem hit_key {c : Cache} (hwf : WF c) {now : Nat} {p : Payload} {r : CheckResult}
    (h : hit c now p = some r) : keyR r = keyP p := by
  obtain ⟨e, h1, _, h3, hb, hh⟩ := (cache_hit_exact c now p r).mp h
  obtain ⟨hm, hk⟩ := find_some h1
  have := hwf e hm
  simp only [keyR, keyP, Prod.mk.injEq]
  refine ⟨?_, hb, hh⟩
  rw [← h3, ← this, hk]

/-- a served result is an item stored in the cache -/
theorem hit_mem {c : Cache} {now : Nat} {p : Payload} {r : CheckResult}
    (h : hit c now p = some r) : ∃ e ∈ c, e.item = r := by
  obtain ⟨e, h1, _, h3, -⟩ := (cache_hit_exact c now p r).mp h
  exact ⟨e, (find_some h1).1, h3⟩

/-- a payload whose work id is cached for another block number or another hash (a fork), or whose
entry has expired, is not served from the cache: it is handed to the pipeline -/
theorem stale_is_rerun (c : Cache) (now : Nat) (ps : List Payload) (p : Payload) (hp : p ∈ ps)
    (h : ∀ e, find c p.workID = some e → expired e now = true ∨
      e.item.trigger.blockNumber ≠ p.trigger.blockNumber ∨ e.item.trigger.blockHash ≠ p.trigger.blockHash) :
    p ∈ toRun c now ps := by
  simp only [toRun, List.mem_filter, hp, true_and, Option.isNone_iff_eq_none]
  cases hh : hit c now p with
  | none => rfl
  | some r =>
    obtain ⟨e, h1, h2, h3, hb, hhs⟩ := (cache_hit_exact c now p r).mp hh
    rcases h e h1 with h | h | h
    · rw [h] at h2; cases h2
    · exact absurd (h3 ▸ hb) h
    · exact absurd (h3 ▸ hhs) h

/-! ### the look-up loop -/

/-- the look-up loop splits the payloads into those served and those to run: none lost, none twice -/
theorem lookup_partition (c : Cache) (now : Nat) (ps : List Payload) :
    ps ~ cached c now ps ++ toRun c now ps := by
  have := (List.filter_append_perm (fun p => (hit c now p).isSome) ps).symm
  refine this.trans ?_
  apply List.Perm.append_left
  unfold toRun
  apply List.Perm.of_eq
  congr 1
  funext p
  cases hit c now p <;> rfl

private theorem hits_eq (c : Cache) (now : Nat) (ps : List Payload) :
    hits c now ps = (cached c now ps).filterMap (hit c now) := by
  induction ps with
  | nil => rfl
  | cons p ps ih =>
    unfold hits cached
    cases h : hit c now p with
    | none => simp only [List.filter_cons, h, Option.isSome_none, Bool.false_eq_true, if_false]; exact ih
    | some r =>
      simp only [List.filter_cons, h, Option.isSome_some, if_true, List.filterMap_cons]
      rw [ih]; rfl

/-- exactly one served result per cached payload, in payload order, for that payload's unit of work -/
theorem hits_keys {c : Cache} (hwf : WF c) (now : Nat) (ps : List Payload) :
    (hits c now ps).map keyR = (cached c now ps).map keyP := by
  induction ps with
  | nil => rfl
  | cons p ps ih =>
    unfold hits cached
    cases h : hit c now p with
    | none => simp only [List.filter_cons, h, Option.isSome_none, Bool.false_eq_true, if_false]; exact ih
    | some r =>
      simp only [List.filter_cons, h, Option.isSome_some, if_true, List.map_cons]
      rw [hit_key hwf h]
      congr 1

private theorem hits_mem {c : Cache} {now : Nat} {ps : List Payload} {r : CheckResult}
    (h : r ∈ hits c now ps) : ∃ p ∈ ps, hit c now p = some r := by
  induction ps with
  | nil => simp [hits] at h
  | cons p ps ih =>
    unfold hits at h
    cases hh : hit c now p with
    | none => rw [hh] at h; obtain ⟨q, hq, hq2⟩ := ih h; exact ⟨q, by simp [hq], hq2⟩
    | some r' =>
      rw [hh] at h
      rcases List.mem_cons.mp h with h | h
      · subst h; exact ⟨p, by simp, hh⟩
      · obtain ⟨q, hq, hq2⟩ := ih h; exact ⟨q, by simp [hq], hq2⟩

/-! ### what a call returns -/

private theorem foldl_aggAcc (outs : List BatchOut) (a : Acc) :
    outs.foldl aggAcc a =
      { values := a.values ++ freshOf outs,
        successes := a.successes + (outs.filter (fun o => o.res.isSome)).length,
        failures := a.failures + (outs.filter (fun o => o.res.isNone)).length,
        err := a.err || outs.any (fun o => o.res.isNone) } := by
  induction outs generalizing a with
  | nil => simp [freshOf]
  | cons o os ih =>
    rw [List.foldl_cons, ih]
    cases h : o.res with
    | none => simp [aggAcc, h, freshOf]; omega
    | some rs => simp [aggAcc, h, freshOf]; omega

private theorem pc_eq (E : Nat) (c : Cache) (now : Nat) (ps : List Payload) (out : Nat → BatchOut) (order : List Nat) :
    parallelCheck E c now ps out order =
      if toRun c now ps = [] then (c, { values := hits c now ps, err := false })
      else ((order.map out).foldl (aggCache E) c,
            finish ((order.map out).foldl aggAcc { values := hits c now ps, successes := 0, failures := 0, err := false })) := by
  unfold parallelCheck
  cases ps with
  | nil => simp [toRun, hits]
  | cons p ps =>
    simp only [List.length_cons, Nat.add_one_ne_zero, if_false]
    by_cases h : toRun c now (p :: ps) = []
    · simp [h]
    · have : (toRun c now (p :: ps)).length ≠ 0 := by simpa using h
      simp [h, this]

private theorem batches_length_zero {c : Cache} {now : Nat} {ps : List Payload} :
    (batches c now ps).length = 0 ↔ toRun c now ps = [] := by
  unfold batches
  constructor
  · intro h
    have h0 : unflatten workerBatchLimit (toRun c now ps) = [] := List.length_eq_zero_iff.mp h
    have := unflatten_flatten workerBatchLimit (by decide) (toRun c now ps)
    rw [h0] at this; simpa using this.symm
  · intro h; rw [h]; rfl

private theorem finish_fold (hs : List CheckResult) (outs : List BatchOut) :
    finish (outs.foldl aggAcc { values := hs, successes := 0, failures := 0, err := false }) =
      if outs ≠ [] ∧ ∀ o ∈ outs, o.res = none then { values := [], err := true }
      else { values := hs ++ freshOf outs, err := false } := by
  rw [foldl_aggAcc]
  unfold finish
  simp only [Nat.zero_add, Bool.false_or]
  by_cases hall : ∀ o ∈ outs, o.res = none
  · have hS : (outs.filter (fun o => o.res.isSome)).length = 0 := by
      rw [List.length_eq_zero_iff, List.filter_eq_nil_iff]
      intro o ho; simp [hall o ho]
    have hF : (outs.filter (fun o => o.res.isNone)).length = outs.length := by
      rw [List.filter_eq_self.mpr]
      intro o ho; simp [hall o ho]
    cases outs with
    | nil => simp
    | cons o os =>
      have ho : o.res = none := hall o (by simp)
      have hos : ∀ a ∈ os, a.res = none := fun a ha => hall a (List.mem_cons_of_mem _ ha)
      simp only [hS, hF, Nat.zero_add, List.length_cons]
      simp [ho]
      exact hos
  · have hex : ∃ o ∈ outs, o.res.isSome = true := by
      apply Classical.byContradiction
      intro hn
      apply hall
      intro o ho
      cases hr : o.res with
      | none => rfl
      | some rs => exact absurd ⟨o, ho, by simp [hr]⟩ hn
    obtain ⟨o, ho, hos⟩ := hex
    have hS : 0 < (outs.filter (fun o => o.res.isSome)).length :=
      List.length_pos_of_mem (List.mem_filter.mpr ⟨ho, hos⟩)
    have : ¬ ((outs.filter (fun o => o.res.isSome)).length + (outs.filter (fun o => o.res.isNone)).length
        = (outs.filter (fun o => o.res.isNone)).length) := by omega
    simp [hall]

/-- closed form of the return value: with `order` a permutation of the indices of the `k` submitted
batches (`k = #batches` unless the caller's context was done), a call answers
`ErrTooManyErrors` (and nothing else) iff there is at least one batch and every batch failed;
otherwise it answers the cache hits followed by the results of the successful batches in delivery
order.  No batch (nothing to run, or no payloads) is not an error: the hits are returned. -/
theorem parallelCheck_ret (E : Nat) (c : Cache) (now : Nat) (ps : List Payload) (out : Nat → BatchOut)
    (order : List Nat) (k : Nat) (hk : k ≤ (batches c now ps).length) (hord : order ~ List.range k) :
    (parallelCheck E c now ps out order).2 =
      if order ≠ [] ∧ ∀ i ∈ order, (out i).res = none then { values := [], err := true }
      else { values := hits c now ps ++ freshOf (order.map out), err := false } := by
  rw [pc_eq]
  by_cases h : toRun c now ps = []
  · have hn : (batches c now ps).length = 0 := batches_length_zero.mpr h
    have hk0 : k = 0 := by omega
    rw [hk0] at hord
    have : order = [] := by simpa using hord.eq_nil
    subst this
    simp [h, freshOf]
  · simp only [h, if_false]
    rw [finish_fold]
    simp

/-- **error_iff_all_failed**: the call fails iff at least one batch was run and every batch that was
run failed (`k` = number of batches run = all of them while the caller's context is alive).
In particular, with ZERO batches (`k = 0`, `order = []`) — no payloads, every payload served from the cache, a
context that was done before anything was submitted, or a runner that had been closed (its stopped worker
group refuses every job) — the right-hand side is false: no error; what is returned then is exactly the
cache hits (`zero_batches_returns_hits`).  In the source this is the `result.Total() == 0` arm: nothing but a
log line, then the error test fails on `result.Total() > 0` (`zero_total_matches_source`); the rates
(`SuccessRate` / `FailureRate`) are computed only in the other arm (`rates_need_batches_matches_source`). -/
theorem error_iff_all_failed (E : Nat) (c : Cache) (now : Nat) (ps : List Payload) (out : Nat → BatchOut)
    (order : List Nat) (k : Nat) (hk : k ≤ (batches c now ps).length) (hord : order ~ List.range k) :
    (parallelCheck E c now ps out order).2.err = true ↔ 0 < k ∧ ∀ i, i < k → (out i).res = none := by
  rw [parallelCheck_ret E c now ps out order k hk hord]
  have hmem : ∀ i, i ∈ order ↔ i < k := fun i => by
    rw [hord.mem_iff, List.mem_range]
  have hne : order ≠ [] ↔ 0 < k := by
    rw [← List.length_pos_iff, hord.length_eq, List.length_range]
  by_cases hc : order ≠ [] ∧ ∀ i ∈ order, (out i).res = none
  · rw [if_pos hc]
    simp only [true_iff]
    exact ⟨hne.mp hc.1, fun i hi => hc.2 i ((hmem i).mpr hi)⟩
  · rw [if_neg hc]
    simp only [Bool.false_eq_true, false_iff]
    intro ⟨h1, h2⟩
    exact hc ⟨hne.mpr h1, fun i hi => h2 i ((hmem i).mp hi)⟩

/-- with an error nothing is returned — not even the results that were found in the cache -/
theorem error_returns_nothing (E : Nat) (c : Cache) (now : Nat) (ps : List Payload) (out : Nat → BatchOut)
    (order : List Nat) (h : (parallelCheck E c now ps out order).2.err = true) :
    (parallelCheck E c now ps out order).2.values = [] := by
  rw [pc_eq] at h ⊢
  by_cases ht : toRun c now ps = []
  · simp [ht] at h
  · simp only [ht, if_false] at h ⊢
    rw [finish_fold] at h ⊢
    split at h
    · rename_i hc; rw [if_pos hc]
    · cases h

/-- nothing to run (all payloads cached, or no payloads): the hits are returned, no error, the
pipeline is not called and the cache is left as it is -/
theorem all_cached_no_error (E : Nat) (c : Cache) (now : Nat) (ps : List Payload) (out : Nat → BatchOut)
    (order : List Nat) (h : toRun c now ps = []) :
    parallelCheck E c now ps out order = (c, { values := hits c now ps, err := false }) := by
  rw [pc_eq, if_pos h]

/-- **results_multiset**: without error the returned results are, as a multiset, the cache hits
together with the results of the successful ones among the `k` batches that were run (index order
shown here; the delivery order only permutes them) — none lost, none duplicated, nothing else -/
theorem results_multiset (E : Nat) (c : Cache) (now : Nat) (ps : List Payload) (out : Nat → BatchOut)
    (order : List Nat) (k : Nat) (hk : k ≤ (batches c now ps).length) (hord : order ~ List.range k)
    (hok : (parallelCheck E c now ps out order).2.err = false) :
    (parallelCheck E c now ps out order).2.values ~
      hits c now ps ++ freshOf ((List.range k).map out) := by
  rw [parallelCheck_ret E c now ps out order k hk hord] at hok ⊢
  split at hok
  · cases hok
  · rename_i hc
    rw [if_neg hc]
    apply List.Perm.append_left
    unfold freshOf
    exact (hord.map out).flatMap_right _

/-- **order independence**: two delivery orders that are permutations of each other give the same
error flag and the same multiset of results -/
theorem order_independent (E : Nat) (c : Cache) (now : Nat) (ps : List Payload) (out : Nat → BatchOut)
    (o₁ o₂ : List Nat) (h : o₁ ~ o₂) :
    (parallelCheck E c now ps out o₁).2.err = (parallelCheck E c now ps out o₂).2.err ∧
    (parallelCheck E c now ps out o₁).2.values ~ (parallelCheck E c now ps out o₂).2.values := by
  rw [pc_eq, pc_eq]
  by_cases ht : toRun c now ps = []
  · simp [ht]
  · simp only [ht, if_false]
    rw [finish_fold, finish_fold]
    have hne : (o₁.map out ≠ [] ∧ ∀ o ∈ o₁.map out, o.res = none) ↔ (o₂.map out ≠ [] ∧ ∀ o ∈ o₂.map out, o.res = none) := by
      have hp := h.map out
      constructor
      · rintro ⟨h1, h2⟩
        refine ⟨fun hn => h1 ?_, fun o ho => h2 o (hp.mem_iff.mpr ho)⟩
        rw [hn] at hp; exact hp.eq_nil
      · rintro ⟨h1, h2⟩
        refine ⟨fun hn => h1 ?_, fun o ho => h2 o (hp.mem_iff.mp ho)⟩
        rw [hn] at hp; exact hp.symm.eq_nil
    by_cases hc : o₁.map out ≠ [] ∧ ∀ o ∈ o₁.map out, o.res = none
    · rw [if_pos hc, if_pos (hne.mp hc)]; exact ⟨rfl, List.Perm.refl _⟩
    · rw [if_neg hc, if_neg (fun h' => hc (hne.mpr h'))]
      refine ⟨rfl, List.Perm.append_left _ ?_⟩
      unfold freshOf
      exact (h.map out).flatMap_right _

/-! ### what gets into the cache -/

private theorem mem_set {c : Cache} {now E : Nat} {k : String} {v : CheckResult} {e : Entry}
    (h : e ∈ set c now E k v) : (e.key = k ∧ e.item = v) ∨ e ∈ c := by
  unfold set at h
  rcases List.mem_cons.mp h with h | h
  · left; subst h; exact ⟨rfl, rfl⟩
  · right; exact (List.mem_filter.mp h).1

private theorem mem_aggOne {E now : Nat} {c : Cache} {r : CheckResult} {e : Entry}
    (h : e ∈ aggOne E now c r) : e ∈ c ∨ (e.item = r ∧ e.key = r.workID ∧ r.pes = 0) := by
  unfold aggOne at h
  split at h
  · rename_i hp
    have hp' : r.pes = 0 := by simpa using hp
    split at h
    · rcases mem_set h with ⟨h1, h2⟩ | h
      · exact Or.inr ⟨h2, h1, hp'⟩
      · exact Or.inl h
    · split at h
      · rcases mem_set h with ⟨h1, h2⟩ | h
        · exact Or.inr ⟨h2, h1, hp'⟩
        · exact Or.inl h
      · exact Or.inl h
  · exact Or.inl h

private theorem mem_foldl_aggOne {E now : Nat} (rs : List CheckResult) {c : Cache} {e : Entry}
    (h : e ∈ rs.foldl (aggOne E now) c) :
    e ∈ c ∨ (e.item ∈ rs ∧ e.key = e.item.workID ∧ e.item.pes = 0) := by
  induction rs generalizing c with
  | nil => exact Or.inl h
  | cons r rs ih =>
    rcases ih h with h | ⟨h1, h2, h3⟩
    · rcases mem_aggOne h with h | ⟨h1, h2, h3⟩
      · exact Or.inl h
      · right; subst h1; exact ⟨by simp, h2, h3⟩
    · exact Or.inr ⟨List.mem_cons_of_mem _ h1, h2, h3⟩

private theorem mem_aggCache {E : Nat} {c : Cache} {o : BatchOut} {e : Entry} (h : e ∈ aggCache E c o) :
    e ∈ c ∨ (e.item ∈ o.res.getD [] ∧ e.key = e.item.workID ∧ e.item.pes = 0) := by
  unfold aggCache at h
  cases hr : o.res with
  | none => rw [hr] at h; exact Or.inl h
  | some rs => rw [hr] at h; simpa using mem_foldl_aggOne rs h

private theorem mem_foldl_aggCache {E : Nat} (outs : List BatchOut) {c : Cache} {e : Entry}
    (h : e ∈ outs.foldl (aggCache E) c) :
    e ∈ c ∨ (e.item ∈ freshOf outs ∧ e.key = e.item.workID ∧ e.item.pes = 0) := by
  induction outs generalizing c with
  | nil => exact Or.inl h
  | cons o os ih =>
    rcases ih h with h | ⟨h1, h2, h3⟩
    · rcases mem_aggCache h with h | ⟨h1, h2, h3⟩
      · exact Or.inl h
      · right; exact ⟨by simp [freshOf, h1], h2, h3⟩
    · right; refine ⟨?_, h2, h3⟩
      simp only [freshOf, List.flatMap_cons, List.mem_append] at h1 ⊢
      exact Or.inr h1

/-- a failed batch leaves the cache untouched -/
theorem failed_batch_not_cached (E : Nat) (c : Cache) (o : BatchOut) (h : o.res = none) :
    aggCache E c o = c := by
  unfold aggCache; rw [h]

/-- **cache_only_success**: after a call every cache entry is either an entry from before the call,
or a result with `PipelineExecutionState = 0` returned by one of this call's successful batches,
stored under that result's work id -/
theorem cache_only_success (E : Nat) (c : Cache) (now : Nat) (ps : List Payload) (out : Nat → BatchOut)
    (order : List Nat) :
    ∀ e ∈ (parallelCheck E c now ps out order).1,
      e ∈ c ∨ (e.item.pes = 0 ∧ e.key = e.item.workID ∧
        ∃ i ∈ order, ∃ rs, (out i).res = some rs ∧ e.item ∈ rs) := by
  intro e he
  rw [pc_eq] at he
  by_cases ht : toRun c now ps = []
  · rw [if_pos ht] at he; exact Or.inl he
  · rw [if_neg ht] at he
    rcases mem_foldl_aggCache _ he with h | ⟨h1, h2, h3⟩
    · exact Or.inl h
    · right
      refine ⟨h3, h2, ?_⟩
      simp only [freshOf, List.mem_flatMap, List.mem_map] at h1
      obtain ⟨o, ⟨i, hi, rfl⟩, hm⟩ := h1
      cases hr : (out i).res with
      | none => rw [hr] at hm; simp at hm
      | some rs => rw [hr] at hm; exact ⟨i, hi, rs, hr, by simpa using hm⟩

/-- the cache a call leaves behind is the cache after its `done` events, whatever the call id and
whatever other information the events carry: calls interact only through these atomic updates -/
theorem parallelCheck_cache_eq_cacheAt (E : Nat) (c : Cache) (now : Nat) (ps : List Payload)
    (out : Nat → BatchOut) (order : List Nat) (k : Nat) (hk : k ≤ (batches c now ps).length)
    (hord : order ~ List.range k) (cid : Nat) (b : Nat → List Payload) :
    (parallelCheck E c now ps out order).1 =
      cacheAt E c (Ev.start cid now ps :: order.map (fun i => Ev.done cid (b i) (out i))) := by
  rw [pc_eq]
  unfold cacheAt
  simp only [List.foldl_cons, cacheStep]
  by_cases ht : toRun c now ps = []
  · have hn : (batches c now ps).length = 0 := batches_length_zero.mpr ht
    have hk0 : k = 0 := by omega
    rw [hk0] at hord
    have : order = [] := by simpa using hord.eq_nil
    subst this
    simp [ht]
  · rw [if_neg ht]
    simp only [List.foldl_map]
    rfl

/-- over any history of calls on a runner that started with an empty cache (sequential or
interleaved callers, any completion order): the cache only ever holds results of successful
pipeline executions of that history, keyed by their work id -/
theorem cacheAt_good (E : Nat) (evs : List Ev) : Good (cacheAt E [] evs) (histOf evs) := by
  suffices h : ∀ (c : Cache) (h0 : List CheckResult), Good c h0 →
      Good (cacheAt E c evs) (h0 ++ histOf evs) by
    simpa using h [] [] (by intro e he; simp at he)
  induction evs with
  | nil => intro c h0 hg; simpa [cacheAt, histOf] using hg
  | cons ev evs ih =>
    intro c h0 hg
    cases ev with
    | start cid now ps =>
      have := ih c h0 hg
      simpa [cacheAt, cacheStep, histOf] using this
    | done cid b o =>
      have hg' : Good (aggCache E c o) (h0 ++ o.res.getD []) := by
        intro e he
        rcases mem_aggCache he with h | ⟨h1, h2, h3⟩
        · obtain ⟨a1, a2, a3⟩ := hg e h
          exact ⟨a1, a2, by simp [a3]⟩
        · exact ⟨h2, h3, by simp [h1]⟩
      have := ih (aggCache E c o) (h0 ++ o.res.getD []) hg'
      simpa [cacheAt, cacheStep, histOf, List.append_assoc] using this

/-- `Good` caches are well-keyed -/
theorem Good.wf {c : Cache} {hist : List CheckResult} (h : Good c hist) : WF c := fun e he => (h e he).1

/-! ### the cached block number of a work id never goes down -/

private theorem find_set_same (c : Cache) (now E : Nat) (k : String) (v : CheckResult) :
    find (set c now E k v) k = some { key := k, item := v, expires := if E > 0 then now + E else 0 } := by
  simp [find, set]

private theorem find_set_other (c : Cache) (now E : Nat) (k k' : String) (v : CheckResult) (h : k' ≠ k) :
    find (set c now E k v) k' = find c k' := by
  unfold find set
  rw [List.find?_cons_of_neg (by simpa using fun h' => h h'.symm)]
  rw [List.find?_filter]
  congr 1
  funext a
  by_cases ha : a.key = k'
  · simp [ha, h]
  · simp [ha]

private theorem get_set_same (c : Cache) (now E : Nat) (k : String) (v : CheckResult) :
    get (set c now E k v) now k = some v := by
  unfold get
  rw [find_set_same]
  simp only [expired]
  by_cases hE : E > 0
  · simp [hE]
  · simp [hE]

private theorem get_set_other (c : Cache) (now now' E : Nat) (k k' : String) (v : CheckResult) (h : k' ≠ k) :
    get (set c now E k v) now' k' = get c now' k' := by
  unfold get
  rw [find_set_other c now E k k' v h]

/-- **cache_monotone_block**: aggregating a result never lowers the check block number that is live
in the cache for any work id (an entry is replaced only by a result on a strictly higher block) -/
theorem cache_monotone_block (E now : Nat) (c : Cache) (r : CheckResult) (k : String) (old : CheckResult)
    (h : get c now k = some old) :
    ∃ new, get (aggOne E now c r) now k = some new ∧
      old.trigger.blockNumber ≤ new.trigger.blockNumber := by
  unfold aggOne
  split
  · split
    · rename_i hnone
      by_cases hk : k = r.workID
      · subst hk; rw [h] at hnone; cases hnone
      · rw [get_set_other _ _ _ _ _ _ _ hk]; exact ⟨old, h, Nat.le_refl _⟩
    · rename_i old' hsome
      split
      · rename_i hgt
        by_cases hk : k = r.workID
        · subst hk
          rw [h] at hsome; cases hsome
          rw [get_set_same]; exact ⟨r, rfl, Nat.le_of_lt hgt⟩
        · rw [get_set_other _ _ _ _ _ _ _ hk]; exact ⟨old, h, Nat.le_refl _⟩
      · exact ⟨old, h, Nat.le_refl _⟩
  · exact ⟨old, h, Nat.le_refl _⟩

/-- a fresh result is cached (and then served to an identical payload) only if no result of a
block at least as high is live for its work id; otherwise the live entry stays -/
theorem aggOne_keeps_higher (E now : Nat) (c : Cache) (r old : CheckResult)
    (h : get c now r.workID = some old) (hle : r.trigger.blockNumber ≤ old.trigger.blockNumber) :
    aggOne E now c r = c := by
  unfold aggOne
  split
  · rw [h]
    simp only
    rw [if_neg (by omega)]
  · rfl

/-! ### one result per payload, under the pipeline contract -/

private theorem range_map_getD {α} (bs : List α) (d : α) :
    (List.range bs.length).map (fun i => bs.getD i d) = bs := by
  apply List.ext_getElem
  · simp
  · intro i h1 h2
    simp at h1
    simp [h1]

private theorem range_map_getD_take {α} (bs : List α) (d : α) (k : Nat) (hk : k ≤ bs.length) :
    (List.range k).map (fun i => bs.getD i d) = bs.take k := by
  apply List.ext_getElem
  · simp [Nat.min_eq_left hk]
  · intro i h1 h2
    simp at h1
    have : i < bs.length := by omega
    simp [this]

private theorem mdiff_eq_diff {α} [BEq α] [LawfulBEq α] (l m : List α) : mdiff l m = l.diff m := by
  induction m generalizing l with
  | nil => rfl
  | cons b bs ih => rw [mdiff, List.diff_cons, ih]

private theorem diff_append_self {α} [BEq α] [LawfulBEq α] (a b : List α) : (a ++ b).diff b ~ a := by
  induction b generalizing a with
  | nil => simp
  | cons x xs ih =>
    rw [List.diff_cons]
    have h1 : (a ++ x :: xs) ~ x :: (a ++ xs) := List.perm_middle
    have h2 : (a ++ x :: xs).erase x ~ a ++ xs := by
      have := h1.erase x
      simpa using this
    exact (h2.diff_right xs).trans (ih a)

private theorem mdiff_of_perm_append {α} [BEq α] [LawfulBEq α] {l a b : List α} (h : l ~ a ++ b) :
    mdiff l b ~ a := by
  rw [mdiff_eq_diff]; exact (h.diff_right b).trans (diff_append_self a b)

private theorem mdiff_nil_of_perm_append {α} [BEq α] [LawfulBEq α] {l a b : List α} (h : l ~ a ++ b) :
    mdiff b l = [] := by
  rw [mdiff_eq_diff]
  have h' : l ~ b ++ a := h.trans List.perm_append_comm
  rw [List.Perm.diff_left b h', List.diff_append]
  have : b.diff b = [] := by
    have := diff_append_self ([] : List α) b
    simpa using this.eq_nil
  rw [this, List.nil_diff]

/-- payloads of the successful batches among `ds` -/
private def succD (ds : List (List Payload × BatchOut)) : List Payload :=
  (ds.filter (fun d => d.2.res.isSome)).flatMap (·.1)
private def failedD (ds : List (List Payload × BatchOut)) : List Payload :=
  (ds.filter (fun d => d.2.res.isNone)).flatMap (·.1)
private def freshD (ds : List (List Payload × BatchOut)) : List CheckResult :=
  ds.flatMap (fun d => d.2.res.getD [])

private theorem seen_split (ds : List (List Payload × BatchOut)) :
    ds.flatMap (·.1) ~ succD ds ++ failedD ds := by
  induction ds with
  | nil => simp [succD, failedD]
  | cons d ds ih =>
    cases h : d.2.res with
    | none =>
      simp only [succD, failedD, List.flatMap_cons, List.filter_cons, h, Option.isSome_none,
        Option.isNone_none, Bool.false_eq_true, if_false, if_true] at ih ⊢
      refine (List.Perm.append_left d.1 ih).trans ?_
      rw [← List.append_assoc, ← List.append_assoc]
      exact List.perm_append_comm.append_right _
    | some rs =>
      simp only [succD, failedD, List.flatMap_cons, List.filter_cons, h, Option.isSome_some,
        Option.isNone_some, Bool.false_eq_true, if_false, if_true, List.append_assoc] at ih ⊢
      exact List.Perm.append_left d.1 ih

private theorem fresh_keys (ds : List (List Payload × BatchOut)) (hc : ∀ d ∈ ds, CallObs.contractOk d = true) :
    (freshD ds).map keyR ~ (succD ds).map keyP := by
  induction ds with
  | nil => simp [succD, freshD]
  | cons d ds ih =>
    have ih' := ih (fun x hx => hc x (List.mem_cons_of_mem _ hx))
    have hd := hc d (by simp)
    cases h : d.2.res with
    | none =>
      simp only [succD, freshD, List.flatMap_cons, List.filter_cons, h, Option.isSome_none,
        Bool.false_eq_true, if_false, Option.getD_none, List.nil_append] at ih' ⊢
      exact ih'
    | some rs =>
      simp only [CallObs.contractOk, h, List.isPerm_iff] at hd
      simp only [succD, freshD, List.flatMap_cons, List.filter_cons, h, Option.isSome_some,
        if_true, Option.getD_some, List.map_append] at ih' ⊢
      exact hd.append ih'

private def donesOfOrder (bs : List (List Payload)) (out : Nat → BatchOut) (order : List Nat) :
    List (List Payload × BatchOut) := order.map (fun i => (bs.getD i [], out i))

private theorem seen_order {bs : List (List Payload)} {out : Nat → BatchOut} {order : List Nat} {k : Nat}
    (hk : k ≤ bs.length) (hord : order ~ List.range k) :
    (donesOfOrder bs out order).flatMap (·.1) ~ (bs.take k).flatten := by
  unfold donesOfOrder
  rw [List.flatMap_map]
  refine (hord.flatMap_right _).trans (List.Perm.of_eq ?_)
  show flatMap (fun a => bs.getD a []) (range k) = (bs.take k).flatten
  rw [List.flatMap_def, range_map_getD_take bs [] k hk]

/-- `toRun` is what was submitted followed by what was abandoned -/
private theorem toRun_split (c : Cache) (now : Nat) (ps : List Payload) (k : Nat) :
    ((batches c now ps).take k).flatten ++ abandoned (batches c now ps) k = toRun c now ps := by
  unfold abandoned
  rw [← List.flatten_append, List.take_append_drop]
  exact unflatten_flatten workerBatchLimit (by decide) _

private theorem failedD_range (bs : List (List Payload)) (out : Nat → BatchOut) (k : Nat) :
    failedD (donesOfOrder bs out (List.range k)) = failedPayloads bs out k := by
  unfold failedD donesOfOrder failedPayloads
  generalize List.range k = l
  induction l with
  | nil => rfl
  | cons i l ih =>
    simp only [List.map_cons, List.filter_cons, List.flatMap_cons]
    cases h : (out i).res with
    | none => simp only [Option.isNone_none, if_true, List.flatMap_cons]; rw [ih]
    | some rs => simp only [Option.isNone_some, Bool.false_eq_true, if_false, List.nil_append]; exact ih

private theorem freshD_order (bs : List (List Payload)) (out : Nat → BatchOut) (order : List Nat) :
    freshD (donesOfOrder bs out order) = freshOf (order.map out) := by
  unfold freshD donesOfOrder freshOf
  rw [List.flatMap_map, List.flatMap_map]

/-- **results_multiset, on units of work**: if the pipeline keeps its contract, then without error
the units of work (work id, block number, block hash) of the returned results, together with those
of the payloads in failed batches and of the payloads in batches that were never submitted (none
while the caller's context is alive), are exactly the units of work of the payloads asked — as
multisets, so the same work id asked on two forks is answered once per fork; none lost, none
duplicated, none for payloads not asked -/
theorem one_result_per_payload (E : Nat) (c : Cache) (hwf : WF c) (now : Nat) (ps : List Payload)
    (out : Nat → BatchOut) (order : List Nat) (k : Nat) (hk : k ≤ (batches c now ps).length)
    (hord : order ~ List.range k)
    (hcon : Contract (batches c now ps) out)
    (hok : (parallelCheck E c now ps out order).2.err = false) :
    (parallelCheck E c now ps out order).2.values.map keyR ++
        ((failedPayloads (batches c now ps) out k).map keyP ++ (abandoned (batches c now ps) k).map keyP)
      ~ ps.map keyP := by
  have hv := (results_multiset E c now ps out order k hk hord hok).map keyR
  refine (hv.append_right _).trans ?_
  rw [List.map_append, hits_keys hwf]
  let bs := batches c now ps
  let ds := donesOfOrder bs out (List.range k)
  have hcs : ∀ d ∈ ds, CallObs.contractOk d = true := by
    intro d hd
    simp only [ds, donesOfOrder, List.mem_map] at hd
    obtain ⟨i, _, rfl⟩ := hd
    unfold CallObs.contractOk
    cases h : (out i).res with
    | none => rfl
    | some rs => simp only [List.isPerm_iff]; exact hcon i rs h
  have h1 := fresh_keys ds hcs
  rw [show freshD ds = freshOf ((List.range k).map out) from freshD_order bs out _] at h1
  have h2 := (seen_split ds).map keyP
  have h3 : ds.flatMap (·.1) ~ (bs.take k).flatten :=
    seen_order (bs := bs) (out := out) hk (List.Perm.refl (List.range k))
  rw [failedD_range] at h2
  have h4 : ((bs.take k).flatten).map keyP ~ (succD ds).map keyP ++ (failedPayloads bs out k).map keyP := by
    rw [← List.map_append]; exact (h3.symm.map keyP).trans h2
  have h5 := (lookup_partition c now ps).map keyP
  rw [← toRun_split c now ps k, List.map_append, List.map_append] at h5
  rw [List.append_assoc]
  refine (List.Perm.append_left _ ?_).trans h5.symm
  rw [← List.append_assoc]
  exact ((h1.append_right _).trans h4.symm).append_right _

/-- if moreover every batch is run and succeeds: exactly one result per payload asked, for that payload's unit of work -/
theorem all_succeed_exact (E : Nat) (c : Cache) (hwf : WF c) (now : Nat) (ps : List Payload)
    (out : Nat → BatchOut) (order : List Nat) (hord : order ~ List.range (batches c now ps).length)
    (hcon : Contract (batches c now ps) out)
    (hall : ∀ i, i < (batches c now ps).length → (out i).res ≠ none) :
    (parallelCheck E c now ps out order).2.err = false ∧
    (parallelCheck E c now ps out order).2.values.map keyR ~ ps.map keyP := by
  have herr : (parallelCheck E c now ps out order).2.err = false := by
    cases h : (parallelCheck E c now ps out order).2.err with
    | false => rfl
    | true =>
      obtain ⟨h0, hf⟩ := (error_iff_all_failed E c now ps out order _ (Nat.le_refl _) hord).mp h
      exact absurd (hf 0 h0) (hall 0 h0)
  refine ⟨herr, ?_⟩
  have := one_result_per_payload E c hwf now ps out order _ (Nat.le_refl _) hord hcon herr
  have hnil : failedPayloads (batches c now ps) out (batches c now ps).length = [] := by
    unfold failedPayloads
    rw [List.flatMap_eq_nil_iff]
    intro i hi
    have := hall i (List.mem_range.mp hi)
    cases h : (out i).res with
    | none => exact absurd h this
    | some rs => simp
  have hab : abandoned (batches c now ps) (batches c now ps).length = [] := by
    simp [abandoned]
  rw [hnil, hab] at this
  simpa using this

/-! ### the model satisfies the run-time predicate -/

private def mObs (c : Cache) (now : Nat) (ps : List Payload) (out : Nat → BatchOut) (order : List Nat)
    (R : Ret) (hist : List CheckResult) (cancelled : Bool) : CallObs :=
  { payloads := ps, dones := donesOfOrder (batches c now ps) out order, ret := R, hist := hist, cancelled := cancelled }

private theorem msub_of_perm_append {α} [BEq α] [LawfulBEq α] {l a b : List α} (h : l ~ a ++ b) :
    msub b l = true := by
  unfold msub; rw [List.isEmpty_iff]; exact mdiff_nil_of_perm_append h

/-- payloads of the call = those served from the cache, those never submitted, those handed to the pipeline -/
private theorem payloads_split {c : Cache} {now : Nat} {ps : List Payload} {out : Nat → BatchOut} {order : List Nat}
    {k : Nat} (hk : k ≤ (batches c now ps).length) (hord : order ~ List.range k) :
    ps ~ (cached c now ps ++ abandoned (batches c now ps) k) ++
      (donesOfOrder (batches c now ps) out order).flatMap (·.1) := by
  have hseen := seen_order (out := out) hk hord
  refine (lookup_partition c now ps).trans ?_
  rw [← toRun_split c now ps k, List.append_assoc]
  refine List.Perm.append_left _ ?_
  exact List.perm_append_comm.trans (List.Perm.append_left _ hseen.symm)

private theorem askedOk_model {c : Cache} {now : Nat} {ps : List Payload} {out : Nat → BatchOut} {order : List Nat}
    {k : Nat} (hk : k ≤ (batches c now ps).length) (hord : order ~ List.range k)
    (R : Ret) (hist : List CheckResult) (cancelled : Bool) :
    CallObs.askedOk (mObs c now ps out order R hist cancelled) = true := by
  simp only [CallObs.askedOk, CallObs.seen, mObs, List.isEmpty_iff]
  exact mdiff_nil_of_perm_append (payloads_split (out := out) hk hord)

private theorem okNoErr {c : Cache} {hist : List CheckResult} (hgood : Good c hist) {now : Nat} {ps : List Payload}
    {out : Nat → BatchOut} {order : List Nat} {k : Nat} (hk : k ≤ (batches c now ps).length)
    (hord : order ~ List.range k) (cancelled : Bool) (hcx : k < (batches c now ps).length → cancelled = true) :
    let o : CallObs := mObs c now ps out order { values := hits c now ps ++ freshOf (order.map out), err := false } hist cancelled
    o.noneLostOk = true ∧ o.servedOk = true ∧ o.cachedOk = true ∧ o.onePerPayloadOk = true := by
  intro o
  let ds := donesOfOrder (batches c now ps) out order
  let ab := abandoned (batches c now ps) k
  have hab : cancelled = false → ab = [] := by
    intro hcf
    have : ¬ k < (batches c now ps).length := fun h => by rw [hcx h] at hcf; cases hcf
    have hkn : k = (batches c now ps).length := by omega
    simp [ab, abandoned, hkn]
  have hfresh : o.fresh = freshOf (order.map out) := freshD_order _ _ _
  have hp : ps ~ (cached c now ps ++ ab) ++ o.seen := payloads_split (out := out) hk hord
  have hrest : o.rest ~ hits c now ps := by
    show mdiff (hits c now ps ++ freshOf (order.map out)) o.fresh ~ _
    rw [hfresh]; exact mdiff_of_perm_append (List.Perm.refl _)
  have hunrun : o.unrun ~ cached c now ps ++ ab := mdiff_of_perm_append hp
  have hrestK : o.rest.map keyR ~ (cached c now ps).map keyP := by
    rw [← hits_keys hgood.wf]; exact hrest.map keyR
  refine ⟨?_, ?_, ?_, ?_⟩
  · show (false || (mdiff o.fresh (hits c now ps ++ freshOf (order.map out))).isEmpty) = true
    rw [hfresh, Bool.false_or, List.isEmpty_iff]
    exact mdiff_nil_of_perm_append (List.Perm.refl _)
  · show (false || (if cancelled = true then msub (o.rest.map keyR) (o.unrun.map keyP)
        else (o.rest.map keyR).isPerm (o.unrun.map keyP))) = true
    rw [Bool.false_or]
    have hu := hunrun.map keyP
    rw [List.map_append] at hu
    cases hcc : cancelled with
    | true =>
      rw [if_pos rfl]
      apply msub_of_perm_append (a := ab.map keyP)
      exact hu.trans (List.perm_append_comm.trans (List.Perm.append_left _ hrestK.symm))
    | false =>
      rw [if_neg (by simp), List.isPerm_iff]
      rw [hab hcc] at hu
      simp only [List.map_nil, List.append_nil] at hu
      exact hrestK.trans hu.symm
  · show (false || o.rest.all (fun r => r.pes == 0 && hist.contains r)) = true
    rw [Bool.false_or, List.all_eq_true]
    intro r hr
    have hr' : r ∈ hits c now ps := hrest.mem_iff.mp hr
    obtain ⟨p, _, hp'⟩ := hits_mem hr'
    obtain ⟨e, he, hei⟩ := hit_mem hp'
    obtain ⟨_, g2, g3⟩ := hgood e he
    rw [hei] at g2 g3
    simp [g2, g3]
  · by_cases hcon : o.dones.all CallObs.contractOk = true
    · show (false || !o.dones.all CallObs.contractOk ||
        (if cancelled = true then
          msub (List.map keyR (hits c now ps ++ freshOf (order.map out))) ((mdiff ps o.failed).map keyP)
         else (List.map keyR (hits c now ps ++ freshOf (order.map out))).isPerm ((mdiff ps o.failed).map keyP))) = true
      rw [hcon]
      simp only [Bool.false_or, Bool.not_true]
      have hcs : ∀ d ∈ ds, CallObs.contractOk d = true := List.all_eq_true.mp hcon
      have h1 := fresh_keys ds hcs
      rw [show freshD ds = freshOf (order.map out) from freshD_order _ _ _] at h1
      have h2 : o.seen ~ succD ds ++ failedD ds := seen_split ds
      have h3 : ps ~ ((cached c now ps ++ succD ds) ++ ab) ++ o.failed := by
        refine hp.trans ?_
        refine (List.Perm.append_left _ h2).trans ?_
        simp only [List.append_assoc]
        refine List.Perm.append_left _ ?_
        rw [← List.append_assoc, ← List.append_assoc]
        exact List.perm_append_comm.append_right _
      have h4 : mdiff ps o.failed ~ (cached c now ps ++ succD ds) ++ ab := mdiff_of_perm_append h3
      have hvals : List.map keyR (hits c now ps ++ freshOf (order.map out)) ~ (cached c now ps ++ succD ds).map keyP := by
        rw [List.map_append, List.map_append, hits_keys hgood.wf]
        exact List.Perm.append_left _ h1
      have h5 := h4.map keyP
      rw [List.map_append] at h5
      cases hcc : cancelled with
      | true =>
        rw [if_pos rfl]
        apply msub_of_perm_append (a := ab.map keyP)
        exact h5.trans (List.perm_append_comm.trans (List.Perm.append_left _ hvals.symm))
      | false =>
        rw [if_neg (by simp), List.isPerm_iff]
        rw [hab hcc] at h5
        simp only [List.map_nil, List.append_nil] at h5
        exact hvals.trans h5.symm
    · show (false || !o.dones.all CallObs.contractOk || _) = true
      have : o.dones.all CallObs.contractOk = false := by simpa using hcon
      rw [this]; rfl

/-- **parallelCheck_spec**: for every cache whose entries are successful results of `hist`, every
payload list, every pipeline behaviour, every number `k` of submitted batches (all of them unless
the caller's context was done) and every delivery order, what the model returns — together with the
batches it hands to the pipeline — satisfies the predicate that the check evaluates on the real
runner's observations (`CallObs.ok`) -/
theorem parallelCheck_spec (E : Nat) (c : Cache) (hist : List CheckResult) (hgood : Good c hist)
    (now : Nat) (ps : List Payload) (out : Nat → BatchOut) (order : List Nat)
    (k : Nat) (hk : k ≤ (batches c now ps).length) (hord : order ~ List.range k)
    (cancelled : Bool) (hcx : k < (batches c now ps).length → cancelled = true) :
    CallObs.ok { payloads := ps,
                 dones := order.map (fun i => ((batches c now ps).getD i [], out i)),
                 ret := (parallelCheck E c now ps out order).2,
                 hist := hist, cancelled := cancelled } = true := by
  show CallObs.ok (mObs c now ps out order (parallelCheck E c now ps out order).2 hist cancelled) = true
  have hasked := askedOk_model (out := out) hk hord (parallelCheck E c now ps out order).2 hist cancelled
  rw [parallelCheck_ret E c now ps out order k hk hord] at hasked ⊢
  by_cases hc : order ≠ [] ∧ ∀ i ∈ order, (out i).res = none
  · rw [if_pos hc] at hasked ⊢
    have herr : CallObs.errOk (mObs c now ps out order { values := [], err := true } hist cancelled) = true := by
      obtain ⟨h1, h2⟩ := hc
      simp only [CallObs.errOk, mObs, donesOfOrder, List.isEmpty_map, List.all_map]
      have : order.isEmpty = false := by cases order <;> simp_all
      rw [this]
      have : order.all ((fun d : List Payload × BatchOut => d.2.res.isNone) ∘ fun i => ((batches c now ps).getD i [], out i)) = true := by
        rw [List.all_eq_true]; intro i hi; simp [h2 i hi]
      rw [this]; rfl
    simp only [CallObs.ok, herr, hasked, Bool.true_and]
    simp [CallObs.noneLostOk, CallObs.servedOk, CallObs.cachedOk, CallObs.onePerPayloadOk, mObs]
  · rw [if_neg hc] at hasked ⊢
    have herr : CallObs.errOk (mObs c now ps out order { values := hits c now ps ++ freshOf (order.map out), err := false } hist cancelled) = true := by
      simp only [CallObs.errOk, mObs, donesOfOrder, List.isEmpty_map, List.all_map, Bool.not_false, Bool.true_or, Bool.and_true]
      cases ho : order with
      | nil => simp
      | cons a t =>
        have hne : order ≠ [] := by rw [ho]; simp
        have : ¬ ∀ i ∈ order, (out i).res = none := fun h => hc ⟨hne, h⟩
        have hall : order.all ((fun d : List Payload × BatchOut => d.2.res.isNone) ∘ fun i => ((batches c now ps).getD i [], out i)) = false := by
          rw [List.all_eq_false]
          apply Classical.byContradiction
          intro hn
          apply this
          intro i hi
          cases hr : (out i).res with
          | none => rfl
          | some rs => exact absurd ⟨i, hi, by simp [hr]⟩ hn
        rw [← ho, hall]; simp [ho]
    obtain ⟨h1, h2, h3, h4⟩ := okNoErr hgood (out := out) hk hord cancelled hcx
    simp only [CallObs.ok, herr, hasked, h1, h2, h3, h4, Bool.and_self]

/-! ### whole histories: concurrent and consecutive callers on one runner -/

/-- **C13 over histories**: every history the model produces on a fresh runner — any number of
callers, any interleaving of their look-ups and batch completions, any pipeline answers, any
clock readings, caller contexts that are done at any point — satisfies the run-time predicate `specTrace` for every call -/
theorem specTrace_of_explained (E : Nat) (rets : List (Nat × Ret × Bool)) (evs : List Ev)
    (h : Explained E rets evs) : specTrace evs rets = true := by
  suffices hs : ∀ (es pre : List Ev), evs = pre ++ es →
      ∀ x ∈ obsOf rets pre.reverse es, (match x.2 with | some o => o.ok | none => false) = true by
    unfold specTrace
    rw [List.all_eq_true]
    exact hs evs [] rfl
  intro es
  induction es with
  | nil => intro pre _ x hx; simp [obsOf] at hx
  | cons e es ih =>
    intro pre heq x hx
    unfold obsOf at hx
    rw [List.mem_append] at hx
    rcases hx with hx | hx
    · cases e with
      | start cid now ps =>
        simp only [List.mem_singleton] at hx
        subst hx
        obtain ⟨out, order, k, cancelled, hk, hcx, hord, hd, hr⟩ := h pre cid now ps es heq
        simp only [hr, Option.map_some, List.reverse_reverse, hd]
        exact parallelCheck_spec E _ _ (cacheAt_good E pre) now ps out order k hk hord cancelled hcx
      | done cid b o => simp at hx
    · have hrev : e :: pre.reverse = (pre ++ [e]).reverse := by simp
      rw [hrev] at hx
      exact ih (pre ++ [e]) (by simp [heq]) x hx

/-! ### no batch at all: no payloads, every payload served from the cache, nothing submitted -/

/-- the error test with a zero total: `result.Total() > 0` fails, whatever the other counters say — the accumulated
values (the cache hits) are returned without error -/
theorem finish_zero_total (a : Acc) (h : a.successes + a.failures = 0) :
    finish a = { values := a.values, err := false } := by
  unfold finish
  simp [h]

/-- **zero batches**: a call none of whose batches was aggregated — because there are no payloads, because every
payload was served from the cache, or because nothing could be submitted (the caller's context was already done, or
the runner had been closed: the stopped worker group refuses every job) — returns the cache hits, in payload order,
reports no error, and leaves the cache as it is -/
theorem zero_batches_returns_hits (E : Nat) (c : Cache) (now : Nat) (ps : List Payload) (out : Nat → BatchOut) :
    parallelCheck E c now ps out [] = (c, { values := hits c now ps, err := false }) := by
  rw [pc_eq]
  by_cases h : toRun c now ps = []
  · rw [if_pos h]
  · rw [if_neg h]
    simp [finish]

/-- `error_iff_all_failed` at `k = 0`: without a batch there is no error -/
theorem zero_batches_no_error (E : Nat) (c : Cache) (now : Nat) (ps : List Payload) (out : Nat → BatchOut)
    (order : List Nat) (hord : order ~ List.range 0) :
    (parallelCheck E c now ps out order).2.err = false := by
  have h := error_iff_all_failed E c now ps out order 0 (Nat.zero_le _) hord
  cases he : (parallelCheck E c now ps out order).2.err with
  | false => rfl
  | true => exact absurd (h.mp he).1 (Nat.lt_irrefl 0)

/-- no payloads: nothing is returned (and nothing asked of cache or pipeline) -/
theorem no_payloads_returns_nothing (E : Nat) (c : Cache) (now : Nat) (out : Nat → BatchOut) (order : List Nat) :
    parallelCheck E c now [] out order = (c, { values := [], err := false }) := by
  simp [parallelCheck]

/-- a call on a closed runner (or with a context that is already done) satisfies the run-time predicate: it is the
`k = 0` instance of `parallelCheck_spec` with the `cancelled` mark the driver gives such a call -/
theorem nothing_submitted_spec (E : Nat) (c : Cache) (hist : List CheckResult) (hgood : Good c hist)
    (now : Nat) (ps : List Payload) (out : Nat → BatchOut) :
    CallObs.ok { payloads := ps, dones := [], ret := { values := hits c now ps, err := false },
                 hist := hist, cancelled := true } = true := by
  have h := parallelCheck_spec E c hist hgood now ps out [] 0 (Nat.zero_le _) (by simp) true (fun _ => rfl)
  rw [zero_batches_returns_hits] at h
  simpa using h

/-! ### life cycle -/

/-- a life-cycle call that answers an error leaves the flag as it was -/
theorem life_error_keeps_flag (running : Bool) (op : LifeOp) (h : (lifeStep running op).2 = true) :
    (lifeStep running op).1 = running := by
  cases op <;> cases running <;> simp_all [lifeStep]

/-- **double Start**: the second `Start` of a running runner answers an error and the runner keeps running; the
`Close` after it succeeds and one more `Close` answers an error -/
theorem double_start_rejected :
    lifeRun false [.start, .start, .close, .close] = [false, true, false, true] ∧
    lifeFlag false [.start, .start] = true := by decide

/-- `Close` before any `Start` answers an error and does not prevent the `Start` that follows -/
theorem close_before_start_rejected : lifeRun false [.close, .start, .close] = [true, false, false] := by decide

private theorem flagAfter_single (running : Bool) (op : LifeOp) :
    flagAfter running [(op, (lifeStep running op).2)] = (lifeStep running op).1 := by
  cases op <;> cases running <;> rfl

/-- the model's answers satisfy the run-time predicate, for every sequence of life-cycle calls -/
theorem lifeRun_spec (running : Bool) (ops : List LifeOp) :
    lifeOk running (ops.zip (lifeRun running ops)) = true := by
  induction ops generalizing running with
  | nil => rfl
  | cons op ops ih =>
    simp only [lifeRun, List.zip_cons_cons, lifeOk, flagAfter_single, ih, Bool.and_true]
    cases op <;> cases running <;> rfl

/-- the predicate determines the answers: whatever satisfies it is what the model answers -/
theorem lifeOk_unique (running : Bool) (ops : List LifeOp) (errs : List Bool) (hl : errs.length = ops.length)
    (h : lifeOk running (ops.zip errs) = true) : errs = lifeRun running ops := by
  induction ops generalizing running errs with
  | nil => cases errs with
    | nil => rfl
    | cons _ _ => simp at hl
  | cons op ops ih =>
    cases errs with
    | nil => simp at hl
    | cons e es =>
      simp only [List.zip_cons_cons, lifeOk, Bool.and_eq_true, beq_iff_eq] at h
      obtain ⟨h1, h2⟩ := h
      have he : e = (lifeStep running op).2 := by
        cases op <;> cases running <;> simp_all [lifeStep]
      subst he
      rw [flagAfter_single] at h2
      simp only [lifeRun]
      rw [← ih (lifeStep running op).1 es (by simpa using hl) h2]

/-! ### a check call made through `Observer.Process` -/

/-- the model of `Process` satisfies the run-time predicate, whatever the tick, the pre-processors, the processor
and the post-processor do -/
theorem process_spec (tickFails : Bool) (tick : List Payload) (pres : List PreSpec) (run : List Payload → Ret)
    (postFails : Bool) :
    ProcObs.ok { tickFails := tickFails, tick := tick, pres := pres, postFails := postFails,
                 out := process tickFails tick pres run postFails,
                 ret := (process tickFails tick pres run postFails).asked.map run } = true := by
  unfold process
  cases tickFails with
  | true => simp [ProcObs.ok, ProcObs.codeOk, ProcObs.preOk, ProcObs.askedOk, ProcObs.postOk]
  | false =>
    rcases hr : runPres pres tick with ⟨_ | ps, n⟩
    · simp [ProcObs.ok, ProcObs.codeOk, ProcObs.preOk, ProcObs.askedOk, ProcObs.postOk, hr]
    · cases he : (run ps).err <;> cases postFails <;>
        simp [ProcObs.ok, ProcObs.codeOk, ProcObs.preOk, ProcObs.askedOk, ProcObs.postOk, hr, he]

/-- **a failing pre-processor ends the call**: the processor (the runner) is not asked, the post-processor is not
called, the pre-processors after it are not invoked, and `Process` answers that pre-processor's error -/
theorem process_pre_error_stops (tick : List Payload) (pres : List PreSpec) (run : List Payload → Ret)
    (postFails : Bool) (h : (runPres pres tick).1 = none) :
    process false tick pres run postFails =
      { code := 2, preCalls := (runPres pres tick).2, asked := none, post := none } := by
  unfold process
  rcases hr : runPres pres tick with ⟨_ | ps, n⟩
  · simp
  · rw [hr] at h; cases h

/-- a pre-processor fails somewhere in the list iff the loop answers `none`; the number of invocations is then the
position of the first failing one (counted from 1) -/
theorem runPres_none_iff {α} (pres : List PreSpec) (l : List α) :
    (runPres pres l).1 = none ↔ ∃ p ∈ pres, p.fails = true := by
  induction pres generalizing l with
  | nil => simp [runPres]
  | cons p ps ih =>
    unfold runPres
    by_cases hp : p.fails = true
    · simp [hp]
    · simp only [hp, Bool.false_eq_true, if_false, List.mem_cons, exists_eq_or_imp, false_or]
      exact ih _

theorem runPres_calls_le {α} (pres : List PreSpec) (l : List α) : (runPres pres l).2 ≤ pres.length := by
  induction pres generalizing l with
  | nil => simp [runPres]
  | cons p ps ih =>
    unfold runPres
    by_cases hp : p.fails = true
    · simp [hp]
    · simp only [hp, Bool.false_eq_true, if_false, List.length_cons]
      exact Nat.succ_le_succ (ih _)

/-- **results are handed on untouched**: when the processor succeeds, the post-processor gets exactly its results
together with exactly the payloads it was asked about (what the last pre-processor returned) -/
theorem process_hands_on_results (tick : List Payload) (pres : List PreSpec) (run : List Payload → Ret)
    (postFails : Bool) (ps : List Payload) (h : (runPres pres tick).1 = some ps) (hok : (run ps).err = false) :
    (process false tick pres run postFails).asked = some ps ∧
    (process false tick pres run postFails).post = some ((run ps).values, ps) ∧
    (process false tick pres run postFails).code = (if postFails then 4 else 0) := by
  unfold process
  rcases hr : runPres pres tick with ⟨_ | ps', n⟩
  · rw [hr] at h; cases h
  · rw [hr] at h
    cases h
    cases postFails <;> simp [hok]

/-- **C13 through the observer**: the check call `Process` makes on the runner is an ordinary call with the
pre-processed payloads, so what the post-processor receives satisfies the per-call predicate of C13 with respect to
those payloads -/
theorem process_runner_spec (E : Nat) (c : Cache) (hist : List CheckResult) (hgood : Good c hist)
    (now : Nat) (tick : List Payload) (pres : List PreSpec) (out : Nat → BatchOut) (order : List Nat) (postFails : Bool)
    (ps : List Payload) (h : (runPres pres tick).1 = some ps)
    (k : Nat) (hk : k ≤ (batches c now ps).length) (hord : order ~ List.range k)
    (cancelled : Bool) (hcx : k < (batches c now ps).length → cancelled = true)
    (hok : (parallelCheck E c now ps out order).2.err = false) :
    ∃ vals, (process false tick pres (fun q => (parallelCheck E c now q out order).2) postFails).post = some (vals, ps) ∧
      CallObs.ok { payloads := ps, dones := order.map (fun i => ((batches c now ps).getD i [], out i)),
                   ret := { values := vals, err := false }, hist := hist, cancelled := cancelled } = true := by
  obtain ⟨_, h2, _⟩ := process_hands_on_results tick pres (fun q => (parallelCheck E c now q out order).2) postFails ps h hok
  refine ⟨_, h2, ?_⟩
  have hs := parallelCheck_spec E c hist hgood now ps out order k hk hord cancelled hcx
  have : (parallelCheck E c now ps out order).2 = { values := (parallelCheck E c now ps out order).2.values, err := false } := by
    cases hp : (parallelCheck E c now ps out order).2 with
    | mk v e => rw [hp] at hok; simp at hok; simp [hok]
  rw [this] at hs
  exact hs

/-! ### what the code does that one might not expect (witnesses, not violations of C13) -/

private def tr (bn : Nat) (bh : String) : Trigger := { blockNumber := bn, blockHash := bh, ext := none }
private def pl (w : String) (bn : Nat) (bh : String) : Payload := { upkeepID := "u" ++ w, trigger := tr bn bh, workID := w }
private def rs (w : String) (bn : Nat) (bh : String) (g : Nat) : CheckResult :=
  { pes := 0, retryable := false, eligible := true, reason := 0, upkeepID := "u" ++ w, trigger := tr bn bh,
    workID := w, gas := g, performData := "", fastGasWei := none, linkNative := none }
private def ok (t : Nat) (l : List CheckResult) : BatchOut := { doneAt := t, res := some l }
private def ko (t : Nat) : BatchOut := { doneAt := t, res := none }

/-- eleven payloads: two batches (10 + 1); the last one is the first one's work id on a fork -/
private def ps11 : List Payload :=
  [pl "a" 5 "h1", pl "b" 5 "h1", pl "c" 5 "h1", pl "d" 5 "h1", pl "e" 5 "h1", pl "f" 5 "h1",
   pl "g" 5 "h1", pl "h" 5 "h1", pl "i" 5 "h1", pl "j" 5 "h1", pl "a" 5 "h2"]
private def rs10 : List CheckResult :=
  [rs "a" 5 "h1" 1, rs "b" 5 "h1" 2, rs "c" 5 "h1" 3, rs "d" 5 "h1" 4, rs "e" 5 "h1" 5, rs "f" 5 "h1" 6,
   rs "g" 5 "h1" 7, rs "h" 5 "h1" 8, rs "i" 5 "h1" 9, rs "j" 5 "h1" 10]
private def outBoth : Nat → BatchOut := fun i => if i = 0 then ok 10 rs10 else if i = 1 then ok 20 [rs "a" 5 "h2" 11] else ko 0
private def outSecondFails : Nat → BatchOut := fun i => if i = 0 then ok 10 rs10 else ko 20
private def outAllFail : Nat → BatchOut := fun _ => ko 10

/-- when every batch fails the call returns nothing at all: results found in the cache for other
payloads of the same call are dropped together with the error -/
theorem error_drops_cached_hits :
    hits [{ key := "z", item := rs "z" 5 "h1" 0, expires := 0 }] 1 (pl "z" 5 "h1" :: ps11) = [rs "z" 5 "h1" 0] ∧
    (parallelCheck 0 [{ key := "z", item := rs "z" 5 "h1" 0, expires := 0 }] 1 (pl "z" 5 "h1" :: ps11) outAllFail [0, 1]).2
      = { values := [], err := true } := by
  decide

/-- the cache left behind (not the returned results) depends on the delivery order: of two forks of
one work id on the same block number, whichever batch is aggregated first stays cached -/
theorem cache_depends_on_order :
    ((parallelCheck 0 [] 1 ps11 outBoth [0, 1]).1.map (fun e => (e.key, e.item.trigger.blockHash))).contains ("a", "h1") = true ∧
    ((parallelCheck 0 [] 1 ps11 outBoth [1, 0]).1.map (fun e => (e.key, e.item.trigger.blockHash))).contains ("a", "h2") = true ∧
    ((parallelCheck 0 [] 1 ps11 outBoth [1, 0]).1.map (fun e => (e.key, e.item.trigger.blockHash))).contains ("a", "h1") = false := by
  decide

/-! ### non-vacuity: the hypotheses of the theorems above are met by concrete, non-trivial values -/

/-- `results_multiset` / `error_iff_all_failed` / `order_independent`: two batches, delivered in reverse, one fails -/
example : [1, 0] ~ List.range (batches [] 1 ps11).length ∧
    (parallelCheck 0 [] 1 ps11 outSecondFails [1, 0]).2.err = false ∧
    (parallelCheck 0 [] 1 ps11 outSecondFails [1, 0]).2.values = rs10 := by
  decide

/-- `one_result_per_payload` / `all_succeed_exact`: the contract holds for `outBoth`, the cache is well-keyed -/
example : Contract (batches [] 1 ps11) outBoth ∧ WF [] ∧
    ((parallelCheck 0 [] 1 ps11 outBoth [1, 0]).2.values.map keyR).isPerm (ps11.map keyP) = true := by
  refine ⟨?_, by intro e he; simp at he, by decide⟩
  intro i l h
  match i with
  | 0 => simp only [outBoth, if_true, ok, Option.some.injEq] at h; subst h; decide
  | 1 => simp only [outBoth, ok] at h; simp at h; subst h; decide
  | n + 2 => simp [outBoth, ko] at h

/-- `cache_hit_exact` / `stale_is_rerun`: served on the same block and hash only; the TTL boundary is `now > expires` -/
example :
    hit [{ key := "a", item := rs "a" 5 "h1" 7, expires := 100 }] 100 (pl "a" 5 "h1") = some (rs "a" 5 "h1" 7) ∧
    hit [{ key := "a", item := rs "a" 5 "h1" 7, expires := 100 }] 101 (pl "a" 5 "h1") = none ∧
    hit [{ key := "a", item := rs "a" 5 "h1" 7, expires := 100 }] 100 (pl "a" 5 "h2") = none ∧
    hit [{ key := "a", item := rs "a" 5 "h1" 7, expires := 100 }] 100 (pl "a" 6 "h1") = none := by
  decide

/-- `specTrace_of_explained` / `cacheAt_good`: two interleaved callers; the second call's look-ups fall between
the two batch completions of the first, so it is served `a…j` from the cache and runs the fork itself -/
example :
    let evs := [Ev.start 0 1 ps11, Ev.done 0 (ps11.take 10) (ok 10 rs10), Ev.start 1 15 ps11,
                Ev.done 0 [pl "a" 5 "h2"] (ok 20 [rs "a" 5 "h2" 11]), Ev.done 1 [pl "a" 5 "h2"] (ok 30 [rs "a" 5 "h2" 12])]
    let rets := [(0, ({ values := rs10 ++ [rs "a" 5 "h2" 11], err := false } : Ret), false),
                 (1, ({ values := rs10 ++ [rs "a" 5 "h2" 12], err := false } : Ret), false)]
    specTrace evs rets = true ∧
    (parallelCheck 0 (cacheAt 0 [] (evs.take 2)) 15 ps11 (fun _ => ok 30 [rs "a" 5 "h2" 12]) [0]).2
      = { values := rs10 ++ [rs "a" 5 "h2" 12], err := false } := by
  decide

/-- a caller context that is done: only the first of the two batches was submitted (`k = 1`); the call returns
that batch's results without error; the predicate accepts this only for a call whose context was done -/
example :
    let evs := [Ev.start 0 1 ps11, Ev.done 0 (ps11.take 10) (ok 10 rs10)]
    [0] ~ List.range 1 ∧ 1 ≤ (batches [] 1 ps11).length ∧
    (parallelCheck 0 [] 1 ps11 outBoth [0]).2 = { values := rs10, err := false } ∧
    specTrace evs [(0, { values := rs10, err := false }, true)] = true ∧
    specTrace evs [(0, { values := rs10, err := false }, false)] = false := by
  decide

/-! ### the driver's reading of an observed call is sound -/

private theorem matchIdx_some {bs : List (List Payload)} {used : List Nat} {b : List Payload} {i : Nat}
    (h : matchIdx bs used b = some i) : i < bs.length ∧ i ∉ used ∧ bs.getD i [] = b := by
  unfold matchIdx at h
  have h1 := List.mem_of_find?_eq_some h
  have h2 := List.find?_some h
  simp only [Bool.and_eq_true, Bool.not_eq_true', beq_iff_eq] at h2
  refine ⟨List.mem_range.mp h1, ?_, ?_⟩
  · intro hu
    have : used.contains i = true := List.contains_iff_mem.mpr hu
    rw [this] at h2; exact absurd h2.1 (by simp)
  · rw [List.getD_eq_getElem?_getD, h2.2]; rfl

private theorem orderOf_sound (bs : List (List Payload)) :
    ∀ (ds : List (List Payload × BatchOut)) (used order : List Nat), orderOf bs used ds = some order →
      ∃ new, order = used.reverse ++ new ∧ new.length = ds.length ∧ (∀ i ∈ new, i < bs.length ∧ i ∉ used) ∧
        new.Nodup ∧ ds.map (·.1) = new.map (fun i => bs.getD i []) := by
  intro ds
  induction ds with
  | nil =>
    intro used order h
    simp only [orderOf, Option.some.injEq] at h
    exact ⟨[], by simp [h], rfl, by simp, List.nodup_nil, rfl⟩
  | cons d ds ih =>
    intro used order h
    obtain ⟨b, o⟩ := d
    unfold orderOf at h
    cases hm : matchIdx bs used b with
    | none => rw [hm] at h; cases h
    | some i =>
      rw [hm] at h
      obtain ⟨hi1, hi2, hi3⟩ := matchIdx_some hm
      obtain ⟨new, e1, e2, e3, e4, e5⟩ := ih (i :: used) order h
      refine ⟨i :: new, by simp [e1], by simp [e2], ?_, ?_, ?_⟩
      · intro j hj
        rcases List.mem_cons.mp hj with hj | hj
        · subst hj; exact ⟨hi1, hi2⟩
        · exact ⟨(e3 j hj).1, fun hu => (e3 j hj).2 (List.mem_cons_of_mem _ hu)⟩
      · rw [List.nodup_cons]
        exact ⟨fun hmem => (e3 i hmem).2 (by simp), e4⟩
      · simp only [List.map_cons, hi3, e5]

private theorem outOf_map : ∀ (order : List Nat) (ds : List (List Payload × BatchOut)),
    order.Nodup → order.length = ds.length → order.map (outOf order ds) = ds.map (·.2) := by
  intro order
  induction order with
  | nil => intro ds _ hl; cases ds with
    | nil => rfl
    | cons _ _ => simp at hl
  | cons i is ih =>
    intro ds hn hl
    cases ds with
    | nil => simp at hl
    | cons d ds =>
      rw [List.nodup_cons] at hn
      simp only [List.map_cons, outOf, if_true]
      congr 1
      rw [← ih ds hn.2 (by simpa using hl)]
      apply List.map_congr_left
      intro k hk
      have : i ≠ k := fun h => hn.1 (h ▸ hk)
      simp [this]

/-- when the driver can read a delivery order off the batches the pipeline was seen to be called with,
that order is a permutation of the indices of the first `k` of the model's batches (`k` = all of
them unless the caller's context was done), the observed batches are exactly these batches in that
order with the observed answers, and the value it compares the implementation's return value with
is `parallelCheck` of these — i.e. the call is `Explained` -/
theorem modelCall_explains (E : Nat) (c : Cache) (now : Nat) (ps : List Payload)
    (ds : List (List Payload × BatchOut)) (cancelled : Bool) (R : Ret)
    (h : modelCall E c now ps ds cancelled = some R) :
    ∃ out order k, k ≤ (batches c now ps).length ∧ (k < (batches c now ps).length → cancelled = true) ∧
      order ~ List.range k ∧
      ds = order.map (fun i => ((batches c now ps).getD i [], out i)) ∧
      R = (parallelCheck E c now ps out order).2 := by
  unfold modelCall at h
  cases ho : orderOf (batches c now ps) [] ds with
  | none => rw [ho] at h; cases h
  | some order =>
    rw [ho] at h
    simp only at h
    split at h
    · rename_i hcond
      simp only [Bool.and_eq_true, Bool.or_eq_true, decide_eq_true_eq, List.all_eq_true] at hcond
      obtain ⟨hlen, hall⟩ := hcond
      obtain ⟨new, e1, e2, e3, e4, e5⟩ := orderOf_sound _ ds [] order ho
      simp only [List.reverse_nil, List.nil_append] at e1
      subst e1
      have hsubN : order ⊆ List.range (batches c now ps).length :=
        fun i hi => List.mem_range.mpr (e3 i hi).1
      have hleN : order.length ≤ (batches c now ps).length := by
        simpa using (List.subperm_of_subset e4 hsubN).length_le
      refine ⟨outOf order ds, order, order.length, hleN, ?_, ?_, ?_, by simpa using h.symm⟩
      · intro hlt
        rcases hlen with hlen | hlen
        · omega
        · exact hlen
      · have hsub : order ⊆ List.range order.length :=
          fun i hi => List.mem_range.mpr (hall i hi)
        exact (List.subperm_of_subset e4 hsub).perm_of_length_le (by simp)
      · have h2 := outOf_map order ds e4 e2
        apply List.ext_getElem
        · simp [e2]
        · intro j hj1 hj2
          have hj3 : j < order.length := by simpa using hj2
          have a1 : (ds.map (·.1))[j]'(by simpa using hj1) = (order.map (fun i => (batches c now ps).getD i []))[j]'(by simpa using hj3) := by
            simp only [e5]
          have a2 : (order.map (outOf order ds))[j]'(by simpa using hj3) = (ds.map (·.2))[j]'(by simpa using hj1) := by
            simp only [h2]
          simp only [List.getElem_map] at a1 a2 ⊢
          exact Prod.ext a1 a2.symm
    · cases h

end AutoVerif.C13
