import AutoVerif.Props.C03
import AutoVerif.Props.C04Tie
import AutoVerif.Gen.Consts
/-
C03Tie — the tie theorems of Props/C03.lean (`…_matches_source`): the model's decision functions equal the
decision expressions `AutoVerif.Gen.Src.*` that the extractor regenerates from the Go source on every check run
(docs/TIE_THEOREMS.md).  They live in a module of their own, which nothing but AutoVerif.lean (and another
property's Tie module, where a tie is reused) imports: a source change that breaks a tie here breaks this
property's check (bin/check audits every module `Props/C03*.lean`) and not the build of the theorem
modules of other properties that import Props/C03.lean.
-/
namespace AutoVerif.C03
open AutoVerif.Outcome AutoVerif.C08

/-! ### the model's validation IS the code's (`Gen.Src`, regenerated on every run)

The limit comparisons and the `seen`-map tests of `validateAutomationObservation` / `validateAutomationOutcome`, in source
order.  (The per-result rules of `validateCheckResult` / `validateUpkeepProposal` stay inside `validCheckResult` /
`validProposal`; the flush conditions of `Reports` are tied in Props/C04Tie — `flush_matches_source`,
`ensureDefaults_matches_source` — which `reports_count_le_max` goes through.  The limits the factory advertises and the
`QuorumTwoFPlusOne` argument sit in a composite literal / a call into libocr, outside the translator: they are pinned by
the extractor's site expectations and checked by Ω on every instance.) -/

theorem validObservation_matches_source (ctx : Ctx) (lim : Limits) (o : Observation) :
    validObservation ctx lim o =
      (!Gen.Src.c03ObsHistoryTooLong o.blockHistory.length lim.obsBlockHistory &&
       scanSeen Gen.Src.c03ObsBlockNumberSeen [] (o.blockHistory.map (·.number)) &&
       !Gen.Src.c03ObsPerformablesTooMany o.performable.length lim.obsPerformables &&
       o.performable.all (validCheckResult ctx) &&
       scanSeen Gen.Src.c03ObsPerformableSeen [] (o.performable.map (·.workID)) &&
       !Gen.Src.c03ObsProposalsTooMany o.proposals.length lim.obsCondProposals lim.obsLogProposals &&
       o.proposals.all (validProposal ctx) &&
       scanSeen Gen.Src.c03ObsProposalSeen [] (o.proposals.map (·.workID)) &&
       !Gen.Src.c03ObsCondProposalsTooMany
          (o.proposals.filter (fun p => ctx.utg p.upkeepID = .condition)).length lim.obsCondProposals &&
       !Gen.Src.c03ObsLogProposalsTooMany
          (o.proposals.filter (fun p => ctx.utg p.upkeepID = .log)).length lim.obsLogProposals) := by
  rw [scanSeen_nodup Gen.Src.c03ObsBlockNumberSeen (fun _ => rfl), scanSeen_nodup Gen.Src.c03ObsPerformableSeen (fun _ => rfl),
    scanSeen_nodup Gen.Src.c03ObsProposalSeen (fun _ => rfl)]
  simp only [validObservation, Gen.Src.c03ObsHistoryTooLong, Gen.Src.c03ObsPerformablesTooMany,
    Gen.Src.c03ObsProposalsTooMany, Gen.Src.c03ObsCondProposalsTooMany, Gen.Src.c03ObsLogProposalsTooMany, not_gt_eq_le]

theorem validOutcome_matches_source (ctx : Ctx) (lim : Limits) (o : Outcome) :
    validOutcome ctx lim o =
      (!Gen.Src.c03OutcomeAgreedTooMany o.agreed.length lim.agreedLimit &&
       o.agreed.all (validCheckResult ctx) &&
       scanSeen Gen.Src.c03OutcomeAgreedSeen [] (o.agreed.map (·.workID)) &&
       !Gen.Src.c03OutcomeRoundsTooMany o.surfaced.length lim.roundHistory &&
       o.surfaced.all (fun round => !Gen.Src.c03OutcomeRoundTooLong round.length lim.perRound) &&
       o.surfaced.flatten.all (validProposal ctx) &&
       scanSeen Gen.Src.c03OutcomeProposalSeen [] (o.surfaced.flatten.map (·.workID))) := by
  rw [scanSeen_nodup Gen.Src.c03OutcomeAgreedSeen (fun _ => rfl), scanSeen_nodup Gen.Src.c03OutcomeProposalSeen (fun _ => rfl)]
  simp only [validOutcome, Gen.Src.c03OutcomeAgreedTooMany, Gen.Src.c03OutcomeRoundsTooMany,
    Gen.Src.c03OutcomeRoundTooLong, not_gt_eq_le]

/-- the report count bound goes through the flush condition of the working tree (tied in Props/C04) -/
theorem reports_flush_matches_source (cfg : C04.Cfg) (cur : List CheckResult) (gas : Nat) (r : CheckResult) :
    C04.flush cfg cur gas r =
      Gen.Src.reportsFlush cur.length cfg.batch gas r.gas cfg.overhead cfg.gasLimit ((cur.map (·.upkeepID)).contains r.upkeepID) :=
  C04.flush_matches_source cfg cur gas r

end AutoVerif.C03
