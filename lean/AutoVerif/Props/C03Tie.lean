import AutoVerif.Props.C03
import AutoVerif.Props.C04Tie
import AutoVerif.Gen.Consts
/-
C03Tie — the tie theorems of Props/C03.lean (`…_matches_source`): the model's decision functions equal the
decision expressions `AutoVerif.Gen.Src.*` that the extractor regenerates from the Go source on every check run
(docs/TIE_THEOREMS.md).  They live in a module of their own, which nothing but AutoVerif.lean (and another
property's Tie module, where a tie is reused) imports: a source change that breaks a tie here breaks this
property's check (bin/check audits every module `Props/C03*.lean`) and not the build of the theorem
modules of other properties that import Props/C03.lean.
-/
namespace AutoVerif.C03
open AutoVerif.Outcome AutoVerif.C08

/-! ### the model's validation IS the code's (`Gen.Src`, regenerated on every run)

The limit comparisons and the `seen`-map tests of `validateAutomationObservation` / `validateAutomationOutcome`, in source
order.  (The per-result rules of `validateCheckResult` / `validateUpkeepProposal` stay inside `validCheckResult` /
`validProposal`; the flush conditions of `Reports` are tied in Props/C04Tie — `flush_matches_source`,
`ensureDefaults_matches_source` — which `reports_count_le_max` goes through.  The limits the factory advertises and the
`QuorumTwoFPlusOne` argument sit in a composite literal / a call into libocr, outside the translator: they are pinned by
the extractor's site expectations and checked by Ω on every instance.) -/

theorem validObservation_matches_source (ctx : Ctx) (lim : Limits) (o : Observation) :
    validObservation ctx lim o =
      (!Gen.Src.c03ObsHistoryTooLong o.blockHistory.length lim.obsBlockHistory &&
       scanSeen Gen.Src.c03ObsBlockNumberSeen [] (o.blockHistory.map (·.number)) &&
       !Gen.Src.c03ObsPerformablesTooMany o.performable.length lim.obsPerformables &&
       o.performable.all (validCheckResult ctx) &&
       scanSeen Gen.Src.c03ObsPerformableSeen [] (o.performable.map (·.workID)) &&
       !Gen.Src.c03ObsProposalsTooMany o.proposals.length lim.obsCondProposals lim.obsLogProposals &&
       o.proposals.all (validProposal ctx) &&
       scanSeen Gen.Src.c03ObsProposalSeen [] (o.proposals.map (·.workID)) &&
       !Gen.Src.c03ObsCondProposalsTooMany
          (o.proposals.filter (fun p => ctx.utg p.upkeepID = .condition)).length lim.obsCondProposals &&
       !Gen.Src.c03ObsLogProposalsTooMany
          (o.proposals.filter (fun p => ctx.utg p.upkeepID = .log)).length lim.obsLogProposals) := by
  rw [scanSeen_nodup Gen.Src.c03ObsBlockNumberSeen (fun _ => rfl), scanSeen_nodup Gen.Src.c03ObsPerformableSeen (fun _ => rfl),
    scanSeen_nodup Gen.Src.c03ObsProposalSeen (fun _ => rfl)]
  simp only [validObservation, Gen.Src.c03ObsHistoryTooLong, Gen.Src.c03ObsPerformablesTooMany,
    Gen.Src.c03ObsProposalsTooMany, Gen.Src.c03ObsCondProposalsTooMany, Gen.Src.c03ObsLogProposalsTooMany, not_gt_eq_le]

theorem validOutcome_matches_source (ctx : Ctx) (lim : Limits) (o : Outcome) :
    validOutcome ctx lim o =
      (!Gen.Src.c03OutcomeAgreedTooMany o.agreed.length lim.agreedLimit &&
       o.agreed.all (validCheckResult ctx) &&
       scanSeen Gen.Src.c03OutcomeAgreedSeen [] (o.agreed.map (·.workID)) &&
       !Gen.Src.c03OutcomeRoundsTooMany o.surfaced.length lim.roundHistory &&
       o.surfaced.all (fun round => !Gen.Src.c03OutcomeRoundTooLong round.length lim.perRound) &&
       o.surfaced.flatten.all (validProposal ctx) &&
       scanSeen Gen.Src.c03OutcomeProposalSeen [] (o.surfaced.flatten.map (·.workID))) := by
  rw [scanSeen_nodup Gen.Src.c03OutcomeAgreedSeen (fun _ => rfl), scanSeen_nodup Gen.Src.c03OutcomeProposalSeen (fun _ => rfl)]
  simp only [validOutcome, Gen.Src.c03OutcomeAgreedTooMany, Gen.Src.c03OutcomeRoundsTooMany,
    Gen.Src.c03OutcomeRoundTooLong, not_gt_eq_le]

/-- the report count bound goes through the flush condition of the working tree (tied in Props/C04) -/
theorem reports_flush_matches_source (cfg : C04.Cfg) (cur : List CheckResult) (gas : Nat) (r : CheckResult) :
    C04.flush cfg cur gas r =
      Gen.Src.reportsFlush cur.length cfg.batch gas r.gas cfg.overhead cfg.gasLimit ((cur.map (·.upkeepID)).contains r.upkeepID) :=
  C04.flush_matches_source cfg cur gas r


/-! ### decision trees: the order of the error exits and the loop bodies (`"kind": "tree"`, regenerated on every run) -/

/-- the upkeep type as the number the source compares with (`types.ConditionTrigger = 0`, `types.LogTrigger = 1`) -/
def typeCode : UpkeepType → Nat
  | .condition => 0
  | .log => 1
  | .other => 2

private theorem obsTree_exit (a A b B c C L d e : Nat) :
    Gen.Src.c03ObsTree a A b B c C L d e = 11 ↔ (a ≤ A ∧ b ≤ B ∧ c ≤ C + L ∧ d ≤ C ∧ e ≤ L) := by
  simp only [Gen.Src.c03ObsTree, decide_eq_true_eq]
  repeat' split
  all_goals omega

private theorem outcomeTree_exit (a A r R : Nat) :
    Gen.Src.c03OutcomeTree a A r R = 8 ↔ (a ≤ A ∧ r ≤ R) := by
  simp only [Gen.Src.c03OutcomeTree, decide_eq_true_eq]
  repeat' split
  all_goals omega

private theorem roundTree_exit (n l : Nat) : Gen.Src.c03OutcomeRoundLoopTree n l = 0 ↔ n ≤ l := by
  simp only [Gen.Src.c03OutcomeRoundLoopTree, decide_eq_true_eq]
  split <;> omega

/-- **`validateAutomationObservation` is the source's tree of error exits.**  The function body — which limit is tested
first, and that `return nil` (exit 11) is reached only when none of the five tests fires — and the three loop bodies —
per element: validation error first, then the `seen` test, exit 0 = next element — are read off the source on every run;
the model's Boolean equals "the body reaches `return nil` and every loop runs to its end" for every observation. -/
theorem validObservation_tree_matches_source (ctx : Ctx) (lim : Limits) (o : Observation) :
    validObservation ctx lim o =
      (decide (Gen.Src.c03ObsTree o.blockHistory.length lim.obsBlockHistory o.performable.length lim.obsPerformables
          o.proposals.length lim.obsCondProposals lim.obsLogProposals
          (o.proposals.filter (fun p => ctx.utg p.upkeepID = .condition)).length
          (o.proposals.filter (fun p => ctx.utg p.upkeepID = .log)).length = 11) &&
       runLoop (fun (b : BlockKey) => b.number) (fun _ seen => Gen.Src.c03ObsHistLoopTree seen) [] o.blockHistory &&
       runLoop (fun (r : CheckResult) => r.workID)
         (fun r seen => Gen.Src.c03ObsPerfLoopTree (!validCheckResult ctx r) seen) [] o.performable &&
       runLoop (fun (p : Proposal) => p.workID)
         (fun p seen => Gen.Src.c03ObsPropLoopTree (!validProposal ctx p) seen (typeCode (ctx.utg p.upkeepID)))
         [] o.proposals) := by
  have l1 := runLoop_all_nodup (fun (b : BlockKey) => b.number) (fun _ seen => Gen.Src.c03ObsHistLoopTree seen)
    (fun _ => true) (by intro x s; cases s <;> simp [Gen.Src.c03ObsHistLoopTree]) o.blockHistory
  have l2 := runLoop_all_nodup (fun (r : CheckResult) => r.workID)
    (fun r seen => Gen.Src.c03ObsPerfLoopTree (!validCheckResult ctx r) seen) (validCheckResult ctx)
    (by intro x s; cases s <;> cases validCheckResult ctx x <;> simp [Gen.Src.c03ObsPerfLoopTree]) o.performable
  have l3 := runLoop_all_nodup (fun (p : Proposal) => p.workID)
    (fun p seen => Gen.Src.c03ObsPropLoopTree (!validProposal ctx p) seen (typeCode (ctx.utg p.upkeepID))) (validProposal ctx)
    (by intro x s; cases s <;> cases validProposal ctx x <;> simp [Gen.Src.c03ObsPropLoopTree]) o.proposals
  rw [l1, l2, l3, Bool.eq_iff_iff]
  simp only [validObservation, Bool.and_eq_true, decide_eq_true_eq, obsTree_exit, List.all_eq_true]
  constructor
  · rintro ⟨⟨⟨⟨⟨⟨⟨⟨⟨h1, h2⟩, h3⟩, h4⟩, h5⟩, h6⟩, h7⟩, h8⟩, h9⟩, h10⟩
    exact ⟨⟨⟨⟨h1, h3, h6, h9, h10⟩, fun _ _ => trivial, h2⟩, h4, h5⟩, h7, h8⟩
  · rintro ⟨⟨⟨⟨h1, h3, h6, h9, h10⟩, _, h2⟩, h4, h5⟩, h7, h8⟩
    exact ⟨⟨⟨⟨⟨⟨⟨⟨⟨h1, h2⟩, h3⟩, h4⟩, h5⟩, h6⟩, h7⟩, h8⟩, h9⟩, h10⟩

/-- **`validateAutomationOutcome` is the source's tree of error exits**: the body (agreed limit, then round-history
limit, `return nil` = exit 8) and the loop bodies over the agreed performables, over the rounds (per-round limit) and over
the proposals of a round (validation error, then the `seen` test; the `seen` map spans all rounds). -/
theorem validOutcome_tree_matches_source (ctx : Ctx) (lim : Limits) (o : Outcome) :
    validOutcome ctx lim o =
      (decide (Gen.Src.c03OutcomeTree o.agreed.length lim.agreedLimit o.surfaced.length lim.roundHistory = 8) &&
       runLoop (fun (r : CheckResult) => r.workID)
         (fun r seen => Gen.Src.c03OutcomeAgreedLoopTree (!validCheckResult ctx r) seen) [] o.agreed &&
       o.surfaced.all (fun round => decide (Gen.Src.c03OutcomeRoundLoopTree round.length lim.perRound = 0)) &&
       runLoop (fun (p : Proposal) => p.workID)
         (fun p seen => Gen.Src.c03OutcomeProposalLoopTree (!validProposal ctx p) seen) [] o.surfaced.flatten) := by
  have l1 := runLoop_all_nodup (fun (r : CheckResult) => r.workID)
    (fun r seen => Gen.Src.c03OutcomeAgreedLoopTree (!validCheckResult ctx r) seen) (validCheckResult ctx)
    (by intro x s; cases s <;> cases validCheckResult ctx x <;> simp [Gen.Src.c03OutcomeAgreedLoopTree]) o.agreed
  have l2 := runLoop_all_nodup (fun (p : Proposal) => p.workID)
    (fun p seen => Gen.Src.c03OutcomeProposalLoopTree (!validProposal ctx p) seen) (validProposal ctx)
    (by intro x s; cases s <;> cases validProposal ctx x <;> simp [Gen.Src.c03OutcomeProposalLoopTree]) o.surfaced.flatten
  rw [l1, l2, Bool.eq_iff_iff]
  simp only [validOutcome, Bool.and_eq_true, decide_eq_true_eq, outcomeTree_exit, roundTree_exit, List.all_eq_true]
  constructor
  · rintro ⟨⟨⟨⟨⟨⟨h1, h2⟩, h3⟩, h4⟩, h5⟩, h6⟩, h7⟩
    exact ⟨⟨⟨⟨h1, h4⟩, h2, h3⟩, h5⟩, h6, h7⟩
  · rintro ⟨⟨⟨⟨h1, h4⟩, h2, h3⟩, h5⟩, h6, h7⟩
    exact ⟨⟨⟨⟨⟨⟨h1, h2⟩, h3⟩, h4⟩, h5⟩, h6⟩, h7⟩

end AutoVerif.C03
