import AutoVerif.Props.C13
import AutoVerif.Gen.Consts
/-
C13Tie — the tie theorems of Props/C13.lean (`…_matches_source`): the model's decision functions equal the
decision expressions `AutoVerif.Gen.Src.*` that the extractor regenerates from the Go source on every check run
(docs/TIE_THEOREMS.md).  They live in a module of their own, which nothing but AutoVerif.lean (and another
property's Tie module, where a tie is reused) imports: a source change that breaks a tie here breaks this
property's check (bin/check audits every module `Props/C13*.lean`) and not the build of the theorem
modules of other properties that import Props/C13.lean.
-/
open List
namespace AutoVerif.C13

/-! ### the model's decisions ARE the expressions of the working tree (`Gen.Src`, regenerated every run) -/

/-- the TTL test of `Cache.Get`: `value.Expires > 0` and then `time.Now().UnixNano() > value.Expires` -/
theorem expired_matches_source (e : Entry) (now : Nat) :
    expired e now = (Gen.Src.c13GetHasExpiry e.expires && Gen.Src.c13GetExpired now e.expires) := rfl

/-- `Cache.Get`: absent (`!found`) or expired ⇒ `(zero, false)`, else the item -/
theorem get_matches_source (c : Cache) (now : Nat) (k : String) :
    get c now k =
      if Gen.Src.c13GetAbsent (find c k).isSome then none
      else match find c k with
        | none => none
        | some e =>
          if Gen.Src.c13GetHasExpiry e.expires && Gen.Src.c13GetExpired now e.expires then none else some e.item := by
  simp only [get, Gen.Src.c13GetAbsent, ← expired_matches_source]
  cases find c k with
  | none => rfl
  | some e => by_cases hx : expired e now = true <;> simp [hx]

/-- `Cache.Set(key, value, DefaultCacheExpiration)`: the argument selects the configured expiry, and an
expiry time is stored only if that is positive -/
theorem set_matches_source (c : Cache) (now E : Nat) (k : String) (v : CheckResult) :
    Gen.Src.c13SetDefault 0 0 = true ∧
    set c now E k v =
      { key := k, item := v, expires := if Gen.Src.c13SetHasExpiry (Int.ofNat E) then now + E else 0 } ::
        c.filter (fun e => !(e.key == k)) := by
  refine ⟨rfl, ?_⟩
  simp only [set, Gen.Src.c13SetHasExpiry]
  congr 2
  by_cases h : E > 0
  · simp [h]
  · simp [h]

/-- the cache-hit test of `parallelCheck`: `ok && res.Trigger.BlockNumber == payload.Trigger.BlockNumber &&
res.Trigger.BlockHash == payload.Trigger.BlockHash` (`res` is the zero value when `!ok`) -/
theorem hit_matches_source (c : Cache) (now : Nat) (p : Payload) :
    hit c now p =
      let res := (get c now p.workID).getD default
      if Gen.Src.c13CacheHit (get c now p.workID).isSome res.trigger.blockNumber p.trigger.blockNumber
           res.trigger.blockHash p.trigger.blockHash
      then some res else none := by
  simp only [hit, Gen.Src.c13CacheHit]
  cases get c now p.workID with
  | none => simp
  | some r => simp

/-- one iteration of the loop in `wrapAggregate`: `result.PipelineExecutionState == 0`, then
`!ok || result.Trigger.BlockNumber > c.Trigger.BlockNumber` (`c` is the zero value when `!ok`) -/
theorem aggOne_matches_source (E now : Nat) (c : Cache) (r : CheckResult) :
    aggOne E now c r =
      if Gen.Src.c13Cacheable r.pes then
        (if Gen.Src.c13CacheWrite (get c now r.workID).isSome r.trigger.blockNumber
              ((get c now r.workID).getD default).trigger.blockNumber
         then set c now E r.workID r else c)
      else c := by
  simp only [aggOne, Gen.Src.c13Cacheable, Gen.Src.c13CacheWrite]
  by_cases hp : r.pes = 0
  · cases get c now r.workID with
    | none => simp [hp]
    | some old => simp [hp]
  · simp [hp]

/-- `wrapAggregate`: the success branch is taken iff `err == nil` -/
theorem aggregate_matches_source (E : Nat) (c : Cache) (a : Acc) (o : BatchOut) :
    aggCache E c o =
      (if Gen.Src.c13BatchSucceeded o.res.isSome then (o.res.getD []).foldl (aggOne E o.doneAt) c else c) ∧
    aggAcc a o =
      (if Gen.Src.c13BatchSucceeded o.res.isSome
       then { a with successes := a.successes + 1, values := a.values ++ o.res.getD [] }
       else { a with err := true, failures := a.failures + 1 }) := by
  simp only [aggCache, aggAcc, Gen.Src.c13BatchSucceeded]
  cases o.res <;> simp

/-- the error threshold: `result.Total() > 0 && result.Total() == result.Failures() && result.Err() != nil`,
with `Total() = successes + failures` -/
theorem finish_matches_source (a : Acc) :
    finish a =
      if Gen.Src.c13TooManyErrors (Gen.Src.c13Total a.successes a.failures) a.failures a.err
      then { values := [], err := true } else { values := a.values, err := false } := rfl

/-- the two early returns of `parallelCheck`: `len(payloads) == 0`, `len(toRun) == 0` -/
theorem parallelCheck_matches_source (E : Nat) (c : Cache) (now : Nat) (ps : List Payload)
    (out : Nat → BatchOut) (order : List Nat) :
    parallelCheck E c now ps out order =
      if Gen.Src.c13NoPayloads ps.length then (c, { values := [], err := false })
      else if Gen.Src.c13NothingToRun (toRun c now ps).length then (c, { values := hits c now ps, err := false })
      else ((order.map out).foldl (aggCache E) c,
            finish ((order.map out).foldl aggAcc { values := hits c now ps, successes := 0, failures := 0, err := false })) := by
  simp only [parallelCheck, Gen.Src.c13NoPayloads, Gen.Src.c13NothingToRun, decide_eq_true_eq]

private theorem unflattenAux_nil {α} (size fuel : Nat) : unflattenAux size fuel ([] : List α) = [] := by
  cases fuel <;> rfl

private theorem unflatten_step_len (i size n : Nat) :
    (if Gen.Src.c13UnflattenClamp (Gen.Src.c13UnflattenEnd i size) n then n else Gen.Src.c13UnflattenEnd i size) - i
      = min size (n - i) := by
  simp only [Gen.Src.c13UnflattenClamp, Gen.Src.c13UnflattenEnd]
  by_cases h : i + size > n
  · simp only [h, decide_true, if_true]; omega
  · simp only [h, decide_false, Bool.false_eq_true, if_false]; omega

private theorem unflattenLoop_eq {α} (size : Nat) (hs : 1 ≤ size) (b : List α) :
    ∀ (fuel i : Nat), b.length - i ≤ fuel →
      unflattenLoop Gen.Src.c13UnflattenMore Gen.Src.c13UnflattenEnd Gen.Src.c13UnflattenClamp size b i fuel =
        unflattenAux size fuel (b.drop i) := by
  intro fuel
  induction fuel with
  | zero => intro i _; rfl
  | succ f ih =>
    intro i hf
    simp only [unflattenLoop, Gen.Src.c13UnflattenMore, decide_eq_true_eq]
    by_cases hi : i < b.length
    · rw [if_pos hi]
      have hne : b.drop i ≠ [] := by
        intro h; have := congrArg List.length h; simp at this; omega
      cases hd : b.drop i with
      | nil => exact absurd hd hne
      | cons x t =>
        simp only [unflattenAux]
        rw [← hd, List.drop_drop, ih (i + size) (by omega)]
        congr 1
        rw [unflatten_step_len, List.take_eq_take_min (l := drop i b) (i := size), List.length_drop]
    · rw [if_neg hi]
      have : b.drop i = [] := List.drop_eq_nil_of_le (by omega)
      rw [this, unflattenAux_nil]

/-- the batching arithmetic: `unflatten` is the source's loop
`for i := 0; i < len(b); i += size { j := i + size; if j > len(b) { j = len(b) }; groups = append(groups, b[i:j]) }` -/
theorem unflatten_matches_source {α} (size : Nat) (hs : 1 ≤ size) (b : List α) :
    unflatten size b =
      unflattenLoop Gen.Src.c13UnflattenMore Gen.Src.c13UnflattenEnd Gen.Src.c13UnflattenClamp size b 0 b.length := by
  rw [unflattenLoop_eq size hs b b.length 0 (by omega)]
  rfl

/-! ### decision trees: which exit is taken under which conditions, in source order (`"kind": "tree"`) -/

/-- what `Cache.Get` returns at each exit of its body: 1 `return zero, false` (absent), 2 `return zero, false`
(expired), 3 `return value.Item, true` -/
def getExit (item : CheckResult) : Nat → Option CheckResult
  | 3 => some item
  | _ => none

/-- **`Cache.Get` is the source's decision tree**: absent first, then `Expires > 0`, then `now > Expires` nested
inside it, and the item only at the last `return` (`value` is the zero value when `!found`) -/
theorem get_tree_matches_source (c : Cache) (now : Nat) (k : String) :
    get c now k =
      match find c k with
      | none => getExit default (Gen.Src.c13GetTree false 0 now)
      | some e => getExit e.item (Gen.Src.c13GetTree true e.expires now) := by
  simp only [get, expired, Gen.Src.c13GetTree]
  cases find c k with
  | none => rfl
  | some e =>
    by_cases h1 : e.expires > 0 <;> by_cases h2 : now > e.expires <;> simp [h1, h2, getExit]

/-- **the body of the look-up loop of `parallelCheck` is the source's decision tree**: exit 1 = `result.Add(res);
continue` (served from the cache), exit 0 = the end of the body is reached (`toRun = append(toRun, payload)`);
one iteration of the model's `hits` / `toRun` takes exactly that exit (`res` is the zero value when `!ok`) -/
theorem lookup_tree_matches_source (c : Cache) (now : Nat) (p : Payload) (ps : List Payload) :
    let res := (get c now p.workID).getD default
    let exit := Gen.Src.c13LookupTree (get c now p.workID).isSome res.trigger.blockNumber p.trigger.blockNumber
                  res.trigger.blockHash p.trigger.blockHash
    hits c now (p :: ps) = (if exit = 1 then res :: hits c now ps else hits c now ps) ∧
    toRun c now (p :: ps) = (if exit = 1 then toRun c now ps else p :: toRun c now ps) := by
  simp only [hits, toRun, List.filter_cons, hit, Gen.Src.c13LookupTree]
  cases get c now p.workID with
  | none => simp
  | some r =>
    by_cases hb : r.trigger.blockNumber = p.trigger.blockNumber <;>
      by_cases hh : r.trigger.blockHash = p.trigger.blockHash <;> simp [hb, hh]

/-- what `parallelCheck` (seen through `CheckUpkeeps`) yields at each exit of its body: 1 `return result, nil` with the
fresh empty result, 2 `return result, nil` with the cache hits only (nothing to run; the pipeline is not called, the
cache not written), 3 `return nil, ErrTooManyErrors`, 4 `return result, nil` after `RunJobs` -/
def parallelCheckExit (c c' : Cache) (hs : List CheckResult) (a : Acc) : Nat → Cache × Ret
  | 1 => (c, { values := [], err := false })
  | 2 => (c, { values := hs, err := false })
  | 3 => (c', { values := [], err := true })
  | _ => (c', { values := a.values, err := false })

/-- **`parallelCheck` is the source's decision tree**: `len(payloads) == 0` first, `len(toRun) == 0` after the look-up
loop, then `RunJobs`, and the error test after it (the `if result.Total() == 0 … else …` in between only logs) -/
theorem parallelCheck_tree_matches_source (E : Nat) (c : Cache) (now : Nat) (ps : List Payload)
    (out : Nat → BatchOut) (order : List Nat) :
    parallelCheck E c now ps out order =
      let a := (order.map out).foldl aggAcc { values := hits c now ps, successes := 0, failures := 0, err := false }
      parallelCheckExit c ((order.map out).foldl (aggCache E) c) (hits c now ps) a
        (Gen.Src.c13ParallelCheckTree ps.length (toRun c now ps).length (a.successes + a.failures) a.failures a.err) := by
  simp only [parallelCheck, finish, Gen.Src.c13ParallelCheckTree]
  by_cases h1 : ps.length = 0
  · simp [h1, parallelCheckExit]
  · by_cases h2 : (toRun c now ps).length = 0
    · simp [h1, h2, parallelCheckExit]
    · simp only [h1, h2, decide_false, if_false, Bool.false_eq_true]
      split <;> split <;> simp_all [parallelCheckExit]

/-- what `CheckUpkeeps` returns at each exit of its body: 1 `return nil, err`, 2 `return r.Values(), nil` -/
def checkUpkeepsExit (a : Acc) : Nat → Ret
  | 1 => { values := [], err := true }
  | _ => { values := a.values, err := false }

/-- **`CheckUpkeeps` is the source's decision tree**: `parallelCheck`'s error (raised exactly at the
`ErrTooManyErrors` test) is handed on with NO values; otherwise the accumulated values are returned -/
theorem checkUpkeeps_tree_matches_source (a : Acc) :
    finish a =
      checkUpkeepsExit a (Gen.Src.c13CheckUpkeepsTree
        (Gen.Src.c13TooManyErrors (Gen.Src.c13Total a.successes a.failures) a.failures a.err)) := by
  rw [finish_matches_source]
  simp only [Gen.Src.c13CheckUpkeepsTree]
  cases Gen.Src.c13TooManyErrors (Gen.Src.c13Total a.successes a.failures) a.failures a.err <;> rfl

/-! ### kinds of exit, (value, error) pairing, and which effect is reached (`Kind`, `Nil<i>`, `marks`) -/

/-- every path through `Cache.Get` ends in a `return` (none falls off the end of the body) -/
theorem get_tree_kind_matches_source (found : Bool) (expires now : Nat) :
    Gen.Src.c13GetTreeKind (Gen.Src.c13GetTree found expires now) = 1 := by
  unfold Gen.Src.c13GetTree
  cases found <;> by_cases h1 : expires > 0 <;> by_cases h2 : now > expires <;> simp [h1, h2, Gen.Src.c13GetTreeKind]

/-- **(result, error) pairing of `parallelCheck`**: at the exit the source takes, the first result is the literal
`nil` exactly when the model reports an error, the second result (the error) is the literal `nil` exactly when it
does not, and every exit is a `return` -/
theorem parallelCheck_tree_pairing_matches_source (E : Nat) (c : Cache) (now : Nat) (ps : List Payload)
    (out : Nat → BatchOut) (order : List Nat) :
    let a := (order.map out).foldl aggAcc { values := hits c now ps, successes := 0, failures := 0, err := false }
    let exit := Gen.Src.c13ParallelCheckTree ps.length (toRun c now ps).length (a.successes + a.failures) a.failures a.err
    (parallelCheck E c now ps out order).2.err = Gen.Src.c13ParallelCheckTreeNil1 exit ∧
    (parallelCheck E c now ps out order).2.err = !Gen.Src.c13ParallelCheckTreeNil2 exit ∧
    Gen.Src.c13ParallelCheckTreeKind exit = 1 := by
  intro a exit
  rw [parallelCheck_tree_matches_source]
  show (parallelCheckExit _ _ _ a exit).2.err = _ ∧ (parallelCheckExit _ _ _ a exit).2.err = _ ∧ _
  have hx : exit = 1 ∨ exit = 2 ∨ exit = 3 ∨ exit = 4 := by
    simp only [exit, Gen.Src.c13ParallelCheckTree]
    split
    · exact Or.inl rfl
    · split
      · exact Or.inr (Or.inl rfl)
      · split <;> split <;> simp
  rcases hx with h | h | h | h <;> rw [h] <;>
    simp [parallelCheckExit, Gen.Src.c13ParallelCheckTreeNil1, Gen.Src.c13ParallelCheckTreeNil2, Gen.Src.c13ParallelCheckTreeKind]

/-- **(values, error) pairing of `CheckUpkeeps`**: `nil` values exactly with an error, a `nil` error exactly with
values; both exits are `return`s -/
theorem checkUpkeeps_tree_pairing_matches_source (a : Acc) :
    let exit := Gen.Src.c13CheckUpkeepsTree
      (Gen.Src.c13TooManyErrors (Gen.Src.c13Total a.successes a.failures) a.failures a.err)
    (finish a).err = Gen.Src.c13CheckUpkeepsTreeNil1 exit ∧
    (finish a).err = !Gen.Src.c13CheckUpkeepsTreeNil2 exit ∧
    Gen.Src.c13CheckUpkeepsTreeKind exit = 1 := by
  intro exit
  rw [checkUpkeeps_tree_matches_source]
  show (checkUpkeepsExit a exit).err = _ ∧ (checkUpkeepsExit a exit).err = _ ∧ _
  simp only [exit, Gen.Src.c13CheckUpkeepsTree]
  cases Gen.Src.c13TooManyErrors (Gen.Src.c13Total a.successes a.failures) a.failures a.err <;>
    simp [checkUpkeepsExit, Gen.Src.c13CheckUpkeepsTreeNil1, Gen.Src.c13CheckUpkeepsTreeNil2, Gen.Src.c13CheckUpkeepsTreeKind]

/-- **which effect an iteration of the look-up loop reaches** (one marked tree per effect, so that the two cannot
be exchanged unnoticed): `result.Add(res)` is reached exactly when the model serves the payload from the cache,
`toRun = append(toRun, payload)` exactly when the model hands it to the pipeline; and the hit path leaves the
iteration with `continue` (kind 2 of the unmarked tree), the other path runs to the end of the body -/
theorem lookup_marks_match_source (c : Cache) (now : Nat) (p : Payload) (ps : List Payload) :
    let res := (get c now p.workID).getD default
    let add := Gen.Src.c13LookupAddTreeKind (Gen.Src.c13LookupAddTree (get c now p.workID).isSome
                 res.trigger.blockNumber p.trigger.blockNumber res.trigger.blockHash p.trigger.blockHash)
    let run := Gen.Src.c13LookupRunTreeKind (Gen.Src.c13LookupRunTree (get c now p.workID).isSome
                 res.trigger.blockNumber p.trigger.blockNumber res.trigger.blockHash p.trigger.blockHash)
    let exit := Gen.Src.c13LookupTree (get c now p.workID).isSome res.trigger.blockNumber p.trigger.blockNumber
                  res.trigger.blockHash p.trigger.blockHash
    hits c now (p :: ps) = (if add = 4 then res :: hits c now ps else hits c now ps) ∧
    toRun c now (p :: ps) = (if run = 4 then p :: toRun c now ps else toRun c now ps) ∧
    Gen.Src.c13LookupTreeKind exit = (if exit = 1 then 2 else 0) := by
  simp only [hits, toRun, List.filter_cons, hit, Gen.Src.c13LookupAddTree, Gen.Src.c13LookupRunTree, Gen.Src.c13LookupTree]
  cases get c now p.workID with
  | none => simp [Gen.Src.c13LookupAddTreeKind, Gen.Src.c13LookupRunTreeKind, Gen.Src.c13LookupTreeKind]
  | some r =>
    by_cases hb : r.trigger.blockNumber = p.trigger.blockNumber <;>
      by_cases hh : r.trigger.blockHash = p.trigger.blockHash <;>
      simp [hb, hh, Gen.Src.c13LookupAddTreeKind, Gen.Src.c13LookupRunTreeKind, Gen.Src.c13LookupTreeKind]

/-- **when `wrapAggregate` writes the cache**: the statement `o.cache.Set(result.WorkID, result, …)` is reached
(mark exit 1) exactly when the model's `aggOne` replaces the entry — `PipelineExecutionState == 0` first, then
`!ok || result.Trigger.BlockNumber > c.Trigger.BlockNumber`; on every other path the cache is left as it is
(`c` is the zero value when `!ok`) -/
theorem aggOne_tree_matches_source (E now : Nat) (c : Cache) (r : CheckResult) :
    let w := Gen.Src.c13CacheWriteTree r.pes (get c now r.workID).isSome r.trigger.blockNumber
               ((get c now r.workID).getD default).trigger.blockNumber
    aggOne E now c r = (if w = 1 then set c now E r.workID r else c) ∧
    Gen.Src.c13CacheWriteTreeKind w = (if w = 1 then 4 else 0) := by
  simp only [aggOne, Gen.Src.c13CacheWriteTree]
  by_cases hp : r.pes = 0
  · cases get c now r.workID with
    | none => simp [hp, Gen.Src.c13CacheWriteTreeKind]
    | some old =>
      by_cases hg : r.trigger.blockNumber > old.trigger.blockNumber <;> simp [hp, hg, Gen.Src.c13CacheWriteTreeKind]
  · simp [hp, Gen.Src.c13CacheWriteTreeKind]

/-! ### zero totals, life cycle, `Observer.Process` -/

/-- **the error test at a zero total**: with `Total() == 0` the source's condition is false whatever the failure
count and the recorded error are — no batch, no error -/
theorem zero_total_matches_source (failures : Nat) (hasErr : Bool) :
    Gen.Src.c13TooManyErrors (Gen.Src.c13Total 0 0) failures hasErr = false := by
  simp [Gen.Src.c13TooManyErrors, Gen.Src.c13Total]

/-- **the rates are computed only after at least one batch**: in `parallelCheck` the statement that calls
`result.SuccessRate()` / `result.FailureRate()` (mark 1, exit 3) is reached only with `Total() ≠ 0` (and only after
something was run) — so the `unsafeTotal() == 0` arms of the two rate functions are never entered from the runner;
with a zero total the source goes on to the error test, which then fails (exit 5: `return result, nil`) -/
theorem rates_need_batches_matches_source (nPayloads nToRun total failures : Nat) (hasErr : Bool) :
    (Gen.Src.c13RatesTreeMark (Gen.Src.c13RatesTree nPayloads nToRun total failures hasErr) = 1 →
      total ≠ 0 ∧ nToRun ≠ 0 ∧ nPayloads ≠ 0) ∧
    (nPayloads ≠ 0 → nToRun ≠ 0 → total = 0 →
      Gen.Src.c13RatesTree nPayloads nToRun total failures hasErr = 5 ∧ Gen.Src.c13RatesTreeKind 5 = 1 ∧
      Gen.Src.c13RatesTreeNil1 5 = false ∧ Gen.Src.c13RatesTreeNil2 5 = true) := by
  constructor
  · unfold Gen.Src.c13RatesTree
    by_cases h1 : nPayloads = 0
    · simp [h1, Gen.Src.c13RatesTreeMark]
    · by_cases h2 : nToRun = 0
      · simp [h1, h2, Gen.Src.c13RatesTreeMark]
      · by_cases h3 : total = 0
        · simp only [h1, h2, h3, decide_false, decide_true, if_true, if_false, Bool.false_eq_true]
          split <;> simp [Gen.Src.c13RatesTreeMark]
        · simp [h1, h2, h3]
  · intro h1 h2 h3
    subst h3
    simp [Gen.Src.c13RatesTree, h1, h2, Gen.Src.c13RatesTreeKind, Gen.Src.c13RatesTreeNil1, Gen.Src.c13RatesTreeNil2]

/-- **`Runner.Start` / `Runner.Close` are the source's decisions**: `Start` answers a non-`nil` error at its first
`return` exactly when `o.running.Load()`, and `nil` at the second (after the flag was set and the runner closed);
`Close` answers its error exactly when `!o.running.Load()` -/
theorem lifeStep_matches_source (running : Bool) :
    lifeStep running .start =
      (if Gen.Src.c13StartTree running = 1 then (running, true) else (true, false)) ∧
    (lifeStep running .start).2 = !Gen.Src.c13StartTreeNil1 (Gen.Src.c13StartTree running) ∧
    Gen.Src.c13StartTreeKind (Gen.Src.c13StartTree running) = 1 ∧
    lifeStep running .close =
      (if Gen.Src.c13CloseNotRunning running then (running, true) else (false, false)) := by
  cases running <;> simp [lifeStep, Gen.Src.c13StartTree, Gen.Src.c13StartTreeNil1, Gen.Src.c13StartTreeKind,
    Gen.Src.c13CloseNotRunning]

/-- **one iteration of the pre-processor loop of `Process` is the source's decision tree**: exit 1 (`return err`)
exactly when the pre-processor failed, else the loop goes on with what it returned -/
theorem runPres_tree_matches_source {α} (p : PreSpec) (ps : List PreSpec) (l : List α) :
    runPres (p :: ps) l =
      (if Gen.Src.c13PreTree p.fails = 1 then (none, 1)
       else ((runPres ps (preApply p.kind l)).1, (runPres ps (preApply p.kind l)).2 + 1)) ∧
    Gen.Src.c13PreTreeKind 1 = 1 ∧ Gen.Src.c13PreTreeNil1 1 = false := by
  refine ⟨?_, rfl, rfl⟩
  simp only [runPres, Gen.Src.c13PreTree]
  cases p.fails <;> simp

/-- which error `Process` answers at each exit of its body (2 is the `return err` inside the pre-processor loop) -/
def processExitCode : Nat → Nat
  | 1 => 1
  | 2 => 2
  | 3 => 3
  | 4 => 4
  | _ => 0

/-- **`Observer.Process` is the source's decision tree**: the tick's error first, then (unless the pre-processor
loop returned) the processor's, then the post-processor's, `nil` only at the last `return`; processor and
post-processor are reached only on the paths past the earlier tests -/
theorem process_tree_matches_source (tickFails : Bool) (tick : List Payload) (pres : List PreSpec)
    (run : List Payload → Ret) (postFails : Bool) :
    let preFailed := (runPres pres tick).1.isNone
    let ran := ((runPres pres tick).1.map run)
    let exit := if !tickFails && preFailed then 2
                else Gen.Src.c13ProcessTree tickFails preFailed ((ran.map (·.err)).getD false) postFails
    (process tickFails tick pres run postFails).code = processExitCode exit ∧
    ((process tickFails tick pres run postFails).code = 0 ↔ Gen.Src.c13ProcessTreeNil1 exit = true) ∧
    Gen.Src.c13ProcessTreeKind exit = 1 := by
  unfold process
  cases tickFails with
  | true => simp [Gen.Src.c13ProcessTree, processExitCode, Gen.Src.c13ProcessTreeNil1, Gen.Src.c13ProcessTreeKind]
  | false =>
    rcases hr : runPres pres tick with ⟨_ | ps, n⟩
    · simp [processExitCode, Gen.Src.c13ProcessTreeNil1, Gen.Src.c13ProcessTreeKind]
    · cases he : (run ps).err <;> cases postFails <;>
        simp [he, Gen.Src.c13ProcessTree, processExitCode, Gen.Src.c13ProcessTreeNil1, Gen.Src.c13ProcessTreeKind]

end AutoVerif.C13
