import AutoVerif.Spec.C09
/-
C09, liveness side — the conditional sampler (Model/C09Sample) and the coverage clauses the driver evaluates on
`kind = cover` runs (Spec/C09 `memberCovered`, `coverSpec`).

  * what the sampler must do (`IsSample`): the sample is the first `sampleSize` entries of a permutation of the WHOLE
    registry.  Consequences: its length, that it lists registry entries only, and — the fairness fact the liveness
    clause rests on — that EVERY registry position can be selected (`any_index_selectable`), so a run of such samples
    can cover the registry (`fair_run_covers`: the clause is satisfiable, for every registry size and every ratio).
  * counter-example: the variant that cuts first and shuffles only the head (`sampleHeadOnly`) returns lists of the
    right length that list registry entries only, in any order the shuffle likes, and is NOT a sampler: whatever the
    shuffles do, in runs of any length, the tail is never selected (`headOnly_never_selects_tail`,
    `headOnly_run_misses`), so the driver's clause `memberCovered` is false of every such run once it is due
    (`headOnly_fails_memberCovered`), while it holds of a fair run (`fair_run_memberCovered`).
  * the driver's "due" test is monotone in the number of ticks (`coverageDue_mono`): running longer never turns a due
    clause into one that is not due.

Not proved (trusted, stated in Model/C09Sample): the shuffle of an honest member is uniform and independent between
ticks (crypto/rand Fisher–Yates), which is what turns "can be selected" into "is missed with probability
((k - size)/k)^T".
-/
namespace AutoVerif.C09.Sample

/-! ### the sample size -/

theorem ofInt_zero (num den : Nat) : ofInt num den 0 = 0 := by simp [ofInt]

theorem ofInt_pos {num den count : Nat} (h : 0 < count) : 1 ≤ ofInt num den count := by
  have hc : count ≠ 0 := Nat.ne_of_gt h
  simp only [ofInt, hc, if_false]
  by_cases hv : (2 * num * count + den) / (2 * den) < 1
  · simp [hv]
  · simp only [hv, if_false]; omega

/-- the code's rounding: for a ratio `num/den` the result is the nearest integer to `num * count / den` (halves up) -/
theorem ofInt_round {num den count : Nat} (hd : 0 < den) (hc : 0 < count) (h1 : den ≤ 2 * num * count) :
    ofInt num den count = (2 * num * count + den) / (2 * den) := by
  have hc' : count ≠ 0 := Nat.ne_of_gt hc
  have : ¬ (2 * num * count + den) / (2 * den) < 1 := by
    have : 1 * (2 * den) ≤ 2 * num * count + den := by omega
    have := (Nat.le_div_iff_mul_le (by omega : 0 < 2 * den)).2 this
    omega
  simp [ofInt, hc', this]

theorem sampleSize_le (num den n : Nat) : sampleSize num den n ≤ n := Nat.min_le_right _ _

theorem sampleSize_le_max (num den n : Nat) : sampleSize num den n ≤ maxSampled :=
  Nat.le_trans (Nat.min_le_left _ _) (Nat.min_le_right _ _)

theorem sampleSize_pos {num den n : Nat} (h : 0 < n) : 1 ≤ sampleSize num den n := by
  have := ofInt_pos (num := num) (den := den) h
  simp only [sampleSize, maxSampled]
  omega

/-- the default settings on a four-member network (ratio 0.98 as a float32): nothing is cut up to 25 upkeeps, one of
40 is cut, and the settings of the simulator's plans (0.44) keep 4 of 10 -/
example : sampleSize 16441672 16777216 25 = 25 ∧ sampleSize 16441672 16777216 40 = 39 ∧ sampleSize 14763950 33554432 10 = 4 := by
  decide

/-! ### what a sample is -/

theorem sample_isSample {α} {reg π : List α} (size : Nat) (h : π.Perm reg) : IsSample reg size (sample π size) :=
  ⟨π, h, rfl⟩

theorem isSample_length {α} {reg out : List α} {size : Nat} (h : IsSample reg size out) :
    out.length = min size reg.length := by
  obtain ⟨π, hp, rfl⟩ := h
  simp [sample, hp.length_eq]

theorem isSample_subset {α} {reg out : List α} {size : Nat} (h : IsSample reg size out) :
    ∀ x ∈ out, x ∈ reg := by
  obtain ⟨π, hp, rfl⟩ := h
  intro x hx
  exact hp.mem_iff.1 (List.mem_of_mem_take hx)

/-- the rotation that brings position `i` to the front is a permutation of the registry -/
theorem rotate_perm {α} (reg : List α) (i : Nat) : (reg.drop i ++ reg.take i).Perm reg := by
  have h : (reg.drop i ++ reg.take i).Perm (reg.take i ++ reg.drop i) := List.perm_append_comm
  rwa [List.take_append_drop] at h

theorem mem_sample_rotate {α} (reg : List α) (size i : Nat) (hs : 0 < size) (hi : i < reg.length) :
    reg[i] ∈ sample (reg.drop i ++ reg.take i) size := by
  have hd : reg.drop i = reg[i] :: reg.drop (i + 1) := List.drop_eq_getElem_cons hi
  unfold sample
  rw [hd]
  cases size with
  | zero => omega
  | succ s =>
    rw [List.cons_append, List.take_succ_cons]
    exact List.mem_cons_self

/-- FAIRNESS: whatever the ratio (as long as the sample is not empty), every registry position can be selected — some
outcome of the shuffle puts it into the sample -/
theorem any_index_selectable {α} (reg : List α) (size i : Nat) (hs : 0 < size) (hi : i < reg.length) :
    ∃ out, IsSample reg size out ∧ reg[i] ∈ out :=
  ⟨_, sample_isSample size (rotate_perm reg i), mem_sample_rotate reg size i hs hi⟩

/-! ### the head-only variant is not a sampler -/

theorem headOnly_length {α} (reg : List α) (size : Nat) (σ : List α → List α) (hσ : ∀ l, (σ l).Perm l) :
    (sampleHeadOnly reg size σ).length = min size reg.length := by
  simp [sampleHeadOnly, (hσ _).length_eq]

theorem headOnly_subset {α} (reg : List α) (size : Nat) (σ : List α → List α) (hσ : ∀ l, (σ l).Perm l) :
    ∀ x ∈ sampleHeadOnly reg size σ, x ∈ reg := by
  intro x hx
  exact List.mem_of_mem_take ((hσ _).mem_iff.1 hx)

/-- whatever the shuffle does, an entry behind the cut is never in the head-only sample -/
theorem headOnly_never_selects_tail {α} (reg : List α) (hn : reg.Nodup) (size i : Nat) (hsz : size ≤ i)
    (hi : i < reg.length) (σ : List α → List α) (hσ : ∀ l, (σ l).Perm l) :
    reg[i] ∉ sampleHeadOnly reg size σ := by
  intro hx
  have hx' : reg[i] ∈ reg.take size := (hσ _).mem_iff.1 hx
  obtain ⟨j, hj, hje⟩ := List.mem_take_iff_getElem.1 hx'
  have hj1 : j < size := by omega
  have hj2 : j < reg.length := by omega
  have hlt : j < i := by omega
  have := (List.pairwise_iff_getElem.1 hn) j i hj2 hi hlt
  exact this hje

/-- COUNTER-EXAMPLE: the head-only variant violates the sampler's specification — a registry, a size that cuts and a
position that the specification allows to be selected and that no shuffle makes the head-only variant select -/
theorem headOnly_not_a_sampler :
    ∃ (reg : List Nat) (size i : Nat) (hi : i < reg.length),
      (∃ out, IsSample reg size out ∧ reg[i] ∈ out) ∧
      ∀ σ : List Nat → List Nat, (∀ l, (σ l).Perm l) → reg[i] ∉ sampleHeadOnly reg size σ := by
  refine ⟨[0, 1, 2], 2, 2, by decide, any_index_selectable _ 2 2 (by decide) (by decide), ?_⟩
  intro σ hσ
  exact headOnly_never_selects_tail [0, 1, 2] (by decide) 2 2 (Nat.le_refl _) (by decide) σ hσ

/-! ### runs: the coverage clause of the driver -/

theorem mem_missed {k : Nat} {cov : List Nat} {i : Nat} : i ∈ missed k cov ↔ i < k ∧ i ∉ cov := by
  simp [missed, List.mem_filter, List.mem_range]

theorem missed_nil_iff {k : Nat} {cov : List Nat} : missed k cov = [] ↔ ∀ i, i < k → i ∈ cov := by
  constructor
  · intro h i hi
    apply Classical.byContradiction
    intro hc
    have : i ∈ missed k cov := mem_missed.2 ⟨hi, hc⟩
    rw [h] at this
    exact absurd this List.not_mem_nil
  · intro h
    apply List.eq_nil_iff_forall_not_mem.2
    intro i hi
    have := mem_missed.1 hi
    exact this.2 (h i this.1)

/-- the clause is satisfiable by the specified sampler, for every registry size and every non-empty sample size: a
run of samples — each the head of a permutation of the whole registry — that misses nothing -/
theorem fair_run_covers (k size : Nat) (hs : 0 < size) :
    ∃ πs : List (List Nat), (∀ π ∈ πs, π.Perm (List.range k)) ∧
      missed k (covered (πs.map (fun π => sample π size))) = [] := by
  refine ⟨(List.range k).map (fun i => (List.range k).drop i ++ (List.range k).take i), ?_, ?_⟩
  · intro π hπ
    obtain ⟨i, _, rfl⟩ := List.mem_map.1 hπ
    exact rotate_perm _ i
  · apply missed_nil_iff.2
    intro i hi
    have hlen : i < (List.range k).length := by simpa using hi
    have hm := mem_sample_rotate (List.range k) size i hs hlen
    have hge : (List.range k)[i] = i := by simp
    rw [hge] at hm
    simp only [covered, List.mem_flatten, List.mem_map]
    exact ⟨_, ⟨_, ⟨i, List.mem_range.2 hi, rfl⟩, rfl⟩, hm⟩

/-- the head-only variant, in a run of ANY length with ANY shuffles, never covers the last registry position once the
ratio cuts -/
theorem headOnly_run_misses (k size : Nat) (h : size < k) (outs : List (List Nat))
    (ho : ∀ o ∈ outs, ∃ σ : List Nat → List Nat, (∀ l, (σ l).Perm l) ∧ o = sampleHeadOnly (List.range k) size σ) :
    (k - 1) ∈ missed k (covered outs) := by
  apply mem_missed.2
  refine ⟨by omega, ?_⟩
  intro hc
  obtain ⟨o, ho1, hin⟩ := List.mem_flatten.1 hc
  obtain ⟨σ, hσ, rfl⟩ := ho o ho1
  have hlen : k - 1 < (List.range k).length := by simp; omega
  have := headOnly_never_selects_tail (List.range k) List.nodup_range size (k - 1) (by omega) hlen σ hσ
  have hge : (List.range k)[k - 1] = k - 1 := by simp
  rw [hge] at this
  exact this hin

/-- more ticks never make a due clause not due -/
theorem coverageDue_mono (k size members t : Nat) (hk : 0 < k) (h : coverageDue k size members t = true) :
    coverageDue k size members (t + 1) = true := by
  simp only [coverageDue, decide_eq_true_eq] at *
  have ha : k - size ≤ k := Nat.sub_le _ _
  calc (k - size) ^ (t + 1) * (k * members * 10 ^ 12)
      = (k - size) * ((k - size) ^ t * (k * members * 10 ^ 12)) := by
        rw [Nat.pow_succ, Nat.mul_comm ((k - size) ^ t) (k - size), Nat.mul_assoc]
    _ ≤ k * ((k - size) ^ t * (k * members * 10 ^ 12)) := Nat.mul_le_mul_right _ ha
    _ < k * k ^ t := Nat.mul_lt_mul_of_pos_left h hk
    _ = k ^ (t + 1) := by rw [Nat.pow_succ, Nat.mul_comm]

/-- TIE to the driver's predicate (`Spec/C09.memberCovered`): a member whose sampling flow behaves like the head-only
variant fails the clause in every run that is long enough, whatever its shuffles did (when the last registry position
is not one of the eligible upkeeps, which are judged by the eventual-report clause instead) -/
theorem headOnly_fails_memberCovered (c : CoverRun) (m : CoverMember) (outs : List (List Nat))
    (hcut : c.size < c.k)
    (ho : ∀ o ∈ outs, ∃ σ : List Nat → List Nat, (∀ l, (σ l).Perm l) ∧ o = sampleHeadOnly (List.range c.k) c.size σ)
    (hcov : m.covered = covered outs)
    (hdue : coverageDue c.k c.size c.members.length m.ticks = true)
    (hel : (c.k - 1) ∉ c.eligible) :
    memberCovered c m = false := by
  have hm := headOnly_run_misses c.k c.size hcut outs ho
  have hmem : (c.k - 1) ∈ (missed c.k m.covered).filter (fun i => !c.eligible.contains i) := by
    rw [hcov]
    apply List.mem_filter.2
    refine ⟨hm, ?_⟩
    simpa using hel
  have hne : ((missed c.k m.covered).filter (fun i => !c.eligible.contains i)).isEmpty = false := by
    cases hl : (missed c.k m.covered).filter (fun i => !c.eligible.contains i) with
    | nil => rw [hl] at hmem; exact absurd hmem List.not_mem_nil
    | cons a l => rfl
  simp only [memberCovered, hdue, hne]
  rfl

/-- … and a member whose sampling flow is a sampler in the sense of `IsSample` CAN pass it: there is a run of
specified samples of which the clause holds (non-vacuity of the clause on the clean side) -/
theorem fair_run_memberCovered (c : CoverRun) (hs : 0 < c.size) :
    ∃ πs : List (List Nat), (∀ π ∈ πs, π.Perm (List.range c.k)) ∧
      ∀ m : CoverMember, m.covered = covered (πs.map (fun π => sample π c.size)) → memberCovered c m = true := by
  obtain ⟨πs, hp, hm⟩ := fair_run_covers c.k c.size hs
  refine ⟨πs, hp, ?_⟩
  intro m hcov
  simp [memberCovered, hcov, hm]

end AutoVerif.C09.Sample
