import AutoVerif.Props.C17
import AutoVerif.Gen.Consts
/-
C17Tie — the tie theorems of Props/C17.lean (`…_matches_source`): the model's decision functions equal the
decision expressions `AutoVerif.Gen.Src.*` that the extractor regenerates from the Go source on every check run
(docs/TIE_THEOREMS.md).  They live in a module of their own, which nothing but AutoVerif.lean (and another
property's Tie module, where a tie is reused) imports: a source change that breaks a tie here breaks this
property's check (bin/check audits every module `Props/C17*.lean`) and not the build of the theorem
modules of other properties that import Props/C17.lean.
-/
namespace AutoVerif.C17

/-! ### the model's decision points are the source's (regenerated `Gen.Src`, see docs/TIE_THEOREMS.md)

Go strings are `Str = List Nat` on both sides; `found` is the `ok` of a cache `Get`, a missing value is Go's zero value. -/

/-- `NewReportCoordinator`: `lockoutWindow < 1` → the 20 min default -/
theorem window_matches_source (cfg : Cfg) :
    cfg.window = if Gen.Src.c17LockoutNeedsDefault cfg.lockout then defaultLockoutNs else cfg.lockout.toNat := by
  simp [Cfg.window, Gen.Src.c17LockoutNeedsDefault]

/-- `Cache.Get`: missing → miss; `Expires > 0` and `now > Expires` → miss; else the item -/
theorem cacheGet_matches_source {α} (c : Cache α) (now : Nat) (k : Str) :
    c.get now k = match c.find k with
      | none => none
      | some (v, e) => if Gen.Src.c17GetHasExpiry e && Gen.Src.c17GetExpired now e then none else some v := by
  unfold Cache.get
  cases c.find k with
  | none => rfl
  | some p => obtain ⟨v, e⟩ := p; simp [Gen.Src.c17GetHasExpiry, Gen.Src.c17GetExpired]

/-- `Cache.Set` with the cache's default lifetime: `expire > 0` → `now + expire`, else never -/
theorem cacheSet_matches_source {α} (c : Cache α) (now ttl : Nat) (k : Str) (v : α) :
    c.set now ttl k v = (k, v, if Gen.Src.c17SetExpires ttl then now + ttl else 0) :: c.filter (fun p => p.1 ≠ k) := by
  simp [Cache.set, Gen.Src.c17SetExpires]

/-- `BasicEncoder.After`: both parse, then `aInt.Cmp(bInt) > 0` -/
theorem after_matches_source (a b : Str) :
    after a b = match parseBig a, parseBig b with
      | some x, some y => some (Gen.Src.c17AfterAnswer (if x < y then -1 else if x = y then 0 else 1))
      | _, _ => none := by
  unfold after
  cases parseBig a with
  | none => rfl
  | some x =>
    cases parseBig b with
    | none => rfl
    | some y =>
      simp only [Gen.Src.c17AfterAnswer, Option.some.injEq, decide_eq_decide]
      split
      · omega
      · split <;> omega

/-- `BasicEncoder.SplitUpkeepKey`: `len(components) != 2` → error -/
theorem splitUpkeepKey_matches_source (k : Str) :
    splitUpkeepKey k = if Gen.Src.c17SplitWrongCount (splitOn 124 k).length then none
      else some ((splitOn 124 k).getD 0 [], (splitOn 124 k).getD 1 []) := by
  unfold splitUpkeepKey
  simp only [Gen.Src.c17SplitWrongCount]
  match h : splitOn 124 k with
  | [] => simp
  | [a] => simp
  | [a, b] => simp
  | a :: b :: c :: l => simp

/-- `shouldUpdate`: after the two check-block comparisons, `string(b.Transmit) == Indefinite` → update,
    `string(val.Transmit) == Indefinite` → keep, else the transmit-block comparison -/
theorem shouldUpdate_matches_source (b val : IdBlocker) :
    shouldUpdate b val =
      match after val.check b.check with
      | none => none
      | some true => some true
      | some false =>
        match after b.check val.check with
        | none => none
        | some true => some false
        | some false =>
          if Gen.Src.c17StoredIsIndefinite b.transmit indefinite then some true
          else if Gen.Src.c17NewIsIndefinite val.transmit indefinite then some false
          else after val.transmit b.transmit := by
  cases h1 : after val.check b.check with
  | none => simp [shouldUpdate, h1]
  | some t1 =>
    cases t1 with
    | true => simp [shouldUpdate, h1]
    | false =>
      cases h2 : after b.check val.check with
      | none => simp [shouldUpdate, h1, h2]
      | some t2 =>
        cases t2 with
        | true => simp [shouldUpdate, h1, h2]
        | false => simp [shouldUpdate, h1, h2, Gen.Src.c17StoredIsIndefinite, Gen.Src.c17NewIsIndefinite]

/-- `updateIdBlock`: stored and (`err != nil` or `!shouldUpdate`) → no write; otherwise `Set` -/
theorem updateIdBlock_matches_source (cfg : Cfg) (c : Cache IdBlocker) (now : Nat) (id : Str) (val : IdBlocker) :
    updateIdBlock cfg c now id val =
      match c.get now id with
      | some b =>
        match shouldUpdate b val with
        | none => c
        | some su => if Gen.Src.c17KeepStored su then c else c.set now cfg.window id val
      | none => c.set now cfg.window id val := by
  cases h : c.get now id with
  | none => simp [updateIdBlock, h]
  | some b =>
    cases h2 : shouldUpdate b val with
    | none => simp [updateIdBlock, h, h2]
    | some su => cases su <;> simp [updateIdBlock, h, h2, Gen.Src.c17KeepStored]

/-- `Accept`: `!ok` (key not active) → register and block; else nothing -/
theorem accept_matches_source (cfg : Cfg) (s : State) (now : Nat) (key : Str) :
    accept cfg s now key =
      match splitUpkeepKey key with
      | none => s
      | some (blockKey, id) =>
        if Gen.Src.c17AcceptKeyNew (s.activeKeys.get now key).isSome then
          { activeKeys := s.activeKeys.set now activeTtlNs key false
            idBlocks := updateIdBlock cfg s.idBlocks now id { check := blockKey, transmit := indefinite } }
        else s := by
  unfold accept
  cases splitUpkeepKey key with
  | none => rfl
  | some p =>
    obtain ⟨bk, id⟩ := p
    cases s.activeKeys.get now key <;> simp [Gen.Src.c17AcceptKeyNew]

/-- `IsPending`: id known → `!isAfter`; unknown → not pending -/
theorem isPending_matches_source (s : State) (now : Nat) (key : Str) :
    isPending s now key =
      match splitUpkeepKey key with
      | none => (true, true)
      | some (blockKey, id) =>
        if Gen.Src.c17PendingIdKnown (s.idBlocks.get now id).isSome then
          match after blockKey ((s.idBlocks.get now id).getD ⟨[], []⟩).transmit with
          | none => (true, true)
          | some isAfter => (Gen.Src.c17PendingAnswer isAfter, false)
        else (false, false) := by
  cases hs : splitUpkeepKey key with
  | none => simp [isPending, hs]
  | some p =>
    obtain ⟨bk, id⟩ := p
    cases h : s.idBlocks.get now id with
    | none => simp [isPending, hs, h, Gen.Src.c17PendingIdKnown]
    | some bl =>
      cases ha : after bk bl.transmit <;>
        simp [isPending, hs, h, ha, Gen.Src.c17PendingIdKnown, Gen.Src.c17PendingAnswer]

/-- `IsTransmissionConfirmed`: `!ok || (ok && confirmed)` -/
theorem isConfirmed_matches_source (s : State) (now : Nat) (key : Str) :
    isConfirmed s now key =
      Gen.Src.c17ConfirmedAnswer (s.activeKeys.get now key).isSome ((s.activeKeys.get now key).getD false) := by
  unfold isConfirmed
  cases s.activeKeys.get now key with
  | none => rfl
  | some c => cases c <;> rfl

/-- the body shared by the two loops of `checkLogs`: key active; `!confirmed` → mark and update; `confirmed` →
    update only under the re-org guard `ok && stored check == log check && stored transmit != new transmit`
    (the same expression in the perform loop and, with `nextKey`, in the stale-report loop) -/
theorem processLog_matches_source (cfg : Cfg) (s : State) (now : Nat) (key logCheck id tb : Str) :
    processLog cfg s now key logCheck id tb =
      match s.activeKeys.get now key with
      | none => s
      | some confirmed =>
        if Gen.Src.c17LogKeyUnconfirmed confirmed then
          { activeKeys := s.activeKeys.set now activeTtlNs key true
            idBlocks := updateIdBlock cfg s.idBlocks now id { check := logCheck, transmit := tb } }
        else
          let stored := (s.idBlocks.get now id).getD ⟨[], []⟩
          if Gen.Src.c17ReorgGuard (s.idBlocks.get now id).isSome stored.check logCheck stored.transmit tb then
            { s with idBlocks := updateIdBlock cfg s.idBlocks now id { check := logCheck, transmit := tb } }
          else s := by
  unfold processLog
  cases s.activeKeys.get now key with
  | none => rfl
  | some confirmed =>
    cases confirmed with
    | false => simp [Gen.Src.c17LogKeyUnconfirmed]
    | true =>
      cases s.idBlocks.get now id with
      | none => simp [Gen.Src.c17LogKeyUnconfirmed, Gen.Src.c17ReorgGuard]
      | some bl => simp [Gen.Src.c17LogKeyUnconfirmed, Gen.Src.c17ReorgGuard]

/-- the two guards of the source are the same expression -/
theorem staleGuard_matches_source (found : Bool) (a b c d : Str) :
    Gen.Src.c17StaleGuard found a b c d = Gen.Src.c17ReorgGuard found a b c d := rfl

/-- perform loop of `checkLogs`: `l.Confirmations < int64(rc.minConfs)` → skip -/
theorem performLog_matches_source (cfg : Cfg) (s : State) (now : Nat) (l : Log) :
    performLog cfg s now l =
      if Gen.Src.c17LogTooFewConfirmations l.confs cfg.minConfs then s
      else match splitUpkeepKey l.key with
        | none => s
        | some (logCheck, id) => processLog cfg s now l.key logCheck id l.transmit := by
  by_cases hc : l.confs < cfg.minConfs
  · simp [performLog, Gen.Src.c17LogTooFewConfirmations, hc]
  · cases hs : splitUpkeepKey l.key <;> simp [performLog, Gen.Src.c17LogTooFewConfirmations, hc, hs]

/-- stale-report loop of `checkLogs` (its confirmation test is textually the perform loop's) -/
theorem staleLog_matches_source (cfg : Cfg) (s : State) (now : Nat) (l : Log) :
    staleLog cfg s now l =
      if Gen.Src.c17LogTooFewConfirmations l.confs cfg.minConfs then s
      else match splitUpkeepKey l.key with
        | none => s
        | some (logCheck, id) =>
          match increment logCheck with
          | none => s
          | some nextKey => processLog cfg s now l.key logCheck id nextKey := by
  by_cases hc : l.confs < cfg.minConfs
  · simp [staleLog, Gen.Src.c17LogTooFewConfirmations, hc]
  · cases hs : splitUpkeepKey l.key with
    | none => simp [staleLog, Gen.Src.c17LogTooFewConfirmations, hc, hs]
    | some p =>
      obtain ⟨lc, id⟩ := p
      cases hi : increment lc <;> simp [staleLog, Gen.Src.c17LogTooFewConfirmations, hc, hs, hi]

/-! ### decision trees: order of the tests, nesting and exits regenerated from the source (`kind: tree`) -/

/-- **`updateIdBlock` is the source's decision tree**: stored and `err != nil` → return (exit 1); stored and
`!shouldUpdate` → return (exit 2); otherwise the block falls through to `Set` (exit 0) — for every cache, id and value -/
theorem updateIdBlock_tree_matches_source (cfg : Cfg) (c : Cache IdBlocker) (now : Nat) (id : Str) (val : IdBlocker) :
    updateIdBlock cfg c now id val =
      if Gen.Src.c17UpdateIdBlockTree (c.get now id).isSome
          (match c.get now id with | some b => (shouldUpdate b val).isNone | none => false)
          (match c.get now id with | some b => (shouldUpdate b val).getD false | none => false) = 0
      then c.set now cfg.window id val else c := by
  cases h : c.get now id with
  | none => simp [updateIdBlock, h, Gen.Src.c17UpdateIdBlockTree]
  | some b =>
    cases h2 : shouldUpdate b val with
    | none => simp [updateIdBlock, h, h2, Gen.Src.c17UpdateIdBlockTree]
    | some su => cases su <;> simp [updateIdBlock, h, h2, Gen.Src.c17UpdateIdBlockTree]

/-- **`Accept` is the source's decision tree**: split error → `return err` (exit 1, nothing written) whether or not the
key is active — the error the accept loop of the plugin reads; otherwise the `!ok` block (an effect) and `return nil`
(exit 2) -/
theorem accept_tree_matches_source (cfg : Cfg) (s : State) (now : Nat) (key : Str) :
    (∀ splitFailed found, Gen.Src.c17AcceptTree splitFailed found = if splitFailed then 1 else 2) ∧
    accept cfg s now key =
      if Gen.Src.c17AcceptTree (splitUpkeepKey key).isNone (s.activeKeys.get now key).isSome = 1 then s
      else match splitUpkeepKey key with
        | none => s
        | some (blockKey, id) =>
          if Gen.Src.c17AcceptKeyNew (s.activeKeys.get now key).isSome then
            { activeKeys := s.activeKeys.set now activeTtlNs key false
              idBlocks := updateIdBlock cfg s.idBlocks now id { check := blockKey, transmit := indefinite } }
          else s := by
  refine ⟨fun sf found => by cases sf <;> cases found <;> rfl, ?_⟩
  cases hs : splitUpkeepKey key with
  | none => simp [accept, hs, Gen.Src.c17AcceptTree]
  | some p =>
    obtain ⟨bk, id⟩ := p
    cases hk : s.activeKeys.get now key <;> simp [accept, hs, hk, Gen.Src.c17AcceptTree, Gen.Src.c17AcceptKeyNew]

/-- **`IsTransmissionConfirmed`**: one exit, returning `!ok || (ok && confirmed)` -/
theorem isConfirmed_tree_matches_source (s : State) (now : Nat) (key : Str) :
    isConfirmed s now key =
      Gen.Src.c17ConfirmedTreeVal (s.activeKeys.get now key).isSome ((s.activeKeys.get now key).getD false)
        (Gen.Src.c17ConfirmedTree (s.activeKeys.get now key).isSome ((s.activeKeys.get now key).getD false)) := by
  unfold isConfirmed
  cases s.activeKeys.get now key with
  | none => rfl
  | some c => cases c <;> rfl

/-- **the perform-log loop body of `checkLogs` is the source's decision tree**: too few confirmations → `continue`
(exit 1); split error → `continue` (exit 2); every other path runs to the end of the body (exit 0: the shared
`processLog` part, whose nested `if`s have no exit) — for every log and whatever the nested conditions evaluate to -/
theorem performLog_tree_matches_source (cfg : Cfg) (s : State) (now : Nat) (l : Log)
    (found confirmed : Bool) (sc lc st lt : Str) :
    performLog cfg s now l =
      if Gen.Src.c17PerformLoopTree l.confs cfg.minConfs (splitUpkeepKey l.key).isNone found confirmed sc lc st lt = 0 then
        match splitUpkeepKey l.key with
        | none => s
        | some (logCheck, id) => processLog cfg s now l.key logCheck id l.transmit
      else s := by
  by_cases hc : l.confs < cfg.minConfs
  · simp [performLog, hc, Gen.Src.c17PerformLoopTree]
  · cases hs : splitUpkeepKey l.key with
    | none => simp [performLog, hc, hs, Gen.Src.c17PerformLoopTree]
    | some p =>
      obtain ⟨lc', id⟩ := p
      cases found <;> cases confirmed <;> simp [performLog, hc, hs, Gen.Src.c17PerformLoopTree]

/-! ### trees with re-assigned leaves (`err != nil#2`, `isAfter#4`), exit kinds and (value, error) pairing -/

/-- what `shouldUpdate` returns at each exit of the regenerated tree; `t` = the final `e.After(val.Transmit, b.Transmit)` -/
def shouldUpdateOut (exit : Nat) (t : Option Bool) : Option Bool :=
  match exit with
  | 1 => none          -- `return false, err`
  | 2 => some true
  | 3 => none          -- `return false, err`
  | 4 => some false
  | 5 => some true
  | 6 => some false
  | _ => t

/-- **`shouldUpdate` is the source's decision tree**: first comparison fails → error; new check block after stored →
update; second comparison fails → error; stored after new → keep; stored indefinite → update; new indefinite → keep; else
the transmit-block comparison — in this order, for all blockers; and the exits mapped to an error are exactly the
`return`s whose second result is not `nil` -/
theorem shouldUpdate_tree_matches_source (b val : IdBlocker) :
    shouldUpdate b val =
      shouldUpdateOut (Gen.Src.c17ShouldUpdateTree (after val.check b.check).isNone ((after val.check b.check).getD false)
          (after b.check val.check).isNone ((after b.check val.check).getD false) b.transmit val.transmit indefinite)
        (after val.transmit b.transmit) ∧
    (∀ e t, 1 ≤ e → e ≤ 6 → (shouldUpdateOut e t).isSome = Gen.Src.c17ShouldUpdateTreeNil2 e) ∧
    (∀ e, 1 ≤ e → e ≤ 7 → Gen.Src.c17ShouldUpdateTreeKind e = 1) := by
  refine ⟨?_, ?_, ?_⟩
  · cases h1 : after val.check b.check with
    | none => simp [shouldUpdate, h1, Gen.Src.c17ShouldUpdateTree, shouldUpdateOut]
    | some t1 =>
      cases t1 with
      | true => simp [shouldUpdate, h1, Gen.Src.c17ShouldUpdateTree, shouldUpdateOut]
      | false =>
        cases h2 : after b.check val.check with
        | none => simp [shouldUpdate, h1, h2, Gen.Src.c17ShouldUpdateTree, shouldUpdateOut]
        | some t2 =>
          cases t2 with
          | true => simp [shouldUpdate, h1, h2, Gen.Src.c17ShouldUpdateTree, shouldUpdateOut]
          | false =>
            by_cases h3 : b.transmit = indefinite <;> by_cases h4 : val.transmit = indefinite <;>
              simp [shouldUpdate, h1, h2, h3, h4, Gen.Src.c17ShouldUpdateTree, shouldUpdateOut]
  · intro e t h1 h2
    have : e = 1 ∨ e = 2 ∨ e = 3 ∨ e = 4 ∨ e = 5 ∨ e = 6 := by omega
    rcases this with rfl | rfl | rfl | rfl | rfl | rfl <;> rfl
  · intro e h1 h2
    have : e = 1 ∨ e = 2 ∨ e = 3 ∨ e = 4 ∨ e = 5 ∨ e = 6 ∨ e = 7 := by omega
    rcases this with rfl | rfl | rfl | rfl | rfl | rfl | rfl <;> rfl

/-- what `IsPending` returns at each exit: `(pending, err != nil)` -/
def isPendingOut (exit : Nat) (isAfter : Bool) : Bool × Bool :=
  match exit with
  | 1 => (true, true)
  | 2 => (true, true)
  | 3 => (!isAfter, false)
  | _ => (false, false)

/-- **`IsPending` is the source's decision tree**: split error → `(true, err)`; id known → (`After` error → `(true, err)`,
else `(!isAfter, nil)`); id unknown → `(false, nil)`; the error flag at each exit is "second result is not `nil`" -/
theorem isPending_tree_matches_source (s : State) (now : Nat) (key : Str) :
    isPending s now key =
      (match splitUpkeepKey key with
       | none => isPendingOut (Gen.Src.c17IsPendingTree true false false false) false
       | some (blockKey, id) =>
         let st := s.idBlocks.get now id
         let a := after blockKey (st.getD ⟨[], []⟩).transmit
         isPendingOut (Gen.Src.c17IsPendingTree false st.isSome a.isNone (a.getD false)) (a.getD false)) ∧
    (∀ e a, 1 ≤ e → e ≤ 4 → (isPendingOut e a).2 = !Gen.Src.c17IsPendingTreeNil2 e) := by
  constructor
  · cases hs : splitUpkeepKey key with
    | none => simp [isPending, hs, Gen.Src.c17IsPendingTree, isPendingOut]
    | some p =>
      obtain ⟨bk, id⟩ := p
      cases h : s.idBlocks.get now id with
      | none => simp [isPending, hs, h, Gen.Src.c17IsPendingTree, isPendingOut]
      | some bl =>
        cases ha : after bk bl.transmit with
        | none => simp [isPending, hs, h, ha, Gen.Src.c17IsPendingTree, isPendingOut]
        | some a => simp [isPending, hs, h, ha, Gen.Src.c17IsPendingTree, isPendingOut]
  · intro e a h1 h2
    have : e = 1 ∨ e = 2 ∨ e = 3 ∨ e = 4 := by omega
    rcases this with rfl | rfl | rfl | rfl <;> rfl

/-- **the stale-report loop body of `checkLogs` is the source's decision tree**: too few confirmations, split error,
`Increment` error → `continue` (exits 1, 2, 3 — the next log is still looked at); every other path runs to the end of the
body — for every log and whatever the nested conditions evaluate to -/
theorem staleLog_tree_matches_source (cfg : Cfg) (s : State) (now : Nat) (l : Log)
    (found confirmed : Bool) (sc lc st nk : Str) :
    staleLog cfg s now l =
      (if Gen.Src.c17StaleLoopTree l.confs cfg.minConfs (splitUpkeepKey l.key).isNone
            (match splitUpkeepKey l.key with | some (c, _) => (increment c).isNone | none => false)
            found confirmed sc lc st nk = 0 then
        match splitUpkeepKey l.key with
        | none => s
        | some (logCheck, id) =>
          match increment logCheck with
          | none => s
          | some nextKey => processLog cfg s now l.key logCheck id nextKey
      else s) ∧
    Gen.Src.c17StaleLoopTreeKind 1 = 2 ∧ Gen.Src.c17StaleLoopTreeKind 2 = 2 ∧ Gen.Src.c17StaleLoopTreeKind 3 = 2 := by
  refine ⟨?_, rfl, rfl, rfl⟩
  by_cases hc : l.confs < cfg.minConfs
  · simp [staleLog, hc, Gen.Src.c17StaleLoopTree]
  · cases hs : splitUpkeepKey l.key with
    | none => simp [staleLog, hc, hs, Gen.Src.c17StaleLoopTree]
    | some p =>
      obtain ⟨lc', id⟩ := p
      cases hi : increment lc' <;> cases found <;> cases confirmed <;>
        simp [staleLog, hc, hs, hi, Gen.Src.c17StaleLoopTree]

/-- exit kinds of the other coordinator trees: the perform loop is left by `continue` (never `break` / `return`),
`updateIdBlock` and `Accept` by `return` -/
theorem coordinator_exit_kinds_match_source :
    Gen.Src.c17PerformLoopTreeKind 1 = 2 ∧ Gen.Src.c17PerformLoopTreeKind 2 = 2 ∧
    Gen.Src.c17UpdateIdBlockTreeKind 1 = 1 ∧ Gen.Src.c17UpdateIdBlockTreeKind 2 = 1 ∧
    Gen.Src.c17AcceptTreeKind 1 = 1 ∧ Gen.Src.c17AcceptTreeKind 2 = 1 := ⟨rfl, rfl, rfl, rfl, rfl, rfl⟩

end AutoVerif.C17
