import AutoVerif.Props.C20
import AutoVerif.Gen.Consts
/-
C20Tie — the tie theorems of Props/C20.lean (`…_matches_source`): the model's decision functions equal the
decision expressions `AutoVerif.Gen.Src.*` that the extractor regenerates from the Go source on every check run
(docs/TIE_THEOREMS.md).  They live in a module of their own, which nothing but AutoVerif.lean (and another
property's Tie module, where a tie is reused) imports: a source change that breaks a tie here breaks this
property's check (bin/check audits every module `Props/C20*.lean`) and not the build of the theorem
modules of other properties that import Props/C20.lean.
-/
namespace AutoVerif.C20

/-! ### tie theorems: the model's decision functions ARE the decision expressions of the current source
(`AutoVerif.Gen.Src.c20…`, regenerated from /repo by the extractor on every run; see extract/exprs.d/C20.json) -/

private theorem filter_not_done_length (l : List TState) :
    decide ((l.filter fun t => !t.tr.done).length = 0) = l.all (·.tr.done) := by
  induction l with
  | nil => rfl
  | cons t ts ih =>
    cases hd : t.tr.done
    · simp [hd]
    · simpa [List.filter_cons, hd] using ih

/-- `checkProgress`, ticker branch: the writer is stopped (and the verdict taken) exactly on
`t.writer.Length() > 0 && t.writer.LengthActive() == 0` -/
theorem tick_matches_source (s : PState) (h : s.decided = none) :
    step s .tick =
      if Gen.Src.c20TickStopsWriter s.ts.length (s.ts.filter fun t => !t.tr.done).length then
        { s with decided := some (s.failed == 0) }
      else s := by
  have h1 : decide (s.ts.length > 0) = !s.ts.isEmpty := by cases s.ts <;> simp
  simp only [step, h, Option.isSome_none, Bool.false_eq_true, if_false, Gen.Src.c20TickStopsWriter,
    filter_not_done_length, h1, PState.allDone]
  rfl

/-- `checkProgress` enters its watching loop only once `IsRenderInProgress()` is up
(`for !t.writer.IsRenderInProgress() { sleep }`): the reason `earlyExit` is a no-op of `step` -/
theorem earlyExit_excluded_matches_source (rendering : Bool) :
    Gen.Src.c20WaitsForRenderer rendering = false ↔ rendering = true := by
  cases rendering <;> simp [Gen.Src.c20WaitsForRenderer]

/-- `track`: loop condition `for !tracker.IsDone()` -/
theorem trackStep_matches_source (s : TState) (e : Sel) :
    trackStep s e = if Gen.Src.c20TrackLoops s.tr.done then { trackBody s e with hist := s.hist ++ [e] } else s := by
  cases h : s.tr.done <;> simp [trackStep, Gen.Src.c20TrackLoops, h]

/-- `track`, increment branch: `negativeAssert` is `total == 0` -/
theorem trackBody_inc_matches_source (s : TState) (n : Nat) :
    trackBody s (.inc n) =
      if Gen.Src.c20NegativeAssert s.total then { s with tr := s.tr.markAsErrored, failed := s.failed + 1 }
      else { s with tr := s.tr.increment n } := by
  simp only [trackBody, Gen.Src.c20NegativeAssert, decide_eq_true_eq]

/-- `track`, close branch: `if negativeAssert { MarkAsDone }`, then failure on `tracker.Value() != total` -/
theorem trackBody_done_matches_source (s : TState) :
    trackBody s .done =
      (let tr1 := if Gen.Src.c20NegativeAssert s.total then s.tr.markAsDone else s.tr
       if Gen.Src.c20CloseFails tr1.value s.total then { s with tr := tr1.markAsErrored, failed := s.failed + 1 }
       else { s with tr := tr1 }) := by
  simp only [trackBody, Gen.Src.c20NegativeAssert, Gen.Src.c20CloseFails, decide_eq_true_eq]

/-- `main`: `if !progress.AllProgressComplete() { os.Exit(1) }` -/
theorem exitCode_matches_source (v : Bool) : exitCode v = if Gen.Src.c20ExitsNonZero v then 1 else 0 := by
  cases v <;> rfl

/-- `NewOCR3TransmitLoader`: the negative namespace is chosen on `expected == 0` -/
theorem transmitNamespace_matches_source (expected : Nat) :
    transmitNamespace expected =
      if Gen.Src.c20NegativeNamespace expected then "No upkeep perform events expected"
      else "Collecting upkeep perform events" := by
  simp only [transmitNamespace, Gen.Src.c20NegativeNamespace, decide_eq_true_eq]

private theorem bigCmp_ge (a b : Int) : decide (bigCmp a b ≥ 0) = decide (a ≥ b) := by
  unfold bigCmp
  by_cases h1 : a < b
  · have : ¬ a ≥ b := by omega
    simp [h1, this]
  · by_cases h2 : a = b
    · simp [h2]
    · have : a ≥ b := by omega
      simp [h1, h2, this]

/-- `logTriggersUpkeep`: `log.TriggerAt.Cmp(upkeep.CreateInBlock) >= 0 && log.TriggerValue == upkeep.TriggeredBy`,
then `AlwaysEligible` or some eligible block with `block.Cmp(log.TriggerAt) >= 0` -/
theorem logTriggersUpkeep_matches_source (l : LogEv) (u : Upkeep) :
    logTriggersUpkeep l u =
      if Gen.Src.c20LogMatchesUpkeep (bigCmp l.triggerAt u.createInBlock) l.triggerValue u.triggeredBy then
        (if u.alwaysEligible then true
         else u.eligibleAt.any fun b => Gen.Src.c20EligibleAtOrAfterLog (bigCmp b l.triggerAt))
      else false := by
  have hf : (fun b => Gen.Src.c20EligibleAtOrAfterLog (bigCmp b l.triggerAt)) = fun b => decide (b ≥ l.triggerAt) := by
    funext b; simp only [Gen.Src.c20EligibleAtOrAfterLog, bigCmp_ge]
  have hb : (l.triggerValue == u.triggeredBy) = decide (l.triggerValue = u.triggeredBy) := by
    by_cases h : l.triggerValue = u.triggeredBy <;> simp [h]
  simp only [logTriggersUpkeep, Gen.Src.c20LogMatchesUpkeep, bigCmp_ge, hf, hb]

/-- `calculateExpectedPerformEvents`: `if !upkeep.Expected { continue }`, then the switch on the type -/
theorem expectedOf_matches_source (logs : List LogEv) (u : Upkeep) :
    expectedOf logs u =
      if Gen.Src.c20SkipsUpkeep u.expected then 0
      else match u.type with
        | .conditional => u.eligibleAt.length
        | .logTrigger => (logs.filter fun l => logTriggersUpkeep l u).length := by
  simp only [expectedOf, Gen.Src.c20SkipsUpkeep]
  rfl

/-- `DecodeSimulationPlan`: `if generateEvent.Expected == "" { generateEvent.Expected = AllExpected }` -/
theorem defaultExpected_matches_source (e : List Leaf) :
    defaultExpected e =
      match e.getLast? with
      | some (.str s) => if Gen.Src.c20ExpectedDefaults s "" then e.dropLast ++ [.str allExpected] else e
      | _ => e := by
  unfold defaultExpected
  split
  · rename_i h; simp [h, Gen.Src.c20ExpectedDefaults]
  · rename_i h
    split
    · rename_i s hs
      have : s ≠ "" := by intro hc; subst hc; exact h hs
      simp [Gen.Src.c20ExpectedDefaults, this]
    · rfl

/-- `findMedianAndSplitData`: the empty test `len(values) == 0` and the parity test `len(values)%2 == 0` select
the three branches -/
theorem findMedian_matches_source (v : List Int) :
    findMedianAndSplitData v =
      if Gen.Src.c20MedianEmpty v.length then some (0, v, v)
      else if Gen.Src.c20MedianEven (v.length % 2) then
        (do let x ← idx v (v.length / 2 - 1)
            let y ← idx v (v.length / 2)
            let a ← sliceTo v (v.length / 2)
            let b ← sliceFrom v (v.length / 2)
            pure (x + y, a, b))
      else
        (do let x ← idx v (v.length / 2)
            let a ← sliceTo v (v.length / 2)
            let b ← sliceFrom v (v.length / 2 + 1)
            pure (2 * x, a, b)) := by
  simp only [findMedianAndSplitData, Gen.Src.c20MedianEmpty, Gen.Src.c20MedianEven, decide_eq_true_eq]

/-- `findLowestAndOutliers`: outlier test `set[i] < int(lowerFence)`, new minimum `set[i] < lowest`
(the model keeps −1 where the code keeps `math.MaxInt` until the end) -/
theorem findLowest_matches_source (fence4 : Int) (set : List Int) :
    findLowestAndOutliers fence4 set =
      (let out := set.filter fun x => Gen.Src.c20LowOutlier x (truncQuarter fence4)
       (out.foldl (fun m x => if (decide (m = -1) || Gen.Src.c20NewLowest x m) then x else m) (-1), out.length)) := by
  have hf : (fun (m x : Int) => if m = -1 ∨ x < m then x else m) =
      fun m x => if (decide (m = -1) || Gen.Src.c20NewLowest x m) = true then x else m := by
    funext m x; simp [Gen.Src.c20NewLowest]
  simp only [findLowestAndOutliers, Gen.Src.c20LowOutlier, hf]

/-- `findHighestAndOutliers`: outlier test `set[i] > int(upperFence)`, new maximum `set[i] > highest` -/
theorem findHighest_matches_source (fence4 : Int) (set : List Int) :
    findHighestAndOutliers fence4 set =
      (let out := set.filter fun x => Gen.Src.c20HighOutlier x (truncQuarter fence4)
       (out.foldl (fun m x => if Gen.Src.c20NewHighest x m then x else m) (-1), out.length)) := by
  have hf : (fun (m x : Int) => if x > m then x else m) =
      fun m x => if Gen.Src.c20NewHighest x m = true then x else m := by
    funext m x; simp [Gen.Src.c20NewHighest]
  simp only [findHighestAndOutliers, Gen.Src.c20HighOutlier, hf]

/-- `ReportResults`: a value is inside the inter-quartile range on
`float64(v) >= q1 && float64(v) <= q3` (the model holds the quartiles doubled, so both sides are doubled) -/
theorem inIQR_matches_source (data : List Int) (s : Summary) (h : summary data = some s) :
    s.inIQR = (data.filter fun x => Gen.Src.c20InIQR (2 * x) s.q1x2 s.q3x2).length := by
  simp only [summary, summaryWith] at h
  cases h1 : findMedianAndSplitData data with
  | none => simp [h1] at h
  | some r1 =>
    obtain ⟨m, a, b⟩ := r1
    cases h2 : findMedianAndSplitData a with
    | none => simp [h1, h2] at h
    | some r2 =>
      obtain ⟨q1, lo, x⟩ := r2
      cases h3 : findMedianAndSplitData b with
      | none => simp [h1, h2, h3] at h
      | some r3 =>
        obtain ⟨q3, y, hi⟩ := r3
        simp [h1, h2, h3] at h
        subst h
        simp [Gen.Src.c20InIQR]

/-! ### decision-tree ties: the ORDER of the tests, the nesting and what each exit returns are regenerated from the
source (`Gen.Src.c20…Tree`, exits numbered in source order); the model's function takes the same exits -/

/-- `logTriggersUpkeep`, whole body and the body of its `range upkeep.EligibleAt` loop.  Exit 1 = `return true`
(always eligible), exit 3 = the final `return false`; the loop (an effect for the function's tree) is entered
exactly when the tree with `AlwaysEligible` forced to true takes exit 1, and returns what the loop-body tree's exit 1
returns at the first eligible block that takes it. -/
theorem logTriggersUpkeep_tree_matches_source (l : LogEv) (u : Upkeep) :
    logTriggersUpkeep l u =
      (Gen.Src.c20LogTriggersTreeVal (bigCmp l.triggerAt u.createInBlock) l.triggerValue u.triggeredBy u.alwaysEligible
          (Gen.Src.c20LogTriggersTree (bigCmp l.triggerAt u.createInBlock) l.triggerValue u.triggeredBy u.alwaysEligible) ||
       (decide (Gen.Src.c20LogTriggersTree (bigCmp l.triggerAt u.createInBlock) l.triggerValue u.triggeredBy true = 1) &&
        u.eligibleAt.any fun b => decide (Gen.Src.c20LogEligibleLoopTree (bigCmp b l.triggerAt) = 1) &&
          Gen.Src.c20LogEligibleLoopTreeVal (bigCmp b l.triggerAt) 1)) := by
  have hb : (l.triggerValue == u.triggeredBy) = decide (l.triggerValue = u.triggeredBy) := by
    by_cases h : l.triggerValue = u.triggeredBy <;> simp [h]
  have hf : (fun b => decide (Gen.Src.c20LogEligibleLoopTree (bigCmp b l.triggerAt) = 1) &&
      Gen.Src.c20LogEligibleLoopTreeVal (bigCmp b l.triggerAt) 1) = fun b => decide (b ≥ l.triggerAt) := by
    funext b
    have := bigCmp_ge b l.triggerAt
    by_cases h : b ≥ l.triggerAt <;> simp_all [Gen.Src.c20LogEligibleLoopTree, Gen.Src.c20LogEligibleLoopTreeVal]
  simp only [logTriggersUpkeep, Gen.Src.c20LogTriggersTree, Gen.Src.c20LogTriggersTreeVal, bigCmp_ge, hf, hb]
  by_cases h1 : l.triggerAt ≥ u.createInBlock <;> by_cases h2 : l.triggerValue = u.triggeredBy <;>
    cases h3 : u.alwaysEligible <;> simp [h1, h2]

/-- `calculateExpectedPerformEvents`, body of `range upkeeps`: exit 1 = `continue` on `!upkeep.Expected`, otherwise
the `switch upkeep.Type` is reached and the body runs to its end (exit 0) whichever arm is taken -/
theorem expectedOf_tree_matches_source (logs : List LogEv) (u : Upkeep) :
    expectedOf logs u =
      if Gen.Src.c20ExpectedLoopTree u.expected (match u.type with | .conditional => 0 | .logTrigger => 1) = 1 then 0
      else match u.type with
        | .conditional => u.eligibleAt.length
        | .logTrigger => (logs.filter fun l => logTriggersUpkeep l u).length := by
  cases he : u.expected <;> cases ht : u.type <;> simp [expectedOf, Gen.Src.c20ExpectedLoopTree, he, ht]

/-- `OCR3TransmitLoader.Transmit` (each of the two `err != nil` tests has its own parameter): with both gob
encodings succeeding (they cannot fail for a `TransmitEvent`), a known key leaves through exit 3 (`report already
transmitted`), an unknown one through exit 4 (`return nil`, after it has been queued and recorded); every exit is a
`return` -/
theorem transmit_tree_matches_source (s : TLState) (key : String) :
    (s.transmit key).2 = decide (Gen.Src.c20TransmitTree false false (s.transmitted.contains key) = 4) ∧
    ((s.transmit key).2 = false ↔ Gen.Src.c20TransmitTree false false (s.transmitted.contains key) = 3) ∧
    (∀ a b k, Gen.Src.c20TransmitTreeKind (Gen.Src.c20TransmitTree a b k) = 1) := by
  refine ⟨?_, ?_, ?_⟩
  · cases h : s.transmitted.contains key
    · have hm : key ∉ s.transmitted := by simpa using h
      simp [TLState.transmit, Gen.Src.c20TransmitTree, hm]
    · have hm : key ∈ s.transmitted := by simpa using h
      simp [TLState.transmit, Gen.Src.c20TransmitTree, hm]
  · cases h : s.transmitted.contains key
    · have hm : key ∉ s.transmitted := by simpa using h
      simp [TLState.transmit, Gen.Src.c20TransmitTree, hm]
    · have hm : key ∈ s.transmitted := by simpa using h
      simp [TLState.transmit, Gen.Src.c20TransmitTree, hm]
  · intro a b k; cases a <;> cases b <;> cases k <;> rfl

/-- `isEligible`, one iteration of the descending loop over the eligible blocks (the LAST block is tried first):
when `block.Cmp(eligibleBlock) >= 0` the iteration ends the function: with what exit 1 returns (`return false`) if
the nested scan finds a perform in `[eligible, block]`, else with what exit 2 returns (`return true`);
otherwise the body falls through (exit 0) to the next lower eligible block -/
theorem isEligible_step_tree_matches_source (es ps : List Int) (e b : Int) :
    isEligible (es ++ [e]) ps b =
      if Gen.Src.c20IsEligibleLoopTree (bigCmp b e) = 2 then
        (if (ps.any fun p => decide (e ≤ p) && decide (p ≤ b)) then Gen.Src.c20IsEligibleLoopTreeVal (bigCmp b e) 1
         else Gen.Src.c20IsEligibleLoopTreeVal (bigCmp b e) 2)
      else isEligible es ps b := by
  have hc := bigCmp_ge b e
  unfold isEligible
  simp only [List.reverse_append, List.reverse_cons, List.reverse_nil, List.nil_append, List.singleton_append, List.find?_cons]
  by_cases h : b ≥ e
  · cases hs : (ps.any fun p => decide (e ≤ p) && decide (p ≤ b)) <;>
      simp_all [Gen.Src.c20IsEligibleLoopTree, Gen.Src.c20IsEligibleLoopTreeVal]
  · simp [Gen.Src.c20IsEligibleLoopTree, hc, h]

/-- `isEligible`, the nested scan: for every block of `[eligible, block]` (`rangePoint` from 0 to the distance) and
every perform, exit 1 (`return false`) on `performBlock.Cmp(checkBlock) == 0` — i.e. some perform lies in that range -/
theorem isEligible_scan_tree_matches_source (ps : List Int) (e b : Int) (h : e ≤ b) :
    (ps.any fun p => decide (e ≤ p) && decide (p ≤ b)) =
      (List.range (b - e + 1).toNat).any fun k => ps.any fun p =>
        decide (Gen.Src.c20PerformedAtTree (bigCmp p (e + (k : Int))) = 1) := by
  have hcmp : ∀ p c : Int, decide (Gen.Src.c20PerformedAtTree (bigCmp p c) = 1) = decide (p = c) := by
    intro p c
    unfold Gen.Src.c20PerformedAtTree bigCmp
    by_cases h1 : p < c
    · have : p ≠ c := by omega
      simp [h1, this]
    · by_cases h2 : p = c
      · simp [h2]
      · simp [h1, h2]
  simp only [hcmp]
  apply Bool.eq_iff_iff.mpr
  simp only [List.any_eq_true, Bool.and_eq_true, decide_eq_true_eq, List.mem_range]
  constructor
  · rintro ⟨p, hp, h1, h2⟩
    exact ⟨(p - e).toNat, by omega, p, hp, by omega⟩
  · rintro ⟨k, hk, p, hp, hpe⟩
    exact ⟨p, hp, by omega, by omega⟩

/-- `findMedianAndSplitData`: exit 1 = the early `return 0, values, values` on an empty input; every other input
runs through the even / odd `if` (no exit inside) to the final bare `return` (exit 2) -/
theorem findMedian_tree_matches_source (v : List Int) :
    findMedianAndSplitData v =
      if Gen.Src.c20MedianTree v.length (v.length % 2) = 1 then some (0, v, v)
      else if Gen.Src.c20MedianEven (v.length % 2) then
        (do let x ← idx v (v.length / 2 - 1)
            let y ← idx v (v.length / 2)
            let a ← sliceTo v (v.length / 2)
            let b ← sliceFrom v (v.length / 2)
            pure (x + y, a, b))
      else
        (do let x ← idx v (v.length / 2)
            let a ← sliceTo v (v.length / 2)
            let b ← sliceFrom v (v.length / 2 + 1)
            pure (2 * x, a, b)) := by
  by_cases h0 : v.length = 0
  · simp [findMedianAndSplitData, Gen.Src.c20MedianTree, h0]
  · by_cases he : v.length % 2 = 0 <;>
      simp [findMedianAndSplitData, Gen.Src.c20MedianTree, Gen.Src.c20MedianEven, h0, he]


/-- the `Type` read by `json.Unmarshal(rawEvent, &event)` (`""` when that fails) -/
def hdrType (hdr : Option (List Leaf)) : String :=
  match hdr.bind (·.head?) with
  | some (.str t) => t
  | _ => ""

/-- `json.Unmarshal(rawEvent, &event)` fails -/
def hdrBad (hdr : Option (List Leaf)) : Bool :=
  match hdr.bind (·.head?) with
  | some (.str _) => false
  | _ => true

def lastStr (e : Option (List Leaf)) : String :=
  match e.bind (·.getLast?) with
  | some (.str x) => x
  | _ => "?"

/-- the exit the regenerated tree of the loop body takes for an element that is the JSON object `o` -/
def decodeExit (o : List (String × J)) : Nat :=
  Gen.Src.c20DecodeEventTree (hdrBad (decodeFields eventSchema o)) (decodeFields configSchema o).isNone
    (decodeFields genSchema o).isNone (decodeFields logSchema o).isNone (hdrType (decodeFields eventSchema o))
    (lastStr (decodeFields genSchema o))

/-- `DecodeSimulationPlan`, body of `for idx, rawEvent := range events.Events`, for an element that is a JSON object.
The four `err != nil` tests are four parameters (header decode, and the typed decode of each arm); the three
`plan.… = append(…)` statements are marked exits.  The model's loop step takes the exit the regenerated tree takes:
returns (kind 1) are its errors — exit 1 the header error, 2 / 4 / 6 the typed errors, 8 `unrecognized event` —
and the marked appends (kind 4) are its three ways of going on to the next element, with the decoded event appended
to the list of ITS type (`expected` defaulted on the generate arm, whichever way that inner `if` goes). -/
theorem decodeEvents_tree_matches_source (idx : Nat) (o : List (String × J)) (rest : List J) (acc : Acc) :
    decodeEvents idx (.obj o :: rest) acc =
      match Gen.Src.c20DecodeEventTreeKind (decodeExit o), decodeExit o with
      | 1, 1 => .error (.event idx)
      | 1, 2 => .error (.typed idx)
      | 1, 4 => .error (.typed idx)
      | 1, 6 => .error (.typed idx)
      | 1, 8 => .error (.unrecognized idx)
      | 4, 3 => decodeEvents (idx + 1) rest { acc with cfg := acc.cfg ++ [(decodeFields configSchema o).getD []] }
      | 4, 5 => decodeEvents (idx + 1) rest { acc with gen := acc.gen ++ [defaultExpected ((decodeFields genSchema o).getD [])] }
      | 4, 7 => decodeEvents (idx + 1) rest { acc with log := acc.log ++ [(decodeFields logSchema o).getD []] }
      | _, _ => .error (.event idx) := by
  unfold decodeExit hdrBad hdrType lastStr
  simp only [decodeEvents]
  cases hh : decodeFields eventSchema o with
  | none => simp [Gen.Src.c20DecodeEventTree, Gen.Src.c20DecodeEventTreeKind]
  | some hdr =>
    cases hhead : hdr.head? with
    | none => simp [hhead, Gen.Src.c20DecodeEventTree, Gen.Src.c20DecodeEventTreeKind]
    | some lf =>
      cases lf with
      | str t =>
        simp only [Option.bind_some, hhead, Gen.Src.c20DecodeEventTree, Bool.false_eq_true, if_false]
        by_cases h1 : t = "ocr3config"
        · cases hc : decodeFields configSchema o <;>
            simp [hc, h1, ocr3ConfigEventType, Gen.Src.c20DecodeEventTreeKind]
        · by_cases h2 : t = "generateUpkeeps"
          · cases hg : decodeFields genSchema o <;>
              simp [hg, h2, generateUpkeepEventType, ocr3ConfigEventType, Gen.Src.c20DecodeEventTreeKind]
          · by_cases h3 : t = "logTrigger"
            · cases hl : decodeFields logSchema o <;>
                simp [hl, h3, logTriggerEventType, generateUpkeepEventType, ocr3ConfigEventType, Gen.Src.c20DecodeEventTreeKind]
            · simp [h1, h2, h3, logTriggerEventType, generateUpkeepEventType, ocr3ConfigEventType, Gen.Src.c20DecodeEventTreeKind]
      | null => simp [hhead, Gen.Src.c20DecodeEventTree, Gen.Src.c20DecodeEventTreeKind]
      | int n => simp [hhead, Gen.Src.c20DecodeEventTree, Gen.Src.c20DecodeEventTreeKind]
      | dur n => simp [hhead, Gen.Src.c20DecodeEventTree, Gen.Src.c20DecodeEventTreeKind]
      | flt n => simp [hhead, Gen.Src.c20DecodeEventTree, Gen.Src.c20DecodeEventTreeKind]

/-- **How the tied exits leave their block** (`…TreeKind`: 1 return, 2 continue, 3 break).  The models rely on it:
`expectedPerforms` goes on with the NEXT upkeep after an unexpected one (`continue`, not `break` or `return`);
`logTriggersUpkeep`, `isEligible` and `findMedianAndSplitData` END at their exits (`return`); of the two `return`s of
`findMedianAndSplitData` neither hands out a literal `nil` slice (both halves are slices of the input). -/
theorem tree_exit_kinds_match_source :
    Gen.Src.c20ExpectedLoopTreeKind 1 = 2 ∧
    (∀ c v t a, Gen.Src.c20LogTriggersTreeKind (Gen.Src.c20LogTriggersTree c v t a) = 1) ∧
    Gen.Src.c20LogEligibleLoopTreeKind 1 = 1 ∧
    Gen.Src.c20IsEligibleLoopTreeKind 1 = 1 ∧ Gen.Src.c20IsEligibleLoopTreeKind 2 = 1 ∧
    Gen.Src.c20PerformedAtTreeKind 1 = 1 ∧
    (∀ n m, Gen.Src.c20MedianTreeKind (Gen.Src.c20MedianTree n m) = 1) ∧
    Gen.Src.c20MedianTreeNil2 1 = false ∧ Gen.Src.c20MedianTreeNil3 1 = false := by
  refine ⟨rfl, ?_, rfl, rfl, rfl, rfl, ?_, rfl, rfl⟩
  · intro c v t a
    simp only [Gen.Src.c20LogTriggersTree]
    split <;> (try split) <;> rfl
  · intro n m
    simp only [Gen.Src.c20MedianTree]
    split <;> (try split) <;> rfl


/-! ### the block source's subscriber registry (`BlockHistoryTracker`, tools/simulator/simulate/chain/history.go) -/

/-- **The lock scope `Hub.step true` stands for, read off the current source.**  Of the two marked effects of
`broadcast`'s body — `ht.mu.RUnlock()` (mark 1) and `ht.mu.RLock()` (mark 2) — the one reached first is the `RLock`,
and NO statement of the body is an `RUnlock`: the release is the deferred call, which runs when the function returns,
i.e. after the last send.  A body that releases the lock by a statement of its own (to send afterwards) adds a
marked exit with mark 1, and this theorem no longer checks. -/
theorem broadcast_lock_scope_matches_source :
    Gen.Src.c20BroadcastTree = 1 ∧ Gen.Src.c20BroadcastTreeMark 1 = 2 ∧ Gen.Src.c20BroadcastTreeKind 1 = 4 ∧
    (∀ e, Gen.Src.c20BroadcastTreeMark e ≠ 1) := by
  refine ⟨rfl, rfl, rfl, ?_⟩
  intro e
  unfold Gen.Src.c20BroadcastTreeMark
  split <;> decide

/-- `Unsubscribe`: a known id has its channel closed (marked effect `close(chOpen)`, followed by the delete); an unknown
id changes nothing and `nil` is returned — `Hub.step`'s `unsub` (here without a broadcast under way). -/
theorem unsubscribe_tree_matches_source (h : Hub) (id : Nat) (hp : h.pending = []) (locked : Bool) :
    (h.step locked (.unsub id)).chans =
      (if Gen.Src.c20UnsubscribeTree (decide (id ∈ h.chans)) = 1 then h.chans.erase id else h.chans) ∧
    Gen.Src.c20UnsubscribeTreeKind 1 = 4 ∧ Gen.Src.c20UnsubscribeTreeMark 1 = 1 ∧
    Gen.Src.c20UnsubscribeTreeKind 2 = 1 ∧ Gen.Src.c20UnsubscribeTreeNil1 2 = true := by
  refine ⟨?_, rfl, rfl, rfl, rfl⟩
  by_cases hm : id ∈ h.chans
  · simp [Hub.step, hp, Gen.Src.c20UnsubscribeTree, hm]
  · simp [Hub.step, hp, Gen.Src.c20UnsubscribeTree, hm, List.erase_of_not_mem hm]


end AutoVerif.C20
