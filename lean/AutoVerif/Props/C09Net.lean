import AutoVerif.Lemmas.Net
import AutoVerif.Lemmas.NetEval
import AutoVerif.Props.C07
import AutoVerif.Props.C09Link
/-
C09, whole histories — the network state machine `Model/Net` (any number of members, rounds and events; the
adversary chooses every step: the observations of every round, which logged report is delivered to whom and
when, transmit events, restarts, clock ticks) and the clauses of the property proved for EVERY schedule by
induction over `List Step`.

  refinement   `node_refines_C06`, `rounds_are_outcomes`, `log_append_only`, `answers_computed_run`
  (S1)         `transmit_vouched_run` (+ `transmit_vouched_run_linked`, `transmit_answer_vouched_run`)
  (S2)         `one_block_per_work_run`, `one_report_per_work_run`, `one_report_per_work_diff_blocks_run`,
               `one_report_per_work_single_run`, `one_report_per_work_batch1_run`
               — and the clause AS WORDED is false of the code (any-of over a report's upkeeps):
               `one_report_per_work_false_diff_blocks`, `one_report_per_work_false_same_block`
  (S3)         `inflight_not_reagreed_run`
  (S4)         `restart_safe_run`, `restart_safe_run_report`, `restart_safe_run_nothing`

A member's state in the model describes what an HONEST member does (it runs the code); the theorems about
members therefore speak about honest members.  `faulty` only classifies the OBSERVERS of a round.

NOT proved here (unchanged): the bounded-rounds liveness clause ("reported within a bounded number of rounds");
`C09.one_round_liveness_partial` is the one-round conditional form.
-/
namespace AutoVerif.Net
open AutoVerif.Outcome AutoVerif.C06

/-! ### the state machine refines the component models -/

/-- **Every member of every reachable network state is the C06 model after the member's own history** of
coordinator operations (accepts of delivered reports, event polls, ticks, collector runs, restarts).  All
theorems of Props/C06 and Props/C07 therefore hold of every member at every point of every schedule. -/
theorem node_refines_C06 (cfg : Cfg) (steps : List Step) (i : Nat) :
    ((run cfg steps).nodes i).st = (C06.run cfg.coord ((run cfg steps).nodes i).hist).st :=
  node_ok cfg steps i

/-- **Every logged round is what the code computes**: `Outcome` of the round's attributed observations on the
previous logged outcome (the empty outcome for the first round), and `Reports` of its agreed performables. -/
theorem rounds_are_outcomes (cfg : Cfg) (steps : List Step) :
    (∀ rd ∈ (run cfg steps).rounds,
      rd.out = outcome (cfg.ctx rd.key) cfg.lim rd.prev (rd.aobs.map (·.2)) rd.πres rd.πblk ∧
      rd.reports = C04.reports cfg.rep rd.out.agreed) ∧
    Chained { agreed := [], surfaced := [] } (run cfg steps).rounds :=
  ⟨rounds_wf cfg steps, rounds_chained cfg steps⟩

/-- **The log is append-only**: continuing a schedule only appends rounds and answers, and every report
reference keeps denoting the same report. -/
theorem log_append_only (cfg : Cfg) (a b : List Step) :
    (∃ ext, (run cfg (a ++ b)).rounds = (run cfg a).rounds ++ ext) ∧
    (∃ ext, (run cfg (a ++ b)).answers = (run cfg a).answers ++ ext) ∧
    ∀ ref rep, reportAt (run cfg a).rounds ref = some rep → reportAt (run cfg (a ++ b)).rounds ref = some rep := by
  rw [run_append]
  exact ⟨runFrom_rounds cfg b _, runFrom_answers cfg b _, fun _ _ h => reportAt_mono cfg b _ h⟩

/-- what a logged answer says about the state in which it was given -/
def Answer.ComputedIn (cfg : Cfg) (net : Net) : Answer → Prop
  | .transmit i ref ans => ∃ rep, reportAt net.rounds ref = some rep ∧ ans = willing (net.nodes i).st rep
  | .accept i ref ans => ∃ rep, reportAt net.rounds ref = some rep ∧
      ans = (acceptReport cfg.coord (net.nodes i).st (ups rep) false).2

/-- **Every logged answer is the code's answer in a reachable state**: the state after a prefix of the schedule,
about a report that was in the log then. -/
theorem answers_computed_run (cfg : Cfg) (steps : List Step) :
    ∀ a ∈ (run cfg steps).answers, ∃ pre suf, steps = pre ++ suf ∧ a.ComputedIn cfg (run cfg pre) := by
  refine list_snoc_induction
    (fun steps => ∀ a ∈ (run cfg steps).answers, ∃ pre suf, steps = pre ++ suf ∧ a.ComputedIn cfg (run cfg pre))
    ?_ ?_ steps
  · intro a ha; simp [run, runFrom, Net.init] at ha
  · intro l s ih a ha
    rw [run_snoc] at ha
    have old : a ∈ (run cfg l).answers → ∃ pre suf, l ++ [s] = pre ++ suf ∧ a.ComputedIn cfg (run cfg pre) := by
      intro h
      obtain ⟨pre, suf, hl, hc⟩ := ih a h
      exact ⟨pre, suf ++ [s], by rw [hl, List.append_assoc], hc⟩
    cases s with
    | round seq key aobs πres πblk => exact old ha
    | events i evs => exact old ha
    | restart i => exact old ha
    | tick i dt => exact old ha
    | gc i => exact old ha
    | accept i ref =>
      simp only [step] at ha
      split at ha
      · exact old ha
      · rename_i rep hrep
        rcases List.mem_append.mp ha with ha | ha
        · exact old ha
        · simp only [List.mem_singleton] at ha
          exact ⟨l, [_], rfl, by subst ha; exact ⟨rep, hrep, rfl⟩⟩
    | transmitQuery i ref =>
      simp only [step] at ha
      split at ha
      · exact old ha
      · rename_i rep hrep
        rcases List.mem_append.mp ha with ha | ha
        · exact old ha
        · simp only [List.mem_singleton] at ha
          exact ⟨l, [_], rfl, by subst ha; exact ⟨rep, hrep, rfl⟩⟩

/-! ### (S1) only f+1-vouched, honestly found, locally accepted work is offered for transmission -/

private theorem willing_exists {s : St} {rep : List CheckResult} (h : willing s rep = true) :
    ∃ u ∈ rep, shouldTransmit s u.workID u.trigger.blockNumber = true := by
  unfold willing at h
  rw [report_any_of_transmit] at h
  simp only [ups, List.any_map, List.any_eq_true, Function.comp] at h
  exact h

/-- **transmit_vouched_run (S1).**  In every reachable state of every schedule: if member `h` is willing to
transmit the logged report `rep` (`ShouldTransmitAcceptedReport = true`), then, with `rd` the logged round that
produced `rep`,

 (a) every upkeep of `rep` is in the agreed set of `rd` and has `F+1` identical votes among the VALIDATED
     observations of `rd` — unconditionally (Byzantine observations, dropped observations, any observer subset);
     and if at most `F` of `rd`'s observers are faulty (`hf`) and the non-faulty observers of `rd` observe only
     what their own pipeline found (`hh`, discharged from the node model in `transmit_vouched_run_linked`),
     a non-faulty member's pipeline found that upkeep eligible — identical in every field, same check block;

 (b) for at least one upkeep `u` of `rep` the member's coordinator offers `(u.workID, check block of u)`: the C06
     predicate `transmitOk` holds on the member's own coordinator log (the last successful `Accept` of that
     unit of work since the member's last restart was for exactly this check block, inside its lockout window,
     with no processed transmit event for this or a newer check block since), AND that `Accept` came from a
     logged report `rep'`, listing the same work id at the same check block, which `h` answered
     `ShouldAccept = true` for since its last restart.

`rep'` need not be `rep` itself: see `willing_for_report_never_delivered` below. -/
theorem transmit_vouched_run (cfg : Cfg) (steps : List Step) (faulty : Nat → Bool) (found : C09.PipelineLog)
    (h : Nat) (ref : Ref) (rep : List CheckResult)
    (hrep : reportAt (run cfg steps).rounds ref = some rep)
    (hw : willing ((run cfg steps).nodes h).st rep = true) :
    (∃ rd, (run cfg steps).rounds[ref.round]? = some rd ∧ rep ∈ rd.reports ∧
      (∀ u ∈ rep, u ∈ rd.out.agreed ∧
        cfg.F + 1 ≤ C01.votes (validObs (cfg.ctx rd.key) cfg.lim (rd.aobs.map (·.2))) u) ∧
      ((rd.aobs.filter (fun a => faulty a.1)).length ≤ cfg.F →
        C09.HonestObs (cfg.ctx rd.key) cfg.lim rd.aobs faulty found →
        ∀ u ∈ rep, ∃ i, faulty i = false ∧ found i u)) ∧
    (∃ u ∈ rep,
      transmitOk cfg.coord (C06.run cfg.coord ((run cfg steps).nodes h).hist).log ((run cfg steps).nodes h).st.now
        u.workID u.trigger.blockNumber = true ∧
      ∃ ref' ∈ ((run cfg steps).nodes h).accepted, ∃ rep', reportAt (run cfg steps).rounds ref' = some rep' ∧
        (u.workID, u.trigger.blockNumber) ∈ ups rep') := by
  constructor
  · obtain ⟨rd, hrd, hmem, hin⟩ := reportAt_mem hrep
    obtain ⟨hout, hreps⟩ := rounds_wf cfg steps rd hmem
    refine ⟨rd, hrd, hin, ?_, ?_⟩
    · intro u hu
      rw [hreps] at hin
      have hag : u ∈ rd.out.agreed := by
        rw [← C04.reports_concat cfg.rep rd.out.agreed]
        exact List.mem_flatten.mpr ⟨rep, hin, hu⟩
      refine ⟨hag, ?_⟩
      rw [hout] at hag
      exact C01.agreed_sound _ _ _ _ _ _ u hag
    · intro hf hh u hu
      rw [hreps, hout] at hin
      exact (C09.net_safety_round (cfg.ctx rd.key) cfg.lim rd.prev rd.aobs rd.πres rd.πblk cfg.rep faulty found hf hh
        rep hin u hu).1
  · obtain ⟨u, hu, hst⟩ := willing_exists hw
    refine ⟨u, hu, ?_⟩
    have hok := node_ok cfg steps h
    unfold NodeOk at hok
    rw [hok] at hst ⊢
    refine ⟨transmit_only_if cfg.coord _ _ _ hst, ?_⟩
    obtain ⟨post, pre, t, hlog, _, hq⟩ := transmit_only_if_explicit cfg.coord _ _ _ hst
    apply accepted_sound cfg steps h t
    rw [hlog, sinceRestart_append (by
      intro e he hc
      have := hq e he
      rw [hc] at this
      exact this)]
    refine List.mem_append_right _ ?_
    simp [sinceRestart]

/-- **(S1) with the node-level hypothesis discharged** (`Props/C09Link`): give every member a node history
(`Model/Node`: pipeline → runner → flows → result store → observation).  If the observers of the producing
round that are not faulty behave as the node model (`hconf`) and the observation attributed to each of them
in that round is one its node produced (`hattr`), then every upkeep of a report that any member is willing to
transmit was returned eligible (state 0, identical in every field, same check block) by the check pipeline of
a non-faulty member, earlier in that member's own history. -/
theorem transmit_vouched_run_linked (cfg : Cfg) (steps : List Step) (faulty : Nat → Bool)
    (ncfg : Nat → Node.Cfg) (hist : Nat → List Node.Ev)
    (h : Nat) (ref : Ref) (rep : List CheckResult) (rd : RoundRec)
    (hrep : reportAt (run cfg steps).rounds ref = some rep)
    (hw : willing ((run cfg steps).nodes h).st rep = true)
    (hrd : (run cfg steps).rounds[ref.round]? = some rd)
    (hf : (rd.aobs.filter (fun a => faulty a.1)).length ≤ cfg.F)
    (hconf : ∀ a ∈ rd.aobs, faulty a.1 = false → Node.Conforms (ncfg a.1) (hist a.1))
    (hattr : ∀ a ∈ rd.aobs, faulty a.1 = false → ∀ o, a.2 = some o → Node.Produced (hist a.1) o) :
    ∀ u ∈ rep, (∃ i, faulty i = false ∧ Node.ReturnedEligible (hist i) u) ∧
      cfg.F + 1 ≤ C01.votes (validObs (cfg.ctx rd.key) cfg.lim (rd.aobs.map (·.2))) u := by
  obtain ⟨⟨rd', hrd', _, hv, hfound⟩, _⟩ :=
    transmit_vouched_run cfg steps faulty (fun i r => Node.ReturnedEligible (hist i) r) h ref rep hrep hw
  rw [hrd] at hrd'
  cases hrd'
  intro u hu
  exact ⟨hfound hf (Node.honestObs_discharged (cfg.ctx rd.key) cfg.lim rd.aobs faulty ncfg hist hconf hattr) u hu,
    (hv u hu).2⟩

/-- **(S1) on the log**: every logged answer "willing to transmit" was given in a reachable state about a report
of the log, so `transmit_vouched_run` applies to it; the producing round is still at the same place of the final
log. -/
theorem transmit_answer_vouched_run (cfg : Cfg) (steps : List Step) (h : Nat) (ref : Ref)
    (ha : Answer.transmit h ref true ∈ (run cfg steps).answers) :
    ∃ pre suf rep, steps = pre ++ suf ∧ reportAt (run cfg pre).rounds ref = some rep ∧
      reportAt (run cfg steps).rounds ref = some rep ∧ willing ((run cfg pre).nodes h).st rep = true := by
  obtain ⟨pre, suf, hs, rep, hrep, hans⟩ := answers_computed_run cfg steps _ ha
  refine ⟨pre, suf, rep, hs, hrep, ?_, hans.symm⟩
  rw [hs]
  exact (log_append_only cfg pre suf).2.2 ref rep hrep

/-! ### (S2) one check block per unit of work; what holds per report -/

private theorem awaited_of_transmitOk {ccfg : C06.Cfg} {log : List LogE} {now : Nat} {w : String} {b : Nat}
    (h : transmitOk ccfg log now w b = true) : ∃ t, awaited w b log = some t := by
  unfold transmitOk at h
  cases ha : awaited w b log with
  | none => simp [ha] at h
  | some t => exact ⟨t, rfl⟩

/-- **one_block_per_work_run (S2, upkeep level).**  In every reachable state a member's coordinator offers a unit
of work `w` for transmission at ONE check block at most; that block is the one of the newest successful `Accept`
of `w` since the member's last restart (`awaited … = some t`). -/
theorem one_block_per_work_run (cfg : Cfg) (steps : List Step) (h : Nat) (w : String) (b1 b2 : Nat)
    (h1 : shouldTransmit ((run cfg steps).nodes h).st w b1 = true)
    (h2 : shouldTransmit ((run cfg steps).nodes h).st w b2 = true) :
    b1 = b2 ∧ ∃ t, awaited w b1 (C06.run cfg.coord ((run cfg steps).nodes h).hist).log = some t := by
  constructor
  · obtain ⟨v1, hg1, hb1, _⟩ := (shouldTransmit_iff _ _ _).mp h1
    obtain ⟨v2, hg2, hb2, _⟩ := (shouldTransmit_iff _ _ _).mp h2
    rw [hg1] at hg2; cases hg2
    omega
  · have hok := node_ok cfg steps h
    unfold NodeOk at hok
    rw [hok] at h1
    exact awaited_of_transmitOk (transmit_only_if cfg.coord _ _ _ h1)

/-- a report is offered iff it is offered on account of one of its units of work -/
theorem willing_iff_willingFor (s : St) (rep : List CheckResult) :
    willing s rep = true ↔ ∃ u ∈ rep, willingFor s rep u.workID = true := by
  constructor
  · intro h
    obtain ⟨u, hu, hst⟩ := willing_exists h
    refine ⟨u, hu, ?_⟩
    simp only [willingFor, ups, List.any_map, List.any_eq_true, Function.comp]
    exact ⟨u, hu, by simp [hst]⟩
  · intro ⟨_, _, h⟩
    unfold willing
    rw [report_any_of_transmit]
    simp only [willingFor, List.any_eq_true, Bool.and_eq_true, decide_eq_true_eq] at h ⊢
    obtain ⟨x, hx, _, hst⟩ := h
    exact ⟨x, hx, hst⟩

private theorem willingFor_exists {s : St} {rep : List CheckResult} {w : String} (h : willingFor s rep w = true) :
    ∃ b, (w, b) ∈ ups rep ∧ shouldTransmit s w b = true := by
  simp only [willingFor, List.any_eq_true, Bool.and_eq_true, decide_eq_true_eq] at h
  obtain ⟨⟨w', b⟩, hx, hw, hst⟩ := h
  simp only at hw hst
  subst hw
  exact ⟨b, hx, hst⟩

/-- **one_report_per_work_run (S2, report level — what the code guarantees).**  In every reachable state: if a
member is willing to transmit two reports `A` and `B` (any two lists of upkeeps, in particular any two logged
reports) ON ACCOUNT OF the same unit of work `w`, then both list `w` at the same check block `b`, and `b` is the
check block of the member's newest successful `Accept` of `w` since its last restart. -/
theorem one_report_per_work_run (cfg : Cfg) (steps : List Step) (h : Nat) (w : String) (A B : List CheckResult)
    (hA : willingFor ((run cfg steps).nodes h).st A w = true)
    (hB : willingFor ((run cfg steps).nodes h).st B w = true) :
    ∃ b, (w, b) ∈ ups A ∧ (w, b) ∈ ups B ∧ shouldTransmit ((run cfg steps).nodes h).st w b = true ∧
      ∃ t, awaited w b (C06.run cfg.coord ((run cfg steps).nodes h).hist).log = some t := by
  obtain ⟨b1, hm1, h1⟩ := willingFor_exists hA
  obtain ⟨b2, hm2, h2⟩ := willingFor_exists hB
  obtain ⟨hb, ht⟩ := one_block_per_work_run cfg steps h w b1 b2 h1 h2
  subst hb
  exact ⟨b1, hm1, hm2, h1, ht⟩

/-- **(S2) for different check blocks**: two reports that list `w` only at different check blocks are never both
offered on account of `w`. -/
theorem one_report_per_work_diff_blocks_run (cfg : Cfg) (steps : List Step) (h : Nat) (w : String)
    (A B : List CheckResult) (hd : ∀ bA bB, (w, bA) ∈ ups A → (w, bB) ∈ ups B → bA ≠ bB) :
    ¬ (willingFor ((run cfg steps).nodes h).st A w = true ∧ willingFor ((run cfg steps).nodes h).st B w = true) := by
  intro ⟨hA, hB⟩
  obtain ⟨b, h1, h2, _⟩ := one_report_per_work_run cfg steps h w A B hA hB
  exact hd b b h1 h2 rfl

/-- **(S2) for single-upkeep reports, full strength**: two single-upkeep reports for the same unit of work that a
member is willing to transmit at once carry the same check block. -/
theorem one_report_per_work_single_run (cfg : Cfg) (steps : List Step) (h : Nat) (uA uB : CheckResult)
    (hw : uA.workID = uB.workID)
    (hA : willing ((run cfg steps).nodes h).st [uA] = true) (hB : willing ((run cfg steps).nodes h).st [uB] = true) :
    uA.trigger.blockNumber = uB.trigger.blockNumber := by
  obtain ⟨u, hu, h1⟩ := willing_exists hA
  obtain ⟨v, hv, h2⟩ := willing_exists hB
  simp only [List.mem_singleton] at hu hv
  subst hu; subst hv
  rw [hw] at h1
  exact (one_block_per_work_run cfg steps h _ _ _ h1 h2).1

/-- with `MaxUpkeepBatchSize = 1` every logged report has exactly one upkeep -/
theorem reports_singleton_of_batch_one (cfg : Cfg) (hb : cfg.rep.batch = 1) (steps : List Step) (ref : Ref)
    (rep : List CheckResult) (hrep : reportAt (run cfg steps).rounds ref = some rep) : ∃ u, rep = [u] := by
  obtain ⟨rd, _, hmem, hin⟩ := reportAt_mem hrep
  obtain ⟨_, hreps⟩ := rounds_wf cfg steps rd hmem
  rw [hreps] at hin
  have := C04.reports_each cfg.rep (by omega) rd.out.agreed rep hin
  simp only [C04.reportOk, Bool.and_eq_true, decide_eq_true_eq] at this
  obtain ⟨⟨⟨hne, hlen⟩, _⟩, _⟩ := this
  match rep, hne, hlen with
  | [u], _, _ => exact ⟨u, rfl⟩
  | _ :: _ :: _, _, hlen => simp at hlen; omega

/-- **(S2) at full strength when the batch size is 1**: in every reachable state two logged reports that list the
same unit of work and that a member is willing to transmit at once list it at the same check block. -/
theorem one_report_per_work_batch1_run (cfg : Cfg) (hb : cfg.rep.batch = 1) (steps : List Step) (h : Nat)
    (refA refB : Ref) (A B : List CheckResult)
    (hrA : reportAt (run cfg steps).rounds refA = some A) (hrB : reportAt (run cfg steps).rounds refB = some B)
    (uA uB : CheckResult) (hA : uA ∈ A) (hB : uB ∈ B) (hw : uA.workID = uB.workID)
    (hwA : willing ((run cfg steps).nodes h).st A = true) (hwB : willing ((run cfg steps).nodes h).st B = true) :
    uA.trigger.blockNumber = uB.trigger.blockNumber := by
  obtain ⟨a, rfl⟩ := reports_singleton_of_batch_one cfg hb steps refA A hrA
  obtain ⟨b, rfl⟩ := reports_singleton_of_batch_one cfg hb steps refB B hrB
  simp only [List.mem_singleton] at hA hB
  subst hA; subst hB
  exact one_report_per_work_single_run cfg steps h uA uB hw hwA hwB

/-! ### (S3) not agreed again while in flight on every non-faulty observer -/

private theorem inFlight_blocks (cfg : Cfg) (pre : List Step) (i : Nat) (w : String)
    (hfl : inFlight ((run cfg pre).nodes i).st w = true) (cand : List CheckResult) :
    ∀ r ∈ filterResults cfg.utg ((run cfg pre).nodes i).st cand, r.workID ≠ w := by
  intro r hr hw
  have hok := node_ok cfg pre i
  unfold NodeOk at hok
  rw [((C07.filters_are_filter cfg.utg _).2.1 cand)] at hr
  simp only [List.mem_filter] at hr
  obtain ⟨_, hsp⟩ := hr
  -- the member's record for `w` is a pending one
  unfold inFlight at hfl
  cases hg : ((run cfg pre).nodes i).st.cache.get w ((run cfg pre).nodes i).st.now with
  | none => simp [hg] at hfl
  | some v =>
    simp only [hg] at hfl
    rw [hok] at hg hsp
    rw [(inv_run cfg.coord _).get_eq_known] at hg
    have := (C07.pending_blocks_all cfg.utg cfg.coord _ w v hg hfl r.upkeepID r.trigger.blockNumber).1
    rw [hw, this] at hsp
    cases hsp

/-- **inflight_not_reagreed_run (S3).**  Take any schedule `steps` and play one more round on it.  If at most `F`
of the round's observers are faulty and every non-faulty observer built its observation — at the end of the
schedule or at ANY EARLIER point of it (a delayed observation) — through its coordinator's `FilterResults`
while `w` was in flight on it (a live record "accepted, transmission pending"), then no result for `w` is
agreed in that round and no report of that round lists `w`.  (Lift of `C09.inflight_not_reagreed` through
`C07.pending_blocks_all`, `C07.filters_are_filter` and `node_refines_C06`.) -/
theorem inflight_not_reagreed_run (cfg : Cfg) (steps : List Step) (seq : Nat) (key : String → String)
    (aobs : AttrObs) (πres : List String) (πblk : List BlockKey) (faulty : Nat → Bool) (w : String)
    (hf : (aobs.filter (fun a => faulty a.1)).length ≤ cfg.F)
    (hobs : ∀ a ∈ aobs, faulty a.1 = false → ∀ o, a.2 = some o →
      ∃ pre suf, steps = pre ++ suf ∧ inFlight ((run cfg pre).nodes a.1).st w = true ∧
        ∃ cand, ∀ r ∈ o.performable, r ∈ filterResults cfg.utg ((run cfg pre).nodes a.1).st cand) :
    ∃ rd, (run cfg (steps ++ [.round seq key aobs πres πblk])).rounds = (run cfg steps).rounds ++ [rd] ∧
      rd.aobs = aobs ∧ (∀ u ∈ rd.out.agreed, u.workID ≠ w) ∧ ∀ rep ∈ rd.reports, ∀ u ∈ rep, u.workID ≠ w := by
  refine ⟨playRound cfg (run cfg steps).rounds seq key aobs πres πblk, by rw [run_snoc]; rfl, rfl, ?_⟩
  have hag : ∀ u ∈ (playRound cfg (run cfg steps).rounds seq key aobs πres πblk).out.agreed, u.workID ≠ w := by
    apply C09.inflight_not_reagreed (cfg.ctx key) cfg.lim _ aobs πres πblk faulty w hf
    intro a ha hfa o ho r hr
    obtain ⟨pre, _, _, hfl, cand, hc⟩ := hobs a ha hfa o ho
    exact inFlight_blocks cfg pre a.1 w hfl cand r (hc r hr)
  refine ⟨hag, ?_⟩
  intro rep hrep u hu
  apply hag
  have hc := C04.reports_concat cfg.rep (playRound cfg (run cfg steps).rounds seq key aobs πres πblk).out.agreed
  rw [← hc]
  exact List.mem_flatten.mpr ⟨rep, hrep, hu⟩

/-! ### (S4) a restart forgets everything until the member accepts again -/

private theorem step_hist (cfg : Cfg) (net : Net) (s : Step) (h : Nat) :
    ∃ ops, ((step cfg net s).nodes h).hist = (net.nodes h).hist ++ ops ∧
      ∀ op ∈ ops, (∀ w b, op ≠ Op.accept w b) ∨
        ∃ ref rep u, s = .accept h ref ∧ reportAt net.rounds ref = some rep ∧ u ∈ rep ∧
          op = Op.accept u.workID u.trigger.blockNumber := by
  have same : ((net.nodes h).hist = (net.nodes h).hist ++ []) := by simp
  cases s with
  | round seq key aobs πres πblk => exact ⟨[], same, by simp⟩
  | transmitQuery i ref => simp only [step]; split <;> exact ⟨[], same, by simp⟩
  | accept i ref =>
    simp only [step]
    split
    · exact ⟨[], same, by simp⟩
    · rename_i rep hrep
      by_cases hi : h = i
      · subst hi
        refine ⟨(ups rep).map (fun u => Op.accept u.1 u.2), by simp [setNode_same, NodeSt.accept], ?_⟩
        intro op hop
        simp only [ups, List.map_map, List.mem_map, Function.comp] at hop
        obtain ⟨u, hu, rfl⟩ := hop
        exact Or.inr ⟨ref, rep, u, rfl, hrep, hu, rfl⟩
      · exact ⟨[], by simp [setNode_other _ _ hi], by simp⟩
  | events i evs =>
    by_cases hi : h = i
    · subst hi; exact ⟨[.poll evs], by simp [step, setNode_same, NodeSt.events], by simp⟩
    · exact ⟨[], by simp [step, setNode_other _ _ hi], by simp⟩
  | restart i =>
    by_cases hi : h = i
    · subst hi; exact ⟨[.restart], by simp [step, setNode_same, NodeSt.restart], by simp⟩
    · exact ⟨[], by simp [step, setNode_other _ _ hi], by simp⟩
  | tick i dt =>
    by_cases hi : h = i
    · subst hi; exact ⟨[.advance dt], by simp [step, setNode_same, NodeSt.tick], by simp⟩
    · exact ⟨[], by simp [step, setNode_other _ _ hi], by simp⟩
  | gc i =>
    by_cases hi : h = i
    · subst hi; exact ⟨[.gc], by simp [step, setNode_same, NodeSt.gc], by simp⟩
    · exact ⟨[], by simp [step, setNode_other _ _ hi], by simp⟩

private theorem runFrom_hist (cfg : Cfg) (h : Nat) (w : String) : ∀ (steps : List Step) (net : Net),
    (∀ ref, Step.accept h ref ∈ steps → ∀ rep, reportAt (runFrom cfg net steps).rounds ref = some rep →
      ∀ u ∈ rep, u.workID ≠ w) →
    ∃ ops, ((runFrom cfg net steps).nodes h).hist = (net.nodes h).hist ++ ops ∧ ∀ op ∈ ops, ∀ b, op ≠ Op.accept w b := by
  intro steps
  induction steps with
  | nil => intro net _; exact ⟨[], by simp [runFrom], by simp⟩
  | cons s ss ih =>
    intro net hno
    have hrf : runFrom cfg net (s :: ss) = runFrom cfg (step cfg net s) ss := rfl
    obtain ⟨ops1, h1, hops1⟩ := step_hist cfg net s h
    obtain ⟨ops2, h2, hops2⟩ := ih (step cfg net s) (by
      intro ref hm rep hrep
      exact hno ref (List.mem_cons_of_mem _ hm) rep (by rw [hrf]; exact hrep))
    refine ⟨ops1 ++ ops2, by rw [hrf, h2, h1, List.append_assoc], ?_⟩
    intro op hop b
    rcases List.mem_append.mp hop with hop | hop
    · rcases hops1 op hop with hn | ⟨ref, rep, u, hs, hrep, hu, rfl⟩
      · exact hn w b
      · intro hc
        simp only [Op.accept.injEq] at hc
        have hfin : reportAt (runFrom cfg net (s :: ss)).rounds ref = some rep := by
          rw [hrf]
          obtain ⟨ext, he⟩ := step_rounds cfg net s
          exact reportAt_mono cfg ss _ (by rw [he]; exact reportAt_append hrep)
        exact hno ref (by rw [hs]; exact List.mem_cons_self ..) rep hfin u hu hc.1
    · exact hops2 op hop b

/-- **restart_safe_run (S4).**  After `restart h` at any point of any schedule, member `h` offers nothing for
unit of work `w` — whatever rounds are played, whatever is delivered to other members, whatever events arrive
and however much time passes — until a report listing `w` is delivered to `h` again.  (Lift of
`C06.restart_forgets` through `node_refines_C06`.) -/
theorem restart_safe_run (cfg : Cfg) (steps1 steps2 : List Step) (h : Nat) (w : String)
    (hno : ∀ ref, Step.accept h ref ∈ steps2 →
      ∀ rep, reportAt (run cfg (steps1 ++ .restart h :: steps2)).rounds ref = some rep → ∀ u ∈ rep, u.workID ≠ w) :
    ∀ b, shouldTransmit ((run cfg (steps1 ++ .restart h :: steps2)).nodes h).st w b = false := by
  intro b
  have hsplit : run cfg (steps1 ++ .restart h :: steps2) = runFrom cfg (step cfg (run cfg steps1) (.restart h)) steps2 := by
    rw [run_append]; rfl
  have hok := node_ok cfg (steps1 ++ .restart h :: steps2) h
  unfold NodeOk at hok
  obtain ⟨ops, hh, hops⟩ := runFrom_hist cfg h w steps2 (step cfg (run cfg steps1) (.restart h)) (by
    intro ref hm rep hrep
    exact hno ref hm rep (by rw [hsplit]; exact hrep))
  rw [← hsplit] at hh
  have hr : ((step cfg (run cfg steps1) (.restart h)).nodes h).hist = ((run cfg steps1).nodes h).hist ++ [.restart] := by
    simp [step, setNode_same, NodeSt.restart]
  rw [hok, hh, hr, List.append_assoc]
  exact restart_forgets cfg.coord _ ops w b (by
    intro op hop b' hc
    exact hops op hop b' hc)

/-- **(S4), report level**: after `restart h`, `h` is not willing to transmit a report `rep` as long as no report
sharing a unit of work with `rep` has been delivered to it since. -/
theorem restart_safe_run_report (cfg : Cfg) (steps1 steps2 : List Step) (h : Nat) (rep : List CheckResult)
    (hno : ∀ ref, Step.accept h ref ∈ steps2 →
      ∀ rep', reportAt (run cfg (steps1 ++ .restart h :: steps2)).rounds ref = some rep' →
        ∀ u' ∈ rep', ∀ u ∈ rep, u'.workID ≠ u.workID) :
    willing ((run cfg (steps1 ++ .restart h :: steps2)).nodes h).st rep = false := by
  cases hw : willing ((run cfg (steps1 ++ .restart h :: steps2)).nodes h).st rep with
  | false => rfl
  | true =>
    obtain ⟨u, hu, hst⟩ := willing_exists hw
    rw [restart_safe_run cfg steps1 steps2 h u.workID (fun ref hm rep' hr u' hu' => hno ref hm rep' hr u' hu' u hu)] at hst
    cases hst

/-- **(S4), simplest form**: after `restart h`, as long as nothing is delivered to `h`, it is willing to transmit
nothing at all and nothing is in flight on it. -/
theorem restart_safe_run_nothing (cfg : Cfg) (steps1 steps2 : List Step) (h : Nat)
    (hno : ∀ ref, Step.accept h ref ∉ steps2) :
    (∀ rep, willing ((run cfg (steps1 ++ .restart h :: steps2)).nodes h).st rep = false) ∧
    ∀ w b, shouldTransmit ((run cfg (steps1 ++ .restart h :: steps2)).nodes h).st w b = false :=
  ⟨fun rep => restart_safe_run_report cfg steps1 steps2 h rep (fun ref hm => absurd hm (hno ref)),
   fun w => restart_safe_run cfg steps1 steps2 h w (fun ref hm => absurd hm (hno ref))⟩

/-! ### a concrete 4-member network, F = 1: non-vacuity, and the corners of (S1)(b) and (S2)

Members 0, 1, 2 are honest, member 3 is Byzantine (in `sched0`: member 2).  Batch size 3, lockout window 1000 ns,
one confirmation required.  Work ids are upkeep ids (`wg := fun u _ => u`), the shuffle is the identity, all results
for one work id collide in `uid` (so the probing of `performables.add` is exercised).  The two Go map orders are the
canonical ones (`resKeys`; no block history).  Everything below is evaluated by the kernel (`decide +kernel`) after
rewriting `run` into its kernel-evaluable twin (`run_eq_runE`, Lemmas/NetEval: `List.mergeSort` is well-founded
recursion and does not reduce in the kernel; it is proved equal to a structural stable insertion sort). -/

private def res (w : String) (b : Nat) (pd : String) : CheckResult :=
  { pes := 0, retryable := false, eligible := true, reason := 0, upkeepID := w,
    trigger := { blockNumber := b, blockHash := "h", ext := none }, workID := w, gas := 5,
    performData := pd, fastGasWei := some 1, linkNative := some 1 }

private def cfg0 : Cfg :=
  { F := 1, utg := fun _ => .condition, wg := fun u _ => u, uid := fun r => r.workID,
    lim := { obsPerformables := 100, obsLogProposals := 5, obsCondProposals := 5, obsBlockHistory := 256,
             agreedLimit := 100, perRound := 50, roundHistory := 20 },
    rep := { batch := 3, gasLimit := 5300000, overhead := 300000 },
    coord := { minConf := 1, window := 1000 } }

private def ob (rs : List CheckResult) : Option Observation :=
  some { performable := rs, proposals := [], blockHistory := [] }

private def rnd (seq : Nat) (aobs : AttrObs) : Step :=
  .round seq id aobs (resKeys (cfg0.ctx id) (validObs (cfg0.ctx id) cfg0.lim (aobs.map (·.2)))) []

private def a5 : CheckResult := res "a" 5 "01"
private def r00 : Ref := ⟨0, 0⟩
private def r10 : Ref := ⟨1, 0⟩

/-- round 1: members 0 and 1 observe `a@5`, Byzantine member 2 sends a variant with other perform data, member 3's
observation is dropped; the report is accepted by 0 and 1; member 1 crashes BETWEEN accept and transmit and is asked
(no); the report is delivered again, late, to both (1 accepts anew, 0 refuses the duplicate); an unconfirmed perform
event and a confirmed stale event for an OLDER check block change nothing on 0; the confirmed perform event for
check block 5 withdraws the offer on 0; member 1, whose provider has not shown it yet, is still willing. -/
private def sched0 : List Step :=
  [ rnd 1 [(0, ob [a5]), (1, ob [a5]), (2, ob [res "a" 5 "ff"])],
    .accept 0 r00, .accept 1 r00,
    .restart 1,
    .transmitQuery 1 r00, .transmitQuery 0 r00,
    .tick 0 10, .tick 1 10,
    .accept 1 r00, .accept 0 r00,
    .transmitQuery 1 r00,
    .events 0 [⟨"a", "aa", 1, 9, 5, 0⟩], .transmitQuery 0 r00,
    .events 0 [⟨"a", "bb", 2, 9, 3, 5⟩], .transmitQuery 0 r00,
    .gc 0, .tick 0 20,
    .events 0 [⟨"a", "aa", 1, 9, 5, 3⟩, ⟨"a", "aa", 1, 9, 5, 3⟩], .transmitQuery 0 r00,
    .transmitQuery 1 r00 ]

private def faulty0 : Nat → Bool := fun i => i == 2
private def found0 : C09.PipelineLog := fun i r => (i = 0 ∨ i = 1) ∧ r = a5

/-- what the schedule produces: the report `[a@5]` and the sequence of answers -/
example :
    reportAt (run cfg0 sched0).rounds r00 = some [a5] ∧
    (run cfg0 sched0).answers =
      [.accept 0 r00 true, .accept 1 r00 true, .transmit 1 r00 false, .transmit 0 r00 true,
       .accept 1 r00 true, .accept 0 r00 false, .transmit 1 r00 true, .transmit 0 r00 true, .transmit 0 r00 true,
       .transmit 0 r00 false, .transmit 1 r00 true] ∧
    willing ((run cfg0 sched0).nodes 1).st [a5] = true ∧
    ((run cfg0 sched0).nodes 1).accepted = [r00] ∧
    ((run cfg0 sched0).nodes 1).hist.length = 4 := by
  rw [run_eq_runE]; decide +kernel

/-- the hypotheses of `transmit_vouched_run` are met by `sched0` (member 1, willing at the end), and its conclusion
(a) names an honest finder -/
example : ∀ u ∈ [a5], ∃ i, faulty0 i = false ∧ found0 i u := by
  obtain ⟨⟨rd, hrd, _, _, hfound⟩, _⟩ :=
    transmit_vouched_run cfg0 sched0 faulty0 found0 1 r00 [a5] (by rw [run_eq_runE]; decide +kernel)
      (by rw [run_eq_runE]; decide +kernel)
  have haobs : ((run cfg0 sched0).rounds[r00.round]?).map (·.aobs) =
      some [(0, ob [a5]), (1, ob [a5]), (2, ob [res "a" 5 "ff"])] := by rw [run_eq_runE]; decide +kernel
  rw [hrd] at haobs
  simp only [Option.map_some, Option.some.injEq] at haobs
  apply hfound
  · rw [haobs]; decide
  · intro a ha hfa o ho r hr
    rw [haobs] at ha
    simp only [List.mem_cons, List.not_mem_nil, or_false] at ha
    rcases ha with rfl | rfl | rfl
    · cases ho; simp only [List.mem_singleton] at hr; exact ⟨Or.inl rfl, hr⟩
    · cases ho; simp only [List.mem_singleton] at hr; exact ⟨Or.inr rfl, hr⟩
    · cases hfa

/-- `restart_safe_run_nothing` on `sched0`: right after member 1's restart (steps up to the late re-delivery) -/
example : willing ((run cfg0 (sched0.take 3 ++ .restart 1 :: (sched0.drop 4).take 4)).nodes 1).st [a5] = false :=
  (restart_safe_run_nothing cfg0 (sched0.take 3) ((sched0.drop 4).take 4) 1 (by
    intro ref hm
    simp [sched0] at hm)).1 [a5]

/-- … and it is necessary that nothing is delivered: after the late re-delivery member 1 is willing again -/
example : willing ((run cfg0 (sched0.take 9)).nodes 1).st [a5] = true := by rw [run_eq_runE]; decide +kernel

private def w5 : CheckResult := res "w" 5 "01"
private def w6 : CheckResult := res "w" 6 "02"
private def x5 : CheckResult := res "x" 5 "03"
private def x7 : CheckResult := res "x" 7 "04"

/-- (S3) hypotheses met: `w` is in flight on members 0, 1, 2 after they accepted `[w@5]`; whatever Byzantine
member 3 sends in the next round (here `w@6`), the honest observations built through `FilterResults` do not list
`w`, and `w` is not agreed -/
example :
    let pre : List Step := [rnd 1 [(0, ob [w5]), (1, ob [w5]), (2, ob [w5])], .accept 0 r00, .accept 1 r00, .accept 2 r00]
    let aobs : AttrObs := [(0, ob []), (1, ob []), (2, ob []), (3, ob [w6])]
    (aobs.filter (fun a => a.1 == 3)).length ≤ cfg0.F ∧
    (∀ i ∈ [0, 1, 2], inFlight ((run cfg0 pre).nodes i).st "w" = true ∧
      filterResults cfg0.utg ((run cfg0 pre).nodes i).st [w6, x7] = [x7]) ∧
    ((run cfg0 (pre ++ [rnd 2 aobs])).rounds.map (·.out.agreed)) = [[w5], []] := by
  simp only [run_eq_runE]; decide +kernel

/-! #### (S1)(b): the accepted report may be a different one -/

/-- **willing_for_report_never_delivered.**  `ShouldTransmitAcceptedReport` is any-of over `(work id, check
block)` pairs, so a member that accepted report `A = [w@5]` answers "transmit" for EVERY logged report that lists
`w@5` — here `B = [w@5, x@7]` of the next round, which was never delivered to it.  (libocr only asks about reports
it delivered; clause (a) of `transmit_vouched_run` holds for `B` regardless: it is in the log.) -/
theorem willing_for_report_never_delivered :
    let sched : List Step :=
      [ rnd 1 [(0, ob [w5]), (1, ob [w5]), (2, ob [w5])], .accept 0 r00,
        rnd 2 [(0, ob [x7]), (1, ob [w5, x7]), (2, ob [x7]), (3, ob [w5, x7])],
        .transmitQuery 0 r10 ]
    reportAt (run cfg0 sched).rounds r10 = some [w5, x7] ∧
    ((run cfg0 sched).nodes 0).accepted = [r00] ∧
    (run cfg0 sched).answers = [.accept 0 r00 true, .transmit 0 r10 true] := by
  simp only [run_eq_runE]; decide +kernel

/-! #### (S2): the clause as worded is false of the code

"No honest node is ever willing to transmit two different reports for the same unit of work at once" fails in
two ways, both consequences of the any-of rule in `ShouldAcceptAttestedReport` / `ShouldTransmitAcceptedReport`
(ocr3.go) over the per-work-id records of the coordinator; both schedules satisfy every hypothesis of the property
(one Byzantine member, 3, out of 4; every honest observation passes its own coordinator's filter when it is built;
only attested reports are delivered; both reports were answered `ShouldAccept = true`, so libocr does ask about
both).  What DOES hold is `one_report_per_work_run` / `…_diff_blocks_run` / `…_batch1_run` above. -/

/-- round 1 agrees `[w@5, x@5]` (report `A`), accepted by 0 and 2, delayed for 1; in round 2 member 1 — which has
not seen `A` — observes `w@6, x@6`, Byzantine member 3 echoes `w@6` only: `w@6` has `F+1 = 2` votes and is agreed
(report `B = [w@6]`); member 0 accepts `B` (6 > 5). -/
private def sched1 : List Step :=
  [ rnd 1 [(0, ob [w5, x5]), (1, ob [w5, x5]), (2, ob [w5, x5])],
    .accept 0 r00, .accept 2 r00,
    rnd 2 [(0, ob []), (1, ob [w6, res "x" 6 "05"]), (2, ob []), (3, ob [w6])],
    .accept 0 r10,
    .transmitQuery 0 r00, .transmitQuery 0 r10 ]

/-- honest observers of the round played after `pre` list only what their own `FilterResults` lets through then
(`runE cfg0 pre = run cfg0 pre`: `run_eq_runE`) -/
private def honestFiltered (pre : List Step) (aobs : AttrObs) : Bool :=
  aobs.all fun a => a.1 == 3 ||
    match a.2 with
    | some o => decide (filterResults cfg0.utg ((runE cfg0 pre).nodes a.1).st o.performable = o.performable)
    | none => true

/-- **one_report_per_work_false_diff_blocks.**  Member 0 is willing to transmit `A = [w@5, x@5]` (on account of
`x`, still pending) AND `B = [w@6]` (on account of `w`) at once: two different reports for unit of work `w`, at
DIFFERENT check blocks.  Consistently with `one_report_per_work_run`, only `B` is offered on account of `w`. -/
theorem one_report_per_work_false_diff_blocks :
    let net := run cfg0 sched1
    reportAt net.rounds r00 = some [w5, x5] ∧ reportAt net.rounds r10 = some [w6] ∧
    (net.nodes 0).accepted = [r00, r10] ∧
    willing (net.nodes 0).st [w5, x5] = true ∧ willing (net.nodes 0).st [w6] = true ∧
    net.answers = [.accept 0 r00 true, .accept 2 r00 true, .accept 0 r10 true, .transmit 0 r00 true, .transmit 0 r10 true] ∧
    willingFor (net.nodes 0).st [w5, x5] "w" = false ∧ willingFor (net.nodes 0).st [w5, x5] "x" = true ∧
    willingFor (net.nodes 0).st [w6] "w" = true ∧
    (net.rounds.all fun rd => decide ((rd.aobs.filter (fun a => a.1 == 3)).length ≤ cfg0.F)) = true ∧
    honestFiltered [] [(0, ob [w5, x5]), (1, ob [w5, x5]), (2, ob [w5, x5])] = true ∧
    honestFiltered (sched1.take 3) [(0, ob []), (1, ob [w6, res "x" 6 "05"]), (2, ob []), (3, ob [w6])] = true := by
  simp only [run_eq_runE]; decide +kernel

/-- round 1 agrees `[w@5]` (report `A`), accepted by 0 and 2, delayed for 1; in round 2 member 1 still lists `w@5`
(and the new `x@7`), Byzantine member 3 echoes it, members 0 and 2 list `x@7` only: `B = [w@5, x@7]`; member 0
accepts `B` on account of `x` (`Accept(w, 5)` is refused: not higher). -/
private def sched2 : List Step :=
  [ rnd 1 [(0, ob [w5]), (1, ob [w5]), (2, ob [w5])],
    .accept 0 r00, .accept 2 r00,
    rnd 2 [(0, ob [x7]), (1, ob [w5, x7]), (2, ob [x7]), (3, ob [w5, x7])],
    .accept 0 r10,
    .transmitQuery 0 r00, .transmitQuery 0 r10 ]

/-- **one_report_per_work_false_same_block.**  Member 0 is willing to transmit `A = [w@5]` AND `B = [w@5, x@7]` at
once, both ON ACCOUNT OF unit of work `w` at the SAME check block 5: the coordinator keeps one record per work id
and cannot tell two reports carrying the same `(work id, check block)` apart. -/
theorem one_report_per_work_false_same_block :
    let net := run cfg0 sched2
    reportAt net.rounds r00 = some [w5] ∧ reportAt net.rounds r10 = some [w5, x7] ∧
    (net.nodes 0).accepted = [r00, r10] ∧
    willing (net.nodes 0).st [w5] = true ∧ willing (net.nodes 0).st [w5, x7] = true ∧
    net.answers = [.accept 0 r00 true, .accept 2 r00 true, .accept 0 r10 true, .transmit 0 r00 true, .transmit 0 r10 true] ∧
    willingFor (net.nodes 0).st [w5] "w" = true ∧ willingFor (net.nodes 0).st [w5, x7] "w" = true ∧
    (net.rounds.all fun rd => decide ((rd.aobs.filter (fun a => a.1 == 3)).length ≤ cfg0.F)) = true ∧
    honestFiltered [] [(0, ob [w5]), (1, ob [w5]), (2, ob [w5])] = true ∧
    honestFiltered (sched2.take 3) [(0, ob [x7]), (1, ob [w5, x7]), (2, ob [x7]), (3, ob [w5, x7])] = true := by
  simp only [run_eq_runE]; decide +kernel

/-- the positive theorems on these witnesses: in `sched2` both reports are offered on account of `w`, and
`one_report_per_work_run` yields the common check block -/
example : ∃ b, ("w", b) ∈ ups [w5] ∧ ("w", b) ∈ ups [w5, x7] ∧
    shouldTransmit ((run cfg0 sched2).nodes 0).st "w" b = true :=
  let ⟨b, h1, h2, h3, _⟩ := one_report_per_work_run cfg0 sched2 0 "w" [w5] [w5, x7]
    (by rw [run_eq_runE]; decide +kernel) (by rw [run_eq_runE]; decide +kernel)
  ⟨b, h1, h2, h3⟩

end AutoVerif.Net
