import AutoVerif.Props.C07
import AutoVerif.Gen.Consts
/-
C07Tie — the tie theorems of Props/C07.lean (`…_matches_source`): the model's decision functions equal the
decision expressions `AutoVerif.Gen.Src.*` that the extractor regenerates from the Go source on every check run
(docs/TIE_THEOREMS.md).  They live in a module of their own, which nothing but AutoVerif.lean (and another
property's Tie module, where a tie is reused) imports: a source change that breaks a tie here breaks this
property's check (bin/check audits every module `Props/C07*.lean`) and not the build of the theorem
modules of other properties that import Props/C07.lean.
-/
namespace AutoVerif.C07
open AutoVerif.C06

/-! ### the model's decision points are the source's (regenerated `Gen.Src` expressions)

Conditions translated from the Go source on every run (extract/exprs.d/C07.json):
`ShouldProcess`, `FilterProposals`, the keep-tests of `PreProcess` / `FilterResults`, and the
any-of loops of `ShouldAcceptAttestedReport` / `ShouldTransmitAcceptedReport` (the condition that
sets the flag and the value that is returned).  The `switch` over the upkeep type and the
transmit type in `ShouldProcess` is not an expression and stays compared by the harness. -/

/-- `ShouldProcess`: `ok` → known; `v.isTransmissionPending` → false; a performed conditional is
    answered by `trigger.BlockNumber >= v.transmitBlockNumber` -/
theorem shouldProcess_matches_source (utype : String → UpkeepType) (s : St) (w uid : String) (cb : Nat) :
    shouldProcess utype s w uid cb =
      if Gen.Src.c07ProcessKnown (s.cache.get w s.now).isSome then
        let v := (s.cache.get w s.now).get!
        if Gen.Src.c07ProcessPending v.pending then false
        else match utype uid with
          | .log => if v.ttype = performEvent then false else true
          | .condition => if v.ttype = performEvent then Gen.Src.c07ConditionalFromBlock cb v.tblock else true
          | .other => true
      else true := by
  unfold shouldProcess
  cases s.cache.get w s.now with
  | none => simp [Gen.Src.c07ProcessKnown]
  | some v =>
    simp only [Gen.Src.c07ProcessKnown, Option.isSome_some, if_true, Option.get!_some, Gen.Src.c07ProcessPending,
      Gen.Src.c07ConditionalFromBlock]
    rfl

private def typeOfByte : Nat → UpkeepType
  | 0 => .condition
  | 1 => .log
  | _ => .other

/-- `FilterProposals`: `ok`; `v.isTransmissionPending` → drop; `upkeepTypeGetter(id) == LogTrigger &&
    v.transmitType == PerformEvent` → drop (`types.LogTrigger = 1`, `common.PerformEvent = 1`) -/
theorem proposalAllowed_matches_source (tg : String → Nat) (s : St) (w uid : String) :
    proposalAllowed (fun u => typeOfByte (tg u)) s w uid =
      if Gen.Src.c07ProposalKnown (s.cache.get w s.now).isSome then
        if Gen.Src.c07ProposalPending (s.cache.get w s.now).get!.pending then false
        else if Gen.Src.c07ProposalPerformedLog (tg uid) 1 (s.cache.get w s.now).get!.ttype performEvent then false
        else true
      else true := by
  unfold proposalAllowed
  cases s.cache.get w s.now with
  | none => simp [Gen.Src.c07ProposalKnown]
  | some v =>
    simp only [Gen.Src.c07ProposalKnown, Option.isSome_some, if_true, Option.get!_some, Gen.Src.c07ProposalPending,
      Gen.Src.c07ProposalPerformedLog]
    have hlog : typeOfByte (tg uid) = UpkeepType.log ↔ tg uid = 1 := by
      generalize tg uid = n
      match n with
      | 0 => simp [typeOfByte]
      | 1 => simp [typeOfByte]
      | n + 2 => simp [typeOfByte]
    simp only [hlog]
    by_cases hp : v.pending = true <;> by_cases h1 : tg uid = 1 <;> by_cases h2 : v.ttype = performEvent <;>
      simp [hp, h1, h2]

/-- one iteration of the filter loops: an item is appended exactly on the `if` condition of
    `PreProcess` / `FilterResults` (`c.ShouldProcess(…)`, not negated) -/
theorem filterLoop_matches_source {ι : Type} (keep : ι → Bool) (res : List ι) (x : ι) (xs : List ι) :
    filterLoop keep res (x :: xs) =
      (if Gen.Src.c07PreProcessKeeps (keep x) then filterLoop keep (res ++ [x]) xs else filterLoop keep res xs) ∧
    filterLoop keep res (x :: xs) =
      (if Gen.Src.c07FilterResultsKeeps (keep x) then filterLoop keep (res ++ [x]) xs else filterLoop keep res xs) :=
  ⟨rfl, rfl⟩

/-- `ShouldAcceptAttestedReport`: the flag is set exactly when `shouldAccept` holds, every upkeep is
    visited, and the flag is what is returned -/
theorem acceptReport_matches_source (cfg : Cfg) (s : St) (w : String) (b : Nat) (rest : List (String × Nat)) (acc : Bool) :
    acceptReport cfg s ((w, b) :: rest) acc =
      acceptReport cfg (accept cfg s w b).1 rest (if Gen.Src.c07ReportAcceptSets (accept cfg s w b).2 then true else acc) ∧
    acceptReport cfg s [] acc = (s, Gen.Src.c07ReportAcceptAnswer acc) :=
  ⟨rfl, rfl⟩

/-- `ShouldTransmitAcceptedReport`: the same shape -/
theorem transmitReport_matches_source (s : St) (w : String) (b : Nat) (rest : List (String × Nat)) (acc : Bool) :
    transmitReport s ((w, b) :: rest) acc =
      transmitReport s rest (if Gen.Src.c07ReportTransmitSets (shouldTransmit s w b) then true else acc) ∧
    transmitReport s [] acc = Gen.Src.c07ReportTransmitAnswer acc :=
  ⟨rfl, rfl⟩

/-! ### the control structure of `ShouldProcess`, regenerated as a decision tree -/

/-- the upkeep type as the number the source compares with (`types.ConditionTrigger = 0`, `types.LogTrigger = 1`; any
other value takes neither `case`) -/
def typeCode : UpkeepType → Nat
  | .condition => 0
  | .log => 1
  | .other => 2

/-- `ShouldProcess` as the source writes it: the exit the regenerated decision tree takes, and the value the source
returns at that exit (both regenerated on every run: `Gen.Src.c07ShouldProcessTree`, `…TreeVal`) -/
def shouldProcessSrc (found pending : Bool) (utype ttype cb tb : Nat) : Bool :=
  Gen.Src.c07ShouldProcessTreeVal found pending utype ttype cb tb
    (Gen.Src.c07ShouldProcessTree found pending utype ttype cb tb)

/-- **`ShouldProcess` is the source's decision tree**: which `return` is reached under which conditions, in which
order the conditions are tested (if-nesting, both `switch`es, their `default` arms and the fall-through to the final
`return true`), and what each `return` returns are read off the source on every run; the model's function equals
it for every state, unit of work, upkeep type and check block. -/
theorem shouldProcess_tree_matches_source (utype : String → UpkeepType) (s : St) (w uid : String) (cb : Nat) :
    shouldProcess utype s w uid cb =
      match s.cache.get w s.now with
      | none => shouldProcessSrc false false (typeCode (utype uid)) 0 cb 0
      | some v => shouldProcessSrc true v.pending (typeCode (utype uid)) v.ttype cb v.tblock := by
  unfold shouldProcess shouldProcessSrc
  cases s.cache.get w s.now with
  | none => simp [Gen.Src.c07ShouldProcessTree, Gen.Src.c07ShouldProcessTreeVal]
  | some v =>
    simp only [Gen.Src.c07ShouldProcessTree]
    cases hp : v.pending <;> cases hu : utype uid <;> by_cases ht : v.ttype = performEvent <;>
      simp_all [typeCode, performEvent, Gen.Src.c07ShouldProcessTreeVal]

/-! ### more control structure regenerated as decision trees -/

/-- **the loop body of `FilterProposals` is the source's decision tree**: a proposal is kept exactly
when the body falls off its end (exit 0) and dropped at either `continue` (pending; performed log unit) -/
theorem proposalAllowed_tree_matches_source (utype : String → UpkeepType) (s : St) (w uid : String) :
    proposalAllowed utype s w uid =
      decide ((match s.cache.get w s.now with
        | none => Gen.Src.c07FilterProposalsTree false false (typeCode (utype uid)) 0
        | some v => Gen.Src.c07FilterProposalsTree true v.pending (typeCode (utype uid)) v.ttype) = 0) := by
  unfold proposalAllowed
  cases s.cache.get w s.now with
  | none => simp [Gen.Src.c07FilterProposalsTree]
  | some v =>
    cases hp : v.pending <;> cases hu : utype uid <;> by_cases ht : v.ttype = performEvent <;>
      simp_all [typeCode, performEvent, Gen.Src.c07FilterProposalsTree]

/-- … and `filterProposals` keeps an item exactly on exit 0 of that body (one step of the loop) -/
theorem filterProposals_step_tree_matches_source (utype : String → UpkeepType) (s : St) (p : Proposal) (ps res : List Proposal) :
    filterLoop (fun p => proposalAllowed utype s p.workID p.upkeepID) res (p :: ps) =
      if (match s.cache.get p.workID s.now with
          | none => Gen.Src.c07FilterProposalsTree false false (typeCode (utype p.upkeepID)) 0
          | some v => Gen.Src.c07FilterProposalsTree true v.pending (typeCode (utype p.upkeepID)) v.ttype) = 0
      then filterLoop (fun p => proposalAllowed utype s p.workID p.upkeepID) (res ++ [p]) ps
      else filterLoop (fun p => proposalAllowed utype s p.workID p.upkeepID) res ps := by
  simp only [filterLoop, proposalAllowed_tree_matches_source, decide_eq_true_eq]

/-- **the any-of loops have no exit**: the bodies of `for _, upkeep := range upkeeps` in
`ShouldAcceptAttestedReport` / `ShouldTransmitAcceptedReport` contain no `return`, `break` or `continue`
— every upkeep of a report is visited whatever the answers (what `acceptReport` / `transmitReport` do:
`acceptReport_matches_source`) — and outside the loop the functions return only on a decoding error
(exit 1) or at the end (exit 2, `return accept, nil` / `return transmit, nil`) -/
theorem report_loops_tree_matches_source (answer : Bool) :
    Gen.Src.c07AcceptLoopTree answer = 0 ∧ Gen.Src.c07TransmitLoopTree answer = 0 ∧
    Gen.Src.c07AcceptReportTree false = 2 ∧ Gen.Src.c07TransmitReportTree false = 2 ∧
    Gen.Src.c07AcceptReportTree true = 1 ∧ Gen.Src.c07TransmitReportTree true = 1 := by
  cases answer <;> simp [Gen.Src.c07AcceptLoopTree, Gen.Src.c07TransmitLoopTree, Gen.Src.c07AcceptReportTree,
    Gen.Src.c07TransmitReportTree]

/-- the body of the `FilterProposals` loop is left only by falling off its end (the proposal is appended) or
by `continue` — never by `break` or `return`: dropping one proposal never drops the ones after it (what
`filterLoop` does: it always goes on with the rest) -/
theorem filterProposals_exit_kind_matches_source (found pending : Bool) (utype ttype : Nat) :
    Gen.Src.c07FilterProposalsTreeKind (Gen.Src.c07FilterProposalsTree found pending utype ttype) =
      (if Gen.Src.c07FilterProposalsTree found pending utype ttype = 0 then 0 else 2) := by
  simp only [Gen.Src.c07FilterProposalsTree]
  cases found <;> cases pending <;> by_cases h : (decide (utype = 1) && decide (ttype = 1)) = true <;>
    simp [h, Gen.Src.c07FilterProposalsTreeKind]

/-- `ShouldAcceptAttestedReport` / `ShouldTransmitAcceptedReport` pair their results as (answer, error): the
error is the literal `nil` exactly at the final return, and a decode error is handed on at exit 1 -/
theorem report_error_pairing_matches_source :
    Gen.Src.c07AcceptReportTreeNil2 1 = false ∧ Gen.Src.c07AcceptReportTreeNil2 2 = true ∧
    Gen.Src.c07TransmitReportTreeNil2 1 = false ∧ Gen.Src.c07TransmitReportTreeNil2 2 = true ∧
    Gen.Src.c07AcceptReportTreeNil1 2 = false ∧ Gen.Src.c07TransmitReportTreeNil1 2 = false ∧
    Gen.Src.c07AcceptReportTreeKind 1 = 1 ∧ Gen.Src.c07AcceptReportTreeKind 2 = 1 ∧
    Gen.Src.c07TransmitReportTreeKind 1 = 1 ∧ Gen.Src.c07TransmitReportTreeKind 2 = 1 := by
  decide

end AutoVerif.C07
