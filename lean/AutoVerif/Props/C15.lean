import AutoVerif.Lemmas.C15
/-
C15 — Observation/outcome wire format: faithful round-trip, strict checks, no crash.

Property theorems only (helper lemmas live in Lemmas/C15).  `utg` (upkeep type
getter) and `wg` (work-id generator) are arbitrary functions everywhere; list
lengths, byte-string lengths and big integers are unbounded.

What is proved, about the model of Model/C15 (tree level):
  * round trip:  `fromJson (toJson x) = some x` for every well-formed `x`
    (`wfObs` / `wfOutcome`: what the Go types enforce by typing), every field
    included — optional log extension, big integers of any size and sign, byte
    strings through real base64 — and the full decoder returns `x` when `x`
    also satisfies the rules;
  * strictness:  `validate… = ok` ⇔ the conjunction of the documented rules, and
    one theorem per rule saying that breaking this rule alone forces rejection,
    whatever the rest of the message looks like;
  * the decoder accepts a tree only if the decoded value satisfies every rule.

The "no crash on arbitrary bytes" clause is NOT a theorem: the model is a total
function by construction, which says nothing about goccy/go-json.  It is
checked by the harness only (child process, see harness/c15_test.go) and is
violated by the code as it is — `zero_fill_is_in_bounds_in_the_model` below
records what the real decoder gets wrong on the same input.
-/
namespace AutoVerif.C15
open AutoVerif

variable (c : Codec) (utg : String → UpkeepType) (wg : String → Trigger → String)

/-! ### base64 -/

/-- real base64 (RFC 4648, padded) round-trips every byte string -/
theorem base64_roundtrip (bs : List Nat) (h : ∀ b ∈ bs, b < 256) : b64decode (b64encode bs) = some bs :=
  b64decode_b64encode bs h

example : b64encode [77, 97, 110] = "TWFu" ∧ b64encode [77, 97] = "TWE=" ∧ b64encode [77] = "TQ==" ∧
    b64decode "TWE=" = some [77, 97] ∧ b64decode "TWE" = none ∧ b64decode "TW=u" = none := by decide

/-- byte strings of the shared types survive hex → bytes → base64 → bytes → hex -/
theorem bytes_roundtrip (s : String) (h : wfHex s = true) :
    (b64decode (b64encode (bytesOfHex s))).map hexOfBytes = some s := by
  rw [base64_roundtrip _ (bytesOfHex_lt s), Option.map_some, hexOfBytes_bytesOfHex s h]

/-! ### faithful round trip -/

/-- a check result, every wire field -/
theorem decode_encode_result (r : CheckResult) (h : wfResult r = true) : resultFromJson (resultToJson r) = some r :=
  result_roundtrip r h

/-- `Decode(Encode(o))` at tree level, before validation: every observation the Go types can hold -/
theorem decode_encode_obs (o : Observation) (h : wfObs o = true) : obsFromJson c (obsToJson o) = some o := by
  simp only [wfObs, Bool.and_eq_true, List.all_eq_true] at h
  obtain ⟨⟨h1, h2⟩, h3⟩ := h
  have hl : ∀ a b d : J,
      look "Performable" [("Performable", a), ("UpkeepProposals", b), ("BlockHistory", d)] = a ∧
      look "UpkeepProposals" [("Performable", a), ("UpkeepProposals", b), ("BlockHistory", d)] = b ∧
      look "BlockHistory" [("Performable", a), ("UpkeepProposals", b), ("BlockHistory", d)] = d := by
    intros; refine ⟨?_, ?_, ?_⟩ <;> simp (decide := true) only [look_hd, look_tl]
  obtain ⟨l1, l2, l3⟩ := hl (.arr (o.performable.map resultToJson)) (.arr (o.proposals.map proposalToJson))
    (.arr (o.blockHistory.map blockKeyToJson))
  simp only [obsToJson, obsFromJson, fieldsOf, l1, l2, l3,
    slice_roundtrip resultFromJson resultToJson _ (fun r hr => result_roundtrip r (h1 r hr)),
    slice_roundtrip (proposalFromJson c) proposalToJson _ (fun p hp => proposal_roundtrip c p (h2 p hp)),
    slice_roundtrip (blockKeyFromJson c) blockKeyToJson _ (fun b hb => blockKey_roundtrip c b (h3 b hb))]

/-- the same for outcomes (rounds of surfaced proposals are nested lists) -/
theorem decode_encode_outcome (o : Outcome) (h : wfOutcome o = true) :
    outcomeFromJson c (outcomeToJson o) = some o := by
  simp only [wfOutcome, Bool.and_eq_true, List.all_eq_true] at h
  obtain ⟨h1, h2⟩ := h
  have hl : ∀ a b : J,
      look "AgreedPerformables" [("AgreedPerformables", a), ("SurfacedProposals", b)] = a ∧
      look "SurfacedProposals" [("AgreedPerformables", a), ("SurfacedProposals", b)] = b := by
    intros; refine ⟨?_, ?_⟩ <;> simp (decide := true) only [look_hd, look_tl]
  obtain ⟨l1, l2⟩ := hl (.arr (o.agreed.map resultToJson))
    (.arr (o.surfaced.map fun round => .arr (round.map proposalToJson)))
  have hr : ∀ round ∈ o.surfaced,
      sliceFromJson (proposalFromJson c) ((fun round => J.arr (round.map proposalToJson)) round) = some round :=
    fun round hround => slice_roundtrip (proposalFromJson c) proposalToJson round
      (fun p hp => proposal_roundtrip c p (h2 round hround p hp))
  simp only [outcomeToJson, outcomeFromJson, fieldsOf, l1, l2,
    slice_roundtrip resultFromJson resultToJson _ (fun r hr => result_roundtrip r (h1 r hr)),
    slice_roundtrip (sliceFromJson (proposalFromJson c)) (fun round => J.arr (round.map proposalToJson)) _ hr]

/-! ### strict checks: `validate = ok` ⇔ all rules -/

theorem validate_iff_all_rules_result (r : CheckResult) :
    validateCheckResult utg wg r = .ok () ↔ ResultRules utg wg r :=
  validateCheckResult_ok_iff utg wg r

theorem validate_iff_all_rules_proposal (p : Proposal) :
    validateProposal utg wg p = .ok () ↔ ProposalRules utg wg p :=
  validateProposal_ok_iff utg wg p

/-- `validateAutomationObservation` returns nil exactly on the observations that obey every documented rule -/
theorem validate_iff_all_rules_obs (o : Observation) :
    validateObservation utg wg o = .ok () ↔ ObsRules utg wg o := by
  unfold validateObservation ObsRules
  by_cases h1 : o.blockHistory.length > Gen.observationBlockHistoryLimit
  · rw [if_pos h1]
    constructor
    · intro c; cases c
    · rintro ⟨a, _⟩; omega
  rw [if_neg h1]
  cases hb : checkBlocks o.blockHistory [] with
  | error e =>
    simp only []
    constructor
    · intro c; cases c
    · rintro ⟨_, a, _⟩
      have := (checkBlocks_ok_iff o.blockHistory []).mpr ⟨a, by simp⟩
      rw [hb] at this; cases this
  | ok u =>
    cases u
    have hb' := ((checkBlocks_ok_iff o.blockHistory []).mp hb).1
    simp only []
    by_cases h2 : o.performable.length > Gen.observationPerformablesLimit
    · rw [if_pos h2]
      constructor
      · intro c; cases c
      · rintro ⟨_, _, a, _⟩; omega
    rw [if_neg h2]
    cases hr : checkResults utg wg .dupPerformableWorkID o.performable [] with
    | error e =>
      simp only []
      constructor
      · intro c; cases c
      · rintro ⟨_, _, _, a, b, _⟩
        have := (checkResults_ok_iff utg wg .dupPerformableWorkID o.performable []).mpr ⟨a, b, by simp⟩
        rw [hr] at this; cases this
    | ok u =>
      cases u
      have hr' := (checkResults_ok_iff utg wg .dupPerformableWorkID o.performable []).mp hr
      simp only []
      by_cases h3 : o.proposals.length >
          Gen.observationConditionalsProposalsLimit + Gen.observationLogRecoveryProposalsLimit
      · rw [if_pos h3]
        constructor
        · intro c; cases c
        · rintro ⟨_, _, _, _, _, a, _⟩; omega
      rw [if_neg h3]
      cases hp : checkProposals utg wg o.proposals [] with
      | error e =>
        simp only []
        constructor
        · intro c; cases c
        · rintro ⟨_, _, _, _, _, _, a, b, _⟩
          obtain ⟨s, hs⟩ := (checkProposals_ok_iff utg wg o.proposals []).mpr ⟨a, b, by simp⟩
          rw [hp] at hs; cases hs
      | ok s =>
        have hp' := (checkProposals_ok_iff utg wg o.proposals []).mp ⟨s, hp⟩
        simp only []
        by_cases h4 : countType utg .condition o.proposals > Gen.observationConditionalsProposalsLimit
        · rw [if_pos h4]
          constructor
          · intro c; cases c
          · rintro ⟨_, _, _, _, _, _, _, _, a, _⟩; omega
        rw [if_neg h4]
        by_cases h5 : countType utg .log o.proposals > Gen.observationLogRecoveryProposalsLimit
        · rw [if_pos h5]
          constructor
          · intro c; cases c
          · rintro ⟨_, _, _, _, _, _, _, _, _, a⟩; omega
        rw [if_neg h5]
        constructor
        · intro _
          exact ⟨by omega, hb', by omega, hr'.1, hr'.2.1, by omega, hp'.1, hp'.2.1, by omega, by omega⟩
        · intro _; rfl

/-- `validateAutomationOutcome` returns nil exactly on the outcomes that obey every documented rule -/
theorem validate_iff_all_rules_outcome (o : Outcome) :
    validateOutcome utg wg o = .ok () ↔ OutcomeRules utg wg o := by
  unfold validateOutcome OutcomeRules
  by_cases h1 : o.agreed.length > Gen.outcomeAgreedPerformablesLimit
  · rw [if_pos h1]
    constructor
    · intro c; cases c
    · rintro ⟨a, _⟩; omega
  rw [if_neg h1]
  cases hr : checkResults utg wg .dupAgreedWorkID o.agreed [] with
  | error e =>
    simp only []
    constructor
    · intro c; cases c
    · rintro ⟨_, a, b, _⟩
      have := (checkResults_ok_iff utg wg .dupAgreedWorkID o.agreed []).mpr ⟨a, b, by simp⟩
      rw [hr] at this; cases this
  | ok u =>
    cases u
    have hr' := (checkResults_ok_iff utg wg .dupAgreedWorkID o.agreed []).mp hr
    simp only []
    by_cases h2 : o.surfaced.length > Gen.outcomeSurfacedProposalsRoundHistoryLimit
    · rw [if_pos h2]
      constructor
      · intro c; cases c
      · rintro ⟨_, _, _, a, _⟩; omega
    rw [if_neg h2, checkRounds_ok_iff]
    constructor
    · rintro ⟨a, b, c, _⟩
      exact ⟨by omega, hr'.1, hr'.2.1, by omega, a, b, c⟩
    · rintro ⟨_, _, _, _, a, b, c⟩
      exact ⟨a, b, c, by simp⟩

/-! ### the decoder as a whole -/

/-- the observation decoder accepts a tree iff it unmarshals and the value obeys every rule
("if it is accepted it satisfies all rules", and nothing valid is refused) -/
theorem decode_obs_ok_iff (j : J) (o : Observation) :
    decodeObservation c utg wg j = .ok o ↔ obsFromJson c j = some o ∧ ObsRules utg wg o := by
  unfold decodeObservation
  cases hj : obsFromJson c j with
  | none => simp
  | some o' =>
    simp only []
    cases hv : validateObservation utg wg o' with
    | error e =>
      simp only []
      constructor
      · intro c; cases c
      · rintro ⟨a, b⟩
        cases a
        have := (validate_iff_all_rules_obs utg wg o).mpr b
        rw [hv] at this; cases this
    | ok u =>
      cases u
      simp only []
      constructor
      · intro c
        have e : o' = o := by injection c
        subst e
        exact ⟨rfl, (validate_iff_all_rules_obs utg wg o').mp hv⟩
      · rintro ⟨a, _⟩; cases a; rfl

theorem decode_outcome_ok_iff (j : J) (o : Outcome) :
    decodeOutcome c utg wg j = .ok o ↔ outcomeFromJson c j = some o ∧ OutcomeRules utg wg o := by
  unfold decodeOutcome
  cases hj : outcomeFromJson c j with
  | none => simp
  | some o' =>
    simp only []
    cases hv : validateOutcome utg wg o' with
    | error e =>
      simp only []
      constructor
      · intro c; cases c
      · rintro ⟨a, b⟩
        cases a
        have := (validate_iff_all_rules_outcome utg wg o).mpr b
        rw [hv] at this; cases this
    | ok u =>
      cases u
      simp only []
      constructor
      · intro c
        have e : o' = o := by injection c
        subst e
        exact ⟨rfl, (validate_iff_all_rules_outcome utg wg o').mp hv⟩
      · rintro ⟨a, _⟩; cases a; rfl

/-- round-trip clause of the Spec on the model: a valid observation, encoded, is decoded to itself -/
theorem roundtrip_spec_obs (o : Observation) (hw : wfObs o = true) (hr : ObsRules utg wg o) :
    specRoundTrip o (answerOf (decodeObservation c utg wg (obsToJson o))) = true := by
  have := (decode_obs_ok_iff c utg wg (obsToJson o) o).mpr ⟨decode_encode_obs c o hw, hr⟩
  rw [this]; exact decide_eq_true rfl

theorem roundtrip_spec_outcome (o : Outcome) (hw : wfOutcome o = true) (hr : OutcomeRules utg wg o) :
    specRoundTrip o (answerOf (decodeOutcome c utg wg (outcomeToJson o))) = true := by
  have := (decode_outcome_ok_iff c utg wg (outcomeToJson o) o).mpr ⟨decode_encode_outcome c o hw, hr⟩
  rw [this]; exact decide_eq_true rfl

/-- strictness clause of the Spec on the model: whatever tree decodes to a rule-breaking value is refused -/
theorem strict_spec_obs (j : J) (o : Observation) (hj : obsFromJson c j = some o) (hr : ¬ ObsRules utg wg o) :
    specRejected (answerOf (decodeObservation c utg wg j)) = true := by
  unfold decodeObservation
  rw [hj]
  cases hv : validateObservation utg wg o with
  | error e => simp [hv, answerOf, specRejected]
  | ok u => cases u; exact absurd ((validate_iff_all_rules_obs utg wg o).mp hv) hr

theorem strict_spec_outcome (j : J) (o : Outcome) (hj : outcomeFromJson c j = some o) (hr : ¬ OutcomeRules utg wg o) :
    specRejected (answerOf (decodeOutcome c utg wg j)) = true := by
  unfold decodeOutcome
  rw [hj]
  cases hv : validateOutcome utg wg o with
  | error e => simp [hv, answerOf, specRejected]
  | ok u => cases u; exact absurd ((validate_iff_all_rules_outcome utg wg o).mp hv) hr

/-! ### one theorem per documented rule

Each hypothesis mentions only the rule in question; the rest of the message is
arbitrary (it may break other rules too — then an earlier check may be the one
that fires, but the message is rejected all the same). -/

theorem rejects_over_limit_block_history (o : Observation)
    (h : o.blockHistory.length > Gen.observationBlockHistoryLimit) : validateObservation utg wg o ≠ .ok () := by
  intro c; have := ((validate_iff_all_rules_obs utg wg o).mp c).1; omega

theorem rejects_dup_block_number (o : Observation) (h : ¬ (o.blockHistory.map (·.number)).Nodup) :
    validateObservation utg wg o ≠ .ok () :=
  fun c => h ((validate_iff_all_rules_obs utg wg o).mp c).2.1

theorem rejects_over_limit_performables (o : Observation)
    (h : o.performable.length > Gen.observationPerformablesLimit) : validateObservation utg wg o ≠ .ok () := by
  intro c; have := ((validate_iff_all_rules_obs utg wg o).mp c).2.2.1; omega

theorem rejects_over_limit_proposals (o : Observation)
    (h : o.proposals.length > Gen.observationConditionalsProposalsLimit + Gen.observationLogRecoveryProposalsLimit) :
    validateObservation utg wg o ≠ .ok () := by
  intro c; have := ((validate_iff_all_rules_obs utg wg o).mp c).2.2.2.2.2.1; omega

theorem rejects_over_limit_conditional_proposals (o : Observation)
    (h : countType utg .condition o.proposals > Gen.observationConditionalsProposalsLimit) :
    validateObservation utg wg o ≠ .ok () := by
  intro c; have := ((validate_iff_all_rules_obs utg wg o).mp c).2.2.2.2.2.2.2.2.1; omega

theorem rejects_over_limit_log_proposals (o : Observation)
    (h : countType utg .log o.proposals > Gen.observationLogRecoveryProposalsLimit) :
    validateObservation utg wg o ≠ .ok () := by
  intro c; have := ((validate_iff_all_rules_obs utg wg o).mp c).2.2.2.2.2.2.2.2.2; omega

theorem rejects_over_limit_agreed (o : Outcome) (h : o.agreed.length > Gen.outcomeAgreedPerformablesLimit) :
    validateOutcome utg wg o ≠ .ok () := by
  intro c; have := ((validate_iff_all_rules_outcome utg wg o).mp c).1; omega

theorem rejects_over_limit_rounds (o : Outcome)
    (h : o.surfaced.length > Gen.outcomeSurfacedProposalsRoundHistoryLimit) : validateOutcome utg wg o ≠ .ok () := by
  intro c; have := ((validate_iff_all_rules_outcome utg wg o).mp c).2.2.2.1; omega

theorem rejects_over_limit_round_proposals (o : Outcome) (round : List Proposal) (hm : round ∈ o.surfaced)
    (h : round.length > Gen.outcomeSurfacedProposalsLimit) : validateOutcome utg wg o ≠ .ok () := by
  intro c; have := ((validate_iff_all_rules_outcome utg wg o).mp c).2.2.2.2.1 round hm; omega

/-- duplicate work ids: among the performables or the proposals of an observation,
the agreed performables of an outcome, or its surfaced proposals (within or across rounds) -/
theorem rejects_dup_workid :
    (∀ o : Observation, ¬ (o.performable.map (·.workID)).Nodup → validateObservation utg wg o ≠ .ok ()) ∧
    (∀ o : Observation, ¬ (o.proposals.map (·.workID)).Nodup → validateObservation utg wg o ≠ .ok ()) ∧
    (∀ o : Outcome, ¬ (o.agreed.map (·.workID)).Nodup → validateOutcome utg wg o ≠ .ok ()) ∧
    (∀ o : Outcome, ¬ (o.surfaced.flatten.map (·.workID)).Nodup → validateOutcome utg wg o ≠ .ok ()) :=
  ⟨fun o h c => h ((validate_iff_all_rules_obs utg wg o).mp c).2.2.2.2.1,
   fun o h c => h ((validate_iff_all_rules_obs utg wg o).mp c).2.2.2.2.2.2.2.1,
   fun o h c => h ((validate_iff_all_rules_outcome utg wg o).mp c).2.2.1,
   fun o h c => h ((validate_iff_all_rules_outcome utg wg o).mp c).2.2.2.2.2.2⟩

/-- a check result that breaks one of its rules sinks every observation and every outcome that carries it -/
theorem rejects_bad_result (r : CheckResult) (h : ¬ ResultRules utg wg r) :
    (∀ o : Observation, r ∈ o.performable → validateObservation utg wg o ≠ .ok ()) ∧
    (∀ o : Outcome, r ∈ o.agreed → validateOutcome utg wg o ≠ .ok ()) :=
  ⟨fun o hm c => h (((validate_iff_all_rules_obs utg wg o).mp c).2.2.2.1 r hm),
   fun o hm c => h (((validate_iff_all_rules_outcome utg wg o).mp c).2.1 r hm)⟩

/-- the same for a proposal -/
theorem rejects_bad_proposal (p : Proposal) (h : ¬ ProposalRules utg wg p) :
    (∀ o : Observation, p ∈ o.proposals → validateObservation utg wg o ≠ .ok ()) ∧
    (∀ o : Outcome, ∀ round ∈ o.surfaced, p ∈ round → validateOutcome utg wg o ≠ .ok ()) :=
  ⟨fun o hm c => h (((validate_iff_all_rules_obs utg wg o).mp c).2.2.2.2.2.2.1 p hm),
   fun o round hr hm c => h (((validate_iff_all_rules_outcome utg wg o).mp c).2.2.2.2.2.1 round hr p hm)⟩

/-- wrong work id, in a result or in a proposal -/
theorem rejects_wrong_workid :
    (∀ r : CheckResult, wg r.upkeepID r.trigger ≠ r.workID → ¬ ResultRules utg wg r) ∧
    (∀ p : Proposal, wg p.upkeepID p.trigger ≠ p.workID → ¬ ProposalRules utg wg p) :=
  ⟨fun _ h c => h c.2.2.2.1, fun _ h c => h c.2⟩

/-- failed pipeline run (non-zero state or retryable) or ineligible result (flag or reason) -/
theorem rejects_failed_or_ineligible (r : CheckResult)
    (h : r.pes ≠ 0 ∨ r.retryable = true ∨ r.eligible = false ∨ r.reason ≠ 0) : ¬ ResultRules utg wg r := by
  intro c
  obtain ⟨⟨a1, a2⟩, ⟨a3, a4⟩, _⟩ := c
  rcases h with h | h | h | h
  · exact h a1
  · rw [a2] at h; cases h
  · rw [a3] at h; cases h
  · exact h a4

/-- trigger type mismatch: a log extension on a conditional upkeep, none on a log upkeep -/
theorem rejects_type_mismatch :
    (∀ r : CheckResult, (utg r.upkeepID = .condition ∧ r.trigger.ext ≠ none) ∨
        (utg r.upkeepID = .log ∧ r.trigger.ext = none) → ¬ ResultRules utg wg r) ∧
    (∀ p : Proposal, (utg p.upkeepID = .condition ∧ p.trigger.ext ≠ none) ∨
        (utg p.upkeepID = .log ∧ p.trigger.ext = none) → ¬ ProposalRules utg wg p) := by
  have key : ∀ (t : Trigger) (ut : UpkeepType),
      (ut = .condition ∧ t.ext ≠ none) ∨ (ut = .log ∧ t.ext = none) → triggerExtTypeOk t ut ≠ true := by
    intro t ut h
    rcases h with ⟨h1, h2⟩ | ⟨h1, h2⟩
    · subst h1
      cases he : t.ext with
      | none => exact absurd he h2
      | some e => simp [triggerExtTypeOk, he]
    · subst h1
      simp [triggerExtTypeOk, h2]
  exact ⟨fun r h c => key _ _ h c.2.2.1, fun p h c => key _ _ h c.1⟩

/-- a price (fast gas wei, link native) that is absent, negative or above 2^256-1 -/
theorem rejects_price_out_of_range (r : CheckResult)
    (h : r.fastGasWei = none ∨ r.linkNative = none ∨
      (∃ v, r.fastGasWei = some v ∧ (v < 0 ∨ v > uint256Max)) ∨
      (∃ v, r.linkNative = some v ∧ (v < 0 ∨ v > uint256Max))) : ¬ ResultRules utg wg r := by
  intro c
  obtain ⟨_, _, _, _, _, ⟨f, hf, f1, f2⟩, ⟨l, hl, l1, l2⟩⟩ := c
  rcases h with h | h | ⟨v, hv, h⟩ | ⟨v, hv, h⟩
  · rw [h] at hf; cases hf
  · rw [h] at hl; cases hl
  · rw [hv] at hf; cases hf; omega
  · rw [hv] at hl; cases hl; omega

/-- zero gas -/
theorem rejects_zero_gas (r : CheckResult) (h : r.gas = 0) : ¬ ResultRules utg wg r :=
  fun c => c.2.2.2.2.1 h

/-! ### non-vacuity: concrete values meeting the hypotheses -/

section Examples

private def uidC : String := "00000001000000000000000000000000aaaaaaaaaaaaaaaaaaaaaaaaaaaaaaaa"
private def uidL : String := "00000002000000000000000000000001bbbbbbbbbbbbbbbbbbbbbbbbbbbbbbbb"
private def h32 : String := "0123456789abcdef0123456789abcdef0123456789abcdef0123456789abcdef"

private def utg0 (uid : String) : UpkeepType := if uid = uidL then .log else .condition
private def wg0 (uid : String) (t : Trigger) : String :=
  uid ++ (match t.ext with | none => "" | some e => "/" ++ e.txHash)

private def ext0 : LogExt := { txHash := h32, index := 4294967295, blockHash := h32, blockNumber := 18446744073709551615 }
private def trigL : Trigger := { blockNumber := 18446744073709551615, blockHash := h32, ext := some ext0 }
private def trigC : Trigger := { blockNumber := 0, blockHash := h32, ext := none }

private def resL : CheckResult :=
  { pes := 0, retryable := false, eligible := true, reason := 0, upkeepID := uidL, trigger := trigL,
    workID := wg0 uidL trigL, gas := 18446744073709551615, performData := "00ff10",
    fastGasWei := some uint256Max, linkNative := some 0 }
private def resC : CheckResult :=
  { pes := 0, retryable := false, eligible := true, reason := 0, upkeepID := uidC, trigger := trigC,
    workID := wg0 uidC trigC, gas := 1, performData := "",
    fastGasWei := some 12345678901234567890123456789, linkNative := some 1 }

private def obs0 : Observation :=
  { performable := [resL, resC],
    proposals := [{ upkeepID := uidL, trigger := trigL, workID := wg0 uidL trigL },
                  { upkeepID := uidC, trigger := trigC, workID := wg0 uidC trigC }],
    blockHistory := [{ number := 18446744073709551615, hash := h32 }, { number := 0, hash := h32 }] }

private def outcome0 : Outcome :=
  { agreed := [resL, resC], surfaced := [[], obs0.proposals] }

-- the round-trip theorems apply to a value with a log extension, extreme integers and byte strings
example : wfObs obs0 = true := by decide
example : wfOutcome outcome0 = true := by decide
example : obsFromJson .goccy (obsToJson obs0) = some obs0 := decode_encode_obs .goccy obs0 (by decide)
example : outcomeFromJson .std (outcomeToJson outcome0) = some outcome0 := decode_encode_outcome .std outcome0 (by decide)
-- … and the value obeys every rule, so the full decoder returns it
example : (validateObservation utg0 wg0 obs0).isOk = true := by decide
example : (validateOutcome utg0 wg0 outcome0).isOk = true := by decide

-- each rule can be broken on its own (the hypotheses of the `rejects_*` theorems are satisfiable)
example : (validateCheckResult utg0 wg0 { resC with gas := 0 }).rule = some .zeroGas := by decide
example : (validateCheckResult utg0 wg0 { resC with pes := 3 }).rule = some .failedState := by decide
example : (validateCheckResult utg0 wg0 { resC with eligible := false }).rule = some .ineligible := by decide
example : (validateCheckResult utg0 wg0 { resC with workID := "x" }).rule = some .wrongWorkIDResult := by decide
example : (validateCheckResult utg0 wg0 { resC with fastGasWei := some (uint256Max + 1) }).rule = some .fastGasRange := by decide
example : (validateCheckResult utg0 wg0 { resC with linkNative := some (-1) }).rule = some .linkNativeRange := by decide
example : (validateCheckResult utg0 wg0 { resC with linkNative := none }).rule = some .linkNativeMissing := by decide
example : (validateCheckResult utg0 wg0
    { resL with trigger := { trigL with ext := none }, workID := wg0 uidL { trigL with ext := none } }).rule
    = some .typeMismatchResult := by decide
example : (validateObservation utg0 wg0 { obs0 with performable := [resC, { resC with gas := 7 }] }).rule
    = some .dupPerformableWorkID := by decide
example : (validateObservation utg0 wg0
    { obs0 with blockHistory := [{ number := 5, hash := h32 }, { number := 5, hash := uidC }] }).rule
    = some .dupBlockNumber := by decide
example : validateObservation utg0 wg0
    { obs0 with blockHistory := List.replicate 257 { number := 5, hash := h32 } } ≠ .ok () :=
  rejects_over_limit_block_history _ _ _
    (by show (List.replicate 257 _).length > 256; rw [List.length_replicate]; decide)
example : (validateOutcome utg0 wg0 { outcome0 with surfaced := [obs0.proposals, [], obs0.proposals] }).rule
    = some .dupProposalWorkID := by decide
example : (validateOutcome utg0 wg0 { outcome0 with surfaced := List.replicate 21 [] }).rule
    = some .roundsOverLimit := by decide

end Examples

/-! ### what the real decoder gets wrong (harness finding, recorded next to the model's behaviour)

On `{"UpkeepProposals":[{"Trigger":{"BlockNumber":15454646179759848164},"UpkeepID":[1]}]}` the
model — zero-filling the short id inside the array — keeps the block number; goccy/go-json
v0.10.2 zero-fills with 8-byte stores and returns block number 15420325124116578304 (low seven
bytes cleared), and under a running garbage collector the same store can kill the process. -/
theorem zero_fill_is_in_bounds_in_the_model :
    (obsFromJson .goccy (.obj [("UpkeepProposals", .arr [.obj [
        ("Trigger", .obj [("BlockNumber", .num 15454646179759848164)]),
        ("UpkeepID", .arr [.num 1])]])])).map (fun o => o.proposals.map (·.trigger.blockNumber))
      = some [15454646179759848164] := by decide

end AutoVerif.C15
