import AutoVerif.Props.C15
import AutoVerif.Gen.Consts
/-
C15Tie — the tie theorems of Props/C15.lean (`…_matches_source`): the model's decision functions equal the
decision expressions `AutoVerif.Gen.Src.*` that the extractor regenerates from the Go source on every check run
(docs/TIE_THEOREMS.md).  They live in a module of their own, which nothing but AutoVerif.lean (and another
property's Tie module, where a tie is reused) imports: a source change that breaks a tie here breaks this
property's check (bin/check audits every module `Props/C15*.lean`) and not the build of the theorem
modules of other properties that import Props/C15.lean.
-/
namespace AutoVerif.C15
open AutoVerif
variable (c : Codec) (utg : String → UpkeepType) (wg : String → Trigger → String)

/-! ### tie to the source: the model's decisions ARE the expressions of observation.go / outcome.go

`Gen.Src.c15…` are regenerated from the Go source on every run (extract/exprs.d/C15.json): the
condition of each `if` of `validateCheckResult`, `validateUpkeepProposal`,
`validateTriggerExtensionType`, `validateAutomationObservation` and `validateAutomationOutcome`
that the rules above hinge on — comparison operators, operands, boolean structure, and the key of
every `seen` map.  The theorems restate each model function as the Go control flow over exactly
those expressions, with the regenerated limits `Gen.*` as the thresholds. -/

/-- `validateCheckResult`: every condition, in source order -/
theorem validateCheckResult_matches_source (r : CheckResult) :
    validateCheckResult utg wg r =
      if Gen.Src.c15Failed r.pes r.retryable then .error .failedState
      else if Gen.Src.c15Ineligible r.eligible r.reason then .error .ineligible
      else if !triggerExtTypeOk r.trigger (utg r.upkeepID) then .error .typeMismatchResult
      else if Gen.Src.c15ResultWorkIDWrong (wg r.upkeepID r.trigger) r.workID then .error .wrongWorkIDResult
      else if Gen.Src.c15ZeroGas r.gas then .error .zeroGas
      else match r.fastGasWei with
        | none => .error .fastGasMissing
        | some fgw =>
          if Gen.Src.c15FastGasOutOfRange (bigCmp fgw 0) (bigCmp fgw uint256Max) then .error .fastGasRange
          else match r.linkNative with
            | none => .error .linkNativeMissing
            | some ln =>
              if Gen.Src.c15LinkNativeOutOfRange (bigCmp ln 0) (bigCmp ln uint256Max) then .error .linkNativeRange
              else .ok () := by
  simp only [validateCheckResult, Gen.Src.c15Failed, Gen.Src.c15Ineligible, Gen.Src.c15ResultWorkIDWrong,
    Gen.Src.c15ZeroGas, Gen.Src.c15FastGasOutOfRange, Gen.Src.c15LinkNativeOutOfRange, Bool.or_eq_true,
    decide_eq_true_eq, Bool.not_eq_true', bigCmp_neg, bigCmp_pos]
  cases r.retryable <;> cases r.eligible <;> cases triggerExtTypeOk r.trigger (utg r.upkeepID) <;> simp <;> rfl

/-- `validateUpkeepProposal` -/
theorem validateProposal_matches_source (p : Proposal) :
    validateProposal utg wg p =
      if !triggerExtTypeOk p.trigger (utg p.upkeepID) then .error .typeMismatchProposal
      else if Gen.Src.c15ProposalWorkIDWrong (wg p.upkeepID p.trigger) p.workID then .error .wrongWorkIDProposal
      else .ok () := by
  simp only [validateProposal, Gen.Src.c15ProposalWorkIDWrong, decide_eq_true_eq, Bool.not_eq_true']

/-- `validateTriggerExtensionType`: an error exactly when the `if` of the upkeep's `case` fires -/
theorem triggerExtTypeOk_matches_source (t : Trigger) (ut : UpkeepType) :
    triggerExtTypeOk t ut =
      match ut with
      | .condition => !Gen.Src.c15ConditionHasExtension t.ext.isSome
      | .log => !Gen.Src.c15LogLacksExtension t.ext.isNone
      | .other => true := by
  obtain ⟨_, _, ext⟩ := t
  cases ut <;> cases ext <;> rfl

/-- one iteration of the block-history loop -/
theorem checkBlocks_step_matches_source (b : BlockKey) (bs : List BlockKey) (seen : List Nat) :
    checkBlocks (b :: bs) seen =
      if Gen.Src.c15BlockNumberSeen (decide (b.number ∈ seen)) then .error .dupBlockNumber
      else checkBlocks bs (b.number :: seen) := by
  simp [checkBlocks, Gen.Src.c15BlockNumberSeen]

/-- one iteration of the performables loop of an observation … -/
theorem checkResults_step_matches_source_obs (r : CheckResult) (rs : List CheckResult) (seen : List String) :
    checkResults utg wg .dupPerformableWorkID (r :: rs) seen =
      match validateCheckResult utg wg r with
      | .error e => .error e
      | .ok () =>
        if Gen.Src.c15PerformableSeen (decide (r.workID ∈ seen)) then .error .dupPerformableWorkID
        else checkResults utg wg .dupPerformableWorkID rs (r.workID :: seen) := by
  simp only [checkResults, Gen.Src.c15PerformableSeen, decide_eq_true_eq]
  cases validateCheckResult utg wg r with
  | error e => rfl
  | ok u => cases u; rfl

/-- … and of the agreed performables of an outcome -/
theorem checkResults_step_matches_source_outcome (r : CheckResult) (rs : List CheckResult) (seen : List String) :
    checkResults utg wg .dupAgreedWorkID (r :: rs) seen =
      match validateCheckResult utg wg r with
      | .error e => .error e
      | .ok () =>
        if Gen.Src.c15AgreedSeen (decide (r.workID ∈ seen)) then .error .dupAgreedWorkID
        else checkResults utg wg .dupAgreedWorkID rs (r.workID :: seen) := by
  simp only [checkResults, Gen.Src.c15AgreedSeen, decide_eq_true_eq]
  cases validateCheckResult utg wg r with
  | error e => rfl
  | ok u => cases u; rfl

/-- one iteration of the proposal loops (observation, and each round of an outcome) -/
theorem checkProposals_step_matches_source (p : Proposal) (ps : List Proposal) (seen : List String) :
    checkProposals utg wg (p :: ps) seen =
      match validateProposal utg wg p with
      | .error e => .error e
      | .ok () =>
        if Gen.Src.c15ProposalSeen (decide (p.workID ∈ seen)) && Gen.Src.c15SurfacedSeen (decide (p.workID ∈ seen))
        then .error .dupProposalWorkID
        else checkProposals utg wg ps (p.workID :: seen) := by
  simp only [checkProposals, Gen.Src.c15ProposalSeen, Gen.Src.c15SurfacedSeen, Bool.and_self, decide_eq_true_eq]
  cases validateProposal utg wg p with
  | error e => rfl
  | ok u => cases u; rfl

/-- the two per-type counters count what the `if … else if …` of the loop counts -/
theorem countType_matches_source (ps : List Proposal) :
    countType utg .condition ps = (ps.filter fun p => Gen.Src.c15CountsAsConditional (typeCode (utg p.upkeepID)) 0).length ∧
    countType utg .log ps = (ps.filter fun p => !Gen.Src.c15CountsAsConditional (typeCode (utg p.upkeepID)) 0 &&
        Gen.Src.c15CountsAsLog (typeCode (utg p.upkeepID)) 1).length := by
  have h : ∀ p : Proposal, (decide (utg p.upkeepID = .condition) = Gen.Src.c15CountsAsConditional (typeCode (utg p.upkeepID)) 0) ∧
      (decide (utg p.upkeepID = .log) = (!Gen.Src.c15CountsAsConditional (typeCode (utg p.upkeepID)) 0 &&
        Gen.Src.c15CountsAsLog (typeCode (utg p.upkeepID)) 1)) := by
    intro p; cases utg p.upkeepID <;> simp [Gen.Src.c15CountsAsConditional, Gen.Src.c15CountsAsLog, typeCode]
  constructor
  · unfold countType; congr 1; apply List.filter_congr; intro p _; exact (h p).1
  · unfold countType; congr 1; apply List.filter_congr; intro p _; exact (h p).2

/-- `validateAutomationObservation`: limits and comparisons as in the source -/
theorem validateObservation_matches_source (o : Observation) :
    validateObservation utg wg o =
      if Gen.Src.c15HistoryOverLimit o.blockHistory.length Gen.observationBlockHistoryLimit then .error .blockHistoryOverLimit
      else match checkBlocks o.blockHistory [] with
        | .error e => .error e
        | .ok () =>
          if Gen.Src.c15PerformablesOverLimit o.performable.length Gen.observationPerformablesLimit then
            .error .performablesOverLimit
          else match checkResults utg wg .dupPerformableWorkID o.performable [] with
            | .error e => .error e
            | .ok () =>
              if Gen.Src.c15ProposalsOverLimit o.proposals.length Gen.observationConditionalsProposalsLimit
                  Gen.observationLogRecoveryProposalsLimit then .error .proposalsOverLimit
              else match checkProposals utg wg o.proposals [] with
                | .error e => .error e
                | .ok _ =>
                  if Gen.Src.c15ConditionalOverLimit (countType utg .condition o.proposals)
                      Gen.observationConditionalsProposalsLimit then .error .conditionalProposalsOverLimit
                  else if Gen.Src.c15LogOverLimit (countType utg .log o.proposals)
                      Gen.observationLogRecoveryProposalsLimit then .error .logProposalsOverLimit
                  else .ok () := by
  simp only [validateObservation, Gen.Src.c15HistoryOverLimit, Gen.Src.c15PerformablesOverLimit,
    Gen.Src.c15ProposalsOverLimit, Gen.Src.c15ConditionalOverLimit, Gen.Src.c15LogOverLimit, decide_eq_true_eq]
  cases checkBlocks o.blockHistory [] with
  | error e => rfl
  | ok u =>
    cases u
    cases checkResults utg wg .dupPerformableWorkID o.performable [] with
    | error e => rfl
    | ok u =>
      cases u
      cases checkProposals utg wg o.proposals [] with
      | error e => rfl
      | ok s => rfl

/-- one iteration of the loop over the rounds of surfaced proposals -/
theorem checkRounds_step_matches_source (round : List Proposal) (rest : List (List Proposal)) (seen : List String) :
    checkRounds utg wg (round :: rest) seen =
      if Gen.Src.c15RoundOverLimit round.length Gen.outcomeSurfacedProposalsLimit then .error .roundProposalsOverLimit
      else match checkProposals utg wg round seen with
        | .error e => .error e
        | .ok seen' => checkRounds utg wg rest seen' := by
  simp only [checkRounds, Gen.Src.c15RoundOverLimit, decide_eq_true_eq]
  cases checkProposals utg wg round seen with
  | error e => rfl
  | ok s => rfl

/-- `validateAutomationOutcome` -/
theorem validateOutcome_matches_source (o : Outcome) :
    validateOutcome utg wg o =
      if Gen.Src.c15AgreedOverLimit o.agreed.length Gen.outcomeAgreedPerformablesLimit then .error .agreedOverLimit
      else match checkResults utg wg .dupAgreedWorkID o.agreed [] with
        | .error e => .error e
        | .ok () =>
          if Gen.Src.c15RoundsOverLimit o.surfaced.length Gen.outcomeSurfacedProposalsRoundHistoryLimit then
            .error .roundsOverLimit
          else checkRounds utg wg o.surfaced [] := by
  simp only [validateOutcome, Gen.Src.c15AgreedOverLimit, Gen.Src.c15RoundsOverLimit, decide_eq_true_eq]
  cases checkResults utg wg .dupAgreedWorkID o.agreed [] with
  | error e => rfl
  | ok u => cases u; rfl

/-! ### decision trees: the ORDER of the checks, the nesting, the `switch` arms and the exits

`Gen.Src.c15…Tree` are regenerated from the control structure of the Go functions (extract/exprs.d/C15.json,
`"kind": "tree"`): which terminating statement is reached under which conditions.  The maps below name what the
source returns at each exit (the Go functions return `fmt.Errorf(…)` values, which have no translation; the
texts are listed in the doc comments of the generated definitions); the theorems say that the model's function
is the regenerated tree followed by that map, for all arguments. -/

/-- exits of `validateCheckResult`, in source order -/
def checkResultExit : Nat → V
  | 1 => .error .failedState          -- "check result cannot have failed execution state"
  | 2 => .error .ineligible           -- "check result cannot be ineligible"
  | 3 => .error .typeMismatchResult   -- "invalid trigger: %w"
  | 4 => .error .wrongWorkIDResult    -- "incorrect workID within result"
  | 5 => .error .zeroGas              -- "gas allocated cannot be zero"
  | 6 => .error .fastGasMissing       -- "fast gas wei must be present"
  | 7 => .error .fastGasRange         -- "fast gas wei must be in uint256 range"
  | 8 => .error .linkNativeMissing    -- "link native must be present"
  | 9 => .error .linkNativeRange      -- "link native must be in uint256 range"
  | _ => .ok ()                       -- 10: `return nil`

/-- `validateCheckResult`: nine checks in the order of the source, each with its own exit -/
theorem validateCheckResult_tree_matches_source (r : CheckResult) :
    validateCheckResult utg wg r =
      checkResultExit (Gen.Src.c15CheckResultTree r.pes r.retryable r.eligible r.reason
        (!triggerExtTypeOk r.trigger (utg r.upkeepID)) (wg r.upkeepID r.trigger) r.workID r.gas
        r.fastGasWei.isNone (bigCmp (r.fastGasWei.getD 0) 0) (bigCmp (r.fastGasWei.getD 0) uint256Max)
        r.linkNative.isNone (bigCmp (r.linkNative.getD 0) 0) (bigCmp (r.linkNative.getD 0) uint256Max)) := by
  rw [validateCheckResult_matches_source]
  simp only [Gen.Src.c15CheckResultTree, Gen.Src.c15Failed, Gen.Src.c15Ineligible, Gen.Src.c15ResultWorkIDWrong,
    Gen.Src.c15ZeroGas, Gen.Src.c15FastGasOutOfRange, Gen.Src.c15LinkNativeOutOfRange, apply_ite checkResultExit]
  have e1 : checkResultExit 1 = .error .failedState := rfl
  have e2 : checkResultExit 2 = .error .ineligible := rfl
  have e3 : checkResultExit 3 = .error .typeMismatchResult := rfl
  have e4 : checkResultExit 4 = .error .wrongWorkIDResult := rfl
  have e5 : checkResultExit 5 = .error .zeroGas := rfl
  have e6 : checkResultExit 6 = .error .fastGasMissing := rfl
  have e7 : checkResultExit 7 = .error .fastGasRange := rfl
  have e8 : checkResultExit 8 = .error .linkNativeMissing := rfl
  have e9 : checkResultExit 9 = .error .linkNativeRange := rfl
  have e10 : checkResultExit 10 = .ok () := rfl
  simp only [e1, e2, e3, e4, e5, e6, e7, e8, e9, e10]
  cases r.fastGasWei <;> cases r.linkNative <;> simp

/-- exits of `validateUpkeepProposal` -/
def proposalExit : Nat → V
  | 1 => .error .typeMismatchProposal   -- `return err` of validateTriggerExtensionType
  | 2 => .error .wrongWorkIDProposal    -- "incorrect workID within proposal"
  | _ => .ok ()                         -- 3: `return nil`

theorem validateProposal_tree_matches_source (p : Proposal) :
    validateProposal utg wg p =
      proposalExit (Gen.Src.c15ProposalTree (!triggerExtTypeOk p.trigger (utg p.upkeepID))
        (wg p.upkeepID p.trigger) p.workID) := by
  rw [validateProposal_matches_source]
  simp only [Gen.Src.c15ProposalTree, Gen.Src.c15ProposalWorkIDWrong, apply_ite proposalExit]
  have e1 : proposalExit 1 = .error .typeMismatchProposal := rfl
  have e2 : proposalExit 2 = .error .wrongWorkIDProposal := rfl
  have e3 : proposalExit 3 = .ok () := rfl
  simp only [e1, e2, e3]
  cases triggerExtTypeOk p.trigger (utg p.upkeepID) <;> simp

/-- `validateTriggerExtensionType`: the `switch` over the upkeep type — the condition arm refuses a present
extension (exit 1), the log arm an absent one (exit 2), every other type and both good cases reach `return nil` (3) -/
theorem triggerExtTypeOk_tree_matches_source (t : Trigger) (ut : UpkeepType) :
    triggerExtTypeOk t ut = (Gen.Src.c15TriggerExtTree (typeCode ut) t.ext.isSome t.ext.isNone == 3) := by
  obtain ⟨_, _, ext⟩ := t
  cases ut <;> cases ext <;> rfl

/-- body of the block-history loop: exit 1 = the duplicate error, 0 = next block -/
theorem checkBlocks_tree_matches_source (b : BlockKey) (bs : List BlockKey) (seen : List Nat) :
    checkBlocks (b :: bs) seen =
      match Gen.Src.c15HistoryLoopTree (decide (b.number ∈ seen)) with
      | 1 => .error .dupBlockNumber
      | _ => checkBlocks bs (b.number :: seen) := by
  simp only [checkBlocks, Gen.Src.c15HistoryLoopTree]
  by_cases h : b.number ∈ seen <;> simp [h]

/-- body of the performables loop of an observation: first the per-result validation (exit 1 returns ITS error),
then the duplicate test (exit 2), else the next result -/
theorem checkResults_tree_matches_source_obs (r : CheckResult) (rs : List CheckResult) (seen : List String) :
    checkResults utg wg .dupPerformableWorkID (r :: rs) seen =
      match Gen.Src.c15PerformableLoopTree (!(validateCheckResult utg wg r).isOk) (decide (r.workID ∈ seen)) with
      | 1 => validateCheckResult utg wg r
      | 2 => .error .dupPerformableWorkID
      | _ => checkResults utg wg .dupPerformableWorkID rs (r.workID :: seen) := by
  simp only [checkResults, Gen.Src.c15PerformableLoopTree]
  cases validateCheckResult utg wg r with
  | error e => simp [V.isOk]
  | ok u => cases u; by_cases h : r.workID ∈ seen <;> simp [V.isOk, h]

/-- … and of the agreed performables of an outcome -/
theorem checkResults_tree_matches_source_outcome (r : CheckResult) (rs : List CheckResult) (seen : List String) :
    checkResults utg wg .dupAgreedWorkID (r :: rs) seen =
      match Gen.Src.c15AgreedLoopTree (!(validateCheckResult utg wg r).isOk) (decide (r.workID ∈ seen)) with
      | 1 => validateCheckResult utg wg r
      | 2 => .error .dupAgreedWorkID
      | _ => checkResults utg wg .dupAgreedWorkID rs (r.workID :: seen) := by
  simp only [checkResults, Gen.Src.c15AgreedLoopTree]
  cases validateCheckResult utg wg r with
  | error e => simp [V.isOk]
  | ok u => cases u; by_cases h : r.workID ∈ seen <;> simp [V.isOk, h]

/-- the error a failed validation hands on (`return err`) -/
def errOf {α} (v : V) (dflt : α) : Except Rule α :=
  match v with
  | .error e => .error e
  | .ok _ => .ok dflt

/-- body of the proposal loop of an observation (the per-type counters are effects, both arms go on) … -/
theorem checkProposals_tree_matches_source_obs (p : Proposal) (ps : List Proposal) (seen : List String) :
    checkProposals utg wg (p :: ps) seen =
      match Gen.Src.c15ProposalLoopTree (!(validateProposal utg wg p).isOk) (decide (p.workID ∈ seen))
          (typeCode (utg p.upkeepID)) with
      | 1 => errOf (validateProposal utg wg p) seen
      | 2 => .error .dupProposalWorkID
      | _ => checkProposals utg wg ps (p.workID :: seen) := by
  simp only [checkProposals, Gen.Src.c15ProposalLoopTree]
  cases validateProposal utg wg p with
  | error e => simp [V.isOk, errOf]
  | ok u => cases u; by_cases h : p.workID ∈ seen <;> simp [V.isOk, h]

/-- … and of the inner loop over one round of an outcome -/
theorem checkProposals_tree_matches_source_outcome (p : Proposal) (ps : List Proposal) (seen : List String) :
    checkProposals utg wg (p :: ps) seen =
      match Gen.Src.c15SurfacedLoopTree (!(validateProposal utg wg p).isOk) (decide (p.workID ∈ seen)) with
      | 1 => errOf (validateProposal utg wg p) seen
      | 2 => .error .dupProposalWorkID
      | _ => checkProposals utg wg ps (p.workID :: seen) := by
  simp only [checkProposals, Gen.Src.c15SurfacedLoopTree]
  cases validateProposal utg wg p with
  | error e => simp [V.isOk, errOf]
  | ok u => cases u; by_cases h : p.workID ∈ seen <;> simp [V.isOk, h]

/-- body of the loop over the rounds: the size test comes first (exit 1), then the inner loop -/
theorem checkRounds_tree_matches_source (round : List Proposal) (rest : List (List Proposal)) (seen : List String) :
    checkRounds utg wg (round :: rest) seen =
      match Gen.Src.c15RoundLoopTree round.length Gen.outcomeSurfacedProposalsLimit with
      | 1 => .error .roundProposalsOverLimit
      | _ =>
        match checkProposals utg wg round seen with
        | .error e => .error e
        | .ok seen' => checkRounds utg wg rest seen' := by
  simp only [checkRounds, Gen.Src.c15RoundLoopTree]
  by_cases h : round.length > Gen.outcomeSurfacedProposalsLimit
  · simp [h]
  · simp only [h, if_false, decide_false]
    cases checkProposals utg wg round seen with
    | error e => rfl
    | ok s => rfl

end AutoVerif.C15
