import AutoVerif.Props.C15
import AutoVerif.Gen.Consts
/-
C15Tie — the tie theorems of Props/C15.lean (`…_matches_source`): the model's decision functions equal the
decision expressions `AutoVerif.Gen.Src.*` that the extractor regenerates from the Go source on every check run
(docs/TIE_THEOREMS.md).  They live in a module of their own, which nothing but AutoVerif.lean (and another
property's Tie module, where a tie is reused) imports: a source change that breaks a tie here breaks this
property's check (bin/check audits every module `Props/C15*.lean`) and not the build of the theorem
modules of other properties that import Props/C15.lean.
-/
namespace AutoVerif.C15
open AutoVerif
variable (c : Codec) (utg : String → UpkeepType) (wg : String → Trigger → String)

/-! ### tie to the source: the model's decisions ARE the expressions of observation.go / outcome.go

`Gen.Src.c15…` are regenerated from the Go source on every run (extract/exprs.d/C15.json): the
condition of each `if` of `validateCheckResult`, `validateUpkeepProposal`,
`validateTriggerExtensionType`, `validateAutomationObservation` and `validateAutomationOutcome`
that the rules above hinge on — comparison operators, operands, boolean structure, and the key of
every `seen` map.  The theorems restate each model function as the Go control flow over exactly
those expressions, with the regenerated limits `Gen.*` as the thresholds. -/

/-- `validateCheckResult`: every condition, in source order -/
theorem validateCheckResult_matches_source (r : CheckResult) :
    validateCheckResult utg wg r =
      if Gen.Src.c15Failed r.pes r.retryable then .error .failedState
      else if Gen.Src.c15Ineligible r.eligible r.reason then .error .ineligible
      else if !triggerExtTypeOk r.trigger (utg r.upkeepID) then .error .typeMismatchResult
      else if Gen.Src.c15ResultWorkIDWrong (wg r.upkeepID r.trigger) r.workID then .error .wrongWorkIDResult
      else if Gen.Src.c15ZeroGas r.gas then .error .zeroGas
      else match r.fastGasWei with
        | none => .error .fastGasMissing
        | some fgw =>
          if Gen.Src.c15FastGasOutOfRange (bigCmp fgw 0) (bigCmp fgw uint256Max) then .error .fastGasRange
          else match r.linkNative with
            | none => .error .linkNativeMissing
            | some ln =>
              if Gen.Src.c15LinkNativeOutOfRange (bigCmp ln 0) (bigCmp ln uint256Max) then .error .linkNativeRange
              else .ok () := by
  simp only [validateCheckResult, Gen.Src.c15Failed, Gen.Src.c15Ineligible, Gen.Src.c15ResultWorkIDWrong,
    Gen.Src.c15ZeroGas, Gen.Src.c15FastGasOutOfRange, Gen.Src.c15LinkNativeOutOfRange, Bool.or_eq_true,
    decide_eq_true_eq, Bool.not_eq_true', bigCmp_neg, bigCmp_pos]
  cases r.retryable <;> cases r.eligible <;> cases triggerExtTypeOk r.trigger (utg r.upkeepID) <;> simp <;> rfl

/-- `validateUpkeepProposal` -/
theorem validateProposal_matches_source (p : Proposal) :
    validateProposal utg wg p =
      if !triggerExtTypeOk p.trigger (utg p.upkeepID) then .error .typeMismatchProposal
      else if Gen.Src.c15ProposalWorkIDWrong (wg p.upkeepID p.trigger) p.workID then .error .wrongWorkIDProposal
      else .ok () := by
  simp only [validateProposal, Gen.Src.c15ProposalWorkIDWrong, decide_eq_true_eq, Bool.not_eq_true']

/-- `validateTriggerExtensionType`: an error exactly when the `if` of the upkeep's `case` fires -/
theorem triggerExtTypeOk_matches_source (t : Trigger) (ut : UpkeepType) :
    triggerExtTypeOk t ut =
      match ut with
      | .condition => !Gen.Src.c15ConditionHasExtension t.ext.isSome
      | .log => !Gen.Src.c15LogLacksExtension t.ext.isNone
      | .other => true := by
  obtain ⟨_, _, ext⟩ := t
  cases ut <;> cases ext <;> rfl

/-- one iteration of the block-history loop -/
theorem checkBlocks_step_matches_source (b : BlockKey) (bs : List BlockKey) (seen : List Nat) :
    checkBlocks (b :: bs) seen =
      if Gen.Src.c15BlockNumberSeen (decide (b.number ∈ seen)) then .error .dupBlockNumber
      else checkBlocks bs (b.number :: seen) := by
  simp [checkBlocks, Gen.Src.c15BlockNumberSeen]

/-- one iteration of the performables loop of an observation … -/
theorem checkResults_step_matches_source_obs (r : CheckResult) (rs : List CheckResult) (seen : List String) :
    checkResults utg wg .dupPerformableWorkID (r :: rs) seen =
      match validateCheckResult utg wg r with
      | .error e => .error e
      | .ok () =>
        if Gen.Src.c15PerformableSeen (decide (r.workID ∈ seen)) then .error .dupPerformableWorkID
        else checkResults utg wg .dupPerformableWorkID rs (r.workID :: seen) := by
  simp only [checkResults, Gen.Src.c15PerformableSeen, decide_eq_true_eq]
  cases validateCheckResult utg wg r with
  | error e => rfl
  | ok u => cases u; rfl

/-- … and of the agreed performables of an outcome -/
theorem checkResults_step_matches_source_outcome (r : CheckResult) (rs : List CheckResult) (seen : List String) :
    checkResults utg wg .dupAgreedWorkID (r :: rs) seen =
      match validateCheckResult utg wg r with
      | .error e => .error e
      | .ok () =>
        if Gen.Src.c15AgreedSeen (decide (r.workID ∈ seen)) then .error .dupAgreedWorkID
        else checkResults utg wg .dupAgreedWorkID rs (r.workID :: seen) := by
  simp only [checkResults, Gen.Src.c15AgreedSeen, decide_eq_true_eq]
  cases validateCheckResult utg wg r with
  | error e => rfl
  | ok u => cases u; rfl

/-- one iteration of the proposal loops (observation, and each round of an outcome) -/
theorem checkProposals_step_matches_source (p : Proposal) (ps : List Proposal) (seen : List String) :
    checkProposals utg wg (p :: ps) seen =
      match validateProposal utg wg p with
      | .error e => .error e
      | .ok () =>
        if Gen.Src.c15ProposalSeen (decide (p.workID ∈ seen)) && Gen.Src.c15SurfacedSeen (decide (p.workID ∈ seen))
        then .error .dupProposalWorkID
        else checkProposals utg wg ps (p.workID :: seen) := by
  simp only [checkProposals, Gen.Src.c15ProposalSeen, Gen.Src.c15SurfacedSeen, Bool.and_self, decide_eq_true_eq]
  cases validateProposal utg wg p with
  | error e => rfl
  | ok u => cases u; rfl

/-- the two per-type counters count what the `if … else if …` of the loop counts -/
theorem countType_matches_source (ps : List Proposal) :
    countType utg .condition ps = (ps.filter fun p => Gen.Src.c15CountsAsConditional (typeCode (utg p.upkeepID)) 0).length ∧
    countType utg .log ps = (ps.filter fun p => !Gen.Src.c15CountsAsConditional (typeCode (utg p.upkeepID)) 0 &&
        Gen.Src.c15CountsAsLog (typeCode (utg p.upkeepID)) 1).length := by
  have h : ∀ p : Proposal, (decide (utg p.upkeepID = .condition) = Gen.Src.c15CountsAsConditional (typeCode (utg p.upkeepID)) 0) ∧
      (decide (utg p.upkeepID = .log) = (!Gen.Src.c15CountsAsConditional (typeCode (utg p.upkeepID)) 0 &&
        Gen.Src.c15CountsAsLog (typeCode (utg p.upkeepID)) 1)) := by
    intro p; cases utg p.upkeepID <;> simp [Gen.Src.c15CountsAsConditional, Gen.Src.c15CountsAsLog, typeCode]
  constructor
  · unfold countType; congr 1; apply List.filter_congr; intro p _; exact (h p).1
  · unfold countType; congr 1; apply List.filter_congr; intro p _; exact (h p).2

/-- `validateAutomationObservation`: limits and comparisons as in the source -/
theorem validateObservation_matches_source (o : Observation) :
    validateObservation utg wg o =
      if Gen.Src.c15HistoryOverLimit o.blockHistory.length Gen.observationBlockHistoryLimit then .error .blockHistoryOverLimit
      else match checkBlocks o.blockHistory [] with
        | .error e => .error e
        | .ok () =>
          if Gen.Src.c15PerformablesOverLimit o.performable.length Gen.observationPerformablesLimit then
            .error .performablesOverLimit
          else match checkResults utg wg .dupPerformableWorkID o.performable [] with
            | .error e => .error e
            | .ok () =>
              if Gen.Src.c15ProposalsOverLimit o.proposals.length Gen.observationConditionalsProposalsLimit
                  Gen.observationLogRecoveryProposalsLimit then .error .proposalsOverLimit
              else match checkProposals utg wg o.proposals [] with
                | .error e => .error e
                | .ok _ =>
                  if Gen.Src.c15ConditionalOverLimit (countType utg .condition o.proposals)
                      Gen.observationConditionalsProposalsLimit then .error .conditionalProposalsOverLimit
                  else if Gen.Src.c15LogOverLimit (countType utg .log o.proposals)
                      Gen.observationLogRecoveryProposalsLimit then .error .logProposalsOverLimit
                  else .ok () := by
  simp only [validateObservation, Gen.Src.c15HistoryOverLimit, Gen.Src.c15PerformablesOverLimit,
    Gen.Src.c15ProposalsOverLimit, Gen.Src.c15ConditionalOverLimit, Gen.Src.c15LogOverLimit, decide_eq_true_eq]
  cases checkBlocks o.blockHistory [] with
  | error e => rfl
  | ok u =>
    cases u
    cases checkResults utg wg .dupPerformableWorkID o.performable [] with
    | error e => rfl
    | ok u =>
      cases u
      cases checkProposals utg wg o.proposals [] with
      | error e => rfl
      | ok s => rfl

/-- one iteration of the loop over the rounds of surfaced proposals -/
theorem checkRounds_step_matches_source (round : List Proposal) (rest : List (List Proposal)) (seen : List String) :
    checkRounds utg wg (round :: rest) seen =
      if Gen.Src.c15RoundOverLimit round.length Gen.outcomeSurfacedProposalsLimit then .error .roundProposalsOverLimit
      else match checkProposals utg wg round seen with
        | .error e => .error e
        | .ok seen' => checkRounds utg wg rest seen' := by
  simp only [checkRounds, Gen.Src.c15RoundOverLimit, decide_eq_true_eq]
  cases checkProposals utg wg round seen with
  | error e => rfl
  | ok s => rfl

/-- `validateAutomationOutcome` -/
theorem validateOutcome_matches_source (o : Outcome) :
    validateOutcome utg wg o =
      if Gen.Src.c15AgreedOverLimit o.agreed.length Gen.outcomeAgreedPerformablesLimit then .error .agreedOverLimit
      else match checkResults utg wg .dupAgreedWorkID o.agreed [] with
        | .error e => .error e
        | .ok () =>
          if Gen.Src.c15RoundsOverLimit o.surfaced.length Gen.outcomeSurfacedProposalsRoundHistoryLimit then
            .error .roundsOverLimit
          else checkRounds utg wg o.surfaced [] := by
  simp only [validateOutcome, Gen.Src.c15AgreedOverLimit, Gen.Src.c15RoundsOverLimit, decide_eq_true_eq]
  cases checkResults utg wg .dupAgreedWorkID o.agreed [] with
  | error e => rfl
  | ok u => cases u; rfl

end AutoVerif.C15
