import AutoVerif.Lemmas.C03
import AutoVerif.Props.C01
import AutoVerif.Props.C04
import AutoVerif.Props.C08
import AutoVerif.Gen.Consts
/-
C03 — Whatever a node emits passes the network's own validation and size limits.

* `observation_valid` / `observe_valid`: every observation the model of `Observation` builds from a well-formed node state
  (`WellFormedNode`: what a well-behaved check pipeline and block source can produce) passes `validateAutomationObservation`
  — for every store content and order, every in-flight state, every admissible proposal selection, every previous outcome.
* `observation_fits` (Props/C08) bounds its length by the advertised `MaxObservationLength`.
* `outcome_valid`: an outcome computed from ANY attributed observations (only the valid ones are counted) and a valid
  previous outcome is valid, provided the work-id generator ignores the fields coordination overwrites
  (`WgIgnoresCoordinatedFields`; true of the production generators — and necessary, see `stamp_breaks_workid`).
* `chain_valid`: by induction over rounds, every outcome of every chain `outcome_k → observation_{k+1} → outcome_{k+1}` is valid
  and every observation built on it is valid: the next round always decodes.
* `runs_valid`: the same when rounds are lost and run again on the same previous outcome (`runs`); `outcome_reevaluated`:
  evaluating a round again gives the same outcome whatever was computed from that previous outcome in between.
* `outcome_fits`: length bound from per-item bounds with the regenerated constants.
* `reports_count_le_max` (via C04), `observation_quorum_iff`.

Property theorems and non-vacuity `example`s only; helpers are `private` or in Lemmas/C03.
-/
namespace AutoVerif.C03
open AutoVerif.Outcome AutoVerif.C08

/-! ### observations -/

private theorem filter_type_log {ctx : Ctx} {lc cc : List Proposal}
    (hl : ∀ p ∈ lc, ctx.utg p.upkeepID = .log) (hc : ∀ p ∈ cc, ctx.utg p.upkeepID = .condition) :
    (lc ++ cc).filter (fun p => decide (ctx.utg p.upkeepID = .log)) = lc := by
  rw [List.filter_append]
  have a : lc.filter (fun p => decide (ctx.utg p.upkeepID = .log)) = lc :=
    List.filter_eq_self.mpr (fun p hp => by simp [hl p hp])
  have b : cc.filter (fun p => decide (ctx.utg p.upkeepID = .log)) = [] :=
    List.filter_eq_nil_iff.mpr (fun p hp => by simp [hc p hp])
  rw [a, b, List.append_nil]

private theorem filter_type_cond {ctx : Ctx} {lc cc : List Proposal}
    (hl : ∀ p ∈ lc, ctx.utg p.upkeepID = .log) (hc : ∀ p ∈ cc, ctx.utg p.upkeepID = .condition) :
    (lc ++ cc).filter (fun p => decide (ctx.utg p.upkeepID = .condition)) = cc := by
  rw [List.filter_append]
  have a : lc.filter (fun p => decide (ctx.utg p.upkeepID = .condition)) = [] :=
    List.filter_eq_nil_iff.mpr (fun p hp => by simp [hl p hp])
  have b : cc.filter (fun p => decide (ctx.utg p.upkeepID = .condition)) = cc :=
    List.filter_eq_self.mpr (fun p hp => by simp [hc p hp])
  rw [a, b, List.nil_append]

/-- **Every observation a well-formed node produces passes every peer's validation** (no previous outcome). -/
theorem observation_valid (ctx : Ctx) (lim : Limits) (maxLen : Nat) (v : NodeView) (hw : WellFormedNode ctx v)
    (inflight : CheckResult → Bool) (inflightP : Proposal → Bool) (lc cc : List Proposal) (si : SizeInfo)
    (hl : ChoiceOf lim.obsLogProposals (available v.logProps inflightP) lc)
    (hc : ChoiceOf lim.obsCondProposals (available v.condProps inflightP) cc) :
    validObservation ctx lim (observationOf ctx lim maxLen v.staged inflight lc cc v.hist si) = true := by
  have hlm := proposals_subset_live_not_inflight _ _ _ _ hl
  have hcm := proposals_subset_live_not_inflight _ _ _ _ hc
  have hlt : ∀ p ∈ lc, ctx.utg p.upkeepID = .log := fun p hp => hw.log_typed p (hlm p hp).1
  have hct : ∀ p ∈ cc, ctx.utg p.upkeepID = .condition := fun p hp => hw.cond_typed p (hcm p hp).1
  have hll := (proposals_le_five_each _ _ _ hl).2
  have hcl := (proposals_le_five_each _ _ _ hc).2
  have hnd := no_duplicates ctx lim maxLen v.staged inflight v.logProps v.condProps lc cc inflightP v.hist si
    hw.staged_nodup hw.props_nodup hl hc
  simp only [nodupOk, Bool.and_eq_true, decide_eq_true_eq] at hnd
  have hk := (performables_canonical_prefix ctx lim maxLen v.staged inflight si).2
  simp only [validObservation, Bool.and_eq_true, decide_eq_true_eq, List.all_eq_true]
  refine ⟨⟨⟨⟨⟨⟨⟨⟨⟨?_, ?_⟩, ?_⟩, ?_⟩, ?_⟩, ?_⟩, ?_⟩, ?_⟩, ?_⟩, ?_⟩
  · exact (history_prefix ctx lim maxLen v.staged inflight lc cc v.hist si).2
  · simp only [observationOf]
    exact (List.Sublist.map _ (List.take_sublist _ _)).nodup hw.hist_nodup
  · simp only [observationOf, performablesOf, List.length_take]
    have := Nat.min_le_left lim.obsPerformables (canonical ctx v.staged inflight).length
    omega
  · intro r hr
    exact hw.staged_valid r (performables_subset ctx lim maxLen v.staged inflight si r hr).1
  · exact hnd.1
  · simp only [observationOf, List.length_append]; omega
  · intro p hp
    simp only [observationOf, List.mem_append] at hp
    rcases hp with hp | hp
    · exact hw.props_valid p (List.mem_append_left _ (hlm p hp).1)
    · exact hw.props_valid p (List.mem_append_right _ (hcm p hp).1)
  · exact hnd.2
  · simp only [observationOf, filter_type_cond hlt hct]; exact hcl
  · simp only [observationOf, filter_type_log hlt hct]; exact hll

/-- the pre-build hooks only remove entries: a well-formed node stays well-formed -/
theorem preBuild_wellFormed (ctx : Ctx) (prev : Outcome) (v : NodeView) (hw : WellFormedNode ctx v) :
    WellFormedNode ctx (preBuild ctx prev v) := by
  have sl : (removeSurfaced ctx .log prev v.logProps).Sublist v.logProps := List.filter_sublist
  have sc : (removeSurfaced ctx .condition prev v.condProps).Sublist v.condProps := List.filter_sublist
  refine ⟨?_, ?_, hw.hist_nodup, ?_, ?_, ?_, ?_⟩
  · intro r hr; exact hw.staged_valid r (List.mem_filter.mp hr).1
  · exact (List.Sublist.map _ List.filter_sublist).nodup hw.staged_nodup
  · intro p hp
    simp only [preBuild, List.mem_append] at hp
    rcases hp with hp | hp
    · exact hw.props_valid p (List.mem_append_left _ (sl.subset hp))
    · exact hw.props_valid p (List.mem_append_right _ (sc.subset hp))
  · intro p hp; exact hw.log_typed p (sl.subset hp)
  · intro p hp; exact hw.cond_typed p (sc.subset hp)
  · exact (List.Sublist.map _ (List.Sublist.append sl sc)).nodup hw.props_nodup

/-- **… also after the pre-build hooks ran on any previous outcome** (`ocr3Plugin.Observation` as a whole). -/
theorem observe_valid (ctx : Ctx) (lim : Limits) (maxLen : Nat) (prev : Option Outcome) (v : NodeView)
    (hw : WellFormedNode ctx v) (inflight : CheckResult → Bool) (inflightP : Proposal → Bool)
    (lc cc : List Proposal) (si : SizeInfo)
    (hl : ChoiceOf lim.obsLogProposals
      (available (match prev with | some p => (preBuild ctx p v).logProps | none => v.logProps) inflightP) lc)
    (hc : ChoiceOf lim.obsCondProposals
      (available (match prev with | some p => (preBuild ctx p v).condProps | none => v.condProps) inflightP) cc) :
    validObservation ctx lim (observe ctx lim maxLen prev v inflight lc cc si) = true := by
  cases prev with
  | none => exact observation_valid ctx lim maxLen v hw inflight inflightP lc cc si hl hc
  | some p =>
    exact observation_valid ctx lim maxLen (preBuild ctx p v) (preBuild_wellFormed ctx p v hw) inflight inflightP
      lc cc si hl hc

/-! ### outcomes -/

/-- every agreed performable was a performable of a valid observation, hence is itself a valid check result -/
private theorem agreed_valid (ctx : Ctx) (lim : Limits) (prev : Outcome) (obs : List (Option Observation))
    (πres : List String) (πblk : List BlockKey) :
    ∀ r ∈ (outcome ctx lim prev obs πres πblk).agreed, validCheckResult ctx r = true := by
  intro r hr
  have hv := C01.agreed_sound ctx lim prev obs πres πblk r hr
  have hpos : 0 < C01.votes (validObs ctx lim obs) r := by omega
  unfold C01.votes at hpos
  obtain ⟨o, ho⟩ := List.exists_mem_of_length_pos hpos
  obtain ⟨hmem, hc⟩ := List.mem_filter.mp ho
  have hvo := C01.validObs_valid ctx lim obs o hmem
  simp only [validObservation, Bool.and_eq_true, List.all_eq_true] at hvo
  exact hvo.1.1.1.1.1.1.2 r (List.contains_iff_mem.mp hc)

/-- every proposal of a valid observation is valid -/
private theorem obs_proposals_valid (ctx : Ctx) (lim : Limits) (obs : List (Option Observation)) :
    ∀ p ∈ (validObs ctx lim obs).flatMap (·.proposals), validProposal ctx p = true := by
  intro p hp
  obtain ⟨o, ho, hpo⟩ := List.mem_flatMap.mp hp
  have hvo := C01.validObs_valid ctx lim obs o ho
  simp only [validObservation, Bool.and_eq_true, List.all_eq_true] at hvo
  exact hvo.1.1.1.2 p hpo

private theorem surfaced_eq (ctx : Ctx) (lim : Limits) (agreed : List CheckResult) (prev : List (List Proposal))
    (os : List Observation) (πblk : List BlockKey) :
    surfacedOf ctx lim agreed prev os πblk =
      match latestQuorumBlock (ctx.F + 1) (blockVotes os) πblk with
      | none => carryOver agreed prev
      | some b =>
        ((sortByKey ctx.key (·.workID)
            (newRound agreed (keptHistory lim (carryOver agreed prev)) b (os.flatMap (·.proposals)) [])).take lim.perRound)
          :: keptHistory lim (carryOver agreed prev) := rfl

/-- **An outcome computed from any observations and a valid previous outcome is valid.** -/
theorem outcome_valid (ctx : Ctx) (lim : Limits) (hwg : WgIgnoresCoordinatedFields ctx) (hrh : 1 ≤ lim.roundHistory)
    (prev : Outcome) (hprev : validOutcome ctx lim prev = true)
    (obs : List (Option Observation)) (πres : List String) (πblk : List BlockKey) :
    validOutcome ctx lim (outcome ctx lim prev obs πres πblk) = true := by
  have hag := agreed_valid ctx lim prev obs πres πblk
  have hnd := C01.agreed_nodup_workid ctx lim prev obs πres πblk
  have hlen := C01.agreed_length_le ctx lim prev obs πres πblk
  simp only [validOutcome, Bool.and_eq_true, decide_eq_true_eq, List.all_eq_true] at hprev
  obtain ⟨⟨⟨⟨⟨⟨_, _⟩, _⟩, hpl⟩, hpr⟩, hpv⟩, hpn⟩ := hprev
  -- facts about the carried-over rounds
  generalize hA : (outcome ctx lim prev obs πres πblk).agreed = agreed at hag hnd hlen
  have hsur : (outcome ctx lim prev obs πres πblk).surfaced =
      surfacedOf ctx lim agreed prev.surfaced (validObs ctx lim obs) πblk := by
    rw [← hA]; rfl
  have cl := carryOver_length agreed prev.surfaced
  have cr : ∀ round ∈ carryOver agreed prev.surfaced, round.length ≤ lim.perRound := by
    intro round h
    obtain ⟨r', hr', hs⟩ := carryOver_round agreed prev.surfaced round h
    exact Nat.le_trans hs.length_le (hpr r' hr')
  have cf := carryOver_flatten_sublist agreed prev.surfaced
  have cv : ∀ p ∈ (carryOver agreed prev.surfaced).flatten, validProposal ctx p = true :=
    fun p hp => hpv p (cf.subset hp)
  have cn : ((carryOver agreed prev.surfaced).flatten.map (·.workID)).Nodup := (cf.map _).nodup hpn
  simp only [validOutcome, Bool.and_eq_true, decide_eq_true_eq, List.all_eq_true]
  rw [hsur, surfaced_eq, hA]
  refine ⟨⟨⟨⟨⟨⟨hlen, hag⟩, hnd⟩, ?_⟩, ?_⟩, ?_⟩, ?_⟩
  all_goals split
  -- number of rounds
  · omega
  · have := keptHistory_length lim (carryOver agreed prev.surfaced) hrh
    simp only [List.length_cons]; omega
  -- proposals per round
  · exact cr
  · intro round hr
    rcases List.mem_cons.mp hr with rfl | hr
    · rw [List.length_take]; exact Nat.min_le_left _ _
    · exact cr round (keptHistory_mem lim _ round hr)
  -- validity of every proposal
  · exact cv
  · rename_i b _
    have inv := newRound_inv hwg agreed (keptHistory lim (carryOver agreed prev.surfaced)) b
      ((validObs ctx lim obs).flatMap (·.proposals)) [] (obs_proposals_valid ctx lim obs)
      ⟨by simp, by simp, by simp⟩
    intro p hp
    simp only [List.flatten_cons, List.mem_append] at hp
    rcases hp with hp | hp
    · exact inv.valid p ((sortByKey_perm _ _ _).mem_iff.mp (List.mem_of_mem_take hp))
    · exact cv p ((keptHistory_flatten_sublist lim _).subset hp)
  -- no unit of work twice
  · exact cn
  · rename_i b _
    have inv := newRound_inv hwg agreed (keptHistory lim (carryOver agreed prev.surfaced)) b
      ((validObs ctx lim obs).flatMap (·.proposals)) [] (obs_proposals_valid ctx lim obs)
      ⟨by simp, by simp, by simp⟩
    simp only [List.flatten_cons, List.map_append]
    rw [List.nodup_append]
    refine ⟨?_, ?_, ?_⟩
    · have h1 := ((sortByKey_perm ctx.key (fun (p : Proposal) => p.workID) _).map (fun (p : Proposal) => p.workID)).nodup_iff.mpr inv.nodup
      exact (List.Sublist.map _ (List.take_sublist _ _)).nodup h1
    · exact ((keptHistory_flatten_sublist lim _).map _).nodup cn
    · intro x hx y hy hxy
      subst hxy
      obtain ⟨q, hq, rfl⟩ := List.mem_map.mp hx
      have hq' := (sortByKey_perm _ _ _).mem_iff.mp (List.mem_of_mem_take hq)
      exact inv.fresh q hq' hy

/-- the hypothesis `WgIgnoresCoordinatedFields` is needed: with a generator that reads the check block, stamping a valid
proposal with the coordinated block makes it invalid (and the outcome undecodable for the next round) -/
theorem stamp_breaks_workid :
    let ctx : Ctx := { F := 0, utg := fun _ => .condition, wg := fun _ t => toString t.blockNumber, key := id, uid := fun _ => "" }
    let p : Proposal := { upkeepID := "u", trigger := { blockNumber := 5, blockHash := "h", ext := none }, workID := "5" }
    validProposal ctx p = true ∧ validProposal ctx (stamp ⟨7, "g"⟩ p) = false := by
  decide

/-! ### chains of rounds -/

/-- the outcome "before the first round" (no previous outcome) is valid -/
theorem empty_outcome_valid (ctx : Ctx) (lim : Limits) : validOutcome ctx lim { agreed := [], surfaced := [] } = true := by
  simp [validOutcome]

/-- **Chains.**  For every sequence of rounds (any observations — honest, Byzantine, undecodable —, any map orders) starting
from a valid outcome: every outcome is valid, so the next round's `Observation` and `Outcome` decode it, and every
observation a well-formed node builds on it is valid again. -/
theorem chain_valid (ctx : Ctx) (lim : Limits) (hwg : WgIgnoresCoordinatedFields ctx) (hrh : 1 ≤ lim.roundHistory) :
    ∀ (rounds : List RoundIn) (init : Outcome), validOutcome ctx lim init = true →
      ∀ o ∈ chain ctx lim init rounds,
        validOutcome ctx lim o = true ∧
        ∀ (maxLen : Nat) (v : NodeView), WellFormedNode ctx v →
          ∀ (inflight : CheckResult → Bool) (inflightP : Proposal → Bool) (lc cc : List Proposal) (si : SizeInfo),
            ChoiceOf lim.obsLogProposals (available (preBuild ctx o v).logProps inflightP) lc →
            ChoiceOf lim.obsCondProposals (available (preBuild ctx o v).condProps inflightP) cc →
            validObservation ctx lim (observe ctx lim maxLen (some o) v inflight lc cc si) = true
  | [], _, _, o, ho => by simp [chain] at ho
  | r :: rs, init, hinit, o, ho => by
    simp only [chain, List.mem_cons] at ho
    have hv := outcome_valid ctx lim hwg hrh init hinit r.obs r.πres r.πblk
    rcases ho with rfl | ho
    · exact ⟨hv, fun maxLen v hw inflight inflightP lc cc si hl hc =>
        observe_valid ctx lim maxLen (some _) v hw inflight inflightP lc cc si hl hc⟩
    · exact chain_valid ctx lim hwg hrh rs _ hv o ho

/-- **Lost rounds.**  When a round does not commit (leader change, timeout, lost messages) libocr runs the next one on the SAME
previous outcome, which every node has decoded and worked on before.  Every outcome of every such run — of committed and
of lost rounds alike — is valid, and every observation a well-formed node builds on it is valid. -/
theorem runs_valid (ctx : Ctx) (lim : Limits) (hwg : WgIgnoresCoordinatedFields ctx) (hrh : 1 ≤ lim.roundHistory) :
    ∀ (rounds : List (RoundIn × Bool)) (init : Outcome), validOutcome ctx lim init = true →
      ∀ o ∈ runs ctx lim init rounds,
        validOutcome ctx lim o = true ∧
        ∀ (maxLen : Nat) (v : NodeView), WellFormedNode ctx v →
          ∀ (inflight : CheckResult → Bool) (inflightP : Proposal → Bool) (lc cc : List Proposal) (si : SizeInfo),
            ChoiceOf lim.obsLogProposals (available (preBuild ctx o v).logProps inflightP) lc →
            ChoiceOf lim.obsCondProposals (available (preBuild ctx o v).condProps inflightP) cc →
            validObservation ctx lim (observe ctx lim maxLen (some o) v inflight lc cc si) = true
  | [], _, _, o, ho => by simp [runs] at ho
  | (r, c) :: rs, init, hinit, o, ho => by
    simp only [runs, List.mem_cons] at ho
    have hv := outcome_valid ctx lim hwg hrh init hinit r.obs r.πres r.πblk
    rcases ho with rfl | ho
    · exact ⟨hv, fun maxLen v hw inflight inflightP lc cc si hl hc =>
        observe_valid ctx lim maxLen (some _) v hw inflight inflightP lc cc si hl hc⟩
    · cases c
      · exact runs_valid ctx lim hwg hrh rs init hinit o (by simpa using ho)
      · exact runs_valid ctx lim hwg hrh rs _ hv o (by simpa using ho)

/-- when every round commits, the runs are the chain -/
theorem runs_all_commit (ctx : Ctx) (lim : Limits) :
    ∀ (rs : List RoundIn) (init : Outcome), runs ctx lim init (rs.map (fun r => (r, true))) = chain ctx lim init rs
  | [], _ => rfl
  | r :: rs, init => by simp [runs, chain, runs_all_commit ctx lim rs]

/-- **Evaluating again.**  A lost round followed by a round with the same inputs (or: `Outcome` evaluated once more on a
node) yields the same outcome, whatever was computed from that previous outcome in between: `outcome` is a function of
the round's inputs and nothing else.  This is what the harness's `again` evaluations and lost rounds are compared with. -/
theorem outcome_reevaluated (ctx : Ctx) (lim : Limits) (prev : Outcome) (r : RoundIn) (between : List RoundIn) (c : Bool) :
    (runs ctx lim prev ((r, false) :: between.map (fun b => (b, false)) ++ [(r, c)])).getLast? =
      (runs ctx lim prev [(r, false)]).head? := by
  have aux : ∀ (l : List RoundIn) (x : Outcome),
      (x :: runs ctx lim prev (l.map (fun b => (b, false)) ++ [(r, c)])).getLast? =
        some (outcome ctx lim prev r.obs r.πres r.πblk) := by
    intro l
    induction l with
    | nil => intro x; simp [runs]
    | cons b bs ih => intro x; simpa [runs] using ih _
  simpa [runs] using aux between _

/-! ### sizes and counts -/

/-- **Outcome length.**  From a bound `Rmax` on the encoded length of an agreed result and `Pmax` on that of a proposal:
`overhead + agreedLimit·(Rmax+1) + roundHistory·(perRound·(Pmax+1)+3)`. -/
theorem outcome_fits_general (ctx : Ctx) (lim : Limits) (rl : CheckResult → Nat) (pl : Proposal → Nat) (o : Outcome)
    (hv : validOutcome ctx lim o = true) (Rmax Pmax : Nat)
    (hr : ∀ r ∈ o.agreed, rl r ≤ Rmax) (hp : ∀ p ∈ o.surfaced.flatten, pl p ≤ Pmax) :
    outcomeLen rl pl o ≤
      48 + lim.agreedLimit * (Rmax + 1) + lim.roundHistory * (2 + lim.perRound * (Pmax + 1) + 1) := by
  simp only [validOutcome, Bool.and_eq_true, decide_eq_true_eq, List.all_eq_true] at hv
  obtain ⟨⟨⟨⟨⟨⟨hal, _⟩, _⟩, hsl⟩, hpr⟩, _⟩, _⟩ := hv
  have h1 : arrLen (o.agreed.map rl) ≤ 2 + lim.agreedLimit * (Rmax + 1) :=
    arrLen_le _ _ _ (by simpa using hal) (by
      intro x hx; obtain ⟨r, hr', rfl⟩ := List.mem_map.mp hx; exact hr r hr')
  have h2 : arrLen (o.surfaced.map (fun r => arrLen (r.map pl))) ≤
      2 + lim.roundHistory * (2 + lim.perRound * (Pmax + 1) + 1) :=
    arrLen_le _ _ _ (by simpa using hsl) (by
      intro x hx
      obtain ⟨round, hround, rfl⟩ := List.mem_map.mp hx
      exact arrLen_le _ _ _ (by simpa using hpr round hround) (by
        intro y hy; obtain ⟨p, hp', rfl⟩ := List.mem_map.mp hy
        exact hp p (List.mem_flatten.mpr ⟨round, hround, hp'⟩)))
  unfold outcomeLen
  omega

/-- **Outcome length with the regenerated constants**: results of at most 14 500 bytes (10 000 bytes of perform data,
`observation_fits_onchain_cap`) and proposals of at most 900 bytes give at most 2 351 208 ≤ `MaxOutcomeLength` bytes. -/
theorem outcome_fits (ctx : Ctx) (lim : Limits) (rl : CheckResult → Nat) (pl : Proposal → Nat) (o : Outcome)
    (hv : validOutcome ctx lim o = true)
    (ha : lim.agreedLimit = Gen.outcomeAgreedPerformablesLimit) (hh : lim.roundHistory = Gen.outcomeSurfacedProposalsRoundHistoryLimit)
    (hq : lim.perRound = Gen.outcomeSurfacedProposalsLimit)
    (hr : ∀ r ∈ o.agreed, rl r ≤ 14500) (hp : ∀ p ∈ o.surfaced.flatten, pl p ≤ 900) :
    outcomeLen rl pl o ≤ Gen.maxOutcomeLength := by
  have h := outcome_fits_general ctx lim rl pl o hv 14500 900 hr hp
  rw [ha, hh, hq] at h
  have e1 : Gen.outcomeAgreedPerformablesLimit = 100 := by decide
  have e2 : Gen.outcomeSurfacedProposalsRoundHistoryLimit = 20 := by decide
  have e3 : Gen.outcomeSurfacedProposalsLimit = 50 := by decide
  have e4 : Gen.maxOutcomeLength = 2500000 := by decide
  rw [e1, e2, e3] at h
  omega

/-- **Never more reports than advertised** (C04's `reports_count_le_max` on a valid outcome) -/
theorem reports_count_le_max (ctx : Ctx) (lim : Limits) (cfg : C04.Cfg) (hb : 1 ≤ cfg.batch) (o : Outcome)
    (hv : validOutcome ctx lim o = true) (ha : lim.agreedLimit = Gen.outcomeAgreedPerformablesLimit) :
    (C04.reports cfg o.agreed).length ≤ Gen.maxReportCount := by
  simp only [validOutcome, Bool.and_eq_true, decide_eq_true_eq] at hv
  exact C04.reports_count_le_max cfg hb o.agreed (ha ▸ hv.1.1.1.1.1.1)

/-- **A round has enough observations exactly from `2f+1` on.** -/
theorem observation_quorum_iff (f count : Nat) : observationQuorum f count = true ↔ 2 * f + 1 ≤ count := by
  simp [observationQuorum]

/-- the oracle's table check is exactly that statement for `0 … n` -/
theorem quorumTable_model (f n : Nat) :
    quorumTableOk f ((List.range (n + 1)).map (observationQuorum f)) = true := by
  simp only [quorumTableOk, List.all_eq_true]
  intro ⟨b, k⟩ h
  have := List.mem_zipIdx h
  simp only [Nat.zero_add, List.getElem_map, List.getElem_range] at this
  simp [this.2.2]

/-! ### non-vacuity -/

private def xr (w : String) : CheckResult :=
  { pes := 0, retryable := false, eligible := true, reason := 0, upkeepID := w,
    trigger := { blockNumber := 1, blockHash := "h", ext := none }, workID := w, gas := 5,
    performData := "", fastGasWei := some 1, linkNative := some 1 }
private def xp (w : String) : Proposal :=
  { upkeepID := w, trigger := { blockNumber := 1, blockHash := "h", ext := none }, workID := w }
private def xctx : Ctx :=
  { F := 1, utg := fun u => if u = "c1" then .condition else .other,
    wg := fun u _ => u, key := id, uid := fun r => r.workID }
private def xlim : Limits := ⟨100, 5, 5, 256, 100, 50, 20⟩

/-- a work-id generator that ignores the trigger satisfies `WgIgnoresCoordinatedFields` -/
example : WgIgnoresCoordinatedFields xctx := fun _ _ _ => rfl

/-- a well-formed node with staged results, a conditional proposal and a block history -/
example : WellFormedNode xctx
    { staged := [xr "b", xr "a"], logProps := [], condProps := [xp "c1"], hist := [⟨9, "x"⟩, ⟨8, "y"⟩] } := by
  refine ⟨by decide, by decide, by decide, by decide, by decide, by decide, by decide⟩

/-- a valid non-empty previous outcome -/
example : validOutcome xctx xlim { agreed := [xr "a"], surfaced := [[xp "c1"], []] } = true := by decide

end AutoVerif.C03
