import AutoVerif.Props.C17Plugin
import AutoVerif.Gen.Consts
/-
C17PluginTie — the tie theorems of Props/C17Plugin.lean (`…_matches_source`): the model's decision functions equal the
decision expressions `AutoVerif.Gen.Src.*` that the extractor regenerates from the Go source on every check run
(docs/TIE_THEOREMS.md).  They live in a module of their own, which nothing but AutoVerif.lean (and another
property's Tie module, where a tie is reused) imports: a source change that breaks a tie here breaks this
property's check (bin/check audits every module `Props/C17*.lean`) and not the build of the theorem
modules of other properties that import Props/C17Plugin.lean.
-/
namespace AutoVerif.C17

/-! ### the glue's decision points are the source's (regenerated `Gen.Src`) -/

/-- `validatePerformLockoutWindow` / `validateMinConfirmations`: `<= 0` → default -/
theorem offchainCfg_matches_source (lockoutMs minConfs : Int) :
    offchainCfg lockoutMs minConfs =
      { lockout := (if Gen.Src.c17LockoutMsNeedsDefault lockoutMs then 20 * 60 * 1000 else lockoutMs) * 1000000
        minConfs := if Gen.Src.c17MinConfsNeedsDefault minConfs then 0 else minConfs } := by
  simp [offchainCfg, Gen.Src.c17LockoutMsNeedsDefault, Gen.Src.c17MinConfsNeedsDefault]

/-- `Observe` and `filterAndDedupe` drop a key on `pending || err != nil` -/
theorem passes_matches_source (s : State) (now : Nat) (key : Str) :
    passes s now key = !(Gen.Src.c17ObserveDrops (isPending s now key).1 (isPending s now key).2) ∧
    passes s now key = !(Gen.Src.c17FilterDrops (isPending s now key).1 (isPending s now key).2) := ⟨rfl, rfl⟩

/-- `ShouldTransmitAcceptedReport`: `len(keys) == 0` → error; `!transmitConfirmed` for some key → transmit -/
theorem shouldTransmit_matches_source (s : State) (now : Nat) (keys : List Str) :
    shouldTransmit s now keys =
      if Gen.Src.c17TransmitNoKeys keys.length then (false, true)
      else (keys.any fun k => Gen.Src.c17TransmitBecauseOf (isConfirmed s now k), false) := by
  unfold shouldTransmit
  cases keys <;> simp [Gen.Src.c17TransmitNoKeys, Gen.Src.c17TransmitBecauseOf]

/-- `ShouldAcceptFinalizedReport`: `len(keys) == 0` → error; otherwise the accept loop -/
theorem shouldAccept_matches_source (cfg : Cfg) (s : State) (now : Nat) (keys : List Str) :
    shouldAccept cfg s now keys =
      if Gen.Src.c17AcceptNoKeys keys.length then (s, false, true)
      else ((acceptLoop cfg s now keys).1, !(acceptLoop cfg s now keys).2, (acceptLoop cfg s now keys).2) := by
  unfold shouldAccept
  cases keys <;> simp [Gen.Src.c17AcceptNoKeys]

/-! ### decision trees of the glue (`kind: tree`) -/

/-- outcome of `ShouldAcceptFinalizedReport` at each exit of the regenerated tree: 1 = empty report `(false, nil)`;
2 = undecodable report, 3 = no keys `(false, err)`; 5 (after the loop) = the accept loop's result -/
def shouldAcceptSrc (cfg : Cfg) (s : State) (now : Nat) (keys : List Str) (reportLen : Nat) (decodeFailed : Bool) :
    State × Bool × Bool :=
  match Gen.Src.c17ShouldAcceptTree reportLen decodeFailed keys.length with
  | 1 => (s, false, false)
  | 2 => (s, false, true)
  | 3 => (s, false, true)
  | _ => ((acceptLoop cfg s now keys).1, !(acceptLoop cfg s now keys).2, (acceptLoop cfg s now keys).2)

/-- **`ShouldAcceptFinalizedReport` is the source's decision tree** (for the reports the model speaks about: non-empty
and decodable): `len(keys) == 0` → error before any `Accept`; otherwise the loop -/
theorem shouldAccept_tree_matches_source (cfg : Cfg) (s : State) (now : Nat) (keys : List Str) (reportLen : Nat)
    (hr : reportLen ≠ 0) : shouldAccept cfg s now keys = shouldAcceptSrc cfg s now keys reportLen false := by
  unfold shouldAccept shouldAcceptSrc
  cases keys <;> simp [Gen.Src.c17ShouldAcceptTree, hr]

/-- **the accept loop's body**: `Accept` fails (the key does not split) → `return false, err` (exit 1) with the keys
before it registered; else on to the next key (exit 0) -/
theorem acceptLoop_tree_matches_source (cfg : Cfg) (s : State) (now : Nat) (k : Str) (ks : List Str) :
    acceptLoop cfg s now (k :: ks) =
      if Gen.Src.c17ShouldAcceptLoopTree (splitUpkeepKey k).isNone = 1 then (s, true)
      else acceptLoop cfg (accept cfg s now k) now ks := by
  cases hs : splitUpkeepKey k <;> simp [acceptLoop, hs, Gen.Src.c17ShouldAcceptLoopTree]

/-- **`ShouldTransmitAcceptedReport` is the source's decision tree**: undecodable (exit 1) / no keys (exit 2) → error;
otherwise the loop, which returns `true` at the first unconfirmed key (exit 1 of its body), `false` after it (exit 4) -/
theorem shouldTransmit_tree_matches_source (s : State) (now : Nat) (keys : List Str) :
    shouldTransmit s now keys =
      (match Gen.Src.c17ShouldTransmitTree false keys.length with
       | 1 => (false, true)
       | 2 => (false, true)
       | _ => (keys.any fun k => !isConfirmed s now k, false)) ∧
    ∀ k ks, ((k :: ks).any fun k => !isConfirmed s now k) =
      if Gen.Src.c17ShouldTransmitLoopTree (isConfirmed s now k) = 1 then true
      else ks.any fun k => !isConfirmed s now k := by
  constructor
  · unfold shouldTransmit
    cases keys <;> simp [Gen.Src.c17ShouldTransmitTree]
  · intro k ks
    cases h : isConfirmed s now k <;> simp [Gen.Src.c17ShouldTransmitLoopTree, h]

/-- **the loop body of `Observe`**: `pending || err != nil` → `continue` (exit 1, the id is dropped, whichever log line
is printed); else the id is appended (exit 0) -/
theorem observe_tree_matches_source (s : State) (now : Nat) (b id : Str) (ids : List Str) :
    observeIds s now { block := b, ids := id :: ids } =
      if Gen.Src.c17ObserveLoopTree (isPending s now (makeUpkeepKey b id)).1 (isPending s now (makeUpkeepKey b id)).2 = 0
      then id :: observeIds s now { block := b, ids := ids }
      else observeIds s now { block := b, ids := ids } := by
  unfold observeIds passes
  simp only [List.filter_cons]
  cases h1 : (isPending s now (makeUpkeepKey b id)).1 <;> cases h2 : (isPending s now (makeUpkeepKey b id)).2 <;>
    simp_all [Gen.Src.c17ObserveLoopTree]

/-- exit kinds and (value, error) pairing of the glue's trees: the accept loop leaves by `return` with an error
(not `continue` to the next key); the transmit loop leaves by `return true, nil`; `Observe` drops an id by `continue`;
`ShouldAcceptFinalizedReport` returns an error exactly at the exits the model maps to one (`shouldAcceptSrc`), and
`ShouldTransmitAcceptedReport` at its exits 1 and 2 -/
theorem glue_exit_kinds_match_source :
    Gen.Src.c17ShouldAcceptLoopTreeKind 1 = 1 ∧ Gen.Src.c17ShouldAcceptLoopTreeNil2 1 = false ∧
    Gen.Src.c17ShouldTransmitLoopTreeKind 1 = 1 ∧ Gen.Src.c17ShouldTransmitLoopTreeNil2 1 = true ∧
    Gen.Src.c17ObserveLoopTreeKind 1 = 2 ∧
    Gen.Src.c17ShouldAcceptTreeNil2 1 = true ∧ Gen.Src.c17ShouldAcceptTreeNil2 2 = false ∧
    Gen.Src.c17ShouldAcceptTreeNil2 3 = false ∧ Gen.Src.c17ShouldAcceptTreeNil2 5 = true ∧
    Gen.Src.c17ShouldTransmitTreeNil2 1 = false ∧ Gen.Src.c17ShouldTransmitTreeNil2 2 = false ∧
    Gen.Src.c17ShouldTransmitTreeNil2 3 = true ∧ Gen.Src.c17ShouldTransmitTreeNil2 4 = true ∧
    (∀ e, 1 ≤ e → e ≤ 5 → Gen.Src.c17ShouldAcceptTreeKind e = 1) ∧
    (∀ e, 1 ≤ e → e ≤ 4 → Gen.Src.c17ShouldTransmitTreeKind e = 1) := by
  refine ⟨rfl, rfl, rfl, rfl, rfl, rfl, rfl, rfl, rfl, rfl, rfl, rfl, rfl, ?_, ?_⟩
  · intro e h1 h2
    have : e = 1 ∨ e = 2 ∨ e = 3 ∨ e = 4 ∨ e = 5 := by omega
    rcases this with rfl | rfl | rfl | rfl | rfl <;> rfl
  · intro e h1 h2
    have : e = 1 ∨ e = 2 ∨ e = 3 ∨ e = 4 := by omega
    rcases this with rfl | rfl | rfl | rfl <;> rfl

end AutoVerif.C17
