import AutoVerif.Props.C17Plugin
import AutoVerif.Gen.Consts
/-
C17PluginTie — the tie theorems of Props/C17Plugin.lean (`…_matches_source`): the model's decision functions equal the
decision expressions `AutoVerif.Gen.Src.*` that the extractor regenerates from the Go source on every check run
(docs/TIE_THEOREMS.md).  They live in a module of their own, which nothing but AutoVerif.lean (and another
property's Tie module, where a tie is reused) imports: a source change that breaks a tie here breaks this
property's check (bin/check audits every module `Props/C17*.lean`) and not the build of the theorem
modules of other properties that import Props/C17Plugin.lean.
-/
namespace AutoVerif.C17

/-! ### the glue's decision points are the source's (regenerated `Gen.Src`) -/

/-- `validatePerformLockoutWindow` / `validateMinConfirmations`: `<= 0` → default -/
theorem offchainCfg_matches_source (lockoutMs minConfs : Int) :
    offchainCfg lockoutMs minConfs =
      { lockout := (if Gen.Src.c17LockoutMsNeedsDefault lockoutMs then 20 * 60 * 1000 else lockoutMs) * 1000000
        minConfs := if Gen.Src.c17MinConfsNeedsDefault minConfs then 0 else minConfs } := by
  simp [offchainCfg, Gen.Src.c17LockoutMsNeedsDefault, Gen.Src.c17MinConfsNeedsDefault]

/-- `Observe` and `filterAndDedupe` drop a key on `pending || err != nil` -/
theorem passes_matches_source (s : State) (now : Nat) (key : Str) :
    passes s now key = !(Gen.Src.c17ObserveDrops (isPending s now key).1 (isPending s now key).2) ∧
    passes s now key = !(Gen.Src.c17FilterDrops (isPending s now key).1 (isPending s now key).2) := ⟨rfl, rfl⟩

/-- `ShouldTransmitAcceptedReport`: `len(keys) == 0` → error; `!transmitConfirmed` for some key → transmit -/
theorem shouldTransmit_matches_source (s : State) (now : Nat) (keys : List Str) :
    shouldTransmit s now keys =
      if Gen.Src.c17TransmitNoKeys keys.length then (false, true)
      else (keys.any fun k => Gen.Src.c17TransmitBecauseOf (isConfirmed s now k), false) := by
  unfold shouldTransmit
  cases keys <;> simp [Gen.Src.c17TransmitNoKeys, Gen.Src.c17TransmitBecauseOf]

/-- `ShouldAcceptFinalizedReport`: `len(keys) == 0` → error; otherwise the accept loop -/
theorem shouldAccept_matches_source (cfg : Cfg) (s : State) (now : Nat) (keys : List Str) :
    shouldAccept cfg s now keys =
      if Gen.Src.c17AcceptNoKeys keys.length then (s, false, true)
      else ((acceptLoop cfg s now keys).1, !(acceptLoop cfg s now keys).2, (acceptLoop cfg s now keys).2) := by
  unfold shouldAccept
  cases keys <;> simp [Gen.Src.c17AcceptNoKeys]

end AutoVerif.C17
