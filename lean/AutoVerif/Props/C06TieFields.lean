import AutoVerif.Props.C06
import AutoVerif.Gen.Consts
/-
C06TieFields — WHAT `Accept` and `checkEvents` write: the composite literals `record{…}` of the Go source are
regenerated field by field on every run (extractor kind "fields", extract/exprs.d/C06fields.json) and the records the
model writes (`acceptRec`, `eventRec`) are proved to have exactly those field values, every field the literal does not
mention keeping its zero value.  A field added to or dropped from a literal, `true` turned into `false`, or one field
fed from another operand changes the regenerated definitions and breaks these theorems, independently of any test input.
-/
namespace AutoVerif.C06

/-- both `record{…}` literals of `Accept` (new work id; higher check block) are the model's `acceptRec` -/
theorem acceptRec_matches_source (b : Nat) :
    Gen.Src.c06AcceptNewRecordFields = ["checkBlockNumber", "isTransmissionPending"] ∧
    Gen.Src.c06AcceptHigherRecordFields = ["checkBlockNumber", "isTransmissionPending"] ∧
    acceptRec b = { checkBlock := Gen.Src.c06AcceptNewRecord_checkBlockNumber b,
                    pending := Gen.Src.c06AcceptNewRecord_isTransmissionPending b, ttype := 0, tblock := 0 } ∧
    acceptRec b = { checkBlock := Gen.Src.c06AcceptHigherRecord_checkBlockNumber b,
                    pending := Gen.Src.c06AcceptHigherRecord_isTransmissionPending b, ttype := 0, tblock := 0 } :=
  ⟨rfl, rfl, rfl, rfl⟩

/-- the `record{…}` literal of `checkEvents` is the model's `eventRec` (its check block is assigned afterwards, on
either branch, from the stored record or from the event) -/
theorem eventRec_matches_source (e : Event) (cb : Nat) :
    Gen.Src.c06EventRecordFields = ["isTransmissionPending", "transmitType", "transmitBlockNumber"] ∧
    { eventRec e with checkBlock := cb } =
      { checkBlock := cb, pending := Gen.Src.c06EventRecord_isTransmissionPending e.ttype e.transmitBlock,
        ttype := Gen.Src.c06EventRecord_transmitType e.ttype e.transmitBlock,
        tblock := Gen.Src.c06EventRecord_transmitBlockNumber e.ttype e.transmitBlock } :=
  ⟨rfl, rfl⟩

end AutoVerif.C06
