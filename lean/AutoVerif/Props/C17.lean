import AutoVerif.Lemmas.C17
/-
C17 — OCR2 (v2) coordinator: lockout until the right log, convergent across orderings.

Property theorems only (helpers are `private` or live in Lemmas/C17).  Everything
is proved for every history (any length, any number of upkeep ids, check blocks,
re-orgs, duplicates, confirmations vs. any minimum) under two named hypotheses:

* canonical block keys (`canonBlk`, `opCanon`, `probeCanon`): every block key is
  the decimal numeral of a natural number — what `BasicEncoder.ValidateBlockKey`
  enforces on keys that reach a report.  Outside it the code's comparison is
  *not* an order and histories are order-dependent: see the `…_fails_…` and
  `order_dependent_…` theorems.
* one lockout window (`inWindow`): every operation and the probe lie within
  `min(lockoutWindow, 1h)` of `t0`, so no cache entry expires in between
  (expiry itself is `lockout_expires`) — or, for `lockout_renewed`, any number of
  windows in which no lock had run out when an operation was processed
  (`liveRegime`): every change of an upkeep's blocking state starts its lockout afresh.

`ghost cfg ops` (Spec/C17) is the history read as the property reads it: keys
accepted, accepted keys with a sufficiently confirmed log afterwards, and per
upkeep id the contributions `(check block, released-up-to)`; `Ghost.block` is
their lexicographic maximum (`joinAll`).
-/
namespace AutoVerif.C17

/-! ### `shouldUpdate` as an order -/

/-- on canonical blockers `shouldUpdate` never errors and is the strict lexicographic order
    (check block, then transmit block with the indefinite key lowest) — except that an
    indefinite blocker is also "updated" by anything with the same check block, itself included -/
theorem shouldUpdate_eq_order {b v : IdBlocker} (hb : canonBlk b) (hv : canonBlk v) :
    shouldUpdate b v = some (decide ((ofBlk b).lt (ofBlk v) = true ∨
      (num b.check = num v.check ∧ num b.transmit = two64))) :=
  shouldUpdate_canon hb hv

private theorem lt_iff (x y : NB) : x.lt y = true ↔ (x.check < y.check ∨ (x.check = y.check ∧ x.upto < y.upto)) := by
  simp [NB.lt]

private theorem su_iff {b v : IdBlocker} (hb : canonBlk b) (hv : canonBlk v) :
    shouldUpdate b v = some true ↔
      ((ofBlk b).check < (ofBlk v).check ∨ ((ofBlk b).check = (ofBlk v).check ∧ (ofBlk b).upto < (ofBlk v).upto)) ∨
      ((ofBlk b).check = (ofBlk v).check ∧ (ofBlk b).upto = 0) := by
  rw [shouldUpdate_canon hb hv]
  simp only [Option.some.injEq, decide_eq_true_eq, lt_iff]
  have : (num b.transmit = two64) ↔ (ofBlk b).upto = 0 := by
    simp only [ofBlk, rankOf]; split <;> simp_all
  rw [this]; rfl

/-- the code's comparison is NOT irreflexive: an indefinite blocker "should be updated" by itself -/
theorem shouldUpdate_not_irreflexive :
    ∃ b, canonBlk b ∧ shouldUpdate b b = some true :=
  ⟨⟨lit "7", indefinite⟩, ⟨by decide, by decide⟩, by decide⟩

/-- … and that is the only failure of irreflexivity -/
theorem shouldUpdate_irrefl_iff {b : IdBlocker} (hb : canonBlk b) :
    shouldUpdate b b = some true ↔ b.transmit = indefinite := by
  rw [su_iff hb hb, canon_eq_indefinite hb.2]
  simp only [ofBlk, rankOf]
  constructor
  · rintro (h | h)
    · omega
    · have := h.2; split at this <;> simp_all
  · intro h; right; simp [h]

theorem shouldUpdate_asymm {b v : IdBlocker} (hb : canonBlk b) (hv : canonBlk v) (hne : b ≠ v)
    (h : shouldUpdate b v = some true) : shouldUpdate v b = some false := by
  have hne' : ofBlk b ≠ ofBlk v := fun e => hne (ofBlk_inj hb hv e)
  have h1 := (su_iff hb hv).mp h
  have h2 : ¬ (shouldUpdate v b = some true) := by
    rw [su_iff hv hb]
    intro h2
    apply hne'
    cases hx : ofBlk b with | mk bc bu => cases hy : ofBlk v with | mk vc vu =>
    simp only [hx, hy] at h1 h2
    simp only [NB.mk.injEq]
    omega
  rw [shouldUpdate_canon hv hb] at h2 ⊢
  simp only [Option.some.injEq, decide_eq_true_eq] at h2
  simp [h2]

theorem shouldUpdate_total {b v : IdBlocker} (hb : canonBlk b) (hv : canonBlk v) (hne : b ≠ v) :
    shouldUpdate b v = some true ∨ shouldUpdate v b = some true := by
  have hne' : ofBlk b ≠ ofBlk v := fun e => hne (ofBlk_inj hb hv e)
  rw [su_iff hb hv, su_iff hv hb]
  cases hx : ofBlk b with | mk bc bu => cases hy : ofBlk v with | mk vc vu =>
  simp only [hx, hy, ne_eq, NB.mk.injEq] at hne' ⊢
  omega

theorem shouldUpdate_trans {a b c : IdBlocker} (ha : canonBlk a) (hb : canonBlk b) (hc : canonBlk c)
    (h1 : shouldUpdate a b = some true) (h2 : shouldUpdate b c = some true) : shouldUpdate a c = some true := by
  rw [su_iff ha hb] at h1
  rw [su_iff hb hc] at h2
  rw [su_iff ha hc]
  cases hx : ofBlk a with | mk ac au => cases hy : ofBlk b with | mk bc bu => cases hz : ofBlk c with | mk cc cu =>
  simp only [hx, hy, hz] at h1 h2 ⊢
  omega

example : canonBlk ⟨lit "10", indefinite⟩ ∧ canonBlk ⟨lit "10", lit "15"⟩ ∧
    shouldUpdate ⟨lit "10", indefinite⟩ ⟨lit "10", lit "15"⟩ = some true ∧
    shouldUpdate ⟨lit "10", lit "15"⟩ ⟨lit "10", indefinite⟩ = some false ∧
    shouldUpdate ⟨lit "10", lit "15"⟩ ⟨lit "9", lit "99"⟩ = some false := by decide

/-! ### `updateIdBlock` is a join -/

/-- `joinBlk b v` is what `updateIdBlock` leaves when `b` is stored and `v` arrives; in numbers it is the maximum -/
theorem joinBlk_eq_max {b v : IdBlocker} (hb : canonBlk b) (hv : canonBlk v) :
    ofBlk (joinBlk b v) = (ofBlk b).join (ofBlk v) := ofBlk_joinBlk hb hv

theorem joinBlk_idem (b : IdBlocker) : joinBlk b b = b := by
  unfold joinBlk; split <;> rfl

theorem joinBlk_comm {b v : IdBlocker} (hb : canonBlk b) (hv : canonBlk v) : joinBlk b v = joinBlk v b := by
  apply ofBlk_inj (canonBlk_joinBlk hb hv) (canonBlk_joinBlk hv hb)
  rw [ofBlk_joinBlk hb hv, ofBlk_joinBlk hv hb, NB.join_comm]

theorem joinBlk_assoc {a b c : IdBlocker} (ha : canonBlk a) (hb : canonBlk b) (hc : canonBlk c) :
    joinBlk (joinBlk a b) c = joinBlk a (joinBlk b c) := by
  have hab := canonBlk_joinBlk ha hb
  have hbc := canonBlk_joinBlk hb hc
  apply ofBlk_inj (canonBlk_joinBlk hab hc) (canonBlk_joinBlk ha hbc)
  rw [ofBlk_joinBlk hab hc, ofBlk_joinBlk ha hb, ofBlk_joinBlk ha hbc, ofBlk_joinBlk hb hc, NB.join_assoc]

example : canonBlk ⟨lit "10", lit "15"⟩ ∧ canonBlk ⟨lit "10", lit "18"⟩ ∧
    joinBlk ⟨lit "10", lit "15"⟩ ⟨lit "10", lit "18"⟩ = ⟨lit "10", lit "18"⟩ ∧
    joinBlk ⟨lit "10", lit "18"⟩ ⟨lit "10", lit "15"⟩ = ⟨lit "10", lit "18"⟩ := by decide

/-- the join laws FAIL without canonical numerals: numerically equal check blocks `"7"` / `"07"` -/
theorem joinBlk_comm_fails_noncanonical :
    joinBlk ⟨lit "7", indefinite⟩ ⟨lit "07", indefinite⟩ ≠ joinBlk ⟨lit "07", indefinite⟩ ⟨lit "7", indefinite⟩ := by
  decide

/-- … and with an unparsable transmit block (the comparison errors, "don't update on errors") -/
theorem joinBlk_comm_fails_unparsable :
    joinBlk ⟨lit "7", lit "10"⟩ ⟨lit "7", lit "xyz"⟩ ≠ joinBlk ⟨lit "7", lit "xyz"⟩ ⟨lit "7", lit "10"⟩ := by
  decide

/-! ### the state reached by a history is the join of its contributions -/

private theorem sim_of_history (cfg : Cfg) (t0 now : Nat) (h : List (Nat × Op))
    (hw : inWindow cfg t0 h now = true) (hc : ∀ p ∈ h, opCanon p.2 = true) :
    Sim (t0 + cfg.horizon) (run cfg State.init h) (ghost cfg (h.map (·.2))) ∧ now ≤ t0 + cfg.horizon := by
  obtain ⟨hn, hp⟩ := inWindow_spec hw
  refine ⟨sim_run cfg _ h State.init Ghost.init (sim_init _) ?_, hn⟩
  intro p hpm
  obtain ⟨a, b, c⟩ := hp p hpm
  exact ⟨hc p hpm, a, b, c⟩

/-- `final_state_eq_join`: inside one window, after ANY canonical history, the id-block cache holds for every
    upkeep id exactly the join (lexicographic maximum) of the contributions of the history — an accept of
    `(c, id)` contributes `(c, indefinite)`, a sufficiently confirmed perform log of an accepted key `(c, id)` at
    block `t` contributes `(c, t)`, a stale-report log `(c, c+1)` — and the active-key cache holds exactly the
    accepted keys, flagged iff such a log was seen. -/
theorem final_state_eq_join (cfg : Cfg) (t0 now : Nat) (h : List (Nat × Op))
    (hw : inWindow cfg t0 h now = true) (hc : ∀ p ∈ h, opCanon p.2 = true) :
    let s := run cfg State.init h
    let g := ghost cfg (h.map (·.2))
    (∀ id, ((s.idBlocks.get now id).map ofBlk = g.block id) ∧ (∀ b, s.idBlocks.get now id = some b → canonBlk b)) ∧
    (∀ key, s.activeKeys.get now key = if key ∈ g.accepted then some (decide (key ∈ g.logged)) else none) := by
  obtain ⟨hs, hn⟩ := sim_of_history cfg t0 now h hw hc
  refine ⟨fun id => ⟨?_, ?_⟩, fun key => ?_⟩
  · rw [get_of_fresh hs.freshI hn, ← hs.blocks id]
    cases (run cfg State.init h).idBlocks.find id <;> rfl
  · intro b hb
    rw [get_of_fresh hs.freshI hn] at hb
    cases hf : (run cfg State.init h).idBlocks.find id with
    | none => rw [hf] at hb; simp at hb
    | some q =>
      obtain ⟨b', e⟩ := q
      rw [hf] at hb
      simp only [Option.map_some, Option.some.injEq] at hb
      exact hb ▸ hs.canon id b' e hf
  · rw [get_of_fresh hs.freshA hn, hs.active key]

/-- the answers of the coordinator are the ones the history prescribes -/
theorem answers_eq_expected (cfg : Cfg) (t0 now : Nat) (h : List (Nat × Op))
    (hw : inWindow cfg t0 h now = true) (hc : ∀ p ∈ h, opCanon p.2 = true) :
    let s := run cfg State.init h
    let g := ghost cfg (h.map (·.2))
    (∀ key, probeCanon key = true → isPending s now key = expPending g key) ∧
    (∀ key, isConfirmed s now key = expConfirmed g key) := by
  obtain ⟨hs, hn⟩ := sim_of_history cfg t0 now h hw hc
  exact ⟨fun key hk => isPending_of_sim hs hn key hk, fun key => isConfirmed_of_sim hs hn key⟩

/-! ### order independence -/

/-- `order_independent`: two orderings of one history that both keep every key's accept before its logs,
    each executed within one lockout window (at whatever times), end in the same id-block state
    (per id the same stored blocker), the same active-key flags, hence the same `IsPending` answer for
    every probe and the same confirmed set. -/
theorem order_independent (cfg : Cfg) (t0 now t0' now' : Nat) (h h' : List (Nat × Op))
    (hp : (h.map (·.2)).Perm (h'.map (·.2)))
    (ha : acceptFirst (h.map (·.2)) = true) (ha' : acceptFirst (h'.map (·.2)) = true)
    (hw : inWindow cfg t0 h now = true) (hw' : inWindow cfg t0' h' now' = true)
    (hc : ∀ p ∈ h, opCanon p.2 = true) (hc' : ∀ p ∈ h', opCanon p.2 = true) :
    let s := run cfg State.init h
    let s' := run cfg State.init h'
    (∀ id, s.idBlocks.get now id = s'.idBlocks.get now' id) ∧
    (∀ key, s.activeKeys.get now key = s'.activeKeys.get now' key) ∧
    (∀ key, isPending s now key = isPending s' now' key) ∧
    (∀ key, isConfirmed s now key = isConfirmed s' now' key) := by
  obtain ⟨f1, f2⟩ := final_state_eq_join cfg t0 now h hw hc
  obtain ⟨f1', f2'⟩ := final_state_eq_join cfg t0' now' h' hw' hc'
  obtain ⟨p1, p2, p3⟩ := ghost_perm cfg hp ha ha'
  have hid : ∀ id, (run cfg State.init h).idBlocks.get now id = (run cfg State.init h').idBlocks.get now' id := by
    intro id
    have e : ((run cfg State.init h).idBlocks.get now id).map ofBlk =
        ((run cfg State.init h').idBlocks.get now' id).map ofBlk := by
      rw [(f1 id).1, (f1' id).1, block_perm p3]
    cases hx : (run cfg State.init h).idBlocks.get now id with
    | none =>
      rw [hx] at e
      cases hy : (run cfg State.init h').idBlocks.get now' id with
      | none => rfl
      | some b' => rw [hy] at e; simp at e
    | some b =>
      rw [hx] at e
      cases hy : (run cfg State.init h').idBlocks.get now' id with
      | none => rw [hy] at e; simp at e
      | some b' =>
        rw [hy] at e
        simp only [Option.map_some, Option.some.injEq] at e
        rw [ofBlk_inj ((f1 id).2 b hx) ((f1' id).2 b' hy) e]
  have hact : ∀ key, (run cfg State.init h).activeKeys.get now key = (run cfg State.init h').activeKeys.get now' key := by
    intro key
    rw [f2 key, f2' key]
    have e1 : key ∈ (ghost cfg (h.map (·.2))).accepted ↔ key ∈ (ghost cfg (h'.map (·.2))).accepted := p1.mem_iff
    have e2 : key ∈ (ghost cfg (h.map (·.2))).logged ↔ key ∈ (ghost cfg (h'.map (·.2))).logged := p2.mem_iff
    simp only [e1, e2]
  refine ⟨hid, hact, ?_, ?_⟩
  · intro key
    unfold isPending
    cases splitUpkeepKey key with
    | none => rfl
    | some q => obtain ⟨b, id⟩ := q; simp only [hid id]
  · intro key
    unfold isConfirmed
    rw [hact key]

/-- without canonical block keys the final state DOES depend on the order: keys `"7|5"` and `"07|5"` (same id,
    numerically equal check blocks), perform logs at 10 / 11 and a re-orged perform of `"7|5"` at 20 — both
    orderings admissible, yet block 15 passes in one and is filtered in the other -/
theorem order_dependent_noncanonical :
    let cfg : Cfg := { lockout := 0, minConfs := 0 }
    let a (k : String) : Op := .accept (lit k)
    let p (k tb : String) : Op := .perform { key := lit k, transmit := lit tb, confs := 0 }
    let x : List (Nat × Op) := [(1, a "7|5"), (2, a "07|5"), (3, p "7|5" "10"), (4, p "07|5" "11"), (5, p "7|5" "20")]
    let z : List (Nat × Op) := [(1, a "7|5"), (2, a "07|5"), (3, p "7|5" "10"), (4, p "7|5" "20"), (5, p "07|5" "11")]
    (x.map (·.2)).isPerm (z.map (·.2)) = true ∧ acceptFirst (x.map (·.2)) = true ∧ acceptFirst (z.map (·.2)) = true ∧
    isPending (run cfg State.init x) 6 (lit "15|5") = (false, false) ∧
    isPending (run cfg State.init z) 6 (lit "15|5") = (true, false) := by
  decide

/-- … and with an unparsable transmit block in a perform log: whichever of `xyz` / `10` comes first stays -/
theorem order_dependent_unparsable_transmit :
    let cfg : Cfg := { lockout := 0, minConfs := 0 }
    let a (k : String) : Op := .accept (lit k)
    let p (k tb : String) : Op := .perform { key := lit k, transmit := lit tb, confs := 0 }
    let x : List (Nat × Op) := [(1, a "7|5"), (2, p "7|5" "xyz"), (3, p "7|5" "10")]
    let z : List (Nat × Op) := [(1, a "7|5"), (2, p "7|5" "10"), (3, p "7|5" "xyz")]
    isPending (run cfg State.init x) 4 (lit "15|5") = (true, true) ∧
    isPending (run cfg State.init z) 4 (lit "15|5") = (false, false) := by
  decide

/-! ### lockout until the right log -/

/-- `pending_until_log`: once `(c, id)` is accepted, and as long as no log was processed for that id at check
    block `c` or higher, the id is filtered for EVERY check block (all block numbers up to 2^64). -/
theorem pending_until_log (cfg : Cfg) (t0 now : Nat) (h : List (Nat × Op))
    (hw : inWindow cfg t0 h now = true) (hc : ∀ p ∈ h, opCanon p.2 = true)
    (k c id : Str) (hk : Op.accept k ∈ h.map (·.2)) (hs : splitUpkeepKey k = some (c, id))
    (hno : ∀ y ∈ (ghost cfg (h.map (·.2))).forId id, num c ≤ y.check → y.upto = 0)
    (key b : Str) (hkey : splitUpkeepKey key = some (b, id)) (hb : isCanon b = true) (hr : num b ≤ two64) :
    isPending (run cfg State.init h) now key = (true, false) := by
  have hp : probeCanon key = true := by simp [probeCanon, hkey, hb]
  rw [(answers_eq_expected cfg t0 now h hw hc).1 key hp]
  have hmem := mem_forId (accept_contrib_mem cfg (h.map (·.2)) hk hs)
  obtain ⟨m, hm⟩ := joinAll_isSome (List.ne_nil_of_mem hmem)
  have hle := joinAll_le hmem hm
  have hm0 : m.upto = 0 := by
    apply hno m (joinAll_mem hm)
    rw [NB.le_iff] at hle; simp only at hle; omega
  simp [expPending, hkey, Ghost.block, hm, pendingN, hm0, hr]

/-- the general boundary: if contribution `x` for `id` is the highest of the history, exactly the check
    blocks below `x.upto` stay filtered -/
theorem unblocks_at_max (cfg : Cfg) (t0 now : Nat) (h : List (Nat × Op))
    (hw : inWindow cfg t0 h now = true) (hc : ∀ p ∈ h, opCanon p.2 = true)
    (id : Str) (x : NB) (hx : (id, x) ∈ (ghost cfg (h.map (·.2))).contribs)
    (hmax : ∀ y ∈ (ghost cfg (h.map (·.2))).forId id, NB.le y x) (hpos : x.upto ≠ 0)
    (key b : Str) (hkey : splitUpkeepKey key = some (b, id)) (hb : isCanon b = true) :
    isPending (run cfg State.init h) now key = (decide (num b < x.upto), false) := by
  have hp : probeCanon key = true := by simp [probeCanon, hkey, hb]
  rw [(answers_eq_expected cfg t0 now h hw hc).1 key hp]
  have hj := joinAll_eq_of_max (mem_forId hx) hmax
  simp [expPending, hkey, Ghost.block, hj, pendingN, hpos]

/-- `perform_unblocks_after`: a sufficiently confirmed perform log of an accepted key `(c, id)` at transmit
    block `t`, when nothing higher (later check block, or same check block and later transmit block) was seen
    for the id, leaves exactly the check blocks `≤ t` filtered: only blocks after the perform block pass. -/
theorem perform_unblocks_after (cfg : Cfg) (t0 now : Nat) (h : List (Nat × Op))
    (hw : inWindow cfg t0 h now = true) (hc : ∀ p ∈ h, opCanon p.2 = true)
    (pre post : List Op) (l : Log) (c id : Str) (hdec : h.map (·.2) = pre ++ Op.perform l :: post)
    (hacc : Op.accept l.key ∈ pre) (hs : splitUpkeepKey l.key = some (c, id)) (hconf : cfg.minConfs ≤ l.confs)
    (ht : num l.transmit ≠ two64)
    (hmax : ∀ y ∈ (ghost cfg (h.map (·.2))).forId id, NB.le y { check := num c, upto := num l.transmit + 1 })
    (key b : Str) (hkey : splitUpkeepKey key = some (b, id)) (hb : isCanon b = true) :
    isPending (run cfg State.init h) now key = (decide (num b ≤ num l.transmit), false) := by
  have hl : logContrib cfg (.perform l) = some (l.key, id, { check := num c, upto := num l.transmit + 1 }) := by
    have : ¬ l.confs < cfg.minConfs := by omega
    simp [logContrib, this, hs, rankOf, ht]
  have hx : (id, ({ check := num c, upto := num l.transmit + 1 } : NB)) ∈ (ghost cfg (h.map (·.2))).contribs := by
    rw [hdec]; exact log_contrib_mem cfg hl hacc
  rw [unblocks_at_max cfg t0 now h hw hc id _ hx hmax (by simp) key b hkey hb]
  congr 1
  simp only [decide_eq_decide]; omega

/-- `stale_unblocks_after_plus_one`: a sufficiently confirmed stale-report log of an accepted key `(c, id)`, when
    nothing higher was seen for the id, leaves exactly the check blocks `≤ c + 1` filtered: only blocks more than
    one past the checked block pass.  (`c + 1 ≠ 2^64`: at the very top of the uint64 range the incremented key IS the
    indefinite key and the stale report does not unblock — `stale_at_top_blocks_forever`.) -/
theorem stale_unblocks_after_plus_one (cfg : Cfg) (t0 now : Nat) (h : List (Nat × Op))
    (hw : inWindow cfg t0 h now = true) (hc : ∀ p ∈ h, opCanon p.2 = true)
    (pre post : List Op) (l : Log) (c id : Str) (hdec : h.map (·.2) = pre ++ Op.stale l :: post)
    (hacc : Op.accept l.key ∈ pre) (hs : splitUpkeepKey l.key = some (c, id)) (hconf : cfg.minConfs ≤ l.confs)
    (ht : num c + 1 ≠ two64)
    (hmax : ∀ y ∈ (ghost cfg (h.map (·.2))).forId id, NB.le y { check := num c, upto := num c + 2 })
    (key b : Str) (hkey : splitUpkeepKey key = some (b, id)) (hb : isCanon b = true) :
    isPending (run cfg State.init h) now key = (decide (num b ≤ num c + 1), false) := by
  have hcc : isCanon c = true := by
    have hm : Op.stale l ∈ h.map (·.2) := by rw [hdec]; simp
    obtain ⟨p, hp, he⟩ := List.mem_map.mp hm
    have := hc p hp
    rw [he] at this
    simpa [opCanon, hs] using this
  have hl : logContrib cfg (.stale l) = some (l.key, id, { check := num c, upto := num c + 2 }) := by
    have : ¬ l.confs < cfg.minConfs := by omega
    simp [logContrib, this, hs, canon_parse hcc, rankOf, ht]
  have hx : (id, ({ check := num c, upto := num c + 2 } : NB)) ∈ (ghost cfg (h.map (·.2))).contribs := by
    rw [hdec]; exact log_contrib_mem cfg hl hacc
  rw [unblocks_at_max cfg t0 now h hw hc id _ hx hmax (by simp) key b hkey hb]
  congr 1
  simp only [decide_eq_decide]; omega

/-- at check block 2^64 − 1 a stale report "unblocks" to the indefinite key, i.e. not at all -/
theorem stale_at_top_blocks_forever :
    let cfg : Cfg := { lockout := 0, minConfs := 0 }
    let h : List (Nat × Op) := [(1, .accept (lit "18446744073709551615|5")),
      (2, .stale { key := lit "18446744073709551615|5", transmit := lit "1", confs := 0 })]
    isPending (run cfg State.init h) 3 (lit "18446744073709551615|5") = (true, false) ∧
    isConfirmed (run cfg State.init h) 3 (lit "18446744073709551615|5") = true := by
  decide

/-- `unconfirmed_iff_no_log`: a key counts as unconfirmed (worth transmitting) exactly while it has been
    accepted and no sufficiently confirmed perform / stale-report log for it was processed after its accept. -/
theorem unconfirmed_iff_no_log (cfg : Cfg) (t0 now : Nat) (h : List (Nat × Op))
    (hw : inWindow cfg t0 h now = true) (hc : ∀ p ∈ h, opCanon p.2 = true) (key : Str) :
    isConfirmed (run cfg State.init h) now key = false ↔
      (Op.accept key ∈ h.map (·.2) ∧ (splitUpkeepKey key).isSome = true) ∧
      ¬ ∃ pre op post, h.map (·.2) = pre ++ op :: post ∧ logFor cfg op key ∧ Op.accept key ∈ pre := by
  rw [(answers_eq_expected cfg t0 now h hw hc).2 key]
  unfold expConfirmed ghost
  rw [Bool.or_eq_false_iff]
  simp only [Bool.not_eq_false', decide_eq_true_eq, decide_eq_false_iff_not]
  rw [ghostFrom_accepted_iff, ghostFrom_logged_iff]
  simp [Ghost.init]

/-- `lockout_expires`: one lockout window after the last operation every id passes again, whatever happened -/
theorem lockout_expires (cfg : Cfg) (h : List (Nat × Op)) (tmax now : Nat) (ht : ∀ p ∈ h, p.1 ≤ tmax)
    (hn : tmax + cfg.window < now) (key : Str) (hs : (splitUpkeepKey key).isSome = true) :
    isPending (run cfg State.init h) now key = (false, false) := by
  have hb : Bounded (run cfg State.init h).idBlocks (tmax + cfg.window) := by
    apply bounded_run
    · intro k v e hf; simp [State.init, Cache.empty, Cache.find] at hf
    · intro p hp; have := ht p hp; omega
  unfold isPending
  cases hsp : splitUpkeepKey key with
  | none => rw [hsp] at hs; simp at hs
  | some q =>
    obtain ⟨b, id⟩ := q
    simp only [get_none_of_bounded hb hn]

/-- the interval cleaners (`ClearExpired`) never change what `Get` returns, now or later -/
theorem get_clearExpired {α} (c : Cache α) (hn : KeysNodup c) (t now : Nat) (htn : t ≤ now) (k : Str) :
    (c.clearExpired t).get now k = c.get now k := by
  unfold Cache.get Cache.clearExpired
  rw [find_filter_of_nodup c _ hn k]
  cases c.find k with
  | none => rfl
  | some ve =>
    obtain ⟨v, e⟩ := ve
    simp only [Bool.not_eq_true', decide_eq_false_iff_not]
    by_cases hx : e > 0 ∧ t > e
    · have hy : e > 0 ∧ now > e := by omega
      simp [hx, hy]
    · simp [hx]

/-- `Set` keeps the keys of a cache unique (so `get_clearExpired` applies to every reachable cache) -/
theorem set_keeps_keys_unique {α} (c : Cache α) (hn : KeysNodup c) (now ttl : Nat) (k : Str) (v : α) :
    KeysNodup (c.set now ttl k v) := keysNodup_set hn now ttl k v

/-! ### non-vacuity: a concrete history meets the hypotheses of the theorems above -/

private def exCfg : Cfg := { lockout := 0, minConfs := 1 }
private def exA (k : String) : Op := .accept (lit k)
private def exP (k tb : String) (c : Int) : Op := .perform { key := lit k, transmit := lit tb, confs := c }
private def exS (k : String) (c : Int) : Op := .stale { key := lit k, transmit := lit "99", confs := c }

/-- two upkeep ids, two check blocks for id 5, a perform that is re-orged from 13 to 16, an unconfirmed
    perform, a stale report -/
private def exH : List (Nat × Op) :=
  [(10, exA "10|5"), (20, exA "12|5"), (30, exA "11|6"), (40, exP "10|5" "14" 1), (50, exP "12|5" "13" 1),
   (60, exP "12|5" "16" 2), (70, exP "11|6" "12" 0), (80, exS "11|6" 3)]

/-- an admissible reordering of `exH`, executed at other times -/
private def exH' : List (Nat × Op) :=
  [(5, exA "11|6"), (6, exS "11|6" 3), (7, exA "12|5"), (8, exP "12|5" "16" 2), (9, exA "10|5"),
   (11, exP "11|6" "12" 0), (12, exP "12|5" "13" 1), (13, exP "10|5" "14" 1)]

/-- hypotheses of `final_state_eq_join`, `answers_eq_expected`, `order_independent` (two different orders) -/
example : inWindow exCfg 10 exH 90 = true ∧ (∀ p ∈ exH, opCanon p.2 = true) ∧
    inWindow exCfg 5 exH' 1000 = true ∧ (∀ p ∈ exH', opCanon p.2 = true) ∧
    (exH.map (·.2)).isPerm (exH'.map (·.2)) = true ∧ exH.map (·.2) ≠ exH'.map (·.2) ∧
    acceptFirst (exH.map (·.2)) = true ∧ acceptFirst (exH'.map (·.2)) = true := by decide

/-- … and what they give there: id 5 is blocked at `(12, 16)` (the re-orged perform), id 6 at `(11, 12)` (stale) -/
example : (ghost exCfg (exH.map (·.2))).block (lit "5") = some { check := 12, upto := 17 } ∧
    (ghost exCfg (exH.map (·.2))).block (lit "6") = some { check := 11, upto := 13 } ∧
    isPending (run exCfg State.init exH) 90 (lit "16|5") = (true, false) ∧
    isPending (run exCfg State.init exH') 1000 (lit "17|5") = (false, false) ∧
    isPending (run exCfg State.init exH) 90 (lit "12|6") = (true, false) ∧
    isPending (run exCfg State.init exH') 1000 (lit "13|6") = (false, false) := by decide

/-- hypotheses of `perform_unblocks_after` (the re-orged perform of `12|5` at 16 is the maximum for id 5) -/
example : exH.map (·.2) = (exH.map (·.2)).take 5 ++ exP "12|5" "16" 2 :: (exH.map (·.2)).drop 6 ∧
    exA "12|5" ∈ (exH.map (·.2)).take 5 ∧ splitUpkeepKey (lit "12|5") = some (lit "12", lit "5") ∧
    exCfg.minConfs ≤ 2 ∧ num (lit "16") ≠ two64 ∧
    (∀ y ∈ (ghost exCfg (exH.map (·.2))).forId (lit "5"), NB.le y { check := num (lit "12"), upto := num (lit "16") + 1 }) := by
  decide

/-- hypotheses of `stale_unblocks_after_plus_one` (the stale report of `11|6` is the maximum for id 6; the
    perform with 0 < 1 confirmations does not count) -/
example : exH.map (·.2) = (exH.map (·.2)).take 7 ++ exS "11|6" 3 :: [] ∧
    exA "11|6" ∈ (exH.map (·.2)).take 7 ∧ splitUpkeepKey (lit "11|6") = some (lit "11", lit "6") ∧
    exCfg.minConfs ≤ 3 ∧ num (lit "11") + 1 ≠ two64 ∧
    (∀ y ∈ (ghost exCfg (exH.map (·.2))).forId (lit "6"), NB.le y { check := num (lit "11"), upto := num (lit "11") + 2 }) := by
  decide

/-- hypotheses of `pending_until_log` (prefix of `exH` before any log for check block 12 of id 5: the late log
    for the lower check block 10 does not release anything) -/
example : exA "12|5" ∈ (exH.take 4).map (·.2) ∧ splitUpkeepKey (lit "12|5") = some (lit "12", lit "5") ∧
    (∀ y ∈ (ghost exCfg ((exH.take 4).map (·.2))).forId (lit "5"), num (lit "12") ≤ y.check → y.upto = 0) ∧
    isPending (run exCfg State.init (exH.take 4)) 45 (lit "15|5") = (true, false) ∧
    isPending (run exCfg State.init (exH.take 4)) 45 (lit "18446744073709551615|5") = (true, false) := by decide

/-- `unconfirmed_iff_no_log` on `exH`: `11|6` (stale seen) and `10|5` are confirmed, and before its first
    sufficiently confirmed log `12|5` is not -/
example : isConfirmed (run exCfg State.init exH) 90 (lit "11|6") = true ∧
    isConfirmed (run exCfg State.init (exH.take 4)) 45 (lit "12|5") = false ∧
    isConfirmed (run exCfg State.init (exH.take 4)) 45 (lit "10|5") = true ∧
    isConfirmed (run exCfg State.init (exH.take 4)) 45 (lit "99|5") = true := by decide

/-- `lockout_expires`: hypotheses met with the default window (20 min); the id-5 entry was last written at
    t = 60, so it is live up to and including 60 + window and gone one nanosecond later -/
example : (∀ p ∈ exH, p.1 ≤ 80) ∧ 80 + exCfg.window < 1200000000081 ∧
    isPending (run exCfg State.init exH) 1200000000081 (lit "13|5") = (false, false) ∧
    isPending (run exCfg State.init exH) 1200000000060 (lit "13|5") = (true, false) ∧
    isPending (run exCfg State.init exH) 1200000000061 (lit "13|5") = (false, false) := by decide

/-! ### the two "until" events in the other order: the lockout runs out first, the log arrives later -/

private theorem opFree_of_B {pa pl : List Str} {op : Op} (h : opFreeB pa pl op = true) : opFree pa pl op := by
  cases op <;> simpa [opFreeB, opFree] using h

private theorem lateSplitFrom_app (w : Nat) (h : List (Nat × Op)) (i : Nat) (pre recent : List (Nat × Op))
    (hs : lateSplitFrom w h i = some (pre, recent)) : pre ++ recent = h := by
  induction i with
  | zero => simp [lateSplitFrom] at hs
  | succ i ih =>
    simp only [lateSplitFrom] at hs
    split at hs
    · simp only [Option.some.injEq, Prod.mk.injEq] at hs
      rw [← hs.1, ← hs.2]; exact List.take_append_drop _ _
    · exact ih hs

/-- `late_log_after_expiry`: let every operation of `pre` (one window) be more than a lockout window older than the
    first operation of `recent` (the next window, probe included), everything within the hour a key stays active,
    canonical keys, and after the pause no re-accept of a key accepted before it and no log of a key that already had one.
    Then the id blocks are exactly the join of the contributions made since the pause — a first log that arrives only
    after its lockout ran out blocks the id up to its transmit block (resp. check block + 1) for a new window — while the
    active keys and their flags are those of the whole history. -/
theorem late_log_after_expiry (cfg : Cfg) (pre recent : List (Nat × Op)) (now : Nat) (probes : List Str)
    (hr : lateRegime cfg pre recent now probes = true) :
    let s := run cfg State.init (pre ++ recent)
    let g := ghostLate cfg pre recent
    (∀ key ∈ probes, isPending s now key = expPending g key) ∧ (∀ key, isConfirmed s now key = expConfirmed g key) := by
  cases recent with
  | nil => simp [lateRegime] at hr
  | cons r rest =>
    simp only [lateRegime, Bool.and_eq_true, List.all_eq_true, decide_eq_true_eq] at hr
    obtain ⟨⟨⟨⟨⟨⟨⟨⟨hcp, hcr⟩, hprobe⟩, hpre⟩, hrec⟩, h0r⟩, hrn⟩, hnw⟩, hna⟩ := hr
    -- first window
    have hb : Bounded (run cfg State.init pre).idBlocks (r.1 - 1) := by
      apply bounded_run
      · intro k v e hf; simp [State.init, Cache.empty, Cache.find] at hf
      · intro p hp; have := (hpre p hp).2; omega
    have S1 : Sim2 (minTime pre now + cfg.window) (minTime pre now + activeTtlNs) [] []
        (run cfg State.init pre) (ghost cfg (pre.map (·.2))) := by
      apply sim_run2 cfg _ _ [] [] pre State.init Ghost.init (sim_init2 _ _ _ _)
      intro p hp
      obtain ⟨⟨a, b⟩, c⟩ := hpre p hp
      exact ⟨hcp p hp, b, by omega, by omega, by omega, opFree_nil _⟩
    -- second window, started from the same active keys and no id block
    have S0 : Sim2 (r.1 + cfg.window) (minTime pre now + activeTtlNs)
        (ghost cfg (pre.map (·.2))).accepted (ghost cfg (pre.map (·.2))).logged
        { idBlocks := [], activeKeys := (run cfg State.init pre).activeKeys }
        { ghost cfg (pre.map (·.2)) with contribs := [] } := by
      refine ⟨fresh_empty _, S1.freshA, ?_, ?_, S1.active, ?_, S1.logAcc⟩
      · intro k b e hf; simp [Cache.find] at hf
      · intro id; simp [Cache.find, Ghost.block, Ghost.forId, joinAll]
      · intro k hk
        rcases hk with ⟨a, b⟩ | ⟨a, b⟩
        · exact absurd a b
        · exact absurd a b
    have S2 := sim_run2 cfg _ _ _ _ (r :: rest) _ _ S0 (by
      intro p hp
      obtain ⟨⟨⟨a, b⟩, c⟩, d⟩ := hrec p hp
      exact ⟨hcr p hp, b, by omega, c, by omega, opFree_of_B d⟩)
    have GE0 : GetEq r.1 (run cfg State.init pre) { idBlocks := [], activeKeys := (run cfg State.init pre).activeKeys } := by
      refine ⟨rfl, fun k t ht => ?_⟩
      have hnone : (run cfg State.init pre).idBlocks.get t k = none := by
        by_cases hz : r.1 = 0
        · cases pre with
          | nil => simp [run, State.init, Cache.empty, Cache.get, Cache.find]
          | cons p ps => have := (hpre p (by simp)).2; omega
        · exact get_none_of_bounded hb (by omega) k
      rw [hnone]
      simp [Cache.get, Cache.find]
    have GE := getEq_run cfg r.1 (r :: rest) _ _ GE0 (fun p hp => (hrec p hp).1.1.1)
    simp only [run_app]
    refine ⟨fun key hk => ?_, fun key => ?_⟩
    · rw [isPending_getEq GE hrn key]
      exact isPending_of_sim S2 hnw key (hprobe key hk)
    · rw [isConfirmed_getEq GE key]
      exact isConfirmed_of_sim S2 hna key

/-- hypotheses of `late_log_after_expiry` met: lockout 5 s; accept `10|7` and `10|8`; 10 s later the first confirmed
    perform log of `10|7` in block 25 and a stale report of `10|8` — blocks up to 25 resp. 11 are filtered again, and
    both keys count as confirmed -/
example :
    let cfg : Cfg := { lockout := 5000000000, minConfs := 0 }
    let pre : List (Nat × Op) := [(137, .accept (lit "10|7")), (138, .accept (lit "10|8"))]
    let recent : List (Nat × Op) := [(10000000000, .perform { key := lit "10|7", transmit := lit "25", confs := 3 }),
      (10000000000, .stale { key := lit "10|8", transmit := lit "1", confs := 0 })]
    let probes := [lit "25|7", lit "26|7", lit "11|8", lit "12|8"]
    lateSplit cfg.window (pre ++ recent) = some (pre, recent) ∧
    lateRegime cfg pre recent 10500000000 probes = true ∧
    probes.map (isPending (run cfg State.init (pre ++ recent)) 10500000000) =
      [(true, false), (false, false), (true, false), (false, false)] ∧
    isConfirmed (run cfg State.init (pre ++ recent)) 10500000000 (lit "10|7") = true := by decide

/-! ### several windows: every change of the blocking state renews the lockout -/

private theorem liveRegime_spec {cfg : Cfg} {h : List (Nat × Op)} {now : Nat} {probes : List Str} {tg : TGhost}
    (hr : liveRegime cfg h now probes = some tg) :
    (∀ p ∈ h, opCanon p.2 = true ∧ p.1 ≤ minTime h now + activeTtlNs ∧ minTime h now + activeTtlNs ≤ p.1 + activeTtlNs) ∧
    (∀ key ∈ probes, probeCanon key = true) ∧ now ≤ minTime h now + activeTtlNs ∧
    tghostFrom cfg TGhost.init h = some tg := by
  unfold liveRegime at hr
  simp only at hr
  split at hr
  · rename_i hc
    simp only [Bool.and_eq_true, List.all_eq_true, decide_eq_true_eq] at hc
    obtain ⟨⟨⟨h1, h2⟩, h3⟩, h4⟩ := hc
    refine ⟨fun p hp => ⟨h1 p hp, (h3 p hp).2, ?_⟩, h2, h4, hr⟩
    have := (h3 p hp).1
    omega
  · simp at hr

/-- `lockout_renewed`: a canonical history of ANY length in time (within the hour an accepted key stays active), in
    which no lock had run out when an operation was processed.  `tg.since id` is the time at which the blocking state
    the history prescribes for `id` changed last.  Then for every id whose last change is at most one lockout window
    before `now` (or that was never blocked) the coordinator answers what the WHOLE history prescribes — the join of all
    contributions, first window or fifth: each change of the state starts the lockout afresh, the lock of the in-flight key
    does not inherit the deadline of an earlier write of the same upkeep — and the confirmed set is the history's. -/
theorem lockout_renewed (cfg : Cfg) (h : List (Nat × Op)) (now : Nat) (probes : List Str) (tg : TGhost)
    (hr : liveRegime cfg h now probes = some tg) :
    let s := run cfg State.init h
    let g := ghost cfg (h.map (·.2))
    tg.g = g ∧
    (∀ key ∈ probes, probeLive cfg.window tg now key = true → isPending s now key = expPending g key) ∧
    (∀ key, isConfirmed s now key = expConfirmed g key) := by
  obtain ⟨hops, hprobes, hnow, htg⟩ := liveRegime_spec hr
  have L := liveSim_run cfg _ h State.init TGhost.init tg (liveSim_init cfg _) hops htg
  have hg : tg.g = ghost cfg (h.map (·.2)) := tghostFrom_g cfg h _ _ htg
  refine ⟨hg, fun key hk hl => ?_, fun key => ?_⟩
  · rw [← hg]; exact isPending_of_liveSim L key (hprobes key hk) hl
  · rw [← hg]; exact isConfirmed_of_sim L.sim hnow key

private theorem zipWith_map_congr {β γ : Type} (F : Str → β → γ) (f g : Str → β) (l : List Str)
    (h : ∀ k ∈ l, F k (f k) = F k (g k)) : List.zipWith F l (l.map f) = List.zipWith F l (l.map g) := by
  induction l with
  | nil => rfl
  | cons a l ih =>
    simp only [List.map_cons, List.zipWith_cons_cons]
    rw [h a (by simp), ih (fun k hk => h k (List.mem_cons_of_mem _ hk))]

/-- the several-windows clause of the predicate holds of the model's own answers -/
theorem observe_liveOk (cfg : Cfg) (probes ckeys : List Str) (h : List (Nat × Op)) (now : Nat) :
    liveOk cfg probes ckeys h now (observe cfg probes ckeys h now) = true := by
  unfold liveOk
  cases hr : liveRegime cfg h now probes with
  | none => rfl
  | some tg =>
    obtain ⟨_, a1, a2⟩ := lockout_renewed cfg h now probes tg hr
    simp only [Bool.and_eq_true, decide_eq_true_eq]
    refine ⟨⟨?_, ?_⟩, ?_⟩
    · unfold observe expected
      exact List.map_congr_left (fun key _ => a2 key)
    · simp [observe]
    · unfold observe expected maskLive
      apply zipWith_map_congr
      intro k hk
      by_cases hl : probeLive cfg.window tg now k = true
      · simp only [hl, if_true]; rw [a1 k hk hl]
      · simp [hl]

/-- the seeded situation, on the model: lockout 10 s; `10|7` accepted at 0.137 s and performed; the next key `20|7` of
    the same upkeep accepted at 8.137 s.  At 12 s — past (first write + window), before (last change + window) — the
    hypotheses of `lockout_renewed` hold, id 7 changed last at 8.137 s, and every check block is still filtered; one
    window after the LAST change (18.137 s) it still is, a nanosecond later it is not. -/
example :
    let cfg : Cfg := { lockout := 10000000000, minConfs := 0 }
    let h : List (Nat × Op) := [(137000000, .accept (lit "10|7")),
      (1000000000, .perform { key := lit "10|7", transmit := lit "15", confs := 3 }),
      (8137000000, .accept (lit "20|7"))]
    let probes := [lit "20|7", lit "21|7", lit "1000|7"]
    (liveRegime cfg h 12000000000 probes).map (fun tg => (sinceOf tg.since (lit "7"), probes.map (probeLive cfg.window tg 12000000000))) =
      some (some 8137000000, [true, true, true]) ∧
    regime cfg h 12000000000 probes = false ∧
    probes.map (isPending (run cfg State.init h) 12000000000) = [(true, false), (true, false), (true, false)] ∧
    probes.map (isPending (run cfg State.init h) 18137000000) = [(true, false), (true, false), (true, false)] ∧
    probes.map (isPending (run cfg State.init h) 18137000001) = [(false, false), (false, false), (false, false)] := by
  decide

/-- what does NOT renew a lockout: an event that leaves the blocking state as it is.  `20|7` accepted at 0.137 s, the OLDER
    check block `10|7` of the same upkeep accepted at 8.137 s (absorbed by the join): the lock runs out one window after
    the first accept. -/
theorem absorbed_accept_does_not_renew :
    let cfg : Cfg := { lockout := 10000000000, minConfs := 0 }
    let h : List (Nat × Op) := [(137000000, .accept (lit "20|7")), (8137000000, .accept (lit "10|7"))]
    (liveRegime cfg h 10137000001 [lit "20|7"]).map (fun tg => sinceOf tg.since (lit "7")) = some (some 137000000) ∧
    isPending (run cfg State.init h) 10137000000 (lit "20|7") = (true, false) ∧
    isPending (run cfg State.init h) 10137000001 (lit "20|7") = (false, false) := by
  decide

/-! ### the Spec predicate holds of the model, for every case the harness can generate -/

/-- inside the regime the model's observation is the one the history prescribes -/
theorem observe_eq_expected (cfg : Cfg) (probes ckeys : List Str) (h : List (Nat × Op)) (now : Nat)
    (hr : regime cfg h now probes = true) : observe cfg probes ckeys h now = expected cfg probes ckeys h := by
  simp only [regime, Bool.and_eq_true, List.all_eq_true] at hr
  obtain ⟨⟨hc, hp⟩, hw⟩ := hr
  obtain ⟨a1, a2⟩ := answers_eq_expected cfg _ now h hw (fun p hp' => hc p hp')
  unfold observe expected
  simp only [Obs.mk.injEq]
  exact ⟨List.map_congr_left (fun key hk => a1 key (hp key hk)), List.map_congr_left (fun key _ => a2 key)⟩

/-- after a pause longer than the lockout the model's observation is the one the history since the pause prescribes -/
theorem observe_lateOk (cfg : Cfg) (probes ckeys : List Str) (h : List (Nat × Op)) (now : Nat) :
    lateOk cfg probes ckeys h now (observe cfg probes ckeys h now) = true := by
  unfold lateOk
  cases hs : lateSplit cfg.window h with
  | none => rfl
  | some pr =>
    obtain ⟨pre, recent⟩ := pr
    simp only
    by_cases hr : lateRegime cfg pre recent now probes = true
    · have happ : pre ++ recent = h := lateSplitFrom_app _ _ _ _ _ hs
      obtain ⟨a1, a2⟩ := late_log_after_expiry cfg pre recent now probes hr
      have : observe cfg probes ckeys h now = expectedLate cfg probes ckeys pre recent := by
        unfold observe expectedLate
        rw [← happ]
        simp only [Obs.mk.injEq]
        exact ⟨List.map_congr_left (fun key hk => a1 key hk), List.map_congr_left (fun key _ => a2 key)⟩
      simp [hr, this]
    · simp [hr]

private theorem expected_perm (cfg : Cfg) (probes ckeys : List Str) (h h' : List (Nat × Op))
    (hp : (h.map (·.2)).Perm (h'.map (·.2)))
    (ha : acceptFirst (h.map (·.2)) = true) (ha' : acceptFirst (h'.map (·.2)) = true) :
    expected cfg probes ckeys h = expected cfg probes ckeys h' := by
  obtain ⟨p1, p2, p3⟩ := ghost_perm cfg hp ha ha'
  unfold expected
  simp only [Obs.mk.injEq]
  exact ⟨List.map_congr_left (fun key _ => expPending_perm p3 key),
    List.map_congr_left (fun key _ => expConfirmed_perm p1 p2 key)⟩

/-- `spec_model`: for every configuration, probe set and list of executions, the C17 predicate evaluated on the
    model's own answers is true — per probe point (lockout, unblocking boundaries, confirmed set) and across
    executions (order independence). -/
theorem spec_model (cfg : Cfg) (probes ckeys : List Str) (runs : List Run) :
    spec cfg probes ckeys runs (runs.map (modelRun cfg probes ckeys)) = true := by
  unfold spec
  rw [Bool.and_eq_true]
  constructor
  · apply zipAll_map_self
    intro r _
    unfold runOk modelRun
    apply zipAll_map_self
    intro p _
    unfold pointOk
    simp only [Bool.and_eq_true]
    refine ⟨⟨?_, observe_lateOk cfg probes ckeys _ _⟩, observe_liveOk cfg probes ckeys _ _⟩
    by_cases hr : regime cfg (r.ops.take p.1) p.2 probes = true
    · simp [hr, observe_eq_expected cfg probes ckeys _ _ hr]
    · simp [hr]
  · cases runs with
    | nil => rfl
    | cons r rs =>
      simp only [List.map_cons, crossOk]
      apply zipAll_map_self
      intro r' _
      unfold pairOk
      by_cases happ : (orderApplies cfg probes r && orderApplies cfg probes r' &&
          (r.ops.map (·.2)).isPerm (r'.ops.map (·.2))) = true
      · simp only [happ, Bool.not_true, Bool.false_or, decide_eq_true_eq]
        simp only [Bool.and_eq_true] at happ
        obtain ⟨⟨h1, h2⟩, h3⟩ := happ
        have hperm := List.isPerm_iff.mp h3
        unfold orderApplies at h1 h2
        cases hf : finalPoint r with
        | none => rw [hf] at h1; simp at h1
        | some now =>
          cases hf' : finalPoint r' with
          | none => rw [hf'] at h2; simp at h2
          | some now' =>
            rw [hf] at h1; rw [hf'] at h2
            simp only [Bool.and_eq_true] at h1 h2
            rw [finalPoint_getLast cfg probes ckeys r hf, finalPoint_getLast cfg probes ckeys r' hf',
              observe_eq_expected cfg probes ckeys _ _ h1.1, observe_eq_expected cfg probes ckeys _ _ h2.1,
              expected_perm cfg probes ckeys _ _ hperm h1.2 h2.2]
      · simp only [Bool.not_eq_true] at happ
        simp [happ]

end AutoVerif.C17
