import AutoVerif.Lemmas.C10
import AutoVerif.Gen.Consts
/-
C10 — Staged results kept until agreed, replaced only by newer checks, never doubled.

Everything is proved for every TTL, every store reachable from the empty store
by an arbitrary history of add / remove / gc / view events with arbitrary clock
readings (monotone where stated), and every order in which `View` / `gc` may
range over the Go map.  No bound on the length of the history, the number of
work ids or the check blocks.

Concurrency: each method of `resultStore` is one critical section under the RW
mutex (extractor fact `resultStore:lock`), so a concurrent execution is some
sequential history of these atomic events — the histories quantified over here.
That step (mutex ⇒ atomicity) is trusted, and supported by the recorded
concurrent runs the driver linearizes against this model.

The model is the code after `fix: result store: an expired, not yet collected entry no
longer blocks a new result` (efb208c): `Add` treats an entry past its TTL like a missing one.
With that, the first clause holds at full strength (`handed_kept`, and `handed` in the Spec):
an add takes effect unless a *live* entry with an equal or higher check block is stored
(`add_stores`, `add_keeps_higher`), a stored result is kept (`kept_until`), and the collector
is invisible: no view changes across a `gc` (`gc_view`) and deleting every `gc` event from a
monotone history changes no view at all (`gc_transparent`).  What remains, by design of
"replace only by newer": a result rejected by a live higher-or-equal entry is not resurrected
when that entry runs out of TTL before the rejected one would have (`handed_residual`).
`gc` is one critical section in the code (lock fact), hence atomic here; a collector split into a
scan and an eviction without re-check would lose fresh results (`gcTwoPhaseOld_loses_fresh`), one
with a re-check would not (`gc_recheck_safe`); the harness races the real collector against Adds.
The pinned tree (`add1Old`) violates the clause and the transparency: `handedStrong_fails_old`,
`gc_not_transparent_old`.
-/
namespace AutoVerif.C10

/-! ### invariants of reachable stores (helpers) -/

/-- the stored add time of a slot is the clock reading of an `add` event of exactly that
result, after the last removal of / higher add for its work id -/
private def J (s : Store) (pre : List Ev) : Prop :=
  ∀ w e, get s w = some e → e.addedAt ∈ candTimes e.data pre

private theorem clean_of_wid_ne {w : String} {b : Nat} {x : Ev}
    (h1 : ∀ t id, x = .remove t id → id ≠ w) (h2 : ∀ t r, x = .add t r → r.workID = w → blk r ≤ b) :
    clean w b x = true := by
  cases x with
  | add t r =>
    simp only [clean, removes, addsHigher, Bool.not_false, Bool.true_and, Bool.not_eq_true',
      Bool.and_eq_false_iff, beq_eq_false_iff_ne, decide_eq_false_iff_not]
    by_cases hw : r.workID = w
    · right; have := h2 t r rfl hw; omega
    · left; exact hw
  | remove t id =>
    have := h1 t id rfl
    simp [clean, removes, addsHigher, this]
  | gc t => rfl
  | view t out => rfl

private theorem J_step {ttl : Nat} {s : Store} {pre : List Ev} (hwf : WF s) (hj : J s pre) (x : Ev) :
    J (step ttl s x) (x :: pre) := by
  intro w e hg
  rw [get_step hwf] at hg
  cases x with
  | add t r =>
    simp only [stepK] at hg
    by_cases hw : r.workID = w
    · rw [if_pos hw] at hg
      cases ho : get s w with
      | none =>
        rw [ho] at hg
        simp only [Option.some.injEq] at hg
        subst hg
        exact candTimes_self r t pre
      | some v =>
        rw [ho] at hg
        simp only at hg
        split at hg
        · simp only [Option.some.injEq] at hg
          subst hg
          exact candTimes_self r t pre
        · split at hg
          · simp only [Option.some.injEq] at hg
            subst hg
            exact candTimes_self r t pre
          · rename_i hlt
            simp only [Option.some.injEq] at hg
            subst hg
            refine candTimes_mono ?_ (hj w v ho)
            apply clean_of_wid_ne
            · intro _ _ h; cases h
            · intro t' r' h _
              cases h
              omega
    · rw [if_neg hw] at hg
      refine candTimes_mono ?_ (hj w e hg)
      have hwid := get_wid hwf hg
      apply clean_of_wid_ne
      · intro _ _ h; cases h
      · intro t' r' h hr
        cases h
        exact absurd (hr.trans hwid) hw
  | remove t id =>
    simp only [stepK] at hg
    by_cases hw : id = w
    · rw [if_pos hw] at hg; cases hg
    · rw [if_neg hw] at hg
      refine candTimes_mono ?_ (hj w e hg)
      have hwid := get_wid hwf hg
      apply clean_of_wid_ne
      · intro t' id' h
        cases h
        rw [hwid]; exact hw
      · intro _ _ h; cases h
  | gc t =>
    simp only [stepK] at hg
    have hg' : get s w = some e := by
      cases ho : get s w with
      | none => rw [ho] at hg; simp at hg
      | some v =>
        rw [ho] at hg
        simp only [Option.filter] at hg
        split at hg
        · exact hg
        · cases hg
    exact candTimes_mono rfl (hj w e hg')
  | view t out =>
    exact candTimes_mono rfl (hj w e hg)

private theorem J_run {ttl : Nat} (evs : List Ev) {s : Store} {pre : List Ev} (hwf : WF s) (hj : J s pre) :
    J (run ttl s evs) (evs.reverse ++ pre) := by
  induction evs generalizing s pre with
  | nil => simpa [run] using hj
  | cons x evs ih =>
    have := ih (WF_step hwf x) (J_step (ttl := ttl) hwf hj x)
    simpa [run, List.reverse_cons, List.append_assoc] using this

private theorem J_nil : J [] [] := by intro w e h; simp [get] at h

/-- the stored slot is one of the excuses `domTimes` lists for any result it dominates -/
private def K (ttl : Nat) (s : Store) (pre : List Ev) : Prop :=
  ∀ w v, get s w = some v → ∀ b ta mx, b ≤ blk v.data → mx ≤ blk v.data → ta - v.addedAt ≤ ttl →
    v.addedAt ∈ domTimes ttl w b ta pre mx

private theorem K_nil (ttl : Nat) : K ttl [] [] := by intro w v h; simp [get] at h

private theorem K_step {ttl : Nat} {s : Store} {pre : List Ev} (hwf : WF s) (hk : K ttl s pre) (x : Ev) :
    K ttl (step ttl s x) (x :: pre) := by
  intro w v hg b ta mx hb hmx hf
  rw [get_step hwf] at hg
  cases x with
  | add t r =>
    simp only [stepK] at hg
    by_cases hw : r.workID = w
    · rw [if_pos hw] at hg
      subst hw
      cases ho : get s r.workID with
      | none =>
        rw [ho] at hg
        simp only [Option.some.injEq] at hg
        subst hg
        exact domTimes_self ttl r b ta mx t pre hmx hb hf
      | some v0 =>
        rw [ho] at hg
        simp only at hg
        split at hg
        · simp only [Option.some.injEq] at hg
          subst hg
          exact domTimes_self ttl r b ta mx t pre hmx hb hf
        · split at hg
          · simp only [Option.some.injEq] at hg
            subst hg
            exact domTimes_self ttl r b ta mx t pre hmx hb hf
          · simp only [Option.some.injEq] at hg
            subst hg
            apply domTimes_add_same rfl
            exact hk r.workID v0 ho b ta _ hb (by omega) hf
    · rw [if_neg hw] at hg
      rw [domTimes_add_other hw]
      exact hk w v hg b ta mx hb hmx hf
  | remove t id =>
    simp only [stepK] at hg
    by_cases hw : id = w
    · rw [if_pos hw] at hg; cases hg
    · rw [if_neg hw] at hg
      rw [domTimes_remove_other hw]
      exact hk w v hg b ta mx hb hmx hf
  | gc t =>
    simp only [stepK] at hg
    have hg' : get s w = some v := (Option.filter_eq_some_iff.mp hg).1
    simpa [domTimes] using hk w v hg' b ta mx hb hmx hf
  | view t out =>
    simpa [domTimes] using hk w v hg b ta mx hb hmx hf

private theorem wf_reach (ttl : Nat) (evs : List Ev) : WF (run ttl [] evs) := WF_run evs WF_nil

/-! ### (1) a view never holds two results for one work id -/

/-- whatever order `View` ranges over the map in, after any history -/
theorem view_no_dup (ttl : Nat) (evs : List Ev) (t : Nat) (out : List CheckResult)
    (h : ViewOf ttl t (run ttl [] evs) out) : (out.map (·.workID)).Nodup :=
  ((List.Perm.map _ h).nodup_iff).mpr (view_wids_nodup (wf_reach ttl evs))

/-! ### (2) a view never holds a removed or an expired result -/

private theorem stepK_none_stays {ttl : Nat} {w : String} {x : Ev}
    (h : ∀ t r, x = .add t r → r.workID ≠ w) : stepK ttl w none x = none := by
  cases x with
  | add t r => simp [stepK, h t r rfl]
  | remove t id => simp [stepK]
  | gc t => simp [stepK]
  | view t out => rfl

private theorem absent_stays {ttl : Nat} {w : String} (mid : List Ev) {s : Store} (hwf : WF s)
    (hs : get s w = none) (hmid : ∀ x ∈ mid, ∀ t r, x = .add t r → r.workID ≠ w) :
    get (run ttl s mid) w = none := by
  induction mid generalizing s with
  | nil => exact hs
  | cons x mid ih =>
    refine ih (WF_step hwf x) ?_ (fun y hy => hmid y (List.mem_cons_of_mem _ hy))
    rw [get_step hwf, hs]
    exact stepK_none_stays (hmid x List.mem_cons_self)

/-- after `Remove(id)`, no view holds a result for `id` until `id` is added again —
at any time, through any number of other adds, removals, collections -/
theorem view_excludes_removed (ttl : Nat) (evs mid : List Ev) (tr : Nat) (id : String)
    (hmid : ∀ x ∈ mid, ∀ t r, x = .add t r → r.workID ≠ id)
    (t : Nat) (out : List CheckResult)
    (h : ViewOf ttl t (run ttl [] (evs ++ .remove tr id :: mid)) out) :
    ∀ r ∈ out, r.workID ≠ id := by
  intro r hr hid
  have hwf := wf_reach ttl (evs ++ .remove tr id :: mid)
  obtain ⟨e, hg, _, _⟩ := (mem_view hwf r).mp ((List.Perm.mem_iff h).mp hr)
  rw [run_append] at hg
  have h0 : WF (run ttl [] evs) := wf_reach ttl evs
  have h1 : get (step ttl (run ttl [] evs) (.remove tr id)) id = none := by
    rw [get_step h0]; simp [stepK]
  have := absent_stays (ttl := ttl) mid (WF_step h0 _) h1 hmid
  simp only [run, List.foldl_cons] at hg this
  rw [hid, this] at hg
  cases hg

/-- every viewed result is stored, is not older than the TTL (`time.Since(addedAt) > ttl` is
false), and its add time is the clock reading of an `add` event of exactly this result that
is not followed by a removal of its work id or an add with a strictly higher check block -/
theorem view_excludes_expired (ttl : Nat) (evs : List Ev) (t : Nat) (out : List CheckResult)
    (h : ViewOf ttl t (run ttl [] evs) out) :
    ∀ r ∈ out, ∃ e, get (run ttl [] evs) r.workID = some e ∧ e.data = r ∧
      t - e.addedAt ≤ ttl ∧ e.addedAt ∈ candTimes r evs.reverse := by
  intro r hr
  obtain ⟨e, hg, he, hx⟩ := (mem_view (wf_reach ttl evs) r).mp ((List.Perm.mem_iff h).mp hr)
  refine ⟨e, hg, he, (expired_false_iff ttl t e).mp hx, ?_⟩
  have := J_run (ttl := ttl) evs WF_nil J_nil r.workID e hg
  simpa [he] using this

/-- conversely an entry past its TTL is in no view, collected or not -/
theorem expired_not_viewed (ttl : Nat) (evs : List Ev) (e : Entry)
    (hg : get (run ttl [] evs) e.data.workID = some e) (t : Nat) (ht : t - e.addedAt > ttl)
    (out : List CheckResult) (h : ViewOf ttl t (run ttl [] evs) out) :
    ∀ r ∈ out, r.workID ≠ e.data.workID := by
  intro r hr hw
  obtain ⟨e', hg', _, hx⟩ := (mem_view (wf_reach ttl evs) r).mp ((List.Perm.mem_iff h).mp hr)
  rw [hw, hg] at hg'
  cases hg'
  have := (expired_false_iff ttl t e).mp hx
  omega

/-! ### (3) which adds take effect -/

/-- a lower or equal check block never overwrites a live stored result: the store is left exactly
as it was (result, add time and every other slot) -/
theorem add_keeps_higher (ttl : Nat) (s : Store) (t : Nat) (r : CheckResult) (v : Entry)
    (hv : get s r.workID = some v) (hlive : t - v.addedAt ≤ ttl) (hle : blk r ≤ blk v.data) :
    add1 ttl t s r = s := by
  have hx : expired ttl t v = false := (expired_false_iff ttl t v).mpr hlive
  have hnl : ¬ blk v.data < blk r := by omega
  simp [add1, hv, hx, hnl]

/-- an add takes effect iff nothing is stored for the work id, the stored entry is past its TTL
(collected or not), or the stored check block is strictly lower -/
theorem add_stores (ttl : Nat) (s : Store) (t : Nat) (r : CheckResult)
    (h : get s r.workID = none ∨
         ∃ v, get s r.workID = some v ∧ (t - v.addedAt > ttl ∨ blk v.data < blk r)) :
    get (add1 ttl t s r) r.workID = some ⟨r, t⟩ := by
  rw [get_add1]
  rcases h with h | ⟨v, hv, hdead | hlt⟩
  · simp [stepK, h]
  · simp [stepK, hv, (expired_true_iff ttl t v).mpr hdead]
  · by_cases hx : expired ttl t v = true <;> simp [stepK, hv, hx, hlt]

/-- after any add the slot holds the new result, or an untouched *live* entry with a check block
at least as high -/
theorem add_stored_or_dominated (ttl : Nat) (s : Store) (t : Nat) (r : CheckResult) :
    get (add1 ttl t s r) r.workID = some ⟨r, t⟩ ∨
    ∃ v, get s r.workID = some v ∧ t - v.addedAt ≤ ttl ∧ blk r ≤ blk v.data ∧ add1 ttl t s r = s := by
  cases hg : get s r.workID with
  | none => exact Or.inl (add_stores ttl s t r (Or.inl hg))
  | some v =>
    by_cases hdead : t - v.addedAt > ttl
    · exact Or.inl (add_stores ttl s t r (Or.inr ⟨v, hg, Or.inl hdead⟩))
    · by_cases hlt : blk v.data < blk r
      · exact Or.inl (add_stores ttl s t r (Or.inr ⟨v, hg, Or.inr hlt⟩))
      · exact Or.inr ⟨v, rfl, by omega, by omega, add_keeps_higher ttl s t r v hg (by omega) (by omega)⟩

/-- an add touches no other work id -/
theorem add_other_untouched (ttl : Nat) (s : Store) (t : Nat) (r : CheckResult) (w : String)
    (hw : r.workID ≠ w) : get (add1 ttl t s r) w = get s w := by
  rw [get_add1]; simp [stepK, hw]

/-! ### (4) a stored result stays in every view until removed / TTL / strictly higher block -/

private theorem stepK_keep {ttl : Nat} {w : String} {b : Nat} {e : Entry} {x : Ev} (hb : b ≤ blk e.data)
    (hc : clean w b x = true) (hf : x.now - e.addedAt ≤ ttl) :
    stepK ttl w (some e) x = some e := by
  cases x with
  | add t r =>
    have hx : expired ttl t e = false := (expired_false_iff ttl t e).mpr hf
    simp only [stepK]
    by_cases hw : r.workID = w
    · rw [if_pos hw]
      simp only [clean, removes, addsHigher, hw, beq_self_eq_true, Bool.true_and, Bool.not_false,
        Bool.not_eq_true', decide_eq_false_iff_not] at hc
      have hnl : ¬ blk e.data < blk r := by omega
      simp [hx, hnl]
    · rw [if_neg hw]
  | remove t id =>
    simp only [clean, removes, addsHigher, Bool.not_false, Bool.and_true, Bool.not_eq_true',
      beq_eq_false_iff_ne] at hc
    simp [stepK, hc]
  | gc t =>
    have : expired ttl t e = false := (expired_false_iff ttl t e).mpr hf
    simp [stepK, Option.filter, this]
  | view t out => rfl

private theorem stored_stays {ttl : Nat} {e : Entry} {t : Nat} (mid : List Ev) {s : Store} (hwf : WF s)
    (hs : get s e.data.workID = some e)
    (hclean : ∀ x ∈ mid, clean e.data.workID (blk e.data) x = true)
    (hmono : ∀ x ∈ mid, x.now ≤ t) (hfresh : t - e.addedAt ≤ ttl) :
    get (run ttl s mid) e.data.workID = some e := by
  induction mid generalizing s with
  | nil => exact hs
  | cons x mid ih =>
    refine ih (WF_step hwf x) ?_ (fun y hy => hclean y (List.mem_cons_of_mem _ hy))
      (fun y hy => hmono y (List.mem_cons_of_mem _ hy))
    rw [get_step hwf, hs]
    have := hmono x List.mem_cons_self
    exact stepK_keep (Nat.le_refl _) (hclean x List.mem_cons_self) (by omega)

/-- a stored result `e.data` (slot `e` after the history `evs`) is returned by every later view
— in whatever order the map is ranged over — as long as no event in between removes its work id
or adds a strictly higher check block for it (`clean`), and it is not older than the TTL.
`mid` may hold any number of lower-or-equal adds for the same work id, adds/removals of other
work ids, collections and views. -/
theorem kept_until (ttl : Nat) (evs mid : List Ev) (e : Entry)
    (hst : get (run ttl [] evs) e.data.workID = some e)
    (hclean : ∀ x ∈ mid, clean e.data.workID (blk e.data) x = true)
    (t : Nat) (hmono : ∀ x ∈ mid, x.now ≤ t) (hfresh : t - e.addedAt ≤ ttl)
    (out : List CheckResult) (h : ViewOf ttl t (run ttl [] (evs ++ mid)) out) : e.data ∈ out := by
  apply (List.Perm.mem_iff h).mpr
  apply (mem_view (wf_reach ttl _) e.data).mpr
  refine ⟨e, ?_, rfl, (expired_false_iff ttl t e).mpr hfresh⟩
  rw [run_append]
  exact stored_stays mid (wf_reach ttl evs) hst hclean hmono hfresh

private theorem clean_weaken {w : String} {b b' : Nat} {x : Ev} (hb : b ≤ b') (h : clean w b x = true) :
    clean w b' x = true := by
  cases x with
  | add t r =>
    simp only [clean, removes, addsHigher, Bool.not_false, Bool.true_and, Bool.not_eq_true',
      Bool.and_eq_false_iff, beq_eq_false_iff_ne, decide_eq_false_iff_not] at h ⊢
    rcases h with h | h
    · exact Or.inl h
    · exact Or.inr (by omega)
  | remove t id => simpa [clean, removes, addsHigher] using h
  | gc t => rfl
  | view t out => rfl

/-- the first clause of C10 at full strength: an eligible result `r` handed to the store at `ta`
is returned by every later view — in whatever order the map is ranged over — until its work id
is removed, a strictly higher check block is added for it (`clean`), or it outlives the TTL
(`hfresh`); the only exception is that `r` was dominated: at `ta` a *live* entry `v` (not past its
TTL) with an equal or higher check block was stored, the store was left unchanged, and then `v`
itself is returned by the view unless `v` has outlived its own TTL by then.

What remains outside the clause is exactly that last case (`handed_residual`): a result rejected
by a live higher-or-equal entry is not resurrected when that entry expires before the rejected
result would have. -/
theorem handed_kept (ttl : Nat) (evs mid : List Ev) (ta : Nat) (r : CheckResult)
    (hclean : ∀ x ∈ mid, clean r.workID (blk r) x = true)
    (t : Nat) (hmono : ∀ x ∈ mid, x.now ≤ t) (hfresh : t - ta ≤ ttl)
    (out : List CheckResult) (h : ViewOf ttl t (run ttl [] (evs ++ .add ta r :: mid)) out) :
    r ∈ out ∨
    ∃ v, get (run ttl [] evs) r.workID = some v ∧ ta - v.addedAt ≤ ttl ∧ blk r ≤ blk v.data ∧
      (v.data ∈ out ∨ t - v.addedAt > ttl) := by
  have h' : ViewOf ttl t (run ttl [] ((evs ++ [.add ta r]) ++ mid)) out := by
    simpa [List.append_assoc] using h
  have hrun : run ttl [] (evs ++ [.add ta r]) = add1 ttl ta (run ttl [] evs) r := by
    rw [run_append]; rfl
  rcases add_stored_or_dominated ttl (run ttl [] evs) ta r with hst | ⟨v, hv, hlive, hle, hsame⟩
  · left
    have hst' : get (run ttl [] (evs ++ [.add ta r])) r.workID = some ⟨r, ta⟩ := by rw [hrun]; exact hst
    exact kept_until ttl (evs ++ [.add ta r]) mid ⟨r, ta⟩ hst' hclean t hmono hfresh out h'
  · right
    refine ⟨v, hv, hlive, hle, ?_⟩
    by_cases hdead : t - v.addedAt > ttl
    · exact Or.inr hdead
    · left
      have hwid : v.data.workID = r.workID := get_wid (wf_reach ttl evs) hv
      have hst' : get (run ttl [] (evs ++ [.add ta r])) v.data.workID = some v := by
        rw [hrun, hsame, hwid]; exact hv
      refine kept_until ttl (evs ++ [.add ta r]) mid v hst' ?_ t hmono (by omega) out h'
      intro x hx
      rw [hwid]
      exact clean_weaken hle (hclean x hx)

/-! ### (5) garbage collection -/

/-- no view taken at or after a collection differs from the view the uncollected store gives -/
theorem gc_view (ttl now t : Nat) (hle : now ≤ t) (s : Store) :
    view ttl t (gc ttl now s) = view ttl t s := by
  simp only [view, gc, List.filter_filter]
  congr 1
  apply List.filter_congr
  intro p _
  have himp : expired ttl now p.2 = true → expired ttl t p.2 = true := by
    intro h
    rw [expired_true_iff] at *
    omega
  cases h1 : expired ttl t p.2 <;> cases h2 : expired ttl now p.2 <;> simp_all

/-- a collection only drops entries past their TTL; every other slot is untouched -/
theorem gc_get (ttl now : Nat) (evs : List Ev) (w : String) :
    get (gc ttl now (run ttl [] evs)) w = (get (run ttl [] evs) w).filter (fun e => !expired ttl now e) :=
  get_filter (fun e => !expired ttl now e) (wf_reach ttl evs).1 w

private theorem gcOrd_eq_filter (ttl now : Nat) (ord : List String) (s : Store) (hnd : (keys s).Nodup) :
    gcOrd ttl now s ord = s.filter (fun p => !(ord.contains p.1 && expired ttl now p.2)) := by
  induction ord generalizing s with
  | nil =>
    simp only [gcOrd, List.foldl_nil, List.contains_nil, Bool.false_and, Bool.not_false]
    exact (List.filter_eq_self.mpr (fun _ _ => rfl)).symm
  | cons k ord ih =>
    have hs1 : (match get s k with
        | some v => if expired ttl now v then erase s k else s
        | none => s) = s.filter (fun p => !(p.1 == k && expired ttl now p.2)) := by
      cases hg : get s k with
      | none =>
        symm
        apply List.filter_eq_self.mpr
        intro p hp
        have : p.1 ≠ k := by
          intro hk
          have := get_of_mem hnd (show (k, p.2) ∈ s by rw [← hk]; exact hp)
          rw [hg] at this; cases this
        simp [this]
      | some v =>
        simp only
        have hval : ∀ p ∈ s, p.1 = k → p.2 = v := by
          intro p hp hk
          have := get_of_mem hnd (show (k, p.2) ∈ s by rw [← hk]; exact hp)
          rw [hg] at this
          exact (Option.some.inj this).symm
        split
        · rename_i hx
          simp only [erase]
          apply List.filter_congr
          intro p hp
          by_cases hk : p.1 = k
          · simp [hk, hval p hp hk, hx]
          · simp [hk]
        · rename_i hx
          symm
          apply List.filter_eq_self.mpr
          intro p hp
          by_cases hk : p.1 = k
          · simp [hk, hval p hp hk, hx]
          · simp [hk]
    have hstep : gcOrd ttl now s (k :: ord) =
        gcOrd ttl now (s.filter (fun p => !(p.1 == k && expired ttl now p.2))) ord := by
      simp only [gcOrd, List.foldl_cons]
      exact congrArg (fun s0 => List.foldl _ s0 ord) hs1
    rw [hstep, ih _ (List.Nodup.sublist (List.Sublist.map _ List.filter_sublist) hnd), List.filter_filter]
    apply List.filter_congr
    intro p _
    simp only [List.contains_cons]
    cases (p.1 == k) <;> cases (ord.contains p.1) <;> cases (expired ttl now p.2) <;> rfl

/-- the order in which `gc` ranges over the map is irrelevant: any visiting order that reaches
every key (repeats allowed) leaves exactly the unexpired entries -/
theorem gcOrd_eq_gc (ttl now : Nat) (evs : List Ev) (ord : List String)
    (hall : ∀ k ∈ keys (run ttl [] evs), k ∈ ord) :
    gcOrd ttl now (run ttl [] evs) ord = gc ttl now (run ttl [] evs) := by
  rw [gcOrd_eq_filter ttl now ord _ (wf_reach ttl evs).1, gc]
  apply List.filter_congr
  intro p hp
  have : p.1 ∈ ord := hall p.1 (List.mem_map.mpr ⟨p, hp, rfl⟩)
  simp [this]

/-- a collector that gathers keys first and evicts later is harmless as long as the eviction
re-checks expiry under the write lock (`gcOrd` visits any, possibly stale, key list `ks`):
no view taken at or after it changes -/
theorem gc_recheck_safe (ttl now t : Nat) (hle : now ≤ t) (evs : List Ev) (ks : List String) :
    view ttl t (gcOrd ttl now (run ttl [] evs) ks) = view ttl t (run ttl [] evs) := by
  rw [gcOrd_eq_filter ttl now ks _ (wf_reach ttl evs).1]
  simp only [view, List.filter_filter]
  congr 1
  apply List.filter_congr
  intro p _
  have himp : expired ttl now p.2 = true → expired ttl t p.2 = true := by
    intro h
    rw [expired_true_iff] at *
    omega
  cases h1 : expired ttl t p.2 <;> cases h2 : expired ttl now p.2 <;> cases h3 : ks.contains p.1 <;> simp_all

private theorem foldl_erase (ks : List String) (s : Store) :
    ks.foldl erase s = s.filter (fun p => !ks.contains p.1) := by
  induction ks generalizing s with
  | nil =>
    simp only [List.foldl_nil, List.contains_nil, Bool.not_false]
    exact (List.filter_eq_self.mpr (fun _ _ => rfl)).symm
  | cons k ks ih =>
    simp only [List.foldl_cons, ih, erase, List.filter_filter]
    apply List.filter_congr
    intro p _
    simp only [List.contains_cons]
    by_cases hk : p.1 = k <;> simp [hk]

/-- scan and eviction in ONE critical section (nothing in between) are exactly `gc` — the code as
it is, by the lock fact -/
theorem gc_scan_evict_atomic (ttl now : Nat) (evs : List Ev) :
    gcEvictOld (run ttl [] evs) (gcScan ttl now (run ttl [] evs)) = gc ttl now (run ttl [] evs) := by
  have hwf := wf_reach ttl evs
  rw [gcEvictOld, foldl_erase, gc]
  apply List.filter_congr
  intro p hp
  congr 1
  by_cases hx : expired ttl now p.2 = true
  · have : p.1 ∈ gcScan ttl now (run ttl [] evs) :=
      List.mem_map.mpr ⟨p, List.mem_filter.mpr ⟨hp, hx⟩, rfl⟩
    simp [hx, this]
  · have : p.1 ∉ gcScan ttl now (run ttl [] evs) := by
      intro hm
      obtain ⟨q, hq, hqk⟩ := List.mem_map.mp hm
      obtain ⟨hqs, hqx⟩ := List.mem_filter.mp hq
      have h1 := get_of_mem hwf.1 (show (p.1, q.2) ∈ run ttl [] evs by rw [← hqk]; exact hqs)
      have h2 := get_of_mem hwf.1 (show (p.1, p.2) ∈ run ttl [] evs from hp)
      rw [h1] at h2
      have : q.2 = p.2 := Option.some.inj h2
      rw [this] at hqx
      exact hx hqx
    simp [hx, this]

private theorem strip_aux (ttl : Nat) :
    ∀ (evs : List Ev) (s s' : Store) (lo : Nat), WF s → WF s' →
      (∀ w, liveO ttl lo (get s w) = liveO ttl lo (get s' w)) → (∀ x ∈ evs, lo ≤ x.now) → Mono evs →
      ∀ t, lo ≤ t → (∀ x ∈ evs, x.now ≤ t) →
      ∀ w, liveO ttl t (get (run ttl s evs) w) = liveO ttl t (get (run ttl s' (stripGc evs)) w) := by
  intro evs
  induction evs with
  | nil =>
    intro s s' lo _ _ heq _ _ t hlt _ w
    have := congrArg (liveO ttl t) (heq w)
    simpa [run, stripGc, liveO_liveO hlt] using this
  | cons x evs ih =>
    intro s s' lo hwf hwf' heq hlo hmono t hlt hle w
    have hlx : lo ≤ x.now := hlo x List.mem_cons_self
    have hmono' : Mono evs := by
      simp only [Mono, List.map_cons, List.pairwise_cons] at hmono; exact hmono.2
    have hlo' : ∀ y ∈ evs, x.now ≤ y.now := by
      simp only [Mono, List.map_cons, List.pairwise_cons] at hmono
      intro y hy
      exact hmono.1 y.now (List.mem_map.mpr ⟨y, hy, rfl⟩)
    have hxt : x.now ≤ t := hle x List.mem_cons_self
    have hle' : ∀ y ∈ evs, y.now ≤ t := fun y hy => hle y (List.mem_cons_of_mem _ hy)
    have heqx : ∀ w, liveO ttl x.now (get s w) = liveO ttl x.now (get s' w) := by
      intro w
      have := congrArg (liveO ttl x.now) (heq w)
      simpa [liveO_liveO hlx] using this
    by_cases hgc : ∃ tg, x = .gc tg
    · obtain ⟨tg, rfl⟩ := hgc
      have hstrip : stripGc (.gc tg :: evs) = stripGc evs := by simp [stripGc]
      rw [hstrip]
      have hrun : run ttl s (.gc tg :: evs) = run ttl (step ttl s (.gc tg)) evs := rfl
      rw [hrun]
      refine ih (step ttl s (.gc tg)) s' tg (WF_step hwf _) hwf' ?_ hlo' hmono' t hxt hle' w
      intro w
      rw [get_step hwf, liveO_gc]
      exact heqx w
    · have hstrip : stripGc (x :: evs) = x :: stripGc evs := by
        cases x with
        | gc tg => exact absurd ⟨tg, rfl⟩ hgc
        | add _ _ => simp [stripGc]
        | remove _ _ => simp [stripGc]
        | view _ _ => simp [stripGc]
      rw [hstrip]
      have hrun : run ttl s (x :: evs) = run ttl (step ttl s x) evs := rfl
      have hrun' : run ttl s' (x :: stripGc evs) = run ttl (step ttl s' x) (stripGc evs) := rfl
      rw [hrun, hrun']
      refine ih (step ttl s x) (step ttl s' x) x.now (WF_step hwf _) (WF_step hwf' _) ?_ hlo' hmono' t hxt hle' w
      intro w
      rw [get_step hwf, get_step hwf', liveO_stepK ttl w (get s w), liveO_stepK ttl w (get s' w), heqx w]

/-- the collector is invisible: deleting every `gc` event from a history with a non-decreasing
clock changes no view taken at or after its last event — also across later adds (this is what
the pinned tree did not have, `gc_not_transparent_old`).  Two histories that differ only in
their `gc` events therefore give the same views. -/
theorem gc_transparent (ttl : Nat) (evs : List Ev) (hmono : Mono evs) (t : Nat) (ht : ∀ x ∈ evs, x.now ≤ t) :
    (view ttl t (run ttl [] evs)).Perm (view ttl t (run ttl [] (stripGc evs))) := by
  have hwf := wf_reach ttl evs
  have hwf' := wf_reach ttl (stripGc evs)
  have hk := strip_aux ttl evs [] [] 0 WF_nil WF_nil (fun _ => rfl) (fun _ _ => Nat.zero_le _) hmono t
    (Nat.zero_le _) ht
  apply (List.perm_ext_iff_of_nodup (nodup_of_map _ (view_wids_nodup hwf))
    (nodup_of_map _ (view_wids_nodup hwf'))).mpr
  intro r
  rw [mem_view_live hwf, mem_view_live hwf', hk r.workID]

/-- with the constants of the code as it is now: once `gcInterval` has passed since an entry
outlived `storeTTL`, a tick of the collector goroutine (`start + k·gcInterval`) has removed it —
the window in which a dead entry can still reject adds is at most `gcInterval` -/
theorem dead_entry_collected_within_interval (start : Nat) (evs : List Ev) (e : Entry)
    (hg : get (run Gen.storeTTLNs [] evs) e.data.workID = some e)
    (hstart : start ≤ e.addedAt + Gen.storeTTLNs)
    (t : Nat) (ht : e.addedAt + Gen.storeTTLNs + Gen.gcIntervalNs ≤ t) :
    ∃ k, 1 ≤ k ∧ start + k * Gen.gcIntervalNs ≤ t ∧
      get (gc Gen.storeTTLNs (start + k * Gen.gcIntervalNs) (run Gen.storeTTLNs [] evs)) e.data.workID = none := by
  have hdm := Nat.div_add_mod (e.addedAt + Gen.storeTTLNs - start) Gen.gcIntervalNs
  have hml := Nat.mod_lt (e.addedAt + Gen.storeTTLNs - start) (show 0 < Gen.gcIntervalNs by decide)
  generalize (e.addedAt + Gen.storeTTLNs - start) / Gen.gcIntervalNs = q at *
  refine ⟨q + 1, by omega, ?_, ?_⟩
  · rw [Nat.add_mul, Nat.mul_comm q]
    omega
  · rw [gc_get, hg]
    have : expired Gen.storeTTLNs (start + (q + 1) * Gen.gcIntervalNs) e = true := by
      rw [expired_true_iff, Nat.add_mul, Nat.mul_comm q]
      omega
    simp [Option.filter, this]

/-! ### (6) the decidable predicate holds of every history the model allows -/

private theorem kept_aux (ttl : Nat) (e : Entry) (cands : List Nat) (hc : e.addedAt ∈ cands) :
    ∀ (rest : List Ev) (s : Store) (lo : Nat), WF s → Conforms ttl s rest → Mono rest →
      (∀ x ∈ rest, lo ≤ x.now) →
      (get s e.data.workID = some e ∨ lo - e.addedAt > ttl) →
      keptFwd ttl e.data cands rest = true := by
  intro rest
  induction rest with
  | nil => intros; rfl
  | cons x rest ih =>
    intro s lo hwf hconf hmono hlo hst
    simp only [keptFwd]
    split
    next hcl =>
      have hlx : lo ≤ x.now := hlo x List.mem_cons_self
      have hmono' : Mono rest := by
        simp only [Mono, List.map_cons, List.pairwise_cons] at hmono; exact hmono.2
      have hlo' : ∀ y ∈ rest, x.now ≤ y.now := by
        simp only [Mono, List.map_cons, List.pairwise_cons] at hmono
        intro y hy
        exact hmono.1 y.now (List.mem_map.mpr ⟨y, hy, rfl⟩)
      have hst' : get (step ttl s x) e.data.workID = some e ∨ x.now - e.addedAt > ttl := by
        rcases hst with hst | hst
        · by_cases hf : x.now - e.addedAt ≤ ttl
          · left
            rw [get_step hwf, hst]
            exact stepK_keep (Nat.le_refl _) hcl hf
          · right; omega
        · right; omega
      have hrec := ih (step ttl s x) x.now (WF_step hwf x) hconf.2 hmono' hlo' hst'
      rw [hrec, Bool.and_true]
      cases x with
      | view t out =>
        simp only [Bool.or_eq_true, Bool.not_eq_true']
        by_cases hall : cands.all (fresh ttl t) = true
        · right
          have hf : t - e.addedAt ≤ ttl := (fresh_iff ttl t e.addedAt).mp (List.all_eq_true.mp hall _ hc)
          rcases hst with hst | hst
          · have hv : e.data ∈ view ttl t s :=
              (mem_view hwf e.data).mpr ⟨e, hst, rfl, (expired_false_iff ttl t e).mpr hf⟩
            have hperm : out.Perm (view ttl t s) := hconf.1
            simpa using (List.Perm.mem_iff hperm).mpr hv
          · simp only [Ev.now] at hlx; omega
        · left; simpa using hall
      | add t r => rfl
      | remove t id => rfl
      | gc t => rfl
    next => rfl

private theorem handed_aux (ttl : Nat) (r : CheckResult) (ta : Nat) (doms : List Nat) :
    ∀ (rest : List Ev) (s : Store) (lo : Nat), WF s → Conforms ttl s rest → Mono rest →
      (∀ x ∈ rest, lo ≤ x.now) →
      ((∃ e, get s r.workID = some e ∧ blk r ≤ blk e.data ∧ e.addedAt ∈ ta :: doms) ∨
       (∃ a ∈ ta :: doms, lo - a > ttl)) →
      handedFwd ttl r ta doms rest = true := by
  intro rest
  induction rest with
  | nil => intros; rfl
  | cons x rest ih =>
    intro s lo hwf hconf hmono hlo hst
    simp only [handedFwd]
    split
    next hcl =>
      have hlx : lo ≤ x.now := hlo x List.mem_cons_self
      have hmono' : Mono rest := by
        simp only [Mono, List.map_cons, List.pairwise_cons] at hmono; exact hmono.2
      have hlo' : ∀ y ∈ rest, x.now ≤ y.now := by
        simp only [Mono, List.map_cons, List.pairwise_cons] at hmono
        intro y hy
        exact hmono.1 y.now (List.mem_map.mpr ⟨y, hy, rfl⟩)
      have hst' : (∃ e, get (step ttl s x) r.workID = some e ∧ blk r ≤ blk e.data ∧ e.addedAt ∈ ta :: doms) ∨
          (∃ a ∈ ta :: doms, x.now - a > ttl) := by
        rcases hst with ⟨e, hg, hb, ha⟩ | ⟨a, ha, hd⟩
        · by_cases hf : x.now - e.addedAt ≤ ttl
          · left
            refine ⟨e, ?_, hb, ha⟩
            rw [get_step hwf, hg]
            exact stepK_keep hb hcl hf
          · right; exact ⟨e.addedAt, ha, by omega⟩
        · right; exact ⟨a, ha, by omega⟩
      have hrec := ih (step ttl s x) x.now (WF_step hwf x) hconf.2 hmono' hlo' hst'
      rw [hrec, Bool.and_true]
      cases x with
      | view t out =>
        simp only [Ev.now] at hlx
        simp only [Bool.or_eq_true, List.any_eq_true, Bool.and_eq_true, beq_iff_eq, decide_eq_true_eq,
          Bool.not_eq_true', fresh, decide_eq_false_iff_not]
        rcases hst with ⟨e, hg, hb, ha⟩ | ⟨a, ha, hd⟩
        · by_cases hf : t - e.addedAt ≤ ttl
          · left
            have hwid : e.data.workID = r.workID := get_wid hwf hg
            have hv : e.data ∈ view ttl t s :=
              (mem_view hwf e.data).mpr ⟨e, by rw [hwid]; exact hg, rfl, (expired_false_iff ttl t e).mpr hf⟩
            have hperm : out.Perm (view ttl t s) := hconf.1
            exact ⟨e.data, (List.Perm.mem_iff hperm).mpr hv, hwid, hb⟩
          · right; exact ⟨e.addedAt, ha, hf⟩
        · right; exact ⟨a, ha, by omega⟩
      | add t r' => rfl
      | remove t id => rfl
      | gc t => rfl
    next => rfl

private theorem specGo_ok (ttl : Nat) :
    ∀ (rest : List Ev) (s : Store) (pre : List Ev), WF s → J s pre → K ttl s pre → Conforms ttl s rest →
      Mono rest → specGo ttl pre rest = true := by
  intro rest
  induction rest with
  | nil => intros; rfl
  | cons x rest ih =>
    intro s pre hwf hj hk hconf hmono
    have hmono' : Mono rest := by
      simp only [Mono, List.map_cons, List.pairwise_cons] at hmono; exact hmono.2
    have hrec := ih (step ttl s x) (x :: pre) (WF_step hwf x) (J_step hwf hj x) (K_step hwf hk x) hconf.2 hmono'
    simp only [specGo, hrec, Bool.and_true]
    cases x with
    | view t out =>
      have hperm : out.Perm (view ttl t s) := hconf.1
      have hmem : ∀ r ∈ out, ∃ e, get s r.workID = some e ∧ e.data = r ∧ expired ttl t e = false :=
        fun r hr => (mem_view hwf r).mp ((List.Perm.mem_iff hperm).mp hr)
      simp only [viewOk, Bool.and_eq_true]
      refine ⟨⟨?_, ?_⟩, ?_⟩
      · simp only [viewNodup, decide_eq_true_eq]
        exact ((List.Perm.map _ hperm).nodup_iff).mpr (view_wids_nodup hwf)
      · simp only [viewSound, List.all_eq_true, List.any_eq_true]
        intro r hr
        obtain ⟨e, hg, he, hx⟩ := hmem r hr
        refine ⟨e.addedAt, ?_, (fresh_iff ttl t e.addedAt).mpr ((expired_false_iff ttl t e).mp hx)⟩
        have := hj r.workID e hg
        rwa [he] at this
      · simp only [List.all_eq_true]
        intro r hr
        obtain ⟨e, hg, he, _⟩ := hmem r hr
        have hc : e.addedAt ∈ candTimes r pre := by
          have := hj r.workID e hg
          rwa [he] at this
        have := kept_aux ttl e (candTimes r pre) hc rest s 0 hwf hconf.2 hmono' (fun _ _ => Nat.zero_le _)
          (Or.inl (by rw [he]; exact hg))
        rwa [he] at this
    | add t r =>
      simp only [addOk]
      refine handed_aux ttl r t _ rest (step ttl s (.add t r)) 0 (WF_step hwf _) hconf.2 hmono'
        (fun _ _ => Nat.zero_le _) (Or.inl ?_)
      have hstep : step ttl s (.add t r) = add1 ttl t s r := rfl
      rw [hstep]
      rcases add_stored_or_dominated ttl s t r with hst | ⟨v, hv, hlive, hle, hsame⟩
      · exact ⟨⟨r, t⟩, hst, Nat.le_refl _, List.mem_cons_self⟩
      · rw [hsame]
        exact ⟨v, hv, hle, List.mem_cons_of_mem _ (hk r.workID v hv (blk r) t 0 hle (Nat.zero_le _) hlive)⟩
    | remove t id => rfl
    | gc t => rfl

/-- C10 as one statement: the predicate the run-time oracle evaluates on the implementation's
views holds of every history whose views are ones the model allows, for every TTL, length,
number of work ids, check-block order and clock (non-decreasing) -/
theorem conforms_spec (ttl : Nat) (evs : List Ev) (hmono : Mono evs) (hconf : Conforms ttl [] evs) :
    spec ttl evs = true :=
  specGo_ok ttl evs [] [] WF_nil J_nil (K_nil ttl) hconf hmono

/-- the executable comparison of the driver implies `Conforms` -/
theorem conformsB_sound (ttl : Nat) (evs : List Ev) (s : Store) (h : conformsB ttl s evs = true) :
    Conforms ttl s evs := by
  induction evs generalizing s with
  | nil => trivial
  | cons x evs ih =>
    simp only [conformsB, Bool.and_eq_true] at h
    refine ⟨?_, ih _ h.2⟩
    cases x with
    | view t out => exact List.isPerm_iff.mp h.1
    | add t r => trivial
    | remove t id => trivial
    | gc t => trivial

private theorem mono_modelTrace (ttl : Nat) (evs : List Ev) (s : Store) :
    (modelTrace ttl s evs).map Ev.now = evs.map Ev.now := by
  induction evs generalizing s with
  | nil => rfl
  | cons x evs ih =>
    cases x <;> simp [modelTrace, Ev.now, ih]

private theorem step_modelTrace_head (ttl : Nat) (s : Store) (x : Ev) :
    step ttl s (match x with | .view t _ => Ev.view t (view ttl t s) | e => e) = step ttl s x := by
  cases x <;> rfl

private theorem conforms_modelTrace (ttl : Nat) (evs : List Ev) (s : Store) :
    Conforms ttl s (modelTrace ttl s evs) := by
  induction evs generalizing s with
  | nil => trivial
  | cons x evs ih =>
    cases x with
    | view t out => exact ⟨List.Perm.refl _, ih _⟩
    | add t r => exact ⟨trivial, ih _⟩
    | remove t id => exact ⟨trivial, ih _⟩
    | gc t => exact ⟨trivial, ih _⟩

/-- the model's own trace of any monotone history satisfies the predicate -/
theorem model_spec (ttl : Nat) (evs : List Ev) (hmono : Mono evs) :
    spec ttl (modelTrace ttl [] evs) = true := by
  apply conforms_spec ttl _ _ (conforms_modelTrace ttl evs [])
  simpa [Mono, mono_modelTrace] using hmono

/-! ### multi-result calls and the two callers are sequences of atomic events -/

theorem add_is_events (ttl now : Nat) (s : Store) (rs : List CheckResult) :
    add ttl now s rs = run ttl s (rs.map (Ev.add now)) := by
  induction rs generalizing s with
  | nil => rfl
  | cons r rs ih => simpa [add, run, step] using ih (add1 ttl now s r)

theorem remove_is_events (ttl now : Nat) (s : Store) (ids : List String) :
    remove s ids = run ttl s (ids.map (Ev.remove now)) := by
  induction ids generalizing s with
  | nil => rfl
  | cons r rs ih => simpa [remove, run, step] using ih (remove1 s r)

/-! ### the remove-from-staging hook: every agreed WORK id leaves the store, nothing else does -/

/-- the hook is the sequence of `remove` events for the work ids of the agreed performables, in order -/
theorem runHook_is_events (ttl now : Nat) (s : Store) (agreed : List CheckResult) :
    runHook s agreed = run ttl s (agreed.map (fun r => Ev.remove now r.workID)) := by
  have := remove_is_events ttl now s (agreed.map (·.workID))
  simpa [runHook, List.map_map, Function.comp_def] using this

theorem get_remove (s : Store) (ids : List String) (w : String) :
    get (remove s ids) w = if w ∈ ids then none else get s w := by
  induction ids generalizing s with
  | nil => simp [remove]
  | cons id ids ih =>
    have h := ih (remove1 s id)
    simp only [remove, List.foldl_cons] at h ⊢
    rw [h, get_remove1]
    by_cases h1 : w ∈ ids
    · simp [h1]
    · by_cases h2 : id = w
      · simp [h2]
      · have h3 : ¬ w = id := fun h => h2 h.symm
        simp [h1, h2, h3]

/-- the slot of every work id after the hook: empty if ANY agreed performable carries that work id — whatever upkeep
it belongs to, however many other agreed performables share that upkeep, wherever it stands in the list —,
untouched otherwise -/
theorem get_runHook (s : Store) (agreed : List CheckResult) (w : String) :
    get (runHook s agreed) w = if w ∈ agreed.map (·.workID) then none else get s w :=
  get_remove s _ w

theorem runHook_removes_every_agreed (s : Store) (agreed : List CheckResult) (a : CheckResult) (ha : a ∈ agreed) :
    get (runHook s agreed) a.workID = none := by
  have : a.workID ∈ agreed.map (·.workID) := List.mem_map.mpr ⟨a, ha, rfl⟩
  simp [get_runHook, this]

theorem runHook_keeps_others (s : Store) (agreed : List CheckResult) (w : String)
    (hw : ∀ a ∈ agreed, a.workID ≠ w) : get (runHook s agreed) w = get s w := by
  have : w ∉ agreed.map (·.workID) := by
    intro h
    obtain ⟨a, ha, haw⟩ := List.mem_map.mp h
    exact hw a ha haw
  simp [get_runHook, this]

/-- the order of the agreed performables does not matter -/
theorem runHook_perm (s : Store) (agreed agreed' : List CheckResult) (h : agreed.Perm agreed') (w : String) :
    get (runHook s agreed) w = get (runHook s agreed') w := by
  simp only [get_runHook, (List.Perm.map (·.workID) h).mem_iff]

theorem WF_runHook {s : Store} (h : WF s) (agreed : List CheckResult) : WF (runHook s agreed) := by
  rw [runHook_is_events 0 0]
  exact WF_run _ h

/-- the view right after the hook ran on an outcome, after any history: no result of an agreed work id, and
every other result that was viewed before -/
theorem view_after_hook (ttl : Nat) (evs : List Ev) (agreed : List CheckResult) (t : Nat) (out : List CheckResult)
    (h : ViewOf ttl t (runHook (run ttl [] evs) agreed) out) :
    (∀ r ∈ out, ∀ a ∈ agreed, r.workID ≠ a.workID) ∧
    (∀ r ∈ view ttl t (run ttl [] evs), (∀ a ∈ agreed, a.workID ≠ r.workID) → r ∈ out) := by
  have hwf := wf_reach ttl evs
  have hwf' := WF_runHook hwf agreed
  constructor
  · intro r hr a ha hra
    obtain ⟨e, hg, _, _⟩ := (mem_view hwf' r).mp ((List.Perm.mem_iff h).mp hr)
    rw [hra, runHook_removes_every_agreed _ _ a ha] at hg
    cases hg
  · intro r hr hne
    apply (List.Perm.mem_iff h).mpr
    obtain ⟨e, hg, he, hx⟩ := (mem_view hwf r).mp hr
    exact (mem_view hwf' r).mpr ⟨e, by rw [runHook_keeps_others _ _ _ hne]; exact hg, he, hx⟩

/-- "until it is removed because the network agreed on it … a view never contains a removed one", for outcomes:
after the hook ran, no view holds a result for the work id of ANY agreed performable until that work id is added
again — at any time, through any number of other adds, removals, collections and further outcomes -/
theorem view_excludes_agreed (ttl : Nat) (evs mid : List Ev) (agreed : List CheckResult)
    (a : CheckResult) (ha : a ∈ agreed)
    (hmid : ∀ x ∈ mid, ∀ t r, x = .add t r → r.workID ≠ a.workID)
    (t : Nat) (out : List CheckResult)
    (h : ViewOf ttl t (run ttl (runHook (run ttl [] evs) agreed) mid) out) :
    ∀ r ∈ out, r.workID ≠ a.workID := by
  intro r hr hid
  have hwf := WF_runHook (wf_reach ttl evs) agreed
  obtain ⟨e, hg, _, _⟩ := (mem_view (WF_run mid hwf) r).mp ((List.Perm.mem_iff h).mp hr)
  have := absent_stays (ttl := ttl) mid hwf (runHook_removes_every_agreed _ agreed a ha) hmid
  rw [hid, this] at hg
  cases hg

/-- when no two agreed performables share an upkeep id, filing them per upkeep loses nothing: outcomes with one
result per upkeep cannot tell `runHookPerUpkeep` from `runHook` … -/
theorem runHookPerUpkeep_eq_of_distinct_upkeeps (s : Store) (agreed : List CheckResult)
    (hd : (agreed.map (·.upkeepID)).Nodup) : runHookPerUpkeep s agreed = runHook s agreed := by
  have key : ∀ (l : List CheckResult) (m : List (String × String)),
      (∀ p ∈ m, p.1 ∉ l.map (·.upkeepID)) → (l.map (·.upkeepID)).Nodup →
      l.foldl (fun m r => m.filter (fun p => decide (p.1 ≠ r.upkeepID)) ++ [(r.upkeepID, r.workID)]) m
        = m ++ l.map (fun r => (r.upkeepID, r.workID)) := by
    intro l
    induction l with
    | nil => intro m _ _; simp
    | cons r rest ih =>
      intro m hm hnd
      simp only [List.map_cons, List.nodup_cons] at hnd
      have hf : m.filter (fun p => decide (p.1 ≠ r.upkeepID)) = m := by
        apply List.filter_eq_self.mpr
        intro p hp
        have := hm p hp
        simp only [List.map_cons, List.mem_cons, not_or] at this
        simpa using this.1
      simp only [List.foldl_cons, hf]
      rw [ih (m ++ [(r.upkeepID, r.workID)]) ?_ hnd.2]
      · simp
      · intro p hp
        rcases List.mem_append.mp hp with hp | hp
        · have := hm p hp
          simp only [List.map_cons, List.mem_cons, not_or] at this
          exact this.2
        · simp only [List.mem_singleton] at hp
          subst hp
          exact hnd.1
  have := key agreed [] (by simp) hd
  simp only [List.nil_append] at this
  unfold runHookPerUpkeep agreedPerUpkeep runHook
  rw [this]
  simp [List.map_map, Function.comp_def]

private def resU (u w : String) (b : Nat) : CheckResult :=
  { pes := 0, retryable := false, eligible := true, reason := 0, upkeepID := u, trigger := ⟨b, "h", none⟩,
    workID := w, gas := 1, performData := "", fastGasWei := none, linkNative := none }

/-- … but one outcome that agrees on two logs of ONE log-trigger upkeep can: three results staged (two logs of
upkeep `u1`, one result of `u2`), all three agreed.  The hook empties the view; the per-upkeep variant keeps the
first log of `u1` — an agreed result in every later view up to its TTL.  Its trace fails `spec`. -/
theorem runHookPerUpkeep_keeps_agreed :
    let a := resU "u1" "log-a" 7
    let b := resU "u1" "log-b" 7
    let c := resU "u2" "c" 3
    let s0 := run 100 [] [.add 1 a, .add 1 b, .add 1 c]
    view 100 2 (runHook s0 [a, c, b]) = [] ∧
    view 100 2 (runHookPerUpkeep s0 [a, c, b]) = [a] ∧
    spec 100 [.add 1 a, .add 1 b, .add 1 c, .remove 2 "log-a", .remove 2 "c", .remove 2 "log-b", .view 2 []] = true ∧
    spec 100 [.add 1 a, .add 1 b, .add 1 c, .remove 2 "log-a", .remove 2 "c", .remove 2 "log-b", .view 2 [a]] = false ∧
    explain 100 [.add 1 a, .add 1 b, .add 1 c, .remove 2 "log-a", .remove 2 "c", .remove 2 "log-b", .view 2 [a]] =
      "view holds a removed, replaced or never added result" := by
  decide

/-! ### the residual case, and the pinned tree (witnesses) -/

private def res (w : String) (b : Nat) : CheckResult :=
  { pes := 0, retryable := false, eligible := true, reason := 0, upkeepID := "u", trigger := ⟨b, "h", none⟩,
    workID := w, gas := 1, performData := "", fastGasWei := none, linkNative := none }

/-- `w@10` staged at 0; `w@5` handed in at 7 while `w@10` is live — rejected; `w@10` is viewed up
to its TTL and then nothing is, although `w@5` is only `ttl - 6` ns old -/
private def residualTrace : List Ev :=
  [.add 0 (res "w" 10), .add 7 (res "w" 5), .view Gen.storeTTLNs [res "w" 10], .view (Gen.storeTTLNs + 1) []]

/-- what remains outside the first clause (the exception in `handed_kept` is needed): a result
rejected by a live entry with an equal or higher check block is not resurrected when that entry
expires first.  The history is one the model allows and satisfies `spec` (the entry that
dominated is the excuse); without the excuse the clause fails (`handedStrict`). -/
theorem handed_residual :
    conformsB Gen.storeTTLNs [] residualTrace = true ∧ monoB residualTrace = true ∧
    spec Gen.storeTTLNs residualTrace = true ∧ handedStrict Gen.storeTTLNs residualTrace = false := by
  decide

/-- witness history for the pinned tree: `w@10` staged at 0; one ns past the TTL (before the
first collector tick that can see it) `w@5` is handed in and silently dropped; the next view is
empty although `w@5` was handed in 0 ns ago and no live entry dominates it -/
private def gapTrace : List Ev :=
  [.add 0 (res "w" 10), .add (Gen.storeTTLNs + 1) (res "w" 5), .view (Gen.storeTTLNs + 1) []]

/-- the pinned tree (before efb208c) violates the first clause: its own trace of the witness
history (`conformsBOld`) fails `spec` with the `handed` conjunct, and the fixed model does not
allow that trace — it shows `w@5`. -/
theorem handedStrong_fails_old :
    conformsBOld Gen.storeTTLNs [] gapTrace = true ∧ monoB gapTrace = true ∧
    spec Gen.storeTTLNs gapTrace = false ∧
    explain Gen.storeTTLNs gapTrace =
      "add dropped although no live entry with an equal or higher check block was stored" ∧
    conformsB Gen.storeTTLNs [] gapTrace = false ∧
    view Gen.storeTTLNs (Gen.storeTTLNs + 1) (run Gen.storeTTLNs [] gapTrace) = [res "w" 5] := by
  decide

/-- in the pinned tree `gc` was observable through later adds: the same add / view after a
collection at the same instant gave a different view (contrast `gc_transparent`) -/
theorem gc_not_transparent_old :
    view Gen.storeTTLNs (Gen.storeTTLNs + 1)
      (runOld Gen.storeTTLNs [] [.add 0 (res "w" 10), .gc (Gen.storeTTLNs + 1), .add (Gen.storeTTLNs + 1) (res "w" 5)])
      = [res "w" 5] ∧
    view Gen.storeTTLNs (Gen.storeTTLNs + 1)
      (runOld Gen.storeTTLNs [] [.add 0 (res "w" 10), .add (Gen.storeTTLNs + 1) (res "w" 5)]) = [] := by
  decide

/-- a collector split into a scan (read lock) and an eviction by key (write lock) WITHOUT a
re-check loses a fresh result: `w@10` staged at 0; at `ttl+1` the scan lists `w`; `w@5` is added
(stored: the entry is dead); the eviction deletes it.  Either atomic order keeps `w@5`. -/
theorem gcTwoPhaseOld_loses_fresh :
    let t := Gen.storeTTLNs + 1
    let s0 := run Gen.storeTTLNs [] [.add 0 (res "w" 10)]
    gcScan Gen.storeTTLNs t s0 = ["w"] ∧
    view Gen.storeTTLNs t (gcEvictOld (add1 Gen.storeTTLNs t s0 (res "w" 5)) (gcScan Gen.storeTTLNs t s0)) = [] ∧
    view Gen.storeTTLNs t (gc Gen.storeTTLNs t (add1 Gen.storeTTLNs t s0 (res "w" 5))) = [res "w" 5] ∧
    view Gen.storeTTLNs t (add1 Gen.storeTTLNs t (gc Gen.storeTTLNs t s0) (res "w" 5)) = [res "w" 5] ∧
    view Gen.storeTTLNs t (gcOrd Gen.storeTTLNs t (add1 Gen.storeTTLNs t s0 (res "w" 5)) (gcScan Gen.storeTTLNs t s0))
      = [res "w" 5] := by
  decide

/-! ### non-vacuity -/

private def h1 : List Ev :=
  [.add 5 (res "a" 7), .add 6 (res "b" 3), .add 7 (res "a" 7), .add 8 (res "a" 6), .gc 30, .remove 31 "b"]

example : get (run 100 [] h1) "a" = some ⟨res "a" 7, 5⟩ := by decide
-- `view_no_dup`, `view_excludes_expired`: a non-empty view of a reachable store
example : ViewOf 100 40 (run 100 [] h1) [res "a" 7] := by
  have : view 100 40 (run 100 [] h1) = [res "a" 7] := by decide
  rw [ViewOf, this]
-- `view_excludes_removed`: the history after the removal adds another work id
example : ∀ x ∈ [Ev.add 32 (res "a" 9), Ev.gc 33], ∀ t r, x = .add t r → r.workID ≠ "b" := by
  intro x hx t r h
  simp only [List.mem_cons, List.mem_nil_iff, or_false] at hx
  rcases hx with hx | hx <;> subst hx <;> cases h
  decide
-- `kept_until` / `handed_kept`: hypotheses met with lower and equal adds, a collection and a view in between
example : (∀ x ∈ [Ev.add 9 (res "a" 7), .add 10 (res "a" 2), .add 11 (res "c" 99), .gc 60, .view 61 [], .remove 62 "c"],
    clean "a" 7 x = true) ∧ 105 - 5 ≤ 100 := by decide
-- `handed_kept`: both disjuncts occur — `a@9` over a dead `a@7` takes effect; `a@6` under the live `a@7` is dominated
example : view 100 200 (run 100 [] (h1 ++ [.add 200 (res "a" 6)])) = [res "a" 6] ∧
    view 100 50 (run 100 [] (h1 ++ [.add 50 (res "a" 6)])) = [res "a" 7] := by decide
-- `add_keeps_higher` / `add_stores`: all branches occur
example : blk (res "a" 6) ≤ blk (res "a" 7) ∧ blk (res "a" 7) < blk (res "a" 8) ∧ 50 - 5 ≤ 100 ∧ 200 - 5 > 100 := by decide
-- `gcOrd_eq_gc`: a visiting order with a repeat and a foreign key
example : gcOrd 100 200 (run 100 [] h1) ["a", "zz", "a"] = [] ∧ keys (run 100 [] h1) = ["a"] := by decide
-- `gc_recheck_safe` / `gc_scan_evict_atomic`: a stale key list on a store with a dead and a live entry
example : gcScan 100 200 (run 100 [] (h1 ++ [.add 150 (res "c" 1)])) = ["a"] ∧
    gcOrd 100 200 (run 100 [] (h1 ++ [.add 150 (res "c" 1)])) ["c", "a", "gone"] = [("c", ⟨res "c" 1, 150⟩)] := by decide
-- `gc_transparent`: a monotone history whose collector events matter for the store but not for any view
example : monoB (h1 ++ [.gc 200, .add 200 (res "a" 6)]) = true ∧
    run 100 [] (h1 ++ [.gc 200]) ≠ run 100 [] (stripGc (h1 ++ [.gc 200])) ∧
    view 100 200 (run 100 [] (h1 ++ [.gc 200, .add 200 (res "a" 6)])) =
      view 100 200 (run 100 [] (stripGc (h1 ++ [.gc 200, .add 200 (res "a" 6)]))) := by decide
-- `dead_entry_collected_within_interval`: hypotheses are satisfiable
example : (0 : Nat) ≤ 5 + Gen.storeTTLNs ∧ 5 + Gen.storeTTLNs + Gen.gcIntervalNs ≤ 400000000000 := by decide
-- `view_after_hook` / `view_excludes_agreed`: an outcome with two logs of one upkeep and a foreign result, in a
-- reachable store that holds a third log of that upkeep and another upkeep's result
example : view 100 9 (runHook (run 100 [] [.add 1 (resU "u1" "la" 7), .add 2 (resU "u1" "lb" 7), .add 3 (resU "u1" "lc" 7),
      .add 4 (resU "u2" "x" 1)]) [resU "u1" "lb" 9, resU "u9" "elsewhere" 1, resU "u1" "la" 7]) =
    [resU "u1" "lc" 7, resU "u2" "x" 1] := by decide
-- `conforms_spec` / `model_spec`: a history with views that exercises every clause
private def h2 : List Ev :=
  [.add 1 (res "a" 7), .add 1 (res "b" 1), .view 2 [res "b" 1, res "a" 7], .add 3 (res "a" 7), .add 4 (res "a" 5),
   .view 50 [res "a" 7, res "b" 1], .gc 60, .remove 61 "b", .view 101 [res "a" 7], .view 102 [], .add 103 (res "a" 1),
   .view 104 [res "a" 1]]
example : conformsB 100 [] h2 = true ∧ monoB h2 = true ∧ spec 100 h2 = true := by decide
-- the predicate is not trivially true: each clause rejects something
example : spec 100 [.add 1 (res "a" 7), .view 2 [res "a" 7], .view 3 []] = false := by decide
example : spec 100 [.add 1 (res "a" 7), .view 102 [res "a" 7]] = false := by decide
example : spec 100 [.add 1 (res "a" 7), .add 2 (res "a" 9), .view 3 [res "a" 7]] = false := by decide
example : spec 100 [.add 1 (res "a" 7), .add 2 (res "a" 7), .view 3 [res "a" 7, res "a" 7]] = false := by decide
example : spec 100 [.add 1 (res "a" 7), .view 102 [], .add 103 (res "a" 1), .view 104 []] = false := by decide
example : spec 100 [.add 1 (res "a" 7), .view 2 []] = false := by decide

end AutoVerif.C10
