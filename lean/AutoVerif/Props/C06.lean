import AutoVerif.Lemmas.C06
/-
C06 — A node transmits only the newest accepted, unconfirmed report per unit of work.

All theorems quantify over every configuration and every history
(`List Op`: accepts, event polls with arbitrary event lists, clock advances,
cache GC runs, restarts — any length, any work ids, any blocks, any
confirmations).  `run cfg ops` is the system after the history started empty at
time 0; `(run cfg ops).log` is the ghost log the Spec predicates read.

"Seen" (a transmit event) is formalised as *processed while the record
existed* (`Disp.processed`, characterised by `processed_iff`); see Spec/C06.
-/
namespace AutoVerif.C06

/-! ### what "processed" means -/

/-- an event is processed iff it has at least the minimum confirmations, is not
    marked visited, and a live record exists for its work id -/
theorem processed_iff (cfg : Cfg) (s : St) (e : Event) :
    (pollEvent cfg s e).2.processed = true ↔
      cfg.minConf ≤ e.conf ∧ s.visited.get (visitedID e) s.now = none ∧
      (s.cache.get e.workID s.now).isSome = true := by
  unfold pollEvent
  by_cases hc : e.conf < cfg.minConf
  · simp only [hc, if_true, Disp.processed]
    constructor
    · intro h; cases h
    · intro ⟨h, _⟩; omega
  · simp only [hc, if_false]
    have hc' : cfg.minConf ≤ e.conf := Int.not_lt.mp hc
    cases hvis : s.visited.get (visitedID e) s.now with
    | some _ => simp [Disp.processed]
    | none =>
      cases hget : s.cache.get e.workID s.now with
      | none => simp [Disp.processed]
      | some v =>
        simp only
        by_cases h1 : e.checkBlock = v.checkBlock
        · simp [h1, Disp.processed, hc']
        · by_cases h2 : e.checkBlock > v.checkBlock <;> simp [h1, h2, Disp.processed, hc']

example : (pollEvent ⟨1, 5⟩ (accept ⟨1, 5⟩ (St.init 0) "w" 7).1 ⟨"w", "aa", 1, 9, 7, 1⟩).2.processed = true := by decide

/-! ### transmit clause -/

private theorem shouldTransmit_true {s : St} {w : String} {b : Nat} (h : shouldTransmit s w b = true) :
    ∃ v, s.cache.get w s.now = some v ∧ v.checkBlock = b ∧ v.pending = true := by
  unfold shouldTransmit at h
  cases hg : s.cache.get w s.now with
  | none => simp [hg] at h
  | some v =>
    simp only [hg] at h
    by_cases h2 : b = v.checkBlock
    · subst h2
      simp at h
      exact ⟨v, rfl, rfl, h⟩
    · by_cases h1 : b < v.checkBlock <;> simp [h1, h2] at h

/-- **transmit_only_if**, decidable form (the predicate the driver evaluates):
    after every history, `ShouldTransmit(w, b) = true` implies `transmitOk`, i.e.
    scanning the log backwards one meets a successful `Accept(w, b)` before any
    restart, any other successful accept of `w` (in particular one with a higher
    block) or any processed event for `(w, ≥ b)`; that accept is inside its lockout
    window; and no record-rewriting event for `(w, ≥ b)` is inside its window at all. -/
theorem transmit_only_if (cfg : Cfg) (ops : List Op) (w : String) (b : Nat)
    (h : shouldTransmit (run cfg ops).st w b = true) :
    transmitOk cfg (run cfg ops).log (run cfg ops).st.now w b = true := by
  have inv := inv_run cfg ops
  obtain ⟨v, hg, hb, hp⟩ := shouldTransmit_true h
  obtain ⟨t, hl, hv, _⟩ := inv.get_some hg
  have hs := inv.scan w v t hl hp
  rw [hb] at hs
  simp only [transmitOk, hs, hv, Bool.true_and, noLiveEvent, List.all_eq_true]
  intro ⟨t', x, a⟩ hm
  simp only [Bool.or_eq_true, Bool.not_eq_true', decide_eq_true_eq]
  cases a with
  | true => left; left; rfl
  | false =>
    cases hv' : liveAt cfg t' (run cfg ops).st.now with
    | false => left; right; rfl
    | true =>
      right
      obtain ⟨r, t'', hl', _, _, hlt⟩ := inv.mono w t' x false hm hv'
      rw [hl] at hl'
      cases hl'
      have := hlt rfl hp
      omega

private theorem awaited_split {w : String} {b t : Nat} : ∀ {log : List LogE}, awaited w b log = some t →
    ∃ post pre, log = post ++ LogE.accept t w b true :: pre ∧ ∀ ent ∈ post, Quiet w b ent := by
  intro log
  induction log with
  | nil => intro h; simp [awaited] at h
  | cons ent rest ih =>
    intro h
    cases ent with
    | restart => simp [awaited] at h
    | accept t' w' b' ok =>
      simp only [awaited] at h
      by_cases hc : w' = w ∧ ok = true
      · simp only [hc, and_self, if_true] at h
        by_cases hb : b' = b
        · simp only [hb, if_true, Option.some.injEq] at h
          obtain ⟨hw, hok⟩ := hc
          subst hw; subst hok; subst hb; subst h
          exact ⟨[], rest, rfl, by simp⟩
        · simp [hb] at h
      · simp only [hc, if_false] at h
        obtain ⟨post, pre, hlog, hq⟩ := ih h
        refine ⟨LogE.accept t' w' b' ok :: post, pre, by simp [hlog], ?_⟩
        intro ent hm
        rcases List.mem_cons.mp hm with hm | hm
        · subst hm; exact hc
        · exact hq ent hm
    | event t' e d =>
      simp only [awaited] at h
      by_cases hc : e.workID = w ∧ d.processed = true ∧ e.checkBlock ≥ b
      · simp [hc] at h
      · simp only [hc, if_false] at h
        obtain ⟨post, pre, hlog, hq⟩ := ih h
        refine ⟨LogE.event t' e d :: post, pre, by simp [hlog], ?_⟩
        intro ent hm
        rcases List.mem_cons.mp hm with hm | hm
        · subst hm; exact hc
        · exact hq ent hm

/-- **transmit_only_if**, spelled out: the log (newest first) splits as
    `post ++ accept t w b true :: pre` where the accept is inside its lockout window
    now (not expired) and nothing in `post` is a restart, a successful accept of `w`
    (so no later acceptance, in particular none with a higher block), or a processed
    — hence sufficiently confirmed — event for `w` with check block `≥ b`. -/
theorem transmit_only_if_explicit (cfg : Cfg) (ops : List Op) (w : String) (b : Nat)
    (h : shouldTransmit (run cfg ops).st w b = true) :
    ∃ post pre t, (run cfg ops).log = post ++ LogE.accept t w b true :: pre ∧
      (cfg.window = 0 ∨ (run cfg ops).st.now ≤ t + cfg.window) ∧
      ∀ ent ∈ post, Quiet w b ent := by
  have hk := transmit_only_if cfg ops w b h
  simp only [transmitOk, Bool.and_eq_true] at hk
  cases ha : awaited w b (run cfg ops).log with
  | none => simp [ha] at hk
  | some t =>
    simp only [ha] at hk
    obtain ⟨post, pre, hlog, hq⟩ := awaited_split ha
    exact ⟨post, pre, t, hlog, (liveAt_iff cfg t _).mp hk.1, hq⟩

/-- non-vacuity: accept 7, wait 2 s, poll an unconfirmed event, ask -/
example : shouldTransmit (run ⟨1, 5000000000⟩
    [.accept "w" 7, .advance 2000000000, .poll [⟨"w", "aa", 1, 9, 7, 0⟩]]).st "w" 7 = true := by decide
/-- … and the confirmed event withdraws it -/
example : shouldTransmit (run ⟨1, 5000000000⟩
    [.accept "w" 7, .advance 2000000000, .poll [⟨"w", "aa", 1, 9, 7, 1⟩]]).st "w" 7 = false := by decide
/-- the window boundary: still offered at exactly `t + window`, not 1 ns later -/
example : shouldTransmit (run ⟨1, 5000000000⟩ [.accept "w" 7, .advance 5000000000]).st "w" 7 = true ∧
    shouldTransmit (run ⟨1, 5000000000⟩ [.accept "w" 7, .advance 5000000001]).st "w" 7 = false := by decide

/-! ### accept clause -/

/-- **accept_monotone**: whenever `Accept(w, b)` succeeds after any history, every
    earlier record write for `w` (successful accept or record-rewriting event, since
    the last restart) that is still inside its lockout window carries a check block
    strictly below `b` — inside the window an accept never lowers (nor repeats) the
    awaited block, and never re-arms a block for which a transmit event was processed. -/
theorem accept_monotone (cfg : Cfg) (ops : List Op) (w : String) (b : Nat)
    (h : (accept cfg (run cfg ops).st w b).2 = true) :
    ∀ t x a, (t, x, a) ∈ writes w (run cfg ops).log → liveAt cfg t (run cfg ops).st.now = true → x < b := by
  have inv := inv_run cfg ops
  intro t x a hm hv
  obtain ⟨r, t', hl, hle, hx, _⟩ := inv.mono w t x a hm hv
  have hg := inv.get_of_live hl (liveAt_le hle hv)
  rcases accept_cases cfg (run cfg ops).st w b with ⟨_, _, hget⟩ | ⟨hno, _⟩
  · rcases hget with hn | ⟨v, hs, hlt⟩
    · rw [hn] at hg; cases hg
    · rw [hs] at hg; cases hg; omega
  · rw [hno] at h; cases h

/-- the same as the decidable predicate the driver evaluates (strict and literal form) -/
theorem accept_monotone_spec (cfg : Cfg) (ops : List Op) (w : String) (b : Nat) (strict : Bool)
    (h : (accept cfg (run cfg ops).st w b).2 = true) :
    acceptOk strict cfg (run cfg ops).log (run cfg ops).st.now w b = true := by
  simp only [acceptOk, List.all_eq_true]
  intro ⟨t, x, a⟩ hm
  cases hv : liveAt cfg t (run cfg ops).st.now with
  | false => simp
  | true =>
    have := accept_monotone cfg ops w b h t x a hm hv
    simp [this]

/-- a refusal is never spurious: `Accept(w, b)` is refused only if a live record with
    a check block `≥ b` exists, i.e. the newest write for `w` is inside its window and at or above `b` -/
theorem accept_refused_only_if (cfg : Cfg) (ops : List Op) (w : String) (b : Nat)
    (h : (accept cfg (run cfg ops).st w b).2 = false) :
    ∃ r, known cfg (run cfg ops).log (run cfg ops).st.now w = some r ∧ b ≤ r.checkBlock := by
  have inv := inv_run cfg ops
  rcases accept_cases cfg (run cfg ops).st w b with ⟨hok, _⟩ | ⟨_, _, v, hget, hnb⟩
  · rw [hok] at h; cases h
  · rw [inv.get_eq_known] at hget
    exact ⟨v, hget, by omega⟩

/-- non-vacuity: rising accepted, equal and lower refused inside the window, lower accepted after it -/
example : (accept ⟨0, 5000⟩ (run ⟨0, 5000⟩ [.accept "w" 7]).st "w" 8).2 = true ∧
    (accept ⟨0, 5000⟩ (run ⟨0, 5000⟩ [.accept "w" 7]).st "w" 7).2 = false ∧
    (accept ⟨0, 5000⟩ (run ⟨0, 5000⟩ [.accept "w" 7, .advance 5000]).st "w" 6).2 = false ∧
    (accept ⟨0, 5000⟩ (run ⟨0, 5000⟩ [.accept "w" 7, .advance 5001]).st "w" 6).2 = true := by decide

/-! ### plugin level -/

private theorem acceptReport_acc (cfg : Cfg) : ∀ (ups : List (String × Nat)) (s : St) (acc : Bool),
    acceptReport cfg s ups acc = ((acceptReport cfg s ups false).1, acc || (acceptReport cfg s ups false).2) := by
  intro ups
  induction ups with
  | nil => intro s acc; simp [acceptReport]
  | cons u us ih =>
    intro s acc
    obtain ⟨w, b⟩ := u
    simp only [acceptReport]
    rw [ih _ (if (accept cfg s w b).2 = true then true else acc),
        ih _ (if (accept cfg s w b).2 = true then true else false)]
    cases (accept cfg s w b).2 <;> cases acc <;> simp

/-- **report_any_of** (accept): `ShouldAcceptAttestedReport` calls `Accept` for every
    upkeep of the report in order (the state is the sequential composition, no
    short-circuit) and answers true exactly when at least one of these calls did. -/
theorem report_any_of_accept (cfg : Cfg) (s : St) (ups : List (String × Nat)) :
    (acceptReport cfg s ups false).1 = ups.foldl (fun s u => (accept cfg s u.1 u.2).1) s ∧
    ((acceptReport cfg s ups false).2 = true ↔
      ∃ pre u post, ups = pre ++ u :: post ∧
        (accept cfg (pre.foldl (fun s u => (accept cfg s u.1 u.2).1) s) u.1 u.2).2 = true) := by
  induction ups generalizing s with
  | nil => simp [acceptReport]
  | cons u us ih =>
    obtain ⟨w, b⟩ := u
    simp only [acceptReport]
    rw [acceptReport_acc]
    obtain ⟨ih1, ih2⟩ := ih (accept cfg s w b).1
    refine ⟨by simp [ih1], ?_⟩
    simp only [Bool.or_eq_true, ih2]
    constructor
    · intro h
      rcases h with h | ⟨pre, u, post, he, ha⟩
      · refine ⟨[], (w, b), us, rfl, ?_⟩
        cases hx : (accept cfg s w b).2 <;> simp_all
      · exact ⟨(w, b) :: pre, u, post, by simp [he], by simpa using ha⟩
    · intro ⟨pre, u, post, he, ha⟩
      cases pre with
      | nil =>
        simp only [List.nil_append, List.cons.injEq] at he
        obtain ⟨hu, _⟩ := he
        subst hu
        left
        simp only [List.foldl_nil] at ha
        simp [ha]
      | cons p pre' =>
        simp only [List.cons_append, List.cons.injEq] at he
        obtain ⟨hp, hrest⟩ := he
        subst hp
        right
        exact ⟨pre', u, post, hrest, by simpa using ha⟩

/-- if the work ids of a report are pairwise distinct, each upkeep's answer is the one
    `Accept` would give on the state before the report: accepted as a whole exactly
    when at least one of its upkeeps is -/
theorem report_any_of_accept_distinct (cfg : Cfg) (s : St) (ups : List (String × Nat))
    (hd : (ups.map (·.1)).Nodup) :
    (acceptReport cfg s ups false).2 = ups.any (fun u => (accept cfg s u.1 u.2).2) := by
  induction ups generalizing s with
  | nil => simp [acceptReport]
  | cons u us ih =>
    obtain ⟨w, b⟩ := u
    simp only [List.map_cons, List.nodup_cons, List.mem_map, not_exists, not_and] at hd
    obtain ⟨hw, hd'⟩ := hd
    simp only [acceptReport, List.any_cons]
    rw [acceptReport_acc, ih _ hd']
    have hsame : ∀ u ∈ us, (accept cfg (accept cfg s w b).1 u.1 u.2).2 = (accept cfg s u.1 u.2).2 := by
      intro u hu
      have hne : ¬ u.1 = w := fun hc => hw u hu hc
      have hget : (accept cfg s w b).1.cache.get u.1 (accept cfg s w b).1.now = s.cache.get u.1 s.now := by
        rcases accept_cases cfg s w b with ⟨_, hst, _⟩ | ⟨_, hst, _⟩
        · rw [hst]; simp [Cache.get, cacheAfterAccept, hne]
        · rw [hst]
      rw [accept_snd, accept_snd, hget]
    have : us.any (fun u => (accept cfg (accept cfg s w b).1 u.1 u.2).2) = us.any (fun u => (accept cfg s u.1 u.2).2) := by
      exact any_congr' us _ _ hsame
    rw [this]
    cases (accept cfg s w b).2 <;> simp

private theorem transmitReport_acc (s : St) : ∀ (ups : List (String × Nat)) (acc : Bool),
    transmitReport s ups acc = (acc || ups.any (fun u => shouldTransmit s u.1 u.2)) := by
  intro ups
  induction ups with
  | nil => intro acc; simp [transmitReport]
  | cons u us ih =>
    intro acc
    obtain ⟨w, b⟩ := u
    simp only [transmitReport, List.any_cons]
    rw [ih]
    cases shouldTransmit s w b <;> cases acc <;> simp

/-- **report_any_of** (transmit): a report is transmitted exactly when at least one of its upkeeps is -/
theorem report_any_of_transmit (s : St) (ups : List (String × Nat)) :
    transmitReport s ups false = ups.any (fun u => shouldTransmit s u.1 u.2) := by
  rw [transmitReport_acc]; simp

example : (acceptReport ⟨0, 5000⟩ (run ⟨0, 5000⟩ [.accept "a" 7]).st [("a", 7), ("b", 3)] false).2 = true ∧
    (acceptReport ⟨0, 5000⟩ (run ⟨0, 5000⟩ [.accept "a" 7]).st [("a", 7), ("a", 6)] false).2 = false ∧
    (acceptReport ⟨0, 5000⟩ (St.init 0) [] false).2 = false ∧
    transmitReport (run ⟨0, 5000⟩ [.accept "a" 7]).st [("b", 1), ("a", 7)] false = true := by decide

/-! ### restart -/

private def noAccept (w : String) : Op → Prop
  | .accept w' _ => w' ≠ w
  | _ => True

private theorem lastWrite_none_event {cfg : Cfg} {sys : Sys} {w : String} (inv : Inv cfg sys)
    (hn : lastWrite w sys.log = none) (e : Event) : lastWrite w (stepEvent cfg sys e).log = none := by
  simp only [stepEvent, lastWrite]
  by_cases hw : e.workID = w
  · subst hw
    have hg : sys.st.cache.get e.workID sys.st.now = none := by
      rw [inv.get_eq_known]; simp [known, hn]
    rcases pollEvent_cases cfg sys.st e with ⟨hd, _⟩ | ⟨_, _, v, hget, _⟩ | ⟨_, _, v, hget, _⟩
    · have : (pollEvent cfg sys.st e).2.updating = false := by
        cases hx : (pollEvent cfg sys.st e).2 <;> simp_all [Disp.processed, Disp.updating]
      simp [this, hn]
    · rw [hg] at hget; cases hget
    · rw [hg] at hget; cases hget
  · simp [hw, hn]

private theorem lastWrite_none_events {cfg : Cfg} {w : String} (evs : List Event) : ∀ {sys : Sys}, Inv cfg sys →
    lastWrite w sys.log = none → lastWrite w (evs.foldl (stepEvent cfg) sys).log = none := by
  induction evs with
  | nil => intro sys _ h; exact h
  | cons e es ih => intro sys inv h; exact ih (inv_event inv e) (lastWrite_none_event inv h e)

private theorem lastWrite_none_run {cfg : Cfg} {w : String} (ops : List Op) : ∀ {sys : Sys}, Inv cfg sys →
    lastWrite w sys.log = none → (∀ op ∈ ops, noAccept w op) →
    lastWrite w (runFrom cfg sys ops).log = none := by
  induction ops with
  | nil => intro sys _ h _; exact h
  | cons op ops ih =>
    intro sys inv h hno
    have hrest : ∀ op' ∈ ops, noAccept w op' := fun op' hm => hno op' (List.mem_cons_of_mem _ hm)
    have hop := hno op (List.mem_cons_self ..)
    refine ih (inv_step inv op) ?_ hrest
    cases op with
    | accept w' b =>
      have hne : ¬ w' = w := hop
      simp [step, stepAccept, lastWrite, hne, h]
    | poll evs => exact lastWrite_none_events evs inv h
    | advance d => exact h
    | gc => exact h
    | restart => simp [step, lastWrite]

/-- **restart_forgets**: after a restart (at any point of any history) nothing is
    offered for transmission for `w` — whatever events arrive and however much time
    passes — until `w` is accepted again -/
theorem restart_forgets (cfg : Cfg) (ops1 ops2 : List Op) (w : String) (b : Nat)
    (hno : ∀ op ∈ ops2, ∀ b', op ≠ .accept w b') :
    shouldTransmit (run cfg (ops1 ++ .restart :: ops2)).st w b = false := by
  have hrun : run cfg (ops1 ++ .restart :: ops2) = runFrom cfg (step cfg (run cfg ops1) .restart) ops2 := by
    simp [run, runFrom, List.foldl_append]
  have inv1 : Inv cfg (step cfg (run cfg ops1) .restart) := inv_restart (inv_run cfg ops1)
  have hn : lastWrite w (step cfg (run cfg ops1) .restart).log = none := by simp [step, lastWrite]
  have hno' : ∀ op ∈ ops2, noAccept w op := by
    intro op hm
    cases op with
    | accept w' b' =>
      intro hc
      exact hno _ hm b' (by rw [hc])
    | _ => trivial
  have hl := lastWrite_none_run ops2 inv1 hn hno'
  have inv2 := inv_runFrom ops2 inv1
  rw [hrun]
  unfold shouldTransmit
  rw [inv2.get_eq_known]
  simp [known, hl]

example : shouldTransmit (run ⟨0, 5000⟩ [.accept "w" 7, .restart, .poll [⟨"w", "aa", 2, 9, 7, 5⟩], .accept "v" 7]).st "w" 7 = false ∧
    shouldTransmit (run ⟨0, 5000⟩ [.accept "w" 7, .restart, .accept "w" 7]).st "w" 7 = true := by decide

/-! ### the cache GC cannot be observed -/

/-- **gc_invisible**: after `ClearExpired` at `now`, every `Get` at `now` or later returns what it would have returned -/
theorem gc_invisible {α : Type} (c : Cache α) (k : String) (now now' : Nat) (h : now ≤ now') :
    (c.clearExpired now).get k now' = c.get k now' := by
  simp only [Cache.clearExpired, Cache.get]
  cases hk : c k with
  | none => rfl
  | some p =>
    obtain ⟨v, e⟩ := p
    cases hx : expired e now with
    | false => simp [hx]
    | true =>
      have := expired_mono (d := now' - now) hx
      rw [show now + (now' - now) = now' by omega] at this
      simp [hx, this]
/-- the two phases of `ClearExpired`, run without anything in between, are the atomic `clearExpired` on the listed keys -/
theorem gc_two_phase_atomic {α : Type} (c : Cache α) (keys : List String) (now : Nat) (k : String)
    (hk : k ∈ keys ∨ c k = none) :
    (c.deleteKeys (c.scanExpired keys now) now) k = (c.clearExpired now) k := by
  simp only [Cache.deleteKeys, Cache.scanExpired, Cache.clearExpired, List.contains_eq_mem, List.mem_filter,
    decide_eq_true_eq]
  cases hc : c k with
  | none => simp
  | some p =>
    obtain ⟨v, e⟩ := p
    have hm : k ∈ keys := by
      rcases hk with hk | hk
      · exact hk
      · rw [hc] at hk; cases hk
    cases hx : expired e now <;> simp [hm, hx]

/-- what `Set` writes at a time `t ≥ now` is not expired w.r.t. `now` (so phase 2 keeps it) -/
theorem set_fresh {α : Type} (d : Nat) (c : Cache α) (k : String) (v : α) (expire t now : Nat) (h : now ≤ t) :
    ∃ exp, Cache.set d c k v expire t = (fun k' => if k' = k then some (v, exp) else c k') ∧ expired exp now = false := by
  generalize hx : (if expire = 0 then d else expire) = x
  refine ⟨if x > 0 then t + x else 0, by simp only [Cache.set, hx], ?_⟩
  cases hy : expired (if x > 0 then t + x else 0) now with
  | false => rfl
  | true =>
    rw [expired_iff] at hy
    by_cases hpos : x > 0
    · simp only [hpos, if_true] at hy; omega
    · simp only [hpos, if_false] at hy; omega

private theorem deleteKeys_write {α : Type} (c : Cache α) (ks : List String) (now : Nat) (k : String) (v : α) (e : Nat)
    (hf : expired e now = false) :
    Cache.deleteKeys (fun k' => if k' = k then some (v, e) else c k') ks now =
      (fun k' => if k' = k then some (v, e) else Cache.deleteKeys c ks now k') := by
  funext k'
  simp only [Cache.deleteKeys]
  by_cases hk : k' = k
  · simp [hk, hf]
  · simp [hk]

/-- **gc_two_phase_refines** — the real, two-phase collector is atomic in effect: whatever
    `Set`s (by `Accept`, by the event loop, on either cache; any keys, any number) happen
    between the scan and the re-checking delete, the resulting map is exactly the one
    obtained by collecting *first* (atomically, at the scan's `now`) and performing the
    same writes afterwards.  Reads in between are covered by `gc_invisible`.  The only
    premise is that what is written in between is not expired w.r.t. the scan's `now` —
    true of every `Set` at a time `≥ now` (`set_fresh`). -/
theorem gc_two_phase_refines {α : Type} (ks : List String) (now : Nat) (ws : List (String × α × Nat))
    (hf : ∀ w ∈ ws, expired w.2.2 now = false) (c : Cache α) :
    (c.writes ws).deleteKeys ks now = (c.deleteKeys ks now).writes ws := by
  induction ws generalizing c with
  | nil => rfl
  | cons w ws ih =>
    obtain ⟨k, v, e⟩ := w
    simp only [Cache.writes]
    rw [ih (fun w hw => hf w (List.mem_cons_of_mem _ hw))]
    rw [deleteKeys_write c ks now k v e (hf (k, v, e) (List.mem_cons_self ..))]

/-- … hence, with `ks` the keys found by the scan, every key of the map ends as after the
    atomic `clearExpired` followed by the writes -/
theorem gc_two_phase_refines_clearExpired {α : Type} (c : Cache α) (keys : List String) (now : Nat)
    (ws : List (String × α × Nat)) (hf : ∀ w ∈ ws, expired w.2.2 now = false)
    (hkeys : ∀ k, k ∈ keys ∨ c k = none) :
    (c.writes ws).deleteKeys (c.scanExpired keys now) now = (c.clearExpired now).writes ws := by
  rw [gc_two_phase_refines _ now ws hf]
  congr 1
  funext k
  exact gc_two_phase_atomic c keys now k (hkeys k)

/-- non-vacuity: the entry renewed between the phases survives, the untouched expired one is collected -/
example :
    let c : Cache Nat := fun k => if k = "a" then some (1, 10) else if k = "b" then some (2, 10) else none
    let ks := c.scanExpired ["a", "b"] 11
    let c' := (c.writes [("a", 7, 5011)]).deleteKeys ks 11
    ks = ["a", "b"] ∧ c' "a" = some (7, 5011) ∧ c' "b" = none := by decide

/-! ### no bound anywhere: volume -/

/-- **other_accepts_preserve** — accepting any number of reports for OTHER work ids (any blocks)
    leaves what the node knows about `w` untouched: there is no capacity after which a live record
    is dropped -/
theorem other_accepts_preserve (cfg : Cfg) (w : String) (us : List (String × Nat)) (hne : ∀ u ∈ us, u.1 ≠ w) :
    ∀ (s : St), (us.foldl (fun s u => (accept cfg s u.1 u.2).1) s).cache w = s.cache w ∧
      (us.foldl (fun s u => (accept cfg s u.1 u.2).1) s).now = s.now := by
  induction us with
  | nil => intro s; exact ⟨rfl, rfl⟩
  | cons u us ih =>
    intro s
    have hu : ¬ w = u.1 := fun hc => hne u (List.mem_cons_self ..) hc.symm
    obtain ⟨h1, h2⟩ := ih (fun v hv => hne v (List.mem_cons_of_mem _ hv)) (accept cfg s u.1 u.2).1
    simp only [List.foldl_cons]
    rw [h1, h2]
    rcases accept_cases cfg s u.1 u.2 with ⟨_, hst, _⟩ | ⟨_, hst, _⟩
    · rw [hst]; simp [cacheAfterAccept, hu]
    · rw [hst]; exact ⟨rfl, rfl⟩

/-- **unknown_events_skipped** — events for work ids without a live record change nothing, however
    many of them stand in front of the relevant ones in a provider answer: the state after polling
    `pad ++ evs` is the state after polling `evs` (no batch bound) -/
theorem unknown_events_skipped (cfg : Cfg) (pad : List Event) :
    ∀ (sys : Sys), (∀ e ∈ pad, sys.st.cache.get e.workID sys.st.now = none) →
      (pad.foldl (stepEvent cfg) sys).st = sys.st := by
  induction pad with
  | nil => intro sys _; rfl
  | cons e es ih =>
    intro sys h
    have hnone := h e (List.mem_cons_self ..)
    have hst : (stepEvent cfg sys e).st = sys.st := by
      rcases pollEvent_cases cfg sys.st e with ⟨_, hs⟩ | ⟨_, _, v, hget, _⟩ | ⟨_, _, v, hget, _⟩
      · simp [stepEvent, hs]
      · rw [hnone] at hget; cases hget
      · rw [hnone] at hget; cases hget
    simp only [List.foldl_cons]
    rw [ih (stepEvent cfg sys e) (by rw [hst]; exact fun e' he' => h e' (List.mem_cons_of_mem _ he')), hst]

/-! ### reads are read-only

`Cache.get`, `shouldTransmit`, `shouldProcess`, `proposalAllowed` and the filters take a state and
return an answer — no state: in the model a read cannot change any later answer (the fact
extractor is asked to check that `Cache.Get` calls neither `Delete` nor `Set`).  The two theorems
say why that matters: an evicting `Get` would be harmless only as ONE atomic step. -/

/-- an evicting `Get` executed atomically answers like `Get` and leaves every later `Get` unchanged -/
theorem evicting_get_atomic_invisible {α : Type} (c : Cache α) (k k' : String) (now now' : Nat) (h : now ≤ now') :
    (c.getEvict k now).1 = c.get k now ∧ ((c.getEvict k now).2).get k' now' = c.get k' now' := by
  unfold Cache.getEvict Cache.get
  cases hk : c k with
  | none => simp [hk]
  | some p =>
    obtain ⟨v, e⟩ := p
    cases hx : expired e now with
    | false => simp [hx, hk]
    | true =>
      have hx' := expired_mono (d := now' - now) hx
      rw [show now + (now' - now) = now' by omega] at hx'
      by_cases hkk : k' = k
      · subst hkk; simp [hx, hk, hx']
      · simp [hx, hkk]

/-- **evict_on_read_race_drops_fresh_record** — but read and delete are two steps (the read lock is
    released in between): a reader finds the expired record of `w`, `Accept(w, 3)` rewrites it, the
    reader deletes the key.  `Accept` answered true and the log says `(w, 3)` is awaited, yet the
    report is no longer offered for transmission (and `w` would be processed again). -/
theorem evict_on_read_race_drops_fresh_record :
    let cfg : Cfg := ⟨0, 5000⟩
    let sys1 := run cfg [.accept "w" 7, .advance 5001]              -- record expired, not collected
    let seenExpired := (sys1.st.cache.get "w" sys1.st.now).isNone    -- reader, step 1
    let sys2 := stepAccept cfg sys1 "w" 3                            -- Accept in between: succeeds
    let st3 := { sys2.st with cache := sys2.st.cache.deleteKeysOld ["w"] }   -- reader, step 2: Delete
    seenExpired = true ∧ sys2.log.head? = some (.accept 5001 "w" 3 true) ∧
    transmitOk cfg sys2.log st3.now "w" 3 = true ∧ shouldTransmit sys2.st "w" 3 = true ∧
    shouldTransmit st3 "w" 3 = false := by
  decide

/-! ### the reading "seen = processed while the record existed" is the weaker one -/

/-- **visited_masks_old_event** — the stronger reading ("no sufficiently confirmed event
    for `(w, ≥ b)` was ever handed to the node inside the window") does NOT hold: an
    event for check block 15 that arrives while the node waits for block 20 is marked
    visited as an *old* event (record untouched); the record for 20 expires 1 ns
    later while the visited mark lives on; the node then accepts block 15; the
    same confirmed perform event is reported again, skipped as visited, and the node
    offers `(w, 15)` for transmission. -/
theorem visited_masks_old_event :
    let cfg : Cfg := ⟨1, 5000⟩
    let ev : Event := ⟨"w", "aa", performEvent, 30, 15, 3⟩
    let sys := run cfg [.accept "w" 20, .advance 5000, .poll [ev], .advance 1, .accept "w" 15, .advance 1, .poll [ev]]
    shouldTransmit sys.st "w" 15 = true ∧
    sys.log = [.event 5002 ev .visited, .accept 5001 "w" 15 true, .event 5000 ev .old, .accept 0 "w" 20 true] := by
  decide

/-! ### interleaving of `Accept` with the event loop -/

private def raceCfg : Cfg := ⟨1, 5000⟩
private def raceEv : Event := ⟨"w", "aa", performEvent, 30, 10, 3⟩
private def raceS0 : St := (run raceCfg [.accept "w" 5]).st
private def raceLog0 : List LogE := (run raceCfg [.accept "w" 5]).log

/-- **race_breaks_transmit_only_if** (code before the mutex): with the record for `w`
    awaiting block 5, the schedule `E.get, A.get, E.set, A.set` of the event body for a
    confirmed perform of `(w, 10)` and `Accept(w, 10)` ends with `Accept = true` and
    `ShouldTransmit(w, 10) = true` although the event was processed (`newer`).
    Whichever way the two overlapping operations are ordered in the log, the Spec is
    violated, and no sequential order of the two operations produces this outcome. -/
theorem race_breaks_transmit_only_if :
    let c := crun raceCfg false (Conc.start raceS0 [[.event raceEv], [.accept "w" 10]]) [0, 1, 0, 1]
    shouldTransmit c.st "w" 10 = true ∧
    c.done.map (·.2) = [.accept 0 "w" 10 true, .event 0 raceEv .newer] ∧
    transmitOk raceCfg (.event 0 raceEv .newer :: .accept 0 "w" 10 true :: raceLog0) 0 "w" 10 = false ∧
    acceptOk false raceCfg (.event 0 raceEv .newer :: raceLog0) 0 "w" 10 = false ∧
    shouldTransmit (seqJobs raceCfg raceS0 [.event raceEv, .accept "w" 10]).1 "w" 10 = false ∧
    shouldTransmit (seqJobs raceCfg raceS0 [.accept "w" 10, .event raceEv]).1 "w" 10 = false := by
  decide

/-- **atomic_refines**: with the coordinator mutex (a Get-step needs it, the Set-step
    releases it) every schedule of any number of threads, each running any list of
    `Accept`s and event bodies in two steps, is equivalent to executing the completed
    operations one after the other in completion order — same shared state, same
    answers and dispositions.  Every history of the interleaved system is therefore a
    history of the sequential model, to which the theorems above apply.
    (Clock fixed during the episode; `ShouldTransmit` and the filters are single
    `Get`s and need no mutex.) -/
theorem atomic_refines (cfg : Cfg) (s0 : St) (progs : List (List Job)) (sched : List Nat) :
    let c := crun cfg true (Conc.start s0 progs) sched
    seqJobs cfg s0 (c.done.reverse.map (·.1)) = (c.st, c.done) :=
  (cinv_run sched (cinv_start cfg s0 progs)).seq

/-- with the mutex the same schedule blocks `A.get` until `E.set` is done; `Accept(w, 10)` is then refused -/
example :
    let c := crun raceCfg true (Conc.start raceS0 [[.event raceEv], [.accept "w" 10]]) [0, 1, 0, 1, 1]
    shouldTransmit c.st "w" 10 = false ∧
    c.done.map (·.2) = [.accept 0 "w" 10 false, .event 0 raceEv .newer] := by
  decide

/-! ### acceptance racing the event loop: every finished schedule is a linearisation -/

/-- **finished_is_linearization**: with the coordinator mutex, once every thread has run its
    program to the end, the completion order is an interleaving of the thread programs
    (program order kept, `merges`), and executing that order sequentially gives exactly the
    shared state and the answers / dispositions of the concurrent run — for any number of
    threads, any programs, any schedule. -/
theorem finished_is_linearization (cfg : Cfg) (s0 : St) (progs : List (List Job)) (sched : List Nat) :
    let c := crun cfg true (Conc.start s0 progs) sched
    (∀ th ∈ c.threads, th.jobs = []) →
    ∃ ord ∈ merges (totalJobs progs) progs,
      ord.map (·.2) = c.done.reverse.map (·.1) ∧ seqJobs cfg s0 (ord.map (·.2)) = (c.st, c.done) := by
  intro c hfin
  have hm : MInv progs c.threads c.done := minv_run cfg true sched (by simpa [Conc.start] using minv_start progs)
  obtain ⟨tord, ht, hi⟩ := hm.ord
  have hnil : Interleave (c.threads.map (·.jobs)) [] := by
    refine Interleave.nil ?_
    rw [List.all_eq_true]
    intro l hl
    obtain ⟨th, hth, rfl⟩ := List.mem_map.mp hl
    simp [hfin th hth]
  have hint : Interleave progs tord := by simpa using hi [] hnil
  refine ⟨tord, hint.mem_merges _ (by rw [hint.length]; exact Nat.le_refl _), ht, ?_⟩
  rw [ht]
  exact atomic_refines cfg s0 progs sched

/-- **finished_observation_allowed**: what can be observed of a finished episode under the
    mutex — the per-thread `Accept` answers and any probes of the final state — passes the race
    clause `linOk` of the Spec: it is the observation of the sequential order `ord`, whose final
    state is the concurrent run's and whose answers are the ones recorded in the run's log. -/
theorem finished_observation_allowed (cfg : Cfg) (utype : String → UpkeepType) (s0 : St) (progs : List (List Job))
    (sched : List Nat) (w uid : String) (pr : Probes) :
    let c := crun cfg true (Conc.start s0 progs) sched
    (∀ th ∈ c.threads, th.jobs = []) →
    ∃ ord : List (Nat × Job),
      (runTagged cfg s0 ord).1 = c.st ∧
      (runTagged cfg s0 ord).2.map (·.2) = c.done.reverse.filterMap answerOf ∧
      linOk cfg utype s0 progs w uid pr (observe cfg utype progs.length w uid pr (runTagged cfg s0 ord)) = true := by
  intro c hfin
  obtain ⟨ord, hmem, _, hseq⟩ := finished_is_linearization cfg s0 progs sched hfin
  refine ⟨ord, ?_, ?_, ?_⟩
  · rw [runTagged_state, hseq]
  · rw [runTagged_answers, hseq]
  · simp only [linOk, linOutcomes, List.contains_eq_mem, List.mem_map, decide_eq_true_eq]
    exact ⟨ord, hmem, rfl⟩

/-- every sequential order's observation is allowed (the Spec never asks for a particular order) -/
theorem linOk_of_order (cfg : Cfg) (utype : String → UpkeepType) (s0 : St) (progs : List (List Job)) (w uid : String)
    (pr : Probes) (ord : List (Nat × Job)) (h : ord ∈ merges (totalJobs progs) progs) :
    linOk cfg utype s0 progs w uid pr (observe cfg utype progs.length w uid pr (runTagged cfg s0 ord)) = true := by
  simp only [linOk, linOutcomes, List.contains_eq_mem, List.mem_map, decide_eq_true_eq]
  exact ⟨ord, h, rfl⟩

private def linCfg : Cfg := ⟨1, 100000⟩
private def linEv12 : Event := ⟨"w", "aa", performEvent, 21, 12, 5⟩
private def linS0 : St := (run linCfg [.accept "w" 10]).st
private def linProbes : Probes := ⟨[10, 11, 12], [20, 21], [11, 12, 13]⟩
private def linU : String → UpkeepType := fun _ => .condition

/-- **lost_update_not_linearizable**: the node awaits block 10; one answer of the provider holds
    the confirmed perform of the NEWER report `(w, 12)`; `Accept(w, 11)` is called meanwhile.
    If `Accept` takes its decision from a record read before the event body runs and writes
    after it (schedule `A.get, E.get, E.set, A.set` of the unmutexed step machine — also what
    "read without the mutex, lock only around the write" produces), then `Accept(w, 11)` answers
    true, `(w, 11)` is offered for transmission, the work counts as in flight again and
    `(w, 12)` would be accepted anew: an observation the race clause rejects.  Both sequential
    orders end in `{12, performed}`, and with the mutex the same schedule does too. -/
theorem lost_update_not_linearizable :
    let progs : List (List Job) := [[.event linEv12], [.accept "w" 11]]
    let c := crun linCfg false (Conc.start linS0 progs) [1, 0, 0, 1]
    let o := observe linCfg linU 2 "w" "u" linProbes (c.st, [(1, true)])
    c.done.map (·.2) = [.accept 0 "w" 11 true, .event 0 linEv12 .newer] ∧
    o = ⟨[[], [true]], [false, true, false], [false, false], [false, true, true]⟩ ∧
    linOk linCfg linU linS0 progs "w" "u" linProbes o = false ∧
    linOutcomes linCfg linU linS0 progs "w" "u" linProbes =
      [⟨[[], [false]], [false, false, false], [false, true], [false, false, true]⟩,
       ⟨[[], [true]], [false, false, false], [false, true], [false, false, true]⟩] ∧
    (let m := crun linCfg true (Conc.start linS0 progs) [1, 0, 0, 1, 1, 0, 0]
     (∀ th ∈ m.threads, th.jobs = []) ∧
     linOk linCfg linU linS0 progs "w" "u" linProbes (observe linCfg linU 2 "w" "u" linProbes (m.st, [(1, true)])) = true) := by
  decide

/-- the race clause is not a fixed expectation: when the operations do not commute, each
    order's outcome is allowed (no record yet: the event counts only if the acceptance came
    first), and an answer no order gives is rejected (the same report accepted twice at once) -/
example :
    let ev : Event := ⟨"w", "aa", performEvent, 21, 11, 5⟩
    let pr : Probes := ⟨[11], [21], [11, 12]⟩
    linOutcomes linCfg linU (St.init 0) [[.event ev], [.accept "w" 11]] "w" "u" pr =
      [⟨[[], [true]], [true], [false], [false, true]⟩, ⟨[[], [true]], [false], [true], [false, true]⟩] ∧
    linOk linCfg linU linS0 [[.accept "w" 11], [.accept "w" 11]] "w" "u" pr ⟨[[true], [false]], [true], [false], [false, true]⟩ = true ∧
    linOk linCfg linU linS0 [[.accept "w" 11], [.accept "w" 11]] "w" "u" pr ⟨[[false], [true]], [true], [false], [false, true]⟩ = true ∧
    linOk linCfg linU linS0 [[.accept "w" 11], [.accept "w" 11]] "w" "u" pr ⟨[[true], [true]], [true], [false], [false, true]⟩ = false := by
  decide

end AutoVerif.C06
