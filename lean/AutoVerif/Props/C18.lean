import AutoVerif.Spec.C18
import AutoVerif.Lemmas.C18
import AutoVerif.Lemmas.C18Trace
import AutoVerif.Lemmas.C18X
import AutoVerif.Gen.Consts
/-
C18 — Close stops everything a plugin started; a panicking flow is contained.

The property as stated (properties.jsonl):

    for EVERY timing of Close relative to service start-up, ticks and in-progress pipeline runs,
    Close makes every background service return and leaves no goroutine of the instance running
    or restarting, and does not deadlock; a panic in a provider, pipeline or post-processor call
    is contained: the process survives, the other flows keep running, the affected flow resumes
    after at most the restart cool-down.

This statement is FALSE of the code as it is (and of this model of it).  The file therefore holds
  * the counter-example theorems, each an explicit schedule of the model
    (`close_before_running_leaks`, `close_before_service_start_leaks`, `close_during_cooldown_restarts`; for the pre-fix
    Close `close_signal_dropped_old`, `close_signal_dropped_after_restart_old`) with what is permanent about each,
  * the part that is true, for every schedule of any length: `close_stops_all_partial`
    (hypothesis: start-up has quiesced — `settled`: serviceStart parked in its select with the running flag
    set and the wrapped service in its loop; then Close, called at ANY later point — mid-tick, during a
    cool-down, racing a panic — returns, and when the system comes to rest nothing is left), `stop_signal_never_lost`
    (from a fresh recoverer, any timing: a Close that passed the running check always gets its stop signal through),
    `close_never_blocks` (from a fresh recoverer, any timing, any number of Close calls), `system_steps_terminate`,
    and containment of panics where they are raised: `process_panic_contained`, `worker_panic_contained`,
    `events_panic_contained` for the current tree, with `process_panic_escapes_old`, `worker_panic_escapes_old`,
    `service_goroutine_panic_never_resumes_old` for the tree before the respective fix (and, the last one, for any
    start-once service whose own goroutine panics).
PARTIAL by nature: goroutine identity, real panics, process survival and the scheduler are runtime facts;
the model carries the bookkeeping (program counters, the capacity-1 channel with Go's hand-off rule, the
StateMachine, the cool-down timer).  Fairness is an assumption: `system_steps_terminate` bounds the number of
the system's own steps, it does not make the Go scheduler take them.

All "for every schedule" theorems are proved by reflection (Lemmas/C18: a finite set of states closed
under every step, checked by kernel evaluation) and quantify over schedules of unbounded length.
-/
namespace AutoVerif.C18

/-! ### closure sets (private machinery) -/

/-- every state reachable from `settled` with at most one Close call, any faults -/
private def KS : List Nat := explore oneClose 5000 [encode settled] []

/-- what is checked on every member of `KS` (the conjuncts of `close_stops_all_partial` and of
    `service_goroutine_panic_never_resumes`) -/
private def PS (c : Core) : Bool :=
  (!terminal c || !decide (c.cpc = .ret) || (c.clean && decide (c.cres = .ok))) &&
  !c.dropped && decide (c.gs ≤ 1) &&
  (!c.panicked || (decide (c.nRun = 0) && decide (c.nStarting = 0)))

set_option maxRecDepth 100000 in
private theorem KS_facts :
    (closedK oneClose KS && KS.contains (encode settled) && KS.all (fun k => PS (decode k))) = true := by decide +kernel

private theorem KS_closed : closedK oneClose KS = true := by
  have h := KS_facts; simp only [Bool.and_eq_true] at h; exact h.1.1
private theorem settled_inKS : InK KS settled := by
  have h := KS_facts; simp only [Bool.and_eq_true] at h; exact inK_of_roundtrip h.1.2 (by decide)
private theorem KS_all {sched : List CLabel} {c : Core} (hs : Sched oneClose sched) (hr : runC settled sched = some c) : PS c = true := by
  have h := KS_facts; simp only [Bool.and_eq_true] at h
  exact allK h.2 (closedK_sound KS_closed sched settled c settled_inKS hs hr)

private theorem terminal_stuck {c : Core} (ht : terminal c = true) :
    ∀ (sched : List CLabel) (c' : Core), Sched sysLabels sched → runC c sched = some c' → c' = c := by
  intro sched c' hs hr
  cases sched with
  | nil => simp [runC] at hr; exact hr.symm
  | cons l ls =>
    exfalso
    simp only [runC] at hr
    cases hstep : stepCore c l with
    | none => simp [hstep] at hr
    | some c1 =>
      have : c1 ∈ sysLabels.filterMap (stepCore c) := by
        simp only [List.mem_filterMap]
        exact ⟨l, hs l (by simp), hstep⟩
      simp only [terminal, List.isEmpty_iff] at ht
      simp [ht] at this

/-! ### (a) Close before `running.Store(true)` — KNOWN FINDING -/

/-- Close issued before serviceStart stored the running flag returns "not running" without touching the
    service, which then starts and runs: an explicit schedule of the model. -/
theorem close_before_running_leaks :
    runC init schedCloseBeforeRunning = some leakA ∧
    leakA.cres = .notRunning ∧ leakA.cpc = .ret ∧ leakA.running = true ∧ leakA.spc = .parked ∧ leakA.nRun = 1 ∧
    leakA.alive = true := by decide

/-- … and nothing the system does on its own ever changes that: no system step is enabled in `leakA`
    (so every schedule without a further Close and without a panic leaves it where it is), while the
    service keeps ticking. -/
theorem close_before_running_leak_permanent :
    (∀ sched c, Sched sysLabels sched → runC leakA sched = some c → c = leakA) ∧
    (step current { core := leakA, procs := 0, workers := 0, crashed := false } .tick).isSome = true :=
  ⟨terminal_stuck (by decide), by decide⟩

/-- a second Close, issued after start-up has quiesced, does stop the services leaked by (a)
    (this is how the harness ends its bubble) -/
theorem close_before_running_second_close_repairs :
    (runC leakA [.closeAgain, .cLoad, .cSvcClose, .gStopSeen, .gSendNil, .cWaitDone, .cSignal, .sSel, .sClear]).map
      (fun c => (c.clean, c.cres)) = some (true, .ok) := by decide

example : leakA ≠ settled := by decide

/-! ### (b) Close after `running.Store(true)` but before the service's StartOnce -/

theorem close_before_service_start_leaks :
    runC init schedCloseBeforeServiceStart = some leakB ∧
    leakB.cres = .svcRefused ∧ leakB.running = false ∧ leakB.spc = .done ∧ leakB.nRun = 1 ∧ leakB.alive = true := by decide

private def KB : List Nat := explore noPanic 2000 [encode leakB] []
private def PB (c : Core) : Bool :=
  decide (c.nRun = 1) && !c.running && (decide (c.cres = .svcRefused) || decide (c.cres = .notRunning))
set_option maxRecDepth 100000 in
private theorem KB_facts :
    (closedK noPanic KB && KB.contains (encode leakB) && KB.all (fun k => PB (decode k))) = true := by decide +kernel

/-- (b) cannot be repaired from outside: whatever is scheduled afterwards — any number of further Close
    calls included — the service loop keeps running and every further Close returns "not running". -/
theorem close_before_service_start_leak_permanent :
    ∀ sched c, Sched noPanic sched → runC leakB sched = some c →
      c.nRun = 1 ∧ c.running = false ∧ (c.cres = .svcRefused ∨ c.cres = .notRunning) := by
  intro sched c hs hr
  have hf := KB_facts
  simp only [Bool.and_eq_true] at hf
  have h := allK hf.2 (closedK_sound hf.1.1 sched leakB c (inK_of_roundtrip hf.1.2 (by decide)) hs hr)
  simp only [PB, Bool.and_eq_true, Bool.or_eq_true, Bool.not_eq_true', decide_eq_true_eq] at h
  exact ⟨h.1.1, h.1.2, h.2⟩

/-! ### (c) Close's stop signal: lost before the fix, never lost now -/

/-- PRE-FIX code (`stepCoreOld`: Close made one non-blocking send).  If serviceStart is between `running.Store(true)` and
    its `select` while Close runs, the nil returned by the service's Start is buffered in `stopped` (capacity 1), Close's
    non-blocking send finds the channel full and drops `errServiceContextCancelled`; serviceStart then reads nil, ignores
    it and waits for ever with the flag still set.  The service itself is stopped; one goroutine is leaked and `Close`
    reported success.  (Observed on the real pre-fix code with the `verif` hooks compiled in — the recorded trace was this
    schedule — and repaired by "fix: recoverer: Close could lose its stop signal and leave the watcher running".) -/
theorem close_signal_dropped_old :
    runCOld init schedSignalDropped = some leakC ∧
    leakC.dropped = true ∧ leakC.cres = .ok ∧ leakC.running = true ∧ leakC.spc = .parked ∧ leakC.gs = 0 ∧ leakC.alive = true ∧
    (∀ sched c, Sched sysLabels sched → runC leakC sched = some c → c = leakC) :=
  ⟨by decide, by decide, by decide, by decide, by decide, by decide, by decide, terminal_stuck (by decide)⟩

/-- PRE-FIX code: the signal was lost on a settled recoverer too, after a panic and a full cool-down (schedule in Model) -/
theorem close_signal_dropped_after_restart_old :
    (runCOld settled schedSignalDroppedAfterRestart).map (fun c => (c.dropped, c.cres, c.running, c.spc, c.gs, terminal c)) =
      some (true, .ok, true, .parked, 0, true) := by decide

/-- the same two interleavings with the Close of the current code: the send attempt finds the channel full, the drain
    attempt takes the obsolete message out, the next attempt succeeds, serviceStart receives the stop signal — clean -/
theorem close_signal_not_dropped :
    (runC init [.sInit, .sSpawn, .gCall, .gStarted, .sStore, .closeCall, .cLoad, .cSvcClose, .gStopSeen, .gSendNil, .cWaitDone,
        .cSignal, .cDrain, .cSignal, .sSel, .sClear]).map (fun c => (c.clean, c.cres, c.dropped, terminal c)) = some (true, .ok, false, true) ∧
    (runC settled [.gPanic, .gSendStopped, .coolElapsed, .closeCall, .cLoad, .cSvcClose, .cWaitDone, .sRespawn, .gCall, .gSendErr,
        .cSignal, .cDrain, .cSignal, .sSel, .sClear]).map (fun c => (c.clean, c.cres, c.dropped, terminal c)) = some (true, .ok, false, true) := by
  decide

private def K0 : List Nat := explore oneClose 50000 [encode init] []
private def K0L : List Nat := explore oneClose 50000 [encode initL] []
private def PN (c : Core) : Bool :=
  (!terminal c || !decide (c.cpc = .ret) || decide (c.cres = .notRunning) || (decide (c.spc = .done) && !c.running)) && !c.dropped
set_option maxRecDepth 100000 in
private theorem K0_facts :
    (closedK oneClose K0 && K0.contains (encode init) && K0.all (fun k => PN (decode k))) = true := by decide +kernel
set_option maxRecDepth 100000 in
private theorem K0L_facts :
    (closedK oneClose K0L && K0L.contains (encode initL) && K0L.all (fun k => PN (decode k))) = true := by decide +kernel

/-- THE STOP SIGNAL IS NEVER LOST (current code, both service kinds).  From a fresh recoverer, for EVERY schedule — Close
    at any point of start-up, of normal operation, of a cool-down, racing the service's own result, its panic, the restart —
    and every state reached: Close never gives its signal up (`dropped` stays false), and whenever the system has come to
    rest after a Close that passed the running check (it did not return "not running"), serviceStart HAS received
    errServiceContextCancelled: it has cleared the flag and returned.  With `system_steps_terminate` (Close's loop included:
    every failed send attempt is paid for by a message leaving the channel, and only finitely many can ever be sent) this
    is: after such a Close, serviceStart eventually receives the stop signal, under the sole assumption that the Go
    scheduler keeps running runnable goroutines.  (`ctx` is `context.Background()`: its `Done` case never fires.)
    What this does NOT give is the end of the wrapped service when Close was refused by it — known finding (b). -/
theorem stop_signal_never_lost (latched : Bool) :
    ∀ sched c, Sched oneClose sched → runC (initOf latched) sched = some c →
      c.dropped = false ∧
      (terminal c = true → c.cpc = .ret → c.cres ≠ .notRunning → c.spc = .done ∧ c.running = false) := by
  intro sched c hs hr
  have key : PN c = true := by
    cases latched with
    | false =>
      have hf := K0_facts
      simp only [Bool.and_eq_true] at hf
      exact allK hf.2 (closedK_sound hf.1.1 sched init c (inK_of_roundtrip hf.1.2 (by decide)) hs (by simpa [initOf] using hr))
    | true =>
      have hf := K0L_facts
      simp only [Bool.and_eq_true] at hf
      exact allK hf.2 (closedK_sound hf.1.1 sched initL c (inK_of_roundtrip hf.1.2 (by decide)) hs (by simpa [initOf] using hr))
  simp only [PN, Bool.and_eq_true, Bool.or_eq_true, Bool.not_eq_true', decide_eq_true_eq, decide_eq_false_iff_not] at key
  refine ⟨key.2, ?_⟩
  intro ht hc hn
  rcases key.1 with ((h | h) | h) | h
  · simp [ht] at h
  · exact absurd hc h
  · exact absurd h hn
  · exact h

/-! ### what is true: Close on a recoverer whose start-up has quiesced -/

/-- FULL STATEMENT (false, see (a) (b)): for every schedule from `init` with one Close call at any point,
    every terminal state with `cpc = ret` is `clean`.

    PROVED PART.  Hypothesis `settled` = the recoverer has set its running flag AND serviceStart is parked in its
    select AND the wrapped service has completed StartOnce and sits in its loop (start-up has quiesced; in the
    harness: any Close issued at a virtual time > 0 after creation).  Then for EVERY schedule — Close called at any
    later point, any interleaving, ticks, a panic of the service goroutine before/while/after, the cool-down
    elapsing or not — and every state `c` reached:
     (i)   the system never comes to rest with Close half-way (Close returns: no deadlock);
     (ii)  if it has come to rest after Close returned, nothing is left: serviceStart returned, flag cleared, no
           recoverableStart / service goroutine, Close returned nil — unconditionally since the stop signal can no
           longer be dropped (before the fix: unless it was dropped, which needed a prior panic of the service goroutine);
     (iii) Close never gives its signal up;
     (iv)  there is never more than one recoverableStart/service goroutine.
    Missing for the full statement: the start-up races (a) (b) — known findings — and fairness (that the Go scheduler
    does take the system's remaining steps — their number is bounded by `system_steps_terminate`). -/
theorem close_stops_all_partial :
    ∀ sched c, Sched oneClose sched → runC settled sched = some c →
      (terminal c = true → c.cpc = .idle ∨ c.cpc = .ret) ∧
      (terminal c = true → c.cpc = .ret → c.clean = true ∧ c.cres = .ok) ∧
      c.dropped = false ∧
      c.gs ≤ 1 := by
  intro sched c hs hr
  have h := KS_all hs hr
  simp only [PS, Bool.and_eq_true, Bool.or_eq_true, Bool.not_eq_true', decide_eq_true_eq, decide_eq_false_iff_not] at h
  obtain ⟨⟨⟨h2, h3⟩, h4⟩, _⟩ := h
  refine ⟨nb_terminal c (nb_run sched settled c nb_settled hr), ?_, h3, h4⟩
  intro ht hc
  rcases h2 with (h2 | h2) | h2
  · simp [ht] at h2
  · exact absurd hc h2
  · exact h2

/-! #### the restartable service kind (result store: no StateMachine, close signal latched in a buffered channel) -/

private def KSL : List Nat := explore oneClose 5000 [encode settledL] []

private def PSL (c : Core) : Bool :=
  (!terminal c || decide (c.cpc = .idle) || decide (c.cpc = .ret)) &&
  (!terminal c || !decide (c.cpc = .ret) || (c.clean && decide (c.cres = .ok))) &&
  !c.dropped && decide (c.gs ≤ 1) && !decide (c.cres = .notRunning) && !decide (c.cres = .svcRefused)

set_option maxRecDepth 100000 in
private theorem KSL_facts :
    (closedK oneClose KSL && KSL.contains (encode settledL) && KSL.all (fun k => PSL (decode k))) = true := by decide +kernel

/-- `close_stops_all_partial` for the restartable kind — the one whose Start a panic can actually leave and re-enter:
    from a settled recoverer, for EVERY schedule with one Close at any point (in particular: after a panic of the
    service goroutine, anywhere inside the cool-down, at its very end, racing the restart, after the restart) and
    every state reached: (i) the system never rests with Close half-way, (ii) at rest after Close nothing is left and
    Close returned nil, (iii) Close never gives its signal up, (iv) at most one service goroutine, and (v) Close is
    NEVER refused — neither "not running" nor a refusal by the service: the recoverer keeps `running` set throughout
    the cool-down, which is exactly what makes a Close in the cool-down effective (the latched close signal stops the
    restarted Start, the buffered cancel stops serviceStart). -/
theorem close_stops_all_partial_restartable :
    ∀ sched c, Sched oneClose sched → runC settledL sched = some c →
      (terminal c = true → c.cpc = .idle ∨ c.cpc = .ret) ∧
      (terminal c = true → c.cpc = .ret → c.clean = true ∧ c.cres = .ok) ∧
      c.dropped = false ∧
      c.gs ≤ 1 ∧ c.cres ≠ .notRunning ∧ c.cres ≠ .svcRefused := by
  intro sched c hs hr
  have hf := KSL_facts
  simp only [Bool.and_eq_true] at hf
  have h := allK hf.2 (closedK_sound hf.1.1 sched settledL c (inK_of_roundtrip hf.1.2 (by decide)) hs hr)
  simp only [PSL, Bool.and_eq_true, Bool.or_eq_true, Bool.not_eq_true', decide_eq_true_eq, decide_eq_false_iff_not] at h
  obtain ⟨⟨⟨⟨⟨h1, h2⟩, h3⟩, h4⟩, h5⟩, h6⟩ := h
  refine ⟨?_, ?_, h3, h4, h5, h6⟩
  · intro ht; rcases h1 with (h1 | h1) | h1
    · simp [ht] at h1
    · exact Or.inl h1
    · exact Or.inr h1
  · intro ht hc
    rcases h2 with (h2 | h2) | h2
    · simp [ht] at h2
    · exact absurd hc h2
    · exact h2

/-- … with the two runs the harness drives on the real result store: a panic that escapes Start is followed, one
    cool-down later, by a restart after which the loop runs again; a Close anywhere inside that cool-down returns nil
    at once and, when the cool-down is over, nothing is left -/
theorem restartable_service_resumes_and_closes_in_cooldown :
    (runC settledL schedRestart).map (fun c => (c.nRun, c.spc, c.running, c.panicked)) = some (1, .parked, true, true) ∧
    (runC settledL [.gPanic, .gSendStopped, .closeCall, .cLoad, .cSvcClose, .cSignal]).map
      (fun c => (c.cpc, c.cres, c.spc, c.running, c.latch && c.buf == some .cancelled)) = some (.ret, .ok, .cool, true, true) ∧
    (runC settledL schedCloseDuringCoolDownL).map (fun c => (c.clean, c.cres, terminal c)) = some (true, .ok, true) :=
  ⟨by decide, by decide, by decide⟩

/-- the hypotheses are met by a non-trivial run: Close in the middle of normal operation, fair completion -/
example : (runC settled [.closeCall, .cLoad, .cSvcClose, .gStopSeen, .gSendNil, .cWaitDone, .cSignal, .sSel, .sClear]).map
    (fun c => (terminal c, c.cpc, c.dropped, c.clean, c.cres)) = some (true, .ret, false, true, .ok) := by decide
example : runC init startUp = some settled := by decide

/-- Close never waits for ever, whenever it is called — start-up races, repeated Close calls and panics
    included: from a fresh recoverer, for EVERY schedule over ALL labels, the system cannot come to rest while a
    Close is in progress (it waits only for the service's `done`, and `NB` shows a started service has either
    closed `done` or still has its goroutine in the loop, which sees the closed stop channel). -/
theorem close_never_blocks :
    ∀ sched c, runC init sched = some c → terminal c = true → c.cpc = .idle ∨ c.cpc = .ret := by
  intro sched c hr ht
  exact nb_terminal c (nb_run sched init c nb_init hr) ht

example : (runC init schedCloseBeforeServiceStart).map (fun c => (terminal c, c.cpc)) = some (true, .ret) := by decide

/-- Every step the system takes on its own (goroutines of the recoverer and the service, a Close in progress,
    the cool-down timer) strictly lowers `potential`, in EVERY state (reachable or not): a run of system steps
    from `c` has at most `potential c` steps, so — given a fair scheduler — a terminal state is reached. -/
theorem system_steps_terminate :
    ∀ (sched : List CLabel) (c c' : Core), Sched sysLabels sched → runC c sched = some c' →
      potential c' + sched.length ≤ potential c := by
  intro sched
  induction sched with
  | nil => intro c c' _ hr; simp [runC] at hr; simp [hr]
  | cons l ls ih =>
    intro c c' hs hr
    simp only [runC] at hr
    cases hstep : stepCore c l with
    | none => simp [hstep] at hr
    | some c1 =>
      simp only [hstep] at hr
      have h1 := potential_decreases c c1 l (hs l (by simp)) hstep
      have h2 := ih c1 c' (fun x hx => hs x (by simp [hx])) hr
      simp only [List.length_cons]; omega

example : potential settled = 8 ∧ potential init = 14 := by decide

/-! ### Close during the restart cool-down -/

/-- Close called while serviceStart sits in `<-time.After(coolDown)` returns nil at once, although the recoverer
    is not finished: after Close has returned it still spawns a new `recoverableStart` goroutine when the
    cool-down elapses ("restarting afterwards").  The restarted goroutine cannot start the (start-once) service
    again and everything ends clean — up to one cool-down after Close returned. -/
theorem close_during_cooldown_restarts :
    -- Close has returned nil, serviceStart still in the cool-down
    (runC init (startUp ++ [.gPanic, .gSendStopped, .closeCall, .cLoad, .cSvcClose, .cWaitDone, .cSignal])).map
      (fun c => (c.cpc, c.cres, c.spc, c.gs, c.buf)) = some (.ret, .ok, .cool, 0, some .cancelled) ∧
    -- the cool-down elapses: a goroutine is spawned after Close returned
    (runC init (startUp ++ [.gPanic, .gSendStopped, .closeCall, .cLoad, .cSvcClose, .cWaitDone, .cSignal, .coolElapsed, .sRespawn])).map
      (fun c => (c.cpc, c.spc, c.nCall)) = some (.ret, .sel, 1) ∧
    -- fair completion: clean
    (runC init schedCloseDuringCoolDown).map (fun c => (c.clean, c.cres, terminal c)) = some (true, .ok, true) := by decide

/-! ### panics

`current` = the tree as it is (all three containment fixes); the `…_old` theorems are about the tree before the
respective fix (`Fixes` with that flag off) and are what the harness observes when a fix is reverted. -/

/-- a panic inside a `go Process` goroutine (provider `Value`, pre- or post-processor) is a step of the system that
    does not terminate it, leaves the recoverer / service state untouched and the ticker ticking -/
theorem process_panic_contained (fx : Fixes) (hf : fx.ticker = true) (s : State) (hc : s.crashed = false) (hp : 0 < s.procs) :
    ∃ s', step fx s .pPanic = some s' ∧ s'.crashed = false ∧ s'.core = s.core ∧ s'.procs = s.procs - 1 ∧
      (step fx s' .tick).isSome = (step fx s .tick).isSome := by
  refine ⟨{ s with procs := s.procs - 1 }, ?_, hc, rfl, rfl, ?_⟩
  · simp [step, hc, hf]; omega
  · simp only [step, hc]; split <;> simp

example : (run current settledS [.tick, .pPanic, .tick, .pFinish]).map (fun s => (s.crashed, s.core.nRun, s.procs)) = some (false, 1, 0) := by decide

/-- before "fix: time ticker: contain a panic raised while processing a tick": the same panic terminates the
    process — afterwards no step of anything is possible -/
theorem process_panic_escapes_old (fx : Fixes) (hf : fx.ticker = false) (s : State) (hc : s.crashed = false) (hp : 0 < s.procs) :
    ∃ s', step fx s .pPanic = some s' ∧ s'.crashed = true ∧ ∀ f l, step f s' l = none := by
  refine ⟨{ s with crashed := true }, ?_, rfl, ?_⟩
  · simp [step, hc, hf]; omega
  · intro f l; cases l <;> simp [step]

example : (run { current with ticker := false } settledS [.tick, .pPanic]).map (·.crashed) = some true := by decide

/-- a panic inside the check pipeline is raised on a worker-group goroutine; `runWorkItem` turns it into an error
    result: the process survives, the recoverer / service state is untouched, the worker is gone, the flow that
    submitted the job carries on (it can finish, and the ticker can tick again) -/
theorem worker_panic_contained (fx : Fixes) (hf : fx.worker = true) (s : State) (hc : s.crashed = false) (hw : 0 < s.workers) :
    ∃ s', step fx s .wPanic = some s' ∧ s'.crashed = false ∧ s'.core = s.core ∧ s'.procs = s.procs ∧ s'.workers = s.workers - 1 ∧
      (step fx s' .tick).isSome = (step fx s .tick).isSome ∧ (step fx s' .pFinish).isSome = (step fx s .pFinish).isSome := by
  refine ⟨{ s with workers := s.workers - 1 }, ?_, hc, rfl, rfl, rfl, ?_, ?_⟩
  · simp [step, hc, hf]; omega
  · simp only [step, hc]; split <;> simp
  · simp only [step, hc]; split <;> simp

example : (run current settledS [.tick, .pJob, .wPanic, .pFinish, .tick]).map (fun s => (s.crashed, s.core.nRun, s.procs, s.workers)) =
    some (false, 1, 1, 0) := by decide

/-- before "fix: worker group: a panicking work item becomes an error result…": no recover on the worker goroutine —
    the panic terminates the process whatever the ticker does -/
theorem worker_panic_escapes_old (fx : Fixes) (hf : fx.worker = false) (s : State) (hc : s.crashed = false) (hw : 0 < s.workers) :
    ∃ s', step fx s .wPanic = some s' ∧ s'.crashed = true ∧ ∀ f l, step f s' l = none := by
  refine ⟨{ s with crashed := true }, ?_, rfl, ?_⟩
  · simp [step, hc, hf]; omega
  · intro f l; cases l <;> simp [step]

example : (run { current with worker := false } settledS [.tick, .pJob, .wPanic]).map (·.crashed) = some true := by decide

/-- a panic inside the poll the coordinator's own goroutine performs (the transmit-event provider) is turned into an
    error by `safeCheckEvents`: nothing changes — the process survives, the service loop is still running, the
    recoverer is not involved (no cool-down), the next poll can take place and can panic again -/
theorem events_panic_contained (fx : Fixes) (hf : fx.poll = true) (s : State) (hc : s.crashed = false) (hr : 0 < s.core.nRun) :
    step fx s .pollPanic = some s ∧ (step fx s .pollPanic).map (fun s' => (s'.core.nRun, s'.core.panicked)) = some (s.core.nRun, s.core.panicked) := by
  have : s.core.nRun ≠ 0 := by omega
  simp [step, hc, hf, this]

example : (run current settledS [.pollPanic, .pollPanic, .tick]).map (fun s => (s.crashed, s.core.nRun, s.core.spc, s.core.panicked)) =
    some (false, 1, .parked, false) := by decide

/-- OCR2 report coordinator: a panic inside its log poll (log provider, encoder) is turned into an error by
    `safeCheckLogs`: nothing changes — the process survives, the poll loop is still running, the next poll can take
    place and can panic again -/
theorem v2_poll_panic_contained (fx : Fixes) (hf : fx.v2poll = true) (s : State) (hc : s.crashed = false) (hr : 0 < s.core.nRun) :
    step fx s .v2PollPanic = some s := by
  have : s.core.nRun ≠ 0 := by omega
  simp [step, hc, hf, this]

example : (run current settledS [.v2PollPanic, .v2PollPanic, .v2PollPanic]).map (fun s => (s.crashed, s.core.nRun)) = some (false, 1) := by decide

/-- before "fix: v2 coordinator: a panic while polling perform and stale report logs no longer kills the process":
    `run` is a bare goroutine (`go rc.run()`), nothing recovers — the process terminates -/
theorem v2_poll_panic_escapes_old (fx : Fixes) (hf : fx.v2poll = false) (s : State) (hc : s.crashed = false) (hr : 0 < s.core.nRun) :
    ∃ s', step fx s .v2PollPanic = some s' ∧ s'.crashed = true ∧ ∀ f l, step f s' l = none := by
  have : s.core.nRun ≠ 0 := by omega
  refine ⟨{ s with crashed := true }, ?_, rfl, ?_⟩
  · simp [step, hc, hf, this]
  · intro f l; cases l <;> simp [step]

example : (run { current with v2poll := false } settledS [.v2PollPanic]).map (·.crashed) = some true := by decide

/-- REPEATED panics: any number of contained panics — in Process goroutines, in worker goroutines, in the coordinator's
    poll — interleaved in any order with ticks, jobs and returns leave the recoverer / service state exactly as it was
    and the process alive: nothing about the protocol is consumed per panic (no cool-down, no restart, no flag), so
    the n-th panic is contained like the first, Close afterwards is the Close of `close_stops_all_partial`, and the
    ticker can always tick again.  (What the MODEL does not carry are resources of the real goroutines — a worker's
    place in the pool, a semaphore slot: that a containment leaks none of those per panic is checked on the real code
    by the harness's 1…12-panic sweeps at every site.) -/
theorem repeated_panics_contained :
    ∀ (sched : List Label) (s s' : State), (∀ l ∈ sched, ∀ cl, l ≠ .core cl) → run current s sched = some s' →
      s'.core = s.core ∧ s'.crashed = s.crashed ∧ (step current s' .tick).isSome = (step current s .tick).isSome := by
  intro sched
  induction sched with
  | nil => intro s s' _ h; simp [run] at h; subst h; simp
  | cons l ls ih =>
    intro s s' hl h
    simp only [run] at h
    cases hstep : step current s l with
    | none => simp [hstep] at h
    | some s1 =>
      simp only [hstep] at h
      obtain ⟨h1, h2, h3⟩ := ih s1 s' (fun x hx => hl x (by simp [hx])) h
      have key : s1.core = s.core ∧ s1.crashed = s.crashed := by
        cases l with
        | core cl => exact absurd rfl (hl (.core cl) (by simp) cl)
        | tick | pJob | pFinish | wFinish =>
          simp only [step] at hstep
          split at hstep
          · simp at hstep
          · simp at hstep; subst hstep; simp
        | pPanic | wPanic | pollPanic | v2PollPanic =>
          simp only [step, current] at hstep
          split at hstep
          · simp at hstep
          · simp at hstep; subst hstep; simp
      refine ⟨h1.trans key.1, h2.trans key.2, ?_⟩
      rw [h3]; simp only [step, key.1, key.2]; split <;> simp

example : (run current settledS [.tick, .pPanic, .tick, .pJob, .wPanic, .pPanic, .pollPanic, .tick, .pPanic, .pollPanic, .pollPanic,
    .tick, .pJob, .wPanic, .pFinish]).map (fun s => (s.crashed, s.core == settled)) = some (false, true) := by decide

/-- before "fix: coordinator: a panic while polling transmit events…" the poll's panic is a panic of the service's
    own goroutine (`gPanic`) — and for ANY start-once service whose own goroutine panics the following holds (it is
    the code as it is for such a panic; no flow of the current tree raises one from a fake): the recoverer waits the
    cool-down and restarts it, but the StateMachine refuses the second `Start` ("has already been started once") —
    for every schedule, once it has panicked the service loop never runs again, while the recoverer keeps reporting
    itself as running until Close. -/
theorem service_goroutine_panic_never_resumes_old :
    (∀ fx s, fx.poll = false → step fx s .pollPanic =
        if s.crashed ∨ s.core.nRun = 0 then none else (stepCore s.core .gPanic).map fun c => { s with core := c }) ∧
    (∀ sched c, Sched oneClose sched → runC settled sched = some c → c.panicked = true → c.nRun = 0 ∧ c.nStarting = 0) ∧
    (runC init schedServicePanic).map (fun c => (c.spc, c.running, c.nRun, c.gs, c.svc, terminal c)) =
      some (.parked, true, 0, 0, .started, true) := by
  refine ⟨?_, ?_, by decide⟩
  · intro fx s hf; simp [step, hf]
  · intro sched c hs hr hp
    have h := KS_all hs hr
    simp only [PS, Bool.and_eq_true, Bool.or_eq_true, Bool.not_eq_true', decide_eq_true_eq] at h
    rcases h.2 with h | h
    · simp [hp] at h
    · exact h

example : (run { current with poll := false } settledS (faultSched { current with poll := false } "eventsProvider")).map
    (fun s => (s.crashed, s.core.nRun, s.core.running)) = some (false, 0, true) := by decide

/-! ### the full system projects onto the core -/

/-- ticks, Process and worker goroutines never touch the recoverer/service protocol: every run of the full
    system is, on the core, a run of the core model — so the theorems above hold with any number of ticks and
    contained panics interleaved (an uncontained poll panic is the core step `gPanic`). -/
theorem run_projects_to_core (fx : Fixes) :
    ∀ (sched : List Label) (s s' : State), run fx s sched = some s' → ∃ cs, runC s.core cs = some s'.core := by
  intro sched
  induction sched with
  | nil => intro s s' h; simp [run] at h; exact ⟨[], by simp [runC, h]⟩
  | cons l ls ih =>
    intro s s' h
    simp only [run] at h
    cases hstep : step fx s l with
    | none => simp [hstep] at h
    | some s1 =>
      simp only [hstep] at h
      obtain ⟨cs, hcs⟩ := ih s1 s' h
      cases l with
      | core cl =>
        simp only [step] at hstep
        split at hstep
        · simp at hstep
        · cases hc : stepCore s.core cl with
          | none => simp [hc] at hstep
          | some c1 =>
            simp [hc] at hstep
            refine ⟨cl :: cs, ?_⟩
            simp only [runC, hc]
            rw [← hstep] at hcs; exact hcs
      | tick | pJob | pFinish | wFinish =>
        simp only [step] at hstep
        split at hstep
        · simp at hstep
        · simp at hstep; rw [← hstep] at hcs; exact ⟨cs, hcs⟩
      | pPanic | wPanic | v2PollPanic =>
        simp only [step] at hstep
        split at hstep
        · simp at hstep
        · split at hstep <;> (simp at hstep; rw [← hstep] at hcs; exact ⟨cs, hcs⟩)
      | pollPanic =>
        simp only [step] at hstep
        split at hstep
        · simp at hstep
        · split at hstep
          · simp at hstep; rw [← hstep] at hcs; exact ⟨cs, hcs⟩
          · cases hc : stepCore s.core .gPanic with
            | none => simp [hc] at hstep
            | some c1 =>
              simp [hc] at hstep
              refine ⟨.gPanic :: cs, ?_⟩
              simp only [runC, hc]
              rw [← hstep] at hcs; exact hcs

/-! ### the Spec predicate on the model's predictions -/

private theorem pc_a : predictClose .notRunning = some ⟨1, 1⟩ := by decide
private theorem pc_b : predictClose .svcRefused = some ⟨0, 1⟩ := by decide
private theorem pc_ok : predictClose .ok = some ⟨0, 0⟩ := by decide

private theorem classifyLeak_ne_ok (cs : Case) (o : Obs) : classifyLeak cs o ≠ .ok := by
  unfold classifyLeak
  repeat' split
  all_goals simp

private theorem classifyQuiet_ok_iff (cs : Case) (o : Obs) :
    classifyQuiet cs o = .ok ↔ (lingerOk cs o = true ∧ progressOk cs o = true ∧ panicOk cs o = true) := by
  simp only [classifyQuiet, panicOk]
  repeat' split
  all_goals (try (simp_all; done))
  all_goals (try (simp_all; omega))
  all_goals (cases h2 : panicClauseApplies cs o <;> simp_all)
  all_goals (rename_i hw; by_cases hz : cs.work = 0)
  all_goals (first | exact Or.inl hz | exact Or.inr (hw (by omega)))

/-- the oracle's predicate and its explanation agree: `spec` holds exactly when no conjunct is reported -/
theorem spec_iff_ok (cs : Case) (o : Obs) : spec cs o = true ↔ classify cs o = .ok := by
  have hl := classifyLeak_ne_ok cs o
  have hq := classifyQuiet_ok_iff cs o
  simp only [spec, classify]
  cases h1 : o.survived <;> cases h0 : o.hung <;> cases h00 : o.crashed <;> cases h2 : o.closePanicked <;> cases h3 : o.firstCloseBad <;> cases h4 : o.leak <;>
    cases h5 : o.closeCalled <;> cases h6 : o.closeReturned <;> (try simp_all)
  all_goals (by_cases h7 : o.roundsBlocked = 0)
  all_goals (try simp_all)
  all_goals (try omega)
  all_goals (first
    | exact and_assoc
    | (have h8 : 0 < o.roundsBlocked := by omega
       simp [h8]))

private theorem classifyLeak_a (cs : Case) (o : Obs) :
    classifyLeak cs o = .closeBeforeRunning ↔ isCloseBeforeRunning cs o = true := by
  unfold classifyLeak
  repeat' split
  all_goals simp_all

private theorem classifyLeak_b (cs : Case) (o : Obs) :
    classifyLeak cs o = .closeBeforeServiceStart ↔ (isCloseBeforeRunning cs o = false ∧ isCloseBeforeServiceStart cs o = true) := by
  unfold classifyLeak
  repeat' split
  all_goals simp_all

private theorem classifyQuiet_not_known (cs : Case) (o : Obs) :
    classifyQuiet cs o ≠ .closeBeforeRunning ∧ classifyQuiet cs o ≠ .closeBeforeServiceStart := by
  unfold classifyQuiet
  repeat' split
  all_goals simp

/-- KNOWN FINDING (a) is reported for nothing else: the verdict `closeBeforeRunning` (the only one rendered with the
    prefix `close-before-running:`) is given exactly when the process survived, Close returned without a panic, the first
    instance (if any) closed properly, no foreground round hangs, something is left, and what is left is precisely the
    footprint of schedule (a) with nothing else wrong (`isCloseBeforeRunning`) -/
theorem known_finding_a_exclusive (cs : Case) (o : Obs) :
    classify cs o = .closeBeforeRunning ↔
      (o.survived = true ∧ o.hung = false ∧ o.closePanicked = false ∧ (o.closeCalled = true → o.closeReturned = true) ∧ o.firstCloseBad = false ∧
       o.roundsBlocked = 0 ∧ o.leak = true ∧ isCloseBeforeRunning cs o = true) := by
  have ha := classifyLeak_a cs o
  have hq := (classifyQuiet_not_known cs o).1
  simp only [classify]
  cases h1 : o.survived <;> cases h0 : o.hung <;> cases h00 : o.crashed <;> cases h2 : o.closePanicked <;> cases h3 : o.firstCloseBad <;> cases h4 : o.leak <;>
    cases h5 : o.closeCalled <;> cases h6 : o.closeReturned <;> (try simp_all)
  all_goals (by_cases h7 : o.roundsBlocked = 0)
  all_goals (try simp_all)
  all_goals (try omega)
  all_goals (have h8 : 0 < o.roundsBlocked := by omega)
  all_goals (simp [h8])

/-- KNOWN FINDING (b) likewise -/
theorem known_finding_b_exclusive (cs : Case) (o : Obs) :
    classify cs o = .closeBeforeServiceStart ↔
      (o.survived = true ∧ o.hung = false ∧ o.closePanicked = false ∧ (o.closeCalled = true → o.closeReturned = true) ∧ o.firstCloseBad = false ∧
       o.roundsBlocked = 0 ∧ o.leak = true ∧ isCloseBeforeRunning cs o = false ∧ isCloseBeforeServiceStart cs o = true) := by
  have hb := classifyLeak_b cs o
  have hq := (classifyQuiet_not_known cs o).2
  simp only [classify]
  cases h1 : o.survived <;> cases h0 : o.hung <;> cases h00 : o.crashed <;> cases h2 : o.closePanicked <;> cases h3 : o.firstCloseBad <;> cases h4 : o.leak <;>
    cases h5 : o.closeCalled <;> cases h6 : o.closeReturned <;> (try simp_all)
  all_goals (by_cases h7 : o.roundsBlocked = 0)
  all_goals (try simp_all)
  all_goals (try omega)
  all_goals (have h8 : 0 < o.roundsBlocked := by omega)
  all_goals (simp [h8])

/-- the two known findings are reported only for a Close issued at the very instant of the plugin's creation (inside the
    services' start-up): a refusal at any later time — e.g. during a restart cool-down — can never be filed under them -/
theorem known_findings_only_at_creation (cs : Case) (o : Obs)
    (h : classify cs o = .closeBeforeRunning ∨ classify cs o = .closeBeforeServiceStart) : o.closedAtNs = 0 := by
  rcases h with h | h
  · have := ((known_finding_a_exclusive cs o).mp h).2.2.2.2.2.2.2
    simp only [isCloseBeforeRunning, Bool.and_eq_true, decide_eq_true_eq] at this
    exact this.1.1.1.1.1.1.1.1
  · have := ((known_finding_b_exclusive cs o).mp h).2.2.2.2.2.2.2.2
    simp only [isCloseBeforeServiceStart, Bool.and_eq_true, decide_eq_true_eq] at this
    exact this.1.1.1.1.1.1.1.1.1

/-- the model's prediction for a Close without any panic, written out -/
private def quietObs (cs : Case) (t n k : Nat) : Obs :=
  { survived := true, crashed := false, hung := false, closeCalled := true, closeReturned := true, closePanicked := false, firstCloseBad := false, soonLeft := 0, roundsBlocked := 0, progress := 1,
    closedAtNs := t, errNotRunning := n, errNotStarted := k, errOther := 0,
    leakedServiceStart := n, leakedService := n + k, leakedAux := 0, leakedInflight := 0, ticking := decide (n + k > 0),
    bubbleEnded := decide (k = 0), after2ndServiceStart := 0, after2ndService := k,
    panicsInjected := 0, resumed := true, resumedWithinNs := cs.intervalNs, othersTicked := true, pipelineDone := true }

private theorem predict_nopanic (fx : Fixes) (cs : Case) (n k : Nat) : predict fx cs 0 n k true 0 = quietObs cs 0 n k := by
  simp [predict, quietObs, pc_a, pc_b, pc_ok, settledS, settled, init]

private theorem predict_nopanic_late (fx : Fixes) (cs : Case) (t n k : Nat) (ht : 0 < t) : predict fx cs t n k true 0 = quietObs cs t 0 0 := by
  have ht' : t ≠ 0 := by omega
  simp [predict, quietObs, pc_a, pc_b, pc_ok, settledS, settled, init, ht']

/-- the oracle accepts the model's prediction for a plugin all of whose recoverers were settled when Close was called;
    and for a Close issued after start-up has quiesced (`t > 0`) that IS the model's prediction whatever refusals were
    observed — an implementation that refuses such a Close disagrees with the model (and gets `close-refused-after-start-up`) -/
theorem spec_model_clean_close (fx : Fixes) (cs : Case) (t n k : Nat) (ht : 0 < t) :
    spec cs (predict fx cs 0 0 0 true 0) = true ∧ spec cs (predict fx cs t n k true 0) = true ∧
    (predict fx cs t n k true 0).errNotRunning = 0 ∧ (predict fx cs t n k true 0).errNotStarted = 0 := by
  rw [predict_nopanic, predict_nopanic_late fx cs t n k ht]
  simp [spec, quietObs, panicOk, progressOk, progressDue, lingerOk, Obs.leak, panicClauseApplies]

/-- … and on the model's prediction for `n ≥ 1` recoverers closed before they were running (schedule (a)) it fails with
    exactly the known-finding string -/
theorem spec_reports_close_before_running (fx : Fixes) (cs : Case) (n : Nat) (hn : 0 < n) :
    spec cs (predict fx cs 0 n 0 true 0) = false ∧
    explain cs (predict fx cs 0 n 0 true 0) = s!"close-before-running: Close returned not-running for {n} services and they kept running" := by
  have hn' : n ≠ 0 := by omega
  rw [predict_nopanic]
  constructor
  · simp [spec, quietObs, Obs.leak, hn']
  · have hc : classify cs (quietObs cs 0 n 0) = .closeBeforeRunning := by
      simp [classify, classifyLeak, quietObs, isCloseBeforeRunning, panicOk, Obs.leak, panicClauseApplies, hn]
    unfold explain; rw [hc]; rfl

/-- schedule (b) on `k ≥ 1` recoverers (and (a) on `n` more): the other known-finding string -/
theorem spec_reports_close_before_service_start (fx : Fixes) (cs : Case) (n k : Nat) (hk : 0 < k) :
    spec cs (predict fx cs 0 n k true 0) = false ∧
    explain cs (predict fx cs 0 n k true 0) = s!"close-before-service-start: Close was refused by {k} services that had not completed their start (not-running for {n} more); they started afterwards and can no longer be closed" := by
  have hk' : k ≠ 0 := by omega
  rw [predict_nopanic]
  constructor
  · simp [spec, quietObs, Obs.leak, hk']
  · have hc : classify cs (quietObs cs 0 n k) = .closeBeforeServiceStart := by
      simp [classify, classifyLeak, quietObs, isCloseBeforeRunning, isCloseBeforeServiceStart, panicOk, Obs.leak, panicClauseApplies, hk, hk']
    unfold explain; rw [hc]; rfl

private theorem run_site (fx : Fixes) (site : String) (c : Bool) (n : Nat)
    (h : (run fx (faultStart site) (faultSched fx site)).map (fun s => (s.crashed, s.core.nRun)) = some (c, n)) :
    ∃ s, run fx (faultStart site) (faultSched fx site) = some s ∧ s.crashed = c ∧ s.core.nRun = n := by
  cases hrun : run fx (faultStart site) (faultSched fx site) with
  | none => simp [hrun] at h
  | some s => simp [hrun] at h; exact ⟨s, rfl, h.1, h.2⟩

/-- the model's prediction after one injected panic in scenario "panic", plugin settled, Close (at `t`) at the end -/
private def panicObs (cs : Case) (t : Nat) (crashed : Bool) (nRun : Nat) : Obs :=
  { survived := !crashed, crashed := false, hung := false, closeCalled := !crashed, closeReturned := !crashed, closePanicked := false, firstCloseBad := false, soonLeft := 0, roundsBlocked := 0,
    progress := if !crashed then 1 else 0, closedAtNs := t, errNotRunning := 0, errNotStarted := 0, errOther := 0,
    leakedServiceStart := 0, leakedService := 0, leakedAux := 0, leakedInflight := 0, ticking := false,
    bubbleEnded := !crashed, after2ndServiceStart := 0, after2ndService := 0, panicsInjected := 1, resumed := decide (nRun > 0),
    resumedWithinNs := if nRun > 0 then cs.intervalNs else 0, othersTicked := true, pipelineDone := !crashed }

private theorem predict_panic (fx : Fixes) (cs : Case) (t : Nat) (s : State)
    (hrun : run fx (faultStart cs.panicSite) (faultSched fx cs.panicSite) = some s) :
    predict fx cs t 0 0 true 1 = panicObs cs t s.crashed s.core.nRun := by
  simp [predict, panicObs, hrun, pc_a, pc_b, pc_ok]

/-- on the current tree the model predicts, for a panic at ANY of the thirteen sites — v3: the six provider / pipeline /
    post-processor calls and a panic that escapes the (restartable) result store's Start; OCR2: the report coordinator's
    log provider (two calls) and encoder on its poll loop, the polling observer's registry, encoder and runner on its
    head loop (behind RecoverableService: cool-down and restart) —, that the process survives
    and the flow resumes (next tick / poll; for the escaping panic: after the recoverer's cool-down and restart) —
    and the oracle accepts that prediction -/
theorem spec_model_panic_contained (cs : Case) (t : Nat) (hs : cs.scenario = "panic")
    (h : cs.panicSite = "logProvider" ∨ cs.panicSite = "recoveryProvider" ∨ cs.panicSite = "upkeepGetter" ∨
         cs.panicSite = "stateUpdater" ∨ cs.panicSite = "pipeline" ∨ cs.panicSite = "eventsProvider" ∨
         cs.panicSite = "resultStoreGC" ∨
         cs.panicSite = "v2PerformLogs" ∨ cs.panicSite = "v2StaleLogs" ∨ cs.panicSite = "v2CoordEncoder" ∨
         cs.panicSite = "v2ActiveUpkeeps" ∨ cs.panicSite = "v2ObsEncoder" ∨ cs.panicSite = "v2CheckUpkeep") :
    spec cs (predict current cs t 0 0 true 1) = true := by
  have key : ∃ s, run current (faultStart cs.panicSite) (faultSched current cs.panicSite) = some s ∧ s.crashed = false ∧ s.core.nRun = 1 := by
    rcases h with h | h | h | h | h | h | h | h | h | h | h | h | h <;> rw [h] <;> exact run_site current _ false 1 (by decide)
  obtain ⟨s, hrun, hc, hn⟩ := key
  rw [predict_panic current cs t s hrun, hc, hn]
  simp [spec, panicObs, panicOk, progressOk, progressDue, lingerOk, Obs.leak, panicClauseApplies, resumeBound, hs]
  omega

/-- without the worker-group fix the model predicts that a pipeline panic kills the process; the oracle says so -/
theorem spec_reports_worker_panic_old (cs : Case) (t : Nat) (h : cs.panicSite = "pipeline") :
    spec cs (predict { current with worker := false } cs t 0 0 true 1) = false ∧
    explain cs (predict { current with worker := false } cs t 0 0 true 1) = s!"panic-escaped: a panic injected in {cs.panicSite} terminated the process" := by
  obtain ⟨s, hrun, hc, hn⟩ := run_site { current with worker := false } "pipeline" true 1 (by decide)
  rw [← h] at hrun
  rw [predict_panic _ cs t s hrun, hc, hn]
  constructor
  · simp [spec, panicObs]
  · have hcl : classify cs (panicObs cs t true 1) = .panicEscaped := by simp [classify, panicObs]
    unfold explain; rw [hcl]; rfl

/-- without the coordinator fix the model predicts that the event flow never resumes; the oracle says so -/
theorem spec_reports_service_panic_not_resumed_old (cs : Case) (t : Nat) (h : cs.panicSite = "eventsProvider") (hs : cs.scenario = "panic") :
    spec cs (predict { current with poll := false } cs t 0 0 true 1) = false ∧
    explain cs (predict { current with poll := false } cs t 0 0 true 1) = s!"panic-not-resumed: the flow calling {cs.panicSite} did not resume within the cool-down plus one tick after the panic" := by
  obtain ⟨s, hrun, hc, hn⟩ := run_site { current with poll := false } "eventsProvider" false 0 (by decide)
  rw [← h] at hrun
  rw [predict_panic _ cs t s hrun, hc, hn]
  constructor
  · simp [spec, panicObs, panicOk, progressOk, progressDue, lingerOk, Obs.leak, panicClauseApplies, hs]
  · have hcl : classify cs (panicObs cs t false 0) = .panicNotResumed := by
      simp [classify, classifyQuiet, panicObs, progressOk, progressDue, lingerOk, Obs.leak, panicClauseApplies, hs]
    unfold explain; rw [hcl]; rfl

/-- without the v2 coordinator fix the model predicts that a panic in its log poll kills the process; the oracle says so -/
theorem spec_reports_v2_poll_panic_old (cs : Case) (t : Nat) (h : cs.panicSite = "v2PerformLogs") :
    spec cs (predict { current with v2poll := false } cs t 0 0 true 1) = false ∧
    explain cs (predict { current with v2poll := false } cs t 0 0 true 1) = s!"panic-escaped: a panic injected in {cs.panicSite} terminated the process" := by
  obtain ⟨s, hrun, hc, hn⟩ := run_site { current with v2poll := false } "v2PerformLogs" true 1 (by decide)
  rw [← h] at hrun
  rw [predict_panic _ cs t s hrun, hc, hn]
  constructor
  · simp [spec, panicObs]
  · have hcl : classify cs (panicObs cs t true 1) = .panicEscaped := by simp [classify, panicObs]
    unfold explain; rw [hcl]; rfl

/-! ### exact trace validation (code built with the `verif` hooks of pkg/v3/service) -/

/-- A log of hook events of one recoverer that the driver's `traceOk` accepts — with SOME admissible reordering of the
    events and SOME filling-in of the wrapped service's unobservable steps — is a run of the model from the fresh
    recoverer: the explanation replays to a state `t`, there is a schedule `ls` of `stepCore` leading from the initial
    state to `t.c`, and the same holds for every prefix of the explanation.  Hence every all-schedules theorem of this
    file applies to the recorded run; e.g. for the start-once kind the invariant `NB` holds at every hook point, so the
    recorded Close can never be found waiting with nothing able to move (`close_never_blocks`).
    What an accepted trace FIXES: the order and the outcome of every step of `recoverable.go` on its shared state —
    each read of `running` and the value read, each write, each send on / receive from `stopped` with the message and
    sent-vs-dropped, each goroutine start, the end of each cool-down, and whether `service.Start` returned nil / an
    error / panicked and `service.Close` returned nil / an error — all consistent with one model path.
    What it LEAVES OPEN: the wrapped service's internals (when exactly StartOnce / StopOnce / leaving the loop happened:
    existentially quantified, constrained only by the model's service semantics), the moment serviceStart parks in its
    select (inside the Go runtime), the overlap of two goroutines' steps between their hook calls (hence "some
    reordering"), and everything outside recoverable.go (the services' own goroutines, tickers, the plugin's loops). -/
theorem trace_sound {latched : Bool} {evs : Array Ev} {items : List Item} (h : traceOk latched evs items = true) :
    ∃ t ls, replay false evs { c := initOf latched } items = some t ∧ runC (initOf latched) ls = some t.c ∧
      ∀ k, ∃ tk lk, replay false evs { c := initOf latched } (items.take k) = some tk ∧ runC (initOf latched) lk = some tk.c ∧
        (latched = false → NB tk.c ∧ (terminal tk.c = true → tk.c.cpc = .idle ∨ tk.c.cpc = .ret)) := by
  unfold traceOk at h
  simp only [Bool.and_eq_true] at h
  cases hr : replay false evs { c := initOf latched } items with
  | none => simp [hr] at h
  | some t =>
    obtain ⟨ls, hls⟩ := replay_path items _ t hr
    refine ⟨t, ls, rfl, hls, ?_⟩
    intro k
    obtain ⟨tk, htk⟩ := replay_take items _ t hr k
    obtain ⟨lk, hlk⟩ := replay_path _ _ tk htk
    refine ⟨tk, lk, htk, hlk, ?_⟩
    intro hl
    subst hl
    have hnb : NB tk.c := nb_run lk init tk.c nb_init (by simpa [initOf] using hlk)
    exact ⟨hnb, nb_terminal tk.c hnb⟩

/-- `trace_sound` is not vacuous: the log of a recoverer that starts a ticker and is closed once start-up has quiesced —
    the events in the order the hooks reported them on the real code, the service's hidden steps filled in — is
    accepted; the same log with Close reporting `running = false` is not explained by that filling-in -/
example :
    let evs : Array Ev := #[⟨"start.idle", 0, 0, 0, 0⟩, ⟨"start.spawned", 0, 0, 1, 1⟩, ⟨"ss.stored", 0, 0, 2, 2⟩, ⟨"rs.enter", 1, 0, 3, 0⟩,
      ⟨"close.running", 2, 0, 4, 0⟩, ⟨"rs.returned", 1, 0, 5, 4⟩, ⟨"rs.sent", 1, 0, 6, 6⟩, ⟨"ss.recv", 0, 0, 7, 3⟩, ⟨"close.svc", 2, 0, 8, 5⟩,
      ⟨"close.sent", 2, 0, 9, 9⟩, ⟨"ss.recv", 0, 3, 10, 8⟩, ⟨"ss.cleared", 0, 0, 11, 11⟩]
    let items : List Item := [.ev 0, .ev 1, .ev 2, .hid .sSel, .ev 3, .hid .gCall, .hid .gStarted, .ev 4, .hid .cSvcClose,
      .hid .gStopSeen, .ev 5, .ev 6, .ev 7, .hid .cWaitDone, .ev 8, .ev 9, .ev 10, .ev 11]
    traceOk false evs items = true ∧
    traceOk false (evs.set! 4 ⟨"close.notrunning", 2, 0, 4, 0⟩) items = false := by
  decide

/-! ### the OCR2 `RecoverableService` (internal/util/recoverable.go): model, all-schedules theorem, trace soundness -/

private def KV : List V2.VCore := V2.vexplore 5000 [V2.vinit] []
private def PV (c : V2.VCore) : Bool :=
  (!V2.vterminal c || !c.stopClosed || c.clean) && decide (c.gs ≤ 1) && (c.running || !decide (c.wpc = .absent) || decide (c.gs = 0))
set_option maxRecDepth 100000 in
private theorem KV_facts : (V2.vclosed KV && KV.contains V2.vinit && KV.all PV) = true := by decide +kernel

/-- For EVERY schedule of the RecoverableService model — Start, any number of panics of the wrapped `Do` each followed by
    the cool-down and a restart, Stop at any point (while `Do` runs, inside a cool-down, racing a restart), repeated
    Start / Stop calls — every state reached satisfies: once Stop has taken effect and the service's own goroutines can
    move no further, NOTHING is left (the watcher returned, no `run()` goroutine alive or blocked on `stopped`, flag
    cleared); and there is never more than one `run()` goroutine. -/
theorem v2_stop_leaves_nothing :
    ∀ sched c, V2.vrun V2.vinit sched = some c →
      (V2.vterminal c = true → c.stopClosed = true → c.clean = true) ∧ c.gs ≤ 1 := by
  intro sched c hr
  have hf := KV_facts
  simp only [Bool.and_eq_true] at hf
  have hin : c ∈ KV := V2.vclosed_sound hf.1.1 sched V2.vinit c (by simpa using hf.1.2) hr
  have h := (List.all_eq_true.mp hf.2) c hin
  simp only [PV, Bool.and_eq_true, Bool.or_eq_true, Bool.not_eq_true', decide_eq_true_eq] at h
  refine ⟨?_, h.1.2⟩
  intro ht hs
  rcases h.1.1 with (h1 | h1) | h1
  · simp [ht] at h1
  · simp [hs] at h1
  · exact h1

example : (V2.vrun V2.vinit [.start, .gEnter, .wSel, .gPanic, .gSendStopped, .stop, .coolElapsed, .wRerun, .gEnter, .wStopSeen, .gReturnErr, .gSendErr]).map
    (fun c => (V2.vterminal c, c.stopClosed, c.clean)) = some (true, true, true) := by decide

/-- an accepted log of a RecoverableService's hook events (every step has a hook; the only hidden step is the watcher
    parking) is a run of the model from the fresh service, prefix by prefix — so `v2_stop_leaves_nothing` applies to
    the recorded run -/
theorem trace_sound_v2 {evs : Array Ev} {items : List V2.VItem} (h : V2.vtraceOk evs items = true) :
    ∃ t ls, V2.vreplay evs { c := V2.vinit } items = some t ∧ V2.vrun V2.vinit ls = some t.c ∧
      (V2.vterminal t.c = true → t.c.stopClosed = true → t.c.clean = true) ∧ t.c.gs ≤ 1 := by
  unfold V2.vtraceOk at h
  simp only [Bool.and_eq_true] at h
  cases hr : V2.vreplay evs { c := V2.vinit } items with
  | none => simp [hr] at h
  | some t =>
    obtain ⟨ls, hls⟩ := V2.vreplay_path items _ t hr
    exact ⟨t, ls, rfl, hls, v2_stop_leaves_nothing ls t.c hls⟩

/-- the cool-down the model's `coolElapsed` stands for is the regenerated constant -/
theorem cooldown_is_ten_seconds : Gen.panicRestartWaitNs = 10 * 1000000000 := by decide

/-! ### the recoverer driven directly: a context that ends, Start while running, Start again

`service.NewRecoverer` is public.  The three things its caller can do and the plugin never does are the labels
`ctxCancel`, `startRefused`, `startAgain` of `xstep`, and two arms of the code that only a cancelled context enables
(`sCtxDone`: recoverable.go `case <-ctx.Done()`; `gCtxSeen`: the wrapped service's own `case <-ctx.Done()`). -/

/-- on the labels of `Core`, the extended system IS the core system -/
theorem xstep_core_is_stepCore (x : XCore) (l : CLabel) :
    xstep x (.core l) = (stepCore x.c l).map fun c' => { x with c := c' } := rfl

/-- … and as long as the context is live and the caller does none of its three extra things (the plugin: the context is
    `context.Background()`, every recoverer is started once), every run of the extended system is a run of `stepCore`:
    all theorems above are theorems about the plugin's recoverers -/
theorem xrun_projects_to_core : ∀ (ls : List XLabel) (x x' : XCore), x.ctxDone = false → (∀ l ∈ ls, l.callerOnly = false) →
    xrun x ls = some x' → ∃ cls, runC x.c cls = some x'.c := xrun_project

/-- the two context arms need a cancelled context -/
theorem context_arms_need_cancel (x : XCore) (h : x.ctxDone = false) : xstep x .sCtxDone = none ∧ xstep x .gCtxSeen = none := by
  simp [xstep, ctxArmEnabled, h]

/-- `case <-ctx.Done()` of serviceStart: the flag is cleared and Start returns; nothing else changes — in particular a
    service loop that ignores the context (coordinator, runner) keeps running, and a later Close is refused ("not running") -/
theorem ctx_done_stops_watcher (x x' : XCore) (h : xstep x .sCtxDone = some x') :
    x.ctxDone = true ∧ x'.c.spc = .done ∧ x'.c.running = false ∧ x'.c.gs = x.c.gs ∧ x'.c.nRun = x.c.nRun ∧
    (stepCore x'.c .closeCall).bind (fun c => stepCore c .cLoad) = (stepCore x'.c .closeCall).map (fun c => { c with cpc := .ret, cres := .notRunning }) := by
  simp only [xstep] at h
  split at h
  · rename_i he
    simp only [Option.some.injEq] at h
    subst h
    simp only [ctxArmEnabled, Bool.and_eq_true] at he
    refine ⟨he.1, rfl, rfl, rfl, rfl, ?_⟩
    simp only [stepCore]
    split <;> simp [stepCore]
  · simp at h

/-- Start while a Start is in progress: refused iff the flag is set, and nothing changes — no second serviceStart, no
    second service goroutine -/
theorem start_while_running_refused (x : XCore) (h1 : x.c.spc ≠ .init) (h2 : x.c.spc ≠ .done) :
    (x.c.running = true → xstep x .startRefused = some x) ∧ (x.c.running = false → xstep x .startRefused = none) ∧
    ∀ x', xstep x .startRefused = some x' → x' = x := by
  refine ⟨?_, ?_, ?_⟩
  · intro hr; simp [xstep, flagStartRefuses, hr, h1, h2]
  · intro hr; simp [xstep, flagStartRefuses, hr]
  · intro x' h
    simp only [xstep] at h
    split at h <;> simp at h
    exact h.symm

private def xOneClose : List XLabel := oneClose.map .core ++ [.ctxCancel, .sCtxDone, .gCtxSeen, .startRefused, .cSvcCloseErr]

private def KXof (latched honours : Bool) : List Nat := exploreX xOneClose 4000 [encodeX (xsettled latched honours)] []

private def PX (x : XCore) : Bool :=
  (!xterminal x || decide (x.c.cpc = .idle) || decide (x.c.cpc = .ret)) &&
  (!xterminal x || !x.ctxDone || (decide (x.c.spc = .done) && !x.c.running)) &&
  (!xterminal x || !x.ctxDone || !x.honours || (decide (x.c.nRun = 0) && decide (x.c.nStarting = 0) && decide (x.c.nCall = 0))) &&
  (!xterminal x || !decide (x.c.cpc = .ret) || decide (x.c.cres = .notRunning) ||
     (decide (x.c.spc = .done) && !x.c.running && decide (x.c.nRun = 0) && decide (x.c.nStarting = 0) && decide (x.c.nCall = 0))) &&
  !x.c.dropped && decide (x.c.gs ≤ 1)

private def KXok (latched honours : Bool) : Bool :=
  closedKX xOneClose (KXof latched honours) && (KXof latched honours).contains (encodeX (xsettled latched honours)) &&
  (KXof latched honours).all (fun k => PX (decodeX k))

set_option maxRecDepth 100000 in
private theorem KX_facts_ticker : KXok false true = true := by decide +kernel
set_option maxRecDepth 100000 in
private theorem KX_facts_coordinator : KXok false false = true := by decide +kernel
set_option maxRecDepth 100000 in
private theorem KX_facts_store : KXok true true = true := by decide +kernel

/-- A CONTEXT THAT ENDS STOPS THE RECOVERER, AND CLOSE STILL WORKS.  From a settled recoverer of any of the three service
    kinds whose restart behaviour the model states exactly (start-once honouring the context: time ticker; start-once
    ignoring it: coordinator; restartable: result store), for EVERY schedule — the context cancelled at any point, one Close
    at any point (before, after, racing the cancellation), panics of the service goroutine, cool-downs, Start calls while
    running — and every state reached:
     (i)   the system never rests with Close half-way (no deadlock);
     (ii)  at rest with the context cancelled, serviceStart HAS returned and the flag is cleared;
     (iii) … and a service that honours the context has left its loop (none is starting or about to be started either);
     (iv)  at rest after a Close that was not refused by the recoverer ("not running") — whether it returned nil or the error
           of a wrapped service whose own Close met a failing collaborator and stopped all the same (`cSvcCloseErr`: the
           metadata store and an Unsubscribe error) — serviceStart has returned, the flag is cleared, no service loop is left;
     (v)   Close never gives its signal up; there is never more than one recoverableStart / service goroutine.
    NOT claimed — and false, see `ctx_cancel_racing_close_strands_sender`: that no goroutine at all is left. -/
theorem ctx_cancel_stops_watcher_and_service (latched honours : Bool) (hk : latched = true → honours = true) :
    ∀ sched x, SchedX xOneClose sched → xrun (xsettled latched honours) sched = some x →
      (xterminal x = true → x.c.cpc = .idle ∨ x.c.cpc = .ret) ∧
      (xterminal x = true → x.ctxDone = true → x.c.spc = .done ∧ x.c.running = false) ∧
      (xterminal x = true → x.ctxDone = true → x.honours = true → x.c.nRun = 0 ∧ x.c.nStarting = 0 ∧ x.c.nCall = 0) ∧
      (xterminal x = true → x.c.cpc = .ret → x.c.cres ≠ .notRunning → x.c.spc = .done ∧ x.c.running = false ∧ x.c.nRun = 0 ∧ x.c.nStarting = 0 ∧ x.c.nCall = 0) ∧
      x.c.dropped = false ∧ x.c.gs ≤ 1 := by
  intro sched x hs hr
  have hf : KXok latched honours = true := by
    cases latched <;> cases honours
    · exact KX_facts_coordinator
    · exact KX_facts_ticker
    · exact absurd (hk rfl) (by decide)
    · exact KX_facts_store
  simp only [KXok, Bool.and_eq_true] at hf
  obtain ⟨⟨hclosed, h1⟩, hall⟩ := hf
  have hin : InKX (KXof latched honours) (xsettled latched honours) :=
    inKX_of_roundtrip h1 (by cases latched <;> cases honours <;> decide)
  have h := allKX hall (closedKX_sound hclosed sched _ x hin hs hr)
  simp only [PX, Bool.and_eq_true, Bool.or_eq_true, Bool.not_eq_true', decide_eq_true_eq, decide_eq_false_iff_not] at h
  obtain ⟨⟨⟨⟨⟨p1, p2⟩, p3⟩, p4⟩, p5⟩, p6⟩ := h
  refine ⟨?_, ?_, ?_, ?_, p5, p6⟩
  · intro ht
    rcases p1 with (h | h) | h
    · simp [ht] at h
    · exact Or.inl h
    · exact Or.inr h
  · intro ht hc
    rcases p2 with (h | h) | h
    · simp [ht] at h
    · simp [hc] at h
    · exact h
  · intro ht hc hh
    rcases p3 with ((h | h) | h) | h
    · simp [ht] at h
    · simp [hc] at h
    · simp [hh] at h
    · exact ⟨h.1.1, h.1.2, h.2⟩
  · intro ht hc hres
    rcases p4 with ((h | h) | h) | h
    · simp [ht] at h
    · exact absurd hc h
    · exact absurd h hres
    · exact ⟨h.1.1.1.1, h.1.1.1.2, h.1.1.2, h.1.2, h.2⟩

/-- … and what a cancellable context costs: Close racing the cancellation can strand the service goroutine in its send.
    Close has passed the running check and stopped the service; the context ends and serviceStart takes that arm; Close's
    stop signal goes into the (now receiver-less) channel; the service goroutine's `chStop <- nil` blocks for ever.  Close
    returned nil, no service loop is left — and one `recoverableStart` goroutine never ends.  Impossible with a context
    that never ends (`close_stops_all_partial` via `xrun_projects_to_core`): the plugin passes `context.Background()`. -/
theorem ctx_cancel_racing_close_strands_sender :
    (xrun (xsettled false true) [.core .closeCall, .core .cLoad, .core .cSvcClose, .core .gStopSeen, .ctxCancel, .sCtxDone,
        .core .cWaitDone, .core .cSignal]).map
      (fun x => (xterminal x, x.c.cpc, x.c.cres, x.c.spc)) = some (true, .ret, .ok, .done) ∧
    (xrun (xsettled false true) [.core .closeCall, .core .cLoad, .core .cSvcClose, .core .gStopSeen, .ctxCancel, .sCtxDone,
        .core .cWaitDone, .core .cSignal]).map
      (fun x => (x.c.running, x.c.nRun, x.c.nSendNil, x.c.buf)) = some (false, 0, 1, some .cancelled) := by
  refine ⟨by decide, by decide⟩

/-! #### scripts: caller operations at rest (what the harness drives on the real recoverer, family "svc")

`xscript` = each operation followed by the system running to rest (`xsettle`).  The results and the goroutines alive after
every operation are compared with the real code case by case; here: what the model says for the scripts that reach the
code the plugin never reaches, and that `specScript` accepts it. -/

private def resOf (r : List (XRes × Alive) × XCore) : List (XRes × Nat × Nat × Nat) :=
  r.1.map fun (a, b) => (a, b.serviceStart, b.service, b.inflight)

private def resOf' (r : List (BRes × Nat) × Bare) : List (BRes × Nat) := r.1

/-- Start while running (recoverable.go `if m.running.Load() { return ErrServiceAlreadyStarted }`): refused, nothing
    changes, and the Close that follows leaves nothing — for every service kind -/
theorem script_start_while_running (latched honours : Bool) :
    resOf (xscript scriptFuel (xfresh latched honours) [.start, .start, .start, .close]) =
      [(.accepted, 1, 1, 0), (.refused, 1, 1, 0), (.refused, 1, 1, 0), (.closeOk, 0, 0, 0)] := by
  cases latched <;> cases honours <;> decide

/-- the context of Start ends (recoverable.go `case <-ctx.Done()`): Start returns; a service that honours the context ends
    with it, one that ignores it runs on and the Close that follows is refused by the recoverer ("not running"); Start is
    accepted again afterwards — the start-once service refuses to start again (its error is logged and ignored), the
    restartable one runs again — and the final Close leaves nothing in all three cases -/
theorem script_context_ends_then_restart :
    resOf (xscript scriptFuel (xfresh false true) [.start, .cancel, .close, .start, .close]) =
      [(.accepted, 1, 1, 0), (.none, 0, 0, 0), (.closeNotRunning, 0, 0, 0), (.accepted, 1, 0, 0), (.closeOk, 0, 0, 0)] ∧
    resOf (xscript scriptFuel (xfresh false false) [.start, .cancel, .close, .start, .close]) =
      [(.accepted, 1, 1, 0), (.none, 0, 1, 0), (.closeNotRunning, 0, 1, 0), (.accepted, 1, 1, 0), (.closeOk, 0, 0, 0)] ∧
    resOf (xscript scriptFuel (xfresh true true) [.start, .cancel, .close, .start, .close]) =
      [(.accepted, 1, 1, 0), (.none, 0, 0, 0), (.closeNotRunning, 0, 0, 0), (.accepted, 1, 1, 0), (.closeOk, 0, 0, 0)] := by
  refine ⟨by decide, by decide, by decide⟩

/-- a panic out of the service's Start, then two Close calls inside the cool-down: the second finds the first one's stop
    signal in the channel (recoverable.go: the send attempt fails, the drain attempt takes the obsolete message, the next
    attempt succeeds) — for the start-once kinds it returns the service's "already stopped", for the restartable kind it
    waits until the restarted Start has taken the latched close signal; when the cool-down is over nothing is left -/
theorem script_two_closes_in_cooldown :
    resOf (xscript scriptFuel (xfresh false true) [.start, .panic, .close, .close, .coolDown]) =
      [(.accepted, 1, 1, 0), (.none, 1, 0, 0), (.closeOk, 1, 0, 0), (.closeRefused, 1, 0, 0), (.none, 0, 0, 0)] ∧
    resOf (xscript scriptFuel (xfresh true true) [.start, .panic, .close, .close, .coolDown]) =
      [(.accepted, 1, 1, 0), (.none, 1, 0, 0), (.closeOk, 1, 0, 0), (.blocked, 1, 0, 1), (.none, 0, 0, 0)] ∧
    -- the second Close goes through Close's inner select: full, drained, sent
    (xrun (xsettled false true) ([.gPanic, .gSendStopped, .closeCall, .cLoad, .cSvcClose, .cWaitDone, .cSignal,
        .closeAgain, .cLoad, .cSvcClose, .cSignal, .cDrain, .cSignal].map .core)).map (fun x => (x.c.cpc, x.c.cres, x.c.buf, x.c.spc)) =
      some (.ret, .svcRefused, some .cancelled, .cool) := by
  refine ⟨by decide, by decide, by decide⟩

/-- a panic out of a start-once service's Start: one restart attempt after the cool-down, refused by the service
    ("already started": recoverable.go logs it, `chStop <- err`, serviceStart ignores it), no further attempt; Close then
    leaves nothing -/
theorem script_panic_restart_attempt_once :
    resOf (xscript scriptFuel (xfresh false true) [.start, .panic, .coolDown, .coolDown, .close]) =
      [(.accepted, 1, 1, 0), (.none, 1, 0, 0), (.none, 1, 0, 0), (.none, 1, 0, 0), (.closeOk, 0, 0, 0)] := by decide

/-- the oracle accepts what the model says for these scripts -/
theorem specScript_model_scripts :
    specScript true true (xscriptObs false true [.start, .start, .start, .close]) true = true ∧
    specScript true true (xscriptObs false true [.start, .cancel, .close, .start, .close]) true = true ∧
    specScript true true (xscriptObs false false [.start, .cancel, .close, .start, .close]) false = true ∧
    specScript true true (xscriptObs true true [.start, .cancel, .close, .start, .close]) true = true ∧
    specScript true true (xscriptObs false true [.start, .panic, .close, .close]) true = true ∧
    specScript true true (xscriptObs true true [.start, .panic, .close, .close]) true = true ∧
    specScript true true (xscriptObs false true [.start, .cancel]) true = true ∧
    specScript true true (xscriptObs false false [.start, .cancel]) false = true := by
  refine ⟨by decide, by decide, by decide, by decide, by decide, by decide, by decide, by decide⟩

private def mkObs (ops : List OpObs) (ss sv inf process goodTicks : Nat) : ScriptObs :=
  { survived := true, hung := false, closesReturned := true, process := process, goodTicks := goodTicks, ops := ops,
    finalServiceStart := ss, finalService := sv, finalInflight := inf }

/-- … and rejects the observations a changed recoverer would give: a second Start that is let in (two watchers, the Close
    that follows stops one), a Start that outlives its context, something left after a Close that returned nil, an observer
    called for a tick the getter did not deliver, a service loop that vanished on its own, a context-honouring service that
    outlives its context, a block subscription that outlives the store's loop, a Close turned away by a running service -/
theorem specScript_rejects :
    specScript true true (mkObs [⟨"start", "pending", 1, 1, 0⟩, ⟨"start", "pending", 2, 2, 0⟩, ⟨"close", "ok", 1, 1, 0⟩] 1 1 0 0 0) = false ∧
    specScript true true (mkObs [⟨"start", "pending", 1, 1, 0⟩, ⟨"cancel", "", 1, 0, 0⟩] 1 0 0 0 0) = false ∧
    specScript true true (mkObs [⟨"start", "pending", 1, 1, 0⟩, ⟨"close", "ok", 1, 0, 0⟩] 1 0 0 0 0) = false ∧
    specScript false true (mkObs [⟨"start", "pending", 0, 1, 0⟩, ⟨"close", "ok", 0, 0, 0⟩] 0 0 0 3 2) = false ∧
    specScript true true (mkObs [⟨"start", "pending", 1, 1, 0⟩, ⟨"wait", "", 1, 0, 0⟩, ⟨"close", "ok", 1, 0, 0⟩] 0 0 0 0 0) = false ∧
    specScript true true (mkObs [⟨"start", "pending", 1, 1, 0⟩, ⟨"cancel", "", 0, 1, 0⟩] 0 1 0 0 0) true = false ∧
    specScript false true { mkObs [⟨"start", "pending", 0, 1, 0⟩, ⟨"cancel", "nil", 0, 0, 0⟩] 0 0 0 0 0 with finalSubscribed := 1 } true = false ∧
    specScript false true (mkObs [⟨"start", "pending", 0, 1, 0⟩, ⟨"start", "refused", 0, 1, 0⟩, ⟨"close", "refused", 0, 1, 0⟩] 0 1 0 0 0) = false ∧
    specScript false true (mkObs [⟨"close", "panicked!", 0, 0, 0⟩] 0 0 0 0 0) = false := by
  refine ⟨by decide, by decide, by decide, by decide, by decide, by decide, by decide, by decide, by decide⟩

/-- an accepted log of a directly driven recoverer is a run of the extended model from the recoverer as constructed -/
theorem trace_sound_x {latched honours : Bool} {cancels : Nat} {evs : Array Ev} {items : List ItemX}
    {closeErrOk : Bool} (h : traceOkX latched honours cancels evs items closeErrOk = true) :
    ∃ s ls, replayX evs (tinitX latched honours cancels closeErrOk) items = some s ∧ xrun (xfresh latched honours) ls = some s.x := by
  unfold traceOkX at h
  simp only [Bool.and_eq_true] at h
  cases hr : replayX evs (tinitX latched honours cancels closeErrOk) items with
  | none => simp [hr] at h
  | some s =>
    obtain ⟨ls, hls⟩ := replayX_path items _ s hr
    refine ⟨s, ls, rfl, ?_⟩
    have hx : (tinitX latched honours cancels closeErrOk).x = xfresh latched honours := by
      cases latched <;> cases honours <;> rfl
    rw [hx] at hls
    exact hls

/-- not vacuous: the log recorded on the real recoverer around a time ticker — Start, the context cancelled, Close
    ("not running"), Start again (the ticker refuses: "already started"), Close — is accepted with one cancellation and
    rejected with none -/
example :
    let evs : Array Ev := #[⟨"start.idle", 0, 0, 0, 0⟩, ⟨"start.spawned", 0, 0, 1, 1⟩, ⟨"ss.stored", 0, 0, 2, 2⟩, ⟨"rs.enter", 1, 0, 3, 0⟩,
      ⟨"ss.ctxdone", 0, 0, 4, 3⟩, ⟨"rs.returned", 1, 0, 5, 4⟩, ⟨"rs.sent", 1, 0, 6, 6⟩, ⟨"close.notrunning", 2, 0, 7, 0⟩,
      ⟨"start.idle", 3, 0, 8, 0⟩, ⟨"start.spawned", 3, 0, 9, 9⟩, ⟨"ss.stored", 3, 0, 10, 10⟩, ⟨"ss.recv", 3, 0, 11, 11⟩,
      ⟨"rs.enter", 4, 0, 12, 0⟩, ⟨"rs.returned", 4, 1, 13, 13⟩, ⟨"rs.sent", 4, 1, 14, 14⟩, ⟨"ss.recv", 3, 1, 15, 12⟩,
      ⟨"close.running", 5, 0, 16, 0⟩, ⟨"close.svc", 5, 0, 17, 17⟩, ⟨"close.sent", 5, 0, 18, 18⟩, ⟨"ss.recv", 3, 3, 19, 16⟩, ⟨"ss.cleared", 3, 0, 20, 20⟩]
    let items : List ItemX := [.ev 0, .ev 1, .ev 2, .hid .sSel, .ev 3, .hid .gCall, .hid .gStarted, .cancel, .ev 4, .gctx, .ev 5, .ev 6, .ev 7,
      .ev 8, .ev 9, .ev 10, .ev 11, .hid .sSel, .ev 12, .hid .gCall, .ev 13, .ev 14, .ev 15, .hid .sSel, .ev 16, .hid .cSvcClose, .hid .cWaitDone,
      .ev 17, .ev 18, .ev 19, .ev 20]
    traceOkX false true 1 evs items = true ∧ traceOkX false true 0 evs items = false := by
  decide

/-! ### the wrapped services on their own: the guards the recoverer relies on -/

/-- Start while running is refused by every kind that has a guard and leaves the service as it was -/
theorem bare_start_while_running_refused (b : Bare) (h : b.kind = .once ∨ b.kind = .flag)
    (hrun : (b.kind = .once → b.st ≠ .unstarted) ∧ (b.kind = .flag → b.running = true)) :
    bapply b .start = (b, .refused) := by
  rcases h with h | h
  · simp [bapply, h, hrun.1 h]
  · simp [bapply, h, flagStartRefuses, hrun.2 h]

/-- a Close that succeeds ends every loop of a guarded kind; a Close of a service that is not running is refused and
    changes nothing -/
theorem bare_close (b : Bare) (h : b.kind = .once ∨ b.kind = .flag) :
    ((bapply b .close).2 = .closeOk → (bapply b .close).1.loops = 0) ∧
    ((bapply b .close).2 = .closeRefused → (bapply b .close).1 = b) := by
  rcases h with h | h
  · simp only [bapply, h]
    by_cases h1 : b.st = .started <;> simp [h1]
  · simp only [bapply, h]
    by_cases h1 : flagCloseRefuses b.running = true
    · simp [h1]
    · by_cases h2 : b.selfClose = true ∧ b.unsubFails = true
      · by_cases h3 : b.unsubStops = true <;> simp [h1, h2, h3]
      · simp [h1, h2]

/-- when the context of Start ends, a loop that honours it ends, one that does not keeps running -/
theorem bare_context_ends (b : Bare) (hl : b.loops ≠ 0) :
    (b.honours = true → (bapply b .cancel).1.loops = 0) ∧ (b.honours = false → bapply b .cancel = (b, .pending)) := by
  constructor
  · intro hh
    simp only [bapply, hl, hh]
    by_cases h1 : b.selfClose = true <;> by_cases h2 : b.unsubFails = true <;> by_cases h3 : b.unsubStops = true <;> simp [h1, h2, h3]
  · intro hh; simp [bapply, hl, hh]

/-- BEFORE the fix: the metadata store whose `Unsubscribe` fails — Close reports the error and changes nothing: the loop
    keeps running, the flag stays set — whereas with a working `Unsubscribe` Close ends the loop -/
theorem bare_unsubscribe_failure_keeps_loop_old :
    resOf' (bscript (bfresh .flag true true true false) [.start, .close, .close]) =
      [(BRes.pending, 1), (BRes.closeError, 1), (BRes.closeError, 1)] ∧
    resOf' (bscript (bfresh .flag true true false) [.start, .close, .close]) =
      [(BRes.pending, 1), (BRes.closeOk, 0), (BRes.closeRefused, 0)] := by
  refine ⟨by decide, by decide⟩

/-- … after "fix: metadata store: a failing Unsubscribe no longer leaves the Start loop running after Close": Close reports
    the error and the loop ends all the same (a second Close finds the store not running); likewise when the store closes
    itself because the context of its Start ended -/
theorem bare_unsubscribe_failure_stops_loop :
    resOf' (bscript (bfresh .flag true true true) [.start, .close, .close]) =
      [(BRes.pending, 1), (BRes.closeError, 0), (BRes.closeRefused, 0)] ∧
    resOf' (bscript (bfresh .flag true true true) [.start, .cancel, .close]) =
      [(BRes.pending, 1), (BRes.returnedErr, 0), (BRes.closeRefused, 0)] := by
  refine ⟨by decide, by decide⟩

/-- a tick spawns a `Process` goroutine iff the ticker has a getter and the getter returned no error -/
theorem tick_spawns_iff (getter nilFn err nilErr : Nat) :
    tickSpawns getter nilFn err nilErr = true ↔ getter ≠ nilFn ∧ err = nilErr := by
  simp [tickSpawns, tickSkipped]

/-! ### constructors that fail, close loops that meet an error -/

/-- whichever step of the OCR3 / OCR2 constructors fails, no service has been started -/
theorem ctor_failure_starts_nothing (a b c d : Bool) (n : Nat) :
    ((newPluginOutcome a b c n).1 = .failed → (newPluginOutcome a b c n).2 = 0) ∧
    ((newReportingPluginOutcome a b c d n).1 = .failed → (newReportingPluginOutcome a b c d n).2 = 0) ∧
    ((newReportingPluginOutcomeV2 a b c).1 = .failed → (newReportingPluginOutcomeV2 a b c).2 = 0) ∧
    ((newPluginOutcome a b c n).1 = .built ↔ (a = false ∧ b = false ∧ c = false)) ∧
    ((newReportingPluginOutcome a b c d n).1 = .built ↔ (a = false ∧ b = false ∧ c = false ∧ d = false)) ∧
    ((newReportingPluginOutcomeV2 a b c).1 = .built ↔ (a = false ∧ b = false ∧ c = false)) := by
  cases a <;> cases b <;> cases c <;> cases d <;> simp [newPluginOutcome, newReportingPluginOutcome, newReportingPluginOutcomeV2]

/-- the Close loops close EVERY sub-service and report every error; a loop that stopped at the first error would leave the
    services behind it running -/
theorem closeAll_closes_every_service (errs : List Bool) :
    (closeAll errs).1 = errs.length ∧ (closeAll errs).2 = (errs.filter id).length ∧
    (closeUntilError [true, false]).1 < (closeAll [true, false]).1 := by
  refine ⟨rfl, rfl, by decide⟩

/-- the oracle with the constructor and close-fault clauses: holds exactly when nothing is reported -/
theorem specFull_iff_ok (cs : Case) (o : Obs) : specFull cs o = true ↔ classifyFull cs o = .base .ok := by
  have h := spec_iff_ok cs o
  simp only [specFull, classifyFull]
  cases h1 : ctorOk cs o <;> cases h2 : isUnsubLeak cs o <;> cases h3 : o.ctorFailed <;> simp_all

/-- the two known findings keep their meaning under the extended oracle: they are reported only when the base oracle
    reports them and neither a constructor fault nor the Unsubscribe leak is at hand (for every base verdict `v`, in
    particular `closeBeforeRunning` and `closeBeforeServiceStart`) -/
theorem known_findings_unchanged (cs : Case) (o : Obs) (v : Verdict) :
    classifyFull cs o = .base v ↔ (ctorOk cs o = true ∧ isUnsubLeak cs o = false ∧ classify cs o = v) := by
  simp only [classifyFull]
  cases h1 : ctorOk cs o <;> cases h2 : isUnsubLeak cs o <;> cases h3 : o.ctorFailed <;> simp_all

private theorem predictFull_ctor (fx : Fixes) (u : Bool) (cs : Case) (t n k : Nat) (b : Bool) (p : Nat) (hc : cs.closeFault = "") (hf : cs.ctorFault ≠ "") :
    predictFull fx u cs t n k b p = { predict fx cs t n k b p with
      ctorFailed := decide ((ctorPredict cs).1 = .failed), ctorLeft := if (ctorPredict cs).1 = .failed then (ctorPredict cs).2 else 0 } := by
  simp [predictFull, hc, hf]

/-- a constructor that fails: for each of the eight faults the harness injects the model says "error, no instance, nothing
    started", and the oracle accepts the model's prediction for the whole case (the factory builds a working instance
    afterwards, which is closed once start-up has quiesced) -/
theorem specFull_model_ctor_fail (fx : Fixes) (u : Bool) (cs : Case) (t n k : Nat) (ht : 0 < t) (hc : cs.closeFault = "")
    (hf : (cs.family = "" ∧ (cs.ctorFault = "bad-json" ∨ cs.ctorFault = "bad-probability" ∨ cs.ctorFault = "probability-range" ∨
                               cs.ctorFault = "nodes-range" ∨ cs.ctorFault = "subscribe")) ∨
          (cs.family = "v2" ∧ (cs.ctorFault = "bad-json" ∨ cs.ctorFault = "coordinator-factory" ∨ cs.ctorFault = "observer-factory"))) :
    (ctorPredict cs).1 = .failed ∧ (ctorPredict cs).2 = 0 ∧ specFull cs (predictFull fx u cs t n k true 0) = true := by
  have hne : cs.ctorFault ≠ "" := by
    rcases hf with ⟨_, h | h | h | h | h⟩ | ⟨_, h | h | h⟩ <;> simp [h]
  have hp : (ctorPredict cs).1 = .failed ∧ (ctorPredict cs).2 = 0 := by
    rcases hf with ⟨hfam, h | h | h | h | h⟩ | ⟨hfam, h | h | h⟩ <;>
      simp [ctorPredict, hfam, h, newReportingPluginOutcome, newReportingPluginOutcomeV2, newPluginOutcome]
  refine ⟨hp.1, hp.2, ?_⟩
  have hs := (spec_model_clean_close fx cs t n k ht).2.1
  rw [predictFull_ctor fx u cs t n k true 0 hc hne]
  simp only [specFull, ctorOk, isUnsubLeak, hc, hp.1, hp.2]
  simp [spec] at hs ⊢
  simpa [Obs.leak, lingerOk, progressOk, progressDue, panicOk, panicClauseApplies] using hs

private theorem closeAll_one (n : Nat) (hn : 0 < n) : closeAll ((List.range n).map fun i => decide (i = 0)) = (n, 1) := by
  simp only [closeAll, List.length_map, List.length_range, Prod.mk.injEq, true_and]
  induction n with
  | zero => omega
  | succ k ih =>
    cases k with
    | zero => decide
    | succ j =>
      have := ih (by omega)
      rw [List.range_succ, List.map_append, List.filter_append, List.length_append, this]
      simp

/-- a collaborator's close step fails — the OCR2 coordinator's Close, or the block source's Unsubscribe on the tree as it
    is now: the model says Close reports exactly one error and everything stops all the same, and the oracle accepts that -/
theorem specFull_model_close_fault (fx : Fixes) (cs : Case) (t n k : Nat) (ht : 0 < t) (hs : 0 < cs.services) (hc : cs.ctorFault = "")
    (hf : cs.closeFault = "v2-coordinator-close" ∨ cs.closeFault = "unsubscribe") :
    (predictFull fx true cs t n k true 0).errOther = 1 ∧ (predictFull fx true cs t n k true 0).leakedService = 0 ∧
    specFull cs (predictFull fx true cs t n k true 0) = true := by
  have hne : cs.closeFault ≠ "" := by rcases hf with h | h <;> simp [h]
  have hq := predict_nopanic_late fx cs t n k ht
  have hca := closeAll_one cs.services hs
  have hp : predictFull fx true cs t n k true 0 = { quietObs cs t 0 0 with errOther := 1 } := by
    simp [predictFull, hc, hne, hq, hca, quietObs]
  rw [hp]
  refine ⟨rfl, rfl, ?_⟩
  simp [specFull, ctorOk, hc, isUnsubLeak, spec, quietObs, panicOk, progressOk, progressDue, lingerOk, Obs.leak, panicClauseApplies]

/-- BEFORE "fix: metadata store: a failing Unsubscribe no longer leaves the Start loop running after Close" the model says:
    one error, and the metadata store's loop is left running — also after a second Close; the oracle reports exactly that -/
theorem specFull_reports_unsub_leak_old (fx : Fixes) (cs : Case) (t n k : Nat) (ht : 0 < t) (hs : 0 < cs.services) (hc : cs.ctorFault = "")
    (hf : cs.closeFault = "unsubscribe") :
    (predictFull fx false cs t n k true 0).leakedService = 1 ∧
    specFull cs (predictFull fx false cs t n k true 0) = false ∧
    classifyFull cs (predictFull fx false cs t n k true 0) = .unsubLeak := by
  have hq := predict_nopanic_late fx cs t n k ht
  have hca := closeAll_one cs.services hs
  have hp : predictFull fx false cs t n k true 0 =
      { quietObs cs t 0 0 with errOther := 1, leakedService := 1, ticking := true, bubbleEnded := false, after2ndService := 1 } := by
    simp [predictFull, hc, hf, hq, hca, quietObs]
  rw [hp]
  refine ⟨rfl, ?_, ?_⟩
  · simp [specFull, isUnsubLeak, hf, quietObs]
  · simp [classifyFull, ctorOk, hc, isUnsubLeak, hf, quietObs]

end AutoVerif.C18
