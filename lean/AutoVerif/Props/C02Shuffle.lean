import AutoVerif.Model.Shuffle
/-
C02Shuffle — what the outcome / observation models assume of `random.ShuffleString`, proved of its model
(`Model/Shuffle.lean`): for every list of swap calls — i.e. whatever `rand.Shuffle` does for a given length and key —
the shuffle permutes its input, keeps the length, and is INJECTIVE on inputs of one length (work ids are 64 hex
characters), so sorting by shuffled work id is a total order on distinct work ids and the tie-breaks of `Outcome`
and `Observation` depend on the key alone.  The correspondence check (harness `c02Shuffle`, driver `Drv/C02`) records
the swap calls of the real `rand.Shuffle` for the real keyed source and compares `applySwaps` with the real
`ShuffleString` on the same strings.
-/
namespace AutoVerif.Shuffle

theorem transp_invol (i j k : Nat) : transp i j (transp i j k) = k := by
  unfold transp
  by_cases h1 : k = i <;> by_cases h2 : k = j <;> simp [h1, h2] <;> (try split) <;> simp_all

theorem transp_lt {i j k n : Nat} (hi : i < n) (hj : j < n) (hk : k < n) : transp i j k < n := by
  unfold transp; split <;> (try split) <;> assumption

theorem swap_length {α} (l : List α) (i j : Nat) : (swap l i j).length = l.length := by
  unfold swap; split <;> simp

/-- reading a swapped list at `k` reads the original at `transp i j k` -/
theorem swap_getElem? {α} (l : List α) (i j k : Nat) (hi : i < l.length) (hj : j < l.length) :
    (swap l i j)[k]? = l[transp i j k]? := by
  unfold swap transp
  simp only [hi, hj, and_self, dite_true]
  by_cases hkj : k = j
  · subst hkj
    by_cases hki : k = i
    · subst hki; simp [hi]
    · simp [hki, hj, hi]
  · by_cases hki : k = i
    · subst hki
      have : ¬ j = k := fun e => hkj e.symm
      simp [this, hkj, hi, hj]
    · have h1 : ¬ j = k := fun e => hkj e.symm
      have h2 : ¬ i = k := fun e => hki e.symm
      simp [hkj, hki, h1, h2]

/-- a swap is undone by the same swap -/
theorem swap_swap {α} (l : List α) (i j : Nat) : swap (swap l i j) i j = l := by
  by_cases h : i < l.length ∧ j < l.length
  · obtain ⟨hi, hj⟩ := h
    apply List.ext_getElem?
    intro k
    rw [swap_getElem? _ _ _ _ (by rw [swap_length]; exact hi) (by rw [swap_length]; exact hj),
        swap_getElem? _ _ _ _ hi hj, transp_invol]
  · have h1 : swap l i j = l := by unfold swap; simp [h]
    rw [h1, h1]

/-- **one swap is injective** -/
theorem swap_injective {α} (l₁ l₂ : List α) (i j : Nat) (h : swap l₁ i j = swap l₂ i j) : l₁ = l₂ := by
  have := congrArg (fun l => swap l i j) h
  simpa [swap_swap] using this

theorem applySwaps_length {α} (l : List α) (sw : List (Nat × Nat)) : (applySwaps l sw).length = l.length := by
  induction sw generalizing l with
  | nil => rfl
  | cons p rest ih => obtain ⟨i, j⟩ := p; simp only [applySwaps]; rw [ih, swap_length]

/-- **the shuffle is injective**: whatever calls `rand.Shuffle` makes for this length and key, two different inputs
never shuffle to the same output — so distinct work ids keep distinct sort keys in every round -/
theorem applySwaps_injective {α} (sw : List (Nat × Nat)) (l₁ l₂ : List α)
    (h : applySwaps l₁ sw = applySwaps l₂ sw) : l₁ = l₂ := by
  induction sw generalizing l₁ l₂ with
  | nil => exact h
  | cons p rest ih => obtain ⟨i, j⟩ := p; exact swap_injective _ _ _ _ (ih _ _ h)

/-- the swaps undone in reverse order give the input back: the shuffle is a bijection on lists -/
theorem applySwaps_reverse {α} (sw : List (Nat × Nat)) (l : List α) : applySwaps (applySwaps l sw) sw.reverse = l := by
  induction sw generalizing l with
  | nil => rfl
  | cons p rest ih =>
    obtain ⟨i, j⟩ := p
    have happ : ∀ (l : List α) (a b : List (Nat × Nat)), applySwaps l (a ++ b) = applySwaps (applySwaps l a) b := by
      intro l a b
      induction a generalizing l with
      | nil => rfl
      | cons q a iha => obtain ⟨x, y⟩ := q; simp only [List.cons_append, applySwaps]; exact iha _
    simp only [applySwaps, List.reverse_cons]
    rw [happ, ih]
    simp only [applySwaps]
    exact swap_swap l i j

/-- every position of the output holds the rune of exactly one position of the input, the same position for every
input of that length: the shuffle is a fixed rearrangement `σ` of positions (it looks at no rune) -/
theorem applySwaps_positions (sw : List (Nat × Nat)) (n : Nat) :
    ∃ σ : Nat → Nat, ∀ {α} (l : List α), l.length = n → ∀ k, (applySwaps l sw)[k]? = l[σ k]? := by
  induction sw with
  | nil => exact ⟨id, fun l _ k => rfl⟩
  | cons p rest ih =>
    obtain ⟨i, j⟩ := p
    obtain ⟨σ, hσ⟩ := ih
    by_cases h : i < n ∧ j < n
    · refine ⟨fun k => transp i j (σ k), fun l hl k => ?_⟩
      simp only [applySwaps]
      rw [hσ (swap l i j) (by rw [swap_length]; exact hl) k, swap_getElem? _ _ _ _ (hl ▸ h.1) (hl ▸ h.2)]
    · refine ⟨σ, fun l hl k => ?_⟩
      simp only [applySwaps]
      have h1 : swap l i j = l := by unfold swap; simp [hl, h]
      rw [h1]; exact hσ l hl k

/-- `ShuffleString` is injective (strings are their rune lists) -/
theorem shuffleString_injective (sw : List (Nat × Nat)) (s t : String) (h : shuffleString s sw = shuffleString t sw) :
    s = t := by
  unfold shuffleString at h
  have h1 : applySwaps s.toList sw = applySwaps t.toList sw := by
    have := congrArg String.toList h
    simpa using this
  exact String.toList_inj.mp (applySwaps_injective sw _ _ h1)

theorem shuffleString_length (sw : List (Nat × Nat)) (s : String) : (shuffleString s sw).length = s.length := by
  simp [shuffleString, applySwaps_length, String.length_toList]

/-- the sort key of a round as the real code computes it: every work id is shuffled with the swap calls that
`rand.Shuffle` makes for ITS length under the round's 16-byte key (`sw n` = those calls for length `n`) -/
def roundKey (sw : Nat → List (Nat × Nat)) (w : String) : String := shuffleString w (sw w.length)

/-- **the round's sort key is injective on all strings** — in particular on work ids: the hypothesis `hk` of
`C08.key_separates` and the "shuffle injective on held ids" assumption of the outcome model hold for the real
shuffle, whatever the key and whatever `rand.Shuffle` does with it -/
theorem roundKey_injective (sw : Nat → List (Nat × Nat)) (a b : String) (h : roundKey sw a = roundKey sw b) : a = b := by
  have hl : a.length = b.length := by
    have := congrArg String.length h
    simpa [roundKey, shuffleString_length] using this
  unfold roundKey at h
  rw [hl] at h
  exact shuffleString_injective _ _ _ h

/-- non-vacuity: a concrete shuffle of a concrete id, and two ids told apart -/
example : shuffleString "abcd" [(3, 1), (2, 0), (1, 1)] = "cdab" := by decide
example : fisherYates 4 [(3, 1), (2, 0), (1, 1)] = true := by decide

end AutoVerif.Shuffle
