import AutoVerif.Lemmas.C06
/-
C07 — In-flight work is withheld from observation until the right event releases it.

Same model and histories as C06 (`run cfg ops` for every `ops : List Op`).
What the node *knows* about a unit of work `w` is `known cfg log now w`: the
newest record write since the last restart (a successful accept, or an event
that rewrote the record) while it is inside its lockout window.  The theorems
say what `ShouldProcess` / `FilterProposals` answer in each of these situations,
for every history that leads there, every upkeep type getter and every check
block; and that the three filters are `List.filter` of those predicates.
-/
namespace AutoVerif.C07
open AutoVerif.C06

/-! ### the coordinator's answers are a function of the log -/

/-- after every history `ShouldProcess` on the cache equals the Spec predicate on the log -/
theorem shouldProcess_eq_spec (utype : String → UpkeepType) (cfg : Cfg) (ops : List Op)
    (w uid : String) (cb : Nat) :
    shouldProcess utype (run cfg ops).st w uid cb =
      specProcess utype cfg (run cfg ops).log (run cfg ops).st.now w uid cb := by
  unfold shouldProcess specProcess
  rw [(inv_run cfg ops).get_eq_known]
  cases known cfg (run cfg ops).log (run cfg ops).st.now w with
  | none => rfl
  | some r =>
    simp only
    cases r.pending with
    | true => rfl
    | false =>
      simp only [Bool.false_eq_true, if_false]
      by_cases hp : r.ttype = performEvent
      · simp only [hp, if_true]
        cases utype uid <;> rfl
      · simp only [hp, if_false]
        cases utype uid <;> rfl

/-- the same for the keep-test of `FilterProposals` -/
theorem proposalAllowed_eq_spec (utype : String → UpkeepType) (cfg : Cfg) (ops : List Op)
    (w uid : String) :
    proposalAllowed utype (run cfg ops).st w uid =
      specPropose utype cfg (run cfg ops).log (run cfg ops).st.now w uid := by
  unfold proposalAllowed specPropose
  rw [(inv_run cfg ops).get_eq_known]
  cases known cfg (run cfg ops).log (run cfg ops).st.now w with
  | none => rfl
  | some r =>
    simp only
    cases r.pending with
    | true => rfl
    | false =>
      simp only [Bool.false_eq_true, if_false]
      by_cases hp : r.ttype = performEvent
      · cases hu : utype uid <;> simp [hp]
      · cases hu : utype uid <;> simp [hp]

/-! ### the clauses of the property, over every history -/

/-- **pending_blocks_all**: while the newest thing known about `w` is an accepted,
    unconfirmed report, `w` is neither processed (payloads, results) nor proposed —
    for every upkeep id / type and every check block -/
theorem pending_blocks_all (utype : String → UpkeepType) (cfg : Cfg) (ops : List Op) (w : String) (r : Rec)
    (hk : known cfg (run cfg ops).log (run cfg ops).st.now w = some r) (hp : r.pending = true) :
    ∀ uid cb, shouldProcess utype (run cfg ops).st w uid cb = false ∧
      proposalAllowed utype (run cfg ops).st w uid = false := by
  intro uid cb
  rw [shouldProcess_eq_spec, proposalAllowed_eq_spec]
  simp [specProcess, specPropose, hk, hp]

/-- what `ShouldTransmit` offers is withheld from processing (ties C07 to C06) -/
theorem transmit_pending_blocks (utype : String → UpkeepType) (s : St) (w : String) (b : Nat)
    (h : shouldTransmit s w b = true) :
    ∀ uid cb, shouldProcess utype s w uid cb = false ∧ proposalAllowed utype s w uid = false := by
  intro uid cb
  unfold shouldTransmit at h
  unfold shouldProcess proposalAllowed
  cases hg : s.cache.get w s.now with
  | none => simp [hg] at h
  | some v =>
    simp only [hg] at h
    have hp : v.pending = true := by
      by_cases h1 : b < v.checkBlock
      · simp [h1] at h
      · by_cases h2 : b = v.checkBlock
        · simpa [h1, h2] using h
        · simp [h1, h2] at h
    simp [hp]

/-- **performed_log_blocked**: while the newest thing known is a confirmed perform,
    a log-triggered unit is not processed and not proposed, whatever the check block -/
theorem performed_log_blocked (utype : String → UpkeepType) (cfg : Cfg) (ops : List Op) (w uid : String) (r : Rec)
    (hk : known cfg (run cfg ops).log (run cfg ops).st.now w = some r)
    (hp : r.pending = false) (ht : r.ttype = performEvent) (hu : utype uid = .log) :
    ∀ cb, shouldProcess utype (run cfg ops).st w uid cb = false ∧
      proposalAllowed utype (run cfg ops).st w uid = false := by
  intro cb
  rw [shouldProcess_eq_spec, proposalAllowed_eq_spec]
  simp [specProcess, specPropose, hk, hp, ht, hu]

/-- **performed_conditional_from_block**: in the same situation a conditional upkeep is
    processed exactly for check blocks at or after the perform (transmit) block, and
    may always be proposed again -/
theorem performed_conditional_from_block (utype : String → UpkeepType) (cfg : Cfg) (ops : List Op) (w uid : String) (r : Rec)
    (hk : known cfg (run cfg ops).log (run cfg ops).st.now w = some r)
    (hp : r.pending = false) (ht : r.ttype = performEvent) (hu : utype uid = .condition) :
    (∀ cb, shouldProcess utype (run cfg ops).st w uid cb = true ↔ cb ≥ r.tblock) ∧
      proposalAllowed utype (run cfg ops).st w uid = true := by
  refine ⟨?_, ?_⟩
  · intro cb
    rw [shouldProcess_eq_spec]
    simp [specProcess, hk, hp, ht, hu]
  · rw [proposalAllowed_eq_spec]
    simp [specPropose, hk, hp, ht, hu]

/-- **failed_event_releases**: when the newest thing known is a stale / reorged /
    insufficient-funds (any non-perform) event, the work is processed and proposed again -/
theorem failed_event_releases (utype : String → UpkeepType) (cfg : Cfg) (ops : List Op) (w : String) (r : Rec)
    (hk : known cfg (run cfg ops).log (run cfg ops).st.now w = some r)
    (hp : r.pending = false) (ht : r.ttype ≠ performEvent) :
    ∀ uid cb, shouldProcess utype (run cfg ops).st w uid cb = true ∧
      proposalAllowed utype (run cfg ops).st w uid = true := by
  intro uid cb
  rw [shouldProcess_eq_spec, proposalAllowed_eq_spec]
  simp [specProcess, specPropose, hk, hp, ht]

/-- **expiry_releases**: once the lockout window of the newest write is over (or nothing
    was written since the restart) the work is processed and proposed again -/
theorem expiry_releases (utype : String → UpkeepType) (cfg : Cfg) (ops : List Op) (w : String)
    (h : lastWrite w (run cfg ops).log = none ∨
      ∃ r t, lastWrite w (run cfg ops).log = some (r, t) ∧ cfg.window > 0 ∧ (run cfg ops).st.now > t + cfg.window) :
    ∀ uid cb, shouldProcess utype (run cfg ops).st w uid cb = true ∧
      proposalAllowed utype (run cfg ops).st w uid = true := by
  intro uid cb
  rw [shouldProcess_eq_spec, proposalAllowed_eq_spec]
  have hk : known cfg (run cfg ops).log (run cfg ops).st.now w = none := by
    unfold known
    rcases h with h | ⟨r, t, h, hw, hn⟩
    · simp [h]
    · have : liveAt cfg t (run cfg ops).st.now = false := by
        cases hv : liveAt cfg t (run cfg ops).st.now with
        | false => rfl
        | true => rw [liveAt_iff] at hv; omega
      simp [h, this]
  simp [specProcess, specPropose, hk]

/-! ### the filters -/

private theorem filterLoop_eq {ι : Type} (keep : ι → Bool) : ∀ (xs res : List ι),
    filterLoop keep res xs = res ++ xs.filter keep := by
  intro xs
  induction xs with
  | nil => intro res; simp [filterLoop]
  | cons x xs ih =>
    intro res
    simp only [filterLoop, List.filter_cons]
    by_cases hk : keep x = true
    · simp [hk, ih]
    · simp [hk, ih]

/-- **filters_are_filter**: `PreProcess`, `FilterResults`, `FilterProposals` return exactly
    the `List.filter` of their input by `ShouldProcess` / the proposal test -/
theorem filters_are_filter (utype : String → UpkeepType) (s : St) :
    (∀ ps, preProcess utype s ps =
      ps.filter (fun p => shouldProcess utype s p.workID p.upkeepID p.trigger.blockNumber)) ∧
    (∀ rs, filterResults utype s rs =
      rs.filter (fun r => shouldProcess utype s r.workID r.upkeepID r.trigger.blockNumber)) ∧
    (∀ ps, filterProposals utype s ps =
      ps.filter (fun p => proposalAllowed utype s p.workID p.upkeepID)) := by
  refine ⟨?_, ?_, ?_⟩ <;> intro xs <;> simp [preProcess, filterResults, filterProposals, filterLoop_eq]

/-- order preserved, nothing added: every output is a sublist of its input -/
theorem filters_sublist (utype : String → UpkeepType) (s : St) :
    (∀ ps, (preProcess utype s ps).Sublist ps) ∧ (∀ rs, (filterResults utype s rs).Sublist rs) ∧
    (∀ ps, (filterProposals utype s ps).Sublist ps) := by
  obtain ⟨h1, h2, h3⟩ := filters_are_filter utype s
  refine ⟨?_, ?_, ?_⟩ <;> intro xs
  · rw [h1]; exact List.filter_sublist
  · rw [h2]; exact List.filter_sublist
  · rw [h3]; exact List.filter_sublist

/-- after every history each filter output is the Spec filter of its input w.r.t. the log
    (the statement the driver checks on the implementation's outputs) -/
theorem filters_eq_spec (utype : String → UpkeepType) (cfg : Cfg) (ops : List Op) :
    (∀ ps, preProcess utype (run cfg ops).st ps =
      ps.filter (fun p => specProcess utype cfg (run cfg ops).log (run cfg ops).st.now p.workID p.upkeepID p.trigger.blockNumber)) ∧
    (∀ rs, filterResults utype (run cfg ops).st rs =
      rs.filter (fun r => specProcess utype cfg (run cfg ops).log (run cfg ops).st.now r.workID r.upkeepID r.trigger.blockNumber)) ∧
    (∀ ps, filterProposals utype (run cfg ops).st ps =
      ps.filter (fun p => specPropose utype cfg (run cfg ops).log (run cfg ops).st.now p.workID p.upkeepID)) := by
  obtain ⟨h1, h2, h3⟩ := filters_are_filter utype (run cfg ops).st
  refine ⟨?_, ?_, ?_⟩ <;> intro xs
  · rw [h1]; congr 1; funext p; exact shouldProcess_eq_spec ..
  · rw [h2]; congr 1; funext p; exact shouldProcess_eq_spec ..
  · rw [h3]; congr 1; funext p; exact proposalAllowed_eq_spec ..

/-! ### life cycle -/

private theorem run_append (cfg : Cfg) (ops ops' : List Op) :
    run cfg (ops ++ ops') = runFrom cfg (run cfg ops) ops' := by
  simp [run, runFrom, List.foldl_append]

/-- **life_cycle**: after *any* history, if `Accept(w, b)` succeeds then
    (1) for the next `d1 ≤ window` nanoseconds `w` is neither processed nor proposed;
    (2) once a sufficiently confirmed, not yet processed perform event for `(w, b)` has
        been polled, a log-triggered `w` stays blocked, a conditional `w` is processed
        exactly from the transmit block on and may be proposed;
    (3) when more than `window` has passed since that poll, `w` is processed and proposed again. -/
theorem life_cycle (utype : String → UpkeepType) (cfg : Cfg) (ops : List Op) (w uid : String) (b cb d1 d2 : Nat) (e : Event)
    (hacc : (accept cfg (run cfg ops).st w b).2 = true)
    (hd1 : cfg.window = 0 ∨ d1 ≤ cfg.window)
    (hw : e.workID = w) (hb : e.checkBlock = b) (hconf : cfg.minConf ≤ e.conf) (hperf : e.ttype = performEvent)
    (hfresh : (run cfg (ops ++ [.accept w b, .advance d1])).st.visited.get (visitedID e)
      (run cfg (ops ++ [.accept w b, .advance d1])).st.now = none) :
    let s1 := (run cfg (ops ++ [.accept w b, .advance d1])).st
    let s2 := (run cfg (ops ++ [.accept w b, .advance d1, .poll [e]])).st
    let s3 := (run cfg (ops ++ [.accept w b, .advance d1, .poll [e], .advance d2])).st
    (shouldProcess utype s1 w uid cb = false ∧ proposalAllowed utype s1 w uid = false) ∧
    (utype uid = .log → shouldProcess utype s2 w uid cb = false ∧ proposalAllowed utype s2 w uid = false) ∧
    (utype uid = .condition →
      (shouldProcess utype s2 w uid cb = true ↔ cb ≥ e.transmitBlock) ∧ proposalAllowed utype s2 w uid = true) ∧
    (cfg.window > 0 → d2 > cfg.window →
      shouldProcess utype s3 w uid cb = true ∧ proposalAllowed utype s3 w uid = true) := by
  intro s1 s2 s3
  -- phase 1: the log starts with the successful accept
  have hlog1 : (run cfg (ops ++ [.accept w b, .advance d1])).log =
      .accept (run cfg ops).st.now w b true :: (run cfg ops).log := by
    rw [run_append]; simp [runFrom, step, stepAccept, hacc]
  have hnow1 : (run cfg (ops ++ [.accept w b, .advance d1])).st.now = (run cfg ops).st.now + d1 := by
    rw [run_append]
    simp only [runFrom, List.foldl_cons, List.foldl_nil, step, stepAccept]
    rcases accept_cases cfg (run cfg ops).st w b with ⟨_, hst, _⟩ | ⟨_, hst, _⟩ <;> rw [hst]
  have hlive1 : liveAt cfg (run cfg ops).st.now ((run cfg ops).st.now + d1) = true := by
    rw [liveAt_iff]; omega
  have hk1 : known cfg (run cfg (ops ++ [.accept w b, .advance d1])).log
      (run cfg (ops ++ [.accept w b, .advance d1])).st.now w = some (acceptRec b) := by
    simp [known, hlog1, hnow1, lastWrite, hlive1]
  have p1 := pending_blocks_all utype cfg (ops ++ [.accept w b, .advance d1]) w (acceptRec b) hk1 rfl uid cb
  -- phase 2: the event finds the record and rewrites it
  have inv1 := inv_run cfg (ops ++ [.accept w b, .advance d1])
  have hget1 : (run cfg (ops ++ [.accept w b, .advance d1])).st.cache.get e.workID
      (run cfg (ops ++ [.accept w b, .advance d1])).st.now = some (acceptRec b) := by
    rw [hw, inv1.get_eq_known, hk1]
  have hrun2 : run cfg (ops ++ [.accept w b, .advance d1, .poll [e]]) =
      stepEvent cfg (run cfg (ops ++ [.accept w b, .advance d1])) e := by
    have : ops ++ [.accept w b, .advance d1, .poll [e]] = (ops ++ [.accept w b, .advance d1]) ++ [.poll [e]] := by simp
    rw [this, run_append]; simp [runFrom, step]
  have hdisp : (pollEvent cfg (run cfg (ops ++ [.accept w b, .advance d1])).st e).2 = .same := by
    unfold pollEvent
    have hc : ¬ e.conf < cfg.minConf := by omega
    simp [hc, hfresh, hget1, hb, acceptRec]
  have hlog2 : (run cfg (ops ++ [.accept w b, .advance d1, .poll [e]])).log =
      .event ((run cfg ops).st.now + d1) e .same :: (run cfg (ops ++ [.accept w b, .advance d1])).log := by
    rw [hrun2]; simp [stepEvent, hdisp, hnow1]
  have hnow2 : (run cfg (ops ++ [.accept w b, .advance d1, .poll [e]])).st.now = (run cfg ops).st.now + d1 := by
    rw [hrun2]
    simp only [stepEvent]
    rcases pollEvent_cases cfg (run cfg (ops ++ [.accept w b, .advance d1])).st e with
      ⟨_, hst⟩ | ⟨_, hst, _⟩ | ⟨_, hst, _⟩ <;> rw [hst] <;> exact hnow1
  have hk2 : known cfg (run cfg (ops ++ [.accept w b, .advance d1, .poll [e]])).log
      (run cfg (ops ++ [.accept w b, .advance d1, .poll [e]])).st.now w = some (eventRec e) := by
    simp [known, hlog2, hnow2, lastWrite, hw, Disp.updating, liveAt_self]
  -- phase 3
  have hrun3 : run cfg (ops ++ [.accept w b, .advance d1, .poll [e], .advance d2]) =
      step cfg (run cfg (ops ++ [.accept w b, .advance d1, .poll [e]])) (.advance d2) := by
    have : ops ++ [.accept w b, .advance d1, .poll [e], .advance d2] =
        (ops ++ [.accept w b, .advance d1, .poll [e]]) ++ [.advance d2] := by simp
    rw [this, run_append]; simp [runFrom]
  refine ⟨p1, ?_, ?_, ?_⟩
  · intro hu
    exact performed_log_blocked utype cfg _ w uid (eventRec e) hk2 rfl hperf hu cb
  · intro hu
    obtain ⟨h1, h2⟩ := performed_conditional_from_block utype cfg _ w uid (eventRec e) hk2 rfl hperf hu
    exact ⟨h1 cb, h2⟩
  · intro hwin hd2
    apply expiry_releases utype cfg _ w
    right
    refine ⟨eventRec e, (run cfg ops).st.now + d1, ?_, hwin, ?_⟩
    · rw [hrun3]; simp [step, hlog2, lastWrite, hw, Disp.updating]
    · rw [hrun3]; simp only [step]; rw [hnow2]; omega

/-- non-vacuity of the life cycle (conditional upkeep "c…", log upkeep "l…") -/
example :
    let utype : String → UpkeepType := fun uid => if uid = "log" then .log else .condition
    let cfg : Cfg := ⟨1, 5000⟩
    let ev : Event := ⟨"w", "aa", performEvent, 30, 7, 1⟩
    let s1 := (run cfg [.accept "w" 7, .advance 10]).st
    let s2 := (run cfg [.accept "w" 7, .advance 10, .poll [ev]]).st
    let s3 := (run cfg [.accept "w" 7, .advance 10, .poll [ev], .advance 5001]).st
    shouldProcess utype s1 "w" "cond" 40 = false ∧ proposalAllowed utype s1 "w" "cond" = false ∧
    shouldProcess utype s2 "w" "log" 40 = false ∧ proposalAllowed utype s2 "w" "log" = false ∧
    shouldProcess utype s2 "w" "cond" 29 = false ∧ shouldProcess utype s2 "w" "cond" 30 = true ∧
    proposalAllowed utype s2 "w" "cond" = true ∧
    shouldProcess utype s3 "w" "log" 0 = true ∧ proposalAllowed utype s3 "w" "log" = true := by
  decide

/-- a stale-report event releases both types at once -/
example :
    let utype : String → UpkeepType := fun uid => if uid = "log" then .log else .condition
    let s := (run ⟨1, 5000⟩ [.accept "w" 7, .poll [⟨"w", "aa", 2, 30, 7, 1⟩]]).st
    shouldProcess utype s "w" "log" 0 = true ∧ shouldProcess utype s "w" "cond" 0 = true ∧
    proposalAllowed utype s "w" "log" = true := by
  decide

/-- the filters on a concrete list -/
example :
    let utype : String → UpkeepType := fun _ => .log
    let s := (run ⟨1, 5000⟩ [.accept "w" 7]).st
    let p (w : String) (tag : String) : Payload := ⟨"u", ⟨3, tag, none⟩, w⟩
    preProcess utype s [p "v" "0", p "w" "1", p "x" "2", p "w" "3", p "v" "4"] = [p "v" "0", p "x" "2", p "v" "4"] := by
  decide

/-! ### the two-phase cache GC -/

/-- **gc_race_releases_pending_work_old** — before "fix: cache: ClearExpired no longer deletes
    an entry that was renewed after the scan", `util.Cache.ClearExpired` collected expired
    keys under the read lock and deleted them later under the write lock without looking
    again (`Cache.deleteKeysOld`).  If `Accept` rewrote an expired-but-not-yet-collected
    record between the two phases, the fresh record was deleted: `Accept` answered true, the
    log says `w` has an accepted, unconfirmed report inside its window, yet the node would
    process and propose `w` again (and no longer offered the report for transmission). -/
theorem gc_race_releases_pending_work_old :
    let cfg : Cfg := ⟨0, 5000⟩
    let utype : String → UpkeepType := fun _ => .log
    let sys1 := run cfg [.accept "w" 7, .advance 5001]          -- record expired, not yet collected
    let toclear := sys1.st.cache.scanExpired ["w"] sys1.st.now   -- GC phase 1
    let sys2 := stepAccept cfg sys1 "w" 3                        -- Accept in between: succeeds
    let st3 := { sys2.st with cache := sys2.st.cache.deleteKeysOld toclear }  -- old GC phase 2
    toclear = ["w"] ∧ sys2.log.head? = some (.accept 5001 "w" 3 true) ∧
    known cfg sys2.log st3.now "w" = some (acceptRec 3) ∧
    shouldProcess utype st3 "w" "u" 0 = true ∧ proposalAllowed utype st3 "w" "u" = true ∧
    shouldTransmit st3 "w" 3 = false := by
  decide

/-- the same schedule with the re-checking phase 2 of the current code: the accepted record
    survives and the work stays withheld (general statement: Props/C06 `gc_two_phase_refines`) -/
example :
    let cfg : Cfg := ⟨0, 5000⟩
    let utype : String → UpkeepType := fun _ => .log
    let sys1 := run cfg [.accept "w" 7, .advance 5001]
    let toclear := sys1.st.cache.scanExpired ["w"] sys1.st.now
    let sys2 := stepAccept cfg sys1 "w" 3
    let st3 := { sys2.st with cache := sys2.st.cache.deleteKeys toclear sys1.st.now }
    shouldProcess utype st3 "w" "u" 0 = false ∧ proposalAllowed utype st3 "w" "u" = false ∧
    shouldTransmit st3 "w" 3 = true := by
  decide

end AutoVerif.C07
