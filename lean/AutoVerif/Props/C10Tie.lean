import AutoVerif.Props.C10
import AutoVerif.Gen.Consts
/-
C10Tie — the tie theorems of Props/C10.lean (`…_matches_source`): the model's decision functions equal the
decision expressions `AutoVerif.Gen.Src.*` that the extractor regenerates from the Go source on every check run
(docs/TIE_THEOREMS.md).  They live in a module of their own, which nothing but AutoVerif.lean (and another
property's Tie module, where a tie is reused) imports: a source change that breaks a tie here breaks this
property's check (bin/check audits every module `Props/C10*.lean`) and not the build of the theorem
modules of other properties that import Props/C10.lean.
-/
namespace AutoVerif.C10

/-! ### the model's decisions ARE the expressions of the working tree (`Gen.Src`, regenerated every run) -/

/-- the TTL test of the model is the condition of `viewResults` … -/
theorem expired_matches_source_view (ttl now : Nat) (e : Entry) :
    expired ttl now e = Gen.Src.c10ViewExpired (now - e.addedAt) ttl := rfl

/-- … and of `gc` -/
theorem expired_matches_source_gc (ttl now : Nat) (e : Entry) :
    expired ttl now e = Gen.Src.c10GcExpired (now - e.addedAt) ttl := rfl

/-- `viewResults` skips exactly the entries its `if` condition selects -/
theorem view_matches_source (ttl now : Nat) (s : Store) :
    view ttl now s =
      (s.filter (fun p => !Gen.Src.c10ViewExpired (now - p.2.addedAt) ttl)).map (·.2.data) := rfl

/-- `gc` deletes exactly the entries its `if` condition selects -/
theorem gc_matches_source (ttl now : Nat) (s : Store) :
    gc ttl now s = s.filter (fun p => !Gen.Src.c10GcExpired (now - p.2.addedAt) ttl) := rfl

/-- one iteration of `Add`: both `if` conditions, in the order of the source.  (`v` is the zero
value when `!ok`; the first condition is then true whatever the age.) -/
theorem add1_matches_source (ttl now : Nat) (s : Store) (r : CheckResult) :
    add1 ttl now s r =
      match get s r.workID with
      | none =>
        if Gen.Src.c10AddMissingOrDead false now ttl then set s r.workID ⟨r, now⟩ else s
      | some v =>
        if Gen.Src.c10AddMissingOrDead true (now - v.addedAt) ttl then set s r.workID ⟨r, now⟩
        else if Gen.Src.c10AddReplaces (blk v.data) (blk r) then set s r.workID ⟨r, now⟩
        else s := by
  simp only [add1, Gen.Src.c10AddMissingOrDead, Gen.Src.c10AddReplaces, expired]
  cases get s r.workID with
  | none => simp
  | some v => simp

/-- `remove`: the early return is taken exactly when the key is absent -/
theorem remove1_matches_source (s : Store) (id : String) :
    remove1 s id = if Gen.Src.c10RemoveAbsent (get s id).isSome then s else erase s id := by
  simp only [remove1, Gen.Src.c10RemoveAbsent]
  cases get s id <;> simp

/-- the eligible post-processor hands on exactly the results its `if` condition selects -/
theorem postProcess_matches_source (ttl now : Nat) (s : Store) (rs : List CheckResult) :
    postProcess ttl now s rs = add ttl now s (rs.filter (fun r => Gen.Src.c10Eligible r.pes r.eligible)) := rfl

/-! ### decision trees of the working tree (`"kind": "tree"`): order of tests, nesting, exits -/

/-- the loop body of `viewResults`: exit 1 (`continue`) skips the entry, exit 0 (end of the body) appends it —
the model's view keeps exactly the entries whose regenerated tree falls off the end -/
theorem view_loop_tree_matches_source (ttl now : Nat) (s : Store) :
    view ttl now s =
      (s.filter (fun p => Gen.Src.c10ViewLoopTree (now - p.2.addedAt) ttl == 0)).map (·.2.data) := by
  simp only [view]
  congr 1
  apply List.filter_congr
  intro p _
  simp only [Gen.Src.c10ViewLoopTree, expired]
  by_cases h : now - p.2.addedAt > ttl <;> simp [h]

/-- the body of `remove`: exit 1 (the early `return`) leaves the store, exit 0 falls through to `delete` —
for every store and id -/
theorem remove_tree_matches_source (s : Store) (id : String) :
    remove1 s id =
      match Gen.Src.c10RemoveTree (get s id).isSome with
      | 1 => s
      | _ => erase s id := by
  simp only [remove1, Gen.Src.c10RemoveTree]
  cases get s id <;> simp

/-! The loop bodies of `Add`, `gc` and `PostProcess` have no `return` / `continue` / `break`: their branches differ in
the EFFECT executed (assignment, `delete`, call of `Add`), which a tree of exits does not record — every leaf is 0.
What the regenerated trees still carry is the order and nesting of the tests; the three theorems below pin exactly
that (definitional equality with the nesting `add1` / `gc` / `postProcess` use, so swapping or re-nesting the `if`s
no longer builds).  Which effect sits in which branch is tied by `add1_matches_source`, `gc_matches_source`,
`postProcess_matches_source` through the single conditions. -/

/-- `Add`'s loop body tests "missing or dead" first and "strictly higher block" only in its else-branch — the
nesting of `add1` -/
theorem add_loop_shape_matches_source :
    Gen.Src.c10AddLoopTree = fun ok age ttl storedBlock newBlock =>
      if Gen.Src.c10AddMissingOrDead ok age ttl then 0
      else if Gen.Src.c10AddReplaces storedBlock newBlock then 0 else 0 := rfl

/-- `gc`'s loop body is one test, the one `gc` filters by -/
theorem gc_loop_shape_matches_source :
    Gen.Src.c10GcLoopTree = fun age ttl => if Gen.Src.c10GcExpired age ttl then 0 else 0 := rfl

/-- `PostProcess`'s loop body is one test, the one `postProcess` filters by -/
theorem postProcess_loop_shape_matches_source :
    Gen.Src.c10PostProcessLoopTree = fun pes eligible => if Gen.Src.c10Eligible pes eligible then 0 else 0 := rfl

/-- `RunHook`: the loop over `outcome.AgreedPerformables` has no test and no exit — every agreed performable is
visited and treated alike —, the function has no early return, and what the loop collects for `Remove` is
`append(toRemove, result.WorkID)`: the work id of the element visited (the extractor finds exactly this
right-hand side or fails).  That is `runHook`: `remove s (agreed.map (·.workID))`. -/
theorem runHook_shape_matches_source (s : Store) (agreed : List CheckResult) :
    Gen.Src.c10HookLoopTree = 0 ∧ Gen.Src.c10HookTree = 0 ∧ (∀ x, Gen.Src.c10HookCollects x = x) ∧
    runHook s agreed = remove s (agreed.map (·.workID)) := ⟨rfl, rfl, fun _ => rfl, rfl⟩

end AutoVerif.C10
