import AutoVerif.Props.C10
import AutoVerif.Gen.Consts
/-
C10Tie — the tie theorems of Props/C10.lean (`…_matches_source`): the model's decision functions equal the
decision expressions `AutoVerif.Gen.Src.*` that the extractor regenerates from the Go source on every check run
(docs/TIE_THEOREMS.md).  They live in a module of their own, which nothing but AutoVerif.lean (and another
property's Tie module, where a tie is reused) imports: a source change that breaks a tie here breaks this
property's check (bin/check audits every module `Props/C10*.lean`) and not the build of the theorem
modules of other properties that import Props/C10.lean.
-/
namespace AutoVerif.C10

/-! ### the model's decisions ARE the expressions of the working tree (`Gen.Src`, regenerated every run) -/

/-- the TTL test of the model is the condition of `viewResults` … -/
theorem expired_matches_source_view (ttl now : Nat) (e : Entry) :
    expired ttl now e = Gen.Src.c10ViewExpired (now - e.addedAt) ttl := rfl

/-- … and of `gc` -/
theorem expired_matches_source_gc (ttl now : Nat) (e : Entry) :
    expired ttl now e = Gen.Src.c10GcExpired (now - e.addedAt) ttl := rfl

/-- `viewResults` skips exactly the entries its `if` condition selects -/
theorem view_matches_source (ttl now : Nat) (s : Store) :
    view ttl now s =
      (s.filter (fun p => !Gen.Src.c10ViewExpired (now - p.2.addedAt) ttl)).map (·.2.data) := rfl

/-- `gc` deletes exactly the entries its `if` condition selects -/
theorem gc_matches_source (ttl now : Nat) (s : Store) :
    gc ttl now s = s.filter (fun p => !Gen.Src.c10GcExpired (now - p.2.addedAt) ttl) := rfl

/-- one iteration of `Add`: both `if` conditions, in the order of the source.  (`v` is the zero
value when `!ok`; the first condition is then true whatever the age.) -/
theorem add1_matches_source (ttl now : Nat) (s : Store) (r : CheckResult) :
    add1 ttl now s r =
      match get s r.workID with
      | none =>
        if Gen.Src.c10AddMissingOrDead false now ttl then set s r.workID ⟨r, now⟩ else s
      | some v =>
        if Gen.Src.c10AddMissingOrDead true (now - v.addedAt) ttl then set s r.workID ⟨r, now⟩
        else if Gen.Src.c10AddReplaces (blk v.data) (blk r) then set s r.workID ⟨r, now⟩
        else s := by
  simp only [add1, Gen.Src.c10AddMissingOrDead, Gen.Src.c10AddReplaces, expired]
  cases get s r.workID with
  | none => simp
  | some v => simp

/-- `remove`: the early return is taken exactly when the key is absent -/
theorem remove1_matches_source (s : Store) (id : String) :
    remove1 s id = if Gen.Src.c10RemoveAbsent (get s id).isSome then s else erase s id := by
  simp only [remove1, Gen.Src.c10RemoveAbsent]
  cases get s id <;> simp

/-- the eligible post-processor hands on exactly the results its `if` condition selects -/
theorem postProcess_matches_source (ttl now : Nat) (s : Store) (rs : List CheckResult) :
    postProcess ttl now s rs = add ttl now s (rs.filter (fun r => Gen.Src.c10Eligible r.pes r.eligible)) := rfl

end AutoVerif.C10
