import AutoVerif.Spec.C04
import AutoVerif.Gen.Consts
/-
C04 — Reports partition agreed performables within batch, gas and upkeep limits.

Property theorems only (helper lemmas are `private`).  Everything is proved for
every configuration with `batch ≥ 1` and every list of agreed performables —
no bound on length or gas.
-/
namespace AutoVerif.C04

/-! ### conservation and order -/

private theorem loop_flatten (fl) (cfg : Cfg) (rs cur : List CheckResult) (gas : Nat) :
    (loop fl cfg rs cur gas).flatten = cur ++ rs := by
  induction rs generalizing cur gas with
  | nil => unfold loop; split <;> simp_all
  | cons r rs ih =>
    unfold loop
    split
    · simp [ih]
    · simp [ih]

/-- every agreed performable appears exactly once, in outcome order, and nothing else does -/
theorem reports_concat (cfg : Cfg) (a : List CheckResult) : (reports cfg a).flatten = a := by
  simp [reports, loop_flatten]

/-! ### per-report conditions -/

/-- loop invariant on the batch under construction -/
private def CurOk (cfg : Cfg) (cur : List CheckResult) (gas : Nat) : Prop :=
  cur.length ≤ cfg.batch ∧ (cur.map (·.upkeepID)).Nodup ∧ gas = gasOf cfg cur ∧
  (gasOf cfg cur ≤ cfg.gasLimit ∨ cur.length ≤ 1)

private theorem gasOf_append (cfg : Cfg) (cur : List CheckResult) (r : CheckResult) :
    gasOf cfg (cur ++ [r]) = gasOf cfg cur + (r.gas + cfg.overhead) := by
  simp [gasOf]

private theorem reportOk_of_curOk {cfg : Cfg} {cur : List CheckResult} {gas : Nat}
    (h : CurOk cfg cur gas) (hne : cur ≠ []) : reportOk cfg cur = true := by
  obtain ⟨h1, h2, _, h4⟩ := h
  have hl : 0 < cur.length := List.length_pos_iff.mpr hne
  simp only [reportOk, Bool.and_eq_true, Bool.or_eq_true, decide_eq_true_eq]
  refine ⟨⟨⟨hne, h1⟩, h2⟩, ?_⟩
  rcases h4 with h4 | h4
  · exact Or.inl h4
  · exact Or.inr (by omega)

private theorem loop_ok (cfg : Cfg) (hb : 1 ≤ cfg.batch) (rs cur : List CheckResult) (gas : Nat)
    (h : CurOk cfg cur gas) : ∀ rep ∈ loop flush cfg rs cur gas, reportOk cfg rep = true := by
  induction rs generalizing cur gas with
  | nil =>
    unfold loop
    split
    · intro rep hrep
      simp only [List.mem_singleton] at hrep
      subst hrep
      exact reportOk_of_curOk h (by intro hc; simp_all)
    · intro rep hrep; simp at hrep
  | cons r rs ih =>
    unfold loop
    split
    · rename_i hf
      intro rep hrep
      rcases List.mem_cons.mp hrep with hrep | hrep
      · subst hrep
        apply reportOk_of_curOk h
        intro hc
        subst hc
        simp [flush] at hf
        omega
      · refine ih [r] _ ?_ rep hrep
        refine ⟨by simpa using hb, by simp, by simp [gasOf], Or.inr (by simp)⟩
    · rename_i hf
      refine ih (cur ++ [r]) _ ?_
      obtain ⟨h1, h2, h3, h4⟩ := h
      have hf1 : cur.length < cfg.batch := by
        apply Nat.lt_of_not_le; intro hc; apply hf; simp [flush]; exact Or.inl (Or.inl hc)
      have hf2 : cur.length > 0 → gas + r.gas + cfg.overhead ≤ cfg.gasLimit := by
        intro hc; apply Nat.le_of_not_lt; intro hg; apply hf; simp [flush]
        exact Or.inl (Or.inr ⟨hc, hg⟩)
      have hf3 : ∀ x ∈ cur, x.upkeepID ≠ r.upkeepID := by
        intro x hx he; apply hf; simp [flush]; exact Or.inr ⟨x, hx, he⟩
      refine ⟨by simp; omega, ?_, ?_, ?_⟩
      · rw [List.map_append, List.nodup_append]
        refine ⟨h2, by simp, ?_⟩
        intro a ha b hb
        simp only [List.map_cons, List.map_nil, List.mem_singleton] at hb
        subst hb
        intro hab
        obtain ⟨x, hx, hxa⟩ := List.mem_map.mp ha
        exact hf3 x hx (by rw [hxa, hab])
      · rw [gasOf_append, h3]; omega
      · rw [gasOf_append]
        by_cases hc : cur.length > 0
        · left; have := hf2 hc; omega
        · right; simp only [List.length_append, List.length_cons, List.length_nil]; omega

/-- every report: at least one upkeep, at most `batch`, no upkeep id twice, and within the gas
limit unless it is a single upkeep -/
theorem reports_each (cfg : Cfg) (hb : 1 ≤ cfg.batch) (a : List CheckResult) :
    ∀ rep ∈ reports cfg a, reportOk cfg rep = true :=
  loop_ok cfg hb a [] 0 ⟨by simp, by simp, by simp [gasOf], Or.inr (by simp)⟩

/-- C04 as one statement: the decidable predicate the run-time oracle evaluates on the
implementation's output holds of the model for all inputs -/
theorem reports_spec (cfg : Cfg) (hb : 1 ≤ cfg.batch) (a : List CheckResult) :
    spec cfg a (reports cfg a) = true := by
  simp only [spec, Bool.and_eq_true, decide_eq_true_eq, List.all_eq_true]
  exact ⟨reports_concat cfg a, reports_each cfg hb a⟩

/-! ### number of reports -/

private theorem length_le_of_nonempty : ∀ (l : List (List CheckResult)), (∀ x ∈ l, x ≠ []) →
    l.length ≤ l.flatten.length
  | [], _ => by simp
  | x :: xs, h => by
    have hx : x ≠ [] := h x (by simp)
    have := length_le_of_nonempty xs (fun y hy => h y (by simp [hy]))
    have : 0 < x.length := List.length_pos_iff.mpr hx
    simp only [List.flatten_cons, List.length_append, List.length_cons]; omega

/-- never more reports than agreed performables -/
theorem reports_count_le_length (cfg : Cfg) (hb : 1 ≤ cfg.batch) (a : List CheckResult) :
    (reports cfg a).length ≤ a.length := by
  have h := length_le_of_nonempty (reports cfg a) (by
    intro x hx
    have := reports_each cfg hb a x hx
    simp only [reportOk, Bool.and_eq_true, decide_eq_true_eq] at this
    exact this.1.1.1)
  rwa [reports_concat] at h

/-- the advertised report count (regenerated from `outcome.go`) is never exceeded for a valid outcome -/
theorem reports_count_le_max (cfg : Cfg) (hb : 1 ≤ cfg.batch) (a : List CheckResult)
    (ha : a.length ≤ Gen.outcomeAgreedPerformablesLimit) :
    (reports cfg a).length ≤ Gen.maxReportCount := by
  have := reports_count_le_length cfg hb a
  have hc : Gen.outcomeAgreedPerformablesLimit ≤ Gen.maxReportCount := by decide
  omega

/-! ### `uint64` arithmetic is exact -/

/-- the loop with Go's wrapping `uint64` sums -/
def flush64 (cfg : Cfg) (cur : List CheckResult) (gas : Nat) (r : CheckResult) : Bool :=
  decide (cur.length ≥ cfg.batch) ||
  (decide (cur.length > 0) && decide ((gas + r.gas + cfg.overhead) % 2^64 > cfg.gasLimit)) ||
  (cur.map (·.upkeepID)).contains r.upkeepID

def loop64 (cfg : Cfg) : List CheckResult → List CheckResult → Nat → List (List CheckResult)
  | [], cur, _ => if cur.length > 0 then [cur] else []
  | r :: rs, cur, gas =>
    if flush64 cfg cur gas r then
      cur :: loop64 cfg rs [r] ((r.gas + cfg.overhead) % 2^64)
    else
      loop64 cfg rs (cur ++ [r]) ((gas + r.gas + cfg.overhead) % 2^64)

private theorem loop64_eq (cfg : Cfg) (hl : cfg.gasLimit < 2^32) (ho : cfg.overhead < 2^32)
    (rs cur : List CheckResult) (gas : Nat) (hg : ∀ r ∈ rs, r.gas < 2^62)
    (hgas : gas < 2^62 + 2^32) (h0 : cur = [] → gas = 0) : loop64 cfg rs cur gas = loop flush cfg rs cur gas := by
  induction rs generalizing cur gas with
  | nil => simp [loop64, loop]
  | cons r rs ih =>
    have hr : r.gas < 2^62 := hg r (by simp)
    have hrs : ∀ x ∈ rs, x.gas < 2^62 := fun x hx => hg x (by simp [hx])
    have hmod : (gas + r.gas + cfg.overhead) % 2^64 = gas + r.gas + cfg.overhead :=
      Nat.mod_eq_of_lt (by omega)
    have hmod2 : (r.gas + cfg.overhead) % 2^64 = r.gas + cfg.overhead :=
      Nat.mod_eq_of_lt (by omega)
    have hfl : flush64 cfg cur gas r = flush cfg cur gas r := by simp [flush64, flush, hmod]
    unfold loop64 loop
    rw [hfl, hmod, hmod2]
    split
    · rw [ih [r] _ hrs (by omega) (by simp)]
    · rename_i hf
      by_cases hc : cur.length > 0
      · have : gas + r.gas + cfg.overhead ≤ cfg.gasLimit := by
          simp only [flush, Bool.or_eq_true, Bool.and_eq_true, decide_eq_true_eq, not_or, not_and,
            Nat.not_lt] at hf
          exact hf.1.2 hc
        rw [ih (cur ++ [r]) _ hrs (by omega) (by simp)]
      · have hg0 : gas = 0 := h0 (by cases cur with | nil => rfl | cons _ _ => simp at hc)
        rw [ih (cur ++ [r]) _ hrs (by omega) (by simp)]

/-- with allocations below `2^62` (the property's range) and `uint32` limit/overhead, the wrapping
`uint64` loop of the code and the `Nat` loop of the model are the same function -/
theorem reports_no_wrap (cfg : Cfg) (hl : cfg.gasLimit < 2^32) (ho : cfg.overhead < 2^32)
    (a : List CheckResult) (hg : ∀ r ∈ a, r.gas < 2^62) :
    loop64 cfg a [] 0 = reports cfg a :=
  loop64_eq cfg hl ho a [] 0 hg (by omega) (fun _ => rfl)

/-! ### the pinned tree before the fix -/

private def w (wid uid : String) (g : Nat) : CheckResult :=
  { pes := 0, retryable := false, eligible := true, reason := 0, upkeepID := uid,
    trigger := { blockNumber := 1, blockHash := "", ext := none }, workID := wid, gas := g,
    performData := "", fastGasWei := some 1, linkNative := some 1 }

/-! ### a failing report encoder -/

private theorem loopE_eq (cfg : Cfg) (f : Nat) (rs cur : List CheckResult) (gas k : Nat) (acc : List (List CheckResult)) :
    loopE cfg f rs cur gas k acc =
      (let rest := loop flush cfg rs cur gas
       if f ≤ k ∨ f > k + rest.length then (acc ++ rest, false) else (acc ++ rest.take (f - 1 - k), true)) := by
  induction rs generalizing cur gas k acc with
  | nil =>
    unfold loopE loop
    by_cases hc : cur.length > 0
    · simp only [hc, if_true, List.length_singleton]
      by_cases hk : k + 1 = f
      · have h1 : ¬ (f ≤ k ∨ f > k + 1) := by omega
        have h2 : f - 1 - k = 0 := by omega
        simp [hk, h1, h2]
        omega
      · have h1 : (f ≤ k ∨ f > k + 1) := by omega
        simp [hk, h1]
    · simp [hc]
  | cons r rs ih =>
    unfold loopE loop
    by_cases hfl : flush cfg cur gas r = true
    · simp only [hfl, if_true, List.length_cons]
      by_cases hk : k + 1 = f
      · have h1 : ¬ (f ≤ k ∨ f > k + ((loop flush cfg rs [r] (r.gas + cfg.overhead)).length + 1)) := by omega
        have h2 : f - 1 - k = 0 := by omega
        simp [hk, h1, h2]
      · rw [if_neg hk, ih]
        simp only []
        by_cases h1 : f ≤ k + 1 ∨ f > k + 1 + (loop flush cfg rs [r] (r.gas + cfg.overhead)).length
        · have h1' : f ≤ k ∨ f > k + ((loop flush cfg rs [r] (r.gas + cfg.overhead)).length + 1) := by omega
          simp [h1, h1']
        · have h1' : ¬ (f ≤ k ∨ f > k + ((loop flush cfg rs [r] (r.gas + cfg.overhead)).length + 1)) := by omega
          have h2 : f - 1 - k = (f - 1 - (k + 1)) + 1 := by omega
          simp [h1, h1', h2]
    · simp only [hfl]
      exact ih _ _ _ _

/-- **a failing encoder truncates, it never drops from the middle**: `Reports` returns all reports and no error when the
encoder never fails during the call; when its `f`-th call fails it returns exactly the first `f - 1` reports of the
fault-free run together with an error — so a caller that discards the result of a failed call (libocr does) never uses
a report list that is missing a performable in the middle -/
theorem reportsCall_eq_take (cfg : Cfg) (a : List CheckResult) (f : Nat) :
    reportsCall cfg a f =
      if f = 0 ∨ f > (reports cfg a).length then (reports cfg a, false) else ((reports cfg a).take (f - 1), true) := by
  unfold reportsCall
  rw [loopE_eq]
  simp only [reports, Nat.le_zero_eq, Nat.zero_add, List.nil_append, Nat.sub_zero]
  rfl

/-- no error ⇒ the whole statement of C04 holds of what was returned -/
theorem reportsCall_ok_spec (cfg : Cfg) (hb : 1 ≤ cfg.batch) (a : List CheckResult) (f : Nat)
    (h : (reportsCall cfg a f).2 = false) : spec cfg a (reportsCall cfg a f).1 = true := by
  rw [reportsCall_eq_take] at h ⊢
  split at h
  · rename_i hc; simp only [hc, if_true]; exact reports_spec cfg hb a
  · simp at h

/-- an error is returned exactly when the armed call is reached -/
theorem reportsCall_err_iff (cfg : Cfg) (a : List CheckResult) (f : Nat) :
    (reportsCall cfg a f).2 = true ↔ (1 ≤ f ∧ f ≤ (reports cfg a).length) := by
  rw [reportsCall_eq_take]
  split
  · rename_i hc; simp; omega
  · rename_i hc; simp; omega

example : reportsCall { batch := 1, gasLimit := 100, overhead := 1 }
    [{ (default : CheckResult) with upkeepID := "a" }, { (default : CheckResult) with upkeepID := "b" }] 2
    = ([[{ (default : CheckResult) with upkeepID := "a" }]], true) := by decide

/-- the un-repaired loop emits an empty report when the first performable alone exceeds the limit -/
theorem reportsOld_empty_report :
    [] ∈ reportsOld { batch := 10, gasLimit := 1000, overhead := 0 } [w "a" "1" 5000, w "b" "2" 10] := by
  decide

/-- … and so produces more reports than performables: C04 and the `MaxReportCount` clause of C03 fail on it -/
theorem reportsOld_count_exceeds :
    (reportsOld { batch := 10, gasLimit := 1000, overhead := 0 } [w "a" "1" 5000]).length = 2 := by
  decide

/-! ### non-vacuity -/

example : spec { batch := 2, gasLimit := 1000, overhead := 100 }
    [w "a" "1" 400, w "b" "1" 300, w "c" "2" 5000, w "d" "3" 100, w "e" "4" 100, w "f" "5" 100]
    (reports { batch := 2, gasLimit := 1000, overhead := 100 }
      [w "a" "1" 400, w "b" "1" 300, w "c" "2" 5000, w "d" "3" 100, w "e" "4" 100, w "f" "5" 100]) = true
    ∧ (reports { batch := 2, gasLimit := 1000, overhead := 100 }
      [w "a" "1" 400, w "b" "1" 300, w "c" "2" 5000, w "d" "3" 100, w "e" "4" 100, w "f" "5" 100]).length = 5 := by
  decide

/-! ### configuration defaults (pkg/v3/config/config.go `ensureMinimumDefaults`) -/

/-- `MaxUpkeepBatchSize` after `ensureMinimumDefaults` (an `int`, so it may be negative on the wire) -/
def defaultBatch (b : Int) : Int := if b ≤ 0 then 1 else b

/-- the configuration the plugin works with (wire values through `ensureMinimumDefaults`) always meets the
property's hypothesis `batch ≥ 1`, so `reports_spec` applies to every plugin built by the factory -/
theorem ensureDefaults_batch_ge_one (b : Int) (g o : Nat) : 1 ≤ (ensureDefaults b g o).batch := by
  unfold ensureDefaults
  simp only
  split
  · omega
  · rename_i h; omega

theorem reports_spec_decoded (b : Int) (g o : Nat) (a : List CheckResult) :
    spec (ensureDefaults b g o) a (reports (ensureDefaults b g o) a) = true :=
  reports_spec _ (ensureDefaults_batch_ge_one b g o) a

/-! ### partial configuration documents -/

/-- a partial document decodes to the documented default for every member it leaves out -/
theorem decodeCfg_absent_defaults :
    decodeCfg { batch := none, gasLimit := none, overhead := none } = { batch := 1, gasLimit := 5300000, overhead := 300000 } := by
  decide

/-- member by member: an absent member gives the default, a present one goes through `ensureMinimumDefaults` -/
theorem decodeCfg_members (doc : WireCfg) :
    (decodeCfg doc).batch = (match doc.batch with | none => 1 | some b => if b ≤ 0 then 1 else b.toNat) ∧
    (decodeCfg doc).gasLimit = (match doc.gasLimit with | none => 5300000 | some g => if g = 0 then 5300000 else g) ∧
    (decodeCfg doc).overhead = (match doc.overhead with | none => 300000 | some o => if o = 0 then 300000 else o) := by
  cases doc with
  | mk b g o => cases b <;> cases g <;> cases o <;> exact ⟨rfl, rfl, rfl⟩

/-- every decoded document — partial or not — meets the property's hypothesis, so `reports_spec` applies -/
theorem decodeCfg_batch_ge_one (doc : WireCfg) : 1 ≤ (decodeCfg doc).batch :=
  ensureDefaults_batch_ge_one _ _ _

theorem reports_spec_partial (doc : WireCfg) (a : List CheckResult) :
    spec (decodeCfg doc) a (reports (decodeCfg doc) a) = true :=
  reports_spec _ (decodeCfg_batch_ge_one doc) a

/-- decoding into a retained value is the same function only while nothing was retained … -/
theorem decodeRetained_zero (doc : WireCfg) : decodeRetained rawZero doc = decodeCfg doc := rfl

/-- … and for documents that spell every member out -/
theorem decodeRetained_full (held : RawCfg) (b : Int) (g o : Nat) :
    decodeRetained held { batch := some b, gasLimit := some g, overhead := some o } =
      decodeCfg { batch := some b, gasLimit := some g, overhead := some o } := rfl

/-- otherwise it is not a function of the document: after an instance configured with batch size 7, the document `{}`
gives batch size 7 instead of 1, and the same agreed performables are cut into other reports (1 report instead of 3) -/
theorem decodeRetained_depends_on_history :
    let held : RawCfg := { batch := 7, gasLimit := 1000000, overhead := 11 }
    let doc : WireCfg := { batch := none, gasLimit := none, overhead := none }
    decodeRetained held doc ≠ decodeCfg doc ∧
    (reports (decodeRetained held doc) [w "a" "1" 400, w "b" "2" 300, w "c" "3" 200]).length = 1 ∧
    (reports (decodeCfg doc) [w "a" "1" 400, w "b" "2" 300, w "c" "3" 200]).length = 3 := by
  decide

/-- every decoded off-chain configuration satisfies the property's `batch ≥ 1` hypothesis -/
theorem defaultBatch_ge_one (b : Int) : 1 ≤ defaultBatch b := by
  unfold defaultBatch; split <;> omega

end AutoVerif.C04
