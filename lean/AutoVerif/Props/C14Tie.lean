import AutoVerif.Props.C14
import AutoVerif.Gen.Consts
/-
C14Tie — the tie theorems of Props/C14.lean (`…_matches_source`): the model's decision functions equal the
decision expressions `AutoVerif.Gen.Src.*` that the extractor regenerates from the Go source on every check run
(docs/TIE_THEOREMS.md).  They live in a module of their own, which nothing but AutoVerif.lean (and another
property's Tie module, where a tie is reused) imports: a source change that breaks a tie here breaks this
property's check (bin/check audits every module `Props/C14*.lean`) and not the build of the theorem
modules of other properties that import Props/C14.lean.
-/
namespace AutoVerif.C14

/-! ### the model's decisions are the source's decision expressions (regenerated `Gen.Src`) -/

/-- `doJob`: a new worker is created exactly when the source's condition `activeWorkers < maxWorkers`
holds (this comparison is what `workers_le_max` rests on) … -/
theorem spawnNew_matches_source (cfg : Cfg) (s : State) (f : Bool) (j : Job) :
    (step cfg s (.pSpawnNew f j)).isSome =
      (decide (s.p = .doJob f j) && Gen.Src.c14SpawnNewWorker s.active cfg.maxWorkers) := by
  simp only [step, Gen.Src.c14SpawnNewWorker]
  by_cases h1 : s.p = .doJob f j <;> by_cases h2 : s.active < cfg.maxWorkers <;> simp [h1, h2]

/-- … and otherwise an idle worker is awaited -/
theorem spawnReuse_matches_source (cfg : Cfg) (s : State) (f : Bool) (j : Job) :
    (step cfg s (.pSpawnReuse f j)).isSome =
      (decide (s.p = .doJob f j) && !Gen.Src.c14SpawnNewWorker s.active cfg.maxWorkers && decide (0 < s.idle)) := by
  simp only [step, Gen.Src.c14SpawnNewWorker]
  by_cases h1 : s.p = .doJob f j <;> by_cases h2 : s.active < cfg.maxWorkers <;> by_cases h3 : 0 < s.idle <;>
    simp [h1, h2, h3]

/-- `processQueue`: the loop is left exactly when the source's condition `queue.Len() == 0` holds -/
theorem queueLen_matches_source (cfg : Cfg) (s : State) (f : Bool) (h : s.p = .len f) :
    step cfg s (.pLen f) =
      some { s with p := if Gen.Src.c14QueueEmpty s.queue.length then (if f then .exited else .select) else .pop f } := by
  simp only [step, h, if_true, Gen.Src.c14QueueEmpty, decide_eq_true_eq, List.length_eq_zero_iff]

/-- `Queue.Pop`: error on an empty queue, otherwise the head, and the rest is kept (`len > 1`) — the
model's `head?` / `tail` -/
theorem pop_matches_source (q : List Job) :
    (if Gen.Src.c14PopEmpty q.length then none
     else some (q.head?, if Gen.Src.c14PopKeepsRest q.length then q.tail else [])) =
    (match q with
     | [] => none
     | j :: r => some (some j, r)) := by
  cases q with
  | nil => simp [Gen.Src.c14PopEmpty]
  | cons j r =>
    cases r with
    | nil => simp [Gen.Src.c14PopEmpty, Gen.Src.c14PopKeepsRest]
    | cons k r' => simp [Gen.Src.c14PopEmpty, Gen.Src.c14PopKeepsRest]

/-- `Do`: the item is refused exactly when the source's conditions say so: ctx cancelled … -/
theorem doCtx_matches_source (cfg : Cfg) (s : State) (g : Nat)
    (h : g < cfg.ncallers ∧ (s.callers g).sub = .doCtx) :
    step cfg s (.subCtx g) = some (s.setC g { s.callers g with
      sub := if Gen.Src.c14DoRefusesCancelled (s.callers g).cancelled then .failDone
             else if cfg.fixed then .rlock else .closedCheck }) := by
  simp only [step, h, and_self, if_true, Gen.Src.c14DoRefusesCancelled]
  rfl

/-- … or `queueClosed` set -/
theorem doClosed_matches_source (cfg : Cfg) (s : State) (g : Nat)
    (h : g < cfg.ncallers ∧ (s.callers g).sub = .closedCheck) :
    step cfg s (.subClosed g) = some (s.setC g { s.callers g with
      sub := if Gen.Src.c14DoRefusesClosed s.queueClosed then failPc cfg else .select }) := by
  simp only [step, h, and_self, if_true, Gen.Src.c14DoRefusesClosed]
  rfl

/-- `worker.Do`: the job function is skipped only on the source's condition `ctx.Err() != nil`; the
worker's ctx is the service ctx, which can be cancelled only once `svcChStop` is closed: the skip step
is enabled exactly when the condition CAN hold -/
theorem workerSkip_matches_source (cfg : Cfg) (s : State) (j : Job) :
    (step cfg s (.wCheckErr j)).isSome = (decide (j ∈ s.wStart) && Gen.Src.c14WorkerSkips s.stopped) := by
  simp only [step, Gen.Src.c14WorkerSkips]
  by_cases h1 : j ∈ s.wStart <;> cases h2 : s.stopped <;> simp [h1, h2]

/-- `Results`: the list (newest first) is reversed when it has more than one element — i.e. always
handed out oldest first, as in the model's `rdResults` -/
theorem resultsOrder_matches_source (l : List Job) :
    (if Gen.Src.c14ResultsReverse l.length then l.reverse else l) = l.reverse := by
  cases l with
  | nil => simp [Gen.Src.c14ResultsReverse]
  | cons a t =>
    cases t with
    | nil => simp [Gen.Src.c14ResultsReverse]
    | cons b t' => simp [Gen.Src.c14ResultsReverse]

/-- `RunJobs`: the submission loop stops (`wait.Done(); break`) exactly when `Do` returned an error:
the model's `failDone` path -/
theorem submitStops_matches_source (refused : Bool) :
    (if Gen.Src.c14SubmitStops refused then SubPc.failDone else SubPc.loop) =
      (if refused then SubPc.failDone else SubPc.loop) := rfl

theorem resultsOrder_matches_source' (l : List Nat) :
    (if Gen.Src.c14ResultsReverse l.length then l.reverse else l) = l.reverse := by
  cases l with
  | nil => simp [Gen.Src.c14ResultsReverse]
  | cons a t =>
    cases t with
    | nil => simp [Gen.Src.c14ResultsReverse]
    | cons b t' => simp [Gen.Src.c14ResultsReverse]

/-! ### map-entry decisions of the result store (`Model/C14.lean`, direct use of the public API) -/

/-- `storeResult`: the entry of the group is re-created exactly on the source's condition `!ok` (first
arm, worker.go:369; the extractor's `cond` kind takes the FIRST condition with a given text, so the second
arm — the same text `!ok` about `resultNotify` — is pinned by the correspondence cases only) -/
theorem storeCreates_matches_source (st : Store) (g : Nat) (found : Bool) :
    st.dataEnsured g found = (if Gen.Src.c14StoreCreates found then setAt st.data g (some []) else st.data) := rfl

/-- `Do`: the `wg.mu` section creates the group's entry exactly when it is missing -/
theorem doCreates_matches_source (st : Store) (g : Nat) :
    (st.ensure g).data = (if Gen.Src.c14DoCreates (st.data g).isSome then setAt st.data g (some []) else st.data) := by
  cases h : st.data g <;> simp [Store.ensure, Gen.Src.c14DoCreates, h]

/-- `NotifyResult`: a missing channel is created (empty), an existing one is returned: the token a
non-blocking receive finds -/
theorem notifyCreates_matches_source (st : Store) (g : Nat) :
    (st.poll g).1 = (if Gen.Src.c14NotifyCreates (st.notify g).isSome then false else (st.notify g).getD false) := by
  cases h : st.notify g <;> simp [Store.poll, Gen.Src.c14NotifyCreates, h]

/-- `Results`: nothing for a group without entry, otherwise the entry oldest first (reversed when it has
more than one element) -/
theorem resultsMissing_matches_source (st : Store) (g : Nat) :
    (st.results g).1 =
      (if Gen.Src.c14ResultsMissing (st.data g).isSome then []
       else if Gen.Src.c14ResultsReverse ((st.data g).getD []).length then ((st.data g).getD []).reverse
       else (st.data g).getD []) := by
  cases h : st.data g with
  | none => simp [Store.results, Gen.Src.c14ResultsMissing, h]
  | some l =>
    have := resultsOrder_matches_source' l
    simp only [Store.results, Gen.Src.c14ResultsMissing, h, Option.isSome_some, Bool.not_true, Bool.false_eq_true,
      if_false, Option.getD_some]
    exact this.symm

/-- `Queue.Pop` of the direct model: error exactly on the source's condition `len(q.values) == 0` -/
theorem queuePop_matches_source (q : List Nat) :
    queuePop q = (if Gen.Src.c14PopEmpty q.length then (none, [])
                  else (q.head?, if Gen.Src.c14PopKeepsRest q.length then q.tail else [])) := by
  cases q with
  | nil => simp [queuePop, Gen.Src.c14PopEmpty]
  | cons j r =>
    cases r with
    | nil => simp [queuePop, Gen.Src.c14PopEmpty, Gen.Src.c14PopKeepsRest]
    | cons k r' => simp [queuePop, Gen.Src.c14PopEmpty, Gen.Src.c14PopKeepsRest]

end AutoVerif.C14
