import AutoVerif.Props.C12
import AutoVerif.Gen.Consts
/-
C12TieFields — WHAT the retry post-processor and the retry queue write (extractor kind "fields",
extract/exprs.d/C12fields.json).  `Payload=payloadAtIdx` pins that the retry record carries `payloads[idx]` — the payload
matched to the failing result by unit of work — and not `payloads[i]`; the new queue record starts with the enqueued
payload and `createdAt = now`.
-/
namespace AutoVerif.C12

theorem retry_record_matches_source (resInterval : Nat) :
    Gen.Src.c12RetryRecordFields = ["Payload=payloadAtIdx", "Interval"] ∧
    Gen.Src.c12RetryRecord_Interval resInterval = resInterval := ⟨rfl, rfl⟩

/-- a first failure of a unit of work creates the queue record the source's literal describes (then the common tail of
`Enqueue` sets `updatedAt`, `pending`, `interval`) -/
theorem new_queue_record_matches_source (cfg : Cfg) (now : Nat) (q : Queue) (r : RetryRecord)
    (h : get q r.payload.workID = none) :
    Gen.Src.c12NewQueueRecordFields = ["payload=thePayload", "createdAt"] ∧
    enqueue cfg now q r =
      put q r.payload.workID
        { payload := r.payload, interval := effInterval cfg r.interval, pending := false,
          createdAt := Gen.Src.c12NewQueueRecord_createdAt now, updatedAt := now } := by
  refine ⟨rfl, ?_⟩
  simp [enqueue, h, Gen.Src.c12NewQueueRecord_createdAt]

end AutoVerif.C12
