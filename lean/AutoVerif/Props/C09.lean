import AutoVerif.Props.C01Complete
import AutoVerif.Props.C04
import AutoVerif.Spec.C09
/-
C09 — Network-wide under faults: only f+1-checked work is transmitted, once per node.

The network property is a composition.  This file proves the round-level
links of the chain for ALL rounds, configurations and fault placements:

  reports ⊆ agreed            (C04 `reports_concat`)
  agreed  ⇒ f+1 identical votes among validated observations   (C01 `agreed_sound`)
  f+1 votes, ≤ f faulty       ⇒ an honest voter                 (pigeonhole, here)
  honest voter's observation ⊆ what its own pipeline found eligible   (hypothesis `HonestObs`, discharged per node
                                                                        by C08 ∘ C10 ∘ C12 in their own models)
  in flight on every correct member ⇒ ≤ f votes ⇒ not agreed    (here, with C01 `below_quorum_absent`)

The accept/transmit side (a member is willing to transmit only what it accepted,
newest check block only) is C06; the bounded-rounds liveness clause is proved
only in the one-round conditional form (`one_round_liveness_partial`) — whether
a quorum result survives the 100-cap depends on the round's shuffle, and how
many rounds the flows need depends on timing; both are measured by the harness
and reported as statistics, not proved.
-/
namespace AutoVerif.C09
open AutoVerif.Outcome AutoVerif.C01

/-- attributed observations: (oracle id, decoded observation or `none` for undecodable bytes) -/
abbrev AttrObs := List (Nat × Option Observation)

/-- the observation of this attributed entry passed validation and lists `r` identically -/
def vouches (ctx : Ctx) (lim : Limits) (r : CheckResult) (a : Nat × Option Observation) : Bool :=
  match a.2 with
  | some o => validObservation ctx lim o && o.performable.contains r
  | none => false

private theorem votes_eq_vouchers (ctx : Ctx) (lim : Limits) (r : CheckResult) :
    ∀ (aobs : AttrObs), votes (validObs ctx lim (aobs.map (·.2))) r = (aobs.filter (vouches ctx lim r)).length
  | [] => by simp [votes, validObs]
  | a :: rest => by
    have ih := votes_eq_vouchers ctx lim r rest
    obtain ⟨id, o⟩ := a
    cases o with
    | none =>
      simp only [List.map_cons, validObs, List.filterMap_cons, List.filter_cons, vouches] at *
      simpa using ih
    | some o =>
      by_cases hv : validObservation ctx lim o = true
      · by_cases hc : o.performable.contains r = true
        · simp only [List.map_cons, validObs, List.filterMap_cons, hv, if_true, votes, List.filter_cons, hc,
            vouches, Bool.and_self, List.length_cons] at *
          omega
        · simp only [List.map_cons, validObs, List.filterMap_cons, hv, if_true, votes, List.filter_cons, hc,
            vouches, Bool.and_false, Bool.false_eq_true, if_false] at *
          exact ih
      · simp only [List.map_cons, validObs, List.filterMap_cons, hv, Bool.false_eq_true, if_false, vouches,
          List.filter_cons, Bool.false_and] at *
        exact ih

private theorem filter_length_mono {α} (p q : α → Bool) (h : ∀ x, p x = true → q x = true) :
    ∀ l : List α, (l.filter p).length ≤ (l.filter q).length
  | [] => by simp
  | x :: xs => by
    have ih := filter_length_mono p q h xs
    simp only [List.filter_cons]
    by_cases hp : p x = true
    · simp [hp, h x hp]; exact ih
    · simp only [hp, Bool.false_eq_true, if_false]
      split
      · simp; omega
      · exact ih

/-- **Pigeonhole.** With at most `F` faulty members among the round's observers, a result with `F+1`
identical votes has a voter that is not faulty. -/
theorem honest_voucher (ctx : Ctx) (lim : Limits) (aobs : AttrObs) (faulty : Nat → Bool)
    (hf : (aobs.filter (fun a => faulty a.1)).length ≤ ctx.F) (r : CheckResult)
    (hv : ctx.F + 1 ≤ votes (validObs ctx lim (aobs.map (·.2))) r) :
    ∃ a ∈ aobs, faulty a.1 = false ∧ vouches ctx lim r a = true := by
  rw [votes_eq_vouchers] at hv
  apply Classical.byContradiction
  intro hne
  have hall : ∀ a, (decide (a ∈ aobs) && vouches ctx lim r a) = true → (decide (a ∈ aobs) && faulty a.1) = true := by
    intro a ha
    simp only [Bool.and_eq_true, decide_eq_true_eq] at ha ⊢
    refine ⟨ha.1, ?_⟩
    cases hfa : faulty a.1 with
    | true => rfl
    | false => exact absurd ⟨a, ha.1, hfa, ha.2⟩ hne
  have h1 := filter_length_mono _ _ hall aobs
  have e1 : (aobs.filter (fun a => decide (a ∈ aobs) && vouches ctx lim r a)) = aobs.filter (vouches ctx lim r) := by
    apply List.filter_congr; intro a ha; simp [ha]
  have e2 : (aobs.filter (fun a => decide (a ∈ aobs) && faulty a.1)) = aobs.filter (fun a => faulty a.1) := by
    apply List.filter_congr; intro a ha; simp [ha]
  rw [e1, e2] at h1
  omega

/-- **Every reported upkeep was vouched by f+1 validated observations.**  For every round, every off-chain
configuration with batch ≥ 1 and every report built from the round's outcome. -/
theorem reported_vouched (ctx : Ctx) (lim : Limits) (prev : Outcome) (aobs : AttrObs)
    (πres : List String) (πblk : List BlockKey) (cfg : C04.Cfg) :
    ∀ rep ∈ C04.reports cfg (outcome ctx lim prev (aobs.map (·.2)) πres πblk).agreed, ∀ u ∈ rep,
      ctx.F + 1 ≤ votes (validObs ctx lim (aobs.map (·.2))) u := by
  intro rep hrep u hu
  apply agreed_sound ctx lim prev (aobs.map (·.2)) πres πblk
  have hc := C04.reports_concat cfg (outcome ctx lim prev (aobs.map (·.2)) πres πblk).agreed
  rw [← hc]
  exact List.mem_flatten.mpr ⟨rep, hrep, hu⟩

/-- what a member's local pipeline has found eligible so far (with identical data and check block) -/
abbrev PipelineLog := Nat → CheckResult → Prop

/-- hypothesis discharged per node by the node-level properties (C08: observation ⊆ staging, C10/C12: staging ⊆
eligible results of this node's pipeline): a non-faulty member only observes what its own pipeline returned -/
def HonestObs (ctx : Ctx) (lim : Limits) (aobs : AttrObs) (faulty : Nat → Bool) (found : PipelineLog) : Prop :=
  ∀ a ∈ aobs, faulty a.1 = false → ∀ o, a.2 = some o → ∀ r ∈ o.performable, found a.1 r

/-- **Network safety, round level.**  With at most `F` faulty (Byzantine or crashed) observers, every upkeep inside
every report of the round was found eligible — identical in every field, at the same check block — by the pipeline of
a non-faulty member, and vouched by `F+1` validated observations in total. -/
theorem net_safety_round (ctx : Ctx) (lim : Limits) (prev : Outcome) (aobs : AttrObs)
    (πres : List String) (πblk : List BlockKey) (cfg : C04.Cfg) (faulty : Nat → Bool) (found : PipelineLog)
    (hf : (aobs.filter (fun a => faulty a.1)).length ≤ ctx.F)
    (hh : HonestObs ctx lim aobs faulty found) :
    ∀ rep ∈ C04.reports cfg (outcome ctx lim prev (aobs.map (·.2)) πres πblk).agreed, ∀ u ∈ rep,
      (∃ h, faulty h = false ∧ found h u) ∧ ctx.F + 1 ≤ votes (validObs ctx lim (aobs.map (·.2))) u := by
  intro rep hrep u hu
  have hv := reported_vouched ctx lim prev aobs πres πblk cfg rep hrep u hu
  refine ⟨?_, hv⟩
  obtain ⟨a, ha, hfa, hva⟩ := honest_voucher ctx lim aobs faulty hf u hv
  refine ⟨a.1, hfa, ?_⟩
  unfold vouches at hva
  split at hva
  · rename_i o ho
    simp only [Bool.and_eq_true, List.contains_eq_mem, decide_eq_true_eq] at hva
    exact hh a ha hfa o ho u hva.2
  · simp at hva

/-- **Not reported again while in flight everywhere.**  If no non-faulty observer lists any result for unit of work
`w` (it is in flight there, so the coordinator filters it: C07), at most `F` observers are faulty and each oracle
contributes one observation, then no result for `w` is agreed. -/
theorem inflight_not_reagreed (ctx : Ctx) (lim : Limits) (prev : Outcome) (aobs : AttrObs)
    (πres : List String) (πblk : List BlockKey) (faulty : Nat → Bool) (w : String)
    (hf : (aobs.filter (fun a => faulty a.1)).length ≤ ctx.F)
    (hw : ∀ a ∈ aobs, faulty a.1 = false → ∀ o, a.2 = some o → ∀ r ∈ o.performable, r.workID ≠ w) :
    ∀ u ∈ (outcome ctx lim prev (aobs.map (·.2)) πres πblk).agreed, u.workID ≠ w := by
  intro u hu hwu
  have hv := agreed_sound ctx lim prev (aobs.map (·.2)) πres πblk u hu
  obtain ⟨a, ha, hfa, hva⟩ := honest_voucher ctx lim aobs faulty hf u hv
  unfold vouches at hva
  split at hva
  · rename_i o ho
    simp only [Bool.and_eq_true, List.contains_eq_mem, decide_eq_true_eq] at hva
    exact hw a ha hfa o ho u hva.2 hwu
  · simp at hva

/-- **One-round liveness (partial).**  If `F+1` validated observations of a round carry `r` identically then `r` is
agreed in that round unless displaced by another quorum result for the same work or by the cap (then the agreed list
is full and consists of results that precede `r` in the round's shuffle order).
NOT proved (stated in the property, measured by the harness): that an upkeep that stays eligible for 2F+1 honest
members is reported within a bounded number of rounds — this depends on the per-round shuffle against the cap and on
flow timing. -/
theorem one_round_liveness_partial (ctx : Ctx) (lim : Limits) (prev : Outcome) (obs : List (Option Observation))
    (πres : List String) (πblk : List BlockKey)
    (hπ : ∀ s ∈ tally ctx (validObs ctx lim obs), s.key ∈ πres)
    (r : CheckResult) (hr : ctx.F + 1 ≤ votes (validObs ctx lim obs) r) :
    let agreed := (outcome ctx lim prev obs πres πblk).agreed
    r ∈ agreed ∨ (∃ a ∈ agreed, a.workID = r.workID ∧ ctx.F + 1 ≤ votes (validObs ctx lim obs) a) ∨
    (lim.agreedLimit ≤ agreed.length ∧ ∀ a ∈ agreed, ctx.key a.workID ≤ ctx.key r.workID) :=
  agreed_complete ctx lim prev obs πres πblk hπ r hr

/-! ### non-vacuity: a 4-member round with one Byzantine observer -/

private def res (w pd : String) : CheckResult :=
  { pes := 0, retryable := false, eligible := true, reason := 0, upkeepID := "u" ++ w,
    trigger := { blockNumber := 9, blockHash := "h", ext := none }, workID := w, gas := 5,
    performData := pd, fastGasWei := some 1, linkNative := some 1 }

example :
    let ctx : Ctx := { F := 1, utg := fun _ => .condition, wg := fun u _ => (u.drop 1).toString, key := id, uid := fun r => r.workID }
    let lim : Limits := { obsPerformables := 100, obsLogProposals := 5, obsCondProposals := 5, obsBlockHistory := 256,
                          agreedLimit := 100, perRound := 50, roundHistory := 20 }
    let o (rs : List CheckResult) : Option Observation := some { performable := rs, proposals := [], blockHistory := [] }
    let aobs : AttrObs := [(0, o [res "a" "01"]), (1, o [res "a" "01"]), (2, o [res "a" "ff"]), (3, none)]
    let faulty : Nat → Bool := fun i => i == 2 || i == 3
    (aobs.filter (fun a => faulty a.1)).length ≤ ctx.F + 1 ∧
    votes (validObs ctx lim (aobs.map (·.2))) (res "a" "01") = 2 ∧
    votes (validObs ctx lim (aobs.map (·.2))) (res "a" "ff") = 1 := by
  decide

end AutoVerif.C09
