import AutoVerif.Props.C11
import AutoVerif.Gen.Consts
/-
C11TieFields — WHAT the proposal queue and the metadata store write (extractor kind "fields",
extract/exprs.d/C11fields.json): the record literals of `proposalQueue.Enqueue`, of the two `add…Proposal` methods of
the metadata store and of the proposal built by the metadata post-processor are regenerated field by field; the
`…Fields` lists say which source value feeds which field (`key=parameter` for values that have no Lean type in
`Gen/Consts.lean`), the numeric fields are definitions.  The model's records are proved to be built the same way.
-/
namespace AutoVerif.C11

/-- `proposalQueue.Enqueue`: the queued record holds the enqueued proposal `p` itself and the current time; `removed`
(not mentioned by the literal) starts false -/
theorem queue_record_matches_source (now : Nat) (q : Queue) (p : Proposal) (h : q.get p.workID = none) :
    Gen.Src.c11QueueRecordFields = ["proposal=theProposal", "createdAt"] ∧
    enqueue1 now q p =
      q.set p.workID { proposal := p, removed := false, createdAt := Gen.Src.c11QueueRecord_createdAt now } := by
  refine ⟨rfl, ?_⟩
  simp [enqueue1, h, Gen.Src.c11QueueRecord_createdAt]

/-- the metadata store's records: the proposal itself and the store's clock reading, for both trigger types -/
theorem store_record_matches_source (tg : String → Nat) (now : Nat) (s : MStore) (p : Proposal) :
    Gen.Src.c11LogRecordFields = ["createdAt", "proposal=theProposal"] ∧
    Gen.Src.c11CondRecordFields = ["createdAt", "proposal=theProposal"] ∧
    (tg p.upkeepID = logT → MStore.add1 tg now s p =
      { s with log := s.log.add p.workID { createdAt := Gen.Src.c11LogRecord_createdAt now, proposal := p } }) ∧
    (tg p.upkeepID ≠ logT → tg p.upkeepID = condT → MStore.add1 tg now s p =
      { s with cond := s.cond.add p.workID { createdAt := Gen.Src.c11CondRecord_createdAt now, proposal := p } }) := by
  refine ⟨rfl, rfl, ?_, ?_⟩
  · intro h; simp [MStore.add1, h, Gen.Src.c11LogRecord_createdAt]
  · intro h1 h2
    unfold MStore.add1
    rw [if_neg h1, if_pos h2]
    rfl

/-- the proposal the metadata post-processor builds from an eligible result takes upkeep id, trigger and work id from
that result, each into the field of the same name -/
theorem proposal_from_result_matches_source :
    Gen.Src.c11ProposalFromResultFields = ["UpkeepID=upkeepID", "Trigger=trigger", "WorkID=workID"] := rfl

end AutoVerif.C11
