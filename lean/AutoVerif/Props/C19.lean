import AutoVerif.Spec.C19
import AutoVerif.Gen.Consts
import Std.Data.String.ToNat
/-
C19 — simulated chain: one consistent chain, newest-first history, events once.

Property theorems only (helper lemmas are `private`).  Every theorem is about
the executable model of Model/C19 (the definitions the driver runs against the
real code) and quantifies over all arrival orders, all block numbers /
key strings, all schedules of `Transmit` and `Load`.
-/
namespace AutoVerif.C19

/-! ### decimal numerals: (length, then string order) is numeric order -/

private def dig (c : Char) : Nat := c.toNat - 48
private def val (l : List Char) : Nat := Nat.ofDigitChars 10 l 0

private theorem val_cons (c : Char) (cs : List Char) :
    val (c :: cs) = dig c * 10 ^ cs.length + val cs := by
  unfold val dig
  rw [Nat.ofDigitChars_cons, Nat.ofDigitChars_eq_ofDigitChars_zero]
  simp [Nat.mul_comm]

private theorem dig_le {c : Char} (h : c.isDigit = true) : dig c ≤ 9 := by
  have := Char.isDigit_iff_toNat.mp h
  simp at this
  unfold dig; omega

private theorem val_lt (l : List Char) (h : ∀ c ∈ l, c.isDigit = true) : val l < 10 ^ l.length := by
  induction l with
  | nil => simp [val]
  | cons c cs ih =>
    rw [val_cons]
    have h1 := dig_le (h c (by simp))
    have h2 := ih (fun d hd => h d (by simp [hd]))
    have : dig c * 10 ^ cs.length ≤ 9 * 10 ^ cs.length := Nat.mul_le_mul_right _ h1
    simp only [List.length_cons, Nat.pow_succ]
    omega

private theorem char_lt_iff {c d : Char} (hc : c.isDigit = true) (hd : d.isDigit = true) :
    c < d ↔ dig c < dig d := by
  have h1 := Char.isDigit_iff_toNat.mp hc
  have h2 := Char.isDigit_iff_toNat.mp hd
  simp at h1 h2
  rw [Char.lt_def, UInt32.lt_iff_toNat_lt]
  show c.toNat < d.toNat ↔ _
  unfold dig; omega

private theorem char_eq_iff {c d : Char} (hc : c.isDigit = true) (hd : d.isDigit = true) :
    c = d ↔ dig c = dig d := by
  have h1 := Char.isDigit_iff_toNat.mp hc
  have h2 := Char.isDigit_iff_toNat.mp hd
  simp at h1 h2
  rw [← Char.toNat_inj]
  unfold dig; omega

private theorem lex_iff_val : ∀ (as bs : List Char), as.length = bs.length →
    (∀ c ∈ as, c.isDigit = true) → (∀ c ∈ bs, c.isDigit = true) →
    (as < bs ↔ val as < val bs)
  | [], [], _, _, _ => by simp [val]
  | [], _ :: _, h, _, _ => by simp at h
  | _ :: _, [], h, _, _ => by simp at h
  | c :: cs, d :: ds, hl, ha, hb => by
    have hl' : cs.length = ds.length := by simpa using hl
    have hc := ha c (by simp)
    have hd := hb d (by simp)
    have ha' : ∀ x ∈ cs, x.isDigit = true := fun x hx => ha x (by simp [hx])
    have hb' : ∀ x ∈ ds, x.isDigit = true := fun x hx => hb x (by simp [hx])
    have ih := lex_iff_val cs ds hl' ha' hb'
    have v1 := val_lt cs ha'
    have v2 := val_lt ds hb'
    rw [List.cons_lt_cons_iff, val_cons, val_cons, char_lt_iff hc hd, char_eq_iff hc hd, ih, hl']
    rw [hl'] at v1
    generalize 10 ^ ds.length = P at *
    generalize dig c = x at *
    generalize dig d = y at *
    generalize val cs = u at *
    generalize val ds = w at *
    constructor
    · rintro (h | ⟨h, h'⟩)
      · have : (x + 1) * P ≤ y * P := Nat.mul_le_mul_right _ h
        rw [Nat.add_mul] at this
        omega
      · subst h; omega
    · intro h
      rcases Nat.lt_trichotomy x y with hxy | hxy | hxy
      · exact Or.inl hxy
      · subst hxy; exact Or.inr ⟨rfl, by omega⟩
      · have : (y + 1) * P ≤ x * P := Nat.mul_le_mul_right _ hxy
        rw [Nat.add_mul] at this
        omega

private theorem canon_digits {s : String} (h : isCanon s = true) :
    s.toList ≠ [] ∧ ∀ c ∈ s.toList, c.isDigit = true := by
  unfold isCanon at h
  split at h
  · simp at h
  · rename_i c hc; rw [hc]; simp [h]
  · rename_i c cs _ hc; rw [hc]
    simp only [Bool.and_eq_true, List.all_eq_true] at h
    refine ⟨by simp, ?_⟩
    intro d hd
    rcases List.mem_cons.mp hd with rfl | hd
    · exact h.1.1
    · exact h.2 d hd

private theorem canon_lead {s : String} (h : isCanon s = true) (h2 : 2 ≤ s.toList.length) :
    ∃ c cs, s.toList = c :: cs ∧ 1 ≤ dig c := by
  unfold isCanon at h
  split at h
  · simp at h
  · rename_i c hc; rw [hc] at h2; simp at h2
  · rename_i c cs _ hc
    refine ⟨c, cs, hc, ?_⟩
    simp only [Bool.and_eq_true, bne_iff_ne, ne_eq] at h
    have hd := Char.isDigit_iff_toNat.mp h.1.1
    simp at hd
    have hne : c.toNat ≠ '0'.toNat := fun hh => h.1.2 (Char.toNat_inj.mp hh)
    simp at hne
    unfold dig; omega

private theorem val_ge_of_lead {s : String} (h : isCanon s = true) (h2 : 2 ≤ s.toList.length) :
    10 ^ (s.toList.length - 1) ≤ val s.toList := by
  obtain ⟨c, cs, hc, hd⟩ := canon_lead h h2
  rw [hc, val_cons]
  simp only [List.length_cons, Nat.add_sub_cancel]
  have : 1 * 10 ^ cs.length ≤ dig c * 10 ^ cs.length := Nat.mul_le_mul_right _ hd
  omega

private theorem val_lt_of_shorter {a b : String} (ha : isCanon a = true) (hb : isCanon b = true)
    (h : a.toList.length < b.toList.length) : val a.toList < val b.toList := by
  have ⟨hane, had⟩ := canon_digits ha
  have h1 := val_lt a.toList had
  have hlen : 0 < a.toList.length := List.length_pos_iff.mpr hane
  have h2 := val_ge_of_lead hb (by omega)
  have : 10 ^ a.toList.length ≤ 10 ^ (b.toList.length - 1) :=
    Nat.pow_le_pow_right (by decide) (by omega)
  omega

/-- for canonical decimal numerals the (length, then string order) comparison used by
    `SortedKeyMap.Set` is the numeric order of the values -/
theorem numLt_iff (a b : String) (ha : isCanon a = true) (hb : isCanon b = true) :
    numLt a b = true ↔ numVal a < numVal b := by
  show _ ↔ val a.toList < val b.toList
  unfold numLt
  simp only [← String.length_toList]
  split
  · rename_i hne
    simp only [decide_eq_true_eq]
    constructor
    · exact val_lt_of_shorter ha hb
    · intro hv
      rcases Nat.lt_or_gt_of_ne hne with h | h
      · exact h
      · have := val_lt_of_shorter hb ha h
        omega
  · rename_i heq
    have heq : a.toList.length = b.toList.length := by simpa using heq
    simp only [decide_eq_true_eq, String.lt_iff]
    exact lex_iff_val _ _ heq (canon_digits ha).2 (canon_digits hb).2

private theorem isCanon_repr (n : Nat) : isCanon (toString n) = true := by
  have hd : ∀ c ∈ Nat.toDigits 10 n, c.isDigit = true :=
    fun c hc => Nat.isDigit_of_mem_toDigits (by decide) (by decide) hc
  unfold isCanon
  simp only [Nat.toString_eq_repr, Nat.toList_repr]
  split
  · rename_i h; exact absurd h Nat.toDigits_ne_nil
  · rename_i c h; exact hd c (by simp [h])
  · rename_i c cs hcs h
    have hall : ∀ x ∈ cs, x.isDigit = true := fun x hx => hd x (by simp [h, hx])
    have hc := hd c (by simp [h])
    simp only [Bool.and_eq_true, bne_iff_ne, ne_eq, List.all_eq_true]
    refine ⟨⟨hc, ?_⟩, hall⟩
    intro h0
    subst h0
    -- value of a numeral with a leading zero is below 10^(len-1), but n ≥ 10^(len-1)
    have hv : val ('0' :: cs) = n := by rw [← h]; exact Nat.ofDigitChars_ten_toDigits
    have hlt := val_lt cs hall
    rw [val_cons] at hv
    have hdz : dig '0' = 0 := by decide
    rw [hdz] at hv
    have hlen : ¬ (Nat.toDigits 10 n).length ≤ cs.length := by rw [h]; simp
    have hcs' : 0 < cs.length := by
      cases cs with
      | nil => exact (hcs rfl).elim
      | cons _ _ => simp
    rw [Nat.length_toDigits_le_iff (by decide) hcs'] at hlen
    omega

private theorem numVal_repr (n : Nat) : numVal (toString n) = n := by
  unfold numVal
  simp

/-- block numbers rendered by `big.Int.String()` are ordered by `numLt` exactly as the numbers are -/
theorem numLt_toString (n m : Nat) : numLt (toString n) (toString m) = true ↔ n < m := by
  rw [numLt_iff _ _ (isCanon_repr n) (isCanon_repr m), numVal_repr, numVal_repr]

/-- `numVal` is the value `String.toNat?` / `String.toNat!` assign to a canonical numeral -/
theorem numVal_eq_toNat? (s : String) (h : isCanon s = true) : s.toNat? = some (numVal s) := by
  obtain ⟨hne, hd⟩ := canon_digits h
  have hne' : s ≠ "" := by intro h0; subst h0; simp at hne
  have hn : s.isNat = true := String.isNat_of_isDigit hne' (fun c hc => hd c hc)
  rw [String.toNat?_eq_some_ofDigitChars hn]
  unfold numVal
  congr 2
  apply List.filter_eq_self.mpr
  intro c hc
  have := hd c hc
  simp only [bne_iff_ne, ne_eq]
  intro h; subst h; simp at this

example : isCanon "99" = true ∧ isCanon "100" = true ∧ numLt "99" "100" = true ∧ numVal "99" = 99 ∧
    numVal "100" = 100 := by decide
/-- canonicity is needed: with a leading zero the shorter numeral is not the smaller number -/
example : isCanon "099" = false ∧ numLt "99" "099" = true ∧ numVal "99" = numVal "099" := by decide
example : numLt (toString 9999999999999999999) (toString 10000000000000000000) = true := by decide

/-! ### the sorted key map -/

private structure StrictTotal (lt : String → String → Bool) : Prop where
  irrefl : ∀ a, lt a a = false
  trans : ∀ a b c, lt a b = true → lt b c = true → lt a c = true
  tri : ∀ a b, lt a b = false → lt b a = false → a = b

private theorem numLt_strictTotal : StrictTotal numLt where
  irrefl a := by simp [numLt, String.lt_irrefl]
  trans a b c := by
    unfold numLt
    intro h1 h2
    split at h1 <;> split at h2 <;> split <;> simp_all <;> try omega
    exact String.lt_trans h1 h2
  tri a b := by
    unfold numLt
    intro h1 h2
    split at h1 <;> split at h2 <;> simp_all <;> try omega
    exact String.le_antisymm h2 h1

private theorem lexLt_strictTotal : StrictTotal lexLt where
  irrefl a := by simp [lexLt, String.lt_irrefl]
  trans a b c := by simp only [lexLt, decide_eq_true_eq]; exact String.lt_trans
  tri a b := by
    simp only [lexLt, decide_eq_false_iff_not, String.not_lt]
    intro h1 h2; exact String.le_antisymm h2 h1

private theorem mem_insertSorted (lt) (k x : String) (l : List String) :
    x ∈ insertSorted lt k l ↔ x = k ∨ x ∈ l := by
  induction l with
  | nil => simp [insertSorted]
  | cons y ys ih =>
    unfold insertSorted
    split
    · simp
    · simp [ih]; grind

private theorem insertSorted_perm (lt) (k : String) (l : List String) :
    (insertSorted lt k l).Perm (l ++ [k]) := by
  induction l with
  | nil => simp [insertSorted]
  | cons y ys ih =>
    unfold insertSorted
    split
    · exact (List.perm_append_singleton k (y :: ys)).symm
    · exact List.Perm.cons y ih

private theorem insertSorted_length (lt) (k : String) (l : List String) :
    (insertSorted lt k l).length = l.length + 1 := by
  simpa using (insertSorted_perm lt k l).length_eq

private theorem insertSorted_pairwise {lt} (st : StrictTotal lt) (k : String) (l : List String)
    (hs : l.Pairwise (fun a b => lt a b = true)) (hk : k ∉ l) :
    (insertSorted lt k l).Pairwise (fun a b => lt a b = true) := by
  induction l with
  | nil => simp [insertSorted]
  | cons y ys ih =>
    have hy := List.pairwise_cons.mp hs
    unfold insertSorted
    split
    · rename_i hlt
      refine List.pairwise_cons.mpr ⟨?_, hs⟩
      intro z hz
      rcases List.mem_cons.mp hz with rfl | hz
      · exact hlt
      · exact st.trans _ _ _ hlt (hy.1 z hz)
    · rename_i hlt
      refine List.pairwise_cons.mpr ⟨?_, ih hy.2 (fun h => hk (by simp [h]))⟩
      intro z hz
      rcases (mem_insertSorted lt k z ys).mp hz with rfl | hz
      · cases hyz : lt y z with
        | true => rfl
        | false =>
          have : z = y := st.tri z y (by simpa using hlt) hyz
          exact absurd (this ▸ List.mem_cons_self) hk
      · exact hy.1 z hz

private theorem sorted_perm_unique_gen {lt} (st : StrictTotal lt) (k : String) (keys l' : List String)
    (hs : keys.Pairwise (fun a b => lt a b = true)) (hk : k ∉ keys)
    (hp : l'.Perm (keys ++ [k])) (hs' : l'.Pairwise (fun a b => lt a b = true)) :
    l' = insertSorted lt k keys := by
  refine List.Perm.eq_of_pairwise ?_ hs' (insertSorted_pairwise st k keys hs hk)
    (hp.trans (insertSorted_perm lt k keys).symm)
  intro a b _ _ hab hba
  have := st.trans _ _ _ hab hba
  rw [st.irrefl] at this
  cases this

/-- `Set` appends the new key and calls `sort.Slice`.  Whatever algorithm that is: every sorted
    permutation of `keys ++ [k]` is the list `insertSorted` the model uses (keys sorted before,
    `k` new) — for the repaired comparison … -/
theorem sorted_perm_unique (k : String) (keys l' : List String)
    (hs : keys.Pairwise (fun a b => numLt a b = true)) (hk : k ∉ keys)
    (hp : l'.Perm (keys ++ [k])) (hs' : l'.Pairwise (fun a b => numLt a b = true)) :
    l' = insertSorted numLt k keys :=
  sorted_perm_unique_gen numLt_strictTotal k keys l' hs hk hp hs'

/-- … and for the plain string comparison of the tree before the fix -/
theorem sorted_perm_unique_lex (k : String) (keys l' : List String)
    (hs : keys.Pairwise (fun a b => lexLt a b = true)) (hk : k ∉ keys)
    (hp : l'.Perm (keys ++ [k])) (hs' : l'.Pairwise (fun a b => lexLt a b = true)) :
    l' = insertSorted lexLt k keys :=
  sorted_perm_unique_gen lexLt_strictTotal k keys l' hs hk hp hs'

example : insertSorted numLt "100" ["98", "99", "101"] = ["98", "99", "100", "101"] ∧
    insertSorted lexLt "100" ["98", "99"] = ["100", "98", "99"] := by decide

/-- `Keys(count)` is the last `count` keys, reversed -/
private theorem keysDesc_eq {α} (m : SKM α) (count : Nat) :
    m.keysDesc count = m.keys.reverse.take count := by
  unfold SKM.keysDesc
  apply List.ext_getElem
  · simp only [List.length_map, List.length_range, List.length_take, List.length_reverse]
    split <;> omega
  · intro i h1 h2
    simp only [List.length_map, List.length_range] at h1
    simp only [List.getElem_map, List.getElem_range, List.getElem_take, List.getElem_reverse]
    have : m.keys.length - (i + 1) < m.keys.length := by split at h1 <;> omega
    simp [List.getD_eq_getElem?_getD, List.getElem?_eq_getElem this]
    congr 1
    omega

/-- well-formedness of a sorted key map: keys strictly ascending, and exactly the bound keys -/
private def SKM.WF {α} (lt : String → String → Bool) (m : SKM α) : Prop :=
  m.keys.Pairwise (fun a b => lt a b = true) ∧ ∀ k, k ∈ m.keys ↔ (m.get k).isSome = true

private theorem wf_empty {α} (lt) : SKM.WF lt ({} : SKM α) := by
  simp [SKM.WF, SKM.get]

private theorem get_set {α} (lt) (m : SKM α) (k k' : String) (v : α) :
    (m.set lt k v).get k' = if k' = k then some v else m.get k' := by
  unfold SKM.set
  split <;> simp [SKM.get, List.lookup_cons] <;> split <;> simp_all

private theorem mem_keys_set {α} {lt} (m : SKM α) (hm : m.WF lt) (k k' : String) (v : α) :
    k' ∈ (m.set lt k v).keys ↔ k' = k ∨ k' ∈ m.keys := by
  unfold SKM.set
  split
  · rename_i h
    have := (hm.2 k).mpr h
    constructor
    · exact Or.inr
    · rintro (rfl | h') <;> assumption
  · simp [mem_insertSorted]

private theorem wf_set {α} {lt} (st : StrictTotal lt) (m : SKM α) (hm : m.WF lt) (k : String) (v : α) :
    (m.set lt k v).WF lt := by
  refine ⟨?_, ?_⟩
  · unfold SKM.set
    split
    · exact hm.1
    · rename_i h
      exact insertSorted_pairwise st k m.keys hm.1 (fun hk => h ((hm.2 k).mp hk))
  · intro k'
    rw [mem_keys_set m hm, get_set]
    split
    · simp [*]
    · rename_i hne
      rw [hm.2 k']
      simp [hne]

private theorem keysDesc_pairwise {α} {lt} (m : SKM α) (hm : m.WF lt) (n : Nat) :
    (m.keysDesc n).Pairwise (fun a b => lt b a = true) := by
  rw [keysDesc_eq]
  exact (List.pairwise_reverse.mpr hm.1).sublist (List.take_sublist _ _)

private theorem keysDesc_length {α} (m : SKM α) (n : Nat) :
    (m.keysDesc n).length = min n m.keys.length := by
  rw [keysDesc_eq]; simp

private theorem mem_keysDesc {α} (m : SKM α) (n : Nat) (k : String) (h : k ∈ m.keysDesc n) : k ∈ m.keys := by
  rw [keysDesc_eq] at h
  exact List.mem_reverse.mp (List.mem_of_mem_take h)

/-- the keys left out by `Keys(n)` are below every key it returns -/
private theorem keysDesc_newest {α} {lt} (m : SKM α) (hm : m.WF lt) (n : Nat) (k k' : String)
    (hk : k ∈ m.keys) (hnot : k ∉ m.keysDesc n) (hk' : k' ∈ m.keysDesc n) : lt k k' = true := by
  rw [keysDesc_eq] at hnot hk'
  have hsplit := List.take_append_drop n m.keys.reverse
  have hkd : k ∈ m.keys.reverse.drop n := by
    have : k ∈ m.keys.reverse.take n ++ m.keys.reverse.drop n := by
      rw [hsplit]; exact List.mem_reverse.mpr hk
    rcases List.mem_append.mp this with h | h
    · exact absurd h hnot
    · exact h
  have hp : (m.keys.reverse.take n ++ m.keys.reverse.drop n).Pairwise (fun a b => lt b a = true) := by
    rw [hsplit]; exact List.pairwise_reverse.mpr hm.1
  exact (List.pairwise_append.mp hp).2.2 k' hk' k hkd

/-! ### history tracker -/

/-- invariant of the tracker after the blocks `pre` were received -/
private def HTInv (lt : String → String → Bool) (pre : List Block) (m : HT) : Prop :=
  m.WF lt ∧ (∀ k b, m.get k = some b → k = toString b.number ∧ b ∈ pre) ∧
  (∀ b ∈ pre, toString b.number ∈ m.keys)

private theorem htInv_empty (lt) : HTInv lt [] {} :=
  ⟨wf_empty lt, by simp [SKM.get], by simp⟩

private theorem htInv_step {lt} (st : StrictTotal lt) (pre : List Block) (m : HT) (b : Block)
    (h : HTInv lt pre m) : HTInv lt (pre ++ [b]) (HT.onBlock lt m b) := by
  obtain ⟨hwf, hget, hcov⟩ := h
  refine ⟨wf_set st m hwf _ _, ?_, ?_⟩
  · intro k b' hk
    unfold HT.onBlock at hk
    rw [get_set] at hk
    split at hk
    · rename_i heq
      cases hk
      exact ⟨heq, by simp⟩
    · obtain ⟨h1, h2⟩ := hget k b' hk
      exact ⟨h1, by simp [h2]⟩
  · intro b' hb'
    unfold HT.onBlock
    rw [mem_keys_set m hwf]
    rcases List.mem_append.mp hb' with hb' | hb'
    · exact Or.inr (hcov b' hb')
    · simp at hb'; subst hb'; exact Or.inl rfl

private theorem htInv_foldl {lt} (st : StrictTotal lt) (arr pre : List Block) (m : HT)
    (h : HTInv lt pre m) : HTInv lt (pre ++ arr) (arr.foldl (HT.onBlock lt) m) := by
  induction arr generalizing pre m with
  | nil => simpa using h
  | cons b bs ih =>
    have := ih (pre ++ [b]) (HT.onBlock lt m b) (htInv_step st pre m b h)
    simpa using this

private theorem htInv_trackerAfter {lt} (st : StrictTotal lt) (arr : List Block) :
    HTInv lt arr (trackerAfter lt arr) := by
  have := htInv_foldl st arr [] {} (htInv_empty lt)
  simpa [trackerAfter] using this

/-- every history handed out satisfies `Q` if every reachable tracker state's history does -/
private theorem historiesFrom_all {lt} (st : StrictTotal lt) (Q : List BlockKey → Prop)
    (all : List Block)
    (hQ : ∀ pre m, HTInv lt pre m → (∀ b ∈ pre, b ∈ all) → pre ≠ [] → Q m.history)
    (arr pre : List Block) (m : HT) (h : HTInv lt pre m) (hsub : ∀ b ∈ pre ++ arr, b ∈ all) :
    ∀ x ∈ historiesFrom lt m arr, Q x := by
  induction arr generalizing pre m with
  | nil => intro x hx; simp [historiesFrom] at hx
  | cons b bs ih =>
    intro x hx
    have hstep := htInv_step st pre m b h
    simp only [historiesFrom, List.mem_cons] at hx
    rcases hx with rfl | hx
    · exact hQ _ _ hstep (fun b' hb' => hsub b' (by
        rcases List.mem_append.mp hb' with h1 | h1
        · exact List.mem_append_left _ h1
        · exact List.mem_append_right _ (by simp at h1; simp [h1]))) (by simp)
    · exact ih (pre ++ [b]) _ hstep (by simpa using hsub) x hx

theorem descStrict_iff (l : List Nat) : descStrict l = true ↔ l.Pairwise (· > ·) := by
  induction l with
  | nil => simp [descStrict]
  | cons a t ih =>
    cases t with
    | nil => simp [descStrict]
    | cons b r =>
      simp only [descStrict, Bool.and_eq_true, decide_eq_true_eq, ih]
      constructor
      · rintro ⟨hab, hp⟩
        refine List.pairwise_cons.mpr ⟨?_, hp⟩
        intro x hx
        rcases List.mem_cons.mp hx with rfl | hx
        · exact hab
        · have := (List.pairwise_cons.mp hp).1 x hx
          omega
      · intro hp
        have := List.pairwise_cons.mp hp
        exact ⟨this.1 b (by simp), this.2⟩

/-- keys handed out by the repaired map are strictly descending in the key order, whatever the
    arrival order and whatever strings the keys are (any magnitude) -/
theorem history_keys_strictly_descending (arrivals : List Block) (n : Nat) :
    ((trackerAfter numLt arrivals).keysDesc n).Pairwise (fun a b => numLt b a = true) ∧
    ((trackerAfter numLt arrivals).keysDesc n).length ≤ n := by
  have h := htInv_trackerAfter numLt_strictTotal arrivals
  refine ⟨keysDesc_pairwise _ h.1 n, ?_⟩
  rw [keysDesc_length]; omega

private theorem history_eq_map (m : HT) :
    m.history = (m.keysDesc Gen.simHistoryDepth).map fun k =>
      match m.get k with
      | some b => ({ number := b.number % 2 ^ 64, hash := b.hash } : BlockKey)
      | none => { number := 0, hash := "" } := rfl

private theorem history_desc_of_inv (all : List Block) (hb : ∀ b ∈ all, b.number < 2 ^ 64)
    (pre : List Block) (m : HT) (h : HTInv numLt pre m) (hsub : ∀ b ∈ pre, b ∈ all) :
    descStrict (m.history.map (·.number)) = true ∧ m.history.length ≤ Gen.simHistoryDepth := by
  obtain ⟨hwf, hget, _⟩ := h
  constructor
  · rw [descStrict_iff, history_eq_map, List.map_map, List.pairwise_map]
    refine List.Pairwise.imp_of_mem ?_ (keysDesc_pairwise m hwf _)
    intro k1 k2 hk1 hk2 hlt
    have hk1' := (hwf.2 k1).mp (mem_keysDesc m _ k1 hk1)
    have hk2' := (hwf.2 k2).mp (mem_keysDesc m _ k2 hk2)
    obtain ⟨b1, hb1⟩ := Option.isSome_iff_exists.mp hk1'
    obtain ⟨b2, hb2⟩ := Option.isSome_iff_exists.mp hk2'
    obtain ⟨e1, m1⟩ := hget k1 b1 hb1
    obtain ⟨e2, m2⟩ := hget k2 b2 hb2
    simp only [Function.comp, hb1, hb2]
    rw [e1, e2, numLt_toString] at hlt
    have := hb b1 (hsub b1 m1)
    have := hb b2 (hsub b2 m2)
    rw [Nat.mod_eq_of_lt ‹_›, Nat.mod_eq_of_lt ‹_›]
    exact hlt
  · rw [history_eq_map, List.length_map, keysDesc_length]; omega

/-- C19, history clause: every history the tracker hands out — after any number of blocks,
    received in any order, with numbers of any magnitude below 2^64 (the range of
    `ocr2keepers.BlockNumber`) — lists strictly descending block numbers, newest first, and at
    most `defaultHistoryDepth` of them -/
theorem history_strictly_descending (arrivals : List Block) (hb : ∀ b ∈ arrivals, b.number < 2 ^ 64) :
    ∀ h ∈ histories numLt arrivals,
      descStrict (h.map (·.number)) = true ∧ h.length ≤ Gen.simHistoryDepth := by
  unfold histories
  refine historiesFrom_all numLt_strictTotal _ arrivals ?_ arrivals [] {} (htInv_empty _) (by simp)
  intro pre m hinv hsub _
  exact history_desc_of_inv arrivals hb pre m hinv hsub

/-- the same for the state after all of `arrivals` -/
theorem history_strictly_descending_final (arrivals : List Block) (hb : ∀ b ∈ arrivals, b.number < 2 ^ 64) :
    descStrict ((trackerAfter numLt arrivals).history.map (·.number)) = true ∧
    (trackerAfter numLt arrivals).history.length ≤ Gen.simHistoryDepth :=
  history_desc_of_inv arrivals hb arrivals _ (htInv_trackerAfter numLt_strictTotal arrivals) (fun _ h => h)

example : (histories numLt [⟨100, "c", [], "", []⟩, ⟨98, "a", [], "", []⟩, ⟨101, "d", [], "", []⟩, ⟨99, "b", [], "", []⟩]).map
    (·.map (·.number)) = [[100], [100, 98], [101, 100, 98], [101, 100, 99, 98]] := by decide

/-- every history entry is a received block with its own hash (numbers as truncated by `Uint64()`) -/
theorem history_entries_from_arrivals (arrivals : List Block) :
    ∀ e ∈ (trackerAfter numLt arrivals).history,
      ∃ b ∈ arrivals, e = { number := b.number % 2 ^ 64, hash := b.hash } := by
  obtain ⟨hwf, hget, _⟩ := htInv_trackerAfter numLt_strictTotal arrivals
  intro e he
  rw [history_eq_map] at he
  obtain ⟨k, hk, rfl⟩ := List.mem_map.mp he
  have hk' := (hwf.2 k).mp (mem_keysDesc _ _ k hk)
  obtain ⟨b, hb⟩ := Option.isSome_iff_exists.mp hk'
  exact ⟨b, (hget k b hb).2, by simp [hb]⟩

/-- "most recent blocks": a received block that is missing from the history is older than every
    block in it -/
theorem history_is_newest (arrivals : List Block) (b : Block) (hb : b ∈ arrivals)
    (hnot : toString b.number ∉ (trackerAfter numLt arrivals).keysDesc Gen.simHistoryDepth) :
    ∀ k ∈ (trackerAfter numLt arrivals).keysDesc Gen.simHistoryDepth,
      ∃ b' ∈ arrivals, k = toString b'.number ∧ b.number < b'.number := by
  obtain ⟨hwf, hget, hcov⟩ := htInv_trackerAfter numLt_strictTotal arrivals
  intro k hk
  have hlt := keysDesc_newest _ hwf _ _ k (hcov b hb) hnot hk
  have hk' := (hwf.2 k).mp (mem_keysDesc _ _ k hk)
  obtain ⟨b', hb'⟩ := Option.isSome_iff_exists.mp hk'
  obtain ⟨e, m⟩ := hget k b' hb'
  refine ⟨b', m, e, ?_⟩
  rw [e, numLt_toString] at hlt
  exact hlt

/-- the key list does not depend on the order in which the blocks arrived -/
theorem keys_arrival_order_independent (a₁ a₂ : List Block) (hp : a₁.Perm a₂) :
    (trackerAfter numLt a₁).keys = (trackerAfter numLt a₂).keys := by
  obtain ⟨hwf1, hget1, hcov1⟩ := htInv_trackerAfter numLt_strictTotal a₁
  obtain ⟨hwf2, hget2, hcov2⟩ := htInv_trackerAfter numLt_strictTotal a₂
  have nodup : ∀ {l : List String}, l.Pairwise (fun a b => numLt a b = true) → l.Nodup := by
    intro l hl
    rw [List.nodup_iff_pairwise_ne]
    refine hl.imp ?_
    intro a b hab heq
    subst heq
    rw [numLt_strictTotal.irrefl] at hab
    cases hab
  have hmem : ∀ k, k ∈ (trackerAfter numLt a₁).keys ↔ k ∈ (trackerAfter numLt a₂).keys := by
    intro k
    constructor
    · intro hk
      obtain ⟨b, hb⟩ := Option.isSome_iff_exists.mp ((hwf1.2 k).mp hk)
      obtain ⟨e, m⟩ := hget1 k b hb
      rw [e]; exact hcov2 b (hp.mem_iff.mp m)
    · intro hk
      obtain ⟨b, hb⟩ := Option.isSome_iff_exists.mp ((hwf2.2 k).mp hk)
      obtain ⟨e, m⟩ := hget2 k b hb
      rw [e]; exact hcov1 b (hp.mem_iff.mpr m)
  refine List.Perm.eq_of_pairwise ?_ hwf1.1 hwf2.1
    ((List.perm_ext_iff_of_nodup (nodup hwf1.1) (nodup hwf2.1)).mpr hmem)
  intro a b _ _ hab hba
  have := numLt_strictTotal.trans _ _ _ hab hba
  rw [numLt_strictTotal.irrefl] at this
  cases this

private theorem toString_nat_inj {n m : Nat} (h : toString n = toString m) : n = m := by
  have h1 : ¬ n < m := by
    rw [← numLt_toString, h, numLt_strictTotal.irrefl]; simp
  have h2 : ¬ m < n := by
    rw [← numLt_toString, h, numLt_strictTotal.irrefl]; simp
  omega

private theorem chain_pairwise (g N : Nat) (chain : List Block)
    (hnum : chain.map (·.number) = chainNumbers g N) :
    chain.Pairwise (fun a b => a.number < b.number) := by
  have : (chain.map (·.number)).Pairwise (· < ·) := by
    rw [hnum, chainNumbers, List.pairwise_map]
    exact List.pairwise_lt_range.imp (by intro a b h; omega)
  exact List.pairwise_map.mp this

/-- `history_final` for any strictly ascending chain (a subscriber's part of the chain) -/
private theorem history_final_pw (chain arrivals : List Block)
    (hpw : chain.Pairwise (fun a b => a.number < b.number)) (hlt : ∀ b ∈ chain, b.number < 2 ^ 64)
    (hp : arrivals.Perm chain) :
    (trackerAfter numLt arrivals).history = newest Gen.simHistoryDepth chain := by
  obtain ⟨hwf, hget, hcov⟩ := htInv_trackerAfter numLt_strictTotal arrivals
  -- the key list
  have hkeys : (trackerAfter numLt arrivals).keys = chain.map (fun b => toString b.number) := by
    have hs : (chain.map (fun b => toString b.number)).Pairwise (fun a b => numLt a b = true) := by
      rw [List.pairwise_map]
      exact hpw.imp (by intro a b h; exact (numLt_toString _ _).mpr h)
    have nodup : ∀ {l : List String}, l.Pairwise (fun a b => numLt a b = true) → l.Nodup := by
      intro l hl
      rw [List.nodup_iff_pairwise_ne]
      refine hl.imp ?_
      intro a b hab heq
      subst heq
      rw [numLt_strictTotal.irrefl] at hab
      cases hab
    refine List.Perm.eq_of_pairwise ?_ hwf.1 hs
      ((List.perm_ext_iff_of_nodup (nodup hwf.1) (nodup hs)).mpr ?_)
    · intro a b _ _ hab hba
      have := numLt_strictTotal.trans _ _ _ hab hba
      rw [numLt_strictTotal.irrefl] at this
      cases this
    · intro k
      constructor
      · intro hk
        obtain ⟨b, hb⟩ := Option.isSome_iff_exists.mp ((hwf.2 k).mp hk)
        obtain ⟨e, m⟩ := hget k b hb
        exact List.mem_map.mpr ⟨b, hp.mem_iff.mp m, e.symm⟩
      · intro hk
        obtain ⟨b, hb, rfl⟩ := List.mem_map.mp hk
        exact hcov b (hp.mem_iff.mpr hb)
  -- the value bound to the key of a chain block is that block
  have hval : ∀ b ∈ chain, (trackerAfter numLt arrivals).get (toString b.number) = some b := by
    intro b hb
    have hk : toString b.number ∈ (trackerAfter numLt arrivals).keys := hcov b (hp.mem_iff.mpr hb)
    obtain ⟨b', hb'⟩ := Option.isSome_iff_exists.mp ((hwf.2 _).mp hk)
    obtain ⟨e, m⟩ := hget _ b' hb'
    have hn : b.number = b'.number := toString_nat_inj e
    have hm' : b' ∈ chain := hp.mem_iff.mp m
    have : b' = b := by
      by_cases hbb : b' = b
      · exact hbb
      · exfalso
        have hidx := List.pairwise_iff_getElem.mp hpw
        obtain ⟨i, hi, rfl⟩ := List.getElem_of_mem hb
        obtain ⟨j, hj, rfl⟩ := List.getElem_of_mem hm'
        rcases Nat.lt_trichotomy i j with h | h | h
        · have := hidx i j hi hj h; omega
        · subst h; exact hbb rfl
        · have := hidx j i hj hi h; omega
    rw [hb', this]
  rw [history_eq_map, keysDesc_eq, hkeys, newest, ← List.map_reverse, ← List.map_take, List.map_map]
  apply List.map_congr_left
  intro b hb
  have hb' : b ∈ chain := List.mem_reverse.mp (List.mem_of_mem_take hb)
  simp only [Function.comp, hval b hb', Nat.mod_eq_of_lt (hlt b hb')]

private theorem chain_lt (g N : Nat) (chain : List Block) (hnum : chain.map (·.number) = chainNumbers g N)
    (hbound : g + N ≤ 2 ^ 64) : ∀ b ∈ chain, b.number < 2 ^ 64 := by
  intro b hb
  have : b.number ∈ chainNumbers g N := by rw [← hnum]; exact List.mem_map_of_mem hb
  simp [chainNumbers] at this
  omega

/-- whatever the arrival order, once every block of the chain has been received the history is
    the newest `defaultHistoryDepth` blocks of the chain, newest first, with their hashes -/
theorem history_final (g N : Nat) (chain arrivals : List Block)
    (hnum : chain.map (·.number) = chainNumbers g N) (hbound : g + N ≤ 2 ^ 64)
    (hp : arrivals.Perm chain) :
    (trackerAfter numLt arrivals).history = newest Gen.simHistoryDepth chain :=
  history_final_pw chain arrivals (chain_pairwise g N chain hnum) (chain_lt g N chain hnum hbound) hp

example : (trackerAfter numLt [⟨100, "c", [], "", []⟩, ⟨98, "a", [], "", []⟩, ⟨101, "d", [], "", []⟩, ⟨99, "b", [], "", []⟩]).history =
    newest Gen.simHistoryDepth [⟨98, "a", [], "", []⟩, ⟨99, "b", [], "", []⟩, ⟨100, "c", [], "", []⟩, ⟨101, "d", [], "", []⟩] := by decide

private theorem historiesFrom_getLast (lt) (arr : List Block) (m : HT) (hne : arr ≠ []) :
    (historiesFrom lt m arr).getLast? = some (arr.foldl (HT.onBlock lt) m).history := by
  induction arr generalizing m with
  | nil => exact absurd rfl hne
  | cons b bs ih =>
    cases bs with
    | nil => simp [historiesFrom]
    | cons c cs =>
      have := ih (HT.onBlock lt m b) (by simp)
      simp only [historiesFrom, List.foldl_cons] at this ⊢
      rw [List.getLast?_cons_cons]
      exact this

/-- `model_histories_ok` for any strictly ascending chain below 2^64 -/
private theorem model_histories_ok_pw (p : Params) (chain arrivals : List Block)
    (hd : p.depth = Gen.simHistoryDepth)
    (hpw : chain.Pairwise (fun a b => a.number < b.number)) (hltc : ∀ b ∈ chain, b.number < 2 ^ 64)
    (hp : arrivals.Perm chain) :
    histsOk p chain (histories numLt arrivals) = true := by
  have hlt : ∀ b ∈ arrivals, b.number < 2 ^ 64 := fun b hb => hltc b (hp.mem_iff.mp hb)
  have hent : ∀ h ∈ histories numLt arrivals, ∀ e ∈ h, entryInChain chain e = true := by
    unfold histories
    refine historiesFrom_all numLt_strictTotal _ arrivals ?_ arrivals [] {} (htInv_empty _) (by simp)
    intro pre m hinv hsub _ e he
    obtain ⟨hwf, hget, _⟩ := hinv
    rw [history_eq_map] at he
    obtain ⟨k, hk, rfl⟩ := List.mem_map.mp he
    obtain ⟨b, hb⟩ := Option.isSome_iff_exists.mp ((hwf.2 k).mp (mem_keysDesc _ _ k hk))
    have hbc : b ∈ chain := hp.mem_iff.mp (hsub b (hget k b hb).2)
    simp only [hb, entryInChain, List.any_eq_true, Bool.and_eq_true, beq_iff_eq]
    exact ⟨b, hbc, by rw [Nat.mod_eq_of_lt (hlt b (hp.mem_iff.mpr hbc))], rfl⟩
  unfold histsOk
  simp only [Bool.and_eq_true, List.all_eq_true, Bool.or_eq_true]
  refine ⟨?_, ?_⟩
  · intro h hh
    have h1 := history_strictly_descending arrivals hlt h hh
    unfold histOk
    simp only [Bool.and_eq_true, decide_eq_true_eq, List.all_eq_true]
    exact ⟨⟨h1.1, by rw [hd]; exact h1.2⟩, hent h hh⟩
  · by_cases hc : chain = []
    · left; simp [hc]
    · right
      have hne : arrivals ≠ [] := by
        intro h; rw [h] at hp; exact hc (List.perm_nil.mp hp.symm |> fun x => x)
      unfold histories
      rw [historiesFrom_getLast numLt arrivals {} hne, hd,
        ← history_final_pw chain arrivals hpw hltc hp]
      simp [trackerAfter]

/-- C19, history clause as the run-time oracle states it (`Spec.histsOk`): for every chain
    `genesis … genesis+N-1` below 2^64 and every order in which a subscriber receives its blocks,
    all histories handed out are strictly descending, at most `depth` long, made of chain blocks
    with their hashes, and the last one is the newest blocks of the chain -/
theorem model_histories_ok (p : Params) (chain arrivals : List Block)
    (hd : p.depth = Gen.simHistoryDepth)
    (hnum : chain.map (·.number) = chainNumbers p.genesis p.count) (hbound : p.genesis + p.count ≤ 2 ^ 64)
    (hp : arrivals.Perm chain) :
    histsOk p chain (histories numLt arrivals) = true :=
  model_histories_ok_pw p chain arrivals hd (chain_pairwise _ _ chain hnum) (chain_lt _ _ chain hnum hbound) hp

example : histsOk ⟨98, 4, Gen.simHistoryDepth, 100, [], [], [], [], 0⟩
    [⟨98, "a", [], "", []⟩, ⟨99, "b", [], "", []⟩, ⟨100, "c", [], "", []⟩, ⟨101, "d", [], "", []⟩]
    (histories numLt [⟨100, "c", [], "", []⟩, ⟨98, "a", [], "", []⟩, ⟨101, "d", [], "", []⟩, ⟨99, "b", [], "", []⟩]) = true := by decide

/-! ### one consistent chain -/

private theorem filter_eq_singleton (xs : List Nat) (hs : xs.Nodup) (s : Nat) (hm : s ∈ xs) :
    xs.filter (· == s) = [s] := by
  induction xs with
  | nil => simp at hm
  | cons x xs ih =>
    have hn := List.nodup_cons.mp hs
    by_cases hx : x = s
    · subst hx
      have : xs.filter (· == x) = [] :=
        List.filter_eq_nil_iff.mpr (fun a ha => by simp; intro h; subst h; exact hn.1 ha)
      simp [this]
    · have hm' : s ∈ xs := by
        rcases List.mem_cons.mp hm with h | h
        · exact absurd h.symm hx
        · exact h
      simp [hx, ih hn.2 hm']

private theorem fanout_filter (subs : List Nat) (hs : subs.Nodup) (s : Nat) (hm : s ∈ subs) (b : Block) :
    ((fanout subs b).filter (·.1 == s)).map (·.2) = [b] := by
  have := filter_eq_singleton subs hs s hm
  simp only [fanout, List.filter_map, List.map_map]
  have h2 : ((fun x : Nat × Block => x.1 == s) ∘ fun s => (s, b)) = fun x => x == s := rfl
  rw [h2, this]
  rfl

/-- every attached subscriber is sent every block of the chain, the very value the broadcaster built -/
theorem every_subscriber_gets_every_block (subs : List Nat) (hs : subs.Nodup) (chain : List Block)
    (s : Nat) (hm : s ∈ subs) :
    ((chain.flatMap (fanout subs)).filter (·.1 == s)).map (·.2) = chain := by
  induction chain with
  | nil => simp
  | cons b bs ih =>
    simp only [List.flatMap_cons, List.filter_append, List.map_append, ih, fanout_filter subs hs s hm b]
    simp

/-- whatever the delivery order at two subscribers: a block number comes with one hash and one content -/
theorem same_number_same_block (g N : Nat) (chain r₁ r₂ : List Block)
    (hnum : chain.map (·.number) = chainNumbers g N)
    (h₁ : r₁.Perm chain) (h₂ : r₂.Perm chain) :
    ∀ b₁ ∈ r₁, ∀ b₂ ∈ r₂, b₁.number = b₂.number → b₁ = b₂ := by
  intro b₁ hb₁ b₂ hb₂ hn
  have hpw := chain_pairwise g N chain hnum
  have hidx := List.pairwise_iff_getElem.mp hpw
  obtain ⟨i, hi, rfl⟩ := List.getElem_of_mem (h₁.mem_iff.mp hb₁)
  obtain ⟨j, hj, rfl⟩ := List.getElem_of_mem (h₂.mem_iff.mp hb₂)
  rcases Nat.lt_trichotomy i j with h | h | h
  · have := hidx i j hi hj h; omega
  · subst h; rfl
  · have := hidx j i hj hi h; omega

/-- `model_recv_ok` for any strictly ascending chain, with the blocks that must have arrived a part of it -/
private theorem model_recv_ok_pw (must chain arrivals : List Block)
    (hpw : chain.Pairwise (fun a b => a.number < b.number)) (hp : arrivals.Perm chain)
    (hm : ∀ b ∈ must, b ∈ chain) :
    recvOk must chain arrivals = true := by
  unfold recvOk
  simp only [Bool.and_eq_true, decide_eq_true_eq, List.all_eq_true, List.contains_iff_mem]
  refine ⟨⟨?_, fun b hb => hp.mem_iff.mp hb⟩, fun b hb => hp.mem_iff.mpr (hm b hb)⟩
  have : (chain.map (·.number)).Nodup := by
    rw [List.nodup_iff_pairwise_ne, List.pairwise_map]
    exact hpw.imp (by intro a b h; omega)
  exact (hp.map _).nodup_iff.mpr this

private theorem gotOf_of_perm (chain arrivals : List Block) (hp : arrivals.Perm chain) :
    gotOf chain arrivals = chain := by
  unfold gotOf
  apply List.filter_eq_self.mpr
  intro b hb
  simpa using hp.mem_iff.mpr hb

/-- the delivery clause as the run-time oracle states it -/
theorem model_recv_ok (g N : Nat) (chain arrivals : List Block)
    (hnum : chain.map (·.number) = chainNumbers g N) (hp : arrivals.Perm chain) :
    recvOk chain chain arrivals = true :=
  model_recv_ok_pw chain chain arrivals (chain_pairwise g N chain hnum) hp (fun _ h => h)

example : ([⟨99, "b", [], "", []⟩, ⟨98, "a", [], "", []⟩] : List Block).Perm [⟨98, "a", [], "", []⟩, ⟨99, "b", [], "", []⟩] ∧
    ([⟨98, "a", [], "", []⟩, ⟨99, "b", [], "", []⟩] : List Block).map (·.number) = chainNumbers 98 2 :=
  ⟨List.Perm.swap _ _ _, by decide⟩

/-! ### a transmitted report is recorded once -/

private theorem sameKey_iff (a b : Transmit) : sameKey a b = true ↔ keyOf a = keyOf b := by
  simp [sameKey, keyOf]

private theorem transmit_spec (tl : TL) (t : Transmit) :
    (tl.transmit t).2 = !(tl.transmitted.any (sameKey t)) ∧
    (tl.transmit t).1.transmitted = tl.transmitted ++ (if (tl.transmit t).2 then [t] else []) ∧
    (tl.transmit t).1.queue = tl.queue ++ (if (tl.transmit t).2 then [t] else []) := by
  unfold TL.transmit
  split <;> simp_all

private theorem runOps_spec (ops : List TLOp) (tl : TL)
    (hnd : (tl.transmitted.map keyOf).Nodup) :
    let r := TL.runOps tl ops
    (r.1.transmitted.map keyOf).Nodup ∧
    r.1.transmitted = tl.transmitted ++ acceptedOf ops r.2.1 ∧
    tl.queue ++ acceptedOf ops r.2.1 = r.2.2.flatten ++ r.1.queue ∧
    (∀ t, TLOp.submit t ∈ ops → keyOf t ∈ r.1.transmitted.map keyOf) := by
  induction ops generalizing tl with
  | nil => simp [TL.runOps, acceptedOf, hnd]
  | cons op ops ih =>
    cases op with
    | load =>
      have := ih { tl with queue := [] } hnd
      simp only [TL.runOps, TL.load, acceptedOf] at this ⊢
      obtain ⟨h1, h2, h3, h4⟩ := this
      refine ⟨h1, h2, ?_, ?_⟩
      · simp only [List.nil_append] at h3
        simp [h3, List.append_assoc]
      · intro t ht
        simp at ht
        exact h4 t ht
    | submit t =>
      obtain ⟨s1, s2, s3⟩ := transmit_spec tl t
      have hnd' : ((tl.transmit t).1.transmitted.map keyOf).Nodup := by
        rw [s2]
        cases hok : (tl.transmit t).2 with
        | false => simpa using hnd
        | true =>
          rw [hok] at s1
          have hnot : ∀ x ∈ tl.transmitted, keyOf x ≠ keyOf t := by
            intro x hx heq
            have : tl.transmitted.any (sameKey t) = true :=
              List.any_eq_true.mpr ⟨x, hx, (sameKey_iff t x).mpr heq.symm⟩
            simp [this] at s1
          simp only [if_true, List.map_append, List.map_cons, List.map_nil]
          refine List.nodup_append.mpr ⟨hnd, by simp, ?_⟩
          intro a ha b hb
          simp at hb
          obtain ⟨x, hx, rfl⟩ := List.mem_map.mp ha
          rw [hb]; exact hnot x hx
      have := ih (tl.transmit t).1 hnd'
      simp only [TL.runOps, acceptedOf] at this ⊢
      obtain ⟨h1, h2, h3, h4⟩ := this
      refine ⟨h1, ?_, ?_, ?_⟩
      · rw [h2, s2]; simp [List.append_assoc]
      · rw [← h3, s3]; simp [List.append_assoc]
      · intro x hx
        simp at hx
        rcases hx with rfl | hx
        · -- the key of `x` is recorded: either it was there, or `x` was accepted now
          rw [h2, s2]
          cases hok : (tl.transmit x).2 with
          | true => simp
          | false =>
            rw [hok] at s1
            have : tl.transmitted.any (sameKey x) = true := by simpa using s1
            obtain ⟨y, hy, hk⟩ := List.any_eq_true.mp this
            simp only [List.map_append, List.mem_append]
            exact Or.inl (Or.inl (List.mem_map.mpr ⟨y, hy, ((sameKey_iff x y).mp hk).symm⟩))
        · exact h4 x hx

/-- C19, transmit clause: for every schedule of `Transmit` calls (any callers, any interleaving
    with block building), the loader records each `(report, round)` once: the recorded list is
    exactly the accepted calls, it has no two entries with the same key, every submitted key is
    in it, and every recorded transmit is in exactly one place — one block or still the queue -/
theorem transmit_recorded_once (ops : List TLOp) :
    let r := TL.runOps {} ops
    (r.1.transmitted.map keyOf).Nodup ∧
    r.1.transmitted = acceptedOf ops r.2.1 ∧
    r.2.2.flatten ++ r.1.queue = r.1.transmitted ∧
    (∀ t, TLOp.submit t ∈ ops → keyOf t ∈ r.1.transmitted.map keyOf) := by
  have := runOps_spec ops {} (by simp)
  simp only [List.nil_append] at this
  obtain ⟨h1, h2, h3, h4⟩ := this
  exact ⟨h1, h2, by rw [← h3, h2], h4⟩

example : TL.runOps {} [.submit ⟨"node-1", 0, 7⟩, .submit ⟨"node-2", 0, 7⟩, .load, .submit ⟨"node-3", 0, 7⟩,
      .submit ⟨"node-3", 0, 8⟩, .load] =
    (⟨[], [⟨"node-1", 0, 7⟩, ⟨"node-3", 0, 8⟩]⟩, [true, false, false, true],
     [[⟨"node-1", 0, 7⟩], [⟨"node-3", 0, 8⟩]]) := by decide

/-! ### transmit events and confirmations -/

/-- invariant of the report tracker after the blocks `pre` reached it, for either version of
    `updateBlock` (`L` says what `latest` is) -/
private def RTInv (L : List Block → Option Block → Prop) (pre : List Block) (rt : RT) : Prop :=
  L pre rt.latest ∧ rt.blockEvents.WF numLt ∧
  (∀ k v, rt.blockEvents.get k = some v →
    ∃ b ∈ pre, k = toString b.number ∧ v = (b.number, b.txs) ∧ b.txs.isEmpty = false) ∧
  (∀ b ∈ pre, b.txs.isEmpty = false → toString b.number ∈ rt.blockEvents.keys)

/-- repaired tracker: `latest` is a received block with the highest number received -/
private def LatestMax (pre : List Block) (l : Option Block) : Prop :=
  (pre = [] → l = none) ∧ (pre ≠ [] → ∃ b, l = some b ∧ b ∈ pre ∧ ∀ x ∈ pre, x.number ≤ b.number)

private theorem latestMax_step (pre : List Block) (rt : RT) (b : Block) (h : LatestMax pre rt.latest) :
    LatestMax (pre ++ [b]) (rt.onBlock b).latest := by
  refine ⟨by simp, fun _ => ?_⟩
  unfold RT.onBlock
  by_cases hp : pre = []
  · subst hp
    rw [h.1 rfl]
    exact ⟨b, rfl, by simp, by simp⟩
  · obtain ⟨l, hl, hm, hmax⟩ := h.2 hp
    rw [hl]
    simp only
    split
    · rename_i hgt
      refine ⟨b, rfl, by simp, ?_⟩
      intro x hx
      rcases List.mem_append.mp hx with hx | hx
      · have := hmax x hx; omega
      · simp at hx; subst hx; omega
    · rename_i hle
      refine ⟨l, hl, by simp [hm], ?_⟩
      intro x hx
      rcases List.mem_append.mp hx with hx | hx
      · exact hmax x hx
      · simp at hx; subst hx; omega

private theorem rtInv_step {L} (upd : RT → Block → RT)
    (hupd : ∀ rt b, (upd rt b).blockEvents = rt.blockEvents)
    (hL : ∀ pre rt b, L pre rt.latest → L (pre ++ [b]) (upd rt b).latest)
    (pre : List Block) (rt : RT) (b : Block) (h : RTInv L pre rt) :
    RTInv L (pre ++ [b]) (RT.onArrivalWith upd rt b) := by
  obtain ⟨hl, hwf, hget, hcov⟩ := h
  unfold RT.onArrivalWith
  split
  · rename_i hemp
    refine ⟨hL pre rt b hl, by rw [hupd]; exact hwf, ?_, ?_⟩
    · intro k v hk
      rw [hupd] at hk
      obtain ⟨b', hb', e⟩ := hget k v hk
      exact ⟨b', by simp [hb'], e⟩
    · intro b' hb' hne
      rw [hupd]
      rcases List.mem_append.mp hb' with hb' | hb'
      · exact hcov b' hb' hne
      · simp at hb'; subst hb'; simp [hemp] at hne
  · rename_i hemp
    have hwf' : (upd rt b).blockEvents.WF numLt := by rw [hupd]; exact hwf
    refine ⟨by simpa [RT.onPerform] using hL pre rt b hl, ?_, ?_, ?_⟩
    · simp only [RT.onPerform, hupd]
      exact wf_set numLt_strictTotal _ hwf _ _
    · intro k v hk
      simp only [RT.onPerform, hupd] at hk
      rw [get_set] at hk
      split at hk
      · rename_i heq
        cases hk
        exact ⟨b, by simp, heq, rfl, by simpa using hemp⟩
      · obtain ⟨b', hb', e⟩ := hget k v hk
        exact ⟨b', by simp [hb'], e⟩
    · intro b' hb' hne
      simp only [RT.onPerform]
      rw [mem_keys_set _ hwf']
      rcases List.mem_append.mp hb' with hb' | hb'
      · right; rw [hupd]; exact hcov b' hb' hne
      · simp at hb'; subst hb'; exact Or.inl rfl

private theorem rtInv_foldl {L} (upd : RT → Block → RT)
    (hupd : ∀ rt b, (upd rt b).blockEvents = rt.blockEvents)
    (hL : ∀ pre rt b, L pre rt.latest → L (pre ++ [b]) (upd rt b).latest)
    (arr pre : List Block) (rt : RT) (h : RTInv L pre rt) :
    RTInv L (pre ++ arr) (arr.foldl (RT.onArrivalWith upd) rt) := by
  induction arr generalizing pre rt with
  | nil => simpa using h
  | cons b bs ih =>
    have := ih (pre ++ [b]) _ (rtInv_step upd hupd hL pre rt b h)
    simpa using this

private theorem onBlock_blockEvents (rt : RT) (b : Block) : (rt.onBlock b).blockEvents = rt.blockEvents := by
  unfold RT.onBlock
  split
  · rfl
  · split <;> rfl

private theorem rtInv_rtAfter (arr : List Block) : RTInv LatestMax arr (rtAfter arr) := by
  have := rtInv_foldl (L := LatestMax) RT.onBlock onBlock_blockEvents latestMax_step arr [] {}
    ⟨⟨fun _ => rfl, fun h => absurd rfl h⟩, wf_empty _, by simp [SKM.get], by simp⟩
  simpa [rtAfter, RT.onArrival] using this

/-- the repaired tracker's latest block is a received block with the highest number received,
    whatever the arrival order -/
theorem latest_is_highest (arrivals : List Block) (hne : arrivals ≠ []) :
    ∃ l, (rtAfter arrivals).latest = some l ∧ l ∈ arrivals ∧ ∀ b ∈ arrivals, b.number ≤ l.number :=
  (rtInv_rtAfter arrivals).1.2 hne

/-- C19, events clause: whatever blocks reached the tracker in whatever order, every event
    `GetLatestEvents` returns belongs to a transmit that is in a received block with that number,
    carries a work id of that report, and its confirmations are the highest block number received
    so far minus the transmit block — never negative -/
theorem confirmations_eq (reports : List (List String)) (arrivals : List Block) :
    ∀ e ∈ (rtAfter arrivals).latestEvents reports,
      ∃ l ∈ arrivals, (∀ b ∈ arrivals, b.number ≤ l.number) ∧
        e.conf = confirmations l.number e.block ∧
        e.conf = (l.number : Int) - (e.block : Int) ∧ 0 ≤ e.conf ∧
        ∃ b ∈ arrivals, b.number = e.block ∧
          ∃ t ∈ b.txs, t.rep = e.rep ∧ t.round = e.round ∧ e.wid ∈ reports.getD e.rep [] := by
  obtain ⟨hl, hwf, hget, _⟩ := rtInv_rtAfter arrivals
  intro e he
  unfold RT.latestEvents at he
  split at he
  · simp at he
  · rename_i l hlat
    have hne : arrivals ≠ [] := by
      intro h0; have := hl.1 h0; rw [hlat] at this; cases this
    obtain ⟨l', hl', hmem, hmax⟩ := hl.2 hne
    rw [hlat] at hl'; cases hl'
    obtain ⟨k, _, hk⟩ := List.mem_flatMap.mp he
    split at hk
    · rename_i blk ts hg
      obtain ⟨b, hb, _, hv, _⟩ := hget k _ hg
      cases hv
      obtain ⟨t, ht, hte⟩ := List.mem_flatMap.mp hk
      obtain ⟨w, hw, rfl⟩ := List.mem_map.mp hte
      have := hmax b hb
      exact ⟨l, hmem, hmax, rfl, rfl, by simp [confirmations]; omega, b, hb, rfl, t, ht, rfl, rfl, hw⟩
    · simp at hk

/-- the look-back: events come from at most `ReportTrackerBlockRange` block keys, strictly
    descending (newest first), and a block with transmits that is left out is older than every
    block that is reported -/
theorem events_within_lookback (arrivals : List Block) :
    let keys := (rtAfter arrivals).blockEvents.keysDesc reportTrackerBlockRange
    keys.length ≤ reportTrackerBlockRange ∧
    keys.Pairwise (fun a b => numLt b a = true) ∧
    (∀ k ∈ (rtAfter arrivals).blockEvents.keys, k ∉ keys → ∀ k' ∈ keys, numLt k k' = true) := by
  obtain ⟨_, hwf, _, _⟩ := rtInv_rtAfter arrivals
  refine ⟨by rw [keysDesc_length]; omega, keysDesc_pairwise _ hwf _, ?_⟩
  intro k hk hnot k' hk'
  exact keysDesc_newest _ hwf _ k k' hk hnot hk'

example : (rtAfter [⟨98, "a", [], "", []⟩, ⟨100, "c", [⟨"node-1", 0, 4⟩], "", []⟩, ⟨101, "d", [], "", []⟩, ⟨99, "b", [], "", []⟩]).latestEvents
    [["w1", "w2"]] = [⟨"w1", 100, 1, 0, 4⟩, ⟨"w2", 100, 1, 0, 4⟩] := by decide

/-! ### the tree before "fix: simulator: confirmations are computed against the highest block seen" -/

/-- the witness: blocks 97 … 104, a transmit in block 99, block 98 delivered two seconds late
    (after 104).  The old `updateBlock` took the late block as latest and reported the transmit
    with −1 confirmations; the repaired one reports 104 − 99 = 5 -/
theorem confirmations_old_negative :
    let arrivals : List Block :=
      [⟨97, "a", [], "", []⟩, ⟨99, "c", [⟨"node-0", 0, 1⟩], "", []⟩, ⟨100, "d", [], "", []⟩, ⟨101, "e", [], "", []⟩,
       ⟨102, "f", [], "", []⟩, ⟨103, "g", [], "", []⟩, ⟨104, "h", [], "", []⟩, ⟨98, "b", [], "", []⟩]
    (rtAfterOld arrivals).latestEvents [["w"]] = [⟨"w", 99, -1, 0, 1⟩] ∧
    (rtAfter arrivals).latestEvents [["w"]] = [⟨"w", 99, 5, 0, 1⟩] := by decide

/-! ### the tree before "fix: simulator: order block-number keys numerically" -/

/-- plain string order is not numeric order: "99" sorts after "100" -/
theorem lex_order_wrong :
    lexLt "99" "100" = false ∧ lexLt "100" "99" = true ∧ numVal "99" < numVal "100" ∧
    numLt "99" "100" = true := by decide

/-- the witness: blocks 98 … 101 in order.  After the third block the old map's keys, "highest"
    first, were 99, 98, 100 and after the fourth 99, 98, 101, 100 — the history started
    `[99, 98, 101]` — while the repaired comparison gives 101, 100, 99, 98 -/
theorem lex_history_witness :
    keysOldLex [98, 99, 100, 101] 3 = ["99", "98", "101"] ∧
    (histories lexLt [⟨98, "a", [], "", []⟩, ⟨99, "b", [], "", []⟩, ⟨100, "c", [], "", []⟩, ⟨101, "d", [], "", []⟩]).map
      (·.map (·.number)) = [[98], [99, 98], [99, 98, 100], [99, 98, 101, 100]] ∧
    descStrict [99, 98, 101, 100] = false ∧
    (histories numLt [⟨98, "a", [], "", []⟩, ⟨99, "b", [], "", []⟩, ⟨100, "c", [], "", []⟩, ⟨101, "d", [], "", []⟩]).map
      (·.map (·.number)) = [[98], [99, 98], [100, 99, 98], [101, 100, 99, 98]] := by decide

/-! ### a whole run satisfies the statement -/

private theorem callOrder_perm (nodes : List Nat) (win : List Bool) :
    (callOrder nodes win).Perm (List.range nodes.length) := by
  unfold callOrder
  exact List.filter_append_perm _ _

private theorem callOrder_nodup (nodes : List Nat) (win : List Bool) : (callOrder nodes win).Nodup :=
  (callOrder_perm nodes win).nodup_iff.mpr List.nodup_range

private theorem callOrder_lt (nodes : List Nat) (win : List Bool) : ∀ i ∈ callOrder nodes win, i < nodes.length := by
  intro i hi
  exact List.mem_range.mp ((callOrder_perm nodes win).mem_iff.mp hi)

private theorem callOrder_ne_nil (nodes : List Nat) (win : List Bool) (h : nodes ≠ []) : callOrder nodes win ≠ [] := by
  intro h0
  have := (callOrder_perm nodes win).length_eq
  rw [h0] at this
  simp at this
  exact h (List.length_eq_zero_iff.mp this.symm)

/-- calls whose key is already recorded are all refused and change nothing -/
private theorem submitAll_present (tl : TL) (ts : List Transmit) (k : Nat × Nat)
    (hk : k ∈ tl.transmitted.map keyOf) (hts : ∀ t ∈ ts, keyOf t = k) :
    tl.submitAll ts = (tl, List.replicate ts.length false) := by
  induction ts with
  | nil => rfl
  | cons t ts ih =>
    have hany : tl.transmitted.any (sameKey t) = true := by
      obtain ⟨x, hx, hxk⟩ := List.mem_map.mp hk
      exact List.any_eq_true.mpr ⟨x, hx, (sameKey_iff t x).mpr (by rw [hts t (by simp), hxk])⟩
    have ht : tl.transmit t = (tl, false) := by simp [TL.transmit, hany]
    simp only [TL.submitAll, ht, ih (fun t' h' => hts t' (by simp [h'])), List.length_cons, List.replicate_succ]

private theorem lookup_zip_replicate_false (is : List Nat) (i : Nat) :
    ((is.zip (List.replicate is.length false)).lookup i).getD false = false := by
  induction is with
  | nil => simp
  | cons j js ih =>
    simp only [List.length_cons, List.replicate_succ, List.zip_cons_cons, List.lookup_cons]
    split <;> simp [ih]

private theorem count_true_map_beq (n i₀ : Nat) (h : i₀ < n) :
    ((List.range n).map fun i => i == i₀).count true = 1 := by
  induction n with
  | zero => omega
  | succ n ih =>
    rw [List.range_succ, List.map_append, List.count_append]
    by_cases hlt : i₀ < n
    · have : (n == i₀) = false := by simp; omega
      simp [ih hlt, this]
    · have heq : i₀ = n := by omega
      subst heq
      have : ((List.range i₀).map fun i => i == i₀).count true = 0 := by
        rw [List.count_eq_zero]
        intro hm
        obtain ⟨j, hj, hjt⟩ := List.mem_map.mp hm
        have := List.mem_range.mp hj
        simp at hjt; omega
      simp [this]

private def mkT (s : Submission) (i : Nat) : Transmit :=
  { sender := senderName (s.nodes.getD i 0), rep := s.rep, round := s.round }

private theorem submitGroup_eq (tl : TL) (s : Submission) (win : List Bool) :
    tl.submitGroup s win =
      ((tl.submitAll ((callOrder s.nodes win).map (mkT s))).1,
       (List.range s.nodes.length).map fun i =>
         (((callOrder s.nodes win).zip (tl.submitAll ((callOrder s.nodes win).map (mkT s))).2).lookup i).getD false) := by
  have h1 : (groupCalls s win).map (·.2) = (callOrder s.nodes win).map (mkT s) := by
    simp [groupCalls, mkT, List.map_map, Function.comp]
  have h2 : (groupCalls s win).map (·.1) = callOrder s.nodes win := by
    unfold groupCalls
    rw [List.map_map]
    exact List.map_id' _ |>.symm ▸ (by
      apply List.ext_getElem <;> simp)
  simp only [TL.submitGroup, h1, h2]

/-- what one submission does to the loader -/
private theorem submitGroup_spec (tl : TL) (s : Submission) (win : List Bool) :
    (tl.submitGroup s win).2.length = s.nodes.length ∧
    ((s.nodes ≠ [] ∧ (s.rep, s.round) ∉ tl.transmitted.map keyOf) →
      ∃ i₀, i₀ < s.nodes.length ∧
        (tl.submitGroup s win).1.transmitted = tl.transmitted ++ [mkT s i₀] ∧
        (tl.submitGroup s win).1.queue = tl.queue ++ [mkT s i₀] ∧
        (tl.submitGroup s win).2 = (List.range s.nodes.length).map (fun i => i == i₀)) ∧
    (¬(s.nodes ≠ [] ∧ (s.rep, s.round) ∉ tl.transmitted.map keyOf) →
      (tl.submitGroup s win).1 = tl ∧ (tl.submitGroup s win).2 = List.replicate s.nodes.length false) := by
  rw [submitGroup_eq]
  refine ⟨by simp, ?_, ?_⟩
  · rintro ⟨hne, hnew⟩
    obtain ⟨i₀, rest, hco⟩ := List.exists_cons_of_ne_nil (callOrder_ne_nil s.nodes win hne)
    have hlt : i₀ < s.nodes.length := callOrder_lt s.nodes win i₀ (by rw [hco]; simp)
    refine ⟨i₀, hlt, ?_⟩
    have hany : tl.transmitted.any (sameKey (mkT s i₀)) = false := by
      rw [Bool.eq_false_iff]
      intro h
      obtain ⟨x, hx, hxk⟩ := List.any_eq_true.mp h
      exact hnew (List.mem_map.mpr ⟨x, hx, ((sameKey_iff (mkT s i₀) x).mp hxk).symm⟩)
    have ht : tl.transmit (mkT s i₀) =
        ({ queue := tl.queue ++ [mkT s i₀], transmitted := tl.transmitted ++ [mkT s i₀] }, true) := by
      simp [TL.transmit, hany]
    have hrest := submitAll_present { queue := tl.queue ++ [mkT s i₀], transmitted := tl.transmitted ++ [mkT s i₀] }
      (rest.map (mkT s)) (s.rep, s.round) (by simp [keyOf, mkT])
      (by intro t ht; obtain ⟨i, _, rfl⟩ := List.mem_map.mp ht; rfl)
    have hall : tl.submitAll ((callOrder s.nodes win).map (mkT s)) =
        ({ queue := tl.queue ++ [mkT s i₀], transmitted := tl.transmitted ++ [mkT s i₀] },
         true :: List.replicate rest.length false) := by
      rw [hco, List.map_cons]
      simp only [TL.submitAll, ht, hrest, List.length_map]
    rw [hall, hco]
    refine ⟨rfl, rfl, ?_⟩
    apply List.map_congr_left
    intro i _
    simp only [List.zip_cons_cons, List.lookup_cons]
    by_cases hi : i = i₀
    · subst hi; simp
    · have h1 : (i == i₀) = false := by simpa using hi
      rw [h1]
      exact lookup_zip_replicate_false rest i
  · intro hnot
    by_cases hne : s.nodes = []
    · simp [callOrder, hne, TL.submitAll]
    · have hk : (s.rep, s.round) ∈ tl.transmitted.map keyOf := by
        by_cases h : (s.rep, s.round) ∈ tl.transmitted.map keyOf
        · exact h
        · exact absurd ⟨hne, h⟩ hnot
      have hall := submitAll_present tl ((callOrder s.nodes win).map (mkT s)) (s.rep, s.round) hk
        (by intro t ht; obtain ⟨i, _, rfl⟩ := List.mem_map.mp ht; rfl)
      rw [hall]
      refine ⟨rfl, ?_⟩
      simp only [List.length_map, lookup_zip_replicate_false]
      rw [List.map_const']; simp

private theorem loads_spec (tl : TL) (n : Nat) :
    (tl.loads n).1.transmitted = tl.transmitted ∧ (tl.loads n).2.length = n ∧
    tl.queue = (tl.loads n).2.flatten ++ (tl.loads n).1.queue := by
  induction n generalizing tl with
  | zero => simp [TL.loads]
  | succ n ih =>
    obtain ⟨h1, h2, h3⟩ := ih { tl with queue := [] }
    simp only [TL.loads, TL.load]
    refine ⟨h1, by simp [h2], ?_⟩
    simp only [List.flatten_cons, List.append_assoc]
    rw [← h3]; simp

private theorem acceptedCount_cons (s : Submission) (ss : List Submission) (f : List Bool) (fs : List (List Bool))
    (k : Nat × Nat) :
    acceptedCount (s :: ss) (f :: fs) k =
      (if (s.rep, s.round) == k then f.count true else 0) + acceptedCount ss fs k := by
  simp [acceptedCount]

private theorem count_true_replicate_false (n : Nat) : (List.replicate n false).count true = 0 := by
  simp [List.count_replicate]

/-- everything the statement needs to know about the loader's timeline -/
private theorem feed_spec (cad count : Nat) (groups : List ((Nat × Submission) × List Bool)) (cur : Nat) (tl : TL)
    (hnd : (tl.transmitted.map keyOf).Nodup) (hcur : cur ≤ count) :
    let r := feed cad count cur tl groups
    (r.1.transmitted.map keyOf).Nodup ∧
    r.2.1.length = groups.length ∧
    (∀ x ∈ groups.zip r.2.1, x.2.length = x.1.1.2.nodes.length) ∧
    (∀ k, acceptedCount (groups.map (·.1.2)) r.2.1 k + (if k ∈ tl.transmitted.map keyOf then 1 else 0) =
          (if k ∈ r.1.transmitted.map keyOf then 1 else 0)) ∧
    (∀ k, k ∈ r.1.transmitted.map keyOf ↔
          k ∈ tl.transmitted.map keyOf ∨ ∃ g ∈ groups, g.1.2.nodes ≠ [] ∧ (g.1.2.rep, g.1.2.round) = k) ∧
    (∃ added, r.1.transmitted = tl.transmitted ++ added ∧ tl.queue ++ added = r.2.2.flatten ++ r.1.queue ∧
      ∀ t ∈ added, ∃ x ∈ groups.zip r.2.1, (x.1.1.2.rep, x.1.1.2.round) = keyOf t ∧
        ∃ y ∈ x.1.1.2.nodes.zip x.2, y.2 = true ∧ senderName y.1 = t.sender) ∧
    r.2.2.length = count - cur := by
  induction groups generalizing cur tl with
  | nil =>
    obtain ⟨h1, h2, h3⟩ := loads_spec tl (count - cur)
    simp only [feed]
    refine ⟨by rw [h1]; exact hnd, rfl, by simp, ?_, ?_, ⟨[], by simp [h1], by simpa using h3, by simp⟩, h2⟩
    · intro k; simp [acceptedCount, h1]
    · intro k; simp [h1]
  | cons g rest ih =>
    obtain ⟨⟨at_, s⟩, win⟩ := g
    obtain ⟨n, hn⟩ : ∃ n, n = min (blockIndexOf cad at_) count - cur := ⟨_, rfl⟩
    obtain ⟨l1, l2, l3⟩ := loads_spec tl n
    rcases hL : tl.loads n with ⟨tl1, qs⟩
    rw [hL] at l1 l2 l3
    simp only at l1 l2 l3
    obtain ⟨g1, g2, g3⟩ := submitGroup_spec tl1 s win
    rcases hG : tl1.submitGroup s win with ⟨tl2, flags⟩
    rw [hG] at g1 g2 g3
    simp only at g1 g2 g3
    have hfeed : feed cad count cur tl (((at_, s), win) :: rest) =
        ((feed cad count (cur + n) tl2 rest).1, flags :: (feed cad count (cur + n) tl2 rest).2.1,
         qs ++ (feed cad count (cur + n) tl2 rest).2.2) := by
      simp only [feed, ← hn, hL, hG]
    rw [hfeed]
    simp only
    have hcur' : cur + n ≤ count := by omega
    by_cases hnew : s.nodes ≠ [] ∧ (s.rep, s.round) ∉ tl1.transmitted.map keyOf
    · -- the submission is accepted from one caller
      obtain ⟨i₀, hi₀, ht, hq, hf⟩ := g2 hnew
      have hnd2 : (tl2.transmitted.map keyOf).Nodup := by
        rw [ht, l1, List.map_append]
        refine List.nodup_append.mpr ⟨hnd, by simp, ?_⟩
        intro a ha b hb
        simp at hb
        rw [hb]
        intro hab
        rw [l1] at hnew
        have hab' : a = (s.rep, s.round) := hab
        exact hnew.2 (hab' ▸ ha)
      obtain ⟨r1, r2, r3, r4, r5, ⟨added, r6, r7, r8⟩, r9⟩ := ih (cur + n) tl2 hnd2 hcur'
      have hmem : ∀ k, k ∈ (tl.transmitted ++ [mkT s i₀]).map keyOf ↔
          k ∈ tl.transmitted.map keyOf ∨ k = (s.rep, s.round) := by
        intro k; simp [keyOf, mkT]
      refine ⟨r1, by simp [r2], ?_, ?_, ?_, ⟨mkT s i₀ :: added, ?_, ?_, ?_⟩, ?_⟩
      · intro x hx
        simp only [List.zip_cons_cons, List.mem_cons] at hx
        rcases hx with rfl | hx
        · exact g1
        · exact r3 x hx
      · intro k
        simp only [List.map_cons, acceptedCount_cons]
        have := r4 k
        rw [ht, l1] at this
        rw [hf, count_true_map_beq _ _ hi₀]
        have hk1 : (s.rep, s.round) ∉ tl.transmitted.map keyOf := by rw [← l1]; exact hnew.2
        by_cases hk : (s.rep, s.round) = k
        · subst hk
          simp only [beq_self_eq_true, if_true, hk1, if_false]
          rw [if_pos ((hmem _).mpr (Or.inr rfl))] at this
          omega
        · have hb : ((s.rep, s.round) == k) = false := by simpa using hk
          simp only [hb, Bool.false_eq_true, if_false, Nat.zero_add]
          have hne' : ¬ k = (s.rep, s.round) := fun h => hk h.symm
          by_cases hin : k ∈ tl.transmitted.map keyOf
          · rw [if_pos ((hmem k).mpr (Or.inl hin))] at this
            rw [if_pos hin]; exact this
          · rw [if_neg (fun h => by rcases (hmem k).mp h with h | h; exact hin h; exact hne' h)] at this
            rw [if_neg hin]; exact this
      · intro k
        rw [r5 k, ht, l1, hmem k]
        constructor
        · rintro ((h | h) | ⟨g, hg, h⟩)
          · exact Or.inl h
          · exact Or.inr ⟨((at_, s), win), List.mem_cons_self, hnew.1, h.symm⟩
          · exact Or.inr ⟨g, List.mem_cons_of_mem _ hg, h⟩
        · rintro (h | ⟨g, hg, h⟩)
          · exact Or.inl (Or.inl h)
          · rcases List.mem_cons.mp hg with hg | hg
            · subst hg; exact Or.inl (Or.inr h.2.symm)
            · exact Or.inr ⟨g, hg, h⟩
      · rw [r6, ht, l1]; simp
      · rw [List.flatten_append, List.append_assoc, ← r7, hq, l3]; simp
      · intro t ht'
        rcases List.mem_cons.mp ht' with rfl | ht'
        · refine ⟨(((at_, s), win), flags), by simp, rfl, ⟨(s.nodes[i₀], true), ?_, rfl, ?_⟩⟩
          · rw [hf]
            apply List.mem_iff_getElem.mpr
            refine ⟨i₀, by simp [hi₀], by simp⟩
          · simp [mkT, List.getD_eq_getElem?_getD, List.getElem?_eq_getElem hi₀]
        · obtain ⟨x, hx, h⟩ := r8 t ht'
          exact ⟨x, by simp [hx], h⟩
      · simp [l2, r9]; omega
    · -- refused (or nobody called)
      obtain ⟨he, hf⟩ := g3 hnew
      subst he
      have hnd2 : (tl2.transmitted.map keyOf).Nodup := by rw [l1]; exact hnd
      obtain ⟨r1, r2, r3, r4, r5, ⟨added, r6, r7, r8⟩, r9⟩ := ih (cur + n) tl2 hnd2 hcur'
      refine ⟨r1, by simp [r2], ?_, ?_, ?_, ⟨added, ?_, ?_, ?_⟩, ?_⟩
      · intro x hx
        simp only [List.zip_cons_cons, List.mem_cons] at hx
        rcases hx with rfl | hx
        · exact g1
        · exact r3 x hx
      · intro k
        simp only [List.map_cons, acceptedCount_cons]
        have := r4 k
        rw [l1] at this
        rw [hf, count_true_replicate_false]
        simp only [ite_self, Nat.zero_add]
        exact this
      · intro k
        rw [r5 k, l1]
        constructor
        · rintro (h | ⟨g, hg, h⟩)
          · exact Or.inl h
          · exact Or.inr ⟨g, List.mem_cons_of_mem _ hg, h⟩
        · rintro (h | ⟨g, hg, h⟩)
          · exact Or.inl h
          · rcases List.mem_cons.mp hg with hg | hg
            · subst hg
              obtain ⟨hne, hk⟩ := h
              left
              rw [← hk, ← l1]
              by_cases hin : (s.rep, s.round) ∈ tl2.transmitted.map keyOf
              · exact hin
              · exact absurd ⟨hne, hin⟩ hnew
            · exact Or.inr ⟨g, hg, h⟩
      · rw [r6, l1]
      · rw [List.flatten_append, List.append_assoc, ← r7, l3]; simp
      · intro t ht'
        obtain ⟨x, hx, h⟩ := r8 t ht'
        exact ⟨x, by simp [hx], h⟩
      · simp [l2, r9]; omega

private theorem sorted_keys_unique (l₁ l₂ : List String)
    (h₁ : l₁.Pairwise (fun a b => numLt a b = true)) (h₂ : l₂.Pairwise (fun a b => numLt a b = true))
    (hm : ∀ k, k ∈ l₁ ↔ k ∈ l₂) : l₁ = l₂ := by
  have nodup : ∀ {l : List String}, l.Pairwise (fun a b => numLt a b = true) → l.Nodup := by
    intro l hl
    rw [List.nodup_iff_pairwise_ne]
    refine hl.imp ?_
    intro a b hab heq
    subst heq
    rw [numLt_strictTotal.irrefl] at hab
    cases hab
  refine List.Perm.eq_of_pairwise ?_ h₁ h₂ ((List.perm_ext_iff_of_nodup (nodup h₁) (nodup h₂)).mpr hm)
  intro a b _ _ hab hba
  have := numLt_strictTotal.trans _ _ _ hab hba
  rw [numLt_strictTotal.irrefl] at this
  cases this

private theorem foldl_max_eq (l : List Nat) (a M : Nat) (ha : a ≤ M) (hl : ∀ x ∈ l, x ≤ M)
    (hM : a = M ∨ M ∈ l) : l.foldl max a = M := by
  induction l generalizing a with
  | nil => simp at hM ⊢; exact hM
  | cons x xs ih =>
    simp only [List.foldl_cons]
    have hx := hl x (by simp)
    apply ih (max a x) (by omega) (fun y hy => hl y (by simp [hy]))
    rcases hM with h | h
    · left; omega
    · rcases List.mem_cons.mp h with h | h
      · left; omega
      · exact Or.inr h

private theorem chain_block_unique {chain : List Block} (hpw : chain.Pairwise (fun a b => a.number < b.number))
    {b b' : Block} (hb : b ∈ chain) (hb' : b' ∈ chain) (hn : b.number = b'.number) : b = b' := by
  have hidx := List.pairwise_iff_getElem.mp hpw
  obtain ⟨i, hi, rfl⟩ := List.getElem_of_mem hb
  obtain ⟨j, hj, rfl⟩ := List.getElem_of_mem hb'
  rcases Nat.lt_trichotomy i j with h | h | h
  · have := hidx i j hi hj h; omega
  · subst h; rfl
  · have := hidx j i hj hi h; omega

/-- the repaired tracker's answer, computed from the blocks it received in any order, is the
    list the statement prescribes -/
private theorem latestEvents_eq_expected (p : Params) (chain arr got : List Block)
    (hr : p.range = reportTrackerBlockRange)
    (hpw : chain.Pairwise (fun a b => a.number < b.number))
    (hsub : ∀ b ∈ arr, b ∈ chain) (hmem : ∀ b, b ∈ got ↔ b ∈ arr) :
    (rtAfter arr).latestEvents p.reports =
      expectedEvents p (chain.filter (got.contains ·)) ((got.map (·.number)).foldl max 0) := by
  obtain ⟨hl, hwf, hget, hcov⟩ := rtInv_rtAfter arr
  by_cases hne : arr = []
  · subst hne
    have hgot : got = [] := by
      cases got with
      | nil => rfl
      | cons x xs => exact absurd ((hmem x).mp (by simp)) (by simp)
    subst hgot
    have hf : chain.filter (fun x => ([] : List Block).contains x) = [] := by
      apply List.filter_eq_nil_iff.mpr; intro a _; simp
    rw [hf]
    simp [RT.latestEvents, hl.1 rfl, expectedEvents]
  · obtain ⟨l, hlat, hlm, hmax⟩ := hl.2 hne
    have hhi : (got.map (·.number)).foldl max 0 = l.number := by
      apply foldl_max_eq _ 0 _ (Nat.zero_le _)
      · intro x hx
        obtain ⟨b, hb, rfl⟩ := List.mem_map.mp hx
        exact hmax b ((hmem b).mp hb)
      · exact Or.inr (List.mem_map.mpr ⟨l, (hmem l).mpr hlm, rfl⟩)
    -- the blocks with transmits among the received ones, ascending
    let P := (chain.filter (got.contains ·)).filter (!·.txs.isEmpty)
    have hP : ∀ b, b ∈ P ↔ b ∈ chain ∧ b ∈ arr ∧ b.txs.isEmpty = false := by
      intro b
      simp only [P, List.mem_filter, List.contains_iff_mem, Bool.not_eq_true', hmem, and_assoc]
    have hPpw : P.Pairwise (fun a b => a.number < b.number) := (hpw.filter _).filter _
    have hkeys : (rtAfter arr).blockEvents.keys = P.map (fun b => toString b.number) := by
      apply sorted_keys_unique _ _ hwf.1
      · rw [List.pairwise_map]
        exact hPpw.imp (by intro a b h; exact (numLt_toString _ _).mpr h)
      · intro k
        constructor
        · intro hk
          obtain ⟨v, hv⟩ := Option.isSome_iff_exists.mp ((hwf.2 k).mp hk)
          obtain ⟨b, hb, e, _, hne'⟩ := hget k v hv
          exact List.mem_map.mpr ⟨b, (hP b).mpr ⟨hsub b hb, hb, hne'⟩, e.symm⟩
        · intro hk
          obtain ⟨b, hb, rfl⟩ := List.mem_map.mp hk
          obtain ⟨_, h2, h3⟩ := (hP b).mp hb
          exact hcov b h2 h3
    have hval : ∀ b ∈ P, (rtAfter arr).blockEvents.get (toString b.number) = some (b.number, b.txs) := by
      intro b hb
      obtain ⟨h1, h2, h3⟩ := (hP b).mp hb
      obtain ⟨v, hv⟩ := Option.isSome_iff_exists.mp ((hwf.2 _).mp (hcov b h2 h3))
      obtain ⟨b', hb', e, hv', _⟩ := hget _ v hv
      have : b = b' := chain_block_unique hpw h1 (hsub b' hb') (toString_nat_inj e)
      subst this
      rw [hv, hv']
    unfold RT.latestEvents expectedEvents
    rw [hlat]
    simp only
    rw [keysDesc_eq, hkeys, ← List.map_reverse, ← List.map_take, List.flatMap_map, hr, hhi]
    show List.flatMap _ (List.take reportTrackerBlockRange P.reverse) = List.flatMap _ (List.take reportTrackerBlockRange P.reverse)
    rw [List.flatMap_def, List.flatMap_def]
    congr 1
    apply List.map_congr_left
    intro b hb
    have hbP : b ∈ P := List.mem_reverse.mp (List.mem_of_mem_take hb)
    simp only [hval b hbP]
    rfl

private theorem expectedEvents_nodup (p : Params) (blocks : List Block) (l : Nat)
    (hpw : blocks.Pairwise (fun a b => a.number < b.number))
    (htx : ∀ b ∈ blocks, (b.txs.map keyOf).Nodup) (hw : ∀ r ∈ p.reports, r.Nodup) :
    (expectedEvents p blocks l).Nodup := by
  rw [List.nodup_iff_pairwise_ne]
  unfold expectedEvents
  rw [List.pairwise_flatMap]
  have hsubl : ((blocks.filter (!·.txs.isEmpty)).reverse.take p.range).Sublist blocks.reverse :=
    (List.take_sublist _ _).trans (List.filter_sublist.reverse)
  constructor
  · intro b hb
    have hbm : b ∈ blocks := List.mem_reverse.mp (hsubl.subset hb)
    rw [List.pairwise_flatMap]
    constructor
    · intro t _
      rw [List.pairwise_map]
      have hwn : (p.reports.getD t.rep []).Nodup := by
        rw [List.getD_eq_getElem?_getD]
        cases h : p.reports[t.rep]? with
        | none => simp
        | some r => simpa using hw r (List.mem_of_getElem? h)
      exact (List.nodup_iff_pairwise_ne.mp hwn).imp (by intro a b hab h; exact hab (by injection h))
    · have := List.nodup_iff_pairwise_ne.mp (htx b hbm)
      rw [List.pairwise_map] at this
      refine this.imp ?_
      intro t1 t2 hne x hx y hy hxy
      obtain ⟨w1, _, rfl⟩ := List.mem_map.mp hx
      obtain ⟨w2, _, rfl⟩ := List.mem_map.mp hy
      apply hne
      simp only [keyOf]
      injection hxy with _ _ _ h4 h5
      rw [h4, h5]
  · have hrev : blocks.reverse.Pairwise (fun a b => a.number ≠ b.number) :=
      List.pairwise_reverse.mpr (hpw.imp (by intro a b h; omega))
    refine (hrev.sublist hsubl).imp ?_
    intro b1 b2 hne x hx y hy hxy
    obtain ⟨t1, _, hx⟩ := List.mem_flatMap.mp hx
    obtain ⟨t2, _, hy⟩ := List.mem_flatMap.mp hy
    obtain ⟨w1, _, rfl⟩ := List.mem_map.mp hx
    obtain ⟨w2, _, rfl⟩ := List.mem_map.mp hy
    injection hxy with _ h2
    exact hne h2

private theorem insertBy_perm {α} (le : α → α → Bool) (x : α) (l : List α) : (insertBy le x l).Perm (x :: l) := by
  induction l with
  | nil => simp [insertBy]
  | cons y ys ih =>
    unfold insertBy
    split
    · exact List.Perm.refl _
    · exact (List.Perm.cons y ih).trans (List.Perm.swap x y ys)

private theorem sortBy_perm {α} (le : α → α → Bool) (l : List α) : (sortBy le l).Perm l := by
  induction l with
  | nil => simp [sortBy]
  | cons x xs ih =>
    simp only [sortBy, List.foldr_cons]
    exact (insertBy_perm le x _).trans (List.Perm.cons x ih)

private theorem insertBy_sorted {α} (le : α → α → Bool)
    (total : ∀ a b, le a b = true ∨ le b a = true) (trans : ∀ a b c, le a b = true → le b c = true → le a c = true)
    (x : α) (l : List α) (hl : l.Pairwise (fun a b => le a b = true)) :
    (insertBy le x l).Pairwise (fun a b => le a b = true) := by
  induction l with
  | nil => simp [insertBy]
  | cons y ys ih =>
    have hy := List.pairwise_cons.mp hl
    unfold insertBy
    split
    · rename_i hxy
      refine List.pairwise_cons.mpr ⟨?_, hl⟩
      intro z hz
      rcases List.mem_cons.mp hz with rfl | hz
      · exact hxy
      · exact trans _ _ _ hxy (hy.1 z hz)
    · rename_i hxy
      have hyx : le y x = true := by
        rcases total x y with h | h
        · exact absurd h hxy
        · exact h
      refine List.pairwise_cons.mpr ⟨?_, ih hy.2⟩
      intro z hz
      rcases List.mem_cons.mp ((insertBy_perm le x ys).mem_iff.mp hz) with rfl | hz
      · exact hyx
      · exact hy.1 z hz

private theorem sortBy_sorted {α} (le : α → α → Bool)
    (total : ∀ a b, le a b = true ∨ le b a = true) (trans : ∀ a b c, le a b = true → le b c = true → le a c = true)
    (l : List α) : (sortBy le l).Pairwise (fun a b => le a b = true) := by
  induction l with
  | nil => simp [sortBy]
  | cons x xs ih =>
    simp only [sortBy, List.foldr_cons]
    exact insertBy_sorted le total trans x _ ih

private theorem arrivalOrder_time_sorted (cadence : Nat) (idx delays : List Nat) :
    (arrivalOrder cadence idx delays).Pairwise (fun a b => a.1 ≤ b.1) := by
  unfold arrivalOrder
  refine (sortBy_sorted _ ?_ ?_ _).imp ?_
  · intro a b
    simp only [Bool.or_eq_true, decide_eq_true_eq, Bool.and_eq_true, beq_iff_eq]
    omega
  · intro a b c
    simp only [Bool.or_eq_true, decide_eq_true_eq, Bool.and_eq_true, beq_iff_eq]
    omega
  · intro a b
    simp only [Bool.or_eq_true, decide_eq_true_eq, Bool.and_eq_true, beq_iff_eq]
    omega

private theorem arrivalOrder_indices (cadence : Nat) (idx delays : List Nat) :
    ((arrivalOrder cadence idx delays).map (·.2)).Perm idx := by
  unfold arrivalOrder
  have := (sortBy_perm (fun (a b : Nat × Nat) => decide (a.1 < b.1) || (a.1 == b.1 && decide (a.2 ≤ b.2)))
    (idx.map fun i => (i * cadence + delays.getD i 0, i))).map (·.2)
  rw [List.map_map] at this
  have hid : ((fun x : Nat × Nat => x.2) ∘ fun i => (i * cadence + delays.getD i 0, i)) = id := rfl
  rw [hid, List.map_id] at this
  exact this

/-- blocks that have arrived by some instant form a prefix of the arrival order -/
private theorem before_is_prefix (f : Nat → Option Block) (q : Nat) (l : List (Nat × Nat))
    (hs : l.Pairwise (fun a b => a.1 ≤ b.1)) :
    l.filterMap (fun x => if x.1 * 1000 < q then f x.2 else none) =
      (l.filterMap (fun x => f x.2)).take
        (l.filterMap (fun x => if x.1 * 1000 < q then f x.2 else none)).length := by
  induction l with
  | nil => simp
  | cons x xs ih =>
    have hx := List.pairwise_cons.mp hs
    by_cases hq : x.1 * 1000 < q
    · cases hf : f x.2 with
      | none => simp only [List.filterMap_cons, hq, if_true, hf]; exact ih hx.2
      | some b =>
        simp only [List.filterMap_cons, hq, if_true, hf, List.length_cons, List.take_succ_cons]
        rw [← ih hx.2]
    · have hnil : (x :: xs).filterMap (fun x => if x.1 * 1000 < q then f x.2 else none) = [] := by
        apply List.filterMap_eq_nil_iff.mpr
        intro y hy
        rcases List.mem_cons.mp hy with rfl | hy
        · simp [hq]
        · have h1 := hx.1 y hy
          have hy' : ¬ y.1 * 1000 < q :=
            fun h => hq (Nat.lt_of_le_of_lt (Nat.mul_le_mul_right 1000 h1) h)
          exact if_neg hy'
      rw [hnil]; simp

private theorem range_filterMap_getElem? {α} (l : List α) : (List.range l.length).filterMap (l[·]?) = l := by
  induction l with
  | nil => rfl
  | cons x xs ih =>
    rw [List.length_cons, List.range_succ_eq_map, List.filterMap_cons]
    simp only [List.getElem?_cons_zero, List.filterMap_map]
    congr 1

private theorem timed_sorted (inp : Input) (ch : Choices) (s : Nat) :
    (runTimed inp ch s).Pairwise (fun a b => a.1 ≤ b.1) := by
  unfold runTimed
  split
  · rw [List.pairwise_map]; exact List.pairwise_of_forall (fun _ _ => Nat.le_refl _)
  · exact arrivalOrder_time_sorted _ _ _

private theorem timed_indices (inp : Input) (ch : Choices) (s : Nat)
    (horders : ∀ ord, ch.orders.getD s none = some ord → ord.Perm (runWindow inp s)) :
    ((runTimed inp ch s).map (·.2)).Perm (runWindow inp s) := by
  unfold runTimed
  split
  · rename_i ord h
    rw [List.map_map]
    have : ((fun x : Nat × Nat => x.2) ∘ fun i => (0, i)) = id := rfl
    rw [this, List.map_id]
    exact horders ord h
  · exact arrivalOrder_indices _ _ _

/-- the part of the chain broadcast while subscriber `s` is attached -/
private def winChain (inp : Input) (chain : List Block) (s : Nat) : List Block :=
  subChain (inp.attach.getD s 0) (inp.detach.getD s 0) chain ((List.range inp.count).map (blockTime inp.cadence))

/-- … of which those broadcast at least `inp.grace` before it unsubscribed must have arrived -/
private def mustWin (inp : Input) (chain : List Block) (s : Nat) : List Block :=
  subChainG (inp.attach.getD s 0) (inp.detach.getD s 0) inp.grace chain ((List.range inp.count).map (blockTime inp.cadence))

private theorem mustWin_sub (inp : Input) (chain : List Block) (s : Nat) :
    ∀ b ∈ mustWin inp chain s, b ∈ winChain inp chain s := by
  intro b hb
  unfold mustWin subChainG at hb
  unfold winChain subChain
  obtain ⟨x, hx, rfl⟩ := List.mem_map.mp hb
  obtain ⟨hx1, hx2⟩ := List.mem_filter.mp hx
  refine List.mem_map.mpr ⟨x, List.mem_filter.mpr ⟨hx1, ?_⟩, rfl⟩
  simp only [inWindowG, inWindow, Bool.and_eq_true, Bool.or_eq_true, decide_eq_true_eq, beq_iff_eq] at hx2 ⊢
  refine ⟨hx2.1, ?_⟩
  rcases hx2.2 with h | h
  · exact Or.inl h
  · exact Or.inr (by omega)

private theorem sortBy_perm_eq_nat (l₁ l₂ : List Nat) (hp : l₁.Perm l₂) :
    sortBy (fun a b => decide (a ≤ b)) l₁ = sortBy (fun a b => decide (a ≤ b)) l₂ := by
  have tot : ∀ a b : Nat, decide (a ≤ b) = true ∨ decide (b ≤ a) = true := by
    intro a b; simp only [decide_eq_true_eq]; omega
  have tr : ∀ a b c : Nat, decide (a ≤ b) = true → decide (b ≤ c) = true → decide (a ≤ c) = true := by
    intro a b c; simp only [decide_eq_true_eq]; omega
  refine List.Perm.eq_of_pairwise ?_ (sortBy_sorted _ tot tr l₁) (sortBy_sorted _ tot tr l₂)
    ((sortBy_perm _ l₁).trans (hp.trans (sortBy_perm _ l₂).symm))
  intro a b _ _ h1 h2
  simp only [decide_eq_true_eq] at h1 h2
  omega

private theorem filterMap_getElem?_map (n : Nat) (mk : Nat → Block) (idx : List Nat) (h : ∀ i ∈ idx, i < n) :
    idx.filterMap (((List.range n).map mk)[·]?) = idx.map mk := by
  induction idx with
  | nil => rfl
  | cons i is ih =>
    have hi := h i (by simp)
    rw [List.filterMap_cons, List.map_cons]
    have : ((List.range n).map mk)[i]? = some (mk i) := by simp [hi]
    simp only [this]
    rw [ih (fun j hj => h j (by simp [hj]))]

private theorem window_blocks (inp : Input) (mk : Nat → Block) (s : Nat) :
    (runWindow inp s).filterMap (((List.range inp.count).map mk)[·]?) =
      winChain inp ((List.range inp.count).map mk) s ∧
    winChain inp ((List.range inp.count).map mk) s = (runWindow inp s).map mk := by
  have h2 : winChain inp ((List.range inp.count).map mk) s = (runWindow inp s).map mk := by
    unfold winChain subChain runWindow
    rw [List.zip_map', List.filter_map, List.map_map]
    rfl
  refine ⟨?_, h2⟩
  rw [h2]
  apply filterMap_getElem?_map
  intro i hi
  exact List.mem_range.mp (List.mem_filter.mp hi).1

private theorem winChain_sublist (inp : Input) (mk : Nat → Block) (s : Nat) :
    (winChain inp ((List.range inp.count).map mk) s).Sublist ((List.range inp.count).map mk) := by
  rw [(window_blocks inp mk s).2]
  exact List.Sublist.map mk List.filter_sublist

/-- what one subscriber observes in a run satisfies the delivery, history and events clauses -/
private theorem runSub_ok (inp : Input) (ch : Choices) (mk : Nat → Block) (s : Nat)
    (hnumk : ∀ i, (mk i).number = inp.genesis + i)
    (htx : ∀ b ∈ (List.range inp.count).map mk, (b.txs.map keyOf).Nodup)
    (hbound : inp.genesis + inp.count ≤ 2 ^ 64)
    (hwids : ∀ r ∈ inp.reports, r.Nodup)
    (horders : ∀ ord, ch.orders.getD s none = some ord → ord.Perm (runWindow inp s))
    (hrecvs : ∀ ord, ch.recvs.getD s none = some ord → ord.Perm (runWindow inp s))
    (hslows : ∀ ord, ch.slows.getD s none = some ord → ord.Perm (runWindow inp s))
    (hmid : inp.queries = [] ∨ ch.recvs.getD s none = none) :
    let chain := (List.range inp.count).map mk
    recvOk (mustWin inp chain s) (winChain inp chain s) (runSub inp ch chain s).recv = true ∧
    recvOk (mustWin inp chain s) (winChain inp chain s) (runSub inp ch chain s).slow = true ∧
    histsOk (paramsOf inp) (gotOf (winChain inp chain s) (runSub inp ch chain s).recv) (runSub inp ch chain s).hists = true ∧
    activeOk (gotOf (winChain inp chain s) (runSub inp ch chain s).recv) (runSub inp ch chain s).active = true ∧
    subEventsOk (paramsOf inp) chain (runSub inp ch chain s) = true := by
  intro chain
  have hnum : chain.map (·.number) = chainNumbers inp.genesis inp.count := by
    simp [chain, chainNumbers, List.map_map, Function.comp, hnumk]
  have hpw := chain_pairwise inp.genesis inp.count chain hnum
  have hltc := chain_lt inp.genesis inp.count chain hnum hbound
  have hsl := winChain_sublist inp mk s
  have hpw' : (winChain inp chain s).Pairwise (fun a b => a.number < b.number) := hpw.sublist hsl
  -- arrival order and what was received are permutations of the subscriber's part of the chain
  have harr : ((runTimed inp ch s).filterMap fun x => chain[x.2]?).Perm (winChain inp chain s) := by
    have := (timed_indices inp ch s horders).filterMap (chain[·]?)
    rw [List.filterMap_map, (window_blocks inp mk s).1] at this
    exact this
  have hrecv : (runSub inp ch chain s).recv.Perm (winChain inp chain s) := by
    simp only [runSub]
    split
    · rename_i ord h
      have := (hrecvs ord h).filterMap (chain[·]?)
      rw [(window_blocks inp mk s).1] at this
      exact this
    · exact harr
  have hwin_sub : ∀ b ∈ winChain inp chain s, b ∈ chain := fun b hb => hsl.subset hb
  have hslow : (runSub inp ch chain s).slow.Perm (winChain inp chain s) := by
    simp only [runSub]
    split
    · rename_i ord h
      have := (hslows ord h).filterMap (chain[·]?)
      rw [(window_blocks inp mk s).1] at this
      exact this
    · exact harr
  have hmust := mustWin_sub inp chain s
  refine ⟨model_recv_ok_pw _ _ _ hpw' hrecv hmust, model_recv_ok_pw _ _ _ hpw' hslow hmust, ?_, ?_, ?_⟩
  · rw [gotOf_of_perm _ _ hrecv]
    exact model_histories_ok_pw (paramsOf inp) _ _ rfl hpw' (fun b hb => hltc b (hwin_sub b hb)) harr
  · rw [gotOf_of_perm _ _ hrecv]
    unfold activeOk
    simp only [runSub, beq_iff_eq]
    exact sortBy_perm_eq_nat _ _ (harr.flatMap_right _)
  · -- events
    have hanswer : ∀ (arr : List Block) (k : Nat),
        (∀ b ∈ arr, b ∈ chain) →
        (∀ b, b ∈ (runSub inp ch chain s).recv.take k ↔ b ∈ arr) →
        eventsOk (paramsOf inp) chain (runSub inp ch chain s).recv k
          ((rtAfter arr).latestEvents inp.reports) = true := by
      intro arr k hsub hmem
      have heq := latestEvents_eq_expected (paramsOf inp) chain arr
        ((runSub inp ch chain s).recv.take k) rfl hpw hsub hmem
      unfold eventsOk
      simp only [Bool.and_eq_true, List.all_eq_true, decide_eq_true_eq, List.contains_iff_mem]
      have heq' : (rtAfter arr).latestEvents inp.reports =
          expectedEvents (paramsOf inp) (chain.filter fun x => ((runSub inp ch chain s).recv.take k).contains x)
            (highestSeen (runSub inp ch chain s).recv k) := heq
      refine ⟨⟨⟨?_, ?_⟩, ?_⟩, ?_⟩
      · intro e he
        obtain ⟨_, _, _, _, _, h0, _⟩ := confirmations_eq inp.reports arr e he
        exact h0
      · rw [heq']
        exact expectedEvents_nodup _ _ _ (hpw.filter _)
          (fun b hb => htx b (List.mem_filter.mp hb).1) hwids
      · intro e he; rw [← heq']; exact he
      · intro e he; rw [heq']; exact he
    unfold subEventsOk
    simp only [Bool.and_eq_true, decide_eq_true_eq, List.all_eq_true]
    refine ⟨by simp [runSub], ?_⟩
    intro x hx
    have hzip : (runSub inp ch chain s).events.zip (runSub inp ch chain s).seen =
        (inp.queries.filter fun q => decide (inp.attach.getD s 0 < q)).map (fun q =>
          ((rtAfter ((runTimed inp ch s).filterMap fun x => if x.1 * 1000 < q then chain[x.2]? else none)).latestEvents inp.reports,
           ((runTimed inp ch s).filterMap fun x => if x.1 * 1000 < q then chain[x.2]? else none).length)) ++
        [((rtAfter ((runTimed inp ch s).filterMap fun x => chain[x.2]?)).latestEvents inp.reports,
          ((runTimed inp ch s).filterMap fun x => chain[x.2]?).length)] := by
      simp only [runSub]
      rw [List.zip_append (by simp), List.zip_map']
      rfl
    rw [hzip] at hx
    rcases List.mem_append.mp hx with hx | hx
    · -- a query while blocks are in flight
      obtain ⟨q, hq, rfl⟩ := List.mem_map.mp hx
      have hnone : ch.recvs.getD s none = none := by
        rcases hmid with h | h
        · rw [h] at hq; simp at hq
        · exact h
      have hrecv_eq : (runSub inp ch chain s).recv = (runTimed inp ch s).filterMap fun x => chain[x.2]? := by
        simp only [runSub, hnone]
      have hpre := before_is_prefix (fun i => chain[i]?) q (runTimed inp ch s) (timed_sorted inp ch s)
      apply hanswer
      · intro b hb
        rw [hpre] at hb
        exact hwin_sub b (harr.mem_iff.mp (List.mem_of_mem_take hb))
      · intro b
        rw [hrecv_eq, ← hpre]
    · -- the final query
      simp only [List.mem_singleton] at hx
      subst hx
      apply hanswer
      · intro b hb; exact hwin_sub b (harr.mem_iff.mp hb)
      · intro b
        have hl : (runSub inp ch chain s).recv.length = ((runTimed inp ch s).filterMap fun x => chain[x.2]?).length := by
          rw [hrecv.length_eq, harr.length_eq]
        rw [← hl, List.take_length]
        exact ⟨fun h => harr.mem_iff.mpr (hrecv.mem_iff.mp h), fun h => hrecv.mem_iff.mpr (harr.mem_iff.mp h)⟩

private theorem runChain_txs (inp : Input) (ch : Choices) (blockTxs : List (List Transmit))
    (hlen : blockTxs.length = inp.count) : (runChain inp ch blockTxs).map (·.txs) = blockTxs := by
  unfold runChain
  rw [List.map_map]
  apply List.ext_getElem
  · simp [hlen]
  · intro i h1 h2
    simp at h1
    simp [List.getD_eq_getElem?_getD, List.getElem?_eq_getElem h2]

private theorem runChain_numbers (inp : Input) (ch : Choices) (blockTxs : List (List Transmit)) :
    (runChain inp ch blockTxs).map (·.number) = chainNumbers inp.genesis inp.count := by
  simp [runChain, chainNumbers, List.map_map, Function.comp]

private theorem onChain_snd (chain : List Block) :
    (onChain chain).map (·.2) = (chain.map (·.txs)).flatten := by
  induction chain with
  | nil => rfl
  | cons b bs ih =>
    simp only [onChain, List.flatMap_cons, List.map_append, List.map_map, List.map_cons, List.flatten_cons] at ih ⊢
    rw [ih]
    congr 1
    exact List.map_id' _ |>.symm ▸ (by apply List.ext_getElem <;> simp)

private theorem mem_onChain (chain : List Block) (n : Nat) (t : Transmit) :
    (n, t) ∈ onChain chain ↔ ∃ b ∈ chain, b.number = n ∧ t ∈ b.txs := by
  simp only [onChain, List.mem_flatMap, List.mem_map, Prod.mk.injEq]
  constructor
  · rintro ⟨b, hb, t', ht', rfl, rfl⟩; exact ⟨b, hb, rfl, ht'⟩
  · rintro ⟨b, hb, rfl, ht⟩; exact ⟨b, hb, t, ht, rfl, rfl⟩

/-- C19 for the model as a whole: every run of the executable model — any genesis and block count
    below 2^64, any cadence, delays and arrival orders, any submissions with any callers, any
    queries — satisfies the very predicate the run-time oracle evaluates on the implementation.
    Hypotheses: work ids within a report are distinct; arrival orders handed in as the
    implementation's choice are permutations of the blocks; mid-run queries are only compared when
    the plain block subscription is not reordered separately (what the harness does). -/
theorem run_satisfies_spec (inp : Input) (ch : Choices)
    (hbound : inp.genesis + inp.count ≤ 2 ^ 64)
    (hwids : ∀ r ∈ inp.reports, r.Nodup)
    (horders : ∀ s ord, ch.orders.getD s none = some ord → ord.Perm (runWindow inp s))
    (hrecvs : ∀ s ord, ch.recvs.getD s none = some ord → ord.Perm (runWindow inp s))
    (hslows : ∀ s ord, ch.slows.getD s none = some ord → ord.Perm (runWindow inp s))
    (hmid : inp.queries = [] ∨ ∀ s, ch.recvs.getD s none = none) :
    spec (paramsOf inp) (run inp ch) = true := by
  -- the loader's timeline
  let groups := inp.txs.zipIdx.map fun (x, j) => (x, ch.winners.getD j [])
  have hgroups : groups.map (·.1.2) = inp.txs.map (·.2) := by
    simp only [groups, List.map_map]
    have hf : ((fun x : (Nat × Submission) × List Bool => x.1.2) ∘
        fun (x : (Nat × Submission) × Nat) => (x.1, ch.winners.getD x.2 [])) =
        (fun x : Nat × Submission => x.2) ∘ Prod.fst := rfl
    rw [hf, ← List.map_map, List.zipIdx_map_fst]
  obtain ⟨fA, fB1, fB2, fC, fD, ⟨added, fE1, fE2, fF⟩, fG⟩ :=
    feed_spec inp.cadence inp.count groups 0 {} (by simp) (Nat.zero_le _)
  rcases hfd : feed inp.cadence inp.count 0 {} groups with ⟨tl, accepted, blockTxs⟩
  rw [hfd] at fA fB1 fB2 fC fD fE1 fE2 fF fG
  simp only [List.map_nil, List.not_mem_nil, if_false, Nat.add_zero, false_or, List.nil_append,
    Nat.sub_zero] at fA fB1 fB2 fC fD fE1 fE2 fF fG
  subst fE1
  have hrun : run inp ch =
      { chain := runChain inp ch blockTxs, times := (List.range inp.count).map (blockTime inp.cadence),
        chainAfter := runChain inp ch blockTxs,
        subs := (List.range inp.nsubs).map (runSub inp ch (runChain inp ch blockTxs)),
        accepted := accepted, results := runResults (runChain inp ch blockTxs) tl } := by
    simp only [run]
    rw [show (inp.txs.zipIdx.map fun (x, j) => (x, ch.winners.getD j [])) = groups from rfl, hfd]
  rw [hrun]
  let mk : Nat → Block := fun i =>
    { number := inp.genesis + i, hash := (ch.hashes.getD i ("", "")).1, txs := blockTxs.getD i [],
      content := (ch.hashes.getD i ("", "")).2,
      created := (inp.upkeeps.filter (·.1 == i)).flatMap (·.2) }
  generalize hchain : runChain inp ch blockTxs = chain
  have hmk : chain = (List.range inp.count).map mk := by rw [← hchain]; rfl
  have hnum : chain.map (·.number) = chainNumbers inp.genesis inp.count := by
    rw [← hchain]; exact runChain_numbers _ _ _
  have htxs : chain.map (·.txs) = blockTxs := by rw [← hchain]; exact runChain_txs _ _ _ fG
  have hpw := chain_pairwise _ _ chain hnum
  -- every recorded transmit is in exactly one place
  have hnd : tl.transmitted.Nodup := by
    rw [List.nodup_iff_pairwise_ne]
    have := List.nodup_iff_pairwise_ne.mp fA
    rw [List.pairwise_map] at this
    exact this.imp (by intro a b h hab; exact h (by rw [hab]))
  have hflat : (chain.map (·.txs)).flatten ++ tl.queue = tl.transmitted := by rw [htxs]; exact fE2.symm
  have hflat_nd : ((chain.map (·.txs)).flatten.map keyOf).Nodup := by
    have : ((chain.map (·.txs)).flatten.map keyOf).Sublist (tl.transmitted.map keyOf) := by
      rw [← hflat, List.map_append]; exact List.sublist_append_left _ _
    exact this.nodup fA
  have htx : ∀ b ∈ chain, (b.txs.map keyOf).Nodup := by
    intro b hb
    have h1 : (b.txs).Sublist (chain.map (·.txs)).flatten :=
      List.sublist_flatten_of_mem (List.mem_map_of_mem hb)
    exact (h1.map keyOf).nodup hflat_nd
  have hdisj : chain.Pairwise (fun b₁ b₂ => ∀ x ∈ b₁.txs, ∀ y ∈ b₂.txs, x ≠ y) := by
    have h1 : ((chain.map (·.txs)).flatten).Nodup := by
      rw [List.nodup_iff_pairwise_ne]
      have := List.nodup_iff_pairwise_ne.mp hflat_nd
      rw [List.pairwise_map] at this
      exact this.imp (by intro a b h hab; exact h (by rw [hab]))
    have := (List.pairwise_flatten.mp (List.nodup_iff_pairwise_ne.mp h1)).2
    rw [List.pairwise_map] at this
    exact this
  have huniq : ∀ b ∈ chain, ∀ b' ∈ chain, ∀ t, t ∈ b.txs → t ∈ b'.txs → b = b' := by
    intro b hb b' hb' t ht ht'
    have hidx := List.pairwise_iff_getElem.mp hdisj
    obtain ⟨i, hi, rfl⟩ := List.getElem_of_mem hb
    obtain ⟨j, hj, rfl⟩ := List.getElem_of_mem hb'
    rcases Nat.lt_trichotomy i j with h | h | h
    · exact absurd rfl (hidx i j hi hj h t ht t ht')
    · subst h; rfl
    · exact absurd rfl (hidx j i hj hi h t ht' t ht)
  have hzs : ∀ (f : Nat → SubOut) (n : Nat),
      ((List.range n).map f).zip (List.range ((List.range n).map f).length) =
        (List.range n).map (fun i => (f i, i)) := by
    intro f n
    rw [List.length_map, List.length_range]
    have h := @List.zip_map' _ _ _ f id (List.range n)
    rw [List.map_id] at h
    exact h
  have hsub : ∀ s, recvOk (mustWin inp chain s) (winChain inp chain s) (runSub inp ch chain s).recv = true ∧
      recvOk (mustWin inp chain s) (winChain inp chain s) (runSub inp ch chain s).slow = true ∧
      histsOk (paramsOf inp) (gotOf (winChain inp chain s) (runSub inp ch chain s).recv) (runSub inp ch chain s).hists = true ∧
      activeOk (gotOf (winChain inp chain s) (runSub inp ch chain s).recv) (runSub inp ch chain s).active = true ∧
      subEventsOk (paramsOf inp) chain (runSub inp ch chain s) = true := by
    intro s
    subst hmk
    exact runSub_ok inp ch mk s (fun _ => rfl) htx hbound hwids (horders s) (hrecvs s) (hslows s)
      (hmid.imp id (fun h => h s))
  unfold spec
  simp only [hzs, Bool.and_eq_true, List.all_eq_true, List.mem_map, List.mem_range]
  refine ⟨⟨⟨⟨⟨⟨⟨?_, ?_⟩, ?_⟩, ?_⟩, ?_⟩, ?_⟩, ?_⟩, ?_⟩
  · -- chain
    have hl : chain.length = inp.count := by rw [hmk]; simp
    simp [chainOk, paramsOf, hnum, hl]
  · simp
  · rintro _ ⟨s, _, rfl⟩
    exact (hsub s).1
  · rintro _ ⟨s, _, rfl⟩
    exact (hsub s).2.1
  · rintro _ ⟨s, _, rfl⟩
    exact (hsub s).2.2.1
  · rintro _ ⟨s, _, rfl⟩
    exact (hsub s).2.2.2.1
  · -- transmits
    have hres_mem : ∀ r, r ∈ runResults chain tl ↔
        ∃ t ∈ tl.transmitted, r = { t := t, block := (chain.find? fun b => b.txs.contains t).map (·.number) } := by
      intro r
      unfold runResults
      rw [(sortBy_perm recLe _).mem_iff, List.mem_map]
      constructor
      · rintro ⟨t, ht, rfl⟩; exact ⟨t, ht, rfl⟩
      · rintro ⟨t, ht, rfl⟩; exact ⟨t, ht, rfl⟩
    have hres_keys : ((runResults chain tl).map fun r => keyOf r.t).Perm (tl.transmitted.map keyOf) := by
      unfold runResults
      have := (sortBy_perm recLe (tl.transmitted.map fun t =>
        ({ t := t, block := (chain.find? fun b => b.txs.contains t).map (·.number) } : Rec))).map (fun r => keyOf r.t)
      rw [List.map_map] at this
      exact this
    have hsubm : (paramsOf inp).subms = groups.map (·.1.2) := hgroups.symm
    have hkeys : ∀ k, k ∈ submittedKeys (paramsOf inp).subms ↔
        ∃ g ∈ groups, g.1.2.nodes ≠ [] ∧ (g.1.2.rep, g.1.2.round) = k := by
      intro k
      rw [hsubm]
      simp only [submittedKeys, List.mem_eraseDups, List.mem_map, List.mem_filter, Bool.not_eq_true',
        List.isEmpty_eq_false_iff]
      constructor
      · rintro ⟨_, ⟨⟨g, hg, rfl⟩, hne⟩, rfl⟩; exact ⟨g, hg, hne, rfl⟩
      · rintro ⟨g, hg, hne, rfl⟩; exact ⟨_, ⟨⟨g, hg, rfl⟩, hne⟩, rfl⟩
    have hzip : (paramsOf inp).subms.zip accepted = (groups.zip accepted).map (fun x => (x.1.1.2, x.2)) := by
      rw [hsubm, List.zip_map_left]
      rfl
    unfold transmitsOk
    simp only [Bool.and_eq_true, List.all_eq_true, decide_eq_true_eq, beq_iff_eq, List.contains_iff_mem]
    refine ⟨⟨⟨⟨⟨⟨⟨⟨?_, ?_⟩, ?_⟩, ?_⟩, ?_⟩, ?_⟩, ?_⟩, ?_⟩, ?_⟩
    · rw [fB1, hsubm]; simp
    · intro x hx
      rw [hzip] at hx
      obtain ⟨y, hy, rfl⟩ := List.mem_map.mp hx
      simpa using fB2 y hy
    · intro k hk
      have h1 := fC k
      rw [hgroups] at h1
      have : k ∈ tl.transmitted.map keyOf := (fD k).mpr ((hkeys k).mp hk)
      rw [if_pos this] at h1
      exact h1
    · exact hres_keys.nodup_iff.mpr fA
    · intro k hk
      exact hres_keys.mem_iff.mpr ((fD k).mpr ((hkeys k).mp hk))
    · intro r hr
      obtain ⟨t, ht, rfl⟩ := (hres_mem r).mp hr
      refine ⟨(hkeys _).mpr ((fD _).mp (List.mem_map_of_mem ht)), ?_⟩
      obtain ⟨x, hx, hk, y, hy, hy1, hy2⟩ := fF t ht
      unfold senderOk
      rw [hzip]
      apply List.any_eq_true.mpr
      refine ⟨(x.1.1.2, x.2), List.mem_map.mpr ⟨x, hx, rfl⟩, ?_⟩
      simp only [Bool.and_eq_true, beq_iff_eq]
      refine ⟨hk, List.any_eq_true.mpr ⟨y, hy, ?_⟩⟩
      simp [hy1, hy2]
    · have h2 : ((onChain chain).map fun x => keyOf x.2) = ((onChain chain).map (·.2)).map keyOf := by
        rw [List.map_map]; rfl
      rw [h2, onChain_snd]
      exact hflat_nd
    · rintro ⟨n, t⟩ hnt
      obtain ⟨b, hb, rfl, ht⟩ := (mem_onChain chain _ t).mp hnt
      apply (hres_mem _).mpr
      have htt : t ∈ tl.transmitted := by
        rw [← hflat]
        exact List.mem_append_left _ (List.mem_flatten.mpr ⟨b.txs, List.mem_map_of_mem hb, ht⟩)
      refine ⟨t, htt, ?_⟩
      cases hf : chain.find? (fun b => b.txs.contains t) with
      | none =>
        have := List.find?_eq_none.mp hf b hb
        simp [ht] at this
      | some b' =>
        have hb' := List.mem_of_find?_eq_some hf
        have ht' : t ∈ b'.txs := by simpa using List.find?_some hf
        rw [huniq b hb b' hb' t ht ht']
        rfl
    · intro r hr
      obtain ⟨t, _, rfl⟩ := (hres_mem r).mp hr
      cases hf : chain.find? (fun b => b.txs.contains t) with
      | none =>
        simp only [Option.map_none]
        simp only [Bool.not_eq_true', ← Bool.not_eq_true]
        intro hc
        have hc' : t ∈ (onChain chain).map (·.2) := by simpa using hc
        rw [onChain_snd] at hc'
        obtain ⟨l, hl, htl⟩ := List.mem_flatten.mp hc'
        obtain ⟨b, hb, rfl⟩ := List.mem_map.mp hl
        have := List.find?_eq_none.mp hf b hb
        simp [htl] at this
      | some b' =>
        simp only [Option.map_some]
        have hb' := List.mem_of_find?_eq_some hf
        have ht' : t ∈ b'.txs := by simpa using List.find?_some hf
        have := (mem_onChain chain _ t).mpr ⟨b', hb', rfl, ht'⟩
        simpa using this
  · rintro _ ⟨s, _, rfl⟩
    exact (hsub s).2.2.2.2

/-- the hypotheses of `run_satisfies_spec` are met by the late-block witness: blocks 97 … 104 every
    100 ms, two nodes submit the same report concurrently at 150.137 ms, subscriber 0 gets block 98
    two seconds late, subscriber 1 unsubscribes at 350.137 ms, subscriber 2 only subscribes at
    250.137 ms; upkeeps 11 and 12 are created in the block that carries the transmit; all nodes that
    exist are queried at 500.137 ms and at the end -/
example :
    let inp : Input := ⟨97, 8, 100, 3, [[0, 2000, 0, 0, 0, 0, 0, 0], [], []], [["w"]], [(150137, ⟨0, 1, [0, 1]⟩)], [500137],
      [0, 0, 250137], [0, 350137, 0], [(2, [11, 12])], 0⟩
    let ch : Choices := ⟨[], [[false, true]], [], [], []⟩
    spec (paramsOf inp) (run inp ch) = true ∧
    (run inp ch).accepted = [[false, true]] ∧
    (run inp ch).subs.map (·.recv.map (·.number)) =
      [[97, 99, 100, 101, 102, 103, 104, 98], [97, 98, 99, 100], [100, 101, 102, 103, 104]] ∧
    (run inp ch).subs.map (·.active) = [[11, 12], [11, 12], []] ∧
    (run inp ch).subs.map (·.events) =
      [[[⟨"w", 99, 3, 0, 1⟩], [⟨"w", 99, 5, 0, 1⟩]], [[⟨"w", 99, 1, 0, 1⟩], [⟨"w", 99, 1, 0, 1⟩]], [[], []]] := by
  intro inp ch
  refine ⟨run_satisfies_spec inp ch (by decide) (by decide) ?_ ?_ ?_ (Or.inr (by intro s; simp [ch])), by decide, by decide, by decide, by decide⟩
  · intro s ord h; simp [ch] at h
  · intro s ord h; simp [ch] at h
  · intro s ord h; simp [ch] at h

/-! ### un-timed `Transmit` ∥ `Load` -/

theorem nodupB_iff {α} [BEq α] [LawfulBEq α] (l : List α) : nodupB l = true ↔ l.Nodup := by
  induction l with
  | nil => simp [nodupB]
  | cons x xs ih => simp [nodupB, ih, List.nodup_cons]

private theorem runOps_final_load_queue (ops : List TLOp) (tl : TL) :
    (TL.runOps tl (ops ++ [TLOp.load])).1.queue = [] := by
  induction ops generalizing tl with
  | nil => simp [TL.runOps, TL.load]
  | cons op ops ih =>
    cases op with
    | load => simp only [List.cons_append, TL.runOps]; exact ih _
    | submit t => simp only [List.cons_append, TL.runOps]; exact ih _

/-- whatever the interleaving of `Transmit` calls and block building: once a block is built after
    the last call, nothing is left in the queue — every accepted call is in exactly one block, the
    blocks together are exactly `Results()`, and no `(report, round)` is in them twice -/
theorem all_mined_after_final_load (ops : List TLOp) :
    let r := TL.runOps {} (ops ++ [TLOp.load])
    r.1.queue = [] ∧ r.2.2.flatten = r.1.transmitted ∧
    r.1.transmitted = acceptedOf (ops ++ [TLOp.load]) r.2.1 ∧ ((r.2.2.flatten).map keyOf).Nodup := by
  have hq := runOps_final_load_queue ops {}
  obtain ⟨h1, h2, h3, _⟩ := transmit_recorded_once (ops ++ [TLOp.load])
  simp only at h1 h2 h3 ⊢
  rw [hq, List.append_nil] at h3
  exact ⟨hq, h3, h2, by rw [h3]; exact h1⟩

example : stressReplay [(3, [⟨"node-1", 0, 0⟩, ⟨"node-0", 1, 1⟩]), (9, [⟨"node-2", 0, 2⟩])] =
    (true, [[⟨"node-1", 0, 0⟩, ⟨"node-0", 1, 1⟩], [⟨"node-2", 0, 2⟩]],
     [⟨⟨"node-1", 0, 0⟩, some 3⟩, ⟨⟨"node-2", 0, 2⟩, some 9⟩, ⟨⟨"node-0", 1, 1⟩, some 3⟩]) := by decide

end AutoVerif.C19
