import AutoVerif.Model.Node
import AutoVerif.Props.C08
import AutoVerif.Props.C09
import AutoVerif.Props.C10
import AutoVerif.Props.C12
import AutoVerif.Props.C13
/-
C09Link — the node-level hypothesis `HonestObs` of Props/C09 ("a non-faulty member only observes what its
own pipeline returned eligible") discharged inside ONE development from the component theorems, over the
composition model `Model/Node`:

  (1) observed_from_store    performable ⊆ View() of the node's store at that moment      C08 `performables_subset`
  (2) store_from_flows       viewed ⇒ an earlier `Add` by a flow run whose staged sink     C10 `view_excludes_expired`
                             held exactly that result                                       (+ `Node.Conforms`)
  (3) staged_from_runner     staged sink ⇒ eligible, state 0, in the runner's return value C12 `process_routes`, `routing_staged`
  (4) runner_from_pipeline   runner's return value ⇒ answered by the pipeline in this call C13 `modelCall_explains`, `parallelCheck_ret`,
                             or (cache, state 0) in an earlier call of this node                `hit_mem`, `cacheAt_good`
  (5) honest_obs_from_pipeline   the composition, for every conforming node history and every observation in it
  (6) honestObs_discharged / net_safety_round_linked   `C09.HonestObs` for a family of node histories, and
                             `C09.net_safety_round` without that hypothesis

All statements are for every history (any length, any interleaving of the goroutines' atomic steps, any
pipeline answers, any clock readings, any map orders); nothing is assumed about the component models beyond
their own definitions.  What remains a hypothesis in (6) is stated there.
-/
namespace AutoVerif.Node
open AutoVerif.Outcome

/-! ### properties of the conversions -/

private theorem toResFrom_cr (ivs : List Int) : ∀ (i : Nat) (rs : List CheckResult),
    (toResFrom ivs i rs).map (·.cr) = rs
  | _, [] => rfl
  | i, r :: rs => by simp [toResFrom, toResFrom_cr ivs (i + 1) rs]

/-- `toRes` neither drops, adds, reorders nor changes a result -/
theorem toRes_cr (ivs : List Int) (rs : List CheckResult) : (toRes ivs rs).map (·.cr) = rs :=
  toResFrom_cr ivs 0 rs

/-- the runner handed to `C12.process` fails iff C13's model returned `ErrTooManyErrors`, and otherwise
returns C13's values, one `Res` per value -/
theorem runnerOf_spec (ivs : List Int) (R : C13.Ret) (ps : List Payload) :
    (R.err = true → runnerOf ivs R ps = none) ∧
    (R.err = false → ∃ res, runnerOf ivs R ps = some res ∧ res.map (·.cr) = R.values) := by
  constructor
  · intro h; simp [runnerOf, h]
  · intro h; exact ⟨toRes ivs R.values, by simp [runnerOf, h], toRes_cr ivs R.values⟩

/-- the store events of a history are the store events of its parts -/
theorem storeEvs_append (a b : List Ev) : storeEvs (a ++ b) = storeEvs a ++ storeEvs b := by
  simp [storeEvs]

/-- `RemoveFromStagingHook` as ONE call `Remove(ids…)` (C10 `runHook`) is what the `unstage` event does -/
theorem unstage_is_runHook (cfg : Cfg) (pre : List Ev) (t : Nat) (agreed : List CheckResult) :
    storeAt cfg (pre ++ [.unstage t agreed]) = C10.runHook (storeAt cfg pre) agreed := by
  unfold storeAt C10.runHook
  rw [storeEvs_append, C10.run_append]
  have h := C10.remove_is_events cfg.ttl t (C10.run cfg.ttl [] (storeEvs pre)) (agreed.map (·.workID))
  simpa [storeEvs, storeEv, List.map_map, Function.comp_def] using h.symm

/-! ### helpers: membership in the projections -/

private theorem mem_runnerEvs {h : List Ev} {e : C13.Ev} : e ∈ runnerEvs h ↔ Ev.runner e ∈ h := by
  simp only [runnerEvs, List.mem_filterMap]
  constructor
  · rintro ⟨x, hx, hxe⟩
    cases x <;> simp [runnerEv] at hxe
    subst hxe; exact hx
  · intro h; exact ⟨_, h, rfl⟩

private theorem stage_of_add {h : List Ev} {ta : Nat} {r : CheckResult} (hm : C10.Ev.add ta r ∈ storeEvs h) :
    ∃ p1 fid p2, h = p1 ++ Ev.stage ta fid r :: p2 := by
  simp only [storeEvs, List.mem_flatMap] at hm
  obtain ⟨x, hx, hxe⟩ := hm
  cases x with
  | stage t fid r' =>
    simp only [storeEv, List.mem_singleton, C10.Ev.add.injEq] at hxe
    obtain ⟨rfl, rfl⟩ := hxe
    obtain ⟨s, u, hs⟩ := List.append_of_mem hx
    exact ⟨s, fid, u, hs⟩
  | unstage t agreed => simp [storeEv] at hxe
  | gc t => simp [storeEv] at hxe
  | observe t out a => simp [storeEv] at hxe
  | runner e => simp [storeEv] at hxe
  | flow f sid ue ivs => simp [storeEv] at hxe

private theorem add_of_candTimes {r : CheckResult} {l : List C10.Ev} {ta : Nat}
    (h : ta ∈ C10.candTimes r l) : C10.Ev.add ta r ∈ l := by
  simp only [C10.candTimes, List.mem_filterMap] at h
  obtain ⟨x, hx, hxe⟩ := h
  have hxl : x ∈ l := (List.takeWhile_sublist _).subset hx
  cases x with
  | add t r' =>
    simp only [C10.addTime] at hxe
    split at hxe
    · rename_i heq
      simp only [Option.some.injEq] at hxe
      subst heq; subst hxe; exact hxl
    · cases hxe
  | remove t id => simp [C10.addTime] at hxe
  | gc t => simp [C10.addTime] at hxe
  | view t out => simp [C10.addTime] at hxe

private theorem mem_histOf : ∀ {evs : List C13.Ev} {r : CheckResult}, r ∈ C13.histOf evs →
    ∃ cid b o rs, C13.Ev.done cid b o ∈ evs ∧ o.res = some rs ∧ r ∈ rs
  | [], _, h => by simp [C13.histOf] at h
  | .start _ _ _ :: es, r, h => by
    obtain ⟨cid, b, o, rs, h1, h2, h3⟩ := mem_histOf (evs := es) (by simpa [C13.histOf] using h)
    exact ⟨cid, b, o, rs, List.mem_cons_of_mem _ h1, h2, h3⟩
  | .done cid b o :: es, r, h => by
    simp only [C13.histOf, List.mem_append] at h
    rcases h with h | h
    · cases hr : o.res with
      | none => rw [hr] at h; simp at h
      | some rs => rw [hr] at h; exact ⟨cid, b, o, rs, List.mem_cons_self, hr, by simpa using h⟩
    · obtain ⟨cid', b', o', rs, h1, h2, h3⟩ := mem_histOf (evs := es) h
      exact ⟨cid', b', o', rs, List.mem_cons_of_mem _ h1, h2, h3⟩

private theorem mem_donesOf {cid : Nat} : ∀ {evs : List C13.Ev} {d : List Payload × C13.BatchOut},
    d ∈ C13.donesOf cid evs → C13.Ev.done cid d.1 d.2 ∈ evs
  | [], _, h => by simp [C13.donesOf] at h
  | .start _ _ _ :: es, d, h => List.mem_cons_of_mem _ (mem_donesOf (evs := es) (by simpa [C13.donesOf] using h))
  | .done c b o :: es, d, h => by
    simp only [C13.donesOf] at h
    split at h
    · rename_i hc
      rcases List.mem_cons.mp h with h | h
      · subst h; subst hc; exact List.mem_cons_self
      · exact List.mem_cons_of_mem _ (mem_donesOf (evs := es) h)
    · exact List.mem_cons_of_mem _ (mem_donesOf (evs := es) h)

private theorem mem_hits {c : C13.Cache} {now : Nat} : ∀ {ps : List Payload} {r : CheckResult},
    r ∈ C13.hits c now ps → ∃ p ∈ ps, C13.hit c now p = some r
  | [], _, h => by simp [C13.hits] at h
  | p :: ps, r, h => by
    unfold C13.hits at h
    cases hh : C13.hit c now p with
    | none =>
      rw [hh] at h
      obtain ⟨q, hq, hqr⟩ := mem_hits (ps := ps) h
      exact ⟨q, List.mem_cons_of_mem _ hq, hqr⟩
    | some r' =>
      rw [hh] at h
      rcases List.mem_cons.mp h with h | h
      · subst h; exact ⟨p, List.mem_cons_self, hh⟩
      · obtain ⟨q, hq, hqr⟩ := mem_hits (ps := ps) h
        exact ⟨q, List.mem_cons_of_mem _ hq, hqr⟩

/-! ### helpers: conforming histories -/

private theorem conformsFrom_split (cfg : Cfg) : ∀ (a p : List Ev) (e : Ev) (b : List Ev),
    ConformsFrom cfg p (a ++ e :: b) → okAt cfg (p ++ a) e
  | [], p, e, b, h => by simpa [ConformsFrom] using h.1
  | x :: a, p, e, b, h => by
    have := conformsFrom_split cfg a (p ++ [x]) e b h.2
    simpa [List.append_assoc] using this

private theorem conformsFrom_prefix (cfg : Cfg) : ∀ (a p b : List Ev),
    ConformsFrom cfg p (a ++ b) → ConformsFrom cfg p a
  | [], _, _, _ => trivial
  | x :: a, p, b, h => ⟨h.1, conformsFrom_prefix cfg a (p ++ [x]) b h.2⟩

/-- every event of a conforming history is one the node can produce after the events before it -/
theorem Conforms.okAt {cfg : Cfg} {pre post : List Ev} {e : Ev} (h : Conforms cfg (pre ++ e :: post)) :
    okAt cfg pre e := by
  simpa using conformsFrom_split cfg pre [] e post h

/-- a prefix of a conforming history conforms -/
theorem Conforms.prefix {cfg : Cfg} {a b : List Ev} (h : Conforms cfg (a ++ b)) : Conforms cfg a :=
  conformsFrom_prefix cfg a [] b h

private theorem c10_conforms_skip (ttl : Nat) : ∀ (l : List C10.Ev) (s : C10.Store) (rest : List C10.Ev),
    (∀ x ∈ l, ∀ t out, x ≠ C10.Ev.view t out) → C10.Conforms ttl (C10.run ttl s l) rest →
    C10.Conforms ttl s (l ++ rest)
  | [], s, rest, _, h => by simpa [C10.run] using h
  | x :: l, s, rest, hnv, h => by
    refine ⟨?_, c10_conforms_skip ttl l _ rest (fun y hy => hnv y (List.mem_cons_of_mem _ hy))
      (by simpa [C10.run] using h)⟩
    cases x with
    | view t out => exact absurd rfl (hnv _ List.mem_cons_self t out)
    | add _ _ => trivial
    | remove _ _ => trivial
    | gc _ => trivial

/-- the store calls of a conforming node history are a conforming history of the store model (C10), so
everything Props/C10 proves about conforming histories (`conforms_spec`, …) holds of the node's store -/
theorem Conforms.store {cfg : Cfg} {h : List Ev} (hc : Conforms cfg h) :
    C10.Conforms cfg.ttl [] (storeEvs h) := by
  suffices hs : ∀ (rest pre : List Ev), ConformsFrom cfg pre rest →
      C10.Conforms cfg.ttl (storeAt cfg pre) (storeEvs rest) by
    simpa [storeAt, storeEvs, C10.run] using hs h [] hc
  intro rest
  induction rest with
  | nil => intro pre _; simp [storeEvs, C10.Conforms]
  | cons e rest ih =>
    intro pre hcf
    have hrest := ih (pre ++ [e]) hcf.2
    have hstep : storeAt cfg (pre ++ [e]) = C10.run cfg.ttl (storeAt cfg pre) (storeEv e) := by
      simp [storeAt, C10.run_append, storeEvs]
    rw [hstep] at hrest
    have hcons : storeEvs (e :: rest) = storeEv e ++ storeEvs rest := by simp [storeEvs]
    rw [hcons]
    cases e with
    | observe t out a => exact ⟨hcf.1, by simpa [storeEv, C10.run, C10.step] using hrest⟩
    | stage _ _ _ => exact c10_conforms_skip _ _ _ _ (by simp [storeEv]) hrest
    | unstage _ _ => exact c10_conforms_skip _ _ _ _ (by simp [storeEv]) hrest
    | gc _ => exact c10_conforms_skip _ _ _ _ (by simp [storeEv]) hrest
    | runner _ => exact c10_conforms_skip _ _ _ _ (by simp [storeEv]) hrest
    | flow _ _ _ _ => exact c10_conforms_skip _ _ _ _ (by simp [storeEv]) hrest

/-! ### (1) observation ⊆ view of the node's store -/

/-- **observed_from_store.**  Every performable of the observation an `observe` event produces is a result
the node's result store shows at that moment (`C10.view` of the store after the history before the
event) and is not filtered by the coordinator. -/
theorem observed_from_store (cfg : Cfg) (pre post : List Ev) (t : Nat) (out : List CheckResult) (a : ObsArgs)
    (hc : Conforms cfg (pre ++ .observe t out a :: post)) (o : Observation)
    (ho : observationOf (.observe t out a) = some o) :
    ∀ r ∈ o.performable, r ∈ C10.view cfg.ttl t (storeAt cfg pre) ∧ a.inflight r = false := by
  intro r hr
  simp only [observationOf, Option.some.injEq] at ho
  subst ho
  have hview : C10.ViewOf cfg.ttl t (storeAt cfg pre) out := hc.okAt
  simp only [C08.observe, C08.observationOf] at hr
  obtain ⟨h1, h2⟩ := C08.performables_subset _ _ _ _ _ _ r hr
  refine ⟨(List.Perm.mem_iff hview).mp ?_, h2⟩
  cases hp : a.prev with
  | none => rw [hp] at h1; exact h1
  | some p =>
    rw [hp] at h1
    simp only [C08.preBuild, C08.removeAgreed, ObsArgs.view] at h1
    exact (List.mem_filter.mp h1).1

/-! ### (2) view of the store ⊆ staged sinks of earlier flow runs -/

/-- **store_from_flows.**  Every result the store shows after a conforming history `pre` was handed to it by
an earlier `Add` of exactly that result (not older than the TTL), performed by the eligible post-processor
of an earlier flow run whose staged sink — `C12.process` on C13's return value — contained it. -/
theorem store_from_flows (cfg : Cfg) (pre : List Ev) (hc : Conforms cfg pre) (t : Nat) (r : CheckResult)
    (hr : r ∈ C10.view cfg.ttl t (storeAt cfg pre)) :
    ∃ p1 p2 ta fid flow sid ue ivs, pre = p1 ++ .stage ta fid r :: p2 ∧ t - ta ≤ cfg.ttl ∧
      p1[fid]? = some (.flow flow sid ue ivs) ∧
      r ∈ (flowSinks cfg (p1.take fid) flow sid ue ivs).staged := by
  obtain ⟨e, _, _, hfresh, hcand⟩ :=
    C10.view_excludes_expired cfg.ttl (storeEvs pre) t (C10.view cfg.ttl t (storeAt cfg pre))
      (List.Perm.refl _) r hr
  have hadd : C10.Ev.add e.addedAt r ∈ storeEvs pre := by
    simpa using add_of_candTimes hcand
  obtain ⟨p1, fid, p2, hsplit⟩ := stage_of_add hadd
  subst hsplit
  obtain ⟨flow, sid, ue, ivs, h1, h2⟩ := hc.okAt
  exact ⟨p1, p2, e.addedAt, fid, flow, sid, ue, ivs, rfl, hfresh, h1, h2⟩

/-! ### (3) staged sink ⊆ eligible successes of the runner's return value -/

/-- **staged_from_runner.**  A result in the staged sink of a flow run is a result with pipeline execution
state 0 and `Eligible = true` of the return value of the runner call the flow run post-processes (which
did not fail), and the flow is one with a result-store sink. -/
theorem staged_from_runner (cfg : Cfg) (pre : List Ev) (flow : C12.Flow) (sid : Nat) (ue : CheckResult → Bool)
    (ivs : List Int) (r : CheckResult) (h : r ∈ (flowSinks cfg pre flow sid ue ivs).staged) :
    ∃ ps R, callRet cfg pre sid = some (ps, R) ∧ R.err = false ∧ r ∈ R.values ∧
      r.pes = 0 ∧ r.eligible = true ∧ flow.stages = true := by
  unfold flowSinks at h
  cases hcr : callRet cfg pre sid with
  | none => rw [hcr] at h; simp at h
  | some x =>
    obtain ⟨ps, R⟩ := x
    rw [hcr] at h
    simp only [C12.process_routes, Option.bind_some, C12.preProcess] at h
    cases herr : R.err with
    | true => simp [runnerOf, herr] at h
    | false =>
      simp only [runnerOf, herr, Bool.false_eq_true, if_false] at h
      rw [C12.routing_staged] at h
      unfold C12.expectStaged at h
      split at h
      · rename_i hst
        simp only [List.mem_map, List.mem_filter] at h
        obtain ⟨x, ⟨hx, hse⟩, hxr⟩ := h
        have hmem : x.cr ∈ (toRes ivs R.values).map (·.cr) := List.mem_map_of_mem hx
        rw [toRes_cr] at hmem
        simp only [C12.Res.succEligible, Bool.and_eq_true, decide_eq_true_eq] at hse
        subst hxr
        exact ⟨ps, R, rfl, herr, hmem, hse.1, hse.2, hst⟩
      · simp at h

/-! ### (4) runner's return value ⊆ answers of the pipeline, now or earlier -/

/-- **runner_from_pipeline.**  Every result a runner call returns was answered by the underlying pipeline:
either for a batch of THIS call (a successful `done` of its call id after its look-up loop), or — a cache
hit — with execution state 0 for a batch of an EARLIER call of this node (a successful `done` before the
look-up loop). -/
theorem runner_from_pipeline (cfg : Cfg) (pre : List Ev) (sid : Nat) (ps : List Payload) (R : C13.Ret)
    (h : callRet cfg pre sid = some (ps, R)) :
    ∀ r ∈ R.values,
      (∃ cid now batch o rs, pre[sid]? = some (.runner (.start cid now ps)) ∧
          Ev.runner (.done cid batch o) ∈ pre.drop (sid + 1) ∧ o.res = some rs ∧ r ∈ rs) ∨
      (r.pes = 0 ∧ ∃ cid batch o rs,
          Ev.runner (.done cid batch o) ∈ pre.take sid ∧ o.res = some rs ∧ r ∈ rs) := by
  intro r hr
  unfold callRet at h
  split at h
  · rename_i cid now ps' hget
    simp only [Option.map_eq_some_iff, Prod.mk.injEq] at h
    obtain ⟨R', hm, rfl, rfl⟩ := h
    obtain ⟨out, order, k, hk, _, hord, hds, hR⟩ := C13.modelCall_explains _ _ _ _ _ _ _ hm
    rw [hR, C13.parallelCheck_ret _ _ _ _ _ _ k hk hord] at hr
    split at hr
    · simp at hr
    · simp only [List.mem_append] at hr
      rcases hr with hr | hr
      · -- served from the cache: an item of the cache left by the events before `sid`
        right
        obtain ⟨p, _, hp⟩ := mem_hits hr
        obtain ⟨e, he, hei⟩ := C13.hit_mem hp
        obtain ⟨_, hpes, hhist⟩ := C13.cacheAt_good cfg.expire (runnerEvs (pre.take sid)) e he
        rw [hei] at hpes hhist
        obtain ⟨cid', b, o, rs, h1, h2, h3⟩ := mem_histOf hhist
        exact ⟨hpes, cid', b, o, rs, mem_runnerEvs.mp h1, h2, h3⟩
      · -- answered for a batch of this call
        left
        simp only [C13.freshOf, List.mem_flatMap, List.mem_map] at hr
        obtain ⟨o, ⟨i, hi, rfl⟩, hro⟩ := hr
        cases hres : (out i).res with
        | none => rw [hres] at hro; simp at hro
        | some rs =>
          rw [hres] at hro
          have hd : ((C13.batches (cacheAt cfg (pre.take sid)) now ps').getD i [], out i) ∈
              C13.donesOf cid (runnerEvs (pre.drop (sid + 1))) := by
            rw [hds]; exact List.mem_map.mpr ⟨i, hi, rfl⟩
          have := mem_runnerEvs.mp (mem_donesOf hd)
          exact ⟨cid, now, _, out i, rs, hget, this, hres, by simpa using hro⟩
  · cases h

/-- in short: whatever a runner call returns was returned by the pipeline in the history so far -/
theorem runner_from_pipeline' (cfg : Cfg) (pre : List Ev) (sid : Nat) (ps : List Payload) (R : C13.Ret)
    (h : callRet cfg pre sid = some (ps, R)) : ∀ r ∈ R.values, PipelineReturned pre r := by
  intro r hr
  rcases runner_from_pipeline cfg pre sid ps R h r hr with ⟨cid, _, b, o, rs, _, h1, h2, h3⟩ | ⟨_, cid, b, o, rs, h1, h2, h3⟩
  · exact ⟨cid, b, o, rs, List.mem_of_mem_drop h1, h2, h3⟩
  · exact ⟨cid, b, o, rs, List.mem_of_mem_take h1, h2, h3⟩

/-! ### (5) the composition -/

/-- the pipeline log only grows -/
theorem ReturnedEligible.mono {a b : List Ev} {r : CheckResult} (hsub : ∀ e ∈ a, e ∈ b)
    (h : ReturnedEligible a r) : ReturnedEligible b r := by
  obtain ⟨⟨cid, batch, o, rs, h1, h2, h3⟩, hp, he⟩ := h
  exact ⟨⟨cid, batch, o, rs, hsub _ h1, h2, h3⟩, hp, he⟩

/-- **honest_obs_from_pipeline.**  For every conforming node history and every observation produced in it:
every performable of that observation was returned by this node's own check pipeline — the identical
result, every field — as an eligible result with execution state 0, EARLIER in the history. -/
theorem honest_obs_from_pipeline (cfg : Cfg) (h : List Ev) (hc : Conforms cfg h)
    (pre : List Ev) (e : Ev) (post : List Ev) (hs : h = pre ++ e :: post)
    (o : Observation) (ho : observationOf e = some o) :
    ∀ r ∈ o.performable, ReturnedEligible pre r := by
  intro r hr
  subst hs
  cases e with
  | observe t out a =>
    obtain ⟨hview, _⟩ := observed_from_store cfg pre post t out a hc o ho r hr
    obtain ⟨p1, p2, ta, fid, flow, sid, ue, ivs, hsplit, _, _, hst⟩ :=
      store_from_flows cfg pre hc.prefix t r hview
    obtain ⟨ps, R, hcr, _, hrv, hpes, hel, _⟩ := staged_from_runner cfg _ flow sid ue ivs r hst
    have hret := runner_from_pipeline' cfg _ sid ps R hcr r hrv
    refine ReturnedEligible.mono ?_ ⟨hret, hpes, hel⟩
    intro x hx
    rw [hsplit]
    exact List.mem_append_left _ (List.mem_of_mem_take hx)
  | runner _ => simp [observationOf] at ho
  | flow _ _ _ _ => simp [observationOf] at ho
  | stage _ _ _ => simp [observationOf] at ho
  | unstage _ _ => simp [observationOf] at ho
  | gc _ => simp [observationOf] at ho

/-! ### (6) `HonestObs` discharged -/

/-- **honestObs_discharged.**  Give every member `i` a node history `hist i` (its own configuration
`cfg i`).  If, for every non-faulty observer of the round,
  * `hconf`: its history is one the node model produces (`Node.Conforms`), and
  * `hattr`: the observation attributed to it in this round IS the observation of an `observe` event of
    its history (`Node.Produced`) — the link between libocr's attribution and the node, not provable
    inside a model of one node,
then `C09.HonestObs` holds with `found i r := ` "`r` was returned eligible, state 0, by member `i`'s own
pipeline in `i`'s history". -/
theorem honestObs_discharged (ctx : Ctx) (lim : Limits) (aobs : C09.AttrObs) (faulty : Nat → Bool)
    (cfg : Nat → Cfg) (hist : Nat → List Ev)
    (hconf : ∀ a ∈ aobs, faulty a.1 = false → Conforms (cfg a.1) (hist a.1))
    (hattr : ∀ a ∈ aobs, faulty a.1 = false → ∀ o, a.2 = some o → Produced (hist a.1) o) :
    C09.HonestObs ctx lim aobs faulty (fun i r => ReturnedEligible (hist i) r) := by
  intro a ha hfa o hao r hr
  obtain ⟨pre, e, post, hs, hoe⟩ := hattr a ha hfa o hao
  have := honest_obs_from_pipeline (cfg a.1) (hist a.1) (hconf a ha hfa) pre e post hs o hoe r hr
  exact this.mono (fun x hx => by rw [hs]; exact List.mem_append_left _ hx)

/-- **Network safety, round level, without the `HonestObs` hypothesis.**  With at most `F` faulty observers,
every upkeep inside every report of the round was returned eligible (state 0; identical in every field, at
the same check block) by the check pipeline of a non-faulty member, earlier in that member's own history,
and was vouched by `F+1` validated observations.  Hypotheses left: the fault bound `hf`, and for non-faulty
observers `hconf` (the node behaves as the node model) and `hattr` (attribution, see above). -/
theorem net_safety_round_linked (ctx : Ctx) (lim : Limits) (prev : Outcome) (aobs : C09.AttrObs)
    (πres : List String) (πblk : List BlockKey) (rcfg : C04.Cfg) (faulty : Nat → Bool)
    (cfg : Nat → Cfg) (hist : Nat → List Ev)
    (hf : (aobs.filter (fun a => faulty a.1)).length ≤ ctx.F)
    (hconf : ∀ a ∈ aobs, faulty a.1 = false → Conforms (cfg a.1) (hist a.1))
    (hattr : ∀ a ∈ aobs, faulty a.1 = false → ∀ o, a.2 = some o → Produced (hist a.1) o) :
    ∀ rep ∈ C04.reports rcfg (outcome ctx lim prev (aobs.map (·.2)) πres πblk).agreed, ∀ u ∈ rep,
      (∃ i, faulty i = false ∧ ReturnedEligible (hist i) u) ∧
      ctx.F + 1 ≤ C01.votes (validObs ctx lim (aobs.map (·.2))) u :=
  C09.net_safety_round ctx lim prev aobs πres πblk rcfg faulty _ hf
    (honestObs_discharged ctx lim aobs faulty cfg hist hconf hattr)

/-! ### non-vacuity: a node history the model produces, with a non-empty observation

Call 0 checks `a` (eligible) and `b` (not eligible) in one batch; the final conditional flow stages `a`;
call 1 asks for `a` again at the same check block and is served from the runner's cache (no batch, no `done`),
the log-trigger flow stages it once more (same block: the store keeps the first entry); the previous outcome
removes nothing; the collector runs; `Observation` views `[a]` and reports it. -/

private def tr9 : Trigger := { blockNumber := 9, blockHash := "h", ext := none }
private def pl (w : String) : Payload := { upkeepID := "u" ++ w, trigger := tr9, workID := w }
private def rs (w : String) (el : Bool) : CheckResult :=
  { pes := 0, retryable := false, eligible := el, reason := 0, upkeepID := "u" ++ w, trigger := tr9, workID := w,
    gas := 5, performData := "01", fastGasWei := some 1, linkNative := some 1 }

private def args0 : ObsArgs :=
  { ctx := { F := 1, utg := fun _ => .condition, wg := fun u _ => u, key := id, uid := fun r => r.workID }
    lim := { obsPerformables := 100, obsLogProposals := 5, obsCondProposals := 5, obsBlockHistory := 256,
             agreedLimit := 100, perRound := 50, roundHistory := 20 }
    maxLen := 1000000, prev := some { agreed := [rs "z" true], surfaced := [] }
    logProps := [], condProps := [], hist := [], inflight := fun _ => false, logChoice := [], condChoice := []
    si := { base := 100, encLen := fun _ => 300 } }

private def cfg0 : Cfg := { expire := 0, ttl := 1000 }

private def h0 : List Ev :=
  [ .runner (.start 0 1 [pl "a", pl "b"]),
    .runner (.done 0 [pl "a", pl "b"] { doneAt := 2, res := some [rs "a" true, rs "b" false] }),
    .flow .conditionalFinal 0 (fun _ => false) [],
    .stage 5 2 (rs "a" true),
    .runner (.start 1 6 [pl "a"]),
    .flow .logTrigger 4 (fun _ => false) [7],
    .stage 8 5 (rs "a" true),
    .unstage 9 [rs "z" true],
    .gc 10,
    .observe 11 [rs "a" true] args0 ]

/-- the second call is answered from the cache: it returns `a` without any pipeline call of its own -/
example : callRet cfg0 (h0.take 5) 4 = some ([pl "a"], { values := [rs "a" true], err := false }) := by decide

private def o0 : Observation := { performable := [rs "a" true], proposals := [], blockHistory := [] }

/-- `Conforms` (hypothesis of `honest_obs_from_pipeline` / `honestObs_discharged`) is met by `h0` -/
private theorem h0_conforms : Conforms cfg0 h0 := by
  refine ⟨trivial, trivial, trivial, ?_, trivial, trivial, ?_, trivial, trivial, ?_, trivial⟩
  · exact ⟨.conditionalFinal, 0, _, [], rfl, by decide⟩
  · exact ⟨.logTrigger, 4, _, [7], rfl, by decide⟩
  · show List.Perm _ _
    decide

/-- `Produced`: the last event of `h0` produces a non-empty observation -/
private theorem h0_produced : Produced h0 o0 := by
  refine ⟨h0.take 9, .observe 11 [rs "a" true] args0, [], rfl, ?_⟩
  have hc : C08.canonical args0.ctx (C08.removeAgreed { agreed := [rs "z" true], surfaced := [] } [rs "a" true])
      args0.inflight = [rs "a" true] := by
    have hcand : C08.candidates (C08.removeAgreed { agreed := [rs "z" true], surfaced := [] } [rs "a" true])
        args0.inflight = [rs "a" true] := by decide
    unfold C08.canonical sortByKey
    rw [hcand]
    exact List.mergeSort_singleton _
  have hp : C08.performablesOf args0.ctx args0.lim args0.maxLen
      (C08.removeAgreed { agreed := [rs "z" true], surfaced := [] } [rs "a" true]) args0.inflight args0.si
        = [rs "a" true] := by
    unfold C08.performablesOf
    rw [hc]
    decide
  simp only [observationOf, Option.some.injEq, C08.observe, C08.observationOf]
  show Observation.mk (C08.performablesOf args0.ctx args0.lim args0.maxLen
      (C08.removeAgreed { agreed := [rs "z" true], surfaced := [] } [rs "a" true]) args0.inflight args0.si) _ _ = _
  rw [hp]
  decide

/-- the conclusion of `honest_obs_from_pipeline` on `h0`, computed directly: `a` was answered eligible by the
pipeline in the `done` event of call 0, before the observation -/
example : Conforms cfg0 h0 ∧ Produced h0 o0 ∧ ReturnedEligible (h0.take 9) (rs "a" true) := by
  refine ⟨h0_conforms, h0_produced, ?_⟩
  exact ⟨⟨0, [pl "a", pl "b"], { doneAt := 2, res := some [rs "a" true, rs "b" false] }, _, by simp [h0], rfl, by simp⟩,
    rfl, rfl⟩

/-- the hypotheses of `honestObs_discharged` / `net_safety_round_linked` are met by a 3-observer round in which
members 0 and 1 run `h0` and member 2 is faulty (undecodable bytes) -/
example :
    let aobs : C09.AttrObs := [(0, some o0), (1, some o0), (2, none)]
    let faulty : Nat → Bool := fun i => i == 2
    (aobs.filter (fun a => faulty a.1)).length ≤ args0.ctx.F ∧
    (∀ a ∈ aobs, faulty a.1 = false → Conforms cfg0 h0) ∧
    (∀ a ∈ aobs, faulty a.1 = false → ∀ o, a.2 = some o → Produced h0 o) ∧
    C09.HonestObs args0.ctx args0.lim aobs faulty (fun _ r => ReturnedEligible h0 r) := by
  intro aobs faulty
  have hattr : ∀ a ∈ aobs, faulty a.1 = false → ∀ o, a.2 = some o → Produced h0 o := by
    intro a ha _ o hao
    simp only [aobs, List.mem_cons, List.not_mem_nil, or_false] at ha
    rcases ha with rfl | rfl | rfl
    · cases hao; exact h0_produced
    · cases hao; exact h0_produced
    · cases hao
  exact ⟨by decide, fun _ _ _ => h0_conforms, hattr,
    honestObs_discharged args0.ctx args0.lim aobs faulty (fun _ => cfg0) (fun _ => h0) (fun _ _ _ => h0_conforms) hattr⟩

/-- a result that never went through a flow cannot be staged: the `stage` event is not one the node produces -/
example : ¬ Conforms cfg0 [ .runner (.start 0 1 [pl "a"]), .stage 5 0 (rs "a" true) ] := by
  intro h
  obtain ⟨_, ⟨_, _, _, _, h1, _⟩, _⟩ := h
  simp at h1

end AutoVerif.Node
