import AutoVerif.Props.C17
import AutoVerif.Spec.C17Plugin
/-
C17 through the plugin (pkg/v2/ocr.go, pkg/v2/observer/polling/observer.go around the coordinator).

* A history of plugin-level operations leaves the coordinator in the state of the coordinator-level history it
  flattens to: every key of every accepted report is registered by `Accept`, in report order, up to the first key that
  does not parse (`prun_coord_eq_run_flatten`, `shouldAccept_eq_run`); heads, observes, reports and transmit questions
  change nothing.
* Inside the regime of Props/C17 (canonical block keys, one lockout window) every answer is the one the history
  prescribes (`pout_eq_expOut`): `Observe()` returns exactly the staged ids whose lockout is not running — asked anew on
  every call, whatever was answered for the same head before; `Report()` checks exactly the observed keys whose lockout
  is not running; `ShouldTransmitAcceptedReport` is true iff a key of the report is accepted and without log.
* A poll on which the log provider fails (error of any kind, or a panic contained by `safeCheckLogs`) leaves the
  state of the logs `checkLogs` got through before the failure (`failedPoll_state`), and the timer is re-armed all the
  same (`nextPoll_zero`): the model's poller asks its provider every cadence and therefore satisfies the regularity
  clause "at least every 2 s" on every interval (`pollStats_regular`).
* `pspec_model`: the plugin-level Spec predicate holds of the model's own answers for every input.
-/
namespace AutoVerif.C17

/-! ### accepted reports register every key -/

private theorem run_append (cfg : Cfg) (s : State) (h1 h2 : List (Nat × Op)) :
    run cfg s (h1 ++ h2) = run cfg (run cfg s h1) h2 := by
  induction h1 generalizing s with
  | nil => rfl
  | cons p h1 ih => obtain ⟨t, op⟩ := p; simp only [List.cons_append, run, ih]

/-- the accept loop is `Accept` on the keys in order, up to and including the first that does not parse;
    it reports an error iff some key does not parse -/
theorem acceptLoop_eq_run (cfg : Cfg) (s : State) (now : Nat) (keys : List Str) :
    (acceptLoop cfg s now keys).1 = run cfg s ((acceptOps keys).map fun op => (now, op)) ∧
    (acceptLoop cfg s now keys).2 = keys.any (fun k => (splitUpkeepKey k).isNone) := by
  induction keys generalizing s with
  | nil => simp [acceptLoop, acceptOps, run]
  | cons k ks ih =>
    cases hs : splitUpkeepKey k with
    | none => simp [acceptLoop, acceptOps, hs, run, step, accept]
    | some p =>
      obtain ⟨ih1, ih2⟩ := ih (accept cfg s now k)
      simp [acceptLoop, acceptOps, hs, run, step, ih1, ih2]

/-- `ShouldAcceptFinalizedReport`: state and answer -/
theorem shouldAccept_eq_run (cfg : Cfg) (s : State) (now : Nat) (keys : List Str) :
    (shouldAccept cfg s now keys).1 = run cfg s ((flat (.acceptReport keys)).map fun op => (now, op)) ∧
    (shouldAccept cfg s now keys).2 = expAccept keys := by
  unfold shouldAccept expAccept flat
  by_cases hk : keys = []
  · subst hk; simp [acceptOps, run]
  · obtain ⟨h1, h2⟩ := acceptLoop_eq_run cfg s now keys
    simp [hk, h1, h2]

/-- when every key parses, every key of the report is accepted -/
theorem acceptOps_all (keys : List Str) (h : ∀ k ∈ keys, (splitUpkeepKey k).isSome = true) :
    acceptOps keys = keys.map Op.accept := by
  induction keys with
  | nil => rfl
  | cons k ks ih =>
    have hk := h k (by simp)
    simp [acceptOps, hk, ih (fun k' hk' => h k' (List.mem_cons_of_mem _ hk'))]

private theorem pstep_coord (cfg : Cfg) (ps : PState) (t : Nat) (pop : POp) :
    (pstep cfg ps t pop).coord = run cfg ps.coord ((flat pop).map fun op => (t, op)) ∧
    (pstep cfg ps t pop).stage = stageStep ps.stage pop := by
  cases pop with
  | co op => simp [pstep, flat, run, stageStep]
  | acceptReport keys => exact ⟨(shouldAccept_eq_run cfg ps.coord t keys).1, rfl⟩
  | head b a e => simp [pstep, flat, run, stageStep]
  | observe => simp [pstep, flat, run, stageStep]
  | transmit ks => simp [pstep, flat, run, stageStep]
  | report b ids => simp [pstep, flat, run, stageStep]
  | failedPoll w performs stales =>
    refine ⟨?_, rfl⟩
    cases w <;> simp [pstep, flat, failedOps, checkLogsFailing, checkLogs, run] <;> rfl

/-- the coordinator after a plugin-level history is the coordinator after the flattened history -/
theorem prun_coord_eq_run_flatten (cfg : Cfg) (ps : PState) (h : List (Nat × POp)) :
    (pouts cfg ps h).2.coord = run cfg ps.coord (flatten h) := by
  induction h generalizing ps with
  | nil => rfl
  | cons p h ih =>
    obtain ⟨t, pop⟩ := p
    simp only [pouts, flatten, run_append, ih, (pstep_coord cfg ps t pop).1]

/-! ### every answer is the one the history prescribes -/

private theorem passes_eq (cfg : Cfg) (t0 now : Nat) (pre : List (Nat × Op))
    (hw : inWindow cfg t0 pre now = true) (hc : ∀ p ∈ pre, opCanon p.2 = true) (key : Str) (hk : probeCanon key = true) :
    passes (run cfg State.init pre) now key = expPasses (ghost cfg (pre.map (·.2))) key := by
  unfold passes expPasses
  rw [(answers_eq_expected cfg t0 now pre hw hc).1 key hk]

private theorem observationOk_take (ids : List Str) : observationOk ids (ids.take 1) = true := by
  cases ids with
  | nil => rfl
  | cons x xs => simp [observationOk]

theorem outOk_self (pop : POp) (e : POut) (h : e.pick = match pop with | .observe => e.ids.take 1 | _ => []) :
    outOk pop e e = true := by
  unfold outOk
  cases pop <;> simp_all [observationOk_take]

/-- the model's answer to an operation is the prescribed one as soon as `IsPending` is the prescribed one for the keys the
    operation asks about and `IsTransmissionConfirmed` for every key -/
private theorem pout_eq_expOut_of (cfg : Cfg) (pre : List (Nat × Op)) (st : Stage) (now : Nat) (pop : POp)
    (hpass : ∀ key ∈ readKeys st pop, passes (run cfg State.init pre) now key = expPasses (ghost cfg (pre.map (·.2))) key)
    (hconf : ∀ key, isConfirmed (run cfg State.init pre) now key = expConfirmed (ghost cfg (pre.map (·.2))) key) :
    pout cfg { coord := run cfg State.init pre, stage := st } now pop = expOut (ghost cfg (pre.map (·.2))) st pop := by
  cases pop with
  | co op => rfl
  | head b a e => rfl
  | failedPoll w performs stales => rfl
  | acceptReport keys =>
    simp only [pout, expOut, (shouldAccept_eq_run cfg _ now keys).2]
  | observe =>
    have : observeIds (run cfg State.init pre) now st = expObserve (ghost cfg (pre.map (·.2))) st := by
      unfold observeIds expObserve
      apply List.filter_congr
      intro id hid
      exact hpass _ (by simp only [readKeys, List.mem_map]; exact ⟨id, hid, rfl⟩)
    simp only [pout, expOut, this]
  | transmit keys =>
    have : shouldTransmit (run cfg State.init pre) now keys = expTransmit (ghost cfg (pre.map (·.2))) keys := by
      unfold shouldTransmit expTransmit
      simp only [hconf]
    simp only [pout, expOut, this]
  | report b ids =>
    have : reportKeys (run cfg State.init pre) now b ids = expReport (ghost cfg (pre.map (·.2))) b ids := by
      unfold reportKeys expReport
      congr 1
      apply List.filter_congr
      intro key hkey
      exact hpass _ (by simpa [readKeys] using hkey)
    simp only [pout, expOut, this]

/-- inside the regime the model's answer to every operation is the prescribed one -/
theorem pout_eq_expOut (cfg : Cfg) (pre : List (Nat × Op)) (st : Stage) (now : Nat) (pop : POp)
    (hr : regime cfg pre now (readKeys st pop) = true) :
    pout cfg { coord := run cfg State.init pre, stage := st } now pop = expOut (ghost cfg (pre.map (·.2))) st pop := by
  simp only [regime, Bool.and_eq_true, List.all_eq_true] at hr
  obtain ⟨⟨hc, hp⟩, hw⟩ := hr
  have hcan : ∀ p ∈ pre, opCanon p.2 = true := fun p hp' => hc p hp'
  exact pout_eq_expOut_of cfg pre st now pop (fun key hk => passes_eq cfg _ now pre hw hcan key (hp key hk))
    (answers_eq_expected cfg _ now pre hw hcan).2

/-- … and over several lockout windows: if no lock had run out when an operation of `pre` was processed and every id the
    operation asks about was never blocked or changed its blocking state at most one window ago, `Observe()`, `Report()`'s
    filter and `ShouldTransmitAcceptedReport` answer what the whole history prescribes (`lockout_renewed`) -/
theorem pout_eq_expOut_live (cfg : Cfg) (pre : List (Nat × Op)) (st : Stage) (now : Nat) (pop : POp) (tg : TGhost)
    (hr : liveRegime cfg pre now (readKeys st pop) = some tg)
    (hl : (readKeys st pop).all (probeLive cfg.window tg now) = true) :
    pout cfg { coord := run cfg State.init pre, stage := st } now pop = expOut (ghost cfg (pre.map (·.2))) st pop := by
  obtain ⟨_, a1, a2⟩ := lockout_renewed cfg pre now _ tg hr
  simp only [List.all_eq_true] at hl
  refine pout_eq_expOut_of cfg pre st now pop (fun key hk => ?_) a2
  unfold passes expPasses
  rw [a1 key hk (hl key hk)]

/-- `Observe()` — on every call, whatever it answered for the same staged head before — returns exactly the staged
    ids whose lockout is not running according to the history (no locked id leaks, no free id is withheld) -/
theorem observe_excludes_locked (cfg : Cfg) (pre : List (Nat × Op)) (st : Stage) (now : Nat)
    (hr : regime cfg pre now (readKeys st .observe) = true) (id : Str) :
    id ∈ observeIds (run cfg State.init pre) now st ↔
      id ∈ st.ids ∧ expPending (ghost cfg (pre.map (·.2))) (makeUpkeepKey st.block id) = (false, false) := by
  have h := pout_eq_expOut cfg pre st now .observe hr
  simp only [pout, expOut, POut.mk.injEq] at h
  rw [h.2.2.2.1]
  unfold expObserve expPasses
  simp only [List.mem_filter, Bool.not_eq_true', Bool.or_eq_false_iff]
  constructor
  · rintro ⟨a, b, c⟩; exact ⟨a, Prod.ext b c⟩
  · rintro ⟨a, b⟩; rw [b]; exact ⟨a, rfl, rfl⟩

/-- `Report()` hands the runner exactly the observed keys whose lockout is not running -/
theorem report_excludes_locked (cfg : Cfg) (pre : List (Nat × Op)) (st : Stage) (now : Nat) (b : Str) (ids : List Str)
    (hr : regime cfg pre now (readKeys st (.report b ids)) = true) (key : Str) :
    key ∈ reportKeys (run cfg State.init pre) now b ids ↔
      key ∈ ids.map (makeUpkeepKey b) ∧ expPending (ghost cfg (pre.map (·.2))) key = (false, false) := by
  have h := pout_eq_expOut cfg pre st now (.report b ids) hr
  simp only [pout, expOut, POut.mk.injEq] at h
  rw [h.2.2.2.1]
  unfold expReport expPasses
  simp only [List.mem_eraseDups, List.mem_filter, Bool.not_eq_true', Bool.or_eq_false_iff]
  constructor
  · rintro ⟨a, b, c⟩; exact ⟨a, Prod.ext b c⟩
  · rintro ⟨a, b⟩; rw [b]; exact ⟨a, rfl, rfl⟩

/-- `ShouldTransmitAcceptedReport` is true exactly when some key of the report is accepted and has no log -/
theorem transmit_iff_unconfirmed_key (cfg : Cfg) (pre : List (Nat × Op)) (st : Stage) (now : Nat) (keys : List Str)
    (hne : keys ≠ []) (hr : regime cfg pre now [] = true) :
    (shouldTransmit (run cfg State.init pre) now keys).1 = true ↔
      ∃ k ∈ keys, k ∈ (ghost cfg (pre.map (·.2))).accepted ∧ k ∉ (ghost cfg (pre.map (·.2))).logged := by
  have h := pout_eq_expOut cfg pre st now (.transmit keys) hr
  simp only [pout, expOut, POut.mk.injEq] at h
  rw [h.1]
  simp [expTransmit, hne, expConfirmed]

/-! ### non-vacuity -/

private def exQ (k : String) : Op := .accept (lit k)
private def exPre : List (Nat × Op) :=
  [(10, exQ "3|1"), (20, exQ "5|1"), (30, .perform { key := lit "3|1", transmit := lit "4", confs := 0 })]
private def exSt : Stage := { block := lit "7", ids := [lit "1", lit "2"] }
private def exC : Cfg := offchainCfg 0 (-1)

/-- the hypotheses of `pout_eq_expOut` / `observe_excludes_locked` / `report_excludes_locked` /
    `transmit_iff_unconfirmed_key` are met by: accept 3|1, accept 5|1 while upkeep 1 is locked, only the log of 3|1 —
    and there upkeep 1 stays out of observation and report, and the report 5|1 stays worth transmitting -/
example : regime exC exPre 40 (readKeys exSt .observe) = true ∧
    regime exC exPre 40 (readKeys exSt (.report (lit "6") [lit "1", lit "2"])) = true ∧ regime exC exPre 40 [] = true ∧
    observeIds (run exC State.init exPre) 40 exSt = [lit "2"] ∧
    reportKeys (run exC State.init exPre) 40 (lit "6") [lit "1", lit "2"] = [lit "6|2"] ∧
    shouldTransmit (run exC State.init exPre) 40 [lit "5|1"] = (true, false) ∧
    shouldTransmit (run exC State.init exPre) 40 [lit "3|1"] = (false, false) := by decide

/-- the same prefix reached through the plugin: two finalized reports and a log -/
example : flatten [(10, .acceptReport [lit "3|1"]), (15, .head (lit "7") [lit "1", lit "2"] [lit "1", lit "2"]), (16, .observe),
      (20, .acceptReport [lit "5|1"]), (30, .co (.perform { key := lit "3|1", transmit := lit "4", confs := 0 }))] = exPre := by
  decide

/-! ### the plugin-level predicate holds of the model -/

private theorem readsOk_model (cfg : Cfg) (h : List (Nat × POp)) (pre : List (Nat × Op)) (st : Stage) :
    readsOk cfg h pre st (pouts cfg { coord := run cfg State.init pre, stage := st } h).1 = true := by
  induction h generalizing pre st with
  | nil => rfl
  | cons p h ih =>
    obtain ⟨t, pop⟩ := p
    simp only [pouts, readsOk, Bool.and_eq_true]
    constructor
    · unfold readOk
      rw [Bool.and_eq_true]
      constructor
      · by_cases hr : regime cfg pre t (readKeys st pop) = true
        · rw [pout_eq_expOut cfg pre st t pop hr]
          simp only [hr, Bool.not_true, Bool.false_or]
          apply outOk_self
          cases pop <;> rfl
        · simp [hr]
      · unfold liveReadOk
        cases hr : liveRegime cfg pre t (readKeys st pop) with
        | none => rfl
        | some tg =>
          simp only
          by_cases hl : (readKeys st pop).all (probeLive cfg.window tg t) = true
          · rw [pout_eq_expOut_live cfg pre st t pop tg hr hl]
            simp only [hl, Bool.not_true, Bool.false_or]
            apply outOk_self
            cases pop <;> rfl
          · simp [hl]
    · have hs := pstep_coord cfg { coord := run cfg State.init pre, stage := st } t pop
      have : pstep cfg { coord := run cfg State.init pre, stage := st } t pop =
          { coord := run cfg State.init (pre ++ (flat pop).map fun op => (t, op)), stage := stageStep st pop } := by
        cases hq : pstep cfg { coord := run cfg State.init pre, stage := st } t pop with
        | mk c s' =>
          rw [hq] at hs
          simp only at hs
          rw [hs.1, hs.2, run_append]
      rw [this]
      exact ih _ _

/-! ### failing log providers and the background poller -/

/-- a poll on which `PerformLogs` fails changes nothing; one on which `StaleReportLogs` fails has processed exactly the
    perform logs (and, if it returned logs with the error, those too) — in every case the history goes on from there -/
theorem failedPoll_state (cfg : Cfg) (s : State) (now : Nat) (performs stales : List Log) (w : PollFail) :
    checkLogsFailing cfg s now performs stales w = run cfg s ((failedOps w performs stales).map fun op => (now, op)) := by
  cases w <;> simp [failedOps, checkLogsFailing, checkLogs, run] <;> rfl

/-- the timer is re-armed after every poll, failed or not: with a provider that answers at once the next poll is one
    cadence later -/
theorem nextPoll_zero (t : Nat) : nextPoll t 0 = t + cadenceNs := by
  simp [nextPoll, cadenceNs]

/-- the poller of the model is regular on every interval -/
theorem pollStats_regular (endT : Nat) : regular endT (pollStats endT) = true := by
  unfold regular pollStats twoSeconds cadenceNs
  by_cases h0 : endT / 1000000000 = 0
  · simp only [h0, if_true, decide_eq_true_eq]; omega
  · by_cases h2 : endT / 1000000000 < 2
    · simp only [h0, h2, if_true, if_false, Bool.and_eq_true, decide_eq_true_eq]; omega
    · simp only [h0, h2, if_false, Bool.and_eq_true, decide_eq_true_eq]; omega

example : pollStats 5137000000 = { n := 5, first := 1000000000, last := 5000000000, maxGap := 1000000000 } ∧
    regular 5137000000 { n := 2, first := 1000000000, last := 2000000000, maxGap := 1000000000 } = false := by decide

/-- `pspec_model`: for every configuration, probes and executions through the plugin, the plugin-level C17
    predicate evaluated on the model's own answers (and the model's poller) is true -/
theorem pspec_model (cfg : Cfg) (probes ckeys : List Str) (runs : List PRun) (ends : List Nat) :
    pspec cfg probes ckeys runs ((runs.map PRun.toRun).map (modelRun cfg probes ckeys))
      (runs.map fun r => (pouts cfg PState.init r.ops).1) ends (ends.map pollStats) = true := by
  unfold pspec
  rw [Bool.and_eq_true, Bool.and_eq_true]
  refine ⟨⟨spec_model cfg probes ckeys _, ?_⟩, ?_⟩
  · apply zipAll_map_self
    intro r _
    exact readsOk_model cfg r.ops [] Stage.init
  · apply zipAll_map_self
    intro e _
    exact pollStats_regular e

end AutoVerif.C17
