import AutoVerif.Props.C08
import AutoVerif.Props.C02Shuffle
/-
C08Shuffle — the "shuffle injective on the held work ids" hypothesis of the C08 theorems, discharged for the real
shuffle (`Model/Shuffle.lean`, `Shuffle.roundKey_injective`): when the round's sort key is `ShuffleString` under the
round's key — whatever swap calls `rand.Shuffle` makes for it — two nodes holding the same candidates, one result per
work id, send the same performables.  No assumption about the shuffle remains in this statement.
-/
namespace AutoVerif.C08
open AutoVerif.Outcome AutoVerif.Shuffle

/-- **insertion order is irrelevant under the real shuffle** -/
theorem insertion_order_irrelevant_real_shuffle (ctx : Ctx) (sw : Nat → List (Nat × Nat)) (hkey : ctx.key = roundKey sw)
    (lim : Limits) (maxLen : Nat) (s₁ s₂ : List CheckResult) (i₁ i₂ : CheckResult → Bool) (si : SizeInfo)
    (hp : (candidates s₁ i₁).Perm (candidates s₂ i₂))
    (hn : ((candidates s₁ i₁).map (·.workID)).Nodup) :
    performablesOf ctx lim maxLen s₁ i₁ si = performablesOf ctx lim maxLen s₂ i₂ si :=
  insertion_order_irrelevant ctx lim maxLen s₁ s₂ i₁ i₂ si hp
    (key_separates ctx _ hn (fun a _ b _ h => roundKey_injective sw _ _ (by rw [hkey] at h; exact h)))

/-- … and with the byte limit cutting at different places, one list is a prefix of the other -/
theorem same_candidates_prefix_comparable_real_shuffle (ctx : Ctx) (sw : Nat → List (Nat × Nat)) (hkey : ctx.key = roundKey sw)
    (lim : Limits) (maxLen : Nat) (s₁ s₂ : List CheckResult) (i₁ i₂ : CheckResult → Bool) (si₁ si₂ : SizeInfo)
    (hp : (candidates s₁ i₁).Perm (candidates s₂ i₂))
    (hn : ((candidates s₁ i₁).map (·.workID)).Nodup) :
    ∃ (c : List CheckResult) (k₁ k₂ : Nat), performablesOf ctx lim maxLen s₁ i₁ si₁ = c.take k₁ ∧
      performablesOf ctx lim maxLen s₂ i₂ si₂ = c.take k₂ :=
  same_candidates_prefix_comparable ctx lim maxLen s₁ s₂ i₁ i₂ si₁ si₂ hp
    (key_separates ctx _ hn (fun a _ b _ h => roundKey_injective sw _ _ (by rw [hkey] at h; exact h)))

end AutoVerif.C08
