import AutoVerif.Props.C15
import AutoVerif.Model.Outcome
import AutoVerif.Drv.Round
/-
C15Link — the two models of the validation code of pkg/v3/observation.go and
pkg/v3/outcome.go are the same function.

  * `AutoVerif.Outcome.validCheckResult / validProposal / validObservation /
    validOutcome` (Model/Outcome.lean): one Boolean conjunction, parameters in
    the records `Outcome.Ctx` and `Outcome.Limits`; used by the round model
    (`Outcome.validObs`, `Outcome.outcome`; properties C01–C05, C08, C09).
  * `AutoVerif.C15.validateCheckResult / validateProposal / validateObservation
    / validateOutcome` (Model/C15.lean): the Go control flow, check by check,
    answering the first error site (`Except Rule Unit`); parameters `utg`, `wg`
    and the regenerated constants `AutoVerif.Gen.*`; used by the wire-format
    model (`decodeObservation`, `decodeOutcome`; property C15).

Both work on the shared value types of Model/Types.lean, so no conversion of
values is needed: the statements below are about the SAME `o`.

Bridge between the parameter records: `genLimits` (the `Outcome.Limits` made of
the `Gen` constants; it is the record the driver passes, `genLimits_eq_driver`)
and `mkCtx` (an `Outcome.Ctx` from C15's `utg`, `wg` and arbitrary other
components).  The theorems are stated for an arbitrary `ctx : Outcome.Ctx`
(hence for all `utg`, `wg`, and whatever `F`, `key`, `uid` are) and restated
for `mkCtx utg wg …` (`…_mk`).

Result: NO disagreement.  The Boolean model accepts exactly what the stepwise
model accepts, on every input: same price bounds (`0 ≤ v ≤ 2^256-1`, both
`uint256Max` constants are the same numeral), the per-type proposal counters
count `condition` and `log` only (an upkeep of another type is counted by
neither, as in Go's `if … else if …`), duplicates are tested on block NUMBERS
(not hashes) and on work ids, across the rounds of an outcome.
-/
namespace AutoVerif.C15
open AutoVerif

/-! ### bridging the parameter records -/

/-- the `Outcome.Limits` that the C15 model has built in: the regenerated constants -/
def genLimits : Outcome.Limits :=
  { obsPerformables := Gen.observationPerformablesLimit
    obsLogProposals := Gen.observationLogRecoveryProposalsLimit
    obsCondProposals := Gen.observationConditionalsProposalsLimit
    obsBlockHistory := Gen.observationBlockHistoryLimit
    agreedLimit := Gen.outcomeAgreedPerformablesLimit
    perRound := Gen.outcomeSurfacedProposalsLimit
    roundHistory := Gen.outcomeSurfacedProposalsRoundHistoryLimit }

/-- it is the record the driver evaluates the round model with -/
theorem genLimits_eq_driver : genLimits = Round.limits := rfl

/-- an `Outcome.Ctx` from the two parameters of the C15 model; the components the validation
does not read (`F`, the shuffle key, `UniqueID`) are arbitrary -/
def mkCtx (utg : String → UpkeepType) (wg : String → Trigger → String)
    (F : Nat) (key : String → String) (uid : CheckResult → String) : Outcome.Ctx :=
  { F := F, utg := utg, wg := wg, key := key, uid := uid }

/-- every context is one of these -/
theorem mkCtx_eta (ctx : Outcome.Ctx) : mkCtx ctx.utg ctx.wg ctx.F ctx.key ctx.uid = ctx := rfl

/-! ### helpers -/

private theorem trigExt_eq (t : Trigger) (ut : UpkeepType) :
    Outcome.validTriggerExt t ut = triggerExtTypeOk t ut := by
  cases ut <;> rfl

private theorem u256_eq : Outcome.uint256Max = uint256Max := rfl

private theorem priceOk_iff (p : Option Int) : Outcome.priceOk p = true ↔ PriceOk p := by
  cases p with
  | none => simp [Outcome.priceOk, priceOk_none]
  | some v =>
    rw [priceOk_some]
    simp only [Outcome.priceOk, Bool.and_eq_true, decide_eq_true_eq]
    exact Iff.rfl

private theorem validCheckResult_rules (ctx : Outcome.Ctx) (r : CheckResult) :
    Outcome.validCheckResult ctx r = true ↔ ResultRules ctx.utg ctx.wg r := by
  simp only [Outcome.validCheckResult, ResultRules, Bool.and_eq_true, decide_eq_true_eq,
    Bool.not_eq_true', trigExt_eq, priceOk_iff]
  constructor
  · rintro ⟨⟨⟨⟨⟨⟨⟨⟨a, b⟩, c⟩, d⟩, e⟩, f⟩, g⟩, h⟩, i⟩
    exact ⟨⟨a, b⟩, ⟨c, d⟩, e, f, g, h, i⟩
  · rintro ⟨⟨a, b⟩, ⟨c, d⟩, e, f, g, h, i⟩
    exact ⟨⟨⟨⟨⟨⟨⟨⟨a, b⟩, c⟩, d⟩, e⟩, f⟩, g⟩, h⟩, i⟩

private theorem validProposal_rules (ctx : Outcome.Ctx) (p : Proposal) :
    Outcome.validProposal ctx p = true ↔ ProposalRules ctx.utg ctx.wg p := by
  simp only [Outcome.validProposal, ProposalRules, Bool.and_eq_true, decide_eq_true_eq, trigExt_eq]

private theorem countType_eq (utg : String → UpkeepType) (t : UpkeepType) (ps : List Proposal) :
    (ps.filter (fun p => utg p.upkeepID = t)).length = countType utg t ps := rfl

private theorem validObservation_rules (ctx : Outcome.Ctx) (o : Observation) :
    Outcome.validObservation ctx genLimits o = true ↔ ObsRules ctx.utg ctx.wg o := by
  simp only [Outcome.validObservation, ObsRules, Bool.and_eq_true, decide_eq_true_eq,
    List.all_eq_true, validCheckResult_rules, validProposal_rules]
  constructor
  · rintro ⟨⟨⟨⟨⟨⟨⟨⟨⟨a, b⟩, c⟩, d⟩, e⟩, f⟩, g⟩, h⟩, i⟩, j⟩
    exact ⟨a, b, c, d, e, f, g, h, i, j⟩
  · rintro ⟨a, b, c, d, e, f, g, h, i, j⟩
    exact ⟨⟨⟨⟨⟨⟨⟨⟨⟨a, b⟩, c⟩, d⟩, e⟩, f⟩, g⟩, h⟩, i⟩, j⟩

private theorem validOutcome_rules (ctx : Outcome.Ctx) (o : Outcome) :
    Outcome.validOutcome ctx genLimits o = true ↔ OutcomeRules ctx.utg ctx.wg o := by
  simp only [Outcome.validOutcome, OutcomeRules, Bool.and_eq_true, decide_eq_true_eq,
    List.all_eq_true, validCheckResult_rules, validProposal_rules, List.mem_flatten]
  constructor
  · rintro ⟨⟨⟨⟨⟨⟨a, b⟩, c⟩, d⟩, e⟩, f⟩, g⟩
    exact ⟨a, b, c, d, e, fun round hr p hp => f p ⟨round, hr, hp⟩, g⟩
  · rintro ⟨a, b, c, d, e, f, g⟩
    exact ⟨⟨⟨⟨⟨⟨a, b⟩, c⟩, d⟩, e⟩, fun p ⟨round, hr, hp⟩ => f round hr p hp⟩, g⟩

/-! ### the two models agree -/

/-- `validateCheckResult`: the Boolean model and the stepwise model accept the same results -/
theorem validCheckResult_iff (ctx : Outcome.Ctx) (r : CheckResult) :
    Outcome.validCheckResult ctx r = true ↔ validateCheckResult ctx.utg ctx.wg r = .ok () :=
  (validCheckResult_rules ctx r).trans (validate_iff_all_rules_result ctx.utg ctx.wg r).symm

/-- `validateUpkeepProposal` -/
theorem validProposal_iff (ctx : Outcome.Ctx) (p : Proposal) :
    Outcome.validProposal ctx p = true ↔ validateProposal ctx.utg ctx.wg p = .ok () :=
  (validProposal_rules ctx p).trans (validate_iff_all_rules_proposal ctx.utg ctx.wg p).symm

/-- `validateAutomationObservation` -/
theorem validObservation_iff (ctx : Outcome.Ctx) (o : Observation) :
    Outcome.validObservation ctx genLimits o = true ↔ validateObservation ctx.utg ctx.wg o = .ok () :=
  (validObservation_rules ctx o).trans (validate_iff_all_rules_obs ctx.utg ctx.wg o).symm

/-- `validateAutomationOutcome` -/
theorem validOutcome_iff (ctx : Outcome.Ctx) (o : Outcome) :
    Outcome.validOutcome ctx genLimits o = true ↔ validateOutcome ctx.utg ctx.wg o = .ok () :=
  (validOutcome_rules ctx o).trans (validate_iff_all_rules_outcome ctx.utg ctx.wg o).symm

/-- the same four, read from the C15 side: for all `utg`, `wg` (and any `F`, `key`, `uid`) -/
theorem validCheckResult_iff_mk (utg : String → UpkeepType) (wg : String → Trigger → String)
    (F : Nat) (key : String → String) (uid : CheckResult → String) (r : CheckResult) :
    Outcome.validCheckResult (mkCtx utg wg F key uid) r = true ↔ validateCheckResult utg wg r = .ok () :=
  validCheckResult_iff (mkCtx utg wg F key uid) r

theorem validProposal_iff_mk (utg : String → UpkeepType) (wg : String → Trigger → String)
    (F : Nat) (key : String → String) (uid : CheckResult → String) (p : Proposal) :
    Outcome.validProposal (mkCtx utg wg F key uid) p = true ↔ validateProposal utg wg p = .ok () :=
  validProposal_iff (mkCtx utg wg F key uid) p

theorem validObservation_iff_mk (utg : String → UpkeepType) (wg : String → Trigger → String)
    (F : Nat) (key : String → String) (uid : CheckResult → String) (o : Observation) :
    Outcome.validObservation (mkCtx utg wg F key uid) genLimits o = true ↔ validateObservation utg wg o = .ok () :=
  validObservation_iff (mkCtx utg wg F key uid) o

theorem validOutcome_iff_mk (utg : String → UpkeepType) (wg : String → Trigger → String)
    (F : Nat) (key : String → String) (uid : CheckResult → String) (o : Outcome) :
    Outcome.validOutcome (mkCtx utg wg F key uid) genLimits o = true ↔ validateOutcome utg wg o = .ok () :=
  validOutcome_iff (mkCtx utg wg F key uid) o

/-! the same as equations between Booleans (`V.isOk` of Spec/C15: `true` = nil error) -/

private theorem isOk_iff (v : V) : v.isOk = true ↔ v = .ok () := by
  cases v with
  | error e => simp [V.isOk]
  | ok u => cases u; simp [V.isOk]

private theorem bool_eq_of_iff {a b : Bool} (h : a = true ↔ b = true) : a = b := by
  cases a <;> cases b <;> simp_all

theorem validCheckResult_eq (ctx : Outcome.Ctx) (r : CheckResult) :
    Outcome.validCheckResult ctx r = (validateCheckResult ctx.utg ctx.wg r).isOk :=
  bool_eq_of_iff ((validCheckResult_iff ctx r).trans (isOk_iff _).symm)

theorem validProposal_eq (ctx : Outcome.Ctx) (p : Proposal) :
    Outcome.validProposal ctx p = (validateProposal ctx.utg ctx.wg p).isOk :=
  bool_eq_of_iff ((validProposal_iff ctx p).trans (isOk_iff _).symm)

theorem validObservation_eq (ctx : Outcome.Ctx) (o : Observation) :
    Outcome.validObservation ctx genLimits o = (validateObservation ctx.utg ctx.wg o).isOk :=
  bool_eq_of_iff ((validObservation_iff ctx o).trans (isOk_iff _).symm)

theorem validOutcome_eq (ctx : Outcome.Ctx) (o : Outcome) :
    Outcome.validOutcome ctx genLimits o = (validateOutcome ctx.utg ctx.wg o).isOk :=
  bool_eq_of_iff ((validOutcome_iff ctx o).trans (isOk_iff _).symm)

/-- a rejection by the stepwise model (whatever the rule) is a `false` of the Boolean model -/
theorem validObservation_false_iff (ctx : Outcome.Ctx) (o : Observation) :
    Outcome.validObservation ctx genLimits o = false ↔ ∃ rule, validateObservation ctx.utg ctx.wg o = .error rule := by
  rw [validObservation_eq]
  cases validateObservation ctx.utg ctx.wg o with
  | error e => simp [V.isOk]
  | ok u => simp [V.isOk]

theorem validOutcome_false_iff (ctx : Outcome.Ctx) (o : Outcome) :
    Outcome.validOutcome ctx genLimits o = false ↔ ∃ rule, validateOutcome ctx.utg ctx.wg o = .error rule := by
  rw [validOutcome_eq]
  cases validateOutcome ctx.utg ctx.wg o with
  | error e => simp [V.isOk]
  | ok u => simp [V.isOk]

/-! ### the decoder of C15 and the observation filter of the round model

The round model receives each attributed observation as an `Option Observation`
(`none` = bytes that do not unmarshal) and keeps `Outcome.validObs`.  The C15
model receives a JSON tree, unmarshals it with `obsFromJson c` and validates.
Feeding the round model with `obsFromJson c j` makes the two coincide. -/

/-- what `DecodeAutomationObservation` returns without the error: the value, if accepted -/
def accepted (c : Codec) (utg : String → UpkeepType) (wg : String → Trigger → String) (j : J) :
    Option Observation :=
  match decodeObservation c utg wg j with
  | .ok o => some o
  | .error _ => none

theorem accepted_eq_some_iff (c : Codec) (utg : String → UpkeepType) (wg : String → Trigger → String)
    (j : J) (o : Observation) : accepted c utg wg j = some o ↔ decodeObservation c utg wg j = .ok o := by
  unfold accepted
  cases decodeObservation c utg wg j with
  | error e => simp
  | ok o' => simp

private theorem validObs_single (ctx : Outcome.Ctx) (c : Codec) (j : J) :
    Outcome.validObs ctx genLimits [obsFromJson c j] = (accepted c ctx.utg ctx.wg j).toList := by
  unfold accepted decodeObservation Outcome.validObs
  cases hj : obsFromJson c j with
  | none => simp
  | some o =>
    simp only [List.filterMap_cons, List.filterMap_nil]
    by_cases hv : Outcome.validObservation ctx genLimits o = true
    · have := (validObservation_iff ctx o).mp hv
      simp [hv, this]
    · have hv' : Outcome.validObservation ctx genLimits o = false := by simpa using hv
      obtain ⟨rule, hr⟩ := (validObservation_false_iff ctx o).mp hv'
      simp [hv', hr]

/-- the decoder of C15 accepts a tree (and returns `o`) exactly when the round model, given what the
tree unmarshals to, keeps it (as `o`) -/
theorem decode_accepts_iff_validObs (ctx : Outcome.Ctx) (c : Codec) (j : J) (o : Observation) :
    decodeObservation c ctx.utg ctx.wg j = .ok o ↔
      Outcome.validObs ctx genLimits [obsFromJson c j] = [o] := by
  rw [validObs_single]
  unfold accepted
  cases decodeObservation c ctx.utg ctx.wg j with
  | error e => simp
  | ok o' => simp

/-- …and rejects it (malformed, or some rule) exactly when the round model skips it -/
theorem decode_rejects_iff_validObs (ctx : Outcome.Ctx) (c : Codec) (j : J) :
    (∃ e, decodeObservation c ctx.utg ctx.wg j = .error e) ↔
      Outcome.validObs ctx genLimits [obsFromJson c j] = [] := by
  rw [validObs_single]
  unfold accepted
  cases decodeObservation c ctx.utg ctx.wg j with
  | error e => simp
  | ok o' => simp

/-- whole round: the observations the round model works with are the accepted answers of the C15
decoder, in order.  `ms` are the attributed messages; `none` = bytes that are not JSON text at all. -/
theorem validObs_eq_decoded (ctx : Outcome.Ctx) (c : Codec) (ms : List (Option J)) :
    Outcome.validObs ctx genLimits (ms.map (fun m => m.bind (obsFromJson c))) =
      ms.filterMap (fun m => m.bind (accepted c ctx.utg ctx.wg)) := by
  induction ms with
  | nil => rfl
  | cons m ms ih =>
    have hsplit : ∀ (x : Option Observation) (xs : List (Option Observation)),
        Outcome.validObs ctx genLimits (x :: xs) =
          Outcome.validObs ctx genLimits [x] ++ Outcome.validObs ctx genLimits xs := by
      intro x xs
      unfold Outcome.validObs
      rw [← List.filterMap_append]; rfl
    rw [List.map_cons, hsplit, ih]
    cases m with
    | none => simp [Outcome.validObs]
    | some j =>
      simp only [Option.bind_some, validObs_single, List.filterMap_cons]
      cases accepted c ctx.utg ctx.wg j <;> simp

/-- hence the round model's outcome is a function of the decoder's accepted answers only -/
theorem outcome_of_decoded (ctx : Outcome.Ctx) (c : Codec) (prev : Outcome) (ms : List (Option J))
    (πres : List String) (πblk : List BlockKey) :
    Outcome.outcome ctx genLimits prev (ms.map (fun m => m.bind (obsFromJson c))) πres πblk =
      (let os := ms.filterMap (fun m => m.bind (accepted c ctx.utg ctx.wg))
       let agreed := Outcome.agreedOf ctx genLimits (Outcome.tally ctx os) πres
       { agreed := agreed, surfaced := Outcome.surfacedOf ctx genLimits agreed prev.surfaced os πblk }) := by
  simp only [Outcome.outcome, validObs_eq_decoded]

/-- the outcome decoder accepts exactly the trees that unmarshal to an outcome the Boolean model calls valid -/
theorem decode_outcome_accepts_iff_validOutcome (ctx : Outcome.Ctx) (c : Codec) (j : J) (o : Outcome) :
    decodeOutcome c ctx.utg ctx.wg j = .ok o ↔
      outcomeFromJson c j = some o ∧ Outcome.validOutcome ctx genLimits o = true := by
  rw [decode_outcome_ok_iff, validOutcome_rules]

/-- the observation decoder, in the same form -/
theorem decode_obs_accepts_iff_validObservation (ctx : Outcome.Ctx) (c : Codec) (j : J) (o : Observation) :
    decodeObservation c ctx.utg ctx.wg j = .ok o ↔
      obsFromJson c j = some o ∧ Outcome.validObservation ctx genLimits o = true := by
  rw [decode_obs_ok_iff, validObservation_rules]

/-! ### the points where the two models could have differed, on concrete values -/

private def uidC : String := "00000001000000000000000000000000aaaaaaaaaaaaaaaaaaaaaaaaaaaaaaaa"
private def uidL : String := "00000002000000000000000000000001bbbbbbbbbbbbbbbbbbbbbbbbbbbbbbbb"
private def uidO : String := "00000003000000000000000000000007cccccccccccccccccccccccccccccccc"
private def h32 : String := "0123456789abcdef0123456789abcdef0123456789abcdef0123456789abcdef"
private def h32' : String := "fedcba9876543210fedcba9876543210fedcba9876543210fedcba9876543210"

private def utg0 (uid : String) : UpkeepType :=
  if uid = uidL then .log else if uid = uidC then .condition else .other
private def wg0 (uid : String) (t : Trigger) : String :=
  uid ++ "/" ++ toString t.blockNumber ++ "/" ++ (match t.ext with | none => "-" | some e => toString e.index)
private def ctx0 : Outcome.Ctx := mkCtx utg0 wg0 1 id (fun r => r.workID)

private def trigN (n : Nat) : Trigger := { blockNumber := n, blockHash := h32, ext := none }
private def propO (n : Nat) : Proposal := { upkeepID := uidO, trigger := trigN n, workID := wg0 uidO (trigN n) }
private def propC (n : Nat) : Proposal := { upkeepID := uidC, trigger := trigN n, workID := wg0 uidC (trigN n) }
private def resC (price : Int) : CheckResult :=
  { pes := 0, retryable := false, eligible := true, reason := 0, upkeepID := uidC, trigger := trigN 7,
    workID := wg0 uidC (trigN 7), gas := 1, performData := "", fastGasWei := some price, linkNative := some 0 }

private def obsOther10 : Observation := { performable := [], proposals := (List.range 10).map propO, blockHistory := [] }
private def obsCond6 : Observation := { performable := [], proposals := (List.range 6).map propC, blockHistory := [] }
private def obsDupNumber : Observation :=
  { performable := [], proposals := [], blockHistory := [{ number := 5, hash := h32 }, { number := 5, hash := h32' }] }
private def obsDupHash : Observation :=
  { performable := [], proposals := [], blockHistory := [{ number := 5, hash := h32 }, { number := 6, hash := h32 }] }
private def outcomeDupAcross : Outcome := { agreed := [resC 3], surfaced := [[propC 1], [propO 2, propC 1]] }
private def obsGood : Observation :=
  { performable := [], proposals := [propC 1, propO 2], blockHistory := [{ number := 5, hash := h32 }] }

-- ten proposals of a type that is neither condition nor log: within the total limit, counted by
-- neither per-type counter — accepted by both models (as by Go's `if … else if …`)
example : Outcome.validObservation ctx0 genLimits obsOther10 = true ∧
    (validateObservation utg0 wg0 obsOther10).rule = none := by decide

-- six conditional proposals: refused by both, for the same reason
example : Outcome.validObservation ctx0 genLimits obsCond6 = false ∧
    (validateObservation utg0 wg0 obsCond6).rule = some .conditionalProposalsOverLimit := by decide

-- price bounds: 2^256-1 is accepted, 2^256 and -1 are refused, by both
example :
    (Outcome.validCheckResult ctx0 (resC uint256Max) = true ∧
      (validateCheckResult utg0 wg0 (resC uint256Max)).rule = none) ∧
    (Outcome.validCheckResult ctx0 (resC (uint256Max + 1)) = false ∧
      (validateCheckResult utg0 wg0 (resC (uint256Max + 1))).rule = some .fastGasRange) ∧
    (Outcome.validCheckResult ctx0 (resC (-1)) = false ∧
      (validateCheckResult utg0 wg0 (resC (-1))).rule = some .fastGasRange) := by decide

-- block history: the same NUMBER with two hashes is a duplicate, the same HASH under two numbers is not
example :
    (Outcome.validObservation ctx0 genLimits obsDupNumber = false ∧
      (validateObservation utg0 wg0 obsDupNumber).rule = some .dupBlockNumber) ∧
    (Outcome.validObservation ctx0 genLimits obsDupHash = true ∧
      (validateObservation utg0 wg0 obsDupHash).rule = none) := by decide

-- outcome: a work id repeated ACROSS two rounds is refused by both
example : Outcome.validOutcome ctx0 genLimits outcomeDupAcross = false ∧
    (validateOutcome utg0 wg0 outcomeDupAcross).rule = some .dupProposalWorkID := by decide

-- the hypotheses of the decoder corollary are met: an encoded observation that passes, a tree that
-- does not unmarshal, bytes that are not JSON, and an encoded observation that breaks a rule
example : accepted .std utg0 wg0 (obsToJson obsGood) = some obsGood := by decide
example : Outcome.validObs ctx0 genLimits [obsFromJson .std (.num 3), none] = [] := by decide
example : accepted .goccy utg0 wg0 (obsToJson obsDupNumber) = none := by decide
example : Outcome.validObs ctx0 genLimits [obsFromJson .std (obsToJson obsGood)] = [obsGood] :=
  (decode_accepts_iff_validObs ctx0 .std (obsToJson obsGood) obsGood).mp
    ((accepted_eq_some_iff .std utg0 wg0 _ _).mp (by decide))

end AutoVerif.C15
