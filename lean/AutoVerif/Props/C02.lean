import AutoVerif.Model.Outcome
/-
C02 — Outcome is a pure function of the round's inputs.

The model `Outcome.outcome ctx lim prev obs πres πblk` has no store, coordinator or
clock argument; the only nondeterminism of the Go code (two `range` loops over
maps) is explicit in the order arguments `πres`, `πblk`.  This file proves, for
ARBITRARY inputs (no bound on anything), that the result is the same for every
pair of iteration orders (`outcome_order_irrelevant`), that it depends on the
attributed observations only through the decodable valid ones
(`outcome_ignores_invalid`), and that the pinned tree before
"fix: coordinated block…" was order dependent
(`latestQuorumBlockOld_order_dependent`, `latestQuorumBlockOld_witness`).

Property theorems and non-vacuity `example`s only; helpers are `private`.
-/
namespace AutoVerif.C02
open AutoVerif.Outcome

/-! ### performables: sorted traversal -/

/-- `sort.Strings` of a Go map's key set does not depend on the iteration order -/
theorem sortStrings_perm_irrelevant {π₁ π₂ : List String} (h : π₁.Perm π₂) :
    sortStrings π₁ = sortStrings π₂ := by
  unfold sortStrings
  have tr : ∀ a b c : String, decide (a ≤ b) = true → decide (b ≤ c) = true → decide (a ≤ c) = true := by
    intro a b c h₁ h₂
    simp only [decide_eq_true_eq] at *
    exact String.le_trans h₁ h₂
  have tot : ∀ a b : String, (decide (a ≤ b) || decide (b ≤ a)) = true := by
    intro a b
    simp only [Bool.or_eq_true, decide_eq_true_eq]
    exact String.le_total a b
  refine List.Perm.eq_of_pairwise (le := fun a b => decide (a ≤ b) = true) ?_
    (List.pairwise_mergeSort tr tot π₁) (List.pairwise_mergeSort tr tot π₂) ?_
  · intro a b _ _ h₁ h₂
    simp only [decide_eq_true_eq] at h₁ h₂
    exact String.le_antisymm h₁ h₂
  · exact (List.mergeSort_perm π₁ _).trans (h.trans (List.mergeSort_perm π₂ _).symm)

theorem agreedOf_order_irrelevant (ctx : Ctx) (lim : Limits) (t : List Slot) {π₁ π₂ : List String}
    (h : π₁.Perm π₂) : agreedOf ctx lim t π₁ = agreedOf ctx lim t π₂ := by
  unfold agreedOf
  rw [sortStrings_perm_irrelevant h]

/- non-vacuity: two different iteration orders of the same key set; the sort is what makes the
traversal (`select`: first quorum result per work id wins) order independent -/
private def exR1 : CheckResult :=
  { (default : CheckResult) with workID := "w", performData := "01", eligible := true, gas := 1 }
private def exR2 : CheckResult :=
  { (default : CheckResult) with workID := "w", performData := "02", eligible := true, gas := 1 }
private def exT : List Slot := [⟨"a", exR1, 1⟩, ⟨"b", exR2, 1⟩]
private def exCtx : Ctx :=
  { F := 0, utg := fun _ => .other, wg := fun _ _ => "", key := id, uid := fun r => r.workID }
private def exLim : Limits := ⟨1, 1, 1, 1, 1, 1, 1⟩

example : (["b", "a"] : List String) ≠ ["a", "b"] ∧ (["b", "a"] : List String).Perm ["a", "b"] := by decide

/-- without the sort the traversal IS order dependent … -/
example : select (exCtx.F + 1) exT ["a", "b"] [] ≠ select (exCtx.F + 1) exT ["b", "a"] [] := by decide

/-- … with it both orders give the result stored under the smallest key -/
example : agreedOf exCtx exLim exT ["b", "a"] = [exR1] ∧ agreedOf exCtx exLim exT ["a", "b"] = [exR1] := by
  have ss : sortStrings ["a", "b"] = ["a", "b"] := List.mergeSort_of_pairwise (by decide)
  have sel : select (exCtx.F + 1) exT ["a", "b"] [] = [exR1] := by decide
  have h : agreedOf exCtx exLim exT ["a", "b"] = [exR1] := by
    unfold agreedOf
    rw [ss, sel]
    simp [sortByKey, exLim]
  exact ⟨(agreedOf_order_irrelevant exCtx exLim exT (by decide)).trans h, h⟩

/-! ### coordinated block: fold of a max -/

private theorem slt_irrefl (a : String) : ¬ a < a := String.lt_irrefl a
private theorem slt_trans {a b c : String} : a < b → b < c → a < c := String.lt_trans
private theorem slt_asymm {a b : String} : a < b → ¬ b < a := String.lt_asymm
private theorem slt_tri (a b : String) : a < b ∨ a = b ∨ b < a := by
  by_cases h₁ : a < b
  · exact .inl h₁
  · by_cases h₂ : b < a
    · exact .inr (.inr h₂)
    · exact .inr (.inl (String.le_antisymm h₂ h₁))

/-- the update step of the scan commutes, for EVERY accumulator (also the exotic ones: zero hash with a
non-zero number, or an accumulator that has no quorum itself): it computes the maximum of the
accumulator and the eligible (non-zero-hash, quorum) blocks in the strict total order
`(number, hash)`, with a zero-hash accumulator as bottom. -/
theorem quorumStep_right_comm (thr : Nat) (votes : BlockKey → Nat) (m a b : BlockKey) :
    quorumStep thr votes (quorumStep thr votes m a) b =
      quorumStep thr votes (quorumStep thr votes m b) a := by
  obtain ⟨mn, mh⟩ := m
  obtain ⟨an, ah⟩ := a
  obtain ⟨bn, bh⟩ := b
  simp only [quorumStep, better, beq_iff_eq, GT.gt, ge_iff_le]
  by_cases ha : ah = zeroHash <;> by_cases hb : bh = zeroHash <;>
    by_cases va : thr ≤ votes ⟨an, ah⟩ <;> by_cases vb : thr ≤ votes ⟨bn, bh⟩ <;>
    simp only [ha, hb, va, vb, if_true, if_false, decide_true, decide_false, Bool.true_and, Bool.false_and,
      Bool.false_eq_true, ite_self]
  have t1 := slt_tri mh ah
  have t2 := slt_tri mh bh
  have t3 := slt_tri ah bh
  have i1 := slt_irrefl ah
  have i2 := slt_irrefl bh
  have i3 := slt_irrefl mh
  have a1 := @slt_asymm mh ah
  have a2 := @slt_asymm mh bh
  have a3 := @slt_asymm ah bh
  have r1 := @slt_trans mh ah bh
  have r2 := @slt_trans mh bh ah
  have r3 := @slt_trans ah mh bh
  have r4 := @slt_trans ah bh mh
  have r5 := @slt_trans bh mh ah
  have r6 := @slt_trans bh ah mh
  grind

/-- `getLatestQuorumBlock` (after the fix) does not depend on the iteration order of `recentBlocks` -/
theorem latestQuorumBlock_order_irrelevant (thr : Nat) (votes : BlockKey → Nat) {π₁ π₂ : List BlockKey}
    (h : π₁.Perm π₂) : latestQuorumBlock thr votes π₁ = latestQuorumBlock thr votes π₂ := by
  unfold latestQuorumBlock latestQuorumBlockWith
  rw [h.foldl_eq' (fun a _ b _ m => quorumStep_right_comm thr votes m a b)]

example :
    let π₁ : List BlockKey := [⟨10, zeroHash⟩, ⟨5, "01"⟩, ⟨7, "02"⟩, ⟨7, "03"⟩, ⟨9, "04"⟩]
    let π₂ : List BlockKey := [⟨7, "03"⟩, ⟨9, "04"⟩, ⟨7, "02"⟩, ⟨5, "01"⟩, ⟨10, zeroHash⟩]
    let votes : BlockKey → Nat := fun b => if b.number = 9 then 1 else 2
    π₁ ≠ π₂ ∧ π₁.Perm π₂ ∧ latestQuorumBlock 2 votes π₁ = some ⟨7, "03"⟩ ∧
      latestQuorumBlock 2 votes π₂ = some ⟨7, "03"⟩ := by
  decide

/-! ### surfaced proposals and the whole outcome -/

theorem surfacedOf_order_irrelevant (ctx : Ctx) (lim : Limits) (agreed : List CheckResult)
    (prev : List (List Proposal)) (os : List Observation) {π₁ π₂ : List BlockKey} (h : π₁.Perm π₂) :
    surfacedOf ctx lim agreed prev os π₁ = surfacedOf ctx lim agreed prev os π₂ := by
  unfold surfacedOf
  rw [latestQuorumBlock_order_irrelevant _ _ h]

/-- **C02 (model)**: the outcome is the same for every pair of iteration orders of the two Go maps -/
theorem outcome_order_irrelevant (ctx : Ctx) (lim : Limits) (prev : Outcome) (obs : List (Option Observation))
    {πres₁ πres₂ : List String} {πblk₁ πblk₂ : List BlockKey}
    (hres : πres₁.Perm πres₂) (hblk : πblk₁.Perm πblk₂) :
    outcome ctx lim prev obs πres₁ πblk₁ = outcome ctx lim prev obs πres₂ πblk₂ := by
  unfold outcome
  simp only [agreedOf_order_irrelevant ctx lim _ hres, surfacedOf_order_irrelevant ctx lim _ _ _ hblk]

/-- the outcome depends on the attributed observations only through the decodable, valid ones -/
theorem outcome_ignores_invalid (ctx : Ctx) (lim : Limits) (prev : Outcome) {obs obs' : List (Option Observation)}
    (π : List String) (ρ : List BlockKey) (h : validObs ctx lim obs = validObs ctx lim obs') :
    outcome ctx lim prev obs π ρ = outcome ctx lim prev obs' π ρ := by
  unfold outcome
  simp only [h]

/-! ### the pinned tree before the fix was order dependent -/

/-- three iteration orders of the same three quorum blocks `{(10, 0x00…), (5, 0x01…), (7, 0x02…)}` give
block 7, "no quorum" and block 5 -/
theorem latestQuorumBlockOld_witness :
    let z : BlockKey := ⟨10, zeroHash⟩
    let a : BlockKey := ⟨5, "0100000000000000000000000000000000000000000000000000000000000000"⟩
    let b : BlockKey := ⟨7, "0200000000000000000000000000000000000000000000000000000000000000"⟩
    let votes : BlockKey → Nat := fun _ => 1
    latestQuorumBlockOld 1 votes [z, a, b] = some b ∧
    latestQuorumBlockOld 1 votes [a, b, z] = none ∧
    latestQuorumBlockOld 1 votes [b, z, a] = some a := by
  decide

theorem latestQuorumBlockOld_order_dependent :
    ∃ (thr : Nat) (votes : BlockKey → Nat) (π₁ π₂ : List BlockKey),
      π₁.Perm π₂ ∧ latestQuorumBlockOld thr votes π₁ ≠ latestQuorumBlockOld thr votes π₂ :=
  ⟨1, fun _ => 1,
   [⟨10, zeroHash⟩, ⟨5, "0100000000000000000000000000000000000000000000000000000000000000"⟩,
    ⟨7, "0200000000000000000000000000000000000000000000000000000000000000"⟩],
   [⟨5, "0100000000000000000000000000000000000000000000000000000000000000"⟩,
    ⟨7, "0200000000000000000000000000000000000000000000000000000000000000"⟩, ⟨10, zeroHash⟩],
   by decide, by decide⟩

/-- the same three orders after the fix (zero-hash blocks are skipped): always block 7 -/
example :
    let z : BlockKey := ⟨10, zeroHash⟩
    let a : BlockKey := ⟨5, "0100000000000000000000000000000000000000000000000000000000000000"⟩
    let b : BlockKey := ⟨7, "0200000000000000000000000000000000000000000000000000000000000000"⟩
    let votes : BlockKey → Nat := fun _ => 1
    latestQuorumBlock 1 votes [z, a, b] = some b ∧
    latestQuorumBlock 1 votes [a, b, z] = some b ∧
    latestQuorumBlock 1 votes [b, z, a] = some b := by
  decide

end AutoVerif.C02
