import AutoVerif.Props.C13
import AutoVerif.Props.C14
/-
C13Link — the worker-group hypothesis of Props/C13 discharged from Props/C14.

Every theorem of Props/C13 about a `CheckUpkeeps` call (`parallelCheck_spec`, `parallelCheck_ret`,
`error_iff_all_failed`, `results_multiset`, `one_result_per_payload`, …) takes the behaviour of the shared
`util.WorkerGroup` as an ASSUMPTION:

    (k : Nat) (hk : k ≤ (batches c now ps).length) (hord : order ~ List.range k)
    (cancelled : Bool) (hcx : k < (batches c now ps).length → cancelled = true)

"the batches whose results `wrapAggregate` was called with are the first `k` submitted batches, each exactly
once, in some order; all of them unless the caller's context was done".  Here that assumption is PROVED of
the C14 transition system (`Model/C14.lean`: every interleaving of the atomic steps of the submitter, result
reader, queuing loop, processing loop, workers, `Stop`, ctx cancellation; any number of concurrent `RunJobs`
callers on the one group, any number of workers):

  (1) `deliveryOrder sched g`      the indices of caller `g`'s jobs in the order in which the schedule's
                                   `rdDeliver` steps (= `resFunc(r); w.Done()` of `RunJobs`' reader goroutine,
                                   i.e. `wrapAggregate`) were taken — read off the SCHEDULE, and shown equal
                                   to the model's history variable `delivered` (`deliveryOrder_eq_delivered`);
  (2) `delivery_order_perm_accepted`   for EVERY execution after which the call has returned: the order is a
                                   permutation of `0 … k-1` with `k` = number of jobs `Do` accepted, `k ≤ #jobs`,
                                   and `k < #jobs` only if the caller's ctx was cancelled or the group stopped;
      `delivery_order_perm_all`    no `Stop`, live ctx: a permutation of `0 … #jobs-1`;
      `delivery_order_nodup_prefix`    the weaker reading (duplicate-free, inside the accepted prefix);
      `maximal_execution_completes`  every maximal execution of the repaired code completes every call;
      `deliveries_before_return`   nothing of the call is delivered after it has returned (the order read off
                                   the whole execution is the one the call had seen at its return);
  (3) `checkUpkeeps_over_worker_group`  the composition: C13's `parallelCheck` run with the order read off ANY
                                   completing schedule of the worker group satisfies C13's run-time predicate
                                   `CallObs.ok` — no hypothesis about the worker group is left; plus the
                                   instances `…_live`, `…_cut`, and the C13 closed forms over schedules;
  (3') `specTrace_over_worker_group`   the same for whole histories (`C13.specTrace_of_explained`): concurrent
                                   and consecutive calls on one runner, all their batches on ONE execution of
                                   the shared group — `C13.Explained` is derived (`explained_of_linked`).

What links the two models (trusted, stated here once): job `⟨g, i⟩` of the C14 model is the `i`-th element of
the `jobs` slice of the `RunJobs` call of caller `g`, i.e. batch `i` of `Unflatten(toRun, limit)`
(`cfg.jobs g = (batches c now ps).length`), and the result reported for it is the wrapped pipeline's answer
for that batch (`out i`).  C14 does not model result VALUES — a result is identified by its job — so "the
result of job `i`" is `out i` by definition of `out`.
-/
open List
namespace AutoVerif.C13Link
open AutoVerif

/-! ### (1) the delivery order of an execution -/

/-- the job whose result a step hands to `resFunc` (`wrapAggregate`), if any -/
def deliveredBy : C14.Label → List C14.Job
  | .rdDeliver j => [j]
  | _ => []

/-- all `resFunc` calls of a schedule, in order -/
def deliveries (sched : List C14.Label) : List C14.Job := sched.flatMap deliveredBy

/-- the delivery order of caller `g`: indices (positions in its `jobs` slice) of the jobs whose results its
reader goroutine handed to `resFunc`, in the order of those calls -/
def deliveryOrder (sched : List C14.Label) (g : Nat) : List Nat :=
  ((deliveries sched).filter (C14.isGrp g)).map (·.idx)

/-- `sched` is an execution of the worker group from its initial state, ending in `s`, in which the `RunJobs`
call of caller `g` has returned (the schedule may contain any steps of other callers, and may go on after
the return) -/
def CompleteCall (cfg : C14.Cfg) (sched : List C14.Label) (g : Nat) (s : C14.State) : Prop :=
  C14.runSched cfg (C14.init cfg) sched = some s ∧ (s.callers g).sub = .returned

private theorem step_delivered {cfg : C14.Cfg} {s s' : C14.State} {l : C14.Label}
    (hs : C14.step cfg s l = some s') : s'.delivered = s.delivered ++ deliveredBy l := by
  cases l <;> simp only [C14.step, C14.ite_some_none] at hs <;> obtain ⟨_, rfl⟩ := hs <;>
    simp [C14.State.setC, deliveredBy]

private theorem run_delivered {cfg : C14.Cfg} : ∀ (sched : List C14.Label) {s0 s : C14.State},
    C14.runSched cfg s0 sched = some s → s.delivered = s0.delivered ++ deliveries sched := by
  intro sched
  induction sched with
  | nil => intro s0 s h; simp [C14.runSched] at h; subst h; simp [deliveries]
  | cons l ls ih =>
    intro s0 s h
    simp only [C14.runSched] at h
    cases hs : C14.step cfg s0 l with
    | none => simp [hs] at h
    | some s1 =>
      rw [hs] at h
      rw [ih h, step_delivered hs]
      simp [deliveries, List.append_assoc]

/-- the order read off the schedule is the order recorded by the model's history variable `delivered`
(the variable the C14 theorems speak about) -/
theorem deliveryOrder_eq_delivered {cfg : C14.Cfg} {sched : List C14.Label} {s : C14.State}
    (h : C14.runSched cfg (C14.init cfg) sched = some s) (g : Nat) :
    deliveryOrder sched g = (s.delivered.filter (C14.isGrp g)).map (·.idx) := by
  have := run_delivered sched h
  simp only [C14.init, List.nil_append] at this
  rw [deliveryOrder, this]

/-! ### (2) the `order` hypothesis of Props/C13, proved for every execution -/

private theorem order_facts {cfg : C14.Cfg} {sched : List C14.Label} {g : Nat} {s : C14.State}
    (hc : CompleteCall cfg sched g s) :
    (deliveryOrder sched g).Nodup ∧ (deliveryOrder sched g).length = (s.callers g).next ∧
    (∀ i ∈ deliveryOrder sched g, i < (s.callers g).next ∧ (⟨g, i⟩ : C14.Job) ∈ s.accepted ∧
      s.delivered.count ⟨g, i⟩ = 1) := by
  have hr : C14.Reach cfg s := C14.reach_runSched C14.Reach.init hc.1
  have F := C14.retFacts hr hc.2
  have hpast : (s.callers g).sub.past = true := by rw [hc.2]; rfl
  have hall := (C14.returned_all_delivered_once hr hpast).2
  rw [deliveryOrder_eq_delivered hc.1]
  refine ⟨?_, ?_, ?_⟩
  · apply C14.nodup_map_of_inj (F.del_nodup.filter _)
    intro a ha b hb hab
    have ha' := (List.mem_filter.mp ha).2
    have hb' := (List.mem_filter.mp hb).2
    simp only [C14.isGrp, beq_iff_eq] at ha' hb'
    exact C14.job_ext (ha'.trans hb'.symm) hab
  · rw [List.length_map]; exact F.del_len
  · intro i hi
    obtain ⟨j, hj, rfl⟩ := List.mem_map.mp hi
    obtain ⟨hjd, hjg⟩ := List.mem_filter.mp hj
    simp only [C14.isGrp, beq_iff_eq] at hjg
    have hja := F.del_acc j hjd
    have hidx := F.acc_idx j hja
    rw [hjg] at hidx
    have hjeq : (⟨g, j.idx⟩ : C14.Job) = j := C14.job_ext hjg.symm rfl
    rw [hjeq]
    exact ⟨hidx, hja, hall j hja hjg⟩

/-- **the order hypothesis, general form** (`k ≤ #batches`).  For every execution of the worker group after
which caller `g`'s `RunJobs` has returned — any interleaving, any other callers, `Stop` and ctx cancellation
at any point — the results handed to `resFunc` are those of the first `k` jobs of the call, each exactly
once, in some order, where `k` is the number of jobs `Do` accepted; `k` is at most the number of jobs, and
less only if the caller's ctx was cancelled or the group was stopped -/
theorem delivery_order_perm_accepted {cfg : C14.Cfg} {sched : List C14.Label} {g : Nat} {s : C14.State}
    (hc : CompleteCall cfg sched g s) :
    deliveryOrder sched g ~ List.range (s.callers g).next ∧
    (s.callers g).next ≤ cfg.jobs g ∧
    ((s.callers g).next < cfg.jobs g → (s.callers g).cancelled = true ∨ s.stopped = true) := by
  have hr : C14.Reach cfg s := C14.reach_runSched C14.Reach.init hc.1
  have F := C14.retFacts hr hc.2
  obtain ⟨hnd, hlen, hmem⟩ := order_facts hc
  refine ⟨?_, F.next_le, ?_⟩
  · have hsub : deliveryOrder sched g ⊆ List.range (s.callers g).next :=
      fun i hi => List.mem_range.mpr (hmem i hi).1
    exact (List.subperm_of_subset hnd hsub).perm_of_length_le (by simp [hlen])
  · intro hlt
    cases hcn : (s.callers g).cancelled with
    | true => exact Or.inl rfl
    | false =>
      cases hst : s.stopped with
      | true => exact Or.inr rfl
      | false => have := F.all_acc hst hcn; omega

/-- **the order hypothesis, live form** (`k = #batches`).  No `Stop`, caller's ctx alive: the results handed
to `resFunc` are those of ALL jobs of the call, each exactly once, in some order — exactly the hypothesis
`order ~ List.range (batches c now ps).length` of Props/C13 -/
theorem delivery_order_perm_all {cfg : C14.Cfg} {sched : List C14.Label} {g : Nat} {s : C14.State}
    (hc : CompleteCall cfg sched g s) (hns : s.stopped = false) (hlive : (s.callers g).cancelled = false) :
    deliveryOrder sched g ~ List.range (cfg.jobs g) := by
  obtain ⟨h1, h2, h3⟩ := delivery_order_perm_accepted hc
  have : (s.callers g).next = cfg.jobs g := by
    apply Classical.byContradiction
    intro hne
    rcases h3 (by omega) with h | h
    · rw [hlive] at h; cases h
    · rw [hns] at h; cases h
  rw [← this]; exact h1

/-- the weaker reading, for executions cut short by a cancellation or `Stop`: the delivered list is
duplicate-free and every delivered index belongs to the accepted prefix of the submitted jobs (and each such
job's result was reported exactly once) -/
theorem delivery_order_nodup_prefix {cfg : C14.Cfg} {sched : List C14.Label} {g : Nat} {s : C14.State}
    (hc : CompleteCall cfg sched g s) :
    (deliveryOrder sched g).Nodup ∧
    ∀ i ∈ deliveryOrder sched g, i < (s.callers g).next ∧ (s.callers g).next ≤ cfg.jobs g ∧
      (⟨g, i⟩ : C14.Job) ∈ s.accepted ∧ s.delivered.count ⟨g, i⟩ = 1 := by
  have hr : C14.Reach cfg s := C14.reach_runSched C14.Reach.init hc.1
  have F := C14.retFacts hr hc.2
  obtain ⟨hnd, _, hmem⟩ := order_facts hc
  exact ⟨hnd, fun i hi => ⟨(hmem i hi).1, F.next_le, (hmem i hi).2⟩⟩

/-! every result is aggregated BEFORE the call returns -/

private theorem step_returned {cfg : C14.Cfg} {s s' : C14.State} {l : C14.Label} (g : Nat)
    (hs : C14.step cfg s l = some s') (hret : (s.callers g).sub = .returned) :
    (s'.callers g).sub = .returned ∧ (s'.callers g).next = (s.callers g).next := by
  cases l <;> simp only [C14.step, C14.ite_some_none] at hs <;> obtain ⟨hg, rfl⟩ := hs <;>
    simp only [C14.State.setC, C14.upd] <;>
    first
    | exact ⟨hret, rfl⟩
    | exact ⟨hret, trivial⟩
    | (split <;> rename_i hk <;>
        first
        | exact ⟨hret, rfl⟩
        | exact ⟨hret, trivial⟩
        | (subst hk; exact ⟨hret, rfl⟩)
        | (subst hk; exact ⟨hret, trivial⟩)
        | (subst hk; simp [hret] at hg))

private theorem run_returned {cfg : C14.Cfg} (g : Nat) : ∀ (sched : List C14.Label) {s0 s : C14.State},
    C14.runSched cfg s0 sched = some s → (s0.callers g).sub = .returned →
    (s.callers g).sub = .returned ∧ (s.callers g).next = (s0.callers g).next := by
  intro sched
  induction sched with
  | nil => intro s0 s h hret; simp [C14.runSched] at h; subst h; exact ⟨hret, rfl⟩
  | cons l ls ih =>
    intro s0 s h hret
    simp only [C14.runSched] at h
    cases hs : C14.step cfg s0 l with
    | none => simp [hs] at h
    | some s1 =>
      rw [hs] at h
      obtain ⟨b1, b2⟩ := step_returned g hs hret
      obtain ⟨a1, a2⟩ := ih h b1
      exact ⟨a1, a2.trans b2⟩

private theorem runSched_append {cfg : C14.Cfg} : ∀ (pre post : List C14.Label) {s0 s : C14.State},
    C14.runSched cfg s0 (pre ++ post) = some s →
    ∃ s1, C14.runSched cfg s0 pre = some s1 ∧ C14.runSched cfg s1 post = some s := by
  intro pre
  induction pre with
  | nil => intro post s0 s h; exact ⟨s0, rfl, h⟩
  | cons l ls ih =>
    intro post s0 s h
    simp only [List.cons_append, C14.runSched] at h ⊢
    cases hs : C14.step cfg s0 l with
    | none => simp [hs] at h
    | some s1 => rw [hs] at h; exact ih post h

/-- **nothing is delivered after the return.**  If the call of caller `g` has already returned after the
prefix `pre` of an execution, the rest of the execution hands no further result of `g` to `resFunc`: the order
read off the whole execution is the order the call had seen when `wait.Wait()` let it return, so the
accumulator `parallelCheck` folds over is complete at that moment -/
theorem deliveries_before_return {cfg : C14.Cfg} {pre post : List C14.Label} {g : Nat} {s1 s : C14.State}
    (hpre : CompleteCall cfg pre g s1) (hrun : C14.runSched cfg (C14.init cfg) (pre ++ post) = some s) :
    deliveryOrder (pre ++ post) g = deliveryOrder pre g ∧ CompleteCall cfg (pre ++ post) g s := by
  obtain ⟨s1', h1, h2⟩ := runSched_append pre post hrun
  rw [hpre.1] at h1; cases h1
  obtain ⟨hret, hnext⟩ := run_returned g post h2 hpre.2
  have hc : CompleteCall cfg (pre ++ post) g s := ⟨hrun, hret⟩
  refine ⟨?_, hc⟩
  have hl1 := (order_facts hpre).2.1
  have hl2 := (order_facts hc).2.1
  have happ : deliveryOrder (pre ++ post) g =
      deliveryOrder pre g ++ ((deliveries post).filter (C14.isGrp g)).map (·.idx) := by
    simp [deliveryOrder, deliveries]
  rw [happ] at hl2 ⊢
  have : (((deliveries post).filter (C14.isGrp g)).map (·.idx)).length = 0 := by
    rw [List.length_append] at hl2; omega
  rw [List.length_eq_zero_iff.mp this, List.append_nil]

/-! "without `Stop`, live ctx" read off the schedule itself -/

private theorem step_flags {cfg : C14.Cfg} {s s' : C14.State} {l : C14.Label} (g : Nat)
    (hs : C14.step cfg s l = some s') :
    (l ≠ .stopBegin → s'.stopped = s.stopped) ∧
    (l ≠ .cancel g → (s'.callers g).cancelled = (s.callers g).cancelled) := by
  cases l <;> simp only [C14.step, C14.ite_some_none] at hs <;> obtain ⟨_, rfl⟩ := hs <;>
    simp only [C14.State.setC, C14.upd] <;> refine ⟨fun hne => ?_, fun hne => ?_⟩ <;>
    first
    | rfl
    | trivial
    | exact absurd rfl hne
    | (split <;> rename_i hk <;> first | rfl | (subst hk; rfl) | (subst hk; exact absurd rfl hne))

private theorem run_flags {cfg : C14.Cfg} (g : Nat) : ∀ (sched : List C14.Label) {s0 s : C14.State},
    C14.runSched cfg s0 sched = some s →
    (C14.Label.stopBegin ∉ sched → s.stopped = s0.stopped) ∧
    (C14.Label.cancel g ∉ sched → (s.callers g).cancelled = (s0.callers g).cancelled) := by
  intro sched
  induction sched with
  | nil => intro s0 s h; simp [C14.runSched] at h; subst h; exact ⟨fun _ => rfl, fun _ => rfl⟩
  | cons l ls ih =>
    intro s0 s h
    simp only [C14.runSched] at h
    cases hs : C14.step cfg s0 l with
    | none => simp [hs] at h
    | some s1 =>
      rw [hs] at h
      obtain ⟨a1, a2⟩ := ih h
      obtain ⟨b1, b2⟩ := step_flags g hs
      constructor
      · intro hn
        rw [a1 (fun hm => hn (List.mem_cons_of_mem _ hm)), b1 (fun he => hn (he ▸ List.mem_cons_self))]
      · intro hn
        rw [a2 (fun hm => hn (List.mem_cons_of_mem _ hm)), b2 (fun he => hn (he ▸ List.mem_cons_self))]

/-- the live form with its side conditions read off the schedule: an execution in which `Stop` is never
called and the caller's ctx is never cancelled delivers all jobs of the call, each exactly once -/
theorem delivery_order_perm_all_of_schedule {cfg : C14.Cfg} {sched : List C14.Label} {g : Nat} {s : C14.State}
    (hc : CompleteCall cfg sched g s) (hns : C14.Label.stopBegin ∉ sched) (hlive : C14.Label.cancel g ∉ sched) :
    deliveryOrder sched g ~ List.range (cfg.jobs g) := by
  obtain ⟨h1, h2⟩ := run_flags g sched hc.1
  exact delivery_order_perm_all hc (h1 hns) (h2 hlive)

/-- completing executions are the rule, not a lucky case: in the repaired code with at least one worker, EVERY
execution that cannot be continued by a step of the code (and in which no job function is still waiting for
a cancellation) has completed the call of every caller — and by `C14.schedule_length_bounded` no execution
can be continued for more than `measure cfg (init cfg)` steps -/
theorem maximal_execution_completes {cfg : C14.Cfg} (hfix : cfg.fixed = true) (hmax : 1 ≤ cfg.maxWorkers)
    {sched : List C14.Label} {s : C14.State} (hrun : C14.runSched cfg (C14.init cfg) sched = some s)
    (hq : ¬ C14.CanStep cfg s) (hb : ¬ C14.BlockedJob cfg s) {g : Nat} (hg : g < cfg.ncallers) :
    CompleteCall cfg sched g s :=
  ⟨hrun, C14.quiescent_all_returned hfix hmax (C14.reach_runSched C14.Reach.init hrun) hq hb g hg⟩

/-! ### (3) the composition -/

/-- **C13 over C14.**  Take any cache whose entries are successful results of `hist`, any payloads, any
answers `out` of the wrapped pipeline, and ANY execution `sched` of the worker group — any number of
workers, any concurrent callers, any interleaving, `Stop` / ctx cancellation anywhere — after which the
`RunJobs` call that `parallelCheck` made for these payloads (caller `g`, one job per batch) has returned.
Then what the C13 model returns when its batches are aggregated in the order read off that execution,
together with the batches handed to the pipeline, satisfies the C13 run-time predicate `CallObs.ok`.  The
flag `cut` ("the call may have been cut short": Spec/C13 `cancelled`) only has to be set when fewer results
than batches were delivered, which (`…_cut_only_if`) happens only after a cancellation of the caller's ctx or
`Stop`.  No hypothesis about the worker group remains. -/
theorem checkUpkeeps_over_worker_group (E : Nat) (c : C13.Cache) (hist : List CheckResult)
    (hgood : C13.Good c hist) (now : Nat) (ps : List Payload) (out : Nat → C13.BatchOut)
    (cfg : C14.Cfg) (g : Nat) (hjobs : cfg.jobs g = (C13.batches c now ps).length)
    (sched : List C14.Label) (s : C14.State) (hc : CompleteCall cfg sched g s)
    (cut : Bool) (hcut : (deliveryOrder sched g).length < (C13.batches c now ps).length → cut = true) :
    C13.CallObs.ok { payloads := ps,
                     dones := (deliveryOrder sched g).map (fun i => ((C13.batches c now ps).getD i [], out i)),
                     ret := (C13.parallelCheck E c now ps out (deliveryOrder sched g)).2,
                     hist := hist, cancelled := cut } = true := by
  obtain ⟨hperm, hle, _⟩ := delivery_order_perm_accepted hc
  have hlen : (deliveryOrder sched g).length = (s.callers g).next := by
    simpa using hperm.length_eq
  exact C13.parallelCheck_spec E c hist hgood now ps out (deliveryOrder sched g) (s.callers g).next
    (hjobs ▸ hle) hperm cut (fun hlt => hcut (hlen ▸ hlt))

/-- fewer results than batches are delivered only if the caller's ctx was cancelled or the group stopped -/
theorem checkUpkeeps_cut_only_if {cfg : C14.Cfg} {sched : List C14.Label} {g : Nat} {s : C14.State}
    (hc : CompleteCall cfg sched g s) (h : (deliveryOrder sched g).length < cfg.jobs g) :
    (s.callers g).cancelled = true ∨ s.stopped = true := by
  obtain ⟨hperm, _, hwhy⟩ := delivery_order_perm_accepted hc
  have hlen : (deliveryOrder sched g).length = (s.callers g).next := by
    simpa using hperm.length_eq
  exact hwhy (hlen ▸ h)

/-- instance: no `Stop`, live ctx — the predicate holds with `cancelled := false` (every payload answered
exactly once or in a failed batch; nothing abandoned) -/
theorem checkUpkeeps_over_worker_group_live (E : Nat) (c : C13.Cache) (hist : List CheckResult)
    (hgood : C13.Good c hist) (now : Nat) (ps : List Payload) (out : Nat → C13.BatchOut)
    (cfg : C14.Cfg) (g : Nat) (hjobs : cfg.jobs g = (C13.batches c now ps).length)
    (sched : List C14.Label) (s : C14.State) (hc : CompleteCall cfg sched g s)
    (hns : C14.Label.stopBegin ∉ sched) (hlive : C14.Label.cancel g ∉ sched) :
    C13.CallObs.ok { payloads := ps,
                     dones := (deliveryOrder sched g).map (fun i => ((C13.batches c now ps).getD i [], out i)),
                     ret := (C13.parallelCheck E c now ps out (deliveryOrder sched g)).2,
                     hist := hist, cancelled := false } = true := by
  apply checkUpkeeps_over_worker_group E c hist hgood now ps out cfg g hjobs sched s hc
  intro hlt
  have := (delivery_order_perm_all_of_schedule hc hns hlive).length_eq
  simp only [List.length_range] at this
  omega

/-- instance: the flag is "the caller's ctx is done or the group was stopped" as seen at the end of the
execution (without `Stop` this is exactly Spec/C13's `cancelled`) -/
theorem checkUpkeeps_over_worker_group_cut (E : Nat) (c : C13.Cache) (hist : List CheckResult)
    (hgood : C13.Good c hist) (now : Nat) (ps : List Payload) (out : Nat → C13.BatchOut)
    (cfg : C14.Cfg) (g : Nat) (hjobs : cfg.jobs g = (C13.batches c now ps).length)
    (sched : List C14.Label) (s : C14.State) (hc : CompleteCall cfg sched g s) :
    C13.CallObs.ok { payloads := ps,
                     dones := (deliveryOrder sched g).map (fun i => ((C13.batches c now ps).getD i [], out i)),
                     ret := (C13.parallelCheck E c now ps out (deliveryOrder sched g)).2,
                     hist := hist, cancelled := (s.callers g).cancelled || s.stopped } = true := by
  apply checkUpkeeps_over_worker_group E c hist hgood now ps out cfg g hjobs sched s hc
  intro hlt
  rcases checkUpkeeps_cut_only_if hc (hjobs ▸ hlt) with h | h <;> simp [h]

/-- the call is `Explained` in the sense of Spec/C13 / `modelCall_explains`: the witnesses `order`, `k` that
those statements ask for exist for every completing execution of the worker group -/
theorem explained_over_worker_group (c : C13.Cache) (now : Nat) (ps : List Payload)
    (cfg : C14.Cfg) (g : Nat) (hjobs : cfg.jobs g = (C13.batches c now ps).length)
    (sched : List C14.Label) (s : C14.State) (hc : CompleteCall cfg sched g s) :
    ∃ k, k ≤ (C13.batches c now ps).length ∧
      (k < (C13.batches c now ps).length → ((s.callers g).cancelled || s.stopped) = true) ∧
      deliveryOrder sched g ~ List.range k := by
  obtain ⟨hperm, hle, hwhy⟩ := delivery_order_perm_accepted hc
  refine ⟨(s.callers g).next, hjobs ▸ hle, ?_, hperm⟩
  intro hlt
  rcases hwhy (hjobs ▸ hlt) with h | h <;> simp [h]

/-- C13's closed forms over schedules (no `Stop`, live ctx): the call fails iff there is at least one batch
and every batch failed; otherwise it returns the cache hits followed by the results of the successful
batches in the order the worker group delivered them -/
theorem checkUpkeeps_ret_over_worker_group (E : Nat) (c : C13.Cache) (now : Nat) (ps : List Payload)
    (out : Nat → C13.BatchOut) (cfg : C14.Cfg) (g : Nat) (hjobs : cfg.jobs g = (C13.batches c now ps).length)
    (sched : List C14.Label) (s : C14.State) (hc : CompleteCall cfg sched g s)
    (hns : C14.Label.stopBegin ∉ sched) (hlive : C14.Label.cancel g ∉ sched) :
    ((C13.parallelCheck E c now ps out (deliveryOrder sched g)).2.err = true ↔
      0 < (C13.batches c now ps).length ∧ ∀ i, i < (C13.batches c now ps).length → (out i).res = none) ∧
    ((C13.parallelCheck E c now ps out (deliveryOrder sched g)).2.err = false →
      (C13.parallelCheck E c now ps out (deliveryOrder sched g)).2.values =
        C13.hits c now ps ++ C13.freshOf ((deliveryOrder sched g).map out)) := by
  have hperm := delivery_order_perm_all_of_schedule hc hns hlive
  rw [hjobs] at hperm
  refine ⟨C13.error_iff_all_failed E c now ps out _ _ (Nat.le_refl _) hperm, ?_⟩
  intro hok
  rw [C13.parallelCheck_ret E c now ps out _ _ (Nat.le_refl _) hperm] at hok ⊢
  split at hok
  · cases hok
  · rename_i hcnd; rw [if_neg hcnd]

/-- … and under the pipeline contract, when every batch succeeds: exactly one result per payload asked, for
that payload's unit of work — for every schedule of the worker group -/
theorem one_result_per_payload_over_worker_group (E : Nat) (c : C13.Cache) (hwf : C13.WF c) (now : Nat)
    (ps : List Payload) (out : Nat → C13.BatchOut)
    (cfg : C14.Cfg) (g : Nat) (hjobs : cfg.jobs g = (C13.batches c now ps).length)
    (sched : List C14.Label) (s : C14.State) (hc : CompleteCall cfg sched g s)
    (hns : C14.Label.stopBegin ∉ sched) (hlive : C14.Label.cancel g ∉ sched)
    (hcon : C13.Contract (C13.batches c now ps) out)
    (hall : ∀ i, i < (C13.batches c now ps).length → (out i).res ≠ none) :
    (C13.parallelCheck E c now ps out (deliveryOrder sched g)).2.err = false ∧
    (C13.parallelCheck E c now ps out (deliveryOrder sched g)).2.values.map C13.keyR ~ ps.map C13.keyP := by
  have hperm := delivery_order_perm_all_of_schedule hc hns hlive
  rw [hjobs] at hperm
  exact C13.all_succeed_exact E c hwf now ps out _ hperm hcon hall

/-! ### (3') whole histories: concurrent `CheckUpkeeps` calls sharing ONE worker group and ONE cache -/

/-- a history of calls on one runner (Model/C13 `Ev`) and an execution of the runner's worker group belong
together: every call `cid` of the history is `RunJobs` caller `cid` of the group with one job per batch
computed at its `start`; after the execution that caller has returned; the call's `done` events (one
`wrapAggregate` each) are that caller's deliveries in the execution, in that order; and the recorded return
value is what `parallelCheck` computes from them, flagged "may have been cut short" iff the caller's ctx was
cancelled or the group stopped.  (This is the identification of C13's `done` event with C14's `rdDeliver`
step, for all callers of one schedule at once — not an assumption about the worker group's behaviour.) -/
def Linked (E : Nat) (cfg : C14.Cfg) (sched : List C14.Label) (s : C14.State) (out : Nat → Nat → C13.BatchOut)
    (rets : List (Nat × C13.Ret × Bool)) (evs : List C13.Ev) : Prop :=
  ∀ pre cid now ps post, evs = pre ++ C13.Ev.start cid now ps :: post →
    CompleteCall cfg sched cid s ∧
    cfg.jobs cid = (C13.batches (C13.cacheAt E [] pre) now ps).length ∧
    C13.donesOf cid post = (deliveryOrder sched cid).map
      (fun i => ((C13.batches (C13.cacheAt E [] pre) now ps).getD i [], out cid i)) ∧
    C13.retOf rets cid =
      some ((C13.parallelCheck E (C13.cacheAt E [] pre) now ps (out cid) (deliveryOrder sched cid)).2,
            (s.callers cid).cancelled || s.stopped)

/-- the hypothesis `Explained` of `C13.specTrace_of_explained` holds of every history linked to an execution of
the worker group … -/
theorem explained_of_linked {E : Nat} {cfg : C14.Cfg} {sched : List C14.Label} {s : C14.State}
    {out : Nat → Nat → C13.BatchOut} {rets : List (Nat × C13.Ret × Bool)} {evs : List C13.Ev}
    (h : Linked E cfg sched s out rets evs) : C13.Explained E rets evs := by
  intro pre cid now ps post heq
  obtain ⟨hc, hjobs, hd, hr⟩ := h pre cid now ps post heq
  obtain ⟨hperm, hle, hwhy⟩ := delivery_order_perm_accepted hc
  refine ⟨out cid, deliveryOrder sched cid, (s.callers cid).next, (s.callers cid).cancelled || s.stopped,
    hjobs ▸ hle, ?_, hperm, hd, hr⟩
  intro hlt
  rcases hwhy (hjobs ▸ hlt) with h | h <;> simp [h]

/-- … hence **C13 over histories, over C14**: for any number of concurrent and consecutive `CheckUpkeeps`
calls on a fresh runner whose batches all run on one shared worker group — every schedule of the group,
`Stop` / cancellations anywhere — every call satisfies the C13 run-time predicate -/
theorem specTrace_over_worker_group {E : Nat} {cfg : C14.Cfg} {sched : List C14.Label} {s : C14.State}
    {out : Nat → Nat → C13.BatchOut} {rets : List (Nat × C13.Ret × Bool)} {evs : List C13.Ev}
    (h : Linked E cfg sched s out rets evs) : C13.specTrace evs rets = true :=
  C13.specTrace_of_explained E rets evs (explained_of_linked h)

/-! ### (4) non-vacuity: 3 batches on 2 workers, results delivered out of submission order -/

/-- the repaired worker group, 2 workers, one `RunJobs` caller with 3 jobs (= 3 batches) -/
private def cfg3 : C14.Cfg :=
  { fixed := true, maxWorkers := 2, ncallers := 1, jobs := fun _ => 3, blocking := fun _ => false }

/-- `RunJobs` loop + `Do` for the next job of caller 0 -/
private def submit : List C14.Label :=
  [.subAdd 0, .subCtx 0, .subRLock 0, .subClosed 0, .subSend 0, .subRUnlockOk 0]

/-- jobs 0 and 1 are started on two new workers, job 2 has to wait for a worker (`maxWorkers = 2` reached);
job 1 finishes first and is delivered, its worker is reused for job 2, which also finishes before job 0;
the reader then takes `[2, 0]` in one `Results` call: delivered order `[1, 2, 0]` -/
private def sched3 : List C14.Label :=
  submit ++ [.qRecv ⟨0, 0⟩, .qAdd ⟨0, 0⟩, .qNotify] ++
  submit ++ [.qRecv ⟨0, 1⟩, .qAdd ⟨0, 1⟩, .qNotify,
    .pNotify, .pLen false, .pPop false ⟨0, 0⟩, .pSpawnNew false ⟨0, 0⟩,
    .pLen false, .pPop false ⟨0, 1⟩, .pSpawnNew false ⟨0, 1⟩] ++
  submit ++ [.qRecv ⟨0, 2⟩, .qAdd ⟨0, 2⟩, .qNotify,
    .pLen false, .pPop false ⟨0, 2⟩,
    .wCheckOk ⟨0, 0⟩, .wCheckOk ⟨0, 1⟩, .wRun ⟨0, 1⟩, .wStore ⟨0, 1⟩, .wPut,
    .pSpawnReuse false ⟨0, 2⟩, .pLen false,
    .rdNotify 0, .rdResults 0, .rdDeliver ⟨0, 1⟩, .rdBatchEnd 0,
    .wCheckOk ⟨0, 2⟩, .wRun ⟨0, 2⟩, .wStore ⟨0, 2⟩, .wPut,
    .wRun ⟨0, 0⟩, .wStore ⟨0, 0⟩, .wPut,
    .rdNotify 0, .rdResults 0, .rdDeliver ⟨0, 2⟩, .rdDeliver ⟨0, 0⟩, .rdBatchEnd 0,
    .subLoopEnd 0, .subWait 0, .subRemove 0, .subCloseEnd 0, .rdEnd 0]

private def final3 : C14.State := (C14.runSched cfg3 (C14.init cfg3) sched3).getD (C14.init cfg3)

private theorem complete3 : CompleteCall cfg3 sched3 0 final3 := by
  refine ⟨?_, by decide⟩
  have : (C14.runSched cfg3 (C14.init cfg3) sched3).isSome = true := by decide
  unfold final3
  cases h : C14.runSched cfg3 (C14.init cfg3) sched3 with
  | none => simp [h] at this
  | some s => simp

/-- the hypotheses of (2) hold of a concrete execution: `sched3` is a schedule of the model that completes the
call, contains neither `Stop` nor a cancellation, keeps both workers busy at once, and delivers out of
submission order -/
example : CompleteCall cfg3 sched3 0 final3 ∧ C14.Label.stopBegin ∉ sched3 ∧ C14.Label.cancel 0 ∉ sched3 ∧
    final3.stopped = false ∧ (final3.callers 0).cancelled = false ∧
    deliveryOrder sched3 0 = [1, 2, 0] ∧ final3.delivered = [⟨0, 1⟩, ⟨0, 2⟩, ⟨0, 0⟩] ∧
    (deliveryOrder sched3 0).isPerm (List.range (cfg3.jobs 0)) = true ∧
    ((C14.runSched cfg3 (C14.init cfg3) (sched3.take 38)).map (fun s => s.wRun.length)) = some 2 :=
  ⟨complete3, by decide, by decide, by decide, by decide, by decide, by decide, by decide, by decide⟩

private def tr (bn : Nat) (bh : String) : Trigger := { blockNumber := bn, blockHash := bh, ext := none }
private def pl (w : String) : Payload := { upkeepID := "u" ++ w, trigger := tr 5 "h", workID := w }
private def rs (w : String) : CheckResult :=
  { pes := 0, retryable := false, eligible := true, reason := 0, upkeepID := "u" ++ w, trigger := tr 5 "h",
    workID := w, gas := 1, performData := "", fastGasWei := none, linkNative := none }

/-- 21 uncached payloads: three batches (10 + 10 + 1) -/
private def ws21 : List String :=
  ["a", "b", "c", "d", "e", "f", "g", "h", "i", "j", "k", "l", "m", "n", "o", "p", "q", "r", "s", "t", "u"]
private def ps21 : List Payload := ws21.map pl

/-- the pipeline answers the first and the last batch, the second one fails -/
private def out3 : Nat → C13.BatchOut := fun i =>
  if i = 1 then { doneAt := 10, res := none }
  else { doneAt := 20 + i, res := some ((((C13.batches [] 1 ps21).getD i []).map (·.workID)).map rs) }

/-- the hypotheses of (3) hold of a concrete call: the worker-group configuration has one job per batch of the
C13 model (`hjobs`), the empty cache is `Good`, and the composed run returns the results of batches 2 and 0
in delivery order (batch 1 failed) without error -/
example : cfg3.jobs 0 = (C13.batches [] 1 ps21).length ∧ C13.Good [] [] ∧
    CompleteCall cfg3 sched3 0 final3 ∧
    (C13.parallelCheck 0 [] 1 ps21 out3 (deliveryOrder sched3 0)).2 =
      { values := [rs "u"] ++ (ws21.take 10).map rs, err := false } ∧
    C13.CallObs.ok { payloads := ps21,
                     dones := (deliveryOrder sched3 0).map (fun i => ((C13.batches [] 1 ps21).getD i [], out3 i)),
                     ret := (C13.parallelCheck 0 [] 1 ps21 out3 (deliveryOrder sched3 0)).2,
                     hist := [], cancelled := false } = true :=
  ⟨by decide, by intro e he; simp at he, complete3, by decide,
   checkUpkeeps_over_worker_group_live 0 [] [] (by intro e he; simp at he) 1 ps21 out3 cfg3 0 (by decide)
     sched3 final3 complete3 (by decide) (by decide)⟩

private theorem only_start {e0 : C13.Ev} {rest pre post : List C13.Ev} {cid now : Nat} {ps : List Payload}
    (h : e0 :: rest = pre ++ C13.Ev.start cid now ps :: post)
    (hno : ∀ e ∈ rest, ∀ c n p, e ≠ C13.Ev.start c n p) :
    pre = [] ∧ e0 = C13.Ev.start cid now ps ∧ post = rest := by
  cases pre with
  | nil => simp only [List.nil_append, List.cons.injEq] at h; exact ⟨rfl, h.1, h.2.symm⟩
  | cons a pre' =>
    simp only [List.cons_append, List.cons.injEq] at h
    exact absurd rfl (hno (C13.Ev.start cid now ps) (by rw [h.2]; simp) cid now ps)

/-- `Linked` (hence `specTrace_over_worker_group`) is not vacuous: the history in which the call's three
`wrapAggregate`s happen in the order of `sched3` is linked to `sched3` -/
example :
    let bs := C13.batches [] 1 ps21
    let evs := [C13.Ev.start 0 1 ps21, .done 0 (bs.getD 1 []) (out3 1), .done 0 (bs.getD 2 []) (out3 2),
                .done 0 (bs.getD 0 []) (out3 0)]
    let rets := [(0, (C13.parallelCheck 0 [] 1 ps21 out3 [1, 2, 0]).2, false)]
    Linked 0 cfg3 sched3 final3 (fun _ => out3) rets evs ∧ C13.specTrace evs rets = true := by
  intro bs evs rets
  have hl : Linked 0 cfg3 sched3 final3 (fun _ => out3) rets evs := by
    intro pre cid now ps post heq
    obtain ⟨rfl, h2, rfl⟩ := only_start heq (by
      intro e he c n p
      simp only [List.mem_cons, List.not_mem_nil, or_false] at he
      rcases he with rfl | rfl | rfl <;> simp)
    cases h2
    exact ⟨complete3, by decide, by decide, by decide⟩
  exact ⟨hl, specTrace_over_worker_group hl⟩

/-- the cut-short form is not vacuous either: the caller's ctx is cancelled while job 1 is being offered;
only job 0 was accepted (`k = 1 < 3`), it is delivered exactly once and the call returns -/
private def schedCut : List C14.Label :=
  submit ++ [.subAdd 0, .cancel 0, .subCtx 0, .subFailDone 0,
    .qRecv ⟨0, 0⟩, .qAdd ⟨0, 0⟩, .qNotify, .pNotify, .pLen false, .pPop false ⟨0, 0⟩, .pSpawnNew false ⟨0, 0⟩,
    .wCheckOk ⟨0, 0⟩, .wRun ⟨0, 0⟩, .wStore ⟨0, 0⟩, .wPut, .rdNotify 0, .rdResults 0, .rdDeliver ⟨0, 0⟩,
    .rdBatchEnd 0, .subWait 0, .subRemove 0, .subCloseEnd 0, .rdEnd 0]

private def finalCut : C14.State := (C14.runSched cfg3 (C14.init cfg3) schedCut).getD (C14.init cfg3)

example : CompleteCall cfg3 schedCut 0 finalCut ∧ deliveryOrder schedCut 0 = [0] ∧
    (finalCut.callers 0).next = 1 ∧ (finalCut.callers 0).cancelled = true ∧ finalCut.stopped = false := by
  refine ⟨⟨?_, by decide⟩, by decide, by decide, by decide, by decide⟩
  have : (C14.runSched cfg3 (C14.init cfg3) schedCut).isSome = true := by decide
  unfold finalCut
  cases h : C14.runSched cfg3 (C14.init cfg3) schedCut with
  | none => simp [h] at this
  | some s => simp

end AutoVerif.C13Link
