import AutoVerif.Spec.C12
/-
C12 — each check result is routed to the right sink with its own payload.

Property theorems only (helper lemmas are `private`).

Part A (routing) is about the post-processing step of every flow, for every list of payloads and EVERY
runner output (any results, any order — the runner is a parameter of the model):
  routing_staged / routing_proposed / routing_ineligible / routing_retries_source   exact sink contents
  routing_partition          the oracle predicate `routingOk` holds of the model, all inputs
  routing_retries_exact      retries = the producing payloads, for any selection/permutation of results
  routing_order_independent  permuting the runner's output permutes nothing but the order of the calls
  retryOld_*                 the pinned tree's positional pairing retries the wrong payload (witness)
  routing_retries_safe / routing_retries_count   for runs OUTSIDE the pipeline's contract too (unknown work ids,
                             more results than payloads): only payloads of the run are retried, with a failure's
                             interval, and exactly `retryCount` of them; retry_fallback_beyond / _position
  proposalsTick_no_empty / _keeps / _nil_or_error, sourceTick_cases, tick_error_routes_nothing,
  no_source_routes_nothing, checked_spec   the tick getters: nil source, failing Dequeue / builder, empty payloads

Part B (retry queue) is about every sequence of enqueues and dequeues, every iteration order of the
queue's map and every clock reading — no bounds anywhere (`Reach`); the two clauses that need the Go
runtime's guarantees (clock not running backwards, `range` over the whole map) are proved for `ReachGo`:
  retry_not_before_interval, retry_not_after_expiry (+ sharp form in queue_live), newer_block_replaces /
  older_block_keeps / enqueue_fresh, dequeue_marks_pending, dequeue_returns_due, retry_scheduled,
  queue_spec_safe (all histories), queue_spec (all Go-like histories): the oracle predicate `queueOk`.
-/
namespace AutoVerif.C12

/-! ## Part A — routing -/

/-! ### the three "filter" sinks: exact, for every runner output, no hypothesis -/

/-- staged = the eligible successes of the run (flows with a result-store sink), nothing else -/
theorem routing_staged (flow : Flow) (ue : CheckResult → Bool) (results : List Res) (payloads : List Payload) :
    (postProcess flow ue results payloads).staged = expectStaged flow results := by
  cases flow <;> simp [postProcess, combine, Flow.chain, PP.run, expectStaged, Flow.stages]

/-- proposed = the eligible successes of the run (proposal flows), nothing else -/
theorem routing_proposed (flow : Flow) (ue : CheckResult → Bool) (results : List Res) (payloads : List Payload) :
    (postProcess flow ue results payloads).proposed = expectProposed flow results := by
  cases flow <;> simp [postProcess, combine, Flow.chain, PP.run, expectProposed, Flow.proposes]

/-- recorded ineligible = the ineligible successes of the run (log flows), nothing else -/
theorem routing_ineligible (flow : Flow) (ue : CheckResult → Bool) (results : List Res) (payloads : List Payload) :
    (postProcess flow ue results payloads).ineligible = expectIneligible flow results := by
  cases flow <;> simp [postProcess, combine, Flow.chain, PP.run, expectIneligible, Flow.recordsIneligible]

/-- the retry sink is written by the retry post-processor only, and only in flows that have it -/
theorem routing_retries_source (flow : Flow) (ue : CheckResult → Bool) (results : List Res) (payloads : List Payload) :
    (postProcess flow ue results payloads).retries = if flow.retries then retryNew results payloads else [] := by
  cases flow <;> simp [postProcess, combine, Flow.chain, PP.run, Flow.retries]

/-- the three classes are mutually exclusive: no result reaches two sinks -/
theorem classes_exclusive (r : Res) :
    ¬ (r.succEligible ∧ r.succIneligible) ∧ ¬ (r.succEligible ∧ r.retryableFail) ∧ ¬ (r.succIneligible ∧ r.retryableFail) := by
  cases h : r.cr.eligible <;> cases h' : r.cr.retryable <;> by_cases hp : r.cr.pes = 0 <;>
    simp [Res.succEligible, Res.succIneligible, Res.retryableFail, h, h', hp]

/-- a result in none of the three classes (a non-retryable failure) reaches no sink of any flow -/
theorem non_retryable_failure_dropped (flow : Flow) (ue : CheckResult → Bool) (payloads : List Payload) (r : Res)
    (h1 : r.succEligible = false) (h2 : r.succIneligible = false) (h3 : r.retryableFail = false) :
    postProcess flow ue [r] payloads = {} := by
  cases flow <;> simp [postProcess, combine, Flow.chain, PP.run, retryNew, retryLoop, h1, h2, h3]

/-! ### the retry sink -/

/-- what the retry post-processor does with one result when some payload carries its work id -/
private def retryOf (ps : List Payload) (r : Res) : Option RetryRecord :=
  if r.retryableFail then (matchPayload ps r.cr).map (fun p => { payload := p, interval := r.retryInterval }) else none

private theorem matchPayload_some_of_carried {ps : List Payload} {r : Res} (h : carried ps r = true) :
    ∃ p, matchPayload ps r.cr = some p := by
  unfold matchPayload
  split
  · exact ⟨_, rfl⟩
  · simp only [carried, List.any_eq_true, decide_eq_true_eq] at h
    obtain ⟨p, hp, hw⟩ := h
    have hm : p ∈ candidates ps r.cr.workID := by simp [candidates, hp, hw]
    cases hc : candidates ps r.cr.workID with
    | nil => simp [hc] at hm
    | cons a t => exact ⟨a, by simp⟩

private theorem matchPayload_spec {ps : List Payload} {r : CheckResult} {p : Payload} (h : matchPayload ps r = some p) :
    p ∈ ps ∧ p.workID = r.workID ∧
      (blockMatch p r = true ∨ ∀ p' ∈ ps, p'.workID = r.workID → blockMatch p' r = false) := by
  unfold matchPayload at h
  split at h
  · rename_i q hq
    cases h
    have hm := List.mem_of_find?_eq_some hq
    have hb := List.find?_some hq
    simp only [candidates, List.mem_filter, decide_eq_true_eq] at hm
    exact ⟨hm.1, hm.2, Or.inl hb⟩
  · rename_i hnone
    have hm : p ∈ candidates ps r.workID := List.mem_of_mem_head? (by simp [h])
    simp only [candidates, List.mem_filter, decide_eq_true_eq] at hm
    refine ⟨hm.1, hm.2, Or.inr ?_⟩
    intro p' hp' hw
    have := List.find?_eq_none.mp hnone p' (by simp [candidates, hp', hw])
    simpa using this

private theorem retryLoop_eq (ps : List Payload) (rs : List Res) (i : Nat) (h : contractOk ps rs = true) :
    retryLoop ps i rs = rs.filterMap (retryOf ps) := by
  induction rs generalizing i with
  | nil => simp [retryLoop]
  | cons r rs ih =>
    simp only [contractOk, List.all_cons, Bool.and_eq_true, Bool.or_eq_true, Bool.not_eq_true'] at h
    have ih' := fun j => ih j (by simpa [contractOk] using h.2)
    unfold retryLoop
    by_cases hr : r.retryableFail = true
    · have hc : carried ps r = true := by rcases h.1 with h1 | h1 <;> simp_all
      obtain ⟨p, hp⟩ := matchPayload_some_of_carried hc
      simp [hr, hp, retryOf, ih']
    · simp [hr, retryOf, ih']

private theorem retry_keys (ps : List Payload) (rs : List Res) (h : contractOk ps rs = true) :
    (rs.filterMap (retryOf ps)).map retryKey = (rs.filter (·.retryableFail)).map failKey := by
  induction rs with
  | nil => simp
  | cons r rs ih =>
    simp only [contractOk, List.all_cons, Bool.and_eq_true, Bool.or_eq_true, Bool.not_eq_true'] at h
    have ih' := ih (by simpa [contractOk] using h.2)
    by_cases hr : r.retryableFail = true
    · have hc : carried ps r = true := by rcases h.1 with h1 | h1 <;> simp_all
      obtain ⟨p, hp⟩ := matchPayload_some_of_carried hc
      have hw := (matchPayload_spec hp).2.1
      simp [retryOf, hr, hp, ih', retryKey, failKey, hw]
    · simp [retryOf, hr, ih']

private theorem retry_justified (ps : List Payload) (rs : List Res) (e : RetryRecord)
    (he : e ∈ rs.filterMap (retryOf ps)) :
    ps.contains e.payload = true ∧ rs.any (justifies ps e) = true := by
  obtain ⟨r, hr, hre⟩ := List.mem_filterMap.mp he
  unfold retryOf at hre
  split at hre
  · rename_i hrf
    cases hm : matchPayload ps r.cr with
    | none => simp [hm] at hre
    | some p =>
      simp only [hm, Option.map_some, Option.some.injEq] at hre
      subst hre
      obtain ⟨h1, h2, h3⟩ := matchPayload_spec hm
      refine ⟨by simpa using h1, ?_⟩
      rw [List.any_eq_true]
      refine ⟨r, hr, ?_⟩
      simp only [justifies, hrf, h2, decide_true, Bool.and_self, Bool.true_and, Bool.or_eq_true,
        Bool.not_eq_true', List.any_eq_false, Bool.and_eq_true, decide_eq_true_eq, not_and, Bool.not_eq_true]
      rcases h3 with h3 | h3
      · exact Or.inl h3
      · exact Or.inr (fun x hx hw => h3 x hx hw)
  · simp at hre

private theorem isPerm_self {α : Type} [BEq α] [LawfulBEq α] (l : List α) : l.isPerm l = true :=
  List.isPerm_iff.mpr (List.Perm.refl l)

/-! ### the retry sink of EVERY run — the pipeline's contract kept or not -/

/-- whatever the runner returned (any number of results, any work ids): each record the retry post-processor
enqueues holds a payload OF THE RUN and the interval of a retryable failure of the run -/
theorem retryLoop_mem (ps : List Payload) (rs : List Res) (i : Nat) (e : RetryRecord) (he : e ∈ retryLoop ps i rs) :
    e.payload ∈ ps ∧ ∃ r ∈ rs, r.retryableFail = true ∧ r.retryInterval = e.interval := by
  induction rs generalizing i with
  | nil => simp [retryLoop] at he
  | cons r rs ih =>
    have lift : (e ∈ retryLoop ps (i + 1) rs) →
        e.payload ∈ ps ∧ ∃ r' ∈ r :: rs, r'.retryableFail = true ∧ r'.retryInterval = e.interval := by
      intro h
      obtain ⟨h1, r', hr', h2⟩ := ih _ h
      exact ⟨h1, r', List.mem_cons_of_mem _ hr', h2⟩
    unfold retryLoop at he
    by_cases hr : r.retryableFail = true
    · simp only [hr, if_true] at he
      cases hm : matchPayload ps r.cr with
      | some p =>
        simp only [hm, List.mem_cons] at he
        rcases he with he | he
        · subst he
          exact ⟨(matchPayload_spec hm).1, r, List.mem_cons_self, hr, rfl⟩
        · exact lift he
      | none =>
        simp only [hm] at he
        cases hg : ps[i]? with
        | some p =>
          simp only [hg, List.mem_cons] at he
          rcases he with he | he
          · subst he
            exact ⟨List.mem_of_getElem? hg, r, List.mem_cons_self, hr, rfl⟩
          · exact lift he
        | none =>
          simp only [hg] at he
          exact lift he
    · simp only [hr] at he
      exact lift he

/-- … and there is at most one record per retryable failure -/
theorem retryLoop_length (ps : List Payload) (rs : List Res) (i : Nat) :
    (retryLoop ps i rs).length ≤ (rs.filter (·.retryableFail)).length := by
  induction rs generalizing i with
  | nil => simp [retryLoop]
  | cons r rs ih =>
    unfold retryLoop
    by_cases hr : r.retryableFail = true
    · simp only [hr, if_true, List.filter_cons_of_pos, List.length_cons]
      cases matchPayload ps r.cr with
      | some p => simpa using ih (i + 1)
      | none =>
        cases ps[i]? with
        | some p => simpa using ih (i + 1)
        | none => exact Nat.le_succ_of_le (ih (i + 1))
    · simpa [hr] using ih (i + 1)

/-- a retryable failure whose work id NO payload carries, at a position past the payload list (the runner returned
more results than it was given payloads): nothing is enqueued for it (`if i >= len(payloads) { continue }`) -/
theorem retry_fallback_beyond (ps : List Payload) (i : Nat) (r : Res) (rest : List Res)
    (hnone : ∀ p ∈ ps, p.workID ≠ r.cr.workID) (hi : ps.length ≤ i) :
    retryLoop ps i (r :: rest) = retryLoop ps (i + 1) rest := by
  have hc : candidates ps r.cr.workID = [] := by
    simp only [candidates, List.filter_eq_nil_iff, decide_eq_true_eq]
    exact fun p hp => hnone p hp
  have hg : ps[i]? = none := List.getElem?_eq_none hi
  conv => lhs; unfold retryLoop
  by_cases hr : r.retryableFail = true <;> simp [hr, matchPayload, hc, hg]

/-- … and within the payload list the payload AT THAT POSITION is retried (the positional fallback) -/
theorem retry_fallback_position (ps : List Payload) (i : Nat) (r : Res) (rest : List Res) (p : Payload)
    (hnone : ∀ p ∈ ps, p.workID ≠ r.cr.workID) (hp : ps[i]? = some p) (hr : r.retryableFail = true) :
    retryLoop ps i (r :: rest) = { payload := p, interval := r.retryInterval } :: retryLoop ps (i + 1) rest := by
  have hc : candidates ps r.cr.workID = [] := by
    simp only [candidates, List.filter_eq_nil_iff, decide_eq_true_eq]
    exact fun p hp => hnone p hp
  conv => lhs; unfold retryLoop
  simp [hr, matchPayload, hc, hp]

private theorem matchPayload_isSome_eq_carried (ps : List Payload) (r : Res) :
    (matchPayload ps r.cr).isSome = carried ps r := by
  cases hc : carried ps r with
  | true =>
    obtain ⟨p, hp⟩ := matchPayload_some_of_carried hc
    simp [hp]
  | false =>
    cases hm : matchPayload ps r.cr with
    | none => rfl
    | some p =>
      obtain ⟨h1, h2, _⟩ := matchPayload_spec hm
      have : carried ps r = true := by
        simp only [carried, List.any_eq_true, decide_eq_true_eq]
        exact ⟨p, h1, h2⟩
      simp [hc] at this

/-- the retry post-processor enqueues exactly `retryCount` records, whatever the runner returned -/
theorem retryLoop_count (ps : List Payload) (rs : List Res) (i : Nat) :
    (retryLoop ps i rs).length = retryCount ps i rs := by
  induction rs generalizing i with
  | nil => simp [retryLoop, retryCount]
  | cons r rs ih =>
    unfold retryLoop retryCount
    by_cases hr : r.retryableFail = true
    · have hc := matchPayload_isSome_eq_carried ps r
      cases hm : matchPayload ps r.cr with
      | some p =>
        have : carried ps r = true := by simpa [hm] using hc.symm
        simp [hr, this, ih (i + 1), Nat.add_comm]
      | none =>
        have hcf : carried ps r = false := by simpa [hm] using hc.symm
        by_cases hi : i < ps.length
        · simp [hr, hcf, hi, ih (i + 1), Nat.add_comm]
        · simp [hr, hcf, hi, ih (i + 1)]
    · simp [hr, ih (i + 1)]

/-- **routing_retries_count** — every run schedules exactly the retries it must: one per retryable failure that has
a payload (by work id, or by position when no payload carries its work id), none for a retryable failure of an
unknown work id past the payload list; no hypothesis on the runner's output -/
theorem routing_retries_count (flow : Flow) (ue : CheckResult → Bool) (value : List Payload) (results : List Res) :
    retriesCounted flow [(value, results)] (postProcess flow ue results value).retries = true := by
  rw [routing_retries_source]
  unfold retriesCounted
  by_cases hf : flow.retries = true
  · simp [hf, retryNew, retryLoop_count]
  · simp [hf]

/-- **routing_retries_safe** — "nothing else is retried", with no hypothesis on the runner's output -/
theorem routing_retries_safe (flow : Flow) (ue : CheckResult → Bool) (value : List Payload) (results : List Res) :
    retriesSafe flow value results (postProcess flow ue results value).retries = true := by
  rw [routing_retries_source]
  unfold retriesSafe
  by_cases hf : flow.retries = true
  · simp only [hf, if_true, retryNew, Bool.and_eq_true, List.all_eq_true, decide_eq_true_eq]
    refine ⟨fun e he => ?_, retryLoop_length value results 0⟩
    obtain ⟨h1, r, hr, h2, h3⟩ := retryLoop_mem value results 0 e he
    refine ⟨by simpa using h1, ?_⟩
    rw [List.any_eq_true]
    exact ⟨r, hr, by simp [h2, h3]⟩
  · simp [hf]

/-- **routing_partition** — C12's routing clause as the decidable predicate the oracle evaluates on the real
sinks, for every flow, every payload list and every runner output (any results in any order):
staged = eligible successes; proposed = eligible successes (proposal flows); recorded ineligible =
ineligible successes (log flows); one retry per retryable failure, of a payload OF THAT FAILURE'S WORK ID
(the one at the failure's check block and hash whenever the run has it), with the failure's interval;
nothing else anywhere. -/
theorem routing_partition (flow : Flow) (ue : CheckResult → Bool) (value : List Payload) (results : List Res) :
    routingOk flow value results (postProcess flow ue results value) = true := by
  unfold routingOk stagedOk proposedOk ineligibleOk
  rw [routing_staged, routing_proposed, routing_ineligible, isPerm_self, isPerm_self, isPerm_self, routing_retries_safe]
  simp only [Bool.and_self, Bool.true_and, Bool.or_eq_true, Bool.not_eq_true']
  by_cases hc : contractOk value results = true
  · right
    rw [routing_retries_source]
    unfold retriesOk
    by_cases hf : flow.retries = true
    · simp only [hf, if_true, retryNew, retryLoop_eq value results 0 hc, retry_keys value results hc, isPerm_self,
        Bool.true_and, List.all_eq_true, Bool.and_eq_true]
      exact fun e he => retry_justified value results e he
    · simp [hf]
  · left; simpa using hc

/-- **retries are exactly the producing payloads.**  `runs` pairs every payload with the result the
pipeline has for it; the runner may return ANY selection `pick` of these pairs in ANY order (cached first,
batches in completion order, failed batches missing, …).  Then the retry queue receives, for each retryable
failure that came back, exactly the payload that produced it with that failure's interval — in the
runner's order, and nothing else. -/
theorem routing_retries_exact (runs pick : List (Payload × Res))
    (hf : Faithful runs) (hd : DistinctKeys (runs.map (·.1))) (hpick : ∀ x ∈ pick, x ∈ runs) :
    retryNew (pick.map (·.2)) (runs.map (·.1)) =
      (pick.filter (fun x => x.2.retryableFail)).map (fun x => { payload := x.1, interval := x.2.retryInterval }) := by
  have hmatch : ∀ x ∈ runs, matchPayload (runs.map (·.1)) x.2.cr = some x.1 := by
    intro x hx
    have hx1 : x.1 ∈ runs.map (·.1) := List.mem_map.mpr ⟨x, hx, rfl⟩
    obtain ⟨hw, hb⟩ := hf x hx
    have hcar : carried (runs.map (·.1)) x.2 = true := by
      simp only [carried, List.any_eq_true, decide_eq_true_eq]
      exact ⟨x.1, hx1, hw.symm⟩
    obtain ⟨p, hp⟩ := matchPayload_some_of_carried hcar
    obtain ⟨h1, h2, h3⟩ := matchPayload_spec hp
    have hbp : blockMatch p x.2.cr = true := by
      rcases h3 with h3 | h3
      · exact h3
      · have := h3 x.1 hx1 hw.symm
        simp [hb] at this
    simp only [blockMatch, Bool.and_eq_true, decide_eq_true_eq] at hb hbp
    rw [hp, hd p h1 x.1 hx1 (by rw [h2, hw]) (by omega) (by rw [hbp.2, hb.2])]
  have hc : contractOk (runs.map (·.1)) (pick.map (·.2)) = true := by
    simp only [contractOk, List.all_eq_true, List.mem_map, Bool.or_eq_true, Bool.not_eq_true']
    rintro r ⟨x, hx, rfl⟩
    right
    obtain ⟨hw, _⟩ := hf x (hpick x hx)
    simp only [carried, List.any_eq_true, decide_eq_true_eq]
    exact ⟨x.1, List.mem_map.mpr ⟨x, hpick x hx, rfl⟩, hw.symm⟩
  rw [retryNew, retryLoop_eq _ _ 0 hc]
  clear hc
  induction pick with
  | nil => simp
  | cons x pick ih =>
    have hx := hmatch x (hpick x (by simp))
    have ih' := ih (fun y hy => hpick y (by simp [hy]))
    by_cases hr : x.2.retryableFail = true
    · simp [retryOf, hr, hx, ih']
    · simp [retryOf, hr, ih']

/-- **independence from the runner's order.**  Two runner outputs that are permutations of each other
(under the pipeline contract) fill every sink with the same multiset. -/
theorem routing_order_independent (flow : Flow) (ue : CheckResult → Bool) (value : List Payload)
    (rs₁ rs₂ : List Res) (hp : rs₁.Perm rs₂) (hc : contractOk value rs₁ = true) :
    ((postProcess flow ue rs₁ value).staged.Perm (postProcess flow ue rs₂ value).staged) ∧
    ((postProcess flow ue rs₁ value).proposed.Perm (postProcess flow ue rs₂ value).proposed) ∧
    ((postProcess flow ue rs₁ value).ineligible.Perm (postProcess flow ue rs₂ value).ineligible) ∧
    ((postProcess flow ue rs₁ value).retries.Perm (postProcess flow ue rs₂ value).retries) := by
  have hc2 : contractOk value rs₂ = true := by
    simp only [contractOk, List.all_eq_true] at hc ⊢
    exact fun r hr => hc r (hp.mem_iff.mpr hr)
  simp only [routing_staged, routing_proposed, routing_ineligible, routing_retries_source, expectStaged,
    expectProposed, expectIneligible, retryNew, retryLoop_eq _ _ 0 hc, retryLoop_eq _ _ 0 hc2]
  refine ⟨?_, ?_, ?_, ?_⟩
  · split
    · exact (hp.filter _).map _
    · exact List.Perm.refl _
  · split
    · exact (hp.filter _).map _
    · exact List.Perm.refl _
  · split
    · exact (hp.filter _).map _
    · exact List.Perm.refl _
  · split
    · exact hp.filterMap _
    · exact List.Perm.refl _

/-- `Observer.Process` hands the post-processor the PRE-PROCESSED payloads together with whatever the
runner returned for them; if the tick, a pre-processor or the runner fails, nothing is routed -/
theorem process_routes (flow : Flow) (ue : CheckResult → Bool) (tick : Option (List Payload))
    (pre : List (List Payload → Option (List Payload))) (runner : List Payload → Option (List Res)) :
    (process flow ue tick pre runner).sinks =
      match tick.bind (preProcess pre) with
      | none => {}
      | some value => match runner value with
        | none => {}
        | some results => postProcess flow ue results value := by
  unfold process
  cases tick with
  | none => simp
  | some v =>
    simp only [Option.bind_some]
    cases preProcess pre v with
    | none => simp
    | some v' => cases h : runner v' <;> simp [h]

/-! ### tick getters -/

theorem skipEmpty_eq_filter (b : List Payload) : skipEmpty b = b.filter (fun p => !payloadEmpty p) := by
  induction b with
  | nil => rfl
  | cons p ps ih => by_cases h : payloadEmpty p = true <;> simp [skipEmpty, h, ih]

/-- a final flow's tick never carries an empty payload (`if p.IsEmpty() { continue }`) … -/
theorem proposalsTick_no_empty {q : Option (Option (List Proposal))} {build : List Proposal → Option (List Payload)}
    {v : List Payload} (h : proposalsTick q build = some v) : ∀ p ∈ v, payloadEmpty p = false := by
  intro p hp
  unfold proposalsTick at h
  split at h
  · cases h; simp at hp
  · simp at h
  · split at h
    · simp at h
    · cases h
      rw [skipEmpty_eq_filter, List.mem_filter] at hp
      simpa using hp.2

/-- … and carries every other payload the builder returned, in the builder's order -/
theorem proposalsTick_keeps (props : List Proposal) (build : List Proposal → Option (List Payload)) (built : List Payload)
    (hb : build props = some built) :
    proposalsTick (some (some props)) build = some (built.filter (fun p => !payloadEmpty p)) := by
  simp [proposalsTick, hb, skipEmpty_eq_filter]

/-- no queue: an empty tick, no error; a failing `Dequeue` or builder: an error -/
theorem proposalsTick_nil_or_error (build : List Proposal → Option (List Payload)) (props : List Proposal) :
    proposalsTick none build = some [] ∧ proposalsTick (some none) build = none ∧
    (build props = none → proposalsTick (some (some props)) build = none) := by
  refine ⟨rfl, rfl, fun h => ?_⟩
  simp [proposalsTick, h]

theorem sourceTick_cases (ps : List Payload) :
    sourceTick none = some [] ∧ sourceTick (some none) = none ∧ sourceTick (some (some ps)) = some ps := ⟨rfl, rfl, rfl⟩

/-- a tick whose getter failed (`Dequeue` error, builder error) routes nothing and is reported as failed -/
theorem tick_error_routes_nothing (flow : Flow) (ue : CheckResult → Bool)
    (pre : List (List Payload → Option (List Payload))) (runner : List Payload → Option (List Res)) :
    process flow ue none pre runner = { sinks := {}, failed := true } := rfl

/-- a flow built without a source (nil provider / nil queue): its ticks carry no payloads; with a runner that
answers nothing to nothing, no sink is written and the tick is not a failure -/
theorem no_source_routes_nothing (flow : Flow) (ue : CheckResult → Bool)
    (pre : List (List Payload → Option (List Payload))) (runner : List Payload → Option (List Res))
    (hpre : preProcess pre [] = some []) (hrun : runner [] = some []) :
    process flow ue (sourceTick none) pre runner = { sinks := {}, failed := false } := by
  have : postProcess flow ue [] [] = {} := by
    cases flow <;> simp [postProcess, combine, Flow.chain, PP.run, retryNew, retryLoop]
  simp [process, sourceTick, hpre, hrun, this]

/-- **checked_spec** — over any sequence of final-flow ticks, what reaches the runner satisfies the oracle
predicate `checkedOk`: never an empty payload, and exactly the builder's non-empty payloads the coordinator lets pass -/
theorem checked_spec (keep : Payload → Bool) (built : List (List Payload)) :
    checkedOk keep built (checkedOf keep built) = true := by
  have heq : checkedOf keep built = (built.flatMap id).filter (fun p => !payloadEmpty p && keep p) := by
    induction built with
    | nil => rfl
    | cons b bs ih =>
      simp only [checkedOf, List.flatMap_cons, id, List.filter_append] at ih ⊢
      rw [ih, skipEmpty_eq_filter, List.filter_filter]
      congr 1
      apply List.filter_congr
      intro x _
      exact Bool.and_comm _ _
  unfold checkedOk
  rw [Bool.and_eq_true]
  refine ⟨?_, by rw [heq]; exact isPerm_self _⟩
  rw [heq, List.all_eq_true]
  intro p hp
  have := (List.mem_filter.mp hp).2
  simp only [Bool.and_eq_true] at this
  exact this.1

/-! ### the pinned tree's positional pairing (`payloads[i]`) -/

private def pl (wid : String) (b : Nat) : Payload :=
  { upkeepID := "u" ++ wid, trigger := { blockNumber := b, blockHash := "h", ext := none }, workID := wid }

private def rs (wid : String) (b : Nat) (pes : Nat) (retryable eligible : Bool) (iv : Int) : Res :=
  { cr := { pes := pes, retryable := retryable, eligible := eligible, reason := 0, upkeepID := "u" ++ wid,
            trigger := { blockNumber := b, blockHash := "h", ext := none }, workID := wid, gas := 1,
            performData := "", fastGasWei := some 1, linkNative := some 1 },
    retryInterval := iv }

/-- payloads `[A, B]`; `B` is served from the runner's cache, so the runner returns `[B ok, A retryable]`:
the positional pairing schedules **B** for retry and never retries `A`; the work-id pairing retries `A` -/
theorem retryOld_wrong_payload :
    retryOld [rs "B" 10 0 false true 0, rs "A" 10 1 true false 7] [pl "A" 10, pl "B" 10]
      = [{ payload := pl "B" 10, interval := 7 }] ∧
    retryNew [rs "B" 10 0 false true 0, rs "A" 10 1 true false 7] [pl "A" 10, pl "B" 10]
      = [{ payload := pl "A" 10, interval := 7 }] := by
  decide

/-- the same run, judged by the oracle predicate: the pinned tree violates C12, the current code does not -/
theorem retryOld_violates_routing :
    routingOk .logTrigger [pl "A" 10, pl "B" 10] [rs "B" 10 0 false true 0, rs "A" 10 1 true false 7]
      (postProcessOld .logTrigger (fun _ => false) [rs "B" 10 0 false true 0, rs "A" 10 1 true false 7] [pl "A" 10, pl "B" 10])
      = false ∧
    explainRouting .logTrigger [pl "A" 10, pl "B" 10] [rs "B" 10 0 false true 0, rs "A" 10 1 true false 7]
      (postProcessOld .logTrigger (fun _ => false) [rs "B" 10 0 false true 0, rs "A" 10 1 true false 7] [pl "A" 10, pl "B" 10])
      = "retries do not match the retryable failures by work id (wrong payload retried, retry missing or extra)" := by
  decide

/-- the positional pairing depends on the runner's order: with the results in payload order it is right -/
theorem retryOld_order_dependent :
    retryOld [rs "A" 10 1 true false 7, rs "B" 10 0 false true 0] [pl "A" 10, pl "B" 10]
      = [{ payload := pl "A" 10, interval := 7 }] := by
  decide

/-- the contract hypothesis of `routing_order_independent` is needed: for a retryable failure whose work id
no payload carries, the current code falls back to the position, which depends on the runner's order -/
theorem fallback_order_dependent :
    retryNew [rs "X" 10 1 true false 7, rs "B" 10 0 false true 0] [pl "A" 10, pl "B" 10]
      = [{ payload := pl "A" 10, interval := 7 }] ∧
    retryNew [rs "B" 10 0 false true 0, rs "X" 10 1 true false 7] [pl "A" 10, pl "B" 10]
      = [{ payload := pl "B" 10, interval := 7 }] := by
  decide

/-! ### non-vacuity of Part A -/

/-- a run of the log-trigger flow with all four classes, two payloads of one work id at different check
blocks, and the runner returning the results in an order different from the payloads -/
example :
    let value := [pl "A" 10, pl "B" 10, pl "C" 10, pl "D" 10, pl "A" 12]
    let results := [rs "C" 10 0 false false 0, rs "A" 12 2 true false 5, rs "D" 10 3 false false 0,
                    rs "B" 10 0 false true 0, rs "A" 10 1 true false 0]
    let s := postProcess .logTrigger (fun _ => false) results value
    contractOk value results = true ∧ routingOk .logTrigger value results s = true ∧
    s.staged.map (·.workID) = ["B"] ∧ s.ineligible.map (·.workID) = ["C"] ∧
    s.retries = [{ payload := pl "A" 12, interval := 5 }, { payload := pl "A" 10, interval := 0 }] := by
  decide

/-- hypotheses of `routing_retries_exact` are met by a non-trivial run (failed batch missing, permuted) -/
example :
    let runs := [(pl "A" 10, rs "A" 10 1 true false 7), (pl "B" 10, rs "B" 10 0 false true 0),
                 (pl "C" 11, rs "C" 11 2 true false 0), (pl "D" 10, rs "D" 10 1 true false 0)]
    let pick := [runs[1]!, runs[2]!, runs[0]!]
    (∀ x ∈ runs, x.2.cr.workID = x.1.workID ∧ blockMatch x.1 x.2.cr = true) ∧
    (∀ x ∈ pick, x ∈ runs) ∧
    retryNew (pick.map (·.2)) (runs.map (·.1)) =
      [{ payload := pl "C" 11, interval := 0 }, { payload := pl "A" 10, interval := 7 }] := by
  decide

/-! ## Part B — the retry queue, for every history -/

/-! ### the map -/

private theorem get_put_self (q : Queue) (k : String) (r : Rec) : get (put q k r) k = some r := by
  induction q with
  | nil => simp [put, get]
  | cons x t ih =>
    obtain ⟨k', r'⟩ := x
    by_cases h : k' = k <;> simp [put, get, h, ih]

private theorem get_put_ne (q : Queue) {k k' : String} (r : Rec) (h : k ≠ k') : get (put q k r) k' = get q k' := by
  induction q with
  | nil => simp [put, get, h]
  | cons x t ih =>
    obtain ⟨k'', r''⟩ := x
    by_cases h1 : k'' = k
    · subst h1; simp [put, get, h]
    · by_cases h2 : k'' = k'
      · subst h2; simp [put, get, h1]
      · simp [put, get, h1, h2, ih]

private theorem get_del_self (q : Queue) (k : String) : get (del q k) k = none := by
  induction q with
  | nil => simp [del, get]
  | cons x t ih =>
    obtain ⟨k', r'⟩ := x
    by_cases h : k' = k <;> simp [del, get, h, ih]

private theorem get_del_ne (q : Queue) {k k' : String} (h : k ≠ k') : get (del q k) k' = get q k' := by
  induction q with
  | nil => simp [del, get]
  | cons x t ih =>
    obtain ⟨k'', r''⟩ := x
    by_cases h1 : k'' = k
    · subst h1; simp [del, get, h, ih]
    · by_cases h2 : k'' = k'
      · subst h2; simp [del, get, h1]
      · simp [del, get, h1, h2, ih]

/-- every record is filed under its payload's work id -/
private def WF (q : Queue) : Prop := ∀ k r, get q k = some r → r.payload.workID = k

/-! ### one `Enqueue` -/

/-- the record `Enqueue` leaves for the work id of `r` -/
private theorem get_enqueue_self (cfg : Cfg) (now : Nat) (q : Queue) (r : RetryRecord) :
    get (enqueue cfg now q r) r.payload.workID = some
      (match get q r.payload.workID with
       | some old =>
         { payload := if r.payload.trigger.blockNumber > old.payload.trigger.blockNumber then r.payload else old.payload,
           interval := effInterval cfg r.interval, pending := false, createdAt := old.createdAt, updatedAt := now }
       | none =>
         { payload := r.payload, interval := effInterval cfg r.interval, pending := false, createdAt := now, updatedAt := now }) := by
  unfold enqueue
  simp only [get_put_self]
  cases h : get q r.payload.workID with
  | none => simp
  | some old => by_cases hb : r.payload.trigger.blockNumber > old.payload.trigger.blockNumber <;> simp [hb]

private theorem get_enqueue_ne (cfg : Cfg) (now : Nat) (q : Queue) (r : RetryRecord) {k : String}
    (h : r.payload.workID ≠ k) : get (enqueue cfg now q r) k = get q k := by
  unfold enqueue
  exact get_put_ne _ _ h

/-- **newer_block_replaces** — an enqueued payload with a strictly higher check block replaces the stored
one (for any queue state, hence at any point of any history); the record's creation time is kept, its
retry clock restarts, it is no longer pending and it takes the new interval -/
theorem newer_block_replaces (cfg : Cfg) (now : Nat) (q : Queue) (r : RetryRecord) (old : Rec)
    (hold : get q r.payload.workID = some old)
    (hnew : r.payload.trigger.blockNumber > old.payload.trigger.blockNumber) :
    get (enqueue cfg now q r) r.payload.workID = some
      { payload := r.payload, interval := effInterval cfg r.interval, pending := false,
        createdAt := old.createdAt, updatedAt := now } := by
  rw [get_enqueue_self, hold]; simp [hnew]

/-- … and a payload whose check block is not higher does not: the stored payload stays (everything else
is refreshed in the same way) -/
theorem older_block_keeps (cfg : Cfg) (now : Nat) (q : Queue) (r : RetryRecord) (old : Rec)
    (hold : get q r.payload.workID = some old)
    (hnew : r.payload.trigger.blockNumber ≤ old.payload.trigger.blockNumber) :
    get (enqueue cfg now q r) r.payload.workID = some
      { payload := old.payload, interval := effInterval cfg r.interval, pending := false,
        createdAt := old.createdAt, updatedAt := now } := by
  rw [get_enqueue_self, hold]
  have : ¬ r.payload.trigger.blockNumber > old.payload.trigger.blockNumber := by omega
  simp [this]

/-- a work id the queue does not hold gets a fresh record created `now` -/
theorem enqueue_fresh (cfg : Cfg) (now : Nat) (q : Queue) (r : RetryRecord)
    (hnone : get q r.payload.workID = none) :
    get (enqueue cfg now q r) r.payload.workID = some
      { payload := r.payload, interval := effInterval cfg r.interval, pending := false,
        createdAt := now, updatedAt := now } := by
  rw [get_enqueue_self, hnone]

/-- `Enqueue` touches no other work id -/
theorem enqueue_other (cfg : Cfg) (now : Nat) (q : Queue) (r : RetryRecord) (k : String)
    (h : r.payload.workID ≠ k) : get (enqueue cfg now q r) k = get q k :=
  get_enqueue_ne cfg now q r h

private theorem wf_enqueue (cfg : Cfg) (now : Nat) (q : Queue) (r : RetryRecord) (h : WF q) :
    WF (enqueue cfg now q r) := by
  intro k rec hk
  by_cases hkk : r.payload.workID = k
  · subst hkk
    rw [get_enqueue_self] at hk
    cases hq : get q r.payload.workID with
    | none => simp [hq] at hk; subst hk; rfl
    | some old =>
      simp only [hq, Option.some.injEq] at hk
      subst hk
      have := h _ _ hq
      by_cases hb : r.payload.trigger.blockNumber > old.payload.trigger.blockNumber <;> simp [hb, this]
  · rw [get_enqueue_ne cfg now q r hkk] at hk
    exact h k rec hk

/-! ### one `Dequeue` -/

private theorem wf_del (q : Queue) (k : String) (h : WF q) : WF (del q k) := by
  intro k' r hk
  by_cases hkk : k = k'
  · subst hkk; simp [get_del_self] at hk
  · rw [get_del_ne q hkk] at hk; exact h k' r hk

private theorem wf_put (q : Queue) (k : String) (r : Rec) (h : WF q) (hr : r.payload.workID = k) : WF (put q k r) := by
  intro k' r' hk
  by_cases hkk : k = k'
  · subst hkk; simp [get_put_self] at hk; subst hk; exact hr
  · rw [get_put_ne q r hkk] at hk; exact h k' r' hk

private theorem rec_pending_false (r : Rec) : { r with pending := r.pending || false } = r := by
  cases r; simp

/-- what one run of the `Dequeue` loop does, for every iteration order -/
private theorem loop_spec (cfg : Cfg) (now n : Nat) :
    ∀ (order : List String) (q : Queue) (out : List Payload) (q' : Queue) (out' : List Payload),
      WF q → dequeueLoop cfg now n order q out = (q', out') →
      ∃ new, out' = out ++ new ∧ WF q' ∧
        (∀ p ∈ new, ∃ rec, get q p.workID = some rec ∧ rec.payload = p ∧ rec.pending = false ∧
            expired cfg now rec = false ∧ elapsed now rec = true) ∧
        (∀ k rec', get q' k = some rec' → ∃ rec, get q k = some rec ∧
            rec' = { rec with pending := rec.pending || new.any (fun p => decide (p.workID = k)) }) ∧
        (∀ k rec, get q k = some rec → get q' k = none → expired cfg now rec = true) ∧
        (new.map (·.workID)).Nodup ∧
        out'.length ≤ max n (out.length + 1) := by
  intro order
  induction order with
  | nil =>
    intro q out q' out' hwf h
    simp only [dequeueLoop, Prod.mk.injEq] at h
    obtain ⟨rfl, rfl⟩ := h
    refine ⟨[], by simp, hwf, by simp, ?_, ?_, by simp, by omega⟩
    · intro k rec' hk
      exact ⟨rec', hk, by simp⟩
    · intro k rec hk hn; simp [hk] at hn
  | cons k ks ih =>
    intro q out q' out' hwf h
    unfold dequeueLoop at h
    cases hg : get q k with
    | none => simp only [hg] at h; exact ih q out q' out' hwf h
    | some r =>
      simp only [hg] at h
      have hrk : r.payload.workID = k := hwf k r hg
      by_cases hex : expired cfg now r = true
      · -- expired: the record is deleted
        simp only [hex, if_true] at h
        obtain ⟨new, h0, h1, h2, h3, h4, h5, h6⟩ := ih (del q k) out q' out' (wf_del q k hwf) h
        refine ⟨new, h0, h1, ?_, ?_, ?_, h5, h6⟩
        · intro p hp
          obtain ⟨rec, hr1, hr2⟩ := h2 p hp
          have hne : k ≠ p.workID := by
            intro e; rw [← e, get_del_self] at hr1; simp at hr1
          rw [get_del_ne q hne] at hr1
          exact ⟨rec, hr1, hr2⟩
        · intro k' rec' hk'
          obtain ⟨rec, hr1, hr2⟩ := h3 k' rec' hk'
          have hne : k ≠ k' := by
            intro e; rw [← e, get_del_self] at hr1; simp at hr1
          rw [get_del_ne q hne] at hr1
          exact ⟨rec, hr1, hr2⟩
        · intro k' rec hk' hn
          by_cases hne : k = k'
          · subst hne; rw [hg] at hk'; cases hk'; exact hex
          · exact h4 k' rec (by rw [get_del_ne q hne]; exact hk') hn
      · simp only [hex, Bool.false_eq_true, if_false] at h
        by_cases hpe : r.pending = true
        · simp only [hpe, if_true] at h; exact ih q out q' out' hwf h
        · simp only [hpe, Bool.false_eq_true, if_false] at h
          by_cases hel : elapsed now r = true
          · simp only [hel, if_true] at h
            have hwf1 : WF (put q k { r with pending := true }) := wf_put q k _ hwf hrk
            have hg1 : get (put q k { r with pending := true }) k = some { r with pending := true } := get_put_self _ _ _
            by_cases hbr : (out ++ [r.payload]).length ≥ n
            · -- break
              simp only [hbr, if_true, Prod.mk.injEq] at h
              obtain ⟨rfl, rfl⟩ := h
              refine ⟨[r.payload], rfl, hwf1, ?_, ?_, ?_, by simp, ?_⟩
              · intro p hp
                simp only [List.mem_singleton] at hp
                subst hp
                exact ⟨r, by rw [hrk]; exact hg, rfl, by simpa using hpe, by simpa using hex, hel⟩
              · intro k' rec' hk'
                by_cases hne : k = k'
                · subst hne
                  rw [hg1] at hk'; cases hk'
                  exact ⟨r, hg, by simp [hrk]⟩
                · rw [get_put_ne q _ hne] at hk'
                  refine ⟨rec', hk', ?_⟩
                  have : ¬ r.payload.workID = k' := by rw [hrk]; exact hne
                  simp [this]
              · intro k' rec hk' hn
                by_cases hne : k = k'
                · subst hne; rw [hg1] at hn; simp at hn
                · rw [get_put_ne q _ hne, hk'] at hn; simp at hn
              · simp only [List.length_append, List.length_cons, List.length_nil]; omega
            · -- continue
              simp only [hbr, if_false] at h
              obtain ⟨new, h0, h1, h2, h3, h4, h5, h6⟩ :=
                ih (put q k { r with pending := true }) (out ++ [r.payload]) q' out' hwf1 h
              have hnot : ∀ p ∈ new, p.workID ≠ k := by
                intro p hp e
                obtain ⟨rec, hr1, _, hr3, _⟩ := h2 p hp
                rw [e, hg1] at hr1; cases hr1; simp at hr3
              refine ⟨r.payload :: new, by simp [h0], h1, ?_, ?_, ?_, ?_, ?_⟩
              · intro p hp
                rcases List.mem_cons.mp hp with hp | hp
                · subst hp
                  exact ⟨r, by rw [hrk]; exact hg, rfl, by simpa using hpe, by simpa using hex, hel⟩
                · obtain ⟨rec, hr1, hr2⟩ := h2 p hp
                  have hne : k ≠ p.workID := fun e => hnot p hp e.symm
                  rw [get_put_ne q _ hne] at hr1
                  exact ⟨rec, hr1, hr2⟩
              · intro k' rec' hk'
                obtain ⟨rec, hr1, hr2⟩ := h3 k' rec' hk'
                by_cases hne : k = k'
                · subst hne
                  rw [hg1] at hr1; cases hr1
                  exact ⟨r, hg, by simp [hr2, hrk]⟩
                · rw [get_put_ne q _ hne] at hr1
                  refine ⟨rec, hr1, ?_⟩
                  have : ¬ r.payload.workID = k' := by rw [hrk]; exact hne
                  simp [hr2, this]
              · intro k' rec hk' hn
                by_cases hne : k = k'
                · subst hne
                  rw [hg] at hk'; cases hk'
                  exact h4 k { r with pending := true } hg1 hn
                · exact h4 k' rec (by rw [get_put_ne q _ hne]; exact hk') hn
              · simp only [List.map_cons, List.nodup_cons]
                refine ⟨?_, h5⟩
                intro hm
                obtain ⟨p, hp, hpk⟩ := List.mem_map.mp hm
                exact hnot p hp (by rw [hpk, hrk])
              · simp only [List.length_append, List.length_cons, List.length_nil, ge_iff_le, Nat.not_le] at hbr h6 ⊢
                omega
          · simp only [hel, Bool.false_eq_true, if_false] at h; exact ih q out q' out' hwf h

/-- `loop_spec` for a whole `Dequeue` -/
private theorem dequeue_spec (cfg : Cfg) (now n : Nat) (order : List String) (q : Queue) (hwf : WF q) :
    WF (dequeue cfg now n order q).1 ∧
    (∀ p ∈ (dequeue cfg now n order q).2, ∃ rec, get q p.workID = some rec ∧ rec.payload = p ∧ rec.pending = false ∧
        expired cfg now rec = false ∧ elapsed now rec = true) ∧
    (∀ k rec', get (dequeue cfg now n order q).1 k = some rec' → ∃ rec, get q k = some rec ∧
        rec' = { rec with pending := rec.pending || (dequeue cfg now n order q).2.any (fun p => decide (p.workID = k)) }) ∧
    (∀ k rec, get q k = some rec → get (dequeue cfg now n order q).1 k = none → expired cfg now rec = true) ∧
    ((dequeue cfg now n order q).2.map (·.workID)).Nodup ∧
    (dequeue cfg now n order q).2.length ≤ max n 1 := by
  obtain ⟨new, h0, h1, h2, h3, h4, h5, h6⟩ := loop_spec cfg now n order q [] (dequeue cfg now n order q).1
    (dequeue cfg now n order q).2 hwf rfl
  simp only [List.nil_append] at h0
  rw [← h0] at h2 h3 h5
  exact ⟨h1, h2, h3, h4, h5, by simpa using h6⟩

/-! ### histories -/

/-- how a stored record relates to the history -/
private structure RecOk (cfg : Cfg) (log : List Ev) (k : String) (rec : Rec) : Prop where
  wid : rec.payload.workID = k
  last : ∃ t r, lastEnq log k = some (t, r) ∧ rec.updatedAt = t ∧ rec.interval = effInterval cfg r.interval ∧
      r.payload.trigger.blockNumber ≤ rec.payload.trigger.blockNumber
  pend : rec.pending = handedSince log k
  created : log.any (isEnqOf k (fun t _ => decide (t = rec.createdAt))) = true
  wasEnq : wasEnqueued log rec.payload = true

private def QInv (cfg : Cfg) (log : List Ev) (q : Queue) : Prop := ∀ k rec, get q k = some rec → RecOk cfg log k rec

private theorem any_isEnqOf_cons_of (k : String) (f : Nat → RetryRecord → Bool) (ev : Ev) (log : List Ev)
    (h : log.any (isEnqOf k f) = true) : (ev :: log).any (isEnqOf k f) = true := by
  simp only [List.any_cons, Bool.or_eq_true]; exact Or.inr h

private theorem wf_of_inv {cfg log q} (h : QInv cfg log q) : WF q := fun k r hk => (h k r hk).wid

private theorem inv_enq {cfg : Cfg} {log : List Ev} {q : Queue} (t : Nat) (r : RetryRecord) (h : QInv cfg log q) :
    QInv cfg (.enq t r :: log) (enqueue cfg t q r) := by
  intro k rec hk
  by_cases hkk : r.payload.workID = k
  · subst hkk
    rw [get_enqueue_self] at hk
    cases hq : get q r.payload.workID with
    | none =>
      simp only [hq, Option.some.injEq] at hk
      subst hk
      refine ⟨rfl, ⟨t, r, by simp [lastEnq], rfl, rfl, Nat.le_refl _⟩, by simp [handedSince], ?_, ?_⟩
      · simp [List.any_cons, isEnqOf]
      · simp [wasEnqueued, List.any_cons, isEnqOf]
    | some old =>
      simp only [hq, Option.some.injEq] at hk
      subst hk
      have ho := h _ _ hq
      refine ⟨?_, ⟨t, r, by simp [lastEnq], rfl, rfl, ?_⟩, by simp [handedSince], ?_, ?_⟩
      · by_cases hb : r.payload.trigger.blockNumber > old.payload.trigger.blockNumber <;> simp [hb, ho.wid]
      · by_cases hb : r.payload.trigger.blockNumber > old.payload.trigger.blockNumber <;> simp [hb] <;> omega
      · exact any_isEnqOf_cons_of _ _ _ _ ho.created
      · by_cases hb : r.payload.trigger.blockNumber > old.payload.trigger.blockNumber
        · simp [hb, wasEnqueued, List.any_cons, isEnqOf]
        · simp only [hb, if_false]
          exact any_isEnqOf_cons_of _ _ _ _ ho.wasEnq
  · rw [get_enqueue_ne cfg t q r hkk] at hk
    have ho := h k rec hk
    refine ⟨ho.wid, ?_, ?_, any_isEnqOf_cons_of _ _ _ _ ho.created, any_isEnqOf_cons_of _ _ _ _ ho.wasEnq⟩
    · simpa [lastEnq, hkk] using ho.last
    · simpa [handedSince, hkk] using ho.pend

private theorem inv_deq {cfg : Cfg} {log : List Ev} {q : Queue} (t n : Nat) (order : List String) (h : QInv cfg log q) :
    QInv cfg (.deq t n (dequeue cfg t n order q).2 :: log) (dequeue cfg t n order q).1 := by
  obtain ⟨_, _, h3, _⟩ := dequeue_spec cfg t n order q (wf_of_inv h)
  intro k rec' hk
  obtain ⟨rec, hr1, hr2⟩ := h3 k rec' hk
  have ho := h k rec hr1
  subst hr2
  refine ⟨ho.wid, ?_, ?_, any_isEnqOf_cons_of _ _ _ _ ho.created, any_isEnqOf_cons_of _ _ _ _ ho.wasEnq⟩
  · simpa [lastEnq] using ho.last
  · simp only [handedSince, ho.pend]
    rw [Bool.or_comm]

private theorem reach_inv {cfg : Cfg} {log : List Ev} {q : Queue} (h : Reach cfg log q) : QInv cfg log q := by
  induction h with
  | init => intro k rec hk; simp [get] at hk
  | enq t r _ ih => exact inv_enq t r ih
  | deq t n order _ ih => exact inv_deq t n order ih

/-- everything a `Dequeue` hands out, in terms of the state before it -/
private theorem dequeue_out {cfg : Cfg} {log : List Ev} {q : Queue} (hreach : Reach cfg log q) (t n : Nat) (order : List String)
    (p : Payload) (hp : p ∈ (dequeue cfg t n order q).2) :
    ∃ rec, get q p.workID = some rec ∧ rec.payload = p ∧ rec.pending = false ∧ expired cfg t rec = false ∧
      elapsed t rec = true ∧ RecOk cfg log p.workID rec := by
  have hinv := reach_inv hreach
  obtain ⟨_, h2, _⟩ := dequeue_spec cfg t n order q (wf_of_inv hinv)
  obtain ⟨rec, hr1, hr2, hr3, hr4, hr5⟩ := h2 p hp
  exact ⟨rec, hr1, hr2, hr3, hr4, hr5, hinv _ _ hr1⟩

/-- **retry_not_before_interval** — in every history, a payload handed out by a `Dequeue` at time `now` was
last enqueued (under its work id) at some time `te` with `now > te + interval`, where `interval` is the one
given with THAT most recent enqueue if positive and the queue's default otherwise.  So every (re-)enqueue
restarts the clock, and nothing comes out at or before `te + interval`. -/
theorem retry_not_before_interval {cfg : Cfg} {log : List Ev} {q : Queue} (hreach : Reach cfg log q)
    (now n : Nat) (order : List String) (p : Payload) (hp : p ∈ (dequeue cfg now n order q).2) :
    ∃ te r, lastEnq log p.workID = some (te, r) ∧ now > te + effInterval cfg r.interval := by
  obtain ⟨rec, _, _, _, _, hel, hok⟩ := dequeue_out hreach now n order p hp
  obtain ⟨te, r, h1, h2, h3, _⟩ := hok.last
  refine ⟨te, r, h1, ?_⟩
  simp only [elapsed, decide_eq_true_eq] at hel
  omega

/-- **retry_not_after_expiry** — in every history, a payload handed out at time `now` belongs to a record
whose creation time `tc` is the time of an enqueue of that work id and `now ≤ tc + expiration`.
(Together with `enqueue_keeps_created` — re-enqueueing never moves `tc` — and `removed_only_if_expired` —
a record disappears only through a `Dequeue` at a time past `tc + expiration`.) -/
theorem retry_not_after_expiry {cfg : Cfg} {log : List Ev} {q : Queue} (hreach : Reach cfg log q)
    (now n : Nat) (order : List String) (p : Payload) (hp : p ∈ (dequeue cfg now n order q).2) :
    ∃ rec, get q p.workID = some rec ∧ now ≤ rec.createdAt + cfg.expiration ∧
      log.any (isEnqOf p.workID (fun t _ => decide (t = rec.createdAt))) = true := by
  obtain ⟨rec, h1, _, _, hex, _, hok⟩ := dequeue_out hreach now n order p hp
  refine ⟨rec, h1, ?_, hok.created⟩
  simp only [expired, decide_eq_false_iff_not, Nat.not_lt] at hex
  exact hex

/-- re-enqueueing a work id the queue still holds never moves its creation time: retries do not extend a
work id's life -/
theorem enqueue_keeps_created (cfg : Cfg) (now : Nat) (q : Queue) (r : RetryRecord) (old : Rec)
    (hold : get q r.payload.workID = some old) :
    ∃ rec, get (enqueue cfg now q r) r.payload.workID = some rec ∧ rec.createdAt = old.createdAt := by
  rw [get_enqueue_self, hold]; exact ⟨_, rfl, rfl⟩

/-- a record leaves the queue only through a `Dequeue` at a time past its expiry -/
theorem removed_only_if_expired {cfg : Cfg} {log : List Ev} {q : Queue} (hreach : Reach cfg log q)
    (now n : Nat) (order : List String) (k : String) (rec : Rec)
    (hk : get q k = some rec) (hgone : get (dequeue cfg now n order q).1 k = none) :
    now > rec.createdAt + cfg.expiration := by
  obtain ⟨_, _, _, h4, _⟩ := dequeue_spec cfg now n order q (wf_of_inv (reach_inv hreach))
  simpa [expired] using h4 k rec hk hgone

/-- **dequeue_marks_pending** — in every history: a handed-out work id had NOT been handed out since its most
recent enqueue (so between two hand-outs of a work id there is always a new enqueue of it), it is marked
pending afterwards, and no work id is handed out twice by one call -/
theorem dequeue_marks_pending {cfg : Cfg} {log : List Ev} {q : Queue} (hreach : Reach cfg log q)
    (now n : Nat) (order : List String) :
    (∀ p ∈ (dequeue cfg now n order q).2, handedSince log p.workID = false ∧
        ∃ rec', get (dequeue cfg now n order q).1 p.workID = some rec' ∧ rec'.pending = true ∧ rec'.payload = p) ∧
    ((dequeue cfg now n order q).2.map (·.workID)).Nodup := by
  have hinv := reach_inv hreach
  obtain ⟨_, h2, h3, h4, h5, _⟩ := dequeue_spec cfg now n order q (wf_of_inv hinv)
  refine ⟨?_, h5⟩
  intro p hp
  obtain ⟨rec, hq, hpl, hpend, hex, hel, hok⟩ := dequeue_out hreach now n order p hp
  refine ⟨by rw [← hok.pend]; exact hpend, ?_⟩
  cases hq' : get (dequeue cfg now n order q).1 p.workID with
  | none =>
    have := h4 _ _ hq hq'
    rw [hex] at this; simp at this
  | some rec' =>
    obtain ⟨rec0, hr1, hr2⟩ := h3 _ _ hq'
    rw [hq] at hr1; cases hr1
    refine ⟨rec', rfl, ?_, ?_⟩
    · subst hr2
      have : (dequeue cfg now n order q).2.any (fun p' => decide (p'.workID = p.workID)) = true := by
        rw [List.any_eq_true]; exact ⟨p, hp, by simp⟩
      simp [this]
    · subst hr2; exact hpl

/-- a pending or not-yet-due record is never handed out, whatever the iteration order (state-level converse) -/
theorem pending_or_early_not_returned {cfg : Cfg} {log : List Ev} {q : Queue} (hreach : Reach cfg log q)
    (now n : Nat) (order : List String) (k : String) (rec : Rec) (hk : get q k = some rec)
    (h : rec.pending = true ∨ now ≤ rec.updatedAt + rec.interval ∨ now > rec.createdAt + cfg.expiration) :
    ∀ p ∈ (dequeue cfg now n order q).2, p.workID ≠ k := by
  intro p hp e
  obtain ⟨rec', h1, _, h3, h4, h5, _⟩ := dequeue_out hreach now n order p hp
  rw [e, hk] at h1; cases h1
  simp only [expired, elapsed, decide_eq_false_iff_not, decide_eq_true_eq] at h4 h5
  rcases h with h | h | h
  · rw [h3] at h; simp at h
  · omega
  · omega

/-- **the stored payload is what comes out**: a handed-out payload was enqueued under its work id, and its
check block is not older than the most recently enqueued one for that work id -/
theorem dequeue_returns_enqueued {cfg : Cfg} {log : List Ev} {q : Queue} (hreach : Reach cfg log q)
    (now n : Nat) (order : List String) (p : Payload) (hp : p ∈ (dequeue cfg now n order q).2) :
    wasEnqueued log p = true ∧ notOlderThanLast log p = true := by
  obtain ⟨rec, _, hpl, _, _, _, hok⟩ := dequeue_out hreach now n order p hp
  subst hpl
  refine ⟨hok.wasEnq, ?_⟩
  obtain ⟨te, r, h1, _, _, h4⟩ := hok.last
  simp [notOlderThanLast, h1, h4]

/-- never more than `n` payloads (one, for `n = 0`: the length test comes after the append) -/
theorem dequeue_length (cfg : Cfg) {log : List Ev} {q : Queue} (hreach : Reach cfg log q) (now n : Nat) (order : List String) :
    (dequeue cfg now n order q).2.length ≤ max n 1 := by
  exact (dequeue_spec cfg now n order q (wf_of_inv (reach_inv hreach))).2.2.2.2.2

/-- **C12's queue clause as the decidable predicate the oracle evaluates on the real queue's log**: it holds
of the log of every history of the model -/
theorem queue_log_ok {cfg : Cfg} {log : List Ev} {q : Queue} (hreach : Reach cfg log q) : logOk cfg log = true := by
  induction hreach with
  | init => rfl
  | enq t r _ ih => simp [logOk, evOk, ih]
  | @deq log q t n order hr ih =>
    simp only [logOk, evOk, ih, Bool.and_true, Bool.and_eq_true, List.all_eq_true, decide_eq_true_eq]
    refine ⟨⟨?_, (dequeue_marks_pending hr t n order).2⟩, dequeue_length cfg hr t n order⟩
    intro p hp
    obtain ⟨te, r, h1, h2⟩ := retry_not_before_interval hr t n order p hp
    obtain ⟨rec, _, h3, h4⟩ := retry_not_after_expiry hr t n order p hp
    obtain ⟨h5, h6⟩ := dequeue_returns_enqueued hr t n order p hp
    have h7 := ((dequeue_marks_pending hr t n order).1 p hp).1
    simp only [retOk, notBeforeInterval, h1, h2, decide_true, h7, Bool.not_false, Bool.and_self, h5, h6,
      Bool.and_true, Bool.true_and]
    rw [enqWithin, List.any_eq_true]
    rw [List.any_eq_true] at h4
    obtain ⟨ev, hev, hev2⟩ := h4
    refine ⟨ev, hev, ?_⟩
    cases ev with
    | deq _ _ _ => simp [isEnqOf] at hev2
    | enq t' r' =>
      simp only [isEnqOf, Bool.and_eq_true, decide_eq_true_eq] at hev2 ⊢
      exact ⟨hev2.1, by omega⟩

/-- every sequence of calls yields a reachable state: the theorems above are about ALL op sequences -/
theorem reach_runOps (cfg : Cfg) (ops : List Op) : Reach cfg (runOps cfg ops).2 (runOps cfg ops).1 := by
  have gen : ∀ (ops : List Op) (st : Queue × List Ev), Reach cfg st.2 st.1 →
      Reach cfg (ops.foldl (step cfg) st).2 (ops.foldl (step cfg) st).1 := by
    intro ops
    induction ops with
    | nil => intro st h; exact h
    | cons op ops ih =>
      intro st h
      simp only [List.foldl_cons]
      apply ih
      cases op with
      | enq t r => exact Reach.enq t r h
      | deq t n order => exact Reach.deq t n order h
  exact gen ops ([], []) Reach.init

/-- **queue_spec_safe** — for EVERY sequence of enqueues and dequeues (custom or default intervals, any `n`,
any iteration order — even partial —, any clock readings) the chronological event log satisfies the safety
part `queueSafe` of the oracle predicate -/
theorem queue_spec_safe (cfg : Cfg) (ops : List Op) : queueSafe cfg (runOps cfg ops).2.reverse = true := by
  simp only [queueSafe, List.reverse_reverse]
  exact queue_log_ok (reach_runOps cfg ops)

/-! ### retries do come out -/

private theorem loop_due (cfg : Cfg) (now n : Nat) (k : String) (rec : Rec)
    (hp : rec.pending = false) (hex : expired cfg now rec = false) (hel : elapsed now rec = true) :
    ∀ (order : List String) (q : Queue) (out : List Payload), WF q → get q k = some rec → k ∈ order →
      rec.payload ∈ (dequeueLoop cfg now n order q out).2 ∨ n ≤ (dequeueLoop cfg now n order q out).2.length := by
  intro order
  induction order with
  | nil => intro q out _ _ hk; simp at hk
  | cons k₁ ks ih =>
    intro q out hwf hg hk
    by_cases hkk : k₁ = k
    · subst hkk
      unfold dequeueLoop
      simp only [hg, hex, hp, hel, Bool.false_eq_true, if_false, if_true]
      by_cases hbr : (out ++ [rec.payload]).length ≥ n
      · simp only [hbr, if_true]; left; simp
      · simp only [hbr, if_false]
        obtain ⟨new, h0, _⟩ := loop_spec cfg now n ks (put q k₁ { rec with pending := true }) (out ++ [rec.payload]) _ _
          (wf_put q k₁ _ hwf (hwf k₁ rec hg)) rfl
        left; rw [h0]; simp
    · have hk' : k ∈ ks := by
        rcases List.mem_cons.mp hk with h | h
        · exact absurd h.symm hkk
        · exact h
      unfold dequeueLoop
      cases hg1 : get q k₁ with
      | none => exact ih q out hwf hg hk'
      | some r₁ =>
        simp only []
        by_cases hex1 : expired cfg now r₁ = true
        · simp only [hex1, if_true]
          exact ih (del q k₁) out (wf_del q k₁ hwf) (by rw [get_del_ne q hkk]; exact hg) hk'
        · simp only [hex1, Bool.false_eq_true, if_false]
          by_cases hp1 : r₁.pending = true
          · simp only [hp1, if_true]; exact ih q out hwf hg hk'
          · simp only [hp1, Bool.false_eq_true, if_false]
            by_cases hel1 : elapsed now r₁ = true
            · simp only [hel1, if_true]
              by_cases hbr : (out ++ [r₁.payload]).length ≥ n
              · rw [if_pos hbr]; right; exact hbr
              · simp only [hbr, if_false]
                exact ih (put q k₁ { r₁ with pending := true }) (out ++ [r₁.payload])
                  (wf_put q k₁ _ hwf (hwf k₁ r₁ hg1)) (by rw [get_put_ne q _ hkk]; exact hg) hk'
            · simp only [hel1, Bool.false_eq_true, if_false]; exact ih q out hwf hg hk'

/-- a record that is due (not pending, interval elapsed, not expired) is handed out by any `Dequeue` whose
iteration reaches it — unless the call already returned `n` payloads -/
theorem dequeue_returns_due {cfg : Cfg} {log : List Ev} {q : Queue} (hreach : Reach cfg log q)
    (now n : Nat) (order : List String) (k : String) (rec : Rec) (hk : get q k = some rec) (hord : k ∈ order)
    (hp : rec.pending = false) (hel : now > rec.updatedAt + rec.interval) (hex : now ≤ rec.createdAt + cfg.expiration) :
    rec.payload ∈ (dequeue cfg now n order q).2 ∨ n ≤ (dequeue cfg now n order q).2.length :=
  loop_due cfg now n k rec hp (by simp [expired]; omega) (by simp [elapsed]; omega) order q []
    (wf_of_inv (reach_inv hreach)) hk hord

/-- **every retry that is scheduled is handed out once it is due**: after `Enqueue` of `r` at `t0`, any
`Dequeue` at a time past `t0 + interval` whose iteration reaches the work id hands out a payload of that
work id with a check block at least `r`'s — provided the record has not expired and the call is not
already full -/
theorem retry_scheduled {cfg : Cfg} {log : List Ev} {q : Queue} (hreach : Reach cfg log q)
    (t0 : Nat) (r : RetryRecord) (now n : Nat) (order : List String)
    (hord : r.payload.workID ∈ order) (hdue : now > t0 + effInterval cfg r.interval)
    (hnew : now ≤ t0 + cfg.expiration)
    (hlive : ∀ old, get q r.payload.workID = some old → now ≤ old.createdAt + cfg.expiration) :
    (∃ p ∈ (dequeue cfg now n order (enqueue cfg t0 q r)).2, p.workID = r.payload.workID ∧
        r.payload.trigger.blockNumber ≤ p.trigger.blockNumber) ∨
      n ≤ (dequeue cfg now n order (enqueue cfg t0 q r)).2.length := by
  have hreach' := Reach.enq t0 r hreach
  have hget := get_enqueue_self cfg t0 q r
  cases hq : get q r.payload.workID with
  | none =>
    rw [hq] at hget
    rcases dequeue_returns_due hreach' now n order _ _ hget hord rfl (by simpa using hdue) (by simpa using hnew) with h | h
    · exact Or.inl ⟨_, h, rfl, Nat.le_refl _⟩
    · exact Or.inr h
  | some old =>
    rw [hq] at hget
    have hwid := (reach_inv hreach _ _ hq).wid
    rcases dequeue_returns_due hreach' now n order _ _ hget hord rfl (by simpa using hdue) (by simpa using hlive old hq) with h | h
    · refine Or.inl ⟨_, h, ?_, ?_⟩
      · by_cases hb : r.payload.trigger.blockNumber > old.payload.trigger.blockNumber <;> simp [hb, hwid]
      · by_cases hb : r.payload.trigger.blockNumber > old.payload.trigger.blockNumber <;> simp [hb] <;> omega
    · exact Or.inr h

/-! ### what is due does come out: the liveness clause of the oracle predicate -/

private theorem reachGo_reach {cfg : Cfg} {log : List Ev} {q : Queue} (h : ReachGo cfg log q) : Reach cfg log q := by
  induction h with
  | init => exact Reach.init
  | enq t r _ _ ih => exact Reach.enq t r ih
  | deq t n order _ _ _ ih => exact Reach.deq t n order ih

private theorem minEnq_ne_none (k : String) (c : Nat) : ∀ (l : List Ev),
    l.any (isEnqOf k (fun t _ => decide (t = c))) = true → minEnqTime l k ≠ none := by
  intro l
  induction l with
  | nil => simp
  | cons e l ihl =>
    intro hl
    cases e with
    | deq _ _ _ => simp only [List.any_cons, isEnqOf, Bool.false_or] at hl; simpa [minEnqTime] using ihl hl
    | enq t' r' =>
      by_cases hk' : r'.payload.workID = k
      · simp only [minEnqTime, hk', if_true]; cases minEnqTime l k <;> simp
      · simp only [List.any_cons, isEnqOf, hk', decide_false, Bool.false_and, Bool.false_or] at hl
        simpa [minEnqTime, hk'] using ihl hl

private theorem minEnq_le_of_enq (log : List Ev) (k : String) (c t0 : Nat)
    (h : log.any (isEnqOf k (fun t _ => decide (t = c))) = true) (hm : minEnqTime log k = some t0) : t0 ≤ c := by
  induction log generalizing t0 with
  | nil => simp at h
  | cons ev log ih =>
    cases ev with
    | deq t n out =>
      simp only [List.any_cons, isEnqOf, Bool.false_or] at h
      simp only [minEnqTime] at hm
      exact ih t0 h hm
    | enq t r =>
      simp only [List.any_cons, isEnqOf, Bool.or_eq_true, Bool.and_eq_true, decide_eq_true_eq] at h
      simp only [minEnqTime] at hm
      by_cases hk : r.payload.workID = k
      · simp only [hk, if_true] at hm
        cases hmo : minEnqTime log k with
        | none =>
          simp only [hmo, Option.some.injEq] at hm
          rcases h with h | h
          · omega
          · exact absurd hmo (minEnq_ne_none k c log h)
        | some m =>
          simp only [hmo, Option.some.injEq] at hm
          rcases h with h | h
          · omega
          · have := ih m h hmo; omega
      · simp only [hk, if_false] at hm
        rcases h with h | h
        · exact absurd h.1 hk
        · exact ih t0 h hm

/-- a work id that was enqueued is still in the queue unless the clock has passed the expiry of even its
earliest enqueue -/
private def Kept (cfg : Cfg) (log : List Ev) (q : Queue) : Prop :=
  ∀ k t0, minEnqTime log k = some t0 → (∃ rec, get q k = some rec) ∨ lastEvTime log > t0 + cfg.expiration

private theorem kept_of_reachGo {cfg : Cfg} {log : List Ev} {q : Queue} (h : ReachGo cfg log q) : Kept cfg log q := by
  induction h with
  | init => intro k t0 hm; simp [minEnqTime] at hm
  | @enq log q t r hr hmono ih =>
    intro k t0 hm
    by_cases hk : r.payload.workID = k
    · left; subst hk; rw [get_enqueue_self]; exact ⟨_, rfl⟩
    · simp only [minEnqTime, hk, if_false] at hm
      rcases ih k t0 hm with ⟨rec, hrec⟩ | hlt
      · left; exact ⟨rec, by rw [get_enqueue_ne cfg t q r hk]; exact hrec⟩
      · right; simp only [lastEvTime]; omega
  | @deq log q t n order hr hmono hcov ih =>
    intro k t0 hm
    simp only [minEnqTime] at hm
    rcases ih k t0 hm with ⟨rec, hrec⟩ | hlt
    · cases hq' : get (dequeue cfg t n order q).1 k with
      | some rec' => left; exact ⟨rec', rfl⟩
      | none =>
        right
        have hex := removed_only_if_expired (reachGo_reach hr) t n order k rec hrec hq'
        have hc := (reach_inv (reachGo_reach hr) k rec hrec).created
        have := minEnq_le_of_enq log k rec.createdAt t0 hc hm
        simp only [lastEvTime]; omega
    · right; simp only [lastEvTime]; omega

private theorem minEnq_le_last {cfg : Cfg} {log : List Ev} {q : Queue} (h : ReachGo cfg log q) :
    ∀ k t0, minEnqTime log k = some t0 → t0 ≤ lastEvTime log := by
  induction h with
  | init => intro k t0 hm; simp [minEnqTime] at hm
  | @enq log q t r _ hmono ih =>
    intro k t0 hm
    simp only [minEnqTime] at hm
    simp only [lastEvTime]
    by_cases hk : r.payload.workID = k
    · simp only [hk, if_true] at hm
      cases hmo : minEnqTime log k with
      | none => simp only [hmo, Option.some.injEq] at hm; omega
      | some m => simp only [hmo, Option.some.injEq] at hm; omega
    · simp only [hk, if_false] at hm
      have := ih k t0 hm; omega
  | @deq log q t n order _ hmono _ ih =>
    intro k t0 hm
    simp only [minEnqTime] at hm
    have := ih k t0 hm
    simp only [lastEvTime]; omega

/-- an enqueued work id that the queue no longer holds was purged by a `Dequeue` past its earliest expiry -/
private def Purged (cfg : Cfg) (log : List Ev) (q : Queue) : Prop :=
  ∀ k t0, minEnqTime log k = some t0 → get q k = none → log.any (isDeqAfter (t0 + cfg.expiration)) = true

private theorem purged_of_reachGo {cfg : Cfg} {log : List Ev} {q : Queue} (h : ReachGo cfg log q) : Purged cfg log q := by
  induction h with
  | init => intro k t0 hm; simp [minEnqTime] at hm
  | @enq log q t r hr hmono ih =>
    intro k t0 hm hnone
    by_cases hk : r.payload.workID = k
    · subst hk; rw [get_enqueue_self] at hnone; cases hq : get q r.payload.workID <;> simp [hq] at hnone
    · simp only [minEnqTime, hk, if_false] at hm
      rw [get_enqueue_ne cfg t q r hk] at hnone
      simp only [List.any_cons, isDeqAfter, Bool.false_or]
      exact ih k t0 hm hnone
  | @deq log q t n order hr hmono hcov ih =>
    intro k t0 hm hnone
    simp only [minEnqTime] at hm
    simp only [List.any_cons, isDeqAfter, Bool.or_eq_true, decide_eq_true_eq]
    cases hq : get q k with
    | none => exact Or.inr (ih k t0 hm hq)
    | some rec =>
      left
      have hex := removed_only_if_expired (reachGo_reach hr) t n order k rec hq hnone
      have hc := (reach_inv (reachGo_reach hr) k rec hq).created
      have := minEnq_le_of_enq log k rec.createdAt t0 hc hm
      omega

private theorem any_of_beforeLastEnq (log : List Ev) (k : String) (f : Ev → Bool)
    (h : (beforeLastEnq log k).any f = true) : log.any f = true := by
  induction log with
  | nil => simp [beforeLastEnq] at h
  | cons ev log ih =>
    simp only [List.any_cons, Bool.or_eq_true]
    cases ev with
    | deq _ _ _ => simp only [beforeLastEnq] at h; exact Or.inr (ih h)
    | enq t r =>
      simp only [beforeLastEnq] at h
      by_cases hk : r.payload.workID = k
      · simp only [hk, if_true] at h; exact Or.inr h
      · simp only [hk, if_false] at h; exact Or.inr (ih h)

private theorem isDeqAfter_mono {a b : Nat} (hab : a ≤ b) (l : List Ev) (h : l.any (isDeqAfter b) = true) :
    l.any (isDeqAfter a) = true := by
  rw [List.any_eq_true] at h ⊢
  obtain ⟨ev, hev, hd⟩ := h
  refine ⟨ev, hev, ?_⟩
  cases ev with
  | enq _ _ => simp [isDeqAfter] at hd
  | deq t _ _ => simp only [isDeqAfter, decide_eq_true_eq] at hd ⊢; omega

/-- a record was created by the earliest enqueue of its work id, unless a purging `Dequeue` came before the
most recent enqueue -/
private def CreatedOk (cfg : Cfg) (log : List Ev) (q : Queue) : Prop :=
  ∀ k rec t0, get q k = some rec → minEnqTime log k = some t0 →
    rec.createdAt = t0 ∨ (beforeLastEnq log k).any (isDeqAfter (t0 + cfg.expiration)) = true

private theorem created_of_reachGo {cfg : Cfg} {log : List Ev} {q : Queue} (h : ReachGo cfg log q) : CreatedOk cfg log q := by
  induction h with
  | init => intro k rec t0 hg; simp [get] at hg
  | @enq log q t r hr hmono ih =>
    intro k rec t0 hg hm
    by_cases hk : r.payload.workID = k
    · subst hk
      simp only [minEnqTime, if_true] at hm
      simp only [beforeLastEnq, if_true]
      rw [get_enqueue_self] at hg
      cases hq : get q r.payload.workID with
      | none =>
        simp only [hq, Option.some.injEq] at hg
        subst hg
        cases hmo : minEnqTime log r.payload.workID with
        | none => simp only [hmo, Option.some.injEq] at hm; left; simp [hm]
        | some m =>
          simp only [hmo, Option.some.injEq] at hm
          right
          have hp := purged_of_reachGo hr _ m hmo hq
          exact isDeqAfter_mono (by omega) log hp
      | some old =>
        simp only [hq, Option.some.injEq] at hg
        subst hg
        cases hmo : minEnqTime log r.payload.workID with
        | none =>
          -- a stored record was enqueued before
          have hc := (reach_inv (reachGo_reach hr) _ old hq).created
          exfalso
          exact minEnq_ne_none _ _ log hc hmo
        | some m =>
          simp only [hmo, Option.some.injEq] at hm
          have hle := minEnq_le_last hr _ m hmo
          have hmin : t0 = m := by omega
          subst hmin
          rcases ih _ old t0 hq hmo with h1 | h1
          · left; exact h1
          · right; exact any_of_beforeLastEnq log _ _ h1
    · rw [get_enqueue_ne cfg t q r hk] at hg
      simp only [minEnqTime, hk, if_false] at hm
      simp only [beforeLastEnq, hk, if_false]
      exact ih k rec t0 hg hm
  | @deq log q t n order hr hmono hcov ih =>
    intro k rec' t0 hg hm
    simp only [minEnqTime] at hm
    simp only [beforeLastEnq]
    obtain ⟨_, _, h3, _⟩ := dequeue_spec cfg t n order q (wf_of_inv (reach_inv (reachGo_reach hr)))
    obtain ⟨rec, hr1, hr2⟩ := h3 k rec' hg
    subst hr2
    exact ih k rec t0 hr1 hm

/-- **queue_live** — in every Go-like history (clock not running backwards, `Dequeue` ranging over the whole
map in any order): (1) **retry_not_after_expiry, sharp form** — a work id handed out at `now` is at most
`expiration` past its EARLIEST enqueue, unless a `Dequeue` ran past that expiry before its most recent
enqueue; (2) a `Dequeue` that returns fewer than `n` payloads has handed out every work id that was due: last
enqueued more than its interval ago, not handed out since, and not older than the expiration even counting
from its earliest enqueue -/
theorem queue_live {cfg : Cfg} {log : List Ev} {q : Queue} (h : ReachGo cfg log q) : logLive cfg log = true := by
  induction h with
  | init => rfl
  | enq t r _ hmono ih => simp [logLive, evLive, ih, hmono]
  | @deq log q t n order hr hmono hcov ih =>
    simp only [logLive, evLive, ih, Bool.and_true, Bool.and_eq_true, decide_eq_true_eq, Bool.or_eq_true,
      List.all_eq_true, Bool.not_eq_true']
    refine ⟨⟨hmono, ?_⟩, ?_⟩
    · intro p hp
      obtain ⟨rec, hq, _, _, hex, _, hok⟩ := dequeue_out (reachGo_reach hr) t n order p hp
      simp only [expired, decide_eq_false_iff_not, Nat.not_lt] at hex
      unfold notAfterExpiry
      cases hm : minEnqTime log p.workID with
      | none =>
        exfalso
        exact minEnq_ne_none _ _ log hok.created hm
      | some t0 =>
        simp only [Bool.or_eq_true, decide_eq_true_eq]
        rcases created_of_reachGo hr p.workID rec t0 hq hm with h1 | h1
        · left; omega
        · right; exact h1
    · by_cases hn : n ≤ (dequeue cfg t n order q).2.length
      · exact Or.inl hn
      · right
        intro k _
        by_cases hd : dueNow cfg t log k = true
        · right
          unfold dueNow at hd
          cases hl : lastEnq log k with
          | none => simp [hl] at hd
          | some ter =>
            obtain ⟨te, r⟩ := ter
            cases hm : minEnqTime log k with
            | none => simp [hl, hm] at hd
            | some t0 =>
              simp only [hl, hm, Bool.and_eq_true, decide_eq_true_eq, Bool.not_eq_true'] at hd
              obtain ⟨⟨hd1, hd2⟩, hd3⟩ := hd
              rcases kept_of_reachGo hr k t0 hm with ⟨rec, hrec⟩ | hlt
              · have hok := reach_inv (reachGo_reach hr) k rec hrec
                obtain ⟨t', r', h1, h2, h3, _⟩ := hok.last
                rw [hl] at h1; cases h1
                have hc := minEnq_le_of_enq log k rec.createdAt t0 hok.created hm
                have hpend : rec.pending = false := by rw [hok.pend]; exact hd2
                rcases dequeue_returns_due (reachGo_reach hr) t n order k rec hrec (hcov k rec hrec) hpend
                    (by omega) (by omega) with hin | hfull
                · simp only [List.contains_eq_mem, List.mem_map, decide_eq_true_eq]
                  exact ⟨rec.payload, hin, hok.wid⟩
                · exact absurd hfull hn
              · omega
        · left; simpa using hd

/-- every Go-like sequence of calls yields a `ReachGo` state -/
theorem reachGo_runOps (cfg : Cfg) (ops : List Op) (hgo : GoLike cfg ([], []) ops) :
    ReachGo cfg (runOps cfg ops).2 (runOps cfg ops).1 := by
  have gen : ∀ (ops : List Op) (st : Queue × List Ev), ReachGo cfg st.2 st.1 → GoLike cfg st ops →
      ReachGo cfg (ops.foldl (step cfg) st).2 (ops.foldl (step cfg) st).1 := by
    intro ops
    induction ops with
    | nil => intro st h _; exact h
    | cons op ops ih =>
      intro st h hg
      simp only [List.foldl_cons]
      cases op with
      | enq t r =>
        simp only [GoLike] at hg
        exact ih _ (ReachGo.enq t r h hg.1) hg.2
      | deq t n order =>
        simp only [GoLike] at hg
        exact ih _ (ReachGo.deq t n order h hg.1.1 hg.1.2) hg.2
  exact gen ops ([], []) ReachGo.init hgo

/-- **queue_spec** — for EVERY Go-like sequence of enqueues and dequeues (custom or default intervals, any
`n`, the map ranged over in any order, any non-decreasing clock readings) the chronological event log
satisfies the whole oracle predicate `queueOk`: safety and "what is due comes out" -/
theorem queue_spec (cfg : Cfg) (ops : List Op) (hgo : GoLike cfg ([], []) ops) :
    queueOk cfg (runOps cfg ops).2.reverse = true := by
  simp only [queueOk, queueSafe, queueLive, List.reverse_reverse, Bool.and_eq_true]
  exact ⟨queue_log_ok (reach_runOps cfg ops), queue_live (reachGo_runOps cfg ops hgo)⟩

/-! ### witnesses and non-vacuity of Part B -/

private def qcfg : Cfg := { expiration := 100, interval := 10 }
private def rr (wid : String) (b : Nat) (iv : Int) : RetryRecord := { payload := pl wid b, interval := iv }

private def outs (st : Queue × List Ev) : List (Nat × List (String × Nat)) :=
  st.2.reverse.filterMap fun
    | .deq t _ out => some (t, out.map fun p => (p.workID, p.trigger.blockNumber))
    | .enq _ _ => none

/-- a history with default and custom intervals probed at the boundary and one tick later, a newer and an
older check block, a second dequeue while pending, `n = 0`, and an enqueue after expiry — with what each
`Dequeue` hands out.  (`Reach` holds of it by `reach_runOps`, so every theorem above applies.) -/
example :
    outs (runOps qcfg
      [.enq 0 (rr "A" 5 0), .enq 0 (rr "B" 5 3),
       .deq 3 5 ["A", "B"],            -- B at exactly its interval: nothing
       .deq 4 5 ["A", "B"],            -- one tick later: B
       .deq 10 5 ["B", "A"],           -- A at exactly the default interval: nothing
       .deq 11 0 ["B", "A"],           -- one tick later, n = 0: still one payload
       .enq 12 (rr "A" 7 2),           -- newer check block replaces, custom interval
       .enq 12 (rr "B" 4 1),           -- older check block does not replace
       .deq 14 5 ["A", "B"],           -- B (13 < 14), A not yet (14 = 12 + 2)
       .deq 15 5 ["A", "B"],           -- A at block 7
       .deq 50 5 ["A", "B"],           -- both pending: nothing
       .enq 100 (rr "A" 7 1),          -- created at 0: expires after 100
       .deq 100 5 ["B", "A"],          -- not yet due (100 ≤ 100 + 1)
       .deq 101 5 ["B", "A"],          -- past expiry (101 > 0 + 100): removed, not handed out
       .enq 102 (rr "A" 3 1),          -- fresh record, even with an older block
       .deq 104 5 ["A"]])
    = [(3, []), (4, [("B", 5)]), (10, []), (11, [("A", 5)]), (14, [("B", 5)]), (15, [("A", 7)]), (50, []),
       (100, []), (101, []), (104, [("A", 3)])] := by
  decide

/-- the map iteration order is observable.  `A` has expired and `C` is due when `Dequeue(1)` runs: if the
iteration meets `C` first it stops before purging `A`, and the retry of `A` enqueued afterwards inherits the
old creation time and is dropped as expired; if it meets `A` first, `A` is purged and the same enqueue
starts a fresh record that IS retried.  Same calls, same clock, same observable log up to the last call. -/
theorem purge_order_observable :
    let h := fun o => runOps { expiration := 10, interval := 1 }
      [.enq 0 (rr "A" 1 0), .enq 15 (rr "C" 1 0), .deq 20 1 o, .enq 21 (rr "A" 1 0), .deq 30 10 ["A", "C"]]
    (h ["C", "A"]).2.tail = (h ["A", "C"]).2.tail ∧
    (h ["C", "A"]).2.head? = some (.deq 30 10 []) ∧
    (h ["A", "C"]).2.head? = some (.deq 30 10 [pl "A" 1]) := by
  decide

/-- the oracle predicate is not vacuous: it rejects a log in which a payload comes out at exactly its
interval, one in which it comes out twice, and one in which it comes out after expiry -/
example :
    queueOk qcfg [.enq 0 (rr "A" 5 0), .deq 10 5 [pl "A" 5]] = false ∧
    queueOk qcfg [.enq 0 (rr "A" 5 0), .deq 11 5 [pl "A" 5]] = true ∧
    queueOk qcfg [.enq 0 (rr "A" 5 0), .deq 11 5 [pl "A" 5], .deq 12 5 [pl "A" 5]] = false ∧
    queueOk qcfg [.enq 0 (rr "A" 5 0), .deq 101 5 [pl "A" 5]] = false ∧
    queueOk qcfg [.enq 0 (rr "A" 5 0), .enq 1 (rr "A" 6 0), .deq 12 5 [pl "A" 5]] = false ∧
    -- liveness clause: a due retry that a dequeue with room does not hand out; a full dequeue is excused
    queueOk qcfg [.enq 0 (rr "A" 5 0), .deq 11 5 []] = false ∧
    queueOk qcfg [.enq 0 (rr "A" 5 0), .enq 0 (rr "B" 5 0), .deq 11 1 [pl "B" 5]] = true ∧
    queueOk qcfg [.enq 0 (rr "A" 5 0), .deq 101 5 []] = true ∧
    -- sharp expiry clause: re-enqueueing must not extend a work id's life …
    queueOk qcfg [.enq 0 (rr "A" 5 0), .enq 95 (rr "A" 5 0), .deq 106 5 [pl "A" 5]] = false ∧
    -- … unless a dequeue past the expiry came before the re-enqueue (it may have purged the old record)
    queueOk qcfg [.enq 0 (rr "A" 5 0), .deq 101 5 [], .enq 102 (rr "A" 5 0), .deq 113 5 [pl "A" 5]] = true := by
  decide

/-- the hypotheses of `queue_spec` are met by a non-trivial history -/
example : GoLike qcfg ([], [])
    [.enq 0 (rr "A" 5 0), .enq 0 (rr "B" 5 3), .deq 4 5 ["A", "B"], .enq 12 (rr "A" 7 2), .deq 15 1 ["B", "A"]] := by
  simp [GoLike, step, lastEvTime, enqueue, dequeue, dequeueLoop, get, put, effInterval, expired, elapsed, rr, pl, qcfg]
  refine ⟨?_, ?_⟩ <;> intro k rec h <;> by_cases ha : "A" = k <;> by_cases hb : "B" = k <;> simp_all [eq_comm]

/-- the regenerated constants are the ones the theorems are instantiated with for the real queue -/
theorem repo_constants : Cfg.repo.interval = 30 * 1000000000 ∧ Cfg.repo.expiration = 24 * 3600 * 1000000000 := by
  decide

/-! ## node level: why a retryable failure is checked again within one retry tick -/

/-- a `Dequeue` that comes too early for a record (not expired, interval not yet elapsed) leaves it exactly as
it is — so the ticks of the retry flow before the interval is over do not disturb the scheduled retry -/
theorem early_dequeue_keeps {cfg : Cfg} {log : List Ev} {q : Queue} (hreach : Reach cfg log q)
    (now n : Nat) (order : List String) (k : String) (rec : Rec) (hk : get q k = some rec)
    (hearly : now ≤ rec.updatedAt + rec.interval) (hlive : now ≤ rec.createdAt + cfg.expiration) :
    get (dequeue cfg now n order q).1 k = some rec := by
  obtain ⟨_, _, h3, h4, _⟩ := dequeue_spec cfg now n order q (wf_of_inv (reach_inv hreach))
  cases hq' : get (dequeue cfg now n order q).1 k with
  | none =>
    have := h4 k rec hk hq'
    simp only [expired, decide_eq_true_eq] at this
    omega
  | some rec' =>
    obtain ⟨rec0, hr1, hr2⟩ := h3 k rec' hq'
    rw [hk] at hr1; cases hr1
    have hnot := pending_or_early_not_returned hreach now n order k rec hk (Or.inr (Or.inl hearly))
    have hany : (dequeue cfg now n order q).2.any (fun p => decide (p.workID = k)) = false := by
      rw [List.any_eq_false]
      intro p hp
      simpa using hnot p hp
    rw [hr2, hany]
    cases rec; simp

/-- a periodic tick (`s`, `s + tick`, `s + 2·tick`, …) falls into every window `(a, a + tick]` that starts after
its first firing: together with `early_dequeue_keeps`, `retry_scheduled` and `retry_not_before_interval` this is
the node-level clause "checked again strictly after the interval and at most one retry tick later" -/
theorem tick_in_window (s tick a : Nat) (ht : 0 < tick) (hs : s ≤ a) :
    ∃ k, a < s + k * tick ∧ s + k * tick ≤ a + tick := by
  refine ⟨(a - s) / tick + 1, ?_, ?_⟩
  · have h1 := Nat.div_add_mod (a - s) tick
    have h2 := Nat.mod_lt (a - s) ht
    rw [Nat.succ_mul, Nat.mul_comm]
    omega
  · have h1 := Nat.div_mul_le_self (a - s) tick
    rw [Nat.succ_mul]
    omega

/-- a unit of work is asked about at least once and at most once per answer of its script -/
theorem planChecks_bounds (script : List Res) (h : script ≠ []) : 1 ≤ planChecks script ∧ planChecks script ≤ script.length := by
  induction script with
  | nil => exact absurd rfl h
  | cons r rs ih =>
    unfold planChecks
    by_cases hr : r.retryableFail = true
    · simp only [hr, if_true, List.length_cons]
      cases rs with
      | nil => simp [planChecks]
      | cons a t => have := ih (by simp); omega
    · simp [hr]

/-- only an eligible success is ever staged, and only as the terminal answer: a retryable failure stages nothing -/
theorem planStaged_sound (script : List Res) (c : CheckResult) (h : c ∈ planStaged script) :
    ∃ r ∈ script, r.cr = c ∧ r.succEligible = true ∧ r.retryableFail = false := by
  unfold planStaged at h
  cases ht : planTerminal script with
  | none => simp [ht] at h
  | some r =>
    simp only [ht] at h
    by_cases he : r.succEligible = true
    · simp only [he, if_true, List.mem_singleton] at h
      subst h
      have hmem : ∀ (sc : List Res) (x : Res), planTerminal sc = some x → x ∈ sc ∧ x.retryableFail = false := by
        intro sc
        induction sc with
        | nil => intro x hx; simp [planTerminal] at hx
        | cons a t ih =>
          intro x hx
          unfold planTerminal at hx
          by_cases ha : a.retryableFail = true
          · simp only [ha, if_true] at hx
            obtain ⟨h1, h2⟩ := ih x hx
            exact ⟨List.mem_cons_of_mem _ h1, h2⟩
          · simp only [ha, Bool.false_eq_true, if_false, Option.some.injEq] at hx
            subst hx
            exact ⟨List.mem_cons_self, by simpa using ha⟩
      obtain ⟨h1, h2⟩ := hmem script r ht
      exact ⟨r, h1, rfl, he, h2⟩
    · simp [he] at h

/-! ## the batch limit over many calls -/

/-- why fairness of the batch limit is a matter of the map's iteration order and not of any single call: with the
SAME (sorted) order in every call and the two first records failing again each time, the third record is due at
every call, every call is a legal one (`queueOk` holds of the log), and it is never handed out.  Go's randomised
`range` is what rules this out; the oracle therefore checks it statistically (`fairOk`, over `fairRounds` calls). -/
theorem fixed_order_starves :
    let ops : List Op :=
      [.enq 0 (rr "A" 1 1), .enq 0 (rr "B" 1 1), .enq 0 (rr "C" 1 1),
       .deq 10 2 ["A", "B", "C"], .enq 10 (rr "A" 1 1), .enq 10 (rr "B" 1 1),
       .deq 20 2 ["A", "B", "C"], .enq 20 (rr "A" 1 1), .enq 20 (rr "B" 1 1),
       .deq 30 2 ["A", "B", "C"], .enq 30 (rr "A" 1 1), .enq 30 (rr "B" 1 1),
       .deq 40 2 ["A", "B", "C"]]
    queueOk qcfg (runOps qcfg ops).2.reverse = true ∧
    (outs (runOps qcfg ops)).all (fun o => !o.2.any (fun x => x.1 == "C")) = true ∧
    fairOk 3 2 fairRounds [fairRounds, fairRounds, 0] 0 0 = false := by
  decide

end AutoVerif.C12
