import AutoVerif.Props.C08
import AutoVerif.Gen.Consts
/-
C08Tie — the tie theorems of Props/C08.lean (`…_matches_source`): the model's decision functions equal the
decision expressions `AutoVerif.Gen.Src.*` that the extractor regenerates from the Go source on every check run
(docs/TIE_THEOREMS.md).  They live in a module of their own, which nothing but AutoVerif.lean (and another
property's Tie module, where a tie is reused) imports: a source change that breaks a tie here breaks this
property's check (bin/check audits every module `Props/C08*.lean`) and not the build of the theorem
modules of other properties that import Props/C08.lean.
-/
namespace AutoVerif.C08
open AutoVerif.Outcome

/-! ### the model's decisions ARE the expressions of the working tree (`Gen.Src`, regenerated on every run) -/

/-- `if limit > len(results) { limit = len(results) }` -/
theorem clamp_matches_source (cap n : Nat) :
    min cap n = if Gen.Src.c08ClampToCandidates cap n then n else cap := by
  simp only [Gen.Src.c08ClampToCandidates, decide_eq_true_eq]
  split <;> omega

/-- `performablesK` starts the recursion at the clamped limit -/
theorem performablesK_matches_source (lim : Limits) (maxLen : Nat) (si : SizeInfo) (c : List CheckResult) :
    performablesK lim maxLen si c =
      (let l := if Gen.Src.c08ClampToCandidates lim.obsPerformables c.length then c.length else lim.obsPerformables
       trim maxLen si.base (sizeOf si c) l l) := by
  simp only [performablesK, clamp_matches_source]

/-- one call of `addByPercentageExceeded`: the three `if` conditions and the step `limit -= avgPerformablesExceeded + 1`
in source order.  Go's `limit` is an `int`: the second `limit <= 0` test is on the difference (`Int`), the model's is the
equivalent `limit ≤ n + 1` on naturals.  (`/`, `-` and `math.Ceil` are outside the translator: `avgSize`/`excess` stay tied by
the extractor's site expectations and by the exact-length correspondence.) -/
theorem trim_matches_source (maxLen base : Nat) (size : Nat → Nat) (fuel limit : Nat) :
    trim maxLen base size (fuel + 1) limit =
      if Gen.Src.c08LimitExhausted (limit : Int) then 0
      else if Gen.Src.c08TooLong (size limit) maxLen then
        (if avgSize base size limit = 0 ∨
            Gen.Src.c08LimitExhausted ((limit : Int) - (Gen.Src.c08TrimBy (excess maxLen base size limit) : Nat)) then limit
         else trim maxLen base size fuel (limit - Gen.Src.c08TrimBy (excess maxLen base size limit)))
      else limit := by
  simp only [trim, gaveUp, Gen.Src.c08LimitExhausted, Gen.Src.c08TooLong, Gen.Src.c08TrimBy, Bool.or_eq_true,
    decide_eq_true_eq]
  have e1 : ((limit : Int) ≤ 0) ↔ limit = 0 := by omega
  have e2 : ((limit : Int) - ((excess maxLen base size limit + 1 : Nat) : Int) ≤ 0) ↔
      limit ≤ excess maxLen base size limit + 1 := by omega
  simp only [e1, e2, decide_eq_true_eq]

/-- the order of the candidates: Go sorts with `less(a, b) = shuffled[a] < shuffled[b]`; the model's comparator is the
corresponding `≤` -/
theorem canonical_order_matches_source (key : String → String) (a b : CheckResult) :
    decide (key a.workID ≤ key b.workID) = !Gen.Src.c08SorterLess (key b.workID) (key a.workID) := by
  simp only [Gen.Src.c08SorterLess]
  by_cases h : key b.workID < key a.workID
  · simp [h, String.not_le.mpr h]
  · simp [h, String.not_lt.mp h]

theorem sorter_less_matches_source (s : Sorter) (a b : CheckResult) :
    s.less a b = Gen.Src.c08SorterLess ((s.get a.workID).getD "") ((s.get b.workID).getD "") := rfl

/-- the cache is dropped exactly when the source differs from the one it was filled for … -/
theorem sorter_reset_matches_source (s : Sorter) (src : String) :
    s.reset src = if Gen.Src.c08SourceChanged (s.lastSrc == src) then { lastSrc := src, cache := [] } else s := rfl

/-- … and an id is shuffled exactly when it is not cached -/
theorem sorter_step_matches_source (shuffle : String → String → String) (src : String) (st : Sorter) (w : String) :
    st.step shuffle src w =
      if Gen.Src.c08IdNotCached (st.get w).isSome then { st with cache := (w, shuffle w src) :: st.cache } else st := rfl

/-- `AddBlockHistoryHook`: `if len(blockHistory) > limit { blockHistory = blockHistory[:limit] }` -/
theorem history_matches_source (lim : Limits) (hist : List BlockKey) :
    hist.take lim.obsBlockHistory =
      if Gen.Src.c08HistoryOverLimit hist.length lim.obsBlockHistory then hist.take lim.obsBlockHistory else hist := by
  simp only [Gen.Src.c08HistoryOverLimit, decide_eq_true_eq]
  split
  · rfl
  · exact List.take_of_length_le (by omega)

/-- `AddLogProposalsHook` / `AddConditionalProposalsHook`: `if len(proposals) > limit { proposals = proposals[:limit] }`
on the shuffled list -/
theorem proposals_choice_matches_source (limit : Nat) (shuffled : List Proposal) :
    shuffled.take limit =
        (if Gen.Src.c08LogProposalsOverLimit shuffled.length limit then shuffled.take limit else shuffled) ∧
      shuffled.take limit =
        (if Gen.Src.c08CondProposalsOverLimit shuffled.length limit then shuffled.take limit else shuffled) := by
  simp only [Gen.Src.c08LogProposalsOverLimit, Gen.Src.c08CondProposalsOverLimit, decide_eq_true_eq]
  constructor <;> (split; rfl; exact List.take_of_length_le (by omega))


/-! ### decision tree of `addByPercentageExceeded` (`"kind": "tree"`, regenerated on every run) -/

/-- **One call of `addByPercentageExceeded` follows the source's tree**: first `limit <= 0` (exit 1, nothing added), then the
length test; not too long = exit 4 (`limit` performables stay), too long = the branch that subtracts and either gives up or
recurses.  `limit` is already clamped here (`performablesK_matches_source`), so the clamping `if` of the source — which has
no exit — takes its else arm (`n := limit`).  The source re-assigns `limit` inside the too-long branch (`limit -= … + 1`);
the tree names a leaf by its text, so the SECOND `limit <= 0` cannot be told apart from the first there: exits 2 and 3 are
both mapped to the model's inner decision, which `trim_matches_source` ties to the regenerated expressions
(`c08LimitExhausted` on the difference, `c08TrimBy`). -/
theorem trim_tree_matches_source (maxLen base : Nat) (size : Nat → Nat) (fuel limit : Nat) :
    trim maxLen base size (fuel + 1) limit =
      match Gen.Src.c08TrimTree (limit : Int) (limit : Int) (size limit) maxLen with
      | 1 => 0
      | 4 => limit
      | _ => if gaveUp maxLen base size limit then limit
             else trim maxLen base size fuel (limit - (excess maxLen base size limit + 1)) := by
  simp only [trim, Gen.Src.c08TrimTree]
  have e1 : ((limit : Int) ≤ 0) ↔ limit = 0 := by omega
  by_cases h0 : limit = 0
  · simp [h0]
  · by_cases hs : size limit > maxLen
    · simp [e1, h0, hs]
    · simp [e1, h0, hs]

end AutoVerif.C08
