import AutoVerif.Spec.C01
/-
C01 — Only results vouched identically by f+1 oracles become agreed performables.

Everything is proved for every `Ctx` (arbitrary upkeep-type getter, work-id
generator, shuffle `key` and — the point of the repair — arbitrary, possibly
non-injective `uid`), every limit record, every list of attributed
observations (decodable or not, valid or not) and every map iteration order.
-/
namespace AutoVerif.C01
open AutoVerif.Outcome

/-! ### helper lemmas -/

private theorem nodup_of_map {α β} (f : α → β) : ∀ {l : List α}, (l.map f).Nodup → l.Nodup := by
  intro l h
  rw [List.Nodup, List.pairwise_map] at h
  exact h.imp (fun hab he => hab (by rw [he]))

private theorem count_le_one_of_nodup {α} [DecidableEq α] (a : α) : ∀ {l : List α}, l.Nodup → l.count a ≤ 1
  | [], _ => by simp
  | x :: xs, h => by
    rw [List.nodup_cons] at h
    have ih := count_le_one_of_nodup a h.2
    by_cases hx : x = a
    · subst hx
      have : xs.count x = 0 := List.count_eq_zero.mpr h.1
      simp [this]
    · simp [List.count_cons, hx]; exact ih

/-- occurrences of `r` in the concatenated performables = number of observations listing it,
when no observation lists a result twice -/
private theorem count_flatMap_le_votes (r : CheckResult) :
    ∀ (os : List Observation), (∀ o ∈ os, o.performable.Nodup) →
      (os.flatMap (·.performable)).count r ≤ votes os r
  | [], _ => by simp [votes]
  | o :: os, h => by
    have ih := count_flatMap_le_votes r os (fun o ho => h o (by simp [ho]))
    have hn := h o (by simp)
    simp only [List.flatMap_cons, List.count_append, votes, List.filter_cons]
    by_cases hc : o.performable.contains r
    · have := count_le_one_of_nodup r hn
      simp only [hc, if_true, List.length_cons]
      unfold votes at ih; omega
    · have hz : o.performable.count r = 0 := by
        apply List.count_eq_zero.mpr
        simpa using hc
      simp only [hc, hz]
      unfold votes at ih; simpa using ih

private theorem votes_le_count_flatMap (r : CheckResult) :
    ∀ (os : List Observation), votes os r ≤ (os.flatMap (·.performable)).count r
  | [] => by simp [votes]
  | o :: os => by
    have ih := votes_le_count_flatMap r os
    simp only [List.flatMap_cons, List.count_append, votes, List.filter_cons]
    by_cases hc : o.performable.contains r
    · have : 0 < o.performable.count r := List.count_pos_iff.mpr (by simpa using hc)
      simp only [hc, if_true, List.length_cons]
      unfold votes at ih; omega
    · simp only [hc]
      unfold votes at ih
      simp only [Bool.false_eq_true, if_false]; omega

/-- every observation that `Outcome` uses passed validation -/
theorem validObs_valid (ctx : Ctx) (lim : Limits) (obs : List (Option Observation)) :
    ∀ o ∈ validObs ctx lim obs, validObservation ctx lim o = true := by
  intro o ho
  simp only [validObs, List.mem_filterMap] at ho
  obtain ⟨x, _, hx⟩ := ho
  cases x with
  | none => simp at hx
  | some y =>
    simp only at hx
    split at hx
    · rename_i hv; simp at hx; subst hx; exact hv
    · simp at hx

private theorem valid_perf_nodup (ctx : Ctx) (lim : Limits) (o : Observation)
    (h : validObservation ctx lim o = true) : o.performable.Nodup := by
  simp only [validObservation, Bool.and_eq_true, decide_eq_true_eq] at h
  exact nodup_of_map (·.workID) h.1.1.1.1.1.2

/-! ### the tally never over-counts -/

private theorem lookup_mem {t : List Slot} {k : String} {s : Slot} (h : lookup t k = some s) :
    s ∈ t ∧ s.key = k := by
  unfold lookup at h
  have := List.find?_some h
  exact ⟨List.mem_of_find?_eq_some h, by simpa using this⟩

private theorem lookup_none {t : List Slot} {k : String} (h : lookup t k = none) :
    ∀ s ∈ t, s.key ≠ k := by
  unfold lookup at h
  intro s hs he
  have := List.find?_eq_none.mp h s hs
  simp [he] at this

private theorem key_inj_of_nodup : ∀ {t : List Slot}, (t.map (·.key)).Nodup →
    ∀ a ∈ t, ∀ b ∈ t, a.key = b.key → a = b
  | [], _, a, ha, _, _, _ => by simp at ha
  | x :: xs, h, a, ha, b, hb, hk => by
    simp only [List.map_cons, List.nodup_cons, List.mem_map, not_exists, not_and] at h
    rcases List.mem_cons.mp ha with rfl | ha' <;> rcases List.mem_cons.mp hb with rfl | hb'
    · rfl
    · exact absurd hk.symm (h.1 b hb')
    · exact absurd hk (h.1 a ha')
    · exact key_inj_of_nodup h.2 a ha' b hb' hk

/-- invariant: keys are pairwise distinct and no slot counts more than the occurrences of its result -/
private def TallyOk (t : List Slot) (rs : List CheckResult) : Prop :=
  (t.map (·.key)).Nodup ∧ ∀ s ∈ t, s.count ≤ rs.count s.result

private theorem bump_keys (t : List Slot) (k : String) : (bump t k).map (·.key) = t.map (·.key) := by
  unfold bump
  rw [List.map_map]
  apply List.map_congr_left
  intro s _
  simp only [Function.comp]
  split <;> rfl

private theorem probe_ok (fuel : Nat) (t : List Slot) (k : String) (r : CheckResult) (rs : List CheckResult)
    (h : TallyOk t rs) : TallyOk (probe fuel t k r) (rs ++ [r]) := by
  induction fuel generalizing k with
  | zero =>
    unfold probe
    refine ⟨h.1, fun s hs => ?_⟩
    have := h.2 s hs
    rw [List.count_append]; omega
  | succ fuel ih =>
    unfold probe
    split
    · rename_i hl
      refine ⟨?_, ?_⟩
      · rw [List.map_append, List.nodup_append]
        refine ⟨h.1, by simp, ?_⟩
        intro a ha b hb
        simp only [List.map_cons, List.map_nil, List.mem_singleton] at hb
        subst hb
        obtain ⟨s, hs, hsa⟩ := List.mem_map.mp ha
        intro hab
        exact lookup_none hl s hs (by rw [hsa, hab])
      · intro s hs
        rcases List.mem_append.mp hs with hs | hs
        · have := h.2 s hs
          rw [List.count_append]; omega
        · simp only [List.mem_singleton] at hs
          subst hs
          simp [List.count_append]
    · rename_i s hl
      obtain ⟨hs, hsk⟩ := lookup_mem hl
      split
      · rename_i hr
        refine ⟨by rw [bump_keys]; exact h.1, ?_⟩
        intro x hx
        unfold bump at hx
        obtain ⟨y, hy, hyx⟩ := List.mem_map.mp hx
        by_cases hyk : (y.key == k) = true
        · have hyk' : y.key = k := by simpa using hyk
          have : y = s := key_inj_of_nodup h.1 y hy s hs (by rw [hyk', hsk])
          subst this
          simp only [hyk, if_true] at hyx
          subst hyx
          have := h.2 y hy
          simp only [List.count_append]
          rw [hr]
          simp
          rw [← hr]; omega
        · simp only [hyk, Bool.false_eq_true, if_false] at hyx
          subst hyx
          have := h.2 y hy
          rw [List.count_append]; omega
      · exact ih (k ++ "+")

private theorem tally_fold_ok (ctx : Ctx) : ∀ (rs : List CheckResult) (t : List Slot) (rs0 : List CheckResult),
    TallyOk t rs0 → TallyOk (rs.foldl (addResult ctx) t) (rs0 ++ rs)
  | [], t, rs0, h => by simpa using h
  | r :: rs, t, rs0, h => by
    have h1 : TallyOk (addResult ctx t r) (rs0 ++ [r]) := probe_ok _ t _ r rs0 h
    have := tally_fold_ok ctx rs (addResult ctx t r) (rs0 ++ [r]) h1
    simpa using this

private theorem tally_ok (ctx : Ctx) (os : List Observation) :
    TallyOk (tally ctx os) (os.flatMap (·.performable)) := by
  have := tally_fold_ok ctx (os.flatMap (·.performable)) [] [] ⟨by simp, by simp⟩
  simpa [tally] using this

/-! ### selection, sorting, truncation -/

private theorem select_mem (thr : Nat) (t : List Slot) : ∀ (ks : List String) (acc : List CheckResult) (r : CheckResult),
    r ∈ select thr t ks acc → r ∈ acc ∨ ∃ s ∈ t, s.result = r ∧ thr ≤ s.count
  | [], acc, r, h => by unfold select at h; exact Or.inl h
  | k :: ks, acc, r, h => by
    unfold select at h
    split at h
    · exact select_mem thr t ks acc r h
    · rename_i s hl
      split at h
      · rename_i hc
        rcases select_mem thr t ks _ r h with h' | h'
        · rcases List.mem_append.mp h' with h'' | h''
          · exact Or.inl h''
          · simp only [List.mem_singleton] at h''
            subst h''
            simp only [Bool.and_eq_true, decide_eq_true_eq] at hc
            exact Or.inr ⟨s, (lookup_mem hl).1, rfl, hc.1⟩
        · exact Or.inr h'
      · exact select_mem thr t ks acc r h

private theorem select_nodup (thr : Nat) (t : List Slot) : ∀ (ks : List String) (acc : List CheckResult),
    (acc.map (·.workID)).Nodup → ((select thr t ks acc).map (·.workID)).Nodup
  | [], acc, h => by unfold select; exact h
  | k :: ks, acc, h => by
    unfold select
    split
    · exact select_nodup thr t ks acc h
    · rename_i s _
      split
      · rename_i hc
        apply select_nodup thr t ks
        simp only [Bool.and_eq_true, decide_eq_true_eq, Bool.not_eq_true', List.contains_eq_mem,
          decide_eq_false_iff_not] at hc
        rw [List.map_append, List.nodup_append]
        refine ⟨h, by simp, ?_⟩
        intro a ha b hb
        simp only [List.map_cons, List.map_nil, List.mem_singleton] at hb
        subst hb
        intro hab
        exact hc.2 (hab ▸ ha)
      · exact select_nodup thr t ks acc h

private theorem mem_agreedOf {ctx : Ctx} {lim : Limits} {t : List Slot} {π : List String} {r : CheckResult}
    (h : r ∈ agreedOf ctx lim t π) : r ∈ select (ctx.F + 1) t (sortStrings π) [] := by
  unfold agreedOf sortByKey at h
  exact (List.mergeSort_perm _ _).mem_iff.mp (List.mem_of_mem_take h)

/-! ### the property theorems -/

/-- **Soundness.** Every agreed performable was listed, identical in every field, by at least `F+1` of the
round's valid observations.  Holds for every map iteration order `πres` (even one that is not a
permutation of the keys) and for a `uid` function with arbitrary collisions. -/
theorem agreed_sound (ctx : Ctx) (lim : Limits) (prev : Outcome) (obs : List (Option Observation))
    (πres : List String) (πblk : List BlockKey) :
    ∀ r ∈ (outcome ctx lim prev obs πres πblk).agreed, ctx.F + 1 ≤ votes (validObs ctx lim obs) r := by
  intro r hr
  simp only [outcome] at hr
  have hsel := mem_agreedOf hr
  rcases select_mem _ _ _ _ _ hsel with h | ⟨s, hs, hsr, hcount⟩
  · simp at h
  · have hok := (tally_ok ctx (validObs ctx lim obs)).2 s hs
    have hle := count_flatMap_le_votes r (validObs ctx lim obs)
      (fun o ho => valid_perf_nodup ctx lim o (validObs_valid ctx lim obs o ho))
    rw [hsr] at hok
    omega

/-- the same as a statement of the run-time oracle's predicate -/
theorem agreed_sound_spec (ctx : Ctx) (lim : Limits) (prev : Outcome) (obs : List (Option Observation))
    (πres : List String) (πblk : List BlockKey) :
    sound ctx.F (validObs ctx lim obs) (outcome ctx lim prev obs πres πblk).agreed = true := by
  simp only [sound, List.all_eq_true, decide_eq_true_eq]
  exact agreed_sound ctx lim prev obs πres πblk

/-- **No unit of work twice.** -/
theorem agreed_nodup_workid (ctx : Ctx) (lim : Limits) (prev : Outcome) (obs : List (Option Observation))
    (πres : List String) (πblk : List BlockKey) :
    ((outcome ctx lim prev obs πres πblk).agreed.map (·.workID)).Nodup := by
  simp only [outcome, agreedOf, sortByKey]
  have h1 := select_nodup (ctx.F + 1) (tally ctx (validObs ctx lim obs)) (sortStrings πres) [] (by simp)
  have h2 : (((select (ctx.F + 1) (tally ctx (validObs ctx lim obs)) (sortStrings πres) []).mergeSort
      (fun a b => decide (ctx.key a.workID ≤ ctx.key b.workID))).map (·.workID)).Nodup :=
    ((List.mergeSort_perm _ _).map _).nodup_iff.mpr h1
  exact (List.Sublist.map _ (List.take_sublist _ _)).nodup h2

/-- never more agreed performables than the advertised limit -/
theorem agreed_length_le (ctx : Ctx) (lim : Limits) (prev : Outcome) (obs : List (Option Observation))
    (πres : List String) (πblk : List BlockKey) :
    (outcome ctx lim prev obs πres πblk).agreed.length ≤ lim.agreedLimit := by
  simp only [outcome, agreedOf, List.length_take]; omega

/-- an observation that fails validation (or does not decode) contributes no vote: the outcome's agreed
performables only depend on the valid observations -/
theorem invalid_not_counted (ctx : Ctx) (lim : Limits) (prev : Outcome) (obs obs' : List (Option Observation))
    (πres : List String) (πblk : List BlockKey) (h : validObs ctx lim obs = validObs ctx lim obs') :
    (outcome ctx lim prev obs πres πblk).agreed = (outcome ctx lim prev obs' πres πblk).agreed := by
  simp only [outcome, h]

/-- votes are counted per observation; with one observation per oracle (libocr's contract: `aobs` carries
pairwise distinct oracle ids) the voters of a result are pairwise distinct oracles -/
theorem voters_distinct (ctx : Ctx) (lim : Limits) (aobs : List (Nat × Option Observation))
    (hid : (aobs.map (·.1)).Nodup) (p : Nat × Option Observation → Bool) :
    ((aobs.filter p).map (·.1)).Nodup :=
  (List.Sublist.map _ (List.filter_sublist)).nodup hid

/-- a result listed by fewer than `F+1` valid observations never appears (contrapositive of soundness) -/
theorem below_quorum_absent (ctx : Ctx) (lim : Limits) (prev : Outcome) (obs : List (Option Observation))
    (πres : List String) (πblk : List BlockKey) (r : CheckResult)
    (h : votes (validObs ctx lim obs) r < ctx.F + 1) :
    r ∉ (outcome ctx lim prev obs πres πblk).agreed := by
  intro hr
  have := agreed_sound ctx lim prev obs πres πblk r hr
  omega

/-! ### the pinned tree before the fix

`performables.add` keyed the tally by `UniqueID` alone.  Modelled as `addResultOld`; with a
non-injective `uid` two different results share a slot and their votes add up. -/

def addResultOld (ctx : Ctx) (t : List Slot) (r : CheckResult) : List Slot :=
  match lookup t (ctx.uid r) with
  | none => t ++ [{ key := ctx.uid r, result := r, count := 1 }]
  | some _ => bump t (ctx.uid r)

private def wres (pd : String) (fgw ln : Int) : CheckResult :=
  { pes := 0, retryable := false, eligible := true, reason := 0, upkeepID := "u",
    trigger := { blockNumber := 1, blockHash := "h", ext := none }, workID := "w", gas := 5,
    performData := pd, fastGasWei := some fgw, linkNative := some ln }

/-- the delimiter-shift witness: `PerformData=aa09bb, FastGasWei=0xcc, LinkNative=0xdd` and
`PerformData=aa, FastGasWei=0xbb, LinkNative=0xcc09dd` have the same `UniqueID`; under the old tally one
vote each gives a slot with count 2 = F+1 for F = 1 -/
theorem old_tally_merges_distinct_results :
    let ctx : Ctx := { F := 1, utg := fun _ => .condition, wg := fun _ _ => "w", key := id, uid := fun _ => "same" }
    let a := wres "aa09bb" 0xcc 0xdd
    let b := wres "aa" 0xbb 0xcc09dd
    a ≠ b ∧ ([a, b].foldl (addResultOld ctx) []).map (fun s => (s.result, s.count)) = [(a, 2)] := by
  decide

/-- … while the repaired tally keeps them apart -/
theorem new_tally_separates_distinct_results :
    let ctx : Ctx := { F := 1, utg := fun _ => .condition, wg := fun _ _ => "w", key := id, uid := fun _ => "same" }
    let a := wres "aa09bb" 0xcc 0xdd
    let b := wres "aa" 0xbb 0xcc09dd
    ([a, b].foldl (addResult ctx) []).map (fun s => (s.key, s.result, s.count)) = [("same", a, 1), ("same+", b, 1)] := by
  decide

/-! ### message length: the boundary of what libocr hands over -/

/-- a message of exactly the advertised maximum length is handed over as it is -/
theorem delivered_at_limit (L : Nat) (o : Option Observation) : delivered L [(L, o)] = [o] := by
  simp [delivered]

/-- one byte more (or any number of bytes more) and nothing arrives -/
theorem delivered_over_limit (L k : Nat) (o : Option Observation) : delivered L [(L + 1 + k, o)] = [none] := by
  simp [delivered]; omega

/-- the vote of a valid observation counts whatever the length of its encoding, up to AND INCLUDING the limit:
the model has no other length rule (and `Outcome` must have none) -/
theorem vote_counted_up_to_limit (ctx : Ctx) (lim : Limits) (L len : Nat) (o : Observation) (r : CheckResult)
    (hl : len ≤ L) (hv : validObservation ctx lim o = true) (hr : r ∈ o.performable) :
    votes (validObs ctx lim (delivered L [(len, some o)])) r = 1 := by
  simp [delivered, hl, validObs, hv, votes, hr]

/-- … and a message over the limit has no vote, valid or not -/
theorem over_limit_no_vote (ctx : Ctx) (lim : Limits) (L len : Nat) (o : Option Observation) (r : CheckResult)
    (hl : L < len) : votes (validObs ctx lim (delivered L [(len, o)])) r = 0 := by
  have : ¬ len ≤ L := by omega
  simp [delivered, this, validObs, votes]

/-! ### non-vacuity -/

example :
    let ctx : Ctx := { F := 1, utg := fun _ => .condition, wg := fun _ _ => "w", key := id, uid := fun _ => "same" }
    let lim : Limits := { obsPerformables := 100, obsLogProposals := 5, obsCondProposals := 5, obsBlockHistory := 256,
                          agreedLimit := 100, perRound := 50, roundHistory := 20 }
    let a := wres "aa09bb" 0xcc 0xdd
    let b := wres "aa" 0xbb 0xcc09dd
    let o (r : CheckResult) : Option Observation := some { performable := [r], proposals := [], blockHistory := [] }
    (validObs ctx lim [o a, o b, o a, none]).length = 3 ∧
    votes (validObs ctx lim [o a, o b, o a, none]) a = 2 ∧ votes (validObs ctx lim [o a, o b, o a, none]) b = 1 := by
  decide

end AutoVerif.C01
