import AutoVerif.Props.C06
import AutoVerif.Gen.Consts
/-
C06Tie — the tie theorems of Props/C06.lean (`…_matches_source`): the model's decision functions equal the
decision expressions `AutoVerif.Gen.Src.*` that the extractor regenerates from the Go source on every check run
(docs/TIE_THEOREMS.md).  They live in a module of their own, which nothing but AutoVerif.lean (and another
property's Tie module, where a tie is reused) imports: a source change that breaks a tie here breaks this
property's check (bin/check audits every module `Props/C06*.lean`) and not the build of the theorem
modules of other properties that import Props/C06.lean.
-/
namespace AutoVerif.C06

/-! ### the model's decision points are the source's (regenerated `Gen.Src` expressions)

Each theorem rewrites one model function as a cascade of `if`s whose conditions are the
`Gen.Src.c06…` definitions the extractor translates from the Go source on every run
(extract/exprs.d/C06.json), in the source's order.  A changed comparison operator, operand or
negation in `Accept`, `ShouldTransmit`, `checkEvents`, `Cache.Get/Set/ClearExpired` changes the
generated definition and breaks the theorem.  Not covered: the record literals written by
`Accept` / `checkEvents` (composite literals are not translated; the harness compares their
effect), `DefaultCacheExpiration = 0` (a regenerated constant, checked by the fact expectations). -/

/-- `Cache.Get` / `ClearExpired` (scan and re-check): the expiry test is `Expires > 0` and `now > Expires` -/
theorem expired_matches_source (e now : Nat) :
    expired e now = (Gen.Src.c06GetHasExpiry e && Gen.Src.c06GetExpired now e) ∧
    expired e now = Gen.Src.c06GcScanExpired e now ∧
    expired e now = Gen.Src.c06GcDeleteStillExpired true e now ∧
    Gen.Src.c06GcDeleteStillExpired false e now = false :=
  ⟨rfl, rfl, by simp [Gen.Src.c06GcDeleteStillExpired, expired], by simp [Gen.Src.c06GcDeleteStillExpired]⟩

/-- `Cache.Get`: `!found` → miss; nested `Expires > 0`, `now > Expires` → miss; else the item -/
theorem cacheGet_matches_source {α : Type} (c : Cache α) (k : String) (now : Nat) :
    c.get k now =
      if Gen.Src.c06GetMissing (c k).isSome then none
      else if Gen.Src.c06GetHasExpiry ((c k).map (·.2)).get! && Gen.Src.c06GetExpired now ((c k).map (·.2)).get! then none
      else (c k).map (·.1) := by
  unfold Cache.get
  cases h : c k with
  | none => simp [Gen.Src.c06GetMissing]
  | some p =>
    obtain ⟨v, e⟩ := p
    simp only [Gen.Src.c06GetMissing, Option.isSome_some, Bool.not_true, Bool.false_eq_true, if_false, Option.map_some,
      Option.get!_some, (expired_matches_source e now).1]
    rfl

/-- `Cache.Set`: `expire == DefaultCacheExpiration` → the cache's default; `expire > 0` → `now + expire`, else 0 (never) -/
theorem cacheSet_matches_source {α : Type} (d : Nat) (c : Cache α) (k : String) (v : α) (expire now : Nat) :
    Cache.set d c k v expire now = fun k' => if k' = k then
        some (v, if Gen.Src.c06SetExpires (if Gen.Src.c06SetUsesDefault expire 0 then d else expire)
                 then now + (if Gen.Src.c06SetUsesDefault expire 0 then d else expire) else 0)
      else c k' := by
  funext k'
  simp [Cache.set, Gen.Src.c06SetExpires, Gen.Src.c06SetUsesDefault]

/-- `Cache.ClearExpired`: the scan collects by `item.Expires > 0 && now > item.Expires`, the delete
    re-checks `ok && item.Expires > 0 && now > item.Expires` -/
theorem gc_matches_source {α : Type} (c : Cache α) (keys ks : List String) (now : Nat) (k : String) :
    c.scanExpired keys now = keys.filter (fun k => match c k with
      | some (_, e) => Gen.Src.c06GcScanExpired e now
      | none => false) ∧
    c.deleteKeys ks now k = (if ks.contains k then
      (match c k with
       | some (v, e) => if Gen.Src.c06GcDeleteStillExpired true e now then none else some (v, e)
       | none => none)
      else c k) := by
  refine ⟨rfl, ?_⟩
  simp only [Cache.deleteKeys, (expired_matches_source _ now).2.2.1]
  rfl

/-- `Accept`: `!ok` → write, true; `v.checkBlockNumber < reported` → write, true; else false -/
theorem accept_matches_source (cfg : Cfg) (s : St) (w : String) (b : Nat) :
    accept cfg s w b =
      if Gen.Src.c06AcceptMissing (s.cache.get w s.now).isSome then
        ({ s with cache := s.cache.set cfg.window w (acceptRec b) 0 s.now }, true)
      else if Gen.Src.c06AcceptHigher (s.cache.get w s.now).get!.checkBlock b then
        ({ s with cache := s.cache.set cfg.window w (acceptRec b) 0 s.now }, true)
      else (s, false) := by
  unfold accept
  cases s.cache.get w s.now with
  | none => simp [Gen.Src.c06AcceptMissing]
  | some v => by_cases h : v.checkBlock < b <;> simp [Gen.Src.c06AcceptMissing, Gen.Src.c06AcceptHigher, h]

/-- `ShouldTransmit`: `!ok` → false; `reported < awaited` → false; `reported == awaited` → pending; else false -/
theorem shouldTransmit_matches_source (s : St) (w : String) (b : Nat) :
    shouldTransmit s w b =
      if Gen.Src.c06TransmitMissing (s.cache.get w s.now).isSome then false
      else if Gen.Src.c06TransmitSuperseded b (s.cache.get w s.now).get!.checkBlock then false
      else if Gen.Src.c06TransmitSameBlock b (s.cache.get w s.now).get!.checkBlock then
        Gen.Src.c06TransmitAnswer (s.cache.get w s.now).get!.pending
      else false := by
  unfold shouldTransmit
  cases s.cache.get w s.now with
  | none => simp [Gen.Src.c06TransmitMissing]
  | some v =>
    by_cases h1 : b < v.checkBlock <;> by_cases h2 : b = v.checkBlock <;>
      simp [Gen.Src.c06TransmitMissing, Gen.Src.c06TransmitSuperseded, Gen.Src.c06TransmitSameBlock,
        Gen.Src.c06TransmitAnswer, h1, h2]

/-- loop body of `checkEvents`: the six tests / writes of the source in the source's order -/
theorem pollEvent_matches_source (cfg : Cfg) (s : St) (e : Event) :
    pollEvent cfg s e =
      if Gen.Src.c06EventTooFewConfirmations e.conf cfg.minConf then (s, .lowConf)
      else if Gen.Src.c06EventVisited (s.visited.get (visitedID e) s.now).isSome then (s, .visited)
      else if Gen.Src.c06EventNoRecord (s.cache.get e.workID s.now).isSome then (s, .unknown)
      else
        let v := (s.cache.get e.workID s.now).get!
        let visited' := s.visited.set cfg.window (visitedID e) true cfg.window s.now
        if Gen.Src.c06EventSameBlock e.checkBlock v.checkBlock then
          ({ s with visited := visited',
                    cache := s.cache.set cfg.window e.workID
                      { eventRec e with checkBlock := Gen.Src.c06EventSameWrites v.checkBlock } 0 s.now }, .same)
        else if Gen.Src.c06EventNewerBlock e.checkBlock v.checkBlock then
          ({ s with visited := visited',
                    cache := s.cache.set cfg.window e.workID
                      { eventRec e with checkBlock := Gen.Src.c06EventNewerWrites e.checkBlock } 0 s.now }, .newer)
        else ({ s with visited := visited' }, .old) := by
  unfold pollEvent
  by_cases hc : e.conf < cfg.minConf
  · simp [Gen.Src.c06EventTooFewConfirmations, hc]
  · simp only [Gen.Src.c06EventTooFewConfirmations, hc, decide_false, Bool.false_eq_true, if_false]
    cases s.visited.get (visitedID e) s.now with
    | some _ => simp [Gen.Src.c06EventVisited]
    | none =>
      simp only [Gen.Src.c06EventVisited, Option.isSome_none, Bool.false_eq_true, if_false]
      cases s.cache.get e.workID s.now with
      | none => simp [Gen.Src.c06EventNoRecord]
      | some v =>
        simp only [Gen.Src.c06EventNoRecord, Option.isSome_some, Bool.not_true, Bool.false_eq_true, if_false,
          Option.get!_some, Gen.Src.c06EventSameBlock, Gen.Src.c06EventNewerBlock, Gen.Src.c06EventSameWrites,
          Gen.Src.c06EventNewerWrites, decide_eq_true_eq]
        by_cases h1 : e.checkBlock = v.checkBlock
        · simp [h1]
        · by_cases h2 : e.checkBlock > v.checkBlock
          · simp only [h1, h2, if_false, if_true]; rfl
          · simp [h1, h2]

/-! ### control structure regenerated as decision trees (`"kind": "tree"`)

Which exit is reached under which conditions, in which order the conditions are tested, and what
each `return` returns are read off the source on every run.  `Cache.Set` has no exit to tie. -/

/-- **`Accept` is the source's decision tree**: the answer is the value returned at the exit the tree
takes, and the record is (re)written exactly at the two `return true` exits, for every state -/
theorem accept_tree_matches_source (cfg : Cfg) (s : St) (w : String) (b : Nat) :
    let found := (s.cache.get w s.now).isSome
    let awaited := (s.cache.get w s.now).get!.checkBlock
    let exit := Gen.Src.c06AcceptTree found awaited b
    (accept cfg s w b).2 = Gen.Src.c06AcceptTreeVal found awaited b exit ∧
    (accept cfg s w b).1 =
      (if exit = 1 ∨ exit = 2 then { s with cache := s.cache.set cfg.window w (acceptRec b) 0 s.now } else s) := by
  unfold accept
  cases s.cache.get w s.now with
  | none => simp [Gen.Src.c06AcceptTree, Gen.Src.c06AcceptTreeVal]
  | some v =>
    by_cases h : v.checkBlock < b <;> simp [Gen.Src.c06AcceptTree, Gen.Src.c06AcceptTreeVal, h]

/-- **`ShouldTransmit` is the source's decision tree** (four exits, `v.isTransmissionPending` returned at the third) -/
theorem shouldTransmit_tree_matches_source (s : St) (w : String) (b : Nat) :
    let found := (s.cache.get w s.now).isSome
    let v := (s.cache.get w s.now).get!
    shouldTransmit s w b =
      Gen.Src.c06ShouldTransmitTreeVal found b v.checkBlock v.pending
        (Gen.Src.c06ShouldTransmitTree found b v.checkBlock v.pending) := by
  unfold shouldTransmit
  cases s.cache.get w s.now with
  | none => simp [Gen.Src.c06ShouldTransmitTree, Gen.Src.c06ShouldTransmitTreeVal]
  | some v =>
    by_cases h1 : b < v.checkBlock <;> by_cases h2 : b = v.checkBlock <;>
      simp [Gen.Src.c06ShouldTransmitTree, Gen.Src.c06ShouldTransmitTreeVal, h1, h2]

/-- what `Cache.Get` returns at each exit of its tree: 1 = `getZero, false` (absent), 2 = `getZero, false`
(expired), 3 = `value.Item, true` -/
private def cacheGetOutcome {α : Type} (item : Option α) : Nat → Option α
  | 3 => item
  | _ => none

/-- **`Cache.Get` is the source's decision tree**: absent → miss; `Expires > 0` and `now > Expires`
(nested in that order) → miss; otherwise the item -/
theorem cacheGet_tree_matches_source {α : Type} (c : Cache α) (k : String) (now : Nat) :
    c.get k now = cacheGetOutcome ((c k).map (·.1))
      (Gen.Src.c06CacheGetTree (c k).isSome ((c k).map (·.2)).get! now) := by
  unfold Cache.get
  cases h : c k with
  | none => simp [Gen.Src.c06CacheGetTree, cacheGetOutcome]
  | some p =>
    obtain ⟨v, e⟩ := p
    by_cases h1 : e > 0 <;> by_cases h2 : now > e <;>
      simp [Gen.Src.c06CacheGetTree, cacheGetOutcome, expired, h1, h2]

/-- the disposition of an event at each exit of the event-loop body (`c06EventBodyTree`, marks on the two
`c.cache.Set(` writes): 1–3 the three `continue`s, 4 / 5 the write for the awaited / a newer check block,
0 the end of the body (old event) -/
private def dispOfExit : Nat → Disp
  | 1 => .lowConf
  | 2 => .visited
  | 3 => .unknown
  | 4 => .same
  | 5 => .newer
  | _ => .old

/-- **the body of the event loop in `checkEvents` is the source's decision tree** (the two variables
named `ok` are separate parameters: `visited`, `found`): the disposition is the exit taken; the record is
rewritten exactly where a marked `c.cache.Set(` is reached (kind 4); the event is marked visited exactly
where `c.visited.Set(` is reached in the second tree; and the three other exits are `continue`s (kind 2)
that leave the whole state as it is — for every configuration, state and event -/
theorem pollEvent_tree_matches_source (cfg : Cfg) (s : St) (e : Event) :
    let vis := (s.visited.get (visitedID e) s.now).isSome
    let found := (s.cache.get e.workID s.now).isSome
    let awaited := (s.cache.get e.workID s.now).get!.checkBlock
    let exit := Gen.Src.c06EventBodyTree e.conf cfg.minConf vis found e.checkBlock awaited
    let vexit := Gen.Src.c06EventVisitTree e.conf cfg.minConf vis found
    (pollEvent cfg s e).2 = dispOfExit exit ∧
    (pollEvent cfg s e).1.cache =
      (if Gen.Src.c06EventBodyTreeKind exit = 4 then s.cache.set cfg.window e.workID (eventRec e) 0 s.now else s.cache) ∧
    (pollEvent cfg s e).1.visited =
      (if Gen.Src.c06EventVisitTreeKind vexit = 4 then s.visited.set cfg.window (visitedID e) true cfg.window s.now
       else s.visited) ∧
    (Gen.Src.c06EventBodyTreeKind exit = 2 → (pollEvent cfg s e).1 = s ∧ Gen.Src.c06EventVisitTreeKind vexit = 2) ∧
    -- how the body is left: `continue` for the three skipped dispositions (never `break` / `return`: the
    -- events after it are still looked at), a marked write for same / newer, the end of the body for old
    Gen.Src.c06EventBodyTreeKind exit = (match dispOfExit exit with
      | .lowConf | .visited | .unknown => 2
      | .same | .newer => 4
      | .old => 0) := by
  unfold pollEvent
  by_cases hc : e.conf < cfg.minConf
  · simp [Gen.Src.c06EventBodyTree, Gen.Src.c06EventVisitTree, Gen.Src.c06EventBodyTreeKind,
      Gen.Src.c06EventVisitTreeKind, dispOfExit, hc]
  · cases hv : s.visited.get (visitedID e) s.now with
    | some _ =>
      simp [Gen.Src.c06EventBodyTree, Gen.Src.c06EventVisitTree, Gen.Src.c06EventBodyTreeKind,
        Gen.Src.c06EventVisitTreeKind, dispOfExit, hc]
    | none =>
      cases hg : s.cache.get e.workID s.now with
      | none =>
        simp [Gen.Src.c06EventBodyTree, Gen.Src.c06EventVisitTree, Gen.Src.c06EventBodyTreeKind,
          Gen.Src.c06EventVisitTreeKind, dispOfExit, hc]
      | some v =>
        by_cases h1 : e.checkBlock = v.checkBlock
        · have : ({ eventRec e with checkBlock := v.checkBlock } : Rec) = eventRec e := by simp [eventRec, h1]
          simp [Gen.Src.c06EventBodyTree, Gen.Src.c06EventVisitTree, Gen.Src.c06EventBodyTreeKind,
            Gen.Src.c06EventVisitTreeKind, dispOfExit, hc, h1, this]
        · by_cases h2 : e.checkBlock > v.checkBlock
          · simp [Gen.Src.c06EventBodyTree, Gen.Src.c06EventVisitTree, Gen.Src.c06EventBodyTreeKind,
              Gen.Src.c06EventVisitTreeKind, dispOfExit, hc, h1, h2]
          · simp [Gen.Src.c06EventBodyTree, Gen.Src.c06EventVisitTree, Gen.Src.c06EventBodyTreeKind,
              Gen.Src.c06EventVisitTreeKind, dispOfExit, hc, h1, h2]

/-- every exit of `Accept`, `ShouldTransmit` and `Cache.Get` is a `return` (no exit falls off the end) -/
theorem exits_are_returns_matches_source (found : Bool) (a b e now : Nat) (p : Bool) :
    Gen.Src.c06AcceptTreeKind (Gen.Src.c06AcceptTree found a b) = 1 ∧
    Gen.Src.c06ShouldTransmitTreeKind (Gen.Src.c06ShouldTransmitTree found a b p) = 1 ∧
    Gen.Src.c06CacheGetTreeKind (Gen.Src.c06CacheGetTree found e now) = 1 := by
  refine ⟨?_, ?_, ?_⟩
  · simp only [Gen.Src.c06AcceptTree]
    repeat' split
    all_goals rfl
  · simp only [Gen.Src.c06ShouldTransmitTree]
    repeat' split
    all_goals rfl
  · simp only [Gen.Src.c06CacheGetTree]
    repeat' split
    all_goals rfl

end AutoVerif.C06
