import AutoVerif.Spec.C08
import AutoVerif.Gen.Consts
/-
C08 — An observation is the network-canonical prefix of what the node holds.

Everything is proved for every `Ctx` (arbitrary type getter, work-id generator and shuffle `key`), every limit
record, every store content in every (map) order, every in-flight predicate, every JSON length function.
Hypotheses that are needed are exactly the ones the property names: the staged results carry pairwise distinct work
ids (they are the values of a Go map keyed by work id), `key` is injective on them (true of `random.ShuffleString` on
equal-length ids), and — for the byte limit only — the on-chain cap on perform data (`encLen ≤ Lmax`).

Property theorems and non-vacuity `example`s only; helpers are `private`.
-/
namespace AutoVerif.C08
open AutoVerif.Outcome

/-! ### helpers -/

private theorem nodup_of_map {α β} (f : α → β) {l : List α} (h : (l.map f).Nodup) : l.Nodup := by
  rw [List.Nodup, List.pairwise_map] at h
  exact h.imp (fun hab he => hab (by rw [he]))

private theorem inj_of_nodup_map {α β} (f : α → β) : ∀ {l : List α}, (l.map f).Nodup →
    ∀ a ∈ l, ∀ b ∈ l, f a = f b → a = b
  | [], _, a, ha, _, _, _ => by simp at ha
  | x :: xs, h, a, ha, b, hb, hk => by
    simp only [List.map_cons, List.nodup_cons, List.mem_map, not_exists, not_and] at h
    rcases List.mem_cons.mp ha with rfl | ha' <;> rcases List.mem_cons.mp hb with rfl | hb'
    · rfl
    · exact absurd hk.symm (h.1 b hb')
    · exact absurd hk (h.1 a ha')
    · exact inj_of_nodup_map f h.2 a ha' b hb' hk

private theorem sorted_sortByKey {α} (key : String → String) (wid : α → String) (l : List α) :
    List.Pairwise (fun a b => decide (key (wid a) ≤ key (wid b)) = true) (sortByKey key wid l) := by
  unfold sortByKey
  apply List.pairwise_mergeSort
  · intro a b c hab hbc
    simp only [decide_eq_true_eq] at hab hbc ⊢
    exact String.le_trans hab hbc
  · intro a b
    simp only [Bool.or_eq_true, decide_eq_true_eq]
    exact String.le_total _ _

private theorem sortByKey_perm {α} (key : String → String) (wid : α → String) (l : List α) :
    (sortByKey key wid l).Perm l := by
  unfold sortByKey; exact List.mergeSort_perm _ _

private theorem sum_map_take_le (f : CheckResult → Nat) (B : Nat) :
    ∀ (c : List CheckResult) (k : Nat), (∀ r ∈ c, f r ≤ B) → ((c.take k).map f).sum ≤ k * B
  | [], k, _ => by simp
  | _ :: _, 0, _ => by simp
  | x :: xs, k + 1, h => by
    have ih := sum_map_take_le f B xs k (fun r hr => h r (by simp [hr]))
    have hx := h x (by simp)
    simp only [List.take_succ_cons, List.map_cons, List.sum_cons, Nat.add_mul, Nat.one_mul]
    omega

/-! ### the trimming recursion -/

/-- the result never exceeds the limit it was called with (so the performables are a prefix of `results[:limit]`) -/
theorem trim_le (maxLen base : Nat) (size : Nat → Nat) :
    ∀ fuel limit, trim maxLen base size fuel limit ≤ limit := by
  intro fuel
  induction fuel with
  | zero => intro limit; simp [trim]
  | succ fuel ih =>
    intro limit
    unfold trim
    split
    · omega
    · split
      · split
        · exact Nat.le_refl _
        · have := ih (limit - (excess maxLen base size limit + 1)); omega
      · exact Nat.le_refl _

/-- **Termination.** The Go recursion lowers `limit` by at least one per call, so it returns within `limit` calls: any
amount of fuel `≥ limit` gives the same answer (the fuel is not a cut-off of the model). -/
theorem trim_fuel_irrelevant (maxLen base : Nat) (size : Nat → Nat) :
    ∀ f₁ f₂ limit, limit ≤ f₁ → limit ≤ f₂ →
      trim maxLen base size f₁ limit = trim maxLen base size f₂ limit := by
  intro f₁
  induction f₁ with
  | zero =>
    intro f₂ limit h₁ _
    have : limit = 0 := by omega
    subst this
    cases f₂ <;> simp [trim]
  | succ f₁ ih =>
    intro f₂ limit h₁ h₂
    cases f₂ with
    | zero =>
      have : limit = 0 := by omega
      subst this
      simp [trim]
    | succ f₂ =>
      unfold trim
      split
      · rfl
      · split
        · split
          · rfl
          · exact ih f₂ _ (by omega) (by omega)
        · rfl

/-- **The trimming terminates and only ever shortens the prefix**: with any fuel `≥ limit` the recursion returns the value
it returns with fuel `= limit` (it needs at most `limit` calls), and that value is at most `limit`, so
`obs.Performable = results[:k]` is a prefix of `results[:limit]`. -/
theorem trim_terminates_and_prefix (maxLen base : Nat) (size : Nat → Nat) (fuel limit : Nat) (h : limit ≤ fuel) :
    trim maxLen base size fuel limit = trim maxLen base size limit limit ∧
      trim maxLen base size limit limit ≤ limit :=
  ⟨trim_fuel_irrelevant maxLen base size fuel limit limit h (Nat.le_refl _), trim_le maxLen base size limit limit⟩

/-- at least one performable survives the trimming when there is a candidate at all -/
theorem trim_pos (maxLen base : Nat) (size : Nat → Nat) :
    ∀ fuel limit, 1 ≤ limit → limit ≤ fuel → 1 ≤ trim maxLen base size fuel limit := by
  intro fuel
  induction fuel with
  | zero => intro limit h₁ h₂; omega
  | succ fuel ih =>
    intro limit h₁ h₂
    unfold trim
    split
    · omega
    · split
      · split
        · exact h₁
        · rename_i hg
          simp only [gaveUp, Bool.or_eq_true, decide_eq_true_eq, not_or, Nat.not_le] at hg
          exact ih _ (by omega) (by omega)
      · exact h₁

/-- **What the recursion guarantees (strongest honest form).**  The returned count `k` is `0` (no candidate), or the
observation with `k` performables fits into `maxLen`, or the recursion took the `limit <= 0` exit at `k`
(`stuckAt`: an oversize observation is returned). -/
theorem trim_fits_or_stuck (maxLen base : Nat) (size : Nat → Nat) :
    ∀ fuel limit, limit ≤ fuel →
      trim maxLen base size fuel limit = 0 ∨
      size (trim maxLen base size fuel limit) ≤ maxLen ∨
      stuckAt maxLen base size (trim maxLen base size fuel limit) = true := by
  intro fuel
  induction fuel with
  | zero => intro limit h; left; simp [trim]; omega
  | succ fuel ih =>
    intro limit h
    unfold trim
    split
    · left; rfl
    · split
      · split
        · rename_i hs hg
          right; right
          simp only [stuckAt, Bool.and_eq_true, decide_eq_true_eq]
          exact ⟨hs, hg⟩
        · exact ih _ (by omega)
      · rename_i hs
        right; left; omega

/-- the arithmetic core: with `L ≤ cap` results of at most `W` bytes each (separator included) and
`2·W + cap` bytes of head-room between the rest of the observation and the limit, the step `limit -= n + 1`
leaves a positive limit -/
private theorem step_stays_positive {L W cap D P : Nat}
    (hL : 1 ≤ L) (hLc : L ≤ cap) (hD : 2 * W + cap ≤ D) (hP : P ≤ L * W) (hPD : D < P) :
    P / L ≠ 0 ∧ ¬ (L ≤ ceilDiv (P - D) (P / L) + 1) := by
  have hLpos : 0 < L := by omega
  have hdm := Nat.div_add_mod P L
  have hmod := Nat.mod_lt P hLpos
  -- L ≥ 3
  have hL3 : 3 ≤ L := by
    rcases Nat.lt_or_ge L 3 with h | h
    · have : L * W ≤ 2 * W := Nat.mul_le_mul_right W (by omega)
      omega
    · exact h
  have hapos : 0 < P / L := Nat.div_pos (by omega) hLpos
  refine ⟨by omega, ?_⟩
  intro hle
  unfold ceilDiv at hle
  have h1 : L - 1 ≤ (P - D + P / L - 1) / (P / L) := by omega
  have h2 : (L - 1) * (P / L) ≤ P - D + P / L - 1 := (Nat.le_div_iff_mul_le hapos).mp h1
  have h3 : (L - 1) * (P / L) = L * (P / L) - P / L := Nat.sub_one_mul L (P / L)
  have h4 : P / L ≤ L * (P / L) := Nat.le_mul_of_pos_left _ hLpos
  -- hence the average exceeds W …
  have h5 : W + 1 ≤ P / L := by omega
  -- … but then L·avg > L·W ≥ P ≥ L·avg
  have h6 : L * (W + 1) ≤ L * (P / L) := Nat.mul_le_mul_left L h5
  rw [Nat.mul_succ] at h6
  omega

/-- **The `limit <= 0` exit is unreachable under the on-chain cap.**  If every prefix of at most `cap` results adds at most
`W` bytes per result to the observation and `base + 2·W + cap ≤ maxLen`, no limit in `1..cap` is stuck. -/
theorem not_stuck_of_bounded (maxLen base cap W : Nat) (size : Nat → Nat)
    (hsize : ∀ L, 1 ≤ L → L ≤ cap → size L ≤ base + L * W)
    (hroom : base + 2 * W + cap ≤ maxLen) :
    ∀ L, 1 ≤ L → L ≤ cap → stuckAt maxLen base size L = false := by
  intro L hL hLc
  cases hst : stuckAt maxLen base size L with
  | false => rfl
  | true =>
    exfalso
    simp only [stuckAt, gaveUp, Bool.and_eq_true, Bool.or_eq_true, decide_eq_true_eq] at hst
    obtain ⟨hs, hg⟩ := hst
    have hb := hsize L hL hLc
    have key := step_stays_positive (L := L) (W := W) (cap := cap) (D := maxLen - base) (P := size L - base)
      hL hLc (by omega) (by omega) (by omega)
    unfold excess avgSize at hg
    have e : size L - base - (maxLen - base) = size L - maxLen := by omega
    rw [e] at key
    rcases hg with hg | hg
    · exact key.1 hg
    · exact key.2 hg

/-- **The byte limit is met.**  Under the hypotheses of `not_stuck_of_bounded` and `limit ≤ cap`, the observation with the
returned number of performables is at most `maxLen` bytes long (`size 0` is the observation without performables). -/
theorem trim_fits (maxLen base cap W : Nat) (size : Nat → Nat)
    (hsize : ∀ L, 1 ≤ L → L ≤ cap → size L ≤ base + L * W)
    (hroom : base + 2 * W + cap ≤ maxLen) (h0 : size 0 ≤ maxLen)
    (limit : Nat) (hl : limit ≤ cap) :
    size (trim maxLen base size limit limit) ≤ maxLen := by
  rcases trim_fits_or_stuck maxLen base size limit limit (Nat.le_refl _) with h | h | h
  · rw [h]; exact h0
  · exact h
  · have hk := trim_le maxLen base size limit limit
    rcases Nat.eq_zero_or_pos (trim maxLen base size limit limit) with hz | hp
    · rw [hz]; exact h0
    · have := not_stuck_of_bounded maxLen base cap W size hsize hroom _ hp (by omega)
      rw [this] at h; cases h

/-! ### performables -/

/-- **Canonical prefix.**  The performables are the first `k` results of the round's network-wide order among the node's
candidates, with `k ≤ min(cap, #candidates)`. -/
theorem performables_canonical_prefix (ctx : Ctx) (lim : Limits) (maxLen : Nat) (staged : List CheckResult)
    (inflight : CheckResult → Bool) (si : SizeInfo) :
    performablesOf ctx lim maxLen staged inflight si =
        (canonical ctx staged inflight).take (performablesK lim maxLen si (canonical ctx staged inflight)) ∧
      performablesK lim maxLen si (canonical ctx staged inflight)
        ≤ min lim.obsPerformables (canonical ctx staged inflight).length :=
  ⟨rfl, trim_le _ _ _ _ _⟩

/-- the same as the oracle's predicate -/
theorem performables_prefixOk (ctx : Ctx) (lim : Limits) (maxLen : Nat) (staged : List CheckResult)
    (inflight : CheckResult → Bool) (lc cc : List Proposal) (hist : List BlockKey) (si : SizeInfo) :
    prefixOk ctx staged inflight (observationOf ctx lim maxLen staged inflight lc cc hist si) = true := by
  have hk := (performables_canonical_prefix ctx lim maxLen staged inflight si).2
  simp only [prefixOk, isPrefix, observationOf, performablesOf, decide_eq_true_eq, List.length_take]
  congr 1
  omega

/-- every performable is a staged result that is not in flight — filtered work never leaks -/
theorem performables_subset (ctx : Ctx) (lim : Limits) (maxLen : Nat) (staged : List CheckResult)
    (inflight : CheckResult → Bool) (si : SizeInfo) :
    ∀ r ∈ performablesOf ctx lim maxLen staged inflight si, r ∈ staged ∧ inflight r = false := by
  intro r hr
  have h1 : r ∈ canonical ctx staged inflight := List.mem_of_mem_take hr
  have h2 : r ∈ candidates staged inflight := (sortByKey_perm _ _ _).mem_iff.mp h1
  simp only [candidates, List.mem_filter, Bool.not_eq_true'] at h2
  exact h2

/-- **The cut is only the cap or the byte limit.**  If the first `min(cap, n)` candidates fit, all of them are sent. -/
theorem performables_all_if_fit (lim : Limits) (maxLen : Nat) (si : SizeInfo) (c : List CheckResult)
    (hfit : sizeOf si c (min lim.obsPerformables c.length) ≤ maxLen) :
    performablesK lim maxLen si c = min lim.obsPerformables c.length := by
  unfold performablesK
  generalize min lim.obsPerformables c.length = l at hfit
  cases l with
  | zero => simp [trim]
  | succ l =>
    unfold trim
    simp only [Nat.add_one_ne_zero, if_false]
    rw [if_neg (by omega)]

/-- **Insertion order (and map order) is irrelevant.**  Two candidate lists that are permutations of each other — the same
set held by two stores, whatever the insertion order, the map iteration order and the rest of the stores — are put
into the same order, provided the shuffled ids tell the candidates apart. -/
theorem canonical_perm_eq (ctx : Ctx) (s₁ s₂ : List CheckResult) (i₁ i₂ : CheckResult → Bool)
    (hp : (candidates s₁ i₁).Perm (candidates s₂ i₂))
    (hinj : ∀ a ∈ candidates s₁ i₁, ∀ b ∈ candidates s₁ i₁, ctx.key a.workID = ctx.key b.workID → a = b) :
    canonical ctx s₁ i₁ = canonical ctx s₂ i₂ := by
  unfold canonical
  refine List.Perm.eq_of_pairwise (le := fun a b => decide (ctx.key a.workID ≤ ctx.key b.workID) = true) ?_
    (sorted_sortByKey _ _ _) (sorted_sortByKey _ _ _) ?_
  · intro a b ha hb h₁ h₂
    simp only [decide_eq_true_eq] at h₁ h₂
    have ha' : a ∈ candidates s₁ i₁ := (sortByKey_perm _ _ _).mem_iff.mp ha
    have hb' : b ∈ candidates s₁ i₁ := hp.mem_iff.mpr ((sortByKey_perm _ _ _).mem_iff.mp hb)
    exact hinj a ha' b hb' (String.le_antisymm h₁ h₂)
  · exact (sortByKey_perm _ _ _).trans (hp.trans (sortByKey_perm _ _ _).symm)

/-- the hypothesis of `canonical_perm_eq` from its two natural parts: one result per work id (a Go map keyed by work id)
and a shuffle that is injective on these work ids -/
theorem key_separates (ctx : Ctx) (c : List CheckResult) (hn : (c.map (·.workID)).Nodup)
    (hk : ∀ a ∈ c, ∀ b ∈ c, ctx.key a.workID = ctx.key b.workID → a.workID = b.workID) :
    ∀ a ∈ c, ∀ b ∈ c, ctx.key a.workID = ctx.key b.workID → a = b :=
  fun a ha b hb h => inj_of_nodup_map (·.workID) hn a ha b hb (hk a ha b hb h)

/-- **Two nodes holding the same candidates send the same list** when the rest of their observations has the same
encoded length (or, by `performables_all_if_fit`, whenever the byte limit does not cut) … -/
theorem insertion_order_irrelevant (ctx : Ctx) (lim : Limits) (maxLen : Nat) (s₁ s₂ : List CheckResult)
    (i₁ i₂ : CheckResult → Bool) (si : SizeInfo)
    (hp : (candidates s₁ i₁).Perm (candidates s₂ i₂))
    (hinj : ∀ a ∈ candidates s₁ i₁, ∀ b ∈ candidates s₁ i₁, ctx.key a.workID = ctx.key b.workID → a = b) :
    performablesOf ctx lim maxLen s₁ i₁ si = performablesOf ctx lim maxLen s₂ i₂ si := by
  unfold performablesOf
  rw [canonical_perm_eq ctx s₁ s₂ i₁ i₂ hp hinj]

/-- … and in general (different block histories / proposals, hence different `base`, with the byte limit cutting) one list
is a prefix of the other: both are prefixes of the same order. -/
theorem same_candidates_prefix_comparable (ctx : Ctx) (lim : Limits) (maxLen : Nat) (s₁ s₂ : List CheckResult)
    (i₁ i₂ : CheckResult → Bool) (si₁ si₂ : SizeInfo)
    (hp : (candidates s₁ i₁).Perm (candidates s₂ i₂))
    (hinj : ∀ a ∈ candidates s₁ i₁, ∀ b ∈ candidates s₁ i₁, ctx.key a.workID = ctx.key b.workID → a = b) :
    ∃ (c : List CheckResult) (k₁ k₂ : Nat), performablesOf ctx lim maxLen s₁ i₁ si₁ = c.take k₁ ∧
      performablesOf ctx lim maxLen s₂ i₂ si₂ = c.take k₂ := by
  refine ⟨canonical ctx s₁ i₁, performablesK lim maxLen si₁ (canonical ctx s₁ i₁),
    performablesK lim maxLen si₂ (canonical ctx s₂ i₂), rfl, ?_⟩
  unfold performablesOf
  rw [← canonical_perm_eq ctx s₁ s₂ i₁ i₂ hp hinj]

/-- the encoded length of an observation with `k ≤ cap` performables of at most `Lmax` bytes each -/
private theorem sizeOf_le (si : SizeInfo) (c : List CheckResult) (Lmax : Nat)
    (hlen : ∀ r ∈ c, si.encLen r ≤ Lmax) (L : Nat) (hL : 1 ≤ L) :
    sizeOf si c L ≤ si.base + L * (Lmax + 1) := by
  have := sum_map_take_le si.encLen Lmax c L hlen
  unfold sizeOf
  rw [if_neg (by omega), Nat.mul_succ]
  omega

/-- **An observation fits into the advertised length.**  With the regenerated constants: if every candidate encodes to at
most `Lmax` bytes and the observation without performables is at most `maxObservationLength − 2·(Lmax+1) − cap` bytes
long, the observation is at most `MaxObservationLength` bytes long.  For the on-chain cap of 10 000 bytes of perform data
`Lmax = 14 500` (13 336 base64 characters + at most 1 150 bytes for the other ten fields). -/
theorem observation_fits (ctx : Ctx) (lim : Limits) (staged : List CheckResult) (inflight : CheckResult → Bool)
    (si : SizeInfo) (Lmax : Nat)
    (hcap : lim.obsPerformables = Gen.observationPerformablesLimit)
    (hlen : ∀ r ∈ staged, si.encLen r ≤ Lmax)
    (hroom : si.base + 2 * (Lmax + 1) + Gen.observationPerformablesLimit ≤ Gen.maxObservationLength) :
    sizeOf si (canonical ctx staged inflight)
      (performablesOf ctx lim Gen.maxObservationLength staged inflight si).length ≤ Gen.maxObservationLength := by
  have hlen' : ∀ r ∈ canonical ctx staged inflight, si.encLen r ≤ Lmax := by
    intro r hr
    have : r ∈ candidates staged inflight := (sortByKey_perm _ _ _).mem_iff.mp hr
    exact hlen r (List.mem_filter.mp this).1
  have hk := (performables_canonical_prefix ctx lim Gen.maxObservationLength staged inflight si).2
  have hlenk : (performablesOf ctx lim Gen.maxObservationLength staged inflight si).length =
      performablesK lim Gen.maxObservationLength si (canonical ctx staged inflight) := by
    simp only [performablesOf, List.length_take]; omega
  rw [hlenk]
  unfold performablesK
  apply trim_fits Gen.maxObservationLength si.base Gen.observationPerformablesLimit (Lmax + 1)
  · intro L hL _; exact sizeOf_le si _ Lmax hlen' L hL
  · exact hroom
  · simp only [sizeOf, if_true]; omega
  · rw [← hcap]; exact Nat.min_le_left _ _

/-- the numbers for the on-chain cap: up to 900 000 bytes of block history and proposals leave enough room (the 256 blocks
and 10 proposals of an observation take less than 60 000) -/
theorem observation_fits_onchain_cap (ctx : Ctx) (lim : Limits) (staged : List CheckResult)
    (inflight : CheckResult → Bool) (si : SizeInfo)
    (hcap : lim.obsPerformables = Gen.observationPerformablesLimit)
    (hlen : ∀ r ∈ staged, si.encLen r ≤ 14500) (hbase : si.base ≤ 900000) :
    sizeOf si (canonical ctx staged inflight)
      (performablesOf ctx lim Gen.maxObservationLength staged inflight si).length ≤ Gen.maxObservationLength := by
  apply observation_fits ctx lim staged inflight si 14500 hcap hlen
  have h1 : Gen.observationPerformablesLimit = 100 := by decide
  have h2 : Gen.maxObservationLength = 1000000 := by decide
  omega

/-! ### proposals, history, duplicates -/

/-- **At most five per trigger type**, as many as are available … -/
theorem proposals_le_five_each (limit : Nat) (avail choice : List Proposal) (h : ChoiceOf limit avail choice) :
    choice.length = min limit avail.length ∧ choice.length ≤ limit := by
  obtain ⟨sh, hp, rfl⟩ := h
  rw [List.length_take, hp.length_eq]
  exact ⟨rfl, Nat.min_le_left _ _⟩

/-- … drawn from the node's own unexpired proposals that are not in flight … -/
theorem proposals_subset_live_not_inflight (limit : Nat) (props choice : List Proposal) (inflightP : Proposal → Bool)
    (h : ChoiceOf limit (available props inflightP) choice) :
    ∀ p ∈ choice, p ∈ props ∧ inflightP p = false := by
  obtain ⟨sh, hp, rfl⟩ := h
  intro p hpm
  have : p ∈ available props inflightP := hp.mem_iff.mp (List.mem_of_mem_take hpm)
  simpa [available] using this

/-- … and the run-time oracle's relation holds of every such choice (`props` holds one proposal per work id: it is the
value list of an ordered map keyed by work id) -/
theorem choiceOf_choiceOk (limit : Nat) (avail choice : List Proposal) (hn : (avail.map (·.workID)).Nodup)
    (h : ChoiceOf limit avail choice) : choiceOk limit avail choice = true := by
  have hlen := (proposals_le_five_each limit avail choice h).1
  obtain ⟨sh, hp, rfl⟩ := h
  simp only [choiceOk, Bool.and_eq_true, List.all_eq_true, decide_eq_true_eq, List.contains_iff_mem]
  refine ⟨⟨?_, ?_⟩, hlen⟩
  · intro p hpm; exact hp.mem_iff.mp (List.mem_of_mem_take hpm)
  · have : (sh.map (·.workID)).Nodup := (hp.map _).nodup_iff.mpr hn
    exact (List.Sublist.map _ (List.take_sublist _ _)).nodup this

/-- **Block history is the leading 256 entries** of the node's latest block-history view -/
theorem history_prefix (ctx : Ctx) (lim : Limits) (maxLen : Nat) (staged : List CheckResult)
    (inflight : CheckResult → Bool) (lc cc : List Proposal) (hist : List BlockKey) (si : SizeInfo) :
    (observationOf ctx lim maxLen staged inflight lc cc hist si).blockHistory = hist.take lim.obsBlockHistory ∧
      (observationOf ctx lim maxLen staged inflight lc cc hist si).blockHistory.length ≤ lim.obsBlockHistory := by
  refine ⟨rfl, ?_⟩
  simp only [observationOf, List.length_take]
  exact Nat.min_le_left _ _

/-- **Nothing appears twice.**  Performables: one per work id.  Proposals: one per work id across both trigger types
(the two metadata maps hold disjoint work ids: a work id is derived from its upkeep id). -/
theorem no_duplicates (ctx : Ctx) (lim : Limits) (maxLen : Nat) (staged : List CheckResult)
    (inflight : CheckResult → Bool) (logProps condProps lc cc : List Proposal) (inflightP : Proposal → Bool)
    (hist : List BlockKey) (si : SizeInfo)
    (hs : (staged.map (·.workID)).Nodup)
    (hpn : ((logProps ++ condProps).map (·.workID)).Nodup)
    (hl : ChoiceOf lim.obsLogProposals (available logProps inflightP) lc)
    (hc : ChoiceOf lim.obsCondProposals (available condProps inflightP) cc) :
    nodupOk (observationOf ctx lim maxLen staged inflight lc cc hist si) = true := by
  simp only [nodupOk, observationOf, Bool.and_eq_true]
  refine ⟨decide_eq_true ?_, decide_eq_true ?_⟩
  · -- performables: sublist of a permutation of a sublist of the store
    have h1 : ((candidates staged inflight).map (·.workID)).Nodup :=
      (List.Sublist.map _ List.filter_sublist).nodup hs
    have h2 : ((canonical ctx staged inflight).map (·.workID)).Nodup :=
      ((sortByKey_perm _ _ _).map _).nodup_iff.mpr h1
    exact (List.Sublist.map _ (List.take_sublist _ _)).nodup h2
  · obtain ⟨sl, hpl, rfl⟩ := hl
    obtain ⟨sc, hpc, rfl⟩ := hc
    -- the shuffled lists together are a permutation of a sublist of logProps ++ condProps
    have hsub : ((available logProps inflightP ++ available condProps inflightP).map (·.workID)).Nodup :=
      (List.Sublist.map _ (List.Sublist.append List.filter_sublist List.filter_sublist)).nodup hpn
    have hperm : ((sl ++ sc).map (·.workID)).Nodup :=
      ((hpl.append hpc).map _).nodup_iff.mpr hsub
    exact (List.Sublist.map _ (List.Sublist.append (List.take_sublist _ _) (List.take_sublist _ _))).nodup hperm

/-! ### the pre-build hooks -/

/-- what the previous outcome agreed on is not offered again: no performable of `observe` carries a work id of
`prev.agreed` -/
theorem agreed_not_reoffered (ctx : Ctx) (lim : Limits) (maxLen : Nat) (prev : Outcome) (v : NodeView)
    (inflight : CheckResult → Bool) (lc cc : List Proposal) (si : SizeInfo) :
    ∀ r ∈ (observe ctx lim maxLen (some prev) v inflight lc cc si).performable,
      r.workID ∉ prev.agreed.map (·.workID) := by
  intro r hr
  simp only [observe, preBuild, observationOf] at hr
  have := (performables_subset ctx lim maxLen _ inflight si r hr).1
  obtain ⟨_, h2⟩ := List.mem_filter.mp this
  intro hm
  have hc : (prev.agreed.map (·.workID)).contains r.workID = true := List.contains_iff_mem.mpr hm
  rw [hc] at h2
  cases h2

/-- a proposal surfaced by the previous outcome (same trigger type, same work id) is no longer available -/
theorem surfaced_not_available (ctx : Ctx) (t : UpkeepType) (prev : Outcome) (props : List Proposal)
    (inflightP : Proposal → Bool) (q : Proposal) (hq : q ∈ prev.surfaced.flatten) (ht : ctx.utg q.upkeepID = t) :
    ∀ p ∈ available (removeSurfaced ctx t prev props) inflightP, p.workID ≠ q.workID := by
  intro p hp he
  simp only [available, removeSurfaced, List.mem_filter, Bool.not_eq_true', List.any_eq_false, Bool.and_eq_true,
    decide_eq_true_eq, beq_iff_eq, not_and] at hp
  exact hp.1.2 q hq ht he.symm

/-! ### the oracle's predicate holds of the model -/

/-- **C08 (model).**  For every store content, order, in-flight state, proposal selection allowed by `ChoiceOf`, history and
JSON length function: the observation the model builds satisfies the predicate the run-time oracle evaluates on the
implementation's observation — provided the trimming does not take the `limit <= 0` exit
(`not_stuck_of_bounded`: it cannot under the on-chain cap). -/
theorem observation_meets_spec (ctx : Ctx) (lim : Limits) (maxLen : Nat) (staged : List CheckResult)
    (inflight : CheckResult → Bool) (logProps condProps lc cc : List Proposal) (inflightP : Proposal → Bool)
    (hist : List BlockKey) (si : SizeInfo)
    (hs : (staged.map (·.workID)).Nodup)
    (hpn : ((logProps ++ condProps).map (·.workID)).Nodup)
    (htl : ∀ p ∈ logProps, ctx.utg p.upkeepID = .log) (htc : ∀ p ∈ condProps, ctx.utg p.upkeepID = .condition)
    (hl : ChoiceOf lim.obsLogProposals (available logProps inflightP) lc)
    (hc : ChoiceOf lim.obsCondProposals (available condProps inflightP) cc)
    (h0 : si.base ≤ maxLen)
    (hns : ∀ L, 1 ≤ L → L ≤ lim.obsPerformables → stuckAt maxLen si.base (sizeOf si (canonical ctx staged inflight)) L = false) :
    let o := observationOf ctx lim maxLen staged inflight lc cc hist si
    spec ctx lim maxLen staged inflight (available logProps inflightP) (available condProps inflightP) hist si o
      (sizeOf si (canonical ctx staged inflight) o.performable.length) = true := by
  intro o
  have hpre := performables_prefixOk ctx lim maxLen staged inflight lc cc hist si
  have hnd := no_duplicates ctx lim maxLen staged inflight logProps condProps lc cc inflightP hist si hs hpn hl hc
  have hk := (performables_canonical_prefix ctx lim maxLen staged inflight si).2
  have hlen : o.performable.length = performablesK lim maxLen si (canonical ctx staged inflight) := by
    simp only [o, observationOf, performablesOf, List.length_take]; omega
  simp only [spec, Bool.and_eq_true]
  refine ⟨⟨⟨⟨hpre, ?_⟩, ?_⟩, ?_⟩, hnd⟩
  · -- cutOk
    simp only [cutOk, Bool.or_eq_true, Bool.and_eq_true, decide_eq_true_eq]
    rw [hlen]
    rcases Nat.lt_or_ge maxLen (sizeOf si (canonical ctx staged inflight)
        (min lim.obsPerformables (canonical ctx staged inflight).length)) with hbig | hfit
    · right
      refine ⟨⟨hbig, ?_⟩, ?_⟩
      · -- strictly fewer: at the full limit the observation does not fit and the limit is not stuck
        rcases Nat.lt_or_ge (performablesK lim maxLen si (canonical ctx staged inflight))
            (min lim.obsPerformables (canonical ctx staged inflight).length) with h | h
        · exact h
        · exfalso
          have heq : performablesK lim maxLen si (canonical ctx staged inflight) =
              min lim.obsPerformables (canonical ctx staged inflight).length := by omega
          have hfs := trim_fits_or_stuck maxLen si.base (sizeOf si (canonical ctx staged inflight)) _ _ (Nat.le_refl
            (min lim.obsPerformables (canonical ctx staged inflight).length))
          unfold performablesK at heq
          simp only at heq
          rw [heq] at hfs
          rcases hfs with hz | hz | hz
          · rw [hz] at hbig; simp only [sizeOf, if_true] at hbig; omega
          · omega
          · have hpos : 1 ≤ min lim.obsPerformables (canonical ctx staged inflight).length := by
              rcases Nat.eq_zero_or_pos (min lim.obsPerformables (canonical ctx staged inflight).length) with hz' | hz'
              · rw [hz'] at hbig; simp only [sizeOf, if_true] at hbig; omega
              · exact hz'
            rw [hns _ hpos (Nat.min_le_left _ _)] at hz; cases hz
      · -- what is sent fits
        have hfs := trim_fits_or_stuck maxLen si.base (sizeOf si (canonical ctx staged inflight)) _ _ (Nat.le_refl
          (min lim.obsPerformables (canonical ctx staged inflight).length))
        unfold performablesK
        simp only
        rcases hfs with hz | hz | hz
        · rw [hz]; simp only [sizeOf, if_true]; exact h0
        · exact hz
        · have hle := trim_le maxLen si.base (sizeOf si (canonical ctx staged inflight))
            (min lim.obsPerformables (canonical ctx staged inflight).length)
            (min lim.obsPerformables (canonical ctx staged inflight).length)
          rcases Nat.eq_zero_or_pos (trim maxLen si.base (sizeOf si (canonical ctx staged inflight))
            (min lim.obsPerformables (canonical ctx staged inflight).length)
            (min lim.obsPerformables (canonical ctx staged inflight).length)) with hz' | hz'
          · rw [hz']; simp only [sizeOf, if_true]; exact h0
          · rw [hns _ hz' (by have := Nat.min_le_left lim.obsPerformables (canonical ctx staged inflight).length; omega)] at hz
            cases hz
    · left
      exact ⟨performables_all_if_fit lim maxLen si _ hfit, hfit⟩
  · -- proposalsOk
    have hlt : ∀ p ∈ lc, ctx.utg p.upkeepID = .log := fun p hp =>
      htl p (proposals_subset_live_not_inflight _ _ _ _ hl p hp).1
    have hct : ∀ p ∈ cc, ctx.utg p.upkeepID = .condition := fun p hp =>
      htc p (proposals_subset_live_not_inflight _ _ _ _ hc p hp).1
    have f1 : (lc ++ cc).filter (fun p => decide (ctx.utg p.upkeepID = .log)) = lc := by
      rw [List.filter_append]
      have a : lc.filter (fun p => decide (ctx.utg p.upkeepID = .log)) = lc :=
        List.filter_eq_self.mpr (fun p hp => by simp [hlt p hp])
      have b : cc.filter (fun p => decide (ctx.utg p.upkeepID = .log)) = [] :=
        List.filter_eq_nil_iff.mpr (fun p hp => by simp [hct p hp])
      rw [a, b, List.append_nil]
    have f2 : (lc ++ cc).filter (fun p => decide (ctx.utg p.upkeepID = .condition)) = cc := by
      rw [List.filter_append]
      have a : lc.filter (fun p => decide (ctx.utg p.upkeepID = .condition)) = [] :=
        List.filter_eq_nil_iff.mpr (fun p hp => by simp [hlt p hp])
      have b : cc.filter (fun p => decide (ctx.utg p.upkeepID = .condition)) = cc :=
        List.filter_eq_self.mpr (fun p hp => by simp [hct p hp])
      rw [a, b, List.nil_append]
    have nl : ((available logProps inflightP).map (·.workID)).Nodup :=
      (List.Sublist.map _ ((List.filter_sublist).trans (List.sublist_append_left _ _))).nodup hpn
    have nc : ((available condProps inflightP).map (·.workID)).Nodup :=
      (List.Sublist.map _ ((List.filter_sublist).trans (List.sublist_append_right _ _))).nodup hpn
    simp only [proposalsOk, o, observationOf, f1, f2, Bool.and_eq_true, decide_eq_true_eq, List.length_append]
    exact ⟨⟨trivial, choiceOf_choiceOk _ _ _ nl hl⟩, choiceOf_choiceOk _ _ _ nc hc⟩
  · simp only [historyOk, o, observationOf, decide_eq_true_eq]

/-! ### the shuffled-id cache is invisible (state kept across rounds) -/

private theorem step_coherent (shuffle : String → String → String) (src : String) (st : Sorter) (w : String)
    (hc : st.Coherent shuffle) (hs : st.lastSrc = src) :
    (st.step shuffle src w).Coherent shuffle ∧ (st.step shuffle src w).lastSrc = src := by
  unfold Sorter.step
  split
  · refine ⟨?_, hs⟩
    intro e he
    rcases List.mem_cons.mp he with rfl | he
    · simp [hs]
    · exact hc e he
  · exact ⟨hc, hs⟩

private theorem get_mem {st : Sorter} {w v : String} (h : st.get w = some v) : (w, v) ∈ st.cache := by
  unfold Sorter.get at h
  cases hf : st.cache.find? (fun e => e.1 == w) with
  | none => simp [hf] at h
  | some e =>
    simp only [hf, Option.map_some, Option.some.injEq] at h
    have hm := List.mem_of_find?_eq_some hf
    have hk := List.find?_some hf
    simp only [beq_iff_eq] at hk
    have : e = (w, v) := by cases e; simp_all
    exact this ▸ hm

private theorem step_get_self (shuffle : String → String → String) (src : String) (st : Sorter) (w : String)
    (hc : st.Coherent shuffle) (hs : st.lastSrc = src) :
    (st.step shuffle src w).get w = some (shuffle w src) := by
  unfold Sorter.step
  split
  · simp [Sorter.get]
  · rename_i h
    simp only [Bool.not_eq_true, Bool.not_eq_false', Option.isSome_iff_exists] at h
    obtain ⟨v, hv⟩ := h
    have := hc _ (get_mem hv)
    simp only [hs] at this
    rw [hv, this]

private theorem step_get_keep (shuffle : String → String → String) (src : String) (st : Sorter) (w u : String) (v : String)
    (hu : st.get u = some v) : (st.step shuffle src w).get u = some v := by
  unfold Sorter.step
  split
  · rename_i h
    have hne : ¬ w = u := by
      intro e; subst e
      simp [hu] at h
    have hb : (w == u) = false := by simpa using hne
    simp only [Sorter.get, List.find?_cons, hb]
    exact hu
  · exact hu

private theorem foldl_step (shuffle : String → String → String) (src : String) :
    ∀ (wids : List String) (st : Sorter), st.Coherent shuffle → st.lastSrc = src →
      (wids.foldl (Sorter.step shuffle src) st).Coherent shuffle ∧
      (wids.foldl (Sorter.step shuffle src) st).lastSrc = src ∧
      (∀ u v, st.get u = some v → (wids.foldl (Sorter.step shuffle src) st).get u = some v) ∧
      ∀ w ∈ wids, (wids.foldl (Sorter.step shuffle src) st).get w = some (shuffle w src)
  | [], st, hc, hs => ⟨hc, hs, fun _ _ h => h, by simp⟩
  | w :: ws, st, hc, hs => by
    have h1 := step_coherent shuffle src st w hc hs
    have ih := foldl_step shuffle src ws (st.step shuffle src w) h1.1 h1.2
    simp only [List.foldl_cons]
    refine ⟨ih.1, ih.2.1, fun u v h => ih.2.2.1 u v (step_get_keep shuffle src st w u v h), ?_⟩
    intro x hx
    rcases List.mem_cons.mp hx with rfl | hx
    · exact ih.2.2.1 _ _ (step_get_self shuffle src st _ hc hs)
    · exact ih.2.2.2 x hx

private theorem mergeSort_congr {α} (l : List α) (r s : α → α → Bool) (h : ∀ a ∈ l, ∀ b ∈ l, r a b = s a b) :
    l.mergeSort r = l.mergeSort s := by
  have := List.map_mergeSort (f := fun (x : α) => x) (l := l) (r := r) (s := s) h
  simpa using this

/-- the state a fresh hook starts in (`lastRandSrc` all zero, empty map) is coherent, whatever the zero source is called -/
theorem sorter_initial_coherent (shuffle : String → String → String) (zero : String) :
    Sorter.Coherent shuffle { lastSrc := zero, cache := [] } := by
  intro e he; simp at he

/-- **`updateShuffledIDs` keeps the cache coherent and complete**: after the call the cache is labelled with the round's
source and maps every candidate to the id shuffled with THAT source — whatever was cached before, for every sequence of
earlier rounds (sources, candidate sets, empty rounds). -/
theorem sorter_update_coherent (shuffle : String → String → String) (s : Sorter) (hc : s.Coherent shuffle)
    (src : String) (wids : List String) :
    (s.update shuffle src wids).Coherent shuffle ∧ (s.update shuffle src wids).lastSrc = src ∧
      ∀ w ∈ wids, (s.update shuffle src wids).get w = some (shuffle w src) := by
  have hr : (s.reset src).Coherent shuffle ∧ (s.reset src).lastSrc = src := by
    unfold Sorter.reset
    split
    · exact ⟨by intro e he; simp at he, rfl⟩
    · rename_i h
      simp only [Bool.not_eq_true, Bool.not_eq_false', beq_iff_eq] at h
      exact ⟨hc, h⟩
  have := foldl_step shuffle src wids (s.reset src) hr.1 hr.2
  exact ⟨this.1, this.2.1, this.2.2.2⟩

/-- **The memo is invisible.**  From every coherent sorter state `orderResults` returns exactly the stateless canonical
order of the round (`sortByKey` with the ids shuffled by the round's source) and leaves a coherent state: by induction,
every observation of every sequence of rounds on one instance uses the canonical order. -/
theorem sorter_refines_canonical (shuffle : String → String → String) (s : Sorter) (hc : s.Coherent shuffle)
    (src : String) (rs : List CheckResult) :
    (s.order shuffle src rs).2 = sortByKey (fun w => shuffle w src) (·.workID) rs ∧
      (s.order shuffle src rs).1.Coherent shuffle := by
  have hu := sorter_update_coherent shuffle s hc src (rs.map (·.workID))
  refine ⟨?_, hu.1⟩
  show rs.mergeSort (fun a b => !(s.update shuffle src (rs.map (·.workID))).less b a) =
    rs.mergeSort (fun a b => decide (shuffle a.workID src ≤ shuffle b.workID src))
  apply mergeSort_congr
  intro a ha b hb
  have ga := hu.2.2 a.workID (List.mem_map.mpr ⟨a, ha, rfl⟩)
  have gb := hu.2.2 b.workID (List.mem_map.mpr ⟨b, hb, rfl⟩)
  simp only [Sorter.less, ga, gb, Option.getD_some]
  by_cases h : shuffle b.workID src < shuffle a.workID src
  · simp [h, String.not_le.mpr h]
  · simp [h, String.not_lt.mp h]

/-- chains of rounds on one instance: all observations are ordered canonically -/
theorem sorter_rounds_canonical (shuffle : String → String → String) :
    ∀ (rounds : List (String × List CheckResult)) (s : Sorter), s.Coherent shuffle →
      ∀ (pre : List (String × List CheckResult)) (r : String × List CheckResult) (post : List (String × List CheckResult)),
        rounds = pre ++ r :: post →
        ((pre.foldl (fun st q => (st.order shuffle q.1 q.2).1) s).order shuffle r.1 r.2).2 =
          sortByKey (fun w => shuffle w r.1) (·.workID) r.2 := by
  intro rounds s hc pre r post _
  have hpre : ∀ (l : List (String × List CheckResult)) (st : Sorter), st.Coherent shuffle →
      (l.foldl (fun st q => (st.order shuffle q.1 q.2).1) st).Coherent shuffle := by
    intro l
    induction l with
    | nil => intro st h; exact h
    | cons q qs ih => intro st h; exact ih _ (sorter_refines_canonical shuffle st h q.1 q.2).2
  exact (sorter_refines_canonical shuffle _ (hpre pre s hc) r.1 r.2).1

/-! ### the measurement reads the CURRENT results (state a hook might keep about a result across rounds)

Between two observations of one window a staged result can be replaced by a re-check on a higher block: the same unit of
work (work id), another check block / hash / gas / prices / perform data — another encoded length.  The model measures an
observation with `SizeInfo.encLen` on the results it carries now. -/

/-- the number of performables — and with it the observation — depends on the encoder only through the lengths of the
current candidates: whatever an encoder says about OTHER results (earlier versions of the same work among them) is
irrelevant -/
theorem performablesOf_congr (ctx : Ctx) (lim : Limits) (maxLen : Nat) (staged : List CheckResult)
    (inflight : CheckResult → Bool) (si si' : SizeInfo) (hb : si.base = si'.base)
    (h : ∀ r ∈ canonical ctx staged inflight, si.encLen r = si'.encLen r) :
    performablesOf ctx lim maxLen staged inflight si = performablesOf ctx lim maxLen staged inflight si' := by
  have hs : sizeOf si (canonical ctx staged inflight) = sizeOf si' (canonical ctx staged inflight) := by
    funext k
    have : ((canonical ctx staged inflight).take k).map si.encLen = ((canonical ctx staged inflight).take k).map si'.encLen :=
      List.map_congr_left (fun r hr => h r (List.mem_of_mem_take hr))
    simp only [sizeOf, this, hb]
  simp only [performablesOf, performablesK, hs, hb]

/-! ### non-vacuity -/

private def exR (w : String) : CheckResult :=
  { (default : CheckResult) with workID := w, eligible := true, gas := 1 }
private def exCtx : Ctx := { F := 1, utg := fun _ => .log, wg := fun _ _ => "", key := fun w => w, uid := fun r => r.workID }
private def exLim : Limits := ⟨2, 5, 5, 256, 100, 50, 20⟩

/-- `performablesOf_congr` is sharp: the measurement does depend on the current candidates' lengths.  Measuring candidates
with the length of the results they REPLACED (same work ids, shorter encodings) keeps a list whose real encoding exceeds
the limit.  Five candidates of 50 bytes each, base 10, limit 200: the real measurement (262 > 200) keeps two (109); with
the stale lengths (36 bytes each: 192) all five stay. -/
theorem stale_lengths_break_fit :
    let c := [exR "a", exR "b", exR "c", exR "d", exR "e"]
    let lim := { exLim with obsPerformables := 5 }
    let real : SizeInfo := ⟨10, fun _ => 50⟩
    let stale : SizeInfo := ⟨10, fun _ => 36⟩
    performablesK lim 200 real c = 2 ∧ sizeOf real c (performablesK lim 200 real c) ≤ 200 ∧
    performablesK lim 200 stale c = 5 ∧ ¬ sizeOf real c (performablesK lim 200 stale c) ≤ 200 := by
  decide

/-- two stores with the same three candidates inserted in different orders (and a different in-flight fourth) -/
example :
    let s₁ := [exR "c", exR "a", exR "b", exR "x"]
    let s₂ := [exR "a", exR "b", exR "c"]
    let i₁ : CheckResult → Bool := fun r => r.workID == "x"
    let i₂ : CheckResult → Bool := fun _ => false
    s₁ ≠ s₂ ∧
      performablesOf exCtx exLim 1000 s₁ i₁ ⟨60, fun _ => 100⟩ = [exR "a", exR "b"] ∧
      performablesOf exCtx exLim 1000 s₂ i₂ ⟨60, fun _ => 100⟩ = [exR "a", exR "b"] := by
  intro s₁ s₂ i₁ i₂
  have hc : canonical exCtx s₂ i₂ = s₂ := by
    unfold canonical sortByKey
    exact List.mergeSort_of_pairwise (by decide)
  have h2 : performablesOf exCtx exLim 1000 s₂ i₂ ⟨60, fun _ => 100⟩ = [exR "a", exR "b"] := by
    unfold performablesOf
    rw [hc]
    decide
  have hp : (candidates s₁ i₁).Perm (candidates s₂ i₂) := by decide
  have hinj : ∀ a ∈ candidates s₁ i₁, ∀ b ∈ candidates s₁ i₁, exCtx.key a.workID = exCtx.key b.workID → a = b := by
    decide
  exact ⟨by decide, (insertion_order_irrelevant exCtx exLim 1000 s₁ s₂ i₁ i₂ _ hp hinj).trans h2, h2⟩

/-- the trimming at work: 100 results of 14 000 bytes, base 40 000, limit 1 000 000: 1 440 097 bytes → average 14 000 →
`ceil(440 097 / 14 000) = 32`, `limit = 100 − 33 = 67` → 978 064 bytes, fits -/
example : trim 1000000 40000 (fun k => if k = 0 then 40000 else 40000 + k * 14000 + k - 3) 100 100 = 67 := by
  decide

/-- the `limit <= 0` exit exists: two results of 600 000 bytes — far beyond the on-chain cap — leave an oversize
observation with both of them -/
example : trim 1000000 40000 (fun k => if k = 0 then 40000 else 40000 + k * 600000 + k - 3) 2 2 = 2 ∧
    stuckAt 1000000 40000 (fun k => if k = 0 then 40000 else 40000 + k * 600000 + k - 3) 2 = true := by
  decide

/-- the hypotheses of `observation_fits_onchain_cap` are met by a full store of maximal results -/
example : (∀ r ∈ List.replicate 3000 (exR "w"), (⟨60000, fun _ => 14500⟩ : SizeInfo).encLen r ≤ 14500) ∧
    (⟨60000, fun _ => 14500⟩ : SizeInfo).base ≤ 900000 := by
  exact ⟨fun _ _ => Nat.le_refl _, by decide⟩

end AutoVerif.C08
