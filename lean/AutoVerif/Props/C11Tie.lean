import AutoVerif.Props.C11
import AutoVerif.Gen.Consts
/-
C11Tie — the tie theorems of Props/C11.lean (`…_matches_source`): the model's decision functions equal the
decision expressions `AutoVerif.Gen.Src.*` that the extractor regenerates from the Go source on every check run
(docs/TIE_THEOREMS.md).  They live in a module of their own, which nothing but AutoVerif.lean (and another
property's Tie module, where a tie is reused) imports: a source change that breaks a tie here breaks this
property's check (bin/check audits every module `Props/C11*.lean`) and not the build of the theorem
modules of other properties that import Props/C11.lean.
-/
namespace AutoVerif.C11

/-! ### the model's decision points are the source's (regenerated `Gen.Src` expressions) -/

/-- `expiringRecord.expired`: the model's expiry test is `time.Since(r.createdAt) > expr` as translated -/
theorem recExpired_matches_source (expr now : Nat) (r : Rec) :
    recExpired expr now r = Gen.Src.c11RecordExpired (now - r.createdAt) expr := rfl

/-- `proposalQueueRecord.expired` with the `proposalExpiry` constant: `now.Sub(r.createdAt) > expr` -/
theorem qExpired_matches_source (now : Nat) (r : QRec) :
    qExpired now r = Gen.Src.c11QueueRecordExpired (now - r.createdAt) Gen.proposalExpiryNs := rfl

/-- one iteration of the view loops: the branch is taken on the `if` condition of
`viewLogRecoveryProposal` (`record.expired(logRecoveryExpiry)`) -/
theorem viewLoop_matches_source_log (now : Nat) (key : String) (ks : List String) (m : OMap) (res : List Proposal)
    (r : Rec) (hg : m.get key = some r) :
    viewLoop Gen.logRecoveryExpiryNs now (key :: ks) m res =
      if Gen.Src.c11ViewLogPurges (Gen.Src.c11RecordExpired (now - r.createdAt) Gen.logRecoveryExpiryNs) then
        viewLoop Gen.logRecoveryExpiryNs now ks (m.delete key) res
      else viewLoop Gen.logRecoveryExpiryNs now ks m (res ++ [r.proposal]) := by
  rw [viewLoop, hg]; rfl

/-- … and of `viewConditionalProposal` (`record.expired(conditionalExpiry)`) -/
theorem viewLoop_matches_source_cond (now : Nat) (key : String) (ks : List String) (m : OMap) (res : List Proposal)
    (r : Rec) (hg : m.get key = some r) :
    viewLoop Gen.conditionalExpiryNs now (key :: ks) m res =
      if Gen.Src.c11ViewCondPurges (Gen.Src.c11RecordExpired (now - r.createdAt) Gen.conditionalExpiryNs) then
        viewLoop Gen.conditionalExpiryNs now ks (m.delete key) res
      else viewLoop Gen.conditionalExpiryNs now ks m (res ++ [r.proposal]) := by
  rw [viewLoop, hg]; rfl

/-- `ViewProposals` runs those loops with those two constants -/
theorem viewProposals_matches_source (now : Nat) (s : MStore) :
    (s.viewProposals logT now).1 = (s.log.view Gen.logRecoveryExpiryNs now).1 ∧
    (s.viewProposals condT now).1 = (s.cond.view Gen.conditionalExpiryNs now).1 := by
  constructor <;> simp [MStore.viewProposals, logT, condT]

/-- `Enqueue`: a proposal for a queued work id is skipped exactly under the source's comparison
`existing.proposal.Trigger.BlockNumber >= p.Trigger.BlockNumber` -/
theorem enqueue1_matches_source (now : Nat) (q : Queue) (p : Proposal) (ex : QRec) (hex : q.get p.workID = some ex) :
    enqueue1 now q p =
      if Gen.Src.c11EnqueueSkips ex.proposal.trigger.blockNumber p.trigger.blockNumber then q
      else q.set p.workID { proposal := p, removed := false, createdAt := now } := by
  unfold enqueue1
  simp only [hex, Gen.Src.c11EnqueueSkips, decide_eq_true_eq]

/-- `Dequeue`, first loop: the three tests of the source, in the source's order (expired → delete,
removed → skip, type matches → candidate) -/
theorem dequeueScan_matches_source (tg : String → Nat) (t now : Nat) (k : String) (ks : List String) (q : Queue)
    (acc : List Proposal) (r : QRec) (hg : q.get k = some r) :
    dequeueScan tg t now (k :: ks) q acc =
      if Gen.Src.c11DequeuePurges (Gen.Src.c11QueueRecordExpired (now - r.createdAt) Gen.proposalExpiryNs) then
        dequeueScan tg t now ks (q.del r.proposal.workID) acc
      else if Gen.Src.c11DequeueSkipsHanded r.removed then dequeueScan tg t now ks q acc
      else if Gen.Src.c11DequeueTypeMatches (tg r.proposal.upkeepID) t then
        dequeueScan tg t now ks q (acc ++ [r.proposal])
      else dequeueScan tg t now ks q acc := by
  rw [dequeueScan, hg]
  simp only [Gen.Src.c11DequeuePurges, Gen.Src.c11DequeueSkipsHanded, Gen.Src.c11DequeueTypeMatches,
    decide_eq_true_eq]
  rfl

/-- `Observation`: the pre-build hooks are run under exactly the source's guard — nothing but the presence
of a previous outcome decides it (in particular not whether the same outcome was applied before) -/
theorem observation_guard_matches_source (prevNotNil : Bool) (prevLen : Nat) :
    observationAppliesOutcome prevNotNil prevLen = Gen.Src.c11ObservationAppliesOutcome prevNotNil prevLen := rfl

/-- `Dequeue`, the limit: `if len(proposals) < n { n = len(proposals) }; proposals[:n]` -/
theorem dequeue_limit_matches_source (cands : List Proposal) (n : Nat) :
    cands.take n = cands.take (if Gen.Src.c11DequeueFewerThanLimit cands.length n then cands.length else n) := by
  simp only [Gen.Src.c11DequeueFewerThanLimit, decide_eq_true_eq]
  split
  · rename_i h; rw [List.take_of_length_le (Nat.le_of_lt h), List.take_of_length_le (Nat.le_refl _)]
  · rfl

/-! ### decision trees: the order of the tests, the nesting, the arms and the exits are the source's -/

/-- `Enqueue`, body of the loop over the new proposals: the record is looked up first, the block comparison is
tested only for a queued work id; exit 1 is a `continue` (the proposal is skipped), every other path reaches the
insertion `pq.records[p.WorkID] = …` (exit 2, a marked effect) — and the model does exactly that. -/
theorem enqueue1_tree_matches_source (now : Nat) (q : Queue) (p : Proposal) :
    enqueue1 now q p =
      (let queued := (q.get p.workID).isSome
       let queuedBlock := match q.get p.workID with | some ex => ex.proposal.trigger.blockNumber | none => 0
       match Gen.Src.c11EnqueueTree queued queuedBlock p.trigger.blockNumber with
       | 1 => q
       | 2 => q.set p.workID { proposal := p, removed := false, createdAt := now }
       | _ => q) ∧
    Gen.Src.c11EnqueueTreeKind 1 = 2 ∧ Gen.Src.c11EnqueueTreeKind 2 = 4 := by
  refine ⟨?_, rfl, rfl⟩
  unfold enqueue1
  cases hg : q.get p.workID with
  | none => simp [Gen.Src.c11EnqueueTree]
  | some ex =>
    by_cases hge : ex.proposal.trigger.blockNumber ≥ p.trigger.blockNumber <;>
      simp [Gen.Src.c11EnqueueTree, hge]

/-- `Dequeue`, body of the first loop (over the records): expiry is tested first (exit 1: delete and `continue`),
then the dequeued flag (exit 2: `continue`), then the type: a match reaches `proposals = append(…)` (exit 3),
anything else falls off the end of the body (exit 0).  Exits 1 and 2 are `continue`s, not `break`s or `return`s. -/
theorem dequeueScan_tree_matches_source (tg : String → Nat) (t now : Nat) (k : String) (ks : List String) (q : Queue)
    (acc : List Proposal) (r : QRec) (hg : q.get k = some r) :
    dequeueScan tg t now (k :: ks) q acc =
      (match Gen.Src.c11DequeueScanTree (qExpired now r) r.removed (tg r.proposal.upkeepID) t with
       | 1 => dequeueScan tg t now ks (q.del r.proposal.workID) acc
       | 2 => dequeueScan tg t now ks q acc
       | 3 => dequeueScan tg t now ks q (acc ++ [r.proposal])
       | _ => dequeueScan tg t now ks q acc) ∧
    Gen.Src.c11DequeueScanTreeKind 1 = 2 ∧ Gen.Src.c11DequeueScanTreeKind 2 = 2 ∧
    Gen.Src.c11DequeueScanTreeKind 3 = 4 := by
  refine ⟨?_, rfl, rfl, rfl⟩
  rw [dequeueScan, hg]
  simp only [Gen.Src.c11DequeueScanTree]
  cases he : qExpired now r <;> cases hr : r.removed <;> by_cases ht : tg r.proposal.upkeepID = t <;> simp [ht]

/-- `ViewProposals`: the switch on the upkeep type — log recovery first, conditional second, anything else `nil`;
all three exits are `return`s -/
theorem viewProposals_tree_matches_source (t now : Nat) (s : MStore) :
    s.viewProposals t now =
      (match Gen.Src.c11ViewProposalsTree t with
       | 1 => ((s.log.view Gen.logRecoveryExpiryNs now).1, { s with log := (s.log.view Gen.logRecoveryExpiryNs now).2 })
       | 2 => ((s.cond.view Gen.conditionalExpiryNs now).1, { s with cond := (s.cond.view Gen.conditionalExpiryNs now).2 })
       | _ => ([], s)) ∧
    (∀ e, e = 1 ∨ e = 2 ∨ e = 3 → Gen.Src.c11ViewProposalsTreeKind e = 1) := by
  refine ⟨?_, by rintro e (rfl | rfl | rfl) <;> rfl⟩
  unfold MStore.viewProposals
  simp only [Gen.Src.c11ViewProposalsTree, logT, condT]
  by_cases h1 : t = 1
  · simp [h1]
  · by_cases h0 : t = 0
    · simp [h0]
    · simp [h1, h0]

/-- `coordinatedProposalsTick.Value`: a failed `Dequeue` (exit 2) and a failed `BuildPayloads` (exit 3) are tested
in that order, each with its own `err`; both return `(nil, err)` — no payloads, an error —; only the last statement
(exit 4) returns payloads, and it returns no error; without a queue (exit 1) the tick returns `(nil, nil)`.  The
model's tick (the real queue never fails; `ok` = the builder did not fail) hands on its dequeued batch exactly at
the exit that returns payloads. -/
theorem tick_tree_matches_source (tg : String → Nat) (st : St) (t n : Nat) (order : List String) (ok : Bool) :
    stepOut tg st (.tick t n order ok) =
      (if Gen.Src.c11TickValueTreeNil1 (Gen.Src.c11TickValueTree false false (!ok)) then some []
       else some (dequeue tg t n st.now order st.q).1) ∧
    -- which exits carry what: (payloads nil?, error nil?)
    (Gen.Src.c11TickValueTreeNil1 1, Gen.Src.c11TickValueTreeNil2 1) = (true, true) ∧
    (Gen.Src.c11TickValueTreeNil1 2, Gen.Src.c11TickValueTreeNil2 2) = (true, false) ∧
    (Gen.Src.c11TickValueTreeNil1 3, Gen.Src.c11TickValueTreeNil2 3) = (true, false) ∧
    (Gen.Src.c11TickValueTreeNil1 4, Gen.Src.c11TickValueTreeNil2 4) = (false, true) ∧
    (∀ dq bf, Gen.Src.c11TickValueTree false dq bf = if dq then 2 else if bf then 3 else 4) ∧
    (∀ e, e = 1 ∨ e = 2 ∨ e = 3 ∨ e = 4 → Gen.Src.c11TickValueTreeKind e = 1) := by
  refine ⟨?_, rfl, rfl, rfl, rfl, ?_, by rintro e (rfl | rfl | rfl | rfl) <;> rfl⟩
  · cases ok <;> simp [stepOut, Gen.Src.c11TickValueTree, Gen.Src.c11TickValueTreeNil1]
  · intro dq bf; cases dq <;> cases bf <;> simp [Gen.Src.c11TickValueTree]

/-! Trees with ONE marked statement each: exit 1 = "this very statement is reached" (marks are numbered by
position, so only a single mark identifies the statement by its text). -/

/-- `orderedMap.Add`: the key is appended to the key slice exactly when it is absent from the value map; the
value is stored either way -/
theorem add_tree_matches_source (m : OMap) (key : String) (v : Rec) :
    m.add key v =
      (match Gen.Src.c11AddAppendsKeyTree (m.values.get key).isSome with
       | 1 => { keys := m.keys ++ [key], values := m.values.set key v }
       | _ => { m with values := m.values.set key v }) ∧
    Gen.Src.c11AddAppendsKeyTreeKind 1 = 4 := by
  refine ⟨?_, rfl⟩
  unfold OMap.add
  cases h : (m.values.get key).isSome <;> simp [Gen.Src.c11AddAppendsKeyTree]

/-- the log view loop's body: the `Delete` is reached exactly for an expired record, the `append` to the result
exactly for an unexpired one — never both, never neither -/
theorem viewLoop_tree_matches_source_log (now : Nat) (key : String) (ks : List String) (m : OMap) (res : List Proposal)
    (r : Rec) (hg : m.get key = some r) :
    viewLoop Gen.logRecoveryExpiryNs now (key :: ks) m res =
      (let e := recExpired Gen.logRecoveryExpiryNs now r
       let m' := if Gen.Src.c11ViewLogPurgeTree e = 1 then m.delete key else m
       let res' := if Gen.Src.c11ViewLogReturnTree e = 1 then res ++ [r.proposal] else res
       viewLoop Gen.logRecoveryExpiryNs now ks m' res') := by
  rw [viewLoop, hg]
  cases h : recExpired Gen.logRecoveryExpiryNs now r <;>
    simp [Gen.Src.c11ViewLogPurgeTree, Gen.Src.c11ViewLogReturnTree, h]

/-- … and the conditional view loop's body -/
theorem viewLoop_tree_matches_source_cond (now : Nat) (key : String) (ks : List String) (m : OMap) (res : List Proposal)
    (r : Rec) (hg : m.get key = some r) :
    viewLoop Gen.conditionalExpiryNs now (key :: ks) m res =
      (let e := recExpired Gen.conditionalExpiryNs now r
       let m' := if Gen.Src.c11ViewCondPurgeTree e = 1 then m.delete key else m
       let res' := if Gen.Src.c11ViewCondReturnTree e = 1 then res ++ [r.proposal] else res
       viewLoop Gen.conditionalExpiryNs now ks m' res') := by
  rw [viewLoop, hg]
  cases h : recExpired Gen.conditionalExpiryNs now r <;>
    simp [Gen.Src.c11ViewCondPurgeTree, Gen.Src.c11ViewCondReturnTree, h]

/-- `AddProposals`, per proposal: `addLogRecoveryProposal` is reached exactly for the log type,
`addConditionalProposal` exactly for the conditional type, nothing for any other type -/
theorem add1_tree_matches_source (tg : String → Nat) (now : Nat) (s : MStore) (p : Proposal) :
    MStore.add1 tg now s p =
      (if Gen.Src.c11AddsLogTree (tg p.upkeepID) = 1 then
         { s with log := s.log.add p.workID { createdAt := now, proposal := p } }
       else if Gen.Src.c11AddsCondTree (tg p.upkeepID) = 1 then
         { s with cond := s.cond.add p.workID { createdAt := now, proposal := p } }
       else s) ∧
    ¬ (Gen.Src.c11AddsLogTree (tg p.upkeepID) = 1 ∧ Gen.Src.c11AddsCondTree (tg p.upkeepID) = 1) := by
  unfold MStore.add1
  simp only [Gen.Src.c11AddsLogTree, Gen.Src.c11AddsCondTree, logT, condT]
  by_cases h1 : tg p.upkeepID = 1
  · simp [h1]
  · by_cases h0 : tg p.upkeepID = 0
    · simp [h0]
    · simp [h1, h0]

/-- `RemoveProposals`, per proposal: likewise for the two removals -/
theorem remove1_tree_matches_source (tg : String → Nat) (s : MStore) (p : Proposal) :
    MStore.remove1 tg s p =
      (if Gen.Src.c11RemovesLogTree (tg p.upkeepID) = 1 then { s with log := s.log.delete p.workID }
       else if Gen.Src.c11RemovesCondTree (tg p.upkeepID) = 1 then { s with cond := s.cond.delete p.workID }
       else s) ∧
    ¬ (Gen.Src.c11RemovesLogTree (tg p.upkeepID) = 1 ∧ Gen.Src.c11RemovesCondTree (tg p.upkeepID) = 1) := by
  unfold MStore.remove1
  simp only [Gen.Src.c11RemovesLogTree, Gen.Src.c11RemovesCondTree, logT, condT]
  by_cases h1 : tg p.upkeepID = 1
  · simp [h1]
  · by_cases h0 : tg p.upkeepID = 0
    · simp [h0]
    · simp [h1, h0]

/-! ### build hooks of the observation, proposal filterer, `orderedMap.Delete`, `Start` -/

/-- `AddLogProposalsHook.RunHook`: the list is cut exactly under the source's `len(proposals) > limit` -/
theorem cutTo_matches_source_log (limit : Nat) (l : List Proposal) :
    cutTo limit l = if Gen.Src.c11LogHookCuts l.length limit then l.take limit else l := by
  simp [cutTo, Gen.Src.c11LogHookCuts]

/-- `AddConditionalProposalsHook.RunHook`: likewise, `len(conditionals) > limit` -/
theorem cutTo_matches_source_cond (limit : Nat) (l : List Proposal) :
    cutTo limit l = if Gen.Src.c11CondHookCuts l.length limit then l.take limit else l := by
  simp [cutTo, Gen.Src.c11CondHookCuts]

/-- both hooks: the only way out other than `return nil` at the end is the coordinator filter's error; cut or
not, the hook returns `nil` after appending (the model's hook is total: the idle coordinator never fails) -/
theorem hook_tree_matches_source (tooMany : Bool) :
    Gen.Src.c11LogHookTree false tooMany = 2 ∧ Gen.Src.c11LogHookTreeNil1 2 = true ∧
    Gen.Src.c11LogHookTree true tooMany = 1 ∧ Gen.Src.c11LogHookTreeNil1 1 = false ∧
    Gen.Src.c11CondHookTree false tooMany = 2 ∧ Gen.Src.c11CondHookTreeNil1 2 = true ∧
    Gen.Src.c11CondHookTree true tooMany = 1 ∧ Gen.Src.c11CondHookTreeNil1 1 = false := by
  cases tooMany <;> decide

/-- `proposalFilterer.PreProcess`, loop body: a payload is appended to the result exactly when its work id is
not among the viewed proposals (`!ok` of the lookup in the flattened view) -/
theorem filterPayloads_tree_matches_source (view ps : List Proposal) :
    filterPayloads view ps =
      ps.filter (fun p => Gen.Src.c11FiltererLoopTree (!(view.any (fun v => v.workID == p.workID))) == 1) ∧
    Gen.Src.c11FiltererLoopTreeKind 1 = 4 ∧ Gen.Src.c11FiltererLoopTreeMark 1 = 1 := by
  refine ⟨?_, rfl, rfl⟩
  unfold filterPayloads
  apply List.filter_congr
  intro p _
  cases h : view.any (fun v => v.workID == p.workID) <;> simp [Gen.Src.c11FiltererLoopTree]

/-- `orderedMap.Delete`: no decision outside the search loop (nothing depends on sizes, capacities or on
whether the key was found), and the loop removes the FIRST occurrence and stops (`break`) -/
theorem delete_tree_matches_source (x key : String) (xs : List String) :
    Gen.Src.c11DeleteTree = 0 ∧
    (x :: xs).erase key = (if Gen.Src.c11DeleteLoopTree (x == key) = 1 then xs else x :: xs.erase key) ∧
    Gen.Src.c11DeleteLoopTreeKind 1 = 3 := by
  refine ⟨rfl, ?_, rfl⟩
  rw [List.erase_cons]
  cases h : x == key <;> simp [Gen.Src.c11DeleteLoopTree]

/-- `metadataStore.Start`: refused with an error exactly when the running flag is set; otherwise the flag is
set (the marked statement) — and nothing else is decided before the service loop -/
theorem life_start_tree_matches_source (l : Life) :
    l.start = (if Gen.Src.c11StartTree l.running = 1 then (l, false) else ({ running := true }, true)) ∧
    Gen.Src.c11StartTreeNil1 1 = false ∧ Gen.Src.c11StartTreeKind 2 = 4 ∧ Gen.Src.c11StartTreeMark 2 = 1 := by
  refine ⟨?_, rfl, rfl, rfl⟩
  cases l with
  | mk r => cases r <;> rfl

end AutoVerif.C11
